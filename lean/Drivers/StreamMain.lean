import Drivers.Stream
def main : IO Unit := Drivers.runLoop () (fun _ ws => ((), Drivers.Stream.step ws))
