import OvniModel.Emu.Task
import Drivers.Util
/-! Line-protocol driver for C07 (stateful): `task …` drives the task.c/body.c
    model, `emu …` the nOS-V / Nanos6 `update_task` layer. -/
namespace Drivers.Task
open Ovni.Task

structure ProcSt where
  pid : Nat
  model : Model
  info : ProcInfo
  emu : Emu
  threads : List Nat

structure St where
  sys : Sys := Sys.init
  nstacks : Nat := 0
  taskIds : List Nat := []       -- ids ever passed to `task create` (dump order: sorted)
  bodyIds : List Nat := []       -- body ids ever mentioned
  failed : Bool := false
  procs : List ProcSt := []
  efailed : Bool := false

def insertSorted (x : Nat) : List Nat → List Nat
  | [] => [x]
  | y :: r => if x < y then x :: y :: r else if x = y then y :: r else y :: insertSorted x r

def showState : BodyState → String
  | .created => "C" | .running => "R" | .paused => "P" | .dead => "D"

def showOptNat : Option Nat → String
  | none => "-"
  | some n => toString n

def dumpBody (B : Body) : String :=
  s!"B{B.id}:{showState B.state}:{showOptNat B.stack}:{B.iteration}:{B.flags.toNat}"

def dumpTask (st : St) (t : Nat) : Option String :=
  match st.sys.tasks t with
  | none => none
  | some T =>
    let bs := st.bodyIds.filterMap fun b => (st.sys.bodies t b).map dumpBody
    some s!"T{T.id}:{T.typeId}:{T.gid}:{T.nbodies}:{T.flags.toNat}[{",".intercalate bs}]"

def dumpStack (st : St) (s : Nat) : String :=
  let l := st.sys.stacks s
  s!"S{s}:" ++ (if l.isEmpty then "-" else ",".intercalate (l.map fun r => s!"{r.1}.{r.2}"))

def dump (st : St) : String :=
  let ts := st.taskIds.filterMap (dumpTask st)
  let ss := (List.range st.nstacks).map (dumpStack st)
  (if ts.isEmpty then "-" else ";".intercalate ts) ++ " | " ++ ";".intercalate ss

def unitOp (st : St) (op : Op) (tid bid : Option Nat) (probe : Bool := false) : St × String :=
  if st.failed then (st, "skip") else
  let st := { st with taskIds := match tid with | some t => insertSorted t st.taskIds | none => st.taskIds,
                      bodyIds := match bid with | some b => insertSorted b st.bodyIds | none => st.bodyIds }
  match Ovni.Task.step st.sys op with
  | .error _ => ({ st with failed := !probe }, "err")
  | .ok σ =>
    let st := { st with sys := σ }
    (st, "ok " ++ dump st)

/-- `probe`: a failing operation does not end the case (only used for
    operations whose failure leaves the C state untouched). -/
def stateOp (st : St) (probe : Bool) (o s t b : String) : St × String :=
  match s.toNat?, t.toNat?, b.toNat? with
  | some s, some t, some b =>
    match o with
    | "exec" => unitOp st (.exec s t b) none (some b) probe
    | "pause" => unitOp st (.pause s t b) none (some b) probe
    | "resume" => unitOp st (.resume s t b) none (some b) probe
    | "end" => unitOp st (.end_ s t b) none (some b) probe
    | _ => (st, "bad-op")
  | _, _, _ => (st, "bad-op")

def stepUnit (st : St) (args : List String) : St × String :=
  match args with
  | ["reset", n] =>
    match n.toNat? with
    | some n => ({ st with sys := Sys.init, nstacks := n, taskIds := [], bodyIds := [], failed := false }, "ok")
    | none => (st, "bad-op")
  | ["type", ty, _label, h] =>
    match ty.toNat?, h.toNat? with
    | some ty, some h => unitOp st (.typeCreate ty (gidOf h)) none none
    | _, _ => (st, "bad-op")
  | ["create", t, ty, f] =>
    match t.toNat?, ty.toNat?, f.toNat? with
    | some t, some ty, some f => unitOp st (.create ty t (TaskFlags.ofNat f)) (some t) none
    | _, _, _ => (st, "bad-op")
  | [o, s, t, b] => stateOp st false o s t b
  | ["probe", o, s, t, b] => stateOp st true o s t b
  | _ => (st, "bad-op")

def showChan : Option Int → String
  | none => "0"
  | some v => toString v

def showChans (c : Chans) : String :=
  s!"{showChan c.taskid} {showChan c.typ} {showChan c.bodyid} {showChan c.appid} {showChan c.rank}"

def updProc (st : St) (p : ProcSt) : St :=
  { st with procs := st.procs.map fun q => if q.pid = p.pid then p else q }

def emuEv (st : St) (pid : Nat) (th : Option Nat) (ev : Ev) : St × String :=
  if st.efailed then (st, "skip") else
  match st.procs.find? (·.pid = pid) with
  | none => (st, "bad-op")
  | some p =>
    match Emu.step p.model p.info p.emu ev with
    | .error _ => ({ st with efailed := true }, "err")
    | .ok ε =>
      let p := { p with emu := ε, threads := match th with
                                              | some t => insertSorted t p.threads
                                              | none => p.threads }
      (updProc st p, match th with
                     | some t => "ok " ++ showChans (ε.ch t)
                     | none => "ok")

def parseTaskEv : String → Option TaskEv
  | "x" => some .x | "e" => some .e | "p" => some .p | "r" => some .r | _ => none

def stepEmu (st : St) (args : List String) : St × String :=
  match args with
  | ["reset"] => ({ st with procs := [], efailed := false }, "ok")
  | ["proc", p, m, appid, rank] =>
    match p.toNat?, appid.toInt?, rank.toInt? with
    | some p, some a, some r =>
      let model := if m = "6" then Model.nanos6 else Model.nosv
      ({ st with procs := st.procs ++ [⟨p, model, ⟨a, r⟩, Emu.init, []⟩] }, "ok")
    | _, _, _ => (st, "bad-op")
  | ["type", p, ty, h, fits] =>
    match p.toNat?, ty.toNat?, h.toNat? with
    | some p, some ty, some h => emuEv st p none (.typeCreate ty h (fits = "1"))
    | _, _, _ => (st, "bad-op")
  | ["create", p, c, t, ty] =>
    match p.toNat?, t.toNat?, ty.toNat? with
    | some p, some t, some ty => emuEv st p none (.taskCreate (c = "C") t ty)
    | _, _, _ => (st, "bad-op")
  | ["task", p, th, v, t, b] =>
    match p.toNat?, th.toNat?, parseTaskEv v, t.toNat?, b.toNat? with
    | some p, some th, some v, some t, some b => emuEv st p (some th) (.task th v t b)
    | _, _, _, _, _ => (st, "bad-op")
  | ["sspush", p, th, v] =>
    match p.toNat?, th.toNat?, v.toInt? with
    | some p, some th, some v => emuEv st p (some th) (.ssPush th v)
    | _, _, _ => (st, "bad-op")
  | ["sspop", p, th, v] =>
    match p.toNat?, th.toNat?, v.toInt? with
    | some p, some th, some v => emuEv st p (some th) (.ssPop th v)
    | _, _, _ => (st, "bad-op")
  | ["finish"] =>
    if st.efailed then (st, "skip")
    else if st.procs.all fun p => p.emu.lintOk p.threads then (st, "ok") else (st, "err")
  | _ => (st, "bad-op")

def step (st : St) (ws : List String) : St × String :=
  match ws with
  | "task" :: r => stepUnit st r
  | "emu" :: r => stepEmu st r
  | _ => (st, "bad-op")

end Drivers.Task
