import OvniModel.Rt.Conc
import OvniModel.Generated.Consts
import Drivers.Util
import Drivers.Rt
import Std.Data.HashSet
namespace Drivers.Conc
open Ovni.Rt Ovni.Rt.Conc Drivers.Rt

/-! Driver for the interleaving model (C11).

  race <init|fini> <N> gen            all interleavings of N racing calls, step lists from the generated table
  race <init|fini> <N> ops k,a,b ...  the same for a given list of `rproc.st` operations (raw encoding)
      -> "once states=<n> terminals=<m>"  |  "violation returned=<r> sched=<i,i,...>"
  publish gen                         one thread in ovni_proc_init, one calling ovni_thread_init concurrently:
      -> "safe states=<n>"  |  "violation sched=<i,i,...>" (READY visible while the initialiser has steps left)
  mt <seed> | <script 0> | <script 1> | ...   (scripts as for drv_rt, ops separated by ';')
      -> the drv_rt result line of every thread, joined by " | ", under a pseudo-random schedule
-/

def idleThr : Thr Pat := {}

def returned (x : Thr Pat) : Bool := !x.dead && x.pend.isEmpty && x.calls.isEmpty
def finished (x : Thr Pat) : Bool := x.dead || (x.pend.isEmpty && x.calls.isEmpty)

def stKey : PSt → String
  | .uninit => "u" | .init => "i" | .ready => "r" | .gone => "g"

def key (n : Nat) (c : Cfg Pat) : String :=
  stKey c.g.st ++ String.join ((List.range n).map fun i =>
    let x := c.th i
    s!"/{x.pend.length},{x.calls.length},{if x.dead then 1 else 0},{x.wins}")

structure Search where
  seen : Std.HashSet String := {}
  terminals : Nat := 0
  bad : Option (Nat × List Nat) := none

/-- Depth-first exploration of every interleaving (memoised on the control state). -/
def explore (fp : Foot) (n : Nat) : Nat → Cfg Pat → List Nat → Search → Search
  | 0, _, _, s => s
  | fuel + 1, c, path, s =>
    if s.bad.isSome then s else
    let k := key n c
    if s.seen.contains k then s else
    let s := { s with seen := s.seen.insert k }
    let live := (List.range n).filter fun i => !finished (c.th i)
    if live.isEmpty then
      let r := ((List.range n).filter fun i => returned (c.th i)).length
      if r = 1 then { s with terminals := s.terminals + 1 }
      else { s with terminals := s.terminals + 1, bad := some (r, path.reverse) }
    else
      live.foldl (fun s i => explore fp n fuel (tick fp 100 c i) (i :: path) s) s

def parseRaw (w : String) : Option (Nat × Nat × Nat) :=
  match (w.splitOn ",").map String.toNat? with
  | [some k, some a, some b] => some (k, a, b)
  | _ => none

def race (ws : List String) : String :=
  match ws with
  | which :: n :: src =>
    let fname := if which = "init" then "ovni_proc_init" else "ovni_proc_fini"
    let st0 := if which = "init" then PSt.uninit else PSt.ready
    let call : Nat → Call Pat := fun i =>
      if which = "init" then .procInit { app := 1, pid := 10 + i, loom := 1 } else .procFini
    let fp? : Option Foot := match src with
      | ["gen"] => some Foot.generated
      | "ops" :: ops =>
        (ops.mapM parseRaw).map fun l => { table := [], order := [(fname, l.map fun (k, a, b) => (k, a, b, "st"))] }
      | _ => none
    match n.toNat?, fp? with
    | some n, some fp =>
      if n = 0 ∨ n > 6 then "bad-op" else
      let c0 : Cfg Pat := { g := { st := st0 }, th := fun i => if i < n then { calls := [call i] } else idleThr }
      let s := explore fp n 10000 c0 [] {}
      match s.bad with
      | none => s!"once states={s.seen.size} terminals={s.terminals}"
      | some (r, path) => s!"violation returned={r} sched={",".intercalate (path.map toString)}"
    | _, _ => "bad-op"
  | _ => "bad-op"

/-- Every state reachable by one initialiser (thread 0) and one thread calling
    `ovni_thread_init` (thread 1): READY must imply that thread 0 has finished. -/
def explorePub (fp : Foot) : Nat → Cfg Pat → List Nat → Search → Search
  | 0, _, _, s => s
  | fuel + 1, c, path, s =>
    if s.bad.isSome then s else
    let k := key 2 c
    if s.seen.contains k then s else
    let s := { s with seen := s.seen.insert k }
    if c.g.st == .ready && !(returned (c.th 0)) then { s with bad := some (0, path.reverse) } else
    let live := (List.range 2).filter fun i => !finished (c.th i)
    live.foldl (fun s i => explorePub fp fuel (tick fp 100 c i) (i :: path) s) s

def publish (ws : List String) : String :=
  match ws with
  | ["gen"] =>
    let c0 : Cfg Pat :=
      { g := { st := .uninit },
        th := fun i => if i = 0 then { calls := [.procInit { app := 1, pid := 10, loom := 1 }] }
                       else if i = 1 then { t := { tid := 101, s := { now := 1000 } }, calls := [.threadInit 101] }
                       else idleThr }
    let s := explorePub Foot.generated 10000 c0 [] {}
    match s.bad with
    | none => s!"safe states={s.seen.size}"
    | some (_, path) => s!"violation sched={",".intercalate (path.map toString)}"
  | _ => "bad-op"

def toCall (tid : Nat) : Op Pat → Call Pat
  | .init => .threadInit tid
  | .free => .threadFree
  | .metaOp => .attrSet "k" "v"
  | op => .stream op

def lcg (s : Nat) : Nat := (s * 6364136223846793005 + 1442695040888963407) % 18446744073709551616

/-- Run under a pseudo-random schedule until every thread has finished. -/
def runRandom (fp : Foot) (cap n : Nat) : Nat → Nat → Cfg Pat → Cfg Pat
  | 0, _, c => c
  | fuel + 1, seed, c =>
    let live := (List.range n).filter fun i => !finished (c.th i)
    match live[(seed / 65536) % (max live.length 1)]? with
    | none => c
    | some i => runRandom fp cap n fuel (lcg seed) (tick fp cap c i)

/-- mark-metadata calls do not touch the stream: a metadata-only call here
    (their own guards are C17's subject, Drivers/Rt handles them) -/
def parseOpC (ws : List String) : Option (Op Pat) :=
  match ws with
  | "marktype" :: _ => some .metaOp
  | "marklabel" :: _ => some .metaOp
  | _ => parseOp ws

def mt (ws : List String) : String :=
  match Drivers.splitTok "|" ws with
  | [seed] :: scripts =>
    let progs := scripts.map fun line =>
      ((Drivers.splitTok ";" line).filter (fun l => !l.isEmpty)).mapM parseOpC
    match seed.toNat?, progs.mapM id with
    | some seed, some progs =>
      let n := progs.length
      let tidOf := fun i => 100 + i
      let c0 : Cfg Pat :=
        { g := { st := .ready, proc := { app := 1, pid := 1, loom := 0 } },
          th := fun i => match progs[i]? with
            | some p => { t := { tid := tidOf i, s := { now := 1000, tick := 1 } }, calls := p.map (toCall (tidOf i)) }
            | none => idleThr }
      let total := progs.foldl (fun a p => a + p.length) 0
      let c := runRandom Foot.generated Ovni.Generated.maxEvBuf n (total * 12 + 16) (lcg (seed + 1)) c0
      let line := fun (i : Nat) (p : List (Op Pat)) =>
        let x := c.th i
        let oc := if x.dead then s!"die@{p.length - x.calls.length - 1}" else
          if finished x then "returned" else "unfinished"
        let (hdr, recs) := match c.fs (tidOf i) .obs with
          | some (.obs h r) => (h, r)
          | _ => (false, [])
        s!"{oc} nflush={x.t.s.nflush} hdr={if hdr then 1 else 0} stream={",".intercalate (recs.map showRec)}"
      " | ".intercalate ((List.range n).zip progs |>.map fun (i, p) => line i p)
    | _, _ => "bad-op"
  | _ => "bad-op"

def step (ws : List String) : String :=
  match ws with
  | "race" :: r => race r
  | "mt" :: r => mt r
  | "publish" :: r => publish r
  | _ => "bad-op"

end Drivers.Conc
