import Drivers.System
def main : IO Unit := Drivers.runLoop ([] : List Ovni.Emu.System.StreamMeta) Drivers.System.step
