import Drivers.Bay
def main : IO Unit := Drivers.runLoop ({} : Drivers.Bay.S) Drivers.Bay.step
