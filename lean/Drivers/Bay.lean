import OvniModel.Emu.Bay
import Drivers.Util
/-! Line protocol of the bay/mux model (own executable `drv_bay`).  Same
    protocol as `harness/bay_c.c`. -/
namespace Drivers.Bay
open Ovni.Emu

structure S where
  bay : Bay := {}
  /-- a failed `propagate` leaves the C structures half-updated: stop there -/
  dead : Bool := false

def parseVal (s : String) : Option Value :=
  if s = "null" then some .null else s.toInt?.map .int

def showVal : Value → String
  | .null => "null"
  | .int i => toString i

def parseKind (s : String) : Option SelKind :=
  if s = "index" then some .byIndex
  else if s = "running" then some .thRunning
  else if s = "active" then some .thActive
  else none

def parseProps (c : Chan) : List String → Option Chan
  | [] => some c
  | "dup" :: r => parseProps { c with allowDup := true } r
  | "ignoredup" :: r => parseProps { c with ignoreDup := true } r
  | "dirtywrite" :: r => parseProps { c with dirtyWrite := true } r
  | _ => none

def unsetInputs (b : Bay) : Bool :=
  b.muxes.any fun m => m.inputs.any (·.isNone)

def res (s : S) (r : Except Err Bay) : S × String :=
  match r with
  | .ok b => ({ s with bay := b }, "ok")
  | .error _ => (s, "err")

def step (s : S) (ws : List String) : S × String :=
  match ws with
  | ["reset"] => ({}, "ok")
  | _ =>
  if s.dead then (s, "dead") else
  let b := s.bay
  match ws with
  | "chan" :: id :: ty :: props =>
    match id.toNat?, parseProps { isStack := decide (ty = "stack") } props with
    | some i, some c =>
      if i ≠ b.chans.length ∨ (ty ≠ "single" ∧ ty ≠ "stack") then (s, "bad-op")
      else ({ s with bay := (b.register c).1 }, "ok")
    | _, _ => (s, "bad-op")
  | ["emit", c] =>
    match c.toNat? with
    | some c => res s (b.addEmit c)
    | none => (s, "bad-op")
  | "mux" :: id :: sel :: out :: kind :: nin :: dflt =>
    match id.toNat?, sel.toNat?, out.toNat?, parseKind kind, nin.toNat?,
          (match dflt with | [] => some Value.null | [d] => parseVal d | _ => none) with
    | some i, some sel, some out, some k, some n, some d =>
      if i ≠ b.muxes.length then (s, "bad-op")
      else if n = 0 ∨ sel ≥ b.chans.length ∨ out ≥ b.chans.length then (s, "err")
      else match b.muxInit sel out k n with
        | .error _ => (s, "err")
        | .ok (b1, mi) => res s (b1.muxSetDefault mi d)
    | _, _, _, _, _, _ => (s, "bad-op")
  | ["input", m, i, c] =>
    match m.toNat?, i.toNat?, c.toNat? with
    | some m, some i, some c => res s (b.muxSetInput m i c)
    | _, _, _ => (s, "bad-op")
  | ["track", mode, sel, inp] =>
    match mode.toNat?, sel.toNat?, inp.toNat? with
    | some mode, some sel, some inp =>
      if sel ≥ b.chans.length ∨ inp ≥ b.chans.length then (s, "err")
      else match b.trackThread mode sel inp with
        | .ok (b1, out) => ({ s with bay := b1 }, s!"ok {out}")
        | .error _ => (s, "err")
    | _, _, _ => (s, "bad-op")
  | "cputrack" :: sel :: dflt :: raws =>
    match sel.toNat?, parseVal dflt, raws.mapM (·.toNat?) with
    | some sel, some d, some rs =>
      if rs.isEmpty ∨ sel ≥ b.chans.length ∨ rs.any (· ≥ b.chans.length) then (s, "err")
      else match b.trackCpu sel rs d with
        | .ok (b1, out) => ({ s with bay := b1 }, s!"ok {out}")
        | .error _ => (s, "err")
    | _, _, _ => (s, "bad-op")
  | ["set", c, v] =>
    match c.toNat?, parseVal v with
    | some c, some v => res s (b.chanSet c v)
    | _, _ => (s, "bad-op")
  | ["push", c, v] =>
    match c.toNat?, parseVal v with
    | some c, some v => res s (b.chanPush c v)
    | _, _ => (s, "bad-op")
  | ["pop", c, v] =>
    match c.toNat?, parseVal v with
    | some c, some v => res s (b.chanPop c v)
    | _, _ => (s, "bad-op")
  | ["propagate"] =>
    if unsetInputs b then (s, "err unset") else
    match b.propagate with
    | .ok (b1, em) =>
      ({ s with bay := b1 }, " ".intercalate ("ok" :: em.map fun (c, v) => s!"{c}={showVal v}"))
    | .error _ => ({ s with dead := true }, "err")
  | ["read", c] =>
    match c.toNat? with
    | some c =>
      if c < b.chans.length then
        let ch := b.chan c
        (s, s!"v={showVal ch.cur} last={showVal ch.last} dirty={if ch.dirty then 1 else 0} n={if ch.isStack then ch.vals.length else 0}")
      else (s, "err")
    | none => (s, "bad-op")
  | ["state", m] =>
    match m.toNat? with
    | some mi =>
      match b.muxes[mi]? with
      | some m =>
        let en := (List.range m.inputs.length).filter fun i =>
          match m.inputs[i]? with
          | some (some ic) => (b.cbsOf ic).contains (.muxInput mi i)
          | _ => false
        (s, s!"sel={match b.selOf mi with | some j => toString j | none => "-1"} en={",".intercalate (en.map toString)}")
      | none => (s, "err")
    | none => (s, "bad-op")
  | ["dirty"] => (s, " ".intercalate ("d" :: b.dirty.map toString))
  | _ => (s, "bad-op")

end Drivers.Bay
