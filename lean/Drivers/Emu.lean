import OvniModel.Emu.View
import OvniModel.Emu.MarkEmu
import Drivers.Util
namespace Drivers.Emu
open Ovni.Emu

structure S where
  threads : List (Int × Int × Nat) := []
  cpus : List (Nat × Int × Bool) := []
  emu : Option Emu := none
  failed : Bool := false
  /-- mark definitions per thread (gindex order kept by insertion: (thread, def)) -/
  marks : List (Nat × MarkIn) := []
  marktab : List MarkType := []

def errName : Err → String
  | .chanType => "chan" | .chanDirty => "chan-dirty" | .chanDup => "chan-dup" | .stackFull => "stack-full"
  | .stackEmpty => "stack-empty" | .stackMismatch => "stack-mismatch" | .state => "state"
  | .payload => "payload" | .noCpu => "no-cpu" | .oversub => "oversub" | .unknownEvent => "unknown-event"
  | .notEnabled => "not-enabled" | .cpuList => "cpu-list" | .prvZero => "prv-zero" | .finish => "finish"
  | .task => "task" | .other => "other"

def noHook : Emu → Nat → Nat → Nat → List Nat → Except Err Emu := fun _ _ _ _ _ => .error .unknownEvent

def showRec (r : PrvRec) : String := s!"{if r.file = 0 then "T" else "C"}:{r.row}:{r.type}:{r.value}"

def step (s : S) (ws : List String) : S × String :=
  match ws with
  | ["reset"] => ({}, "ok")
  | ["thread", tid, pid, loom] =>
    match tid.toInt?, pid.toInt?, loom.toNat? with
    | some t, some p, some l => ({ s with threads := s.threads ++ [(t, p, l)] }, "ok")
    | _, _, _ => (s, "bad-op")
  | ["cpu", loom, index, virt] =>
    match loom.toNat?, index.toInt? with
    | some l, some i => ({ s with cpus := s.cpus ++ [(l, i, decide (virt = "1"))] }, "ok")
    | _, _ => (s, "bad-op")
  | ["mark", ti, ty, title, ct, labels] =>
    -- title / chan_type: hex or N (missing); labels: v=hex;v=hex or -
    let optStr (t : String) : Option (Option String) :=
      if t = "N" then some none else (Drivers.hexBytes t).map fun b => some (String.ofList (b.map Char.ofNat))
    let ls : Option (List (Int × String)) :=
      if labels = "-" then some [] else
      (labels.splitOn ";").mapM fun (kv : String) =>
        match kv.splitOn "=" with
        | [k, v] => match k.toInt?, Drivers.hexBytes v with
          | some k, some b => some (k, String.ofList (b.map Char.ofNat))
          | _, _ => none
        | _ => none
    match ti.toNat?, ty.toInt?, optStr title, optStr ct, ls with
    | some ti, some ty, some title, some ct, some ls =>
      ({ s with marks := s.marks ++ [(ti, { type := ty, title := title, chanType := ct, labels := ls })] }, "ok")
    | _, _, _, _, _ => (s, "bad-op")
  | ["enable", ms, lint] =>
    match (ms.splitOn ",").mapM (·.toNat?) with
    | some en =>
      -- mark_create: threads in gindex order, definitions in metadata order
      let perThread := (List.range s.threads.length).map fun g => (s.marks.filter (·.1 == g)).map (·.2)
      match mergeMarks perThread with
      | .error _ => ({ s with failed := true }, "err marks")
      | .ok tab =>
        ({ s with emu := some (mkEmu s.threads s.cpus en (decide (lint = "1")) (markExtra tab)), marktab := tab }, "ok")
    | none => (s, "bad-op")
  | ["ev", ti, _time, mcv, payload] =>
    if s.failed then (s, "skip") else
    match s.emu, ti.toNat?, Drivers.hexBytes mcv, Drivers.hexBytes payload with
    | some e, some ti, some [m, c, v], some p =>
      match stepEv e ti m c v p noHook (fun e ti _ v p => markEvent s.marktab e ti v p) with
      | .ok (e', rs) => ({ s with emu := some e' }, "ok " ++ ",".intercalate (rs.map showRec))
      | .error er => ({ s with failed := true }, "err " ++ errName er)
    | _, _, _, _ => (s, "bad-op")
  | ["pcf"] =>
    (s, "pcf " ++ ";".intercalate ((markPcf s.marktab).map fun (ty, title, ls) =>
      s!"{ty}:{Drivers.toHex (title.toList.map Char.toNat)}:" ++
        ",".intercalate (ls.map fun (v, l) => s!"{v}={Drivers.toHex (l.toList.map Char.toNat)}")))
  | ["finish"] =>
    if s.failed then (s, "skip") else
    match s.emu with
    | some e => match finish e with
      | .ok _ => (s, "ok")
      | .error er => (s, "err " ++ errName er)
    | none => (s, "bad-op")
  | _ => (s, "bad-op")

end Drivers.Emu
