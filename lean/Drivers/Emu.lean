import OvniModel.Emu.View
import OvniModel.Emu.MarkEmu
import OvniModel.Emu.PvText
import Drivers.Util
namespace Drivers.Emu
open Ovni.Emu

structure S where
  threads : List (Int × Int × Nat) := []
  cpus : List (Nat × Int × Bool) := []
  emu : Option Emu := none
  failed : Bool := false
  /-- mark definitions per thread (gindex order kept by insertion: (thread, def)) -/
  marks : List (Nat × MarkIn) := []
  marktab : List MarkType := []
  /-- C13 text level (`pvmode`): the emulator with its patch bay and the two .prv files -/
  pv : Bool := false
  x : Option XEmu := none
  /-- clock of the first event (`dclock` = clock - first clock) -/
  t0 : Option Int := none
  appids : List Int := []
  phys : List Nat := []
  /-- (model char, process index, gid, label) in creation order -/
  tasktypes : List (Nat × Nat × Int × List Char) := []

def errName : Err → String
  | .chanType => "chan" | .chanDirty => "chan-dirty" | .chanDup => "chan-dup" | .stackFull => "stack-full"
  | .stackEmpty => "stack-empty" | .stackMismatch => "stack-mismatch" | .state => "state"
  | .payload => "payload" | .noCpu => "no-cpu" | .oversub => "oversub" | .unknownEvent => "unknown-event"
  | .notEnabled => "not-enabled" | .cpuList => "cpu-list" | .prvZero => "prv-zero" | .finish => "finish"
  | .task => "task" | .other => "other"

def noHook : Emu → Nat → Nat → Nat → List Nat → Except Err Emu := fun _ _ _ _ _ => .error .unknownEvent

def showRec (r : PrvRec) : String := s!"{if r.file = 0 then "T" else "C"}:{r.row}:{r.type}:{r.value}"

def step (s : S) (ws : List String) : S × String :=
  match ws with
  | ["reset"] => ({}, "ok")
  | ["thread", tid, pid, loom] =>
    match tid.toInt?, pid.toInt?, loom.toNat? with
    | some t, some p, some l => ({ s with threads := s.threads ++ [(t, p, l)] }, "ok")
    | _, _, _ => (s, "bad-op")
  | ["thread", tid, pid, loom, appid] =>
    match tid.toInt?, pid.toInt?, loom.toNat?, appid.toInt? with
    | some t, some p, some l, some a =>
      ({ s with threads := s.threads ++ [(t, p, l)], appids := s.appids ++ [a] }, "ok")
    | _, _, _, _ => (s, "bad-op")
  | ["cpu", loom, index, virt, phy] =>
    match loom.toNat?, index.toInt?, phy.toInt? with
    | some l, some i, some ph =>
      ({ s with cpus := s.cpus ++ [(l, i, decide (virt = "1"))], phys := s.phys ++ [ph.toNat] }, "ok")
    | _, _, _ => (s, "bad-op")
  | ["pvmode"] => ({ s with pv := true }, "ok")
  | ["tasktype", ch, proc, gid, label] =>
    match ch.toNat?, proc.toNat?, gid.toInt?, Drivers.hexBytes label with
    | some ch, some pr, some g, some b =>
      ({ s with tasktypes := s.tasktypes ++ [(ch, pr, g, b.map Char.ofNat)] }, "ok")
    | _, _, _, _ => (s, "bad-op")
  | ["cpu", loom, index, virt] =>
    match loom.toNat?, index.toInt? with
    | some l, some i => ({ s with cpus := s.cpus ++ [(l, i, decide (virt = "1"))] }, "ok")
    | _, _ => (s, "bad-op")
  | ["mark", ti, ty, title, ct, labels] =>
    -- title / chan_type: hex or N (missing); labels: v=hex;v=hex or -
    let optStr (t : String) : Option (Option String) :=
      if t = "N" then some none else (Drivers.hexBytes t).map fun b => some (String.ofList (b.map Char.ofNat))
    let ls : Option (List (Int × String)) :=
      if labels = "-" then some [] else
      (labels.splitOn ";").mapM fun (kv : String) =>
        match kv.splitOn "=" with
        | [k, v] => match k.toInt?, Drivers.hexBytes v with
          | some k, some b => some (k, String.ofList (b.map Char.ofNat))
          | _, _ => none
        | _ => none
    match ti.toNat?, ty.toInt?, optStr title, optStr ct, ls with
    | some ti, some ty, some title, some ct, some ls =>
      ({ s with marks := s.marks ++ [(ti, { type := ty, title := title, chanType := ct, labels := ls })] }, "ok")
    | _, _, _, _, _ => (s, "bad-op")
  | ["enable", ms, lint] =>
    match (ms.splitOn ",").mapM (·.toNat?) with
    | some en =>
      -- mark_create: threads in gindex order, definitions in metadata order
      let perThread := (List.range s.threads.length).map fun g => (s.marks.filter (·.1 == g)).map (·.2)
      match mergeMarks perThread with
      | .error _ => ({ s with failed := true }, "err marks")
      | .ok tab =>
        let e := mkEmu s.threads s.cpus en (decide (lint = "1")) (markExtra tab)
        let x := if s.pv then (XEmu.init e).toOption else none
        ({ s with emu := some e, marktab := tab, x := x }, "ok")
    | none => (s, "bad-op")
  | ["ev", ti, time, mcv, payload] =>
    if s.failed then (s, "skip") else
    match s.emu, ti.toNat?, Drivers.hexBytes mcv, Drivers.hexBytes payload with
    | some e, some ti, some [m, c, v], some p =>
      match stepEv e ti m c v p noHook (fun e ti _ v p => markEvent s.marktab e ti v p) with
      | .ok (e', rs) =>
        -- text level: the same event through the emulator with its patch bay
        let clk : Int := time.toInt?.getD 0
        let t0 := s.t0.getD clk
        let x' := match s.x with
          | some x => (x.step (clk - t0) ti m c v p noHook (fun e ti _ v p => markEvent s.marktab e ti v p)).toOption
          | none => none
        ({ s with emu := some e', x := x', t0 := some t0 }, "ok " ++ ",".intercalate (rs.map showRec))
      | .error er => ({ s with failed := true }, "err " ++ errName er)
    | _, _, _, _ => (s, "bad-op")
  | ["pvtext"] =>
    -- the six files of the run as hex: thread.prv cpu.prv thread.pcf cpu.pcf thread.row cpu.row
    match s.x with
    | none => (s, "pvtext none")
    | some x =>
      let chars := s.tasktypes.map (·.1) |>.eraseDups
      let byModel : List (Nat × List (List (Int × PvText.Text))) :=
        ((sortByChar (allSpecs.filter fun sp => chars.contains sp.char)).map (·.char)).map fun ch =>
          let mine := s.tasktypes.filter (·.1 == ch)
          let nproc := (mine.map (·.2.1 + 1)).foldl max 0
          (ch, (List.range nproc).map fun pr => (mine.filter (·.2.1 == pr)).map fun t => (t.2.2.1, t.2.2.2))
      let names : PvText.Names :=
        { appids := s.appids, cpus := x.emu.cpus.mapIdx (fun g c => (c.loom, s.phys.getD g 0)),
          marks := s.marktab, tasks := byModel }
      match PvText.files x names with
      | .error _ => (s, "pvtext err")
      | .ok f =>
        let hex (t : PvText.Text) : String := Drivers.toHex (t.map Char.toNat)
        -- the event types the model's own reader (`parsePcfTypes`) finds in the two .pcf texts
        let canon (t : PvText.Text) : String := match PvText.parsePcfTypes t with
          | none => "none"
          | some [] => "-"
          | some bs => ";".intercalate (bs.map fun (ty, lab, vs) => s!"{ty}:{hex lab}:" ++
              ",".intercalate (vs.map fun (v, l) => s!"{v}={hex l}"))
        (s, s!"pvtext {hex f.threadPrv} {hex f.cpuPrv} {hex f.threadPcf} {hex f.cpuPcf} {hex f.threadRow} {hex f.cpuRow}" ++
          s!" {canon f.threadPcf} {canon f.cpuPcf}")
  | ["pcf"] =>
    (s, "pcf " ++ ";".intercalate ((markPcf s.marktab).map fun (ty, title, ls) =>
      s!"{ty}:{Drivers.toHex (title.toList.map Char.toNat)}:" ++
        ",".intercalate (ls.map fun (v, l) => s!"{v}={Drivers.toHex (l.toList.map Char.toNat)}")))
  | ["finish"] =>
    if s.failed then (s, "skip") else
    match s.emu with
    | some e => match finish e with
      | .ok _ => (s, "ok")
      | .error er => (s, "err " ++ errName er)
    | none => (s, "bad-op")
  | _ => (s, "bad-op")

end Drivers.Emu
