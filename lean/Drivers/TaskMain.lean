import Drivers.Task
def main : IO Unit := Drivers.runLoop ({} : Drivers.Task.St) Drivers.Task.step
