import OvniModel.Emu.Stream
import OvniModel.Emu.Meta
import OvniModel.Emu.MetaJson
import OvniModel.Lemmas.StreamTotal
import Drivers.Util

/-! Line-protocol driver for the stream cursor (C12, C19):

  `cur <unsorted> <hex>`   current code:  `load <class>` | `end <class> steps=<n> offs=<o1,o2,…>` |
                                           `oob <k> <offset>` | `ub <k>` | `hang <n>`
  `fix <unsorted> <hex>`   repaired code, same output format
  `guard <hex>`            `guarded 0|1` (the hypothesis of the `_partial` theorems)
  `ej <hex> <o1> <o2>`     emu_ev chained on two event offsets: `ej <is_jumbo cur> <is_jumbo fixed>`
  `meta …`                 metadata gates, see `metaLine`
  `metaj …`                the same from the raw JSON bytes, see `metaJsonLine`

`oob k` / `ub k`: the first access outside the buffer / the first signed
overflow in `ovni_ev_size` happens during call number `k` (0-based) of
`stream_step`; what follows depends on memory the input does not determine.
Memory outside the buffer reads as zero here (what `mmap` gives up to the end
of the page). -/
namespace Drivers.Stream
open Ovni.Emu.Stream Drivers

def g0 : Garbage := fun _ => 0

inductive Evt | rd (r : Read) | ub

/-- `ovni_ev_size(ev)` in program order: the accesses, then the `int` addition. -/
def sizeEvts (buf : List Nat) (ev : Int) : List Evt :=
  (evSizeReads g0 buf ev).map .rd ++ (if 12 + payloadSizeC g0 buf ev > 2147483647 then [.ub] else [])

/-- Observable hazards of one call, in program order (mirrors `streamStep`). -/
def stepEvts (fixed : Bool) (buf : List Nat) (c : Cur) : List Evt :=
  if c.active = false then [] else
  let size : Int := buf.length
  let off1 := nextOff g0 buf c
  let e1 := if c.hasEv then sizeEvts buf c.offset else []
  if c.hasEv = true ∧ off1 ≥ size then e1
  else if fixed then
    if size - off1 < 12 then e1
    else if isJumboF (flagsAt g0 buf off1) = true ∧ size - off1 < 16 then e1 ++ [.rd (off1, 1)]
    else if isJumboF (flagsAt g0 buf off1) = true ∧ (jumboSizeAt g0 buf off1 : Int) > 2147483647 - 16 then
      e1 ++ [.rd (off1, 1), .rd (off1 + 12, 4)]
    else
      let e2 := e1 ++ [.rd (off1, 1)] ++ (if isJumboF (flagsAt g0 buf off1) then [.rd (off1 + 12, 4)] else []) ++ sizeEvts buf off1
      if off1 + evSizeC g0 buf off1 > size then e2 else e2 ++ [.rd (off1 + 4, 8)]
  else
    let e2 := e1 ++ sizeEvts buf off1
    if off1 + evSizeC g0 buf off1 > size then e2 else e2 ++ [.rd (off1 + 4, 8)]

/-- (kind, detail): `ub` or `oob` with the offset of the access -/
def firstHazard (size : Nat) : List Evt → Option (String × String)
  | [] => none
  | .ub :: _ => some ("ub", "")
  | .rd r :: rest => if decide (Read.inBounds size r) then firstHazard size rest else some ("oob", s!" {r.1}")

def errName : Err → String
  | .inactive => "inactive" | .exceeds => "exceeds" | .incomplete => "incomplete"
  | .clock => "clock" | .jumbosize => "jumbosize"

def loadName : LoadErr → String
  | .empty => "empty" | .shortHeader => "shortheader" | .badHeader => "badheader"

def showOffs (l : List Int) : String :=
  if l.isEmpty then "-" else ",".intercalate (l.map toString)

/-- Drive the cursor, stopping at the first hazard. -/
def drive (fixed : Bool) (buf : List Nat) : Nat → Nat → Cur → List Int → String
  | 0, k, _, _ => s!"hang {k}"
  | fuel + 1, k, c, offs =>
    match firstHazard buf.length (stepEvts fixed buf c) with
    | some (h, det) => s!"{h} {k}{det}"
    | none =>
      match (if fixed then Fixed.streamStep g0 buf c else streamStep g0 buf c) with
      | (.ok, c', _) => drive fixed buf fuel (k + 1) c' (c'.offset :: offs)
      | (.eof, _, _) => s!"end eof steps={k} offs={showOffs offs.reverse}"
      | (.err e, _, _) => s!"end {errName e} steps={k} offs={showOffs offs.reverse}"

def runLine (fixed : Bool) (unsorted : Bool) (buf : List Nat) : String :=
  match loadObs buf unsorted with
  | .error e => s!"load {loadName e}"
  | .ok c =>
    if c.active then drive fixed buf (buf.length + 2) 0 c []
    else "end eof steps=0 offs=-"

def b01 (b : Bool) : String := if b then "1" else "0"

/-! metadata line: `meta <n> (<parsed> <version|N> <part-hex|N> <loom-hex|N> <pid> <tid> <appid|N> <finished> <hasreq> <haslib> <cpus|N> <requires|->)*n  <evmodels|->`
    cpus = `i:p,i:p` or `E` (empty array); requires = `namehex=versionhex,...`; evmodels = comma separated model chars -/

def optInt (s : String) : Option Int := if s = "N" then none else s.toInt?
def optStr (s : String) : Option String :=
  if s = "N" then none else (hexBytes s).map fun bs => String.ofList (bs.map fun b => Char.ofNat b)
def natList (s : String) : List Nat := if s = "-" then [] else (s.splitOn ",").filterMap String.toNat?
def cpuList (s : String) : Option (List (Int × Int)) :=
  if s = "N" then none else if s = "E" then some [] else
  some ((s.splitOn ",").filterMap fun p => match p.splitOn ":" with
    | [a, b] => match a.toInt?, b.toInt? with | some x, some y => some (x, y) | _, _ => none
    | _ => none)

/-- `namehex=versionhex,...` (string-valued entries of `ovni.require`; an empty string is written `E`) -/
def reqList (s : String) : List (List Nat × List Nat) :=
  if s = "-" then [] else
  (s.splitOn ",").filterMap fun p => match p.splitOn "=" with
    | [a, b] => match hexBytes a, (if b = "E" then some [] else hexBytes b) with
      | some x, some y => some (x, y) | _, _ => none
    | _ => none

def parseMeta : List String → Option (Ovni.Emu.Meta.Meta × List String)
  | p :: v :: part :: loom :: pid :: tid :: app :: fin :: req :: lib :: cpus :: rq :: rest =>
    some ({ parsed := p = "1", version := optInt v, part := optStr part, loom := optStr loom,
            pid := pid.toInt?.getD 0, tid := tid.toInt?.getD 0, appId := optInt app, finished := fin = "1",
            hasRequire := req = "1", hasLib := lib = "1", cpus := cpuList cpus, requires := [],
            reqs := reqList rq }, rest)
  | _ => none

def parseMetas : Nat → List String → Option (List Ovni.Emu.Meta.Meta × List String)
  | 0, ws => some ([], ws)
  | n + 1, ws => match parseMeta ws with
    | none => none
    | some (m, rest) => match parseMetas n rest with
      | none => none
      | some (ms, r) => some (m :: ms, r)

def clsName (c : Ovni.Emu.Meta.Cls) : String := (reprStr c).replace "Ovni.Emu.Meta.Cls." ""

/-- the decision of the emulator over the metadata records of the streams and the models whose events occur -/
def metaVerdict (ms : List Ovni.Emu.Meta.Meta) (evm : String) : String :=
      match Ovni.Emu.Meta.checkTrace ms with
      | .error e => s!"meta reject {clsName e}"
      | .ok () =>
        let models := Ovni.Generated.modelVersions
        let ths := (ms.filter fun m => Ovni.Emu.Meta.checkStream m == .ok true).map fun m =>
          { m with requires := m.compatReqs models }
        -- events from a stream that is not a thread stream: set_current fails
        if ms.any (fun m => Ovni.Emu.Meta.checkStream m == .ok false) then "meta reject unknownStream"
        else if Ovni.Emu.Meta.versionGate models ths != .ok () then "meta reject reqVersion"
        else match (natList evm).findSome? (fun m =>
            match Ovni.Emu.Meta.modelGate (models.map (·.2.2)) ths m with
            | .error e => some e | .ok () => none) with
          | some e => s!"meta reject {clsName e}"
          | none => "meta ok"

def metaLine (ws : List String) : String :=
  match ws with
  | n :: rest =>
    match parseMetas (n.toNat?.getD 0) rest with
    | some (ms, [evm]) => metaVerdict ms evm
    | _ => "bad-line"
  | _ => "bad-line"

/-- `metaj <cast> <n> <hex of stream.json>*n <evmodels|->`: the same decision, the records
    computed by the parson model from the raw JSON bytes (`Emu/MetaJson.lean`);
    `meta unsup` = a document holds a number whose value the model does not compute. -/
def metaJsonLine (ws : List String) : String :=
  match ws with
  | cast :: n :: rest =>
    let k := n.toNat?.getD 0
    if rest.length ≠ k + 1 then "bad-line"
    else
      match (rest.take k).mapM hexBytes with
      | none => "bad-line"
      | some texts =>
        match texts.mapM (Ovni.Emu.Meta.metaOfText (cast = "1")) with
        | none => "meta unsup"
        | some ms => metaVerdict ms (rest.getD k "-")
  | _ => "bad-line"

def step (ws : List String) : String :=
  match ws with
  | ["cur", u, hex] => match hexBytes hex with
    | some b => runLine false (u = "1") b | none => "bad-line"
  | ["fix", u, hex] => match hexBytes hex with
    | some b => runLine true (u = "1") b | none => "bad-line"
  | ["guard", hex] => match hexBytes hex with
    | some b => match loadObs b false with
      | .error _ => "guarded 1"
      | .ok c => s!"guarded {b01 (guardedB g0 b (b.length + 2) c)}"
    | none => "bad-line"
  | ["ej", hex, o1, o2] => match hexBytes hex, o1.toInt?, o2.toInt? with
    | some b, some a, some c =>
      let z : EmuEv := ⟨0, false, false⟩
      s!"ej {b01 (emuEv (emuEv z g0 b a) g0 b c).isJumbo} {b01 (Fixed.emuEv (Fixed.emuEv z g0 b a) g0 b c).isJumbo}"
    | _, _, _ => "bad-line"
  | "meta" :: rest => metaLine rest
  | "metaj" :: rest => metaJsonLine rest
  | _ => "bad-line"

end Drivers.Stream
