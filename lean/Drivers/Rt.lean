import OvniModel.Rt.Buffer
import OvniModel.Rt.Mark
import OvniModel.Rt.WriteLoop
import OvniModel.Generated.Consts
import Drivers.Util
namespace Drivers.Rt
open Ovni.Rt

/-- Jumbo data as a pattern: byte i = (fill + i) % 256. -/
structure Pat where
  len : Nat
  fill : Nat
  /-- explicit leading bytes (at most `len` are used) -/
  pre : List Nat := []
deriving Repr

def Pat.byte (p : Pat) (i : Nat) : Nat :=
  match p.pre[i]? with
  | some b => b % 256
  | none => (p.fill + i) % 256

instance : JData Pat where
  bytes p := (List.range p.len).map p.byte
  len p := p.len
  len_eq p := by simp

def parseOp (ws : List String) : Option (Op Pat) :=
  let mk (mcv : String) : Option Ev :=
    match Drivers.hexBytes mcv with
    | some [a, b, c] => some { m := a, c := b, v := c, clock := 0 }
    | _ => none
  match ws with
  | ["init"] => some .init
  | "ev" :: mcv :: clk :: chunks =>
    match mk mcv, chunks.mapM Drivers.hexBytes with
    | some e, some chs =>
      if clk = "now" then some (.emitNow e chs)
      else clk.toNat?.map fun t => .emit { e with clock := t } chs
    | _, _ => none
  | "jumbo" :: mcv :: clk :: len :: fill :: pre :: chunks =>
    match mk mcv, len.toNat?, fill.toNat?, Drivers.hexBytes pre, chunks.mapM Drivers.hexBytes with
    | some e, some l, some f, some pr, some chs =>
      if clk = "now" then some (.jumboNow e chs ⟨l, f, pr⟩)
      else clk.toNat?.map fun t => .jumbo { e with clock := t } chs ⟨l, f, pr⟩
    | _, _, _, _, _ => none
  | ["flush"] => some .flush
  | ["mark", k, t, v] =>
    match k.toNat?, t.toInt?, v.toInt? with
    | some k, some t, some v => some (.mark k t v)
    | _, _, _ => none
  | ["tick", n] => n.toNat?.map .setTick
  | ["free"] => some .free
  | ["fini"] => some (.setTick 1)     -- process level: no effect on the thread's stream
  | "cpu" :: _ => some .metaOp
  | "require" :: _ => some .metaOp
  | "rank" :: _ => some .metaOp
  | "attr" :: _ => some .metaOp
  | ["attrflush"] => some .metaOp

  | _ => none

/-- Canonical record: full bytes (from the model's own `encode`) when small,
    else the first 16 encoded bytes plus the data pattern description. -/
def showRec (r : Rec Pat × Origin) : String :=
  let o := match r.2 with | .user => "u" | .lib => "l"
  match r.1 with
  | .ev _ => s!"X{o}:{Drivers.toHex r.1.encode}"
  | .jumbo e d =>
    if d.len ≤ 600 then s!"X{o}:{Drivers.toHex r.1.encode}"
    else s!"B{o}:{Drivers.toHex (headerBytes e ++ le 4 d.len)}:{d.len}:{d.fill % 256}:{Drivers.toHex ((d.pre.take d.len).map (· % 256))}"

/-- driver-level operation: a buffer operation or a mark-metadata call -/
inductive DOp where
  | buf (op : Op Pat)
  | markType (t : Int) (flags : Nat) (title : String)
  | markLabel (t : Int) (v : Int) (label : String)

def bytesToString (bs : List Nat) : String := String.ofList (bs.map Char.ofNat)

def parseDOp (ws : List String) : Option DOp :=
  match ws with
  | ["marktype", t, f, title] =>
    match t.toInt?, f.toNat?, Drivers.hexBytes title with
    | some t, some f, some b => some (.markType t f (bytesToString b))
    | _, _, _ => none
  | ["marklabel", t, v, label] =>
    match t.toInt?, v.toInt?, Drivers.hexBytes label with
    | some t, some v, some b => some (.markLabel t v (bytesToString b))
    | _, _, _ => none
  | _ => (parseOp ws).map .buf

/-- run ops; report index of dying op -/
def runIdx (cap : Nat) (s : St Pat) (mk : Ovni.Rt.Mark.Meta) (ops : List DOp) (i : Nat) :
    St Pat × Ovni.Rt.Mark.Meta × Option Nat :=
  match ops with
  | [] => (s, mk, none)
  | .buf op :: r => match step cap s op with
    | none => (s, mk, some i)
    | some s' => runIdx cap s' mk r (i + 1)
  | .markType t f title :: r =>
    -- get_thread_metadata: finished / not ready die
    if !s.ready then (s, mk, some i) else
    match Ovni.Rt.Mark.markType mk t f title with
    | none => (s, mk, some i)
    | some mk' => runIdx cap s mk' r (i + 1)
  | .markLabel t v label :: r =>
    if !s.ready then (s, mk, some i) else
    match Ovni.Rt.Mark.markLabel mk t v label with
    | none => (s, mk, some i)
    | some mk' => runIdx cap s mk' r (i + 1)

def showMarks (mk : Ovni.Rt.Mark.Meta) : String :=
  if mk.isEmpty then "-" else
  "|".intercalate (mk.map fun td =>
    let ls := ",".intercalate (td.labels.map fun (v, l) => s!"{v}={Drivers.toHex (l.toList.map Char.toNat)}")
    s!"{td.type}:{Drivers.toHex (td.title.toList.map Char.toNat)}:{if td.stack then "stack" else "single"}:{ls}")

/-- `wlog <asked>><transferred|-> …`: the call log of the real library's stream
    writes through `WriteLoop.replay` -/
def wlog (pairs : List String) : String :=
  let parse (p : String) : Option Ovni.Rt.WriteLoop.Call :=
    match p.splitOn ">" with
    | [a, "-"] => a.toNat?.map fun n => (n, none)
    | [a, b] => match a.toNat?, b.toNat? with
      | some n, some k => some (n, some k)
      | _, _ => none
    | _ => none
  match pairs.mapM parse with
  | none => "bad-op"
  | some l =>
    match Ovni.Rt.WriteLoop.replay l with
    | .ok loops bytes => s!"ok loops={loops} bytes={bytes}"
    | .mismatch i w g => s!"mismatch call={i} owed={w} asked={g}"
    | .overrun i => s!"overrun call={i}"
    | .unfinished w => s!"unfinished owed={w}"
    | .aborted i clean => s!"aborted call={i} last={if clean then 1 else 0}"

def script (line : List String) : String :=
  if line.head? = some "wlog" then wlog line.tail else
  let ops := (Drivers.splitTok ";" line).filter (fun l => !l.isEmpty)
  match ops.mapM parseDOp with
  | none => "bad-op"
  | some ops =>
    let init : St Pat := { now := 1000, tick := 1 }
    let (s, mk, died) := runIdx Ovni.Generated.maxEvBuf init [] ops 0
    let oc := match died with
      | none => "returned"
      | some i => s!"die@{i}"
    let recs := ",".intercalate (s.disk.map showRec)
    s!"{oc} nflush={s.nflush} hdr={if s.hdrOnDisk then 1 else 0} marks={showMarks mk} stream={recs}"

end Drivers.Rt
