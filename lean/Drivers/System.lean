import OvniModel.Emu.System
import Drivers.Util
/-! Line protocol for the C15 engine (stateful: accumulates streams).

    stream <relpath> <part> <loom> <pid> <tid> <finished> <hasver> <hascommit> <appid> <rank> <nranks> <cpus>
        relpath: hex bytes; part, loom: `N` (absent) or hex bytes (`-` = empty string);
        appid, rank, nranks: `N` or a decimal integer; cpus: `N`, `-` (empty array) or `i:p,i:p,...`
        → `ok`
    build asis|fixed → `ok R=<0|1> T=<appid.tid,...> C=<loom.phyid|loom.*,...>` | `error <class>` | `crash`
    reset → `ok`
-/
namespace Drivers.System
open Ovni.Emu.System

def optStr (t : String) : Option (Option Str) :=
  if t = "N" then some none else (Drivers.hexBytes t).map some

def optInt (t : String) : Option (Option Int) :=
  if t = "N" then some none else t.toInt?.map some

def parseCpus (t : String) : Option (Option (List (Int × Int))) :=
  if t = "N" then some none
  else if t = "-" then some (some [])
  else ((t.splitOn ",").mapM fun (e : String) =>
    match e.splitOn ":" with
    | [i, p] => match i.toInt?, p.toInt? with
      | some i, some p => some (i, p)
      | _, _ => none
    | _ => none).map some

def parseStream : List String → Option StreamMeta
  | [rp, part, loom, pid, tid, fin, hv, hc, appid, rank, nranks, cpus] => do
    let rp ← Drivers.hexBytes rp
    let part ← optStr part
    let loom ← optStr loom
    let pid ← pid.toInt?
    let tid ← tid.toInt?
    let fin ← fin.toInt?
    let appid ← optInt appid
    let rank ← optInt rank
    let nranks ← optInt nranks
    let cpus ← parseCpus cpus
    pure { tp := { relpath := rp, part := part, loom := loom, pid := pid, tid := tid, finished := fin,
                   hasVersion := hv = "1", hasCommit := hc = "1" },
           appId := appid, rank := rank, nranks := nranks, cpus := cpus }
  | _ => none

def errName : Err → String
  | .noPart => "no-part" | .noLoom => "no-loom" | .loomName => "loom-name"
  | .cpusEmpty => "cpus-empty" | .cpuIndexNeg => "cpu-index-neg"
  | .cpuIndexMismatch => "cpu-index-mismatch" | .cpuIndexRedefined => "cpu-index-redefined"
  | .cpuPhyidNeg => "cpu-phyid-neg" | .pid => "pid" | .appidMismatch => "appid-mismatch"
  | .appidNonPos => "appid-nonpos" | .rankNeg => "rank-neg" | .rankMismatch => "rank-mismatch"
  | .nranksMissing => "nranks-missing" | .nranksNonPos => "nranks-nonpos"
  | .nranksMismatch => "nranks-mismatch" | .rankRange => "rank-range" | .tid => "tid"
  | .dupThread => "dup-thread" | .notFinished => "not-finished" | .rankMissing => "rank-missing"
  | .appidMissing => "appid-missing" | .rankMinUnset => "rank-min-unset" | .noCpus => "no-cpus"
  | .cpuIndexOob => "cpu-index-oob" | .cpuIndexTaken => "cpu-index-taken"
  | .noVersion => "no-version" | .noCommit => "no-commit"

def showHier (h : Hier) : String :=
  let t := h.threadRows.map fun (a, t) => s!"{a}.{t}"
  let c := h.cpuRows.map fun (i, p) => match p with
    | some p => s!"{i}.{p}"
    | none => s!"{i}.*"
  let j (l : List String) := if l.isEmpty then "-" else ",".intercalate l
  s!"ok R={if h.sortByRank then 1 else 0} T={j t} C={j c}"

def showRes : Res Hier → String
  | .ok h => showHier h
  | .error e => "error " ++ errName e
  | .crash => "crash"

def step (st : List StreamMeta) (ws : List String) : List StreamMeta × String :=
  match ws with
  | "stream" :: r =>
    match parseStream r with
    | some s => (st ++ [s], "ok")
    | none => (st, "bad-op")
  | ["build", "asis"] => (st, showRes (build .asIs st))
  | ["build", "fixed"] => (st, showRes (build .fixed st))
  | ["reset"] => ([], "ok")
  | _ => (st, "bad-op")

end Drivers.System
