import Drivers.Rt
def main : IO Unit := Drivers.runLoop () (fun _ ws => ((), Drivers.Rt.script ws))
