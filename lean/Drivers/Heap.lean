import OvniModel.Emu.Heap
import OvniModel.Emu.Player
import Drivers.Util
/-! Line-protocol driver for the heap model (stateful: `heap …`) and the
    player model (stateless: `play …`). -/
namespace Drivers.HeapDrv
open Ovni.Heap

abbrev El := Int × Nat
abbrev St := Heap El

/-- max-heap on the key: `cmp(a,b) > 0` iff `a.key > b.key` (harness/heap_h.c) -/
def elGt (a b : El) : Bool := decide (a.1 > b.1)

def showEl (e : El) : String := s!"{e.1}:{e.2}"

def step (h : St) (args : List String) : St × String :=
  match args with
  | ["reset"] => (Heap.empty, "ok 0")
  | ["ins", k, i] =>
    match k.toInt?, i.toNat? with
    | some k, some i =>
      match insert elGt h (k, i) with
      | some h' => (h', s!"ok {h'.size}")
      | none => (h, "die")
    | _, _ => (h, "bad-op")
  | ["pop"] =>
    match popMax elGt h with
    | none => (h, "die")
    | some (none, h') => (h', s!"pop none {h'.size}")
    | some (some e, h') => (h', s!"pop {e.1} {e.2} {h'.size}")
  | ["rekey", i, k] =>
    match i.toNat?, k.toInt? with
    | some i, some k =>
      let n := (h.root.toList.filter (·.2 == i)).length
      ({ h with root := h.root.map fun e => if e.2 == i then (k, i) else e }, s!"ok {n}")
    | _, _ => (h, "bad-op")
  | ["dump"] =>
    let toks := h.root.dump.map fun | none => "." | some e => showEl e
    (h, " ".intercalate (["dump", toString h.size] ++ toks))
  | _ => (h, "bad-op")

end Drivers.HeapDrv

namespace Drivers.PlayerDrv
open Ovni.Player

/-- parse `n` items with a parser that consumes tokens -/
def parseMany {α : Type} (f : List String → Option (α × List String)) : Nat → List String → Option (List α × List String)
  | 0, ts => some ([], ts)
  | n + 1, ts =>
    match f ts with
    | none => none
    | some (a, ts') =>
      match parseMany f n ts' with
      | none => none
      | some (as, ts'') => some (a :: as, ts'')

def parseClocks : Nat → Nat → List String → Option (List Ev × List String)
  | 0, _, ts => some ([], ts)
  | n + 1, i, t :: ts =>
    match t.toInt? with
    | none => none
    | some c =>
      match parseClocks n (i + 1) ts with
      | none => none
      | some (es, ts') => some (⟨c, i⟩ :: es, ts')
  | _ + 1, _, [] => none

def parseRaw : List String → Option (Raw × List String)
  | rp :: lm :: n :: ts =>
    match Drivers.hexBytes rp, Drivers.hexBytes lm, n.toNat? with
    | some rp, some lm, some n =>
      match parseClocks n 0 ts with
      | some (es, ts') => some (⟨rp, lm, es⟩, ts')
      | none => none
    | _, _, _ => none
  | _ => none

def parseEntry : List String → Option ((Str × Int) × List String)
  | h :: o :: ts =>
    match Drivers.hexBytes h, o.toInt? with
    | some h, some o => some ((h, o), ts)
    | _, _ => none
  | _ => none

def parseRaws : List String → Option (List Raw)
  | n :: ts =>
    match n.toNat? with
    | none => none
    | some n =>
      match parseMany parseRaw n ts with
      | some (rs, []) => some rs
      | _ => none
  | _ => none

def showOut (rs : List Raw) (o : Out) : String :=
  let si := (rs.findIdx? (·.relpath == o.relpath)).getD rs.length
  s!"{si}.{o.ev.tag}:{o.sclock}:{o.dclock}"

def showRes (rs : List Raw) : Option (List Out) → String
  | none => "err"
  | some os => " ".intercalate (["out", toString os.length] ++ os.map (showOut rs))

def step (args : List String) : String :=
  match args with
  | "dump" :: ts =>
    match parseRaws ts with
    | some rs => showRes rs (dumpTrace rs)
    | none => "bad-op"
  | "emu" :: "N" :: ts =>
    match parseRaws ts with
    | some rs => showRes rs (emuTrace none rs)
    | none => "bad-op"
  | "emu" :: t :: ts =>
    match t.toNat? with
    | none => "bad-op"
    | some t =>
      match parseMany parseEntry t ts with
      | none => "bad-op"
      | some (es, ts') =>
        match parseRaws ts' with
        | some rs => showRes rs (emuTrace (some es) rs)
        | none => "bad-op"
  | ["sort"] => "bad-op"
  | "sort" :: ts =>
    match parseRaws ts with
    | some rs => " ".intercalate ("sorted" :: (traceLoad rs).map fun r => Drivers.toHex r.relpath)
    | none => "bad-op"
  | _ => "bad-op"

end Drivers.PlayerDrv
