import Drivers.Util
import Drivers.Ovnisort

def main : IO Unit := Drivers.runLoop () (fun _ ws => ((), Drivers.Ovnisort.step ws))
