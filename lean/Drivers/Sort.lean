import OvniModel.Emu.Sort
import OvniModel.Emu.Breakdown
import Drivers.Util
/-! Line-protocol driver for the sort module and the breakdown patch-bay (C20).

```
sort replace <old> <new> <a0> <a1> ...      -> arr <...> | die
sort init <n>                               -> ok
sort set <i> <v> [<i> <v> ...]              -> outs <v0 ...> w <written outputs, ascending | ->
bd consts nosv|nanos6                       -> consts <body> <unknown> <progressing>
bd init nosv|nanos6 <n>                     -> ok
bd set <cpu> ss|tt|idle <v> [...]           -> tr <..> tri <..> outs <..> w <..>
bd cls                                      -> cls <F|A|B|U per cpu>     (model only)
```
values: `N` = NULL, decimal = int64, `D<decimal>` = double with that bit pattern -/
namespace Drivers.Sort
open Ovni.Emu Ovni.Emu.Sort Ovni.Emu.Breakdown

structure St where
  sort : Sort.State := Sort.init 0
  sys : Sys := Sys.init 0
  k : Consts := nosv

def parseVal (t : String) : Option Value :=
  if t = "N" then some .null
  else if t.startsWith "D" then (t.drop 1).toString.toInt?.map Value.dbl
  else t.toInt?.map Value.int

def showVal : Value → String
  | .null => "N"
  | .int i => toString i
  | .dbl b => "D" ++ toString b

def showVals (l : List Value) : String :=
  if l.isEmpty then "-" else " ".intercalate (l.map showVal)

def showNats (l : List Nat) : String :=
  if l.isEmpty then "-" else " ".intercalate (l.map toString)

def pairs : List String → Option (List (String × String))
  | [] => some []
  | [_] => none
  | a :: b :: r => (pairs r).map ((a, b) :: ·)

def triples : List String → Option (List (String × String × String))
  | [] => some []
  | a :: b :: c :: r => (triples r).map ((a, b, c) :: ·)
  | _ => none

/-- keep the first occurrence position of each key, with the last value -/
def lastWins {α β : Type} [BEq α] (l : List (α × β)) : List (α × β) :=
  let keys := l.foldl (fun acc e => if acc.contains e.1 then acc else acc ++ [e.1]) ([] : List α)
  keys.filterMap fun k => (l.reverse.find? (·.1 == k))

def sortedNodup (l : List Nat) : List Nat :=
  (l.foldl (fun acc x => if acc.contains x then acc else x :: acc) []).mergeSort (· ≤ ·)

def parseSrc : String → Option Src
  | "ss" => some .ss | "tt" => some .tt | "idle" => some .idle | _ => none

def classOf (k : Consts) (c : Cpu) : String :=
  if !c.mux0.evaluated then "U"
  else if c.mux0.selected = selectTr k c.ss [c.ss, c.tt] then "F"
  else if c.mux0.selected = some 0 then "A" else "B"

def step (st : St) (args : List String) : St × String :=
  match args with
  | "sort" :: "replace" :: old :: new :: arr =>
    match old.toInt?, new.toInt?, arr.mapM (·.toInt?) with
    | some o, some n, some a =>
      match sortReplace a o n with
      | some r => (st, "arr " ++ showVals (r.map Value.int))
      | none => (st, "die")
    | _, _, _ => (st, "bad-op")
  | ["sort", "init", n] =>
    match n.toNat? with
    | some n => ({ st with sort := Sort.init n }, "ok")
    | none => (st, "bad-op")
  | "sort" :: "set" :: r =>
    match (pairs r).bind (·.mapM fun (a, b) => do let i ← a.toNat?; let v ← parseVal b; pure (i, v)) with
    | some evs =>
      let (s', w) := (lastWins evs).foldl (fun (acc : Sort.State × List Nat) e =>
        let q := cbInput isort acc.1 e.1 e.2
        (q.1, acc.2 ++ q.2.map (·.1))) (st.sort, [])
      ({ st with sort := s' }, "outs " ++ showVals s'.outs ++ " w " ++ showNats (sortedNodup w))
    | none => (st, "bad-op")
  | ["bd", "consts", m] =>
    let k := if m = "nanos6" then nanos6 else nosv
    (st, s!"consts {k.taskBody} {k.unknownSs} {k.progressing}")
  | ["bd", "init", m, n] =>
    match n.toNat? with
    | some n => ({ st with sys := Sys.init n, k := if m = "nanos6" then nanos6 else nosv }, "ok")
    | none => (st, "bad-op")
  | "bd" :: "set" :: r =>
    match (triples r).bind (·.mapM fun (a, b, c) => do
        let i ← a.toNat?; let s ← parseSrc b; let v ← parseVal c; pure (i, s, v)) with
    | some sets =>
      let (s', w) := stepSys st.k isort st.sys sets
      -- the per-CPU `step` (what the theorems are about) must be the projection of the global walk
      let projOk := (List.range st.sys.cpus.length).all fun i =>
        match st.sys.cpus[i]?, s'.cpus[i]? with
        | some c, some c' =>
          decide (Breakdown.step st.k c ((sets.filter (·.1 == i)).map (·.2)) = c')
        | _, _ => false
      if !projOk then ({ st with sys := s' }, "proj-mismatch") else
      ({ st with sys := s' },
        "tr " ++ showVals (s'.cpus.map (·.tr)) ++ " tri " ++ showVals (s'.cpus.map (·.tri)) ++
        " outs " ++ showVals s'.sort.outs ++ " w " ++ showNats (sortedNodup (w.map (·.1))))
    | none => (st, "bad-op")
  | ["bd", "cls"] =>
    (st, "cls " ++ (if st.sys.cpus.isEmpty then "-" else " ".intercalate (st.sys.cpus.map (classOf st.k))))
  | _ => (st, "bad-op")

end Drivers.Sort
