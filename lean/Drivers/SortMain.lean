import Drivers.Sort
def main : IO Unit := Drivers.runLoop ({} : Drivers.Sort.St) Drivers.Sort.step
