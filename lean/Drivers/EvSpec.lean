import OvniModel.Emu.EvSpec
import OvniModel.Emu.Dispatch
import Drivers.Util

/-! Line-protocol driver for C18 (prefix `evs`):

* `code <model> <m> <c> <v>`  → `code <handled> <declared> <exception>` (0/1 each)
* `codes <model> <c>`         → `codes <256 digits>`; digit v = handled + 2·declared + 4·exception
                                 for the model's own character
* `compile <sig-hex>`         → `compile ok <m> <c> <v> <jumbo> <psize> <type>:<name-hex>:<size>:<offset> …`
                               | `compile err <tag>`
* `print <sig-hex> <desc-hex> <payload-hex> <outlen>`
                              → `print ok <hex>` | `print err <tag>` | `print cerr <tag>`
* `dump <m> <c> <v> <payload-hex>` (what `ovnidump` shows for the event)
                              → `dump ok <hex>` | `dump unknown` | `dump err <tag>`
* `evlist <model>`            → `evlist <n>` number of compiled declarations (0 if init fails)
-/
namespace Drivers.EvSpec
open Ovni.Emu.EvSpec Ovni.Emu.Dispatch

/-- compiled declarations of every model, computed once -/
def allDecls : List (ModelId × List Decl) := ModelId.all.map (fun M => (M, decls M))

def declsOf (M : ModelId) : List Decl :=
  match allDecls.find? (fun p => p.1 == M) with
  | some p => p.2
  | none => []

def b01 (b : Bool) : String := if b then "1" else "0"

def declaredFast (M : ModelId) (m c v : Nat) : Bool := (declsOf M).any (fun d => d.1.mcv == (m, c, v))

def showArg (a : Arg) : String :=
  s!"{a.type.code}:{Drivers.toHex a.name}:{a.size}:{a.offset}"

def showSpec (s : Spec) : String :=
  s!"{s.m} {s.c} {s.v} {b01 s.jumbo} {s.payloadSize}" ++
    String.join (s.args.map (fun a => " " ++ showArg a))

def step (args : List String) : String :=
  match args with
  | ["code", mo, m, c, v] =>
    match ModelId.ofName mo, m.toNat?, c.toNat?, v.toNat? with
    | some M, some m, some c, some v =>
      s!"code {b01 (handled M m c v)} {b01 (declaredFast M m c v)} {b01 (isException M m c v)}"
    | _, _, _, _ => "bad-op"
  | ["codes", mo, c] =>
    match ModelId.ofName mo, c.toNat? with
    | some M, some c =>
      let ds := declsOf M
      let digit (v : Nat) : Char :=
        let h := if handled M M.char c v then 1 else 0
        let d := if ds.any (fun d => d.1.mcv == (M.char, c, v)) then 2 else 0
        let x := if isException M M.char c v then 4 else 0
        Char.ofNat (48 + h + d + x)
      "codes " ++ String.ofList ((List.range 256).map digit)
    | _, _ => "bad-op"
  | ["compile", h] =>
    match Drivers.hexBytes h with
    | some sig =>
      match compile sig with
      | .ok s => "compile ok " ++ showSpec s
      | .error e => "compile err " ++ e.tag
    | none => "bad-op"
  | ["print", hs, hd, hp, n] =>
    match Drivers.hexBytes hs, Drivers.hexBytes hd, Drivers.hexBytes hp, n.toNat? with
    | some sig, some desc, some p, some outlen =>
      match compile sig with
      | .error e => "print cerr " ++ e.tag
      | .ok s =>
        match print s desc p outlen with
        | .ok o => "print ok " ++ Drivers.toHex o
        | .error e => "print err " ++ e.tag
    | _, _, _, _ => "bad-op"
  | ["dump", m, c, v, hp] =>
    match m.toNat?, c.toNat?, v.toNat?, Drivers.hexBytes hp with
    | some m, some c, some v, some p =>
      match ModelId.all.find? (fun M => M.char == m) with
      | none => "dump unknown"
      | some M =>
        match findDecl (declsOf M) (m, c, v) with
        | none => "dump unknown"
        | some d =>
          match print d.1 d.2 p 1024 with
          | .ok o => "dump ok " ++ Drivers.toHex o
          | .error e => "dump err " ++ e.tag
    | _, _, _, _ => "bad-op"
  | ["evlist", mo] =>
    match ModelId.ofName mo with
    | some M => s!"evlist {(declsOf M).length}"
    | none => "bad-op"
  | _ => "bad-op"

end Drivers.EvSpec
