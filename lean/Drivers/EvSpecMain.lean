import Drivers.EvSpec
def main : IO Unit := Drivers.runLoop () (fun _ ws =>
  match ws with
  | "evs" :: r => ((), Drivers.EvSpec.step r)
  | _ => ((), "bad-op"))
