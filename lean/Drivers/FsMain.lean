import Drivers.Fs
def main : IO Unit := Drivers.runLoop () (fun _ ws => ((), Drivers.Fs.script ws))
