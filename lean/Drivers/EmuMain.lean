import Drivers.Emu
def main : IO Unit := Drivers.runLoop ({} : Drivers.Emu.S) Drivers.Emu.step
