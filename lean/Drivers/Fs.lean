import OvniModel.Rt.Fs
import OvniModel.Generated.Consts
import Drivers.Rt
/-!
Line protocol of the file-system model (C09 C10):

  <query> | <mode d|t> <nAnc> <order> <tid> <jsize0,jsize1,…> | <script>

query:  calls            → the call list of the fault-free run
        kill <k>         → state after the first k calls
        fault <i> <f> <kept> → i-th call (0-based) fails with f ∈ ENOSPC EIO EACCES EINTR short;
                          kept = bytes stdio had flushed itself before a failing fclose
script: init ; … ; free ; fini as for drv_rt (single thread).  `order` is the
readdir order, one character per entry ('.' ':' 'o' 'j').  The JSON texts are
not modelled: the k-th metadata store writes jsize_k bytes.
-/
namespace Drivers.Fs
open Ovni.Rt Ovni.Rt.Fs

def rootStr : Root → String
  | .tmp => "T"
  | .fin => "F"

def pathStr : Path → String
  | .anc i => s!"^{i}"
  | .root r => rootStr r
  | .loom r => rootStr r ++ "/l"
  | .proc r => rootStr r ++ "/l/p"
  | .thread r t => rootStr r ++ s!"/l/p/t{t}"
  | .file r t .obs => rootStr r ++ s!"/l/p/t{t}/obs"
  | .file r t .json => rootStr r ++ s!"/l/p/t{t}/json"
  | .ghost t => s!"ghost{t}"

def entStr : DirEnt → String
  | .dot => "."
  | .dotdot => ".."
  | .f .obs => "stream.obs"
  | .f .json => "stream.json"

def opStr : FOp → String
  | .mkdir p => "mkdir:" ++ pathStr p
  | .stat p => "stat:" ++ pathStr p
  | .openW r t => "open:" ++ pathStr (.file r t .obs)
  | .write _ _ d => s!"write:{d.length}"
  | .close _ _ _ => "close"
  | .fopenW p => "fopen:" ++ pathStr p ++ ":w"
  | .fopenR p => "fopen:" ++ pathStr p ++ ":r"
  | .fputs _ d => s!"fputs:{d.length}"
  | .fwrite _ d => s!"fwrite:{d.length}"
  | .fread _ n => s!"fread:{n}"
  | .fcloseW _ => "fclose"
  | .fcloseR _ => "fclose"
  | .opendir p => "opendir:" ++ pathStr p
  | .readdir (some e) => "readdir:" ++ entStr e
  | .readdir none => "readdir:-"
  | .closedir => "closedir"
  | .remove p => "remove:" ++ pathStr p
  | .rmdir p => "rmdir:" ++ pathStr p

def callsStr (cs : List Call) : String := ",".intercalate (cs.map fun c => opStr c.op)

def isJson : Path → Bool
  | .file _ _ .json => true
  | _ => false

/-- Canonical file system: trace trees only, sorted by path string; JSON
    files by size only (their text is outside the model). -/
def fsStr (fs : Fs) : String :=
  let ents := fs.filterMap fun e =>
    match e.1 with
    | .anc _ => none
    | .ghost _ => none
    | p =>
      match e.2 with
      | .dir => some (pathStr p ++ "=d")
      | .file disk pend =>
        if isJson p then some (pathStr p ++ s!"=j:{disk.length}:{pend.length}")
        else some (pathStr p ++ "=f:" ++ Drivers.toHex disk ++ ":" ++ Drivers.toHex pend)
  ";".intercalate (ents.toArray.qsort (· < ·)).toList

def parseOrder (s : String) : Option (List DirEnt) :=
  s.toList.mapM fun c =>
    if c = '.' then some .dot else if c = ':' then some .dotdot
    else if c = 'o' then some (.f .obs) else if c = 'j' then some (.f .json) else none

def parseFault : String → Option Fault
  | "ENOSPC" => some .enospc
  | "EIO" => some .eio
  | "EACCES" => some .eacces
  -- the runtime has no errno-specific handling: an interrupted call is an error like any other
  | "EINTR" => some .eio
  | "short" => some .short
  | _ => none

inductive SOp where
  | buf (op : Op Drivers.Rt.Pat)
  | attrFlush

/-- The thread program of a script: `init ; ops… [; free] [; fini]`. -/
def buildThread (tid : Nat) (ops : List (List String)) : Option (ThreadProg × Bool) := do
  match ops with
  | ["init"] :: rest =>
    let fini := rest.getLast? == some ["fini"]
    let rest := if fini then rest.dropLast else rest
    let free := rest.getLast? == some ["free"]
    let rest := if free then rest.dropLast else rest
    let sops ← rest.mapM fun ws =>
      if ws == ["attrflush"] then some SOp.attrFlush
      else match ws with
        | ["init"] => none
        | ["free"] => none
        | ["fini"] => none
        | "marktype" :: _ => some (SOp.buf .metaOp)      -- metadata only
        | "marklabel" :: _ => some (SOp.buf .metaOp)
        | _ => (Drivers.Rt.parseOp ws).map SOp.buf
    let cap := Ovni.Generated.maxEvBuf
    let s0 : St Drivers.Rt.Pat := { now := 1000, tick := 1 }
    let s1 ← step cap s0 .init
    -- fold: buffer state, next metadata id, steps (reversed)
    let rec go (s : St Drivers.Rt.Pat) (k : Nat) (acc : List PStep) : List SOp → Option (List PStep × Nat)
      | [] => some (acc.reverse, k)
      | .attrFlush :: r => go s (k + 1) (.attrFlush k :: acc) r
      | .buf op :: r =>
        match stepW cap s op with
        | none => none
        | some (s', w) => go s' k (.io (w.map chunkBytes) :: acc) r
    let (steps, k) ← go s1 1 [] sops
    let hdr := streamHeader Ovni.Generated.streamMagic Ovni.Generated.streamVersion
    some ({ tid := tid, hdr := hdr, meta0 := 0, steps := steps, free := free, metaF := k }, fini)
  | _ => none

def outcomeStr : Outcome → String
  | .die _ => "die"
  | .returned _ => "returned"
  | .killed _ => "killed"

def script (line : List String) : String :=
  match Drivers.splitTok "|" line with
  | [query, [mode, nanc, order, tid, jsizes], scr] =>
    let opsl := (Drivers.splitTok ";" scr).filter (fun l => !l.isEmpty)
    match nanc.toNat?, parseOrder order, tid.toNat?, (jsizes.splitOn ",").mapM String.toNat?, (tid.toNat?).bind (buildThread · opsl) with
    | some na, some ord, some _, some sizes, some (tp, fini) =>
      let ser : Meta → List Nat := fun m => List.replicate (sizes.getD m.body 0) (if m.finished then 49 else 48)
      let p : Prog := { tmpMode := mode == "t", nAnc := na, order := ord, threads := [tp], fini := fini }
      let cs := calls ser p
      match query with
      | ["calls"] => s!"ok n={cs.length} calls={callsStr cs}"
      | ["kill", k] =>
        match k.toNat? with
        | some k =>
          let o := crashAt ser p k
          s!"{outcomeStr o} flushed={(o.fs.flushed tp.tid).length} fs={fsStr o.fs}"
        | none => "bad-query"
      | ["fault", i, f, kept] =>
        match i.toNat?, parseFault f, kept.toNat? with
        | some i, some f, some kept =>
          let o := faultAt ser p i f kept
          let fired := match cs[i]? with
            | some c => fires c.op f
            | none => false
          s!"{outcomeStr o} fired={if fired then 1 else 0} flushed={Drivers.toHex (o.fs.flushed tp.tid)} trace={callsStr (faultTrace ser p i f)} fs={fsStr o.fs}"
        | _, _, _ => "bad-query"
      | _ => "bad-query"
    | _, _, _, _, _ => "bad-op"
  | _ => "bad-line"

end Drivers.Fs
