import OvniModel.Json
import Drivers.Util

/-! Line-protocol driver of the parson model (same protocol as harness/json_h.c).

    Canonical dump of a value (one token): `n | t | f | #<int> | #<int>/<k> |
    s<hex> (s- = empty) | [v,...] | {<hexkey>:v,...}`. -/
namespace Drivers.Json
open Ovni.Json

partial def dump : Json → String
  | .null => "n"
  | .bool true => "t"
  | .bool false => "f"
  | .number n k => if k = 0 then s!"#{n}" else s!"#{n}/{k}"
  | .numberX _ => "#?"
  | .string s => "s" ++ Drivers.toHex s
  | .array vs => "[" ++ ",".intercalate (vs.map dump) ++ "]"
  | .object ms => "{" ++ ",".intercalate (ms.map fun (k, v) => Drivers.toHex k ++ ":" ++ dump v) ++ "}"

def isHexCh (c : Char) : Bool := (Drivers.hexVal c).isSome

/-- a run of hex digits (or `-`) at the head of the token -/
def hexRun (cs : List Char) : Option (List Nat × List Char) :=
  match cs with
  | '-' :: r => some ([], r)
  | _ =>
    let h := cs.takeWhile isHexCh
    match Drivers.hexBytes (String.ofList h) with
    | some b => if h.isEmpty then none else some (b, cs.dropWhile isHexCh)
    | none => none

def intRun (cs : List Char) : Option (Int × List Char) :=
  let (neg, r) := match cs with | '-' :: r => (true, r) | _ => (false, cs)
  let d := r.takeWhile Char.isDigit
  if d.isEmpty then none
  else
    match (String.ofList d).toNat? with
    | some n => some (if neg then -(n : Int) else (n : Int), r.dropWhile Char.isDigit)
    | none => none

mutual
partial def build (cs : List Char) : Option (Json × List Char) :=
  match cs with
  | 'n' :: r => some (.null, r)
  | 't' :: r => some (.bool true, r)
  | 'f' :: r => some (.bool false, r)
  | '#' :: r =>
    match intRun r with
    | some (n, '/' :: r2) =>
      match intRun r2 with
      | some (k, r3) => some (.number n k.toNat, r3)
      | none => none
    | some (n, r2) => some (.number n 0, r2)
    | none => none
  | 's' :: r => (hexRun r).map fun (b, r2) => (.string b, r2)
  | '[' :: ']' :: r => some (.array [], r)
  | '[' :: r => (buildElems r).map fun (vs, r2) => (.array vs, r2)
  | '{' :: '}' :: r => some (.object [], r)
  | '{' :: r => (buildMembers r).map fun (ms, r2) => (.object ms, r2)
  | _ => none
partial def buildElems (cs : List Char) : Option (List Json × List Char) :=
  match build cs with
  | some (v, ',' :: r) => (buildElems r).map fun (vs, r2) => (v :: vs, r2)
  | some (v, ']' :: r) => some ([v], r)
  | _ => none
partial def buildMembers (cs : List Char) : Option (Members × List Char) :=
  match hexRun cs with
  | some (k, ':' :: r) =>
    match build r with
    | some (v, ',' :: r2) => (buildMembers r2).map fun (ms, r3) => ((k, v) :: ms, r3)
    | some (v, '}' :: r2) => some ([(k, v)], r2)
    | _ => none
  | _ => none
end

def buildTok (t : String) : Option Json :=
  match build t.toList with
  | some (v, []) => some v
  | _ => none

/-- every string *value* is valid UTF-8 (`json_value_init_string`); names are not checked by parson -/
partial def stringsValid : Json → Bool
  | .string s => validUtf8 s
  | .array vs => vs.all stringsValid
  | .object ms => ms.all fun (_, v) => stringsValid v
  | _ => true

def showNum (x : Int × Nat) : String := if x.2 = 0 then s!"#{x.1}" else s!"#{x.1}/{x.2}"

def getOne (root : Json) (kind : String) (path : List Nat) : String :=
  let v := dotget root path
  match kind with
  | "num" => showNum (getNumber v)
  | "int" =>
    let x := getNumber v
    let q : Int := ((x.1.natAbs / 2 ^ x.2 : Nat) : Int)
    let t : Int := if x.1 < 0 then -q else q
    if -2147483648 ≤ t ∧ t ≤ 2147483647 then toString (cInt x) else "ovf"
  | "str" => match getString v with | some s => "s" ++ Drivers.toHex s | none => "N"
  | "len" => match getStringFull v with | some s => toString s.length | none => "0"
  | "obj" => match getObject v with | some ms => toString ms.length | none => "N"
  | "arr" => match getArray v with | some vs => toString vs.length | none => "N"
  | "bool" => toString (getBoolean v)
  | "val" => match v with | some x => dump x | none => "N"
  | "has" => if v.isSome then "1" else "0"
  | "gval" => match root.get? path with | some x => dump x | none => "N"
  | _ => "?"

def showRes (r : Res Json) : String :=
  match r with
  | .ok v => dump v
  | .fail => "fail"
  | .unsup => "unsup"
  | .oof => "oof"

/-- `parse`, but an accepted document with numbers of unknown value is shown
    with `#?` in their place (`unsup <dump>`): the grammar decision and every
    other value can still be compared. -/
def parseShow (b : List Nat) : String :=
  match parse b with
  | .unsup =>
    match parseValue (2 * (prepare b).length + 1) 0 (prepare b) with
    | .ok (v, _) => "unsup " ++ dump v
    | _ => "unsup"
  | r => showRes r

def step (ws : List String) : String :=
  match ws with
  | ["parse", h] | ["parsef", h] =>
    match Drivers.hexBytes h with
    | some b => "parse " ++ parseShow b
    | none => "bad-op"
  | "get" :: h :: qs =>
    match Drivers.hexBytes h with
    | none => "bad-op"
    | some b =>
      match parse b with
      | .ok (.object ms) =>
        "get" ++ String.join (qs.map fun q =>
          match q.splitOn ":" with
          | [kind, ph] => match Drivers.hexBytes ph with
            | some p => " " ++ getOne (.object ms) kind p
            | none => " ?"
          | _ => " ?")
      | .ok _ => "get noobj"
      | .unsup => "get unsup"
      | _ => "get fail"
  | ["ser", d] =>
    match buildTok d with
    | none => "ser bad"
    | some v => if stringsValid v then "ser " ++ Drivers.toHex (serializePretty v) else "ser badutf8"
  | "set" :: d :: sets =>
    match (buildTok d).bind fun v => if stringsValid v then some v else none with
    | some (.object ms) =>
      let (root, st) := sets.foldl (fun (acc : Json × String) s =>
        match s.splitOn "=" with
        | [ph, vd] =>
          match Drivers.hexBytes ph, buildTok vd with
          | some p, some v =>
            if !stringsValid v then (acc.1, acc.2 ++ "u")
            else match dotset acc.1 p v with
              | some r => (r, acc.2 ++ "1")
              | none => (acc.1, acc.2 ++ "0")
          | some _, none => (acc.1, acc.2 ++ "u")
          | _, _ => (acc.1, acc.2 ++ "?")
        | _ => (acc.1, acc.2 ++ "?")) ((Json.object ms), "")
      "set " ++ (if sets.isEmpty then "-" else st) ++ " " ++ dump root
    | _ => "set bad"
  | ["utf8", h] =>
    match Drivers.hexBytes h with
    | some b => "utf8 " ++ (if validUtf8 b then "1" else "0")
    | none => "bad-op"
  | _ => "bad-op"

end Drivers.Json
