import Drivers.Conc
def main : IO Unit := Drivers.runLoop () (fun _ ws => ((), Drivers.Conc.step ws))
