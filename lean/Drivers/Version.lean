import OvniModel.Version
import OvniModel.Generated.Consts
import Drivers.Util
namespace Drivers.Version
open Ovni.Version

def showVer : Option Ver → String
  | none => "none"
  | some v => s!"{v.major} {v.minor} {v.patch}"

def showProbe : Option Bool → String
  | none => "abort"
  | some true => "enabled"
  | some false => "disabled"

/-- thread requirement token: `N` = no require object, `-`= key absent, hex = version string -/
def parseReq (t : String) : Option ThreadReq :=
  if t = "N" then some none
  else if t = "A" then some (some none)
  else (Drivers.hexBytes t).map fun b => some (some b)

/-- `N` = no require object; `-` = empty object; else `name:hexver,name:hexver` -/
def parseRequire (t : String) : Option Require :=
  if t = "N" then some none
  else if t = "-" then some (some [])
  else
    (t.splitOn ",").mapM (fun (kv : String) =>
      match kv.splitOn ":" with
      | [k, v] => (Drivers.hexBytes v).map fun b => (k.toList.map Char.toNat, b)
      | _ => none) |>.map some

def step (args : List String) : String :=
  match args with
  | ["parse", h] =>
    match Drivers.hexBytes h with
    | some b => "parse " ++ showVer (parse (some b))
    | none => "bad-op"
  | ["parsenull"] => "parse " ++ showVer (parse none)
  | ["compat", a, b, c, d, e, f] =>
    match a.toNat?, b.toNat?, c.toNat?, d.toNat?, e.toNat?, f.toNat? with
    | some a, some b, some c, some d, some e, some f =>
      "compat " ++ (if compatible ⟨a, b, c⟩ ⟨d, e, f⟩ then "1" else "0")
    | _, _, _, _, _, _ => "bad-op"
  | ["check", h] =>
    match Drivers.hexBytes h with
    | some b => "check " ++ (if checkStr Ovni.Generated.libVersion (some b) then "ok" else "die")
    | none => "bad-op"
  | ["checknull"] => "check " ++ (if checkStr Ovni.Generated.libVersion none then "ok" else "die")
  | "probe" :: all :: spec :: reqs =>
    match Drivers.hexBytes spec, reqs.mapM parseReq with
    | some sv, some rs => "probe " ++ showProbe (modelEnabled (all = "1") sv rs)
    | _, _ => "bad-op"
  | "gate" :: all :: evs :: reqs =>
    let evm := if evs = "-" then some [] else (evs.splitOn ",").mapM (·.toNat?)
    match evm, reqs.mapM parseRequire with
    | some evm, some rs =>
      "gate " ++ (if gateVerdict (all = "1") Ovni.Generated.modelVersions rs evm then "pass" else "reject")
    | _, _ => "bad-op"
  | _ => "bad-op"

end Drivers.Version
