/-! Line-protocol helpers shared by the drivers (not part of the model). -/
namespace Drivers

def hexVal (c : Char) : Option Nat :=
  if '0' ≤ c ∧ c ≤ '9' then some (c.toNat - '0'.toNat)
  else if 'a' ≤ c ∧ c ≤ 'f' then some (c.toNat - 'a'.toNat + 10)
  else if 'A' ≤ c ∧ c ≤ 'F' then some (c.toNat - 'A'.toNat + 10)
  else none

/-- "-" is the empty byte string. -/
def hexBytes (s : String) : Option (List Nat) :=
  if s = "-" then some [] else
  let rec go : List Char → List Nat → Option (List Nat)
    | [], acc => some acc.reverse
    | [_], _ => none
    | a :: b :: r, acc =>
      match hexVal a, hexVal b with
      | some x, some y => go r ((x * 16 + y) :: acc)
      | _, _ => none
  go s.toList []

def hexDigit (n : Nat) : Char :=
  if n < 10 then Char.ofNat (n + 48) else Char.ofNat (n - 10 + 97)

def toHex (bs : List Nat) : String :=
  if bs.isEmpty then "-" else
  String.ofList (bs.flatMap fun b => [hexDigit (b / 16 % 16), hexDigit (b % 16)])

def words (line : String) : List String :=
  (line.trimAscii.toString.splitOn " ").filter (· ≠ "")

/-- Split a token list on a separator token. -/
def splitTok (sep : String) (ws : List String) : List (List String) :=
  let rec go : List String → List String → List (List String) → List (List String)
    | [], cur, acc => (cur.reverse :: acc).reverse
    | w :: r, cur, acc => if w = sep then go r [] (cur.reverse :: acc) else go r (w :: cur) acc
  go ws [] []

/-- Generic line loop for a (possibly stateful) driver: one operation per line
    in, one canonical line out; empty lines are echoed as empty lines. -/
partial def runLoop {σ : Type} (init : σ) (step : σ → List String → σ × String) : IO Unit := do
  let i ← IO.getStdin
  let o ← IO.getStdout
  let rec go (s : σ) : IO Unit := do
    let line ← i.getLine
    if line.isEmpty then return ()
    let ws := words line
    if ws.isEmpty then
      o.putStrLn ""
      go s
    else
      let (s', out) := step s ws
      o.putStrLn out
      go s'
  go init
  o.flush

end Drivers
