import Drivers.Heap
/-! `drv_heap`: heap unit engine (stateful) and player engine. -/
def heapStep (h : Drivers.HeapDrv.St) (ws : List String) : Drivers.HeapDrv.St × String :=
  match ws with
  | "heap" :: r => Drivers.HeapDrv.step h r
  | "play" :: r => (h, Drivers.PlayerDrv.step r)
  | _ => (h, "bad-op")

def main : IO Unit := Drivers.runLoop Ovni.Heap.Heap.empty heapStep
