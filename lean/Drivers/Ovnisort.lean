import OvniModel.Tools.Ovnisort
import Drivers.Util
/-! Line protocol of the ovnisort model.

  `ws <n> <hex body>`  -> `ws <status> <hex body after> plans=<f:k,...|-> empty=<k> pre=<R><W><C>`
  `chk <hex body>`     -> `chk pass|fail`
  The body is stream.obs without its 8-byte header. -/
namespace Drivers.Ovnisort
open Ovni.Ovnisort

def showStatus : Status → String
  | .ok => "ok"
  | .errNoDest => "err-nodest"
  | .errStream => "err-stream"
  | .dieHead => "die-head"
  | .dieTail => "die-tail"
  | .dieBufsize => "die-bufsize"
  | .dieRebuild => "die-rebuild"
  | .errRingNotSorted => "err-ringcheck"

def bit (b : Bool) : String := if b then "1" else "0"

def step (args : List String) : String :=
  match args with
  | ["ws", n, h] =>
    match n.toNat?, Drivers.hexBytes h with
    | some n, some body =>
      let (evs, trunc) := decodeBody body
      let tailBytes := body.drop (encodeBody evs).length
      let r := winsort isort n evs trunc
      let plans := if r.plans.isEmpty then "-" else
        ",".intercalate (r.plans.map fun (a, b) => s!"{a}:{b}")
      let pre := bit (decide (OnlyRegionsUnsorted evs)) ++ bit (decide (WithinWindow n evs))
        ++ bit (decide (ClocksSigned evs))
      s!"ws {showStatus r.status} {Drivers.toHex (encodeBody r.out ++ tailBytes)} plans={plans} empty={r.emptyRegions} pre={pre}"
    | _, _ => "bad-op"
  | ["chk", h] =>
    match Drivers.hexBytes h with
    | some body =>
      let (evs, trunc) := decodeBody body
      "chk " ++ (if streamCheck evs trunc then "pass" else "fail")
    | none => "bad-op"
  | _ => "bad-op"

end Drivers.Ovnisort
