import Drivers.Json
def main : IO Unit := Drivers.runLoop () (fun _ ws => ((), Drivers.Json.step ws))
