import Drivers.Util
import Drivers.Version

/-! Line-protocol driver for the stateless unit engines. Stateful engines have
    their own executable (`Drivers/*Main.lean`, one `lean_exe` each). -/

def dispatch (ws : List String) : String :=
  match ws with
  | "ver" :: r => Drivers.Version.step r
  | _ => "bad-op"

def main : IO Unit := Drivers.runLoop () (fun _ ws => ((), dispatch ws))
