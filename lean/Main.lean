import Drivers.Util
import Drivers.Version

/-! Line-protocol driver: one operation per line in, one canonical result per
    line out. `reset` lines are handled by stateful sub-drivers. -/

def dispatch (ws : List String) : String :=
  match ws with
  | "ver" :: r => Drivers.Version.step r
  | _ => "bad-op"

partial def loop (h : IO.FS.Stream) (out : IO.FS.Stream) : IO Unit := do
  let line ← h.getLine
  if line.isEmpty then return ()
  let ws := Drivers.words line
  if ws.isEmpty then
    out.putStrLn ""
  else
    out.putStrLn (dispatch ws)
  loop h out

def main : IO Unit := do
  let i ← IO.getStdin
  let o ← IO.getStdout
  loop i o
  o.flush
