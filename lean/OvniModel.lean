import OvniModel.Generated.All
import OvniModel.Version
import OvniModel.Lemmas.Version
import OvniModel.Props.C14
import OvniModel.Emu.System
import OvniModel.Props.C15
