import OvniModel.Generated.All
import OvniModel.Version
import OvniModel.Lemmas.Version
import OvniModel.Props.C14
import OvniModel.Emu.Task
import OvniModel.Emu.TaskSpec
import OvniModel.Lemmas.Task
import OvniModel.Props.C07
