import OvniModel.Emu.EvSpec
import OvniModel.Emu.Dispatch
import OvniModel.Lemmas.Dispatch
import OvniModel.Lemmas.EvSpec
import OvniModel.Lemmas.C18.All

/-!
# C18 — event catalogue consistency: declared, decodable and handled events coincide

Property theorems only.

* Model of the tools' side: `Emu/EvSpec.lean` (`ev_spec_compile`,
  `ev_spec_print`, `model_evspec_init`) applied to the **generated**
  `Generated.<M>.evlist`; `declared M m c v` = some declaration of model `M`
  has MCV `(m, c, v)`.
* Model of the emulator's side: `Emu/Dispatch.lean` (`process_ev` of the
  eight `event.c`) over the **generated** `Generated.<M>.table`;
  `handled M m c v` = the handler does not fail with an unknown-event error.
* The table-dependent part of every theorem is the Boolean `modelOk M`
  (`Lemmas/C18/Check.lean`), evaluated by the kernel per model in
  `Lemmas/C18/<Model>.lean`; an edit of an `evlist` or a table in `/repo`
  regenerates `Generated/*` and re-opens exactly that obligation.

All codes are triples of natural numbers: every byte triple and beyond, not
only the printable range.
-/
namespace Ovni.Props.C18
open Ovni.Emu.EvSpec Ovni.Emu.Dispatch

/-! ## The catalogue -/

/-- **`catalogue_eq`.**  For every model and every code, the handler
    recognises the code iff the tools list it, except for the enumerated
    exceptions (value byte ignored in `OB*`/`OU*`; legacy `6TC`). -/
theorem catalogue_eq (M : ModelId) (m c v : Nat) :
    handled M m c v = true ↔ (declared M m c v = true ∨ isException M m c v = true) := by
  obtain ⟨ds, _, hds, hcat, _⟩ := modelOk_unfold M
  unfold catalogueOk at hcat
  simp only [Bool.and_eq_true, List.all_eq_true, Bool.or_eq_true, beq_iff_eq,
    List.contains_eq_mem, decide_eq_true_eq] at hcat
  obtain ⟨⟨⟨hwild, hfk⟩, hdecl⟩, hleg⟩ := hcat
  have hmcv : declaredMcv M = ds.map (·.1.mcv) := by unfold declaredMcv; rw [hds]
  unfold handled declared isException
  rw [hmcv]
  simp only [Bool.and_eq_true, beq_iff_eq, Bool.or_eq_true, List.contains_eq_mem,
    decide_eq_true_eq]
  rw [accepts_iff, hwild]
  constructor
  · rintro ⟨hm, hc | hk⟩
    · exact Or.inr ⟨hm, Or.inl hc⟩
    · rcases hfk (c, v) hk with h | h
      · left; rw [hm]; exact h
      · exact Or.inr ⟨hm, Or.inr h⟩
  · rintro (h | ⟨hm, hc | hl⟩)
    · have := hdecl (m, c, v) h
      exact this
    · exact ⟨hm, Or.inl hc⟩
    · exact ⟨hm, Or.inr (hleg (c, v) hl)⟩

/-- Every listed event is recognised by its model's handler (no exception
    clause needed in this direction). -/
theorem declared_handled (M : ModelId) (m c v : Nat) (h : declared M m c v = true) :
    handled M m c v = true :=
  (catalogue_eq M m c v).2 (Or.inl h)

/-- Every unlisted code is rejected, apart from the enumerated exceptions. -/
theorem undeclared_rejected (M : ModelId) (m c v : Nat) (hd : declared M m c v = false)
    (he : isException M m c v = false) : handled M m c v = false := by
  cases hh : handled M m c v with
  | false => rfl
  | true =>
    rcases (catalogue_eq M m c v).1 hh with h | h
    · rw [hd] at h; cases h
    · rw [he] at h; cases h

/-- A handler only ever recognises events that carry its own model character. -/
theorem handled_own_model (M : ModelId) (m c v : Nat) (h : handled M m c v = true) :
    m = M.char := by
  unfold handled at h
  simp only [Bool.and_eq_true, beq_iff_eq] at h
  exact h.1

/-- The exceptions, spelled out: base-model bursts `OB*` and unordered-region
    markers `OU*` with any value byte, and the old Nanos6 event `6TC`. -/
theorem exceptions_enumerated (M : ModelId) (m c v : Nat) :
    isException M m c v = true ↔
      (M = .ovni ∧ m = 79 ∧ (c = 66 ∨ c = 85)) ∨ (M = .nanos6 ∧ m = 54 ∧ c = 84 ∧ v = 67) := by
  cases M <;>
    simp [isException, wildCats, legacy, ModelId.char, Ovni.Generated.Ovni.modelChar,
      Ovni.Generated.Nanos6.modelChar]

/-- The context of the dispatch theorems is reachable: a running thread on
    its CPU passes the guard of every handler, where the verdict is `handled`. -/
theorem permissive_guard (M : ModelId) (m c v : Nat) :
    handledIn permissive M m c v = handled M m c v := by
  simp [handledIn, stateGuard, stateGuardOf, permissive]

/-! ## The declarations -/

/-- **`signature_wellformed`.**  `model_evspec_init` succeeds on the generated
    event list of every model: every signature parses, its model character is
    the model's, no MCV is declared twice, and the arguments are laid out in
    declaration order without gaps (after the size word of a jumbo event). -/
theorem signature_wellformed (M : ModelId) :
    ∃ ds, evspecInit M.char M.evlist = .ok ds ∧ decls M = ds ∧
      (∀ p ∈ M.evlist, ∃ s, compile p.1 = .ok s ∧ s.m = M.char ∧ (s, p.2) ∈ ds) ∧
      (ds.map (·.1.mcv)).Nodup ∧
      (∀ d ∈ ds, layoutOk d.1 = true) := by
  obtain ⟨ds, hinit, hds, _, hdecls⟩ := modelOk_unfold M
  refine ⟨ds, hinit, hds, ?_, ?_, ?_⟩
  · unfold initResult evspecInit at hinit
    split at hinit
    · cases hinit
    · exact initLoop_mem M.char M.evlist [] 0 ds hinit
  · unfold initResult evspecInit at hinit
    split at hinit
    · cases hinit
    · exact initLoop_nodup M.char M.evlist [] 0 ds hinit List.nodup_nil
  · intro d hd
    unfold declsOk at hdecls
    rw [List.all_eq_true] at hdecls
    have := hdecls d hd
    simp only [Bool.and_eq_true] at this
    exact this.1

/-- **`print_total`.**  For every declared event of every model and every
    payload of the declared shape, `ev_spec_print` into `ovnidump`'s 1024-byte
    buffer succeeds, and what it writes is exactly the description with each
    `%{name}` / `%fmt{name}` region replaced by the rendering of the payload
    field `name` (and nothing else changed). -/
theorem print_total (M : ModelId) (d : Decl) (hd : d ∈ decls M) (p : Str) (hp : Shape d.1 p) :
    ∃ out, print d.1 d.2 p OUTLEN = .ok out ∧ substitute d.1 d.2 p = some out := by
  obtain ⟨ds, _, hds, _, hdecls⟩ := modelOk_unfold M
  rw [hds] at hd
  unfold declsOk at hdecls
  rw [List.all_eq_true] at hdecls
  have := hdecls d hd
  simp only [Bool.and_eq_true] at this
  exact print_of_printable d.1 d.2 p OUTLEN this.2 hp

/-- A listed event has a description `ovnidump` can find. -/
theorem declared_has_decl (M : ModelId) (m c v : Nat) (h : declared M m c v = true) :
    ∃ d ∈ decls M, d.1.mcv = (m, c, v) := by
  unfold declared declaredMcv at h
  simp only [List.contains_eq_mem, decide_eq_true_eq] at h
  obtain ⟨d, hd, he⟩ := List.mem_map.mp h
  exact ⟨d, hd, he⟩

/-! ## Non-vacuity -/

/-- a declared and handled table event (`VAa`), an undeclared one (`VAz`) -/
example : declared .nosv 86 65 97 = true ∧ handled .nosv 86 65 97 = true ∧
    declared .nosv 86 65 122 = false ∧ handled .nosv 86 65 122 = false := by decide +kernel

/-- the exceptions are real: accepted but not declared -/
example : handled .ovni 79 66 33 = true ∧ declared .ovni 79 66 33 = false ∧
    handled .ovni 79 85 0 = true ∧ declared .ovni 79 85 0 = false ∧
    handled .nanos6 54 84 67 = true ∧ declared .nanos6 54 84 67 = false := by decide +kernel

/-- codes outside the printable range and outside a byte are covered -/
example : handled .mpi 77 300 7 = false ∧ declared .mpi 77 300 7 = false ∧
    handled .kernel 75 67 0 = false := by decide +kernel

/-- `OHx(i32 cpu, i32 tid, u64 tag)` as compiled -/
private def exOHx : Spec :=
  { m := 79, c := 72, v := 120, jumbo := false, payloadSize := 16,
    args := [⟨.i32, ofString "cpu", 4, 0⟩, ⟨.i32, ofString "tid", 4, 4⟩,
             ⟨.u64, ofString "tag", 8, 8⟩] }

/-- `VYc+(u32 typeid, str label)` as compiled -/
private def exVYc : Spec :=
  { m := 86, c := 89, v := 99, jumbo := true, payloadSize := 8,
    args := [⟨.u32, ofString "typeid", 4, 4⟩, ⟨.str, ofString "label", 0, 8⟩] }

/-- `Shape` is satisfiable and `print` substitutes: cpu = 3, tid = -1, tag = 0xabc. -/
example :
    Shape exOHx [3, 0, 0, 0, 255, 255, 255, 255, 188, 10, 0, 0, 0, 0, 0, 0] ∧
    (print exOHx (ofString "begins the execution on CPU %{cpu} created from %{tid} with tag %#llx{tag}")
      [3, 0, 0, 0, 255, 255, 255, 255, 188, 10, 0, 0, 0, 0, 0, 0] 1024).toOption
      = some (ofString "begins the execution on CPU 3 created from -1 with tag 0xabc") := by
  refine ⟨?_, ?_⟩
  · simp [Shape, Spec.hasStr, exOHx]
  · decide +kernel

/-- a jumbo event with a string (size word 7, typeid 9, label "ab") -/
example :
    Shape exVYc [7, 0, 0, 0, 9, 0, 0, 0, 97, 98, 0] ∧
    (print exVYc (ofString "creates task type %{typeid} with label \"%{label}\"")
      [7, 0, 0, 0, 9, 0, 0, 0, 97, 98, 0] 1024).toOption
      = some (ofString "creates task type 9 with label \"ab\"") := by
  refine ⟨?_, ?_⟩
  · refine ⟨[97, 98], ?_⟩
    simp [exVYc, MAX_LABEL]
  · decide +kernel

end Ovni.Props.C18
