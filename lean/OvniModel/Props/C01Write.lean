import OvniModel.Rt.WriteLoop

/-!
# C01, the write loop — `write_evbuf` under every short-write schedule

`Props/C01.lean` proves stream fidelity for buffers that are handed to the file
whole.  The operating system may transfer fewer bytes than asked, at every call,
as it pleases; the theorems here remove that assumption for the loop of
`write_evbuf` (model `Rt/WriteLoop.lean`, the OS being an arbitrary list of
answers):

* `write_evbuf_exact` — whenever the loop ends, the file has grown by exactly
  the buffer: nothing lost, nothing repeated, nothing reordered;
* `write_evbuf_prefix` — at every other moment (abort on an error, or still
  looping) the file has grown by a *prefix* of the buffer and the loop owes the
  rest (what C09 needs of a killed run);
* `write_evbuf_terminates` — if every answer transfers at least one byte the
  loop ends after at most `max 1 size` calls, whatever the counts are;
* `replay_accepts` / `replay_accepts_abort` — the call log of the loop is what
  `replay` demands of the real library's call log (each request is the previous
  one minus what was transferred; an error is the last call);
* `zero_progress_never_ends` — a kernel answering 0 for ever keeps the loop
  running (the code has no bound; stated so that the limit is visible);
* `retry_from_start_duplicates` — the variant of seeded change C01-1 violates
  `write_evbuf_exact` on a three-byte buffer (`decide`).
-/
namespace Ovni.Props.C01Write
open Ovni.Rt.WriteLoop

@[simp] theorem file_cons (c : Call) (o : Out) : (o.cons c).file = o.file := by cases o <;> rfl
@[simp] theorem isDone_cons (c : Call) (o : Out) : (o.cons c).isDone = o.isDone := by cases o <;> rfl
@[simp] theorem rest_cons (c : Call) (o : Out) : (o.cons c).rest = o.rest := by cases o <;> rfl
@[simp] theorem log_cons (c : Call) (o : Out) : (o.cons c).log = c :: o.log := by cases o <;> rfl

/-- the bytes the file has gained are a prefix of the buffer, the loop owes the rest -/
def PrefixOf (file0 buf : List Nat) (o : Out) : Prop :=
  ∃ n, n ≤ buf.length ∧ o.file = file0 ++ buf.take n ∧
    (o.isDone = true → n = buf.length) ∧ (∀ r, o.rest = some r → r = buf.drop n)

theorem loop_prefix (o : List Ret) : ∀ (file buf : List Nat), PrefixOf file buf (loop o file buf) := by
  induction o with
  | nil => intro file buf; exact ⟨0, Nat.zero_le _, by simp [loop, Out.file], by simp [loop, Out.isDone], by simp [loop, Out.rest]⟩
  | cons r rest ih =>
    intro file buf
    cases r with
    | err => exact ⟨0, Nat.zero_le _, by simp [loop, Out.file], by simp [loop, Out.isDone], by simp [loop, Out.rest]⟩
    | count k =>
      simp only [loop]
      split
      · rename_i h
        have hk : min k buf.length = buf.length := by omega
        exact ⟨buf.length, Nat.le_refl _, by simp [Out.file, hk], fun _ => rfl, by simp [Out.rest]⟩
      · rename_i h
        obtain ⟨n, hn, hf, hd, hr⟩ := ih (file ++ buf.take (min k buf.length)) (buf.drop (min k buf.length))
        have hk : min k buf.length ≤ buf.length := Nat.min_le_right _ _
        have hn' : n ≤ buf.length - min k buf.length := by simpa using hn
        refine ⟨min k buf.length + n, by omega, ?_, ?_, ?_⟩
        · rw [file_cons, hf, List.append_assoc]
          congr 1
          rw [List.take_add]
        · intro hd'; rw [isDone_cons] at hd'; have := hd hd'; simp at this; omega
        · intro r hr'; rw [rest_cons] at hr'; rw [hr r hr', List.drop_drop]

/-- **Exactness.**  For every answer list of the operating system, every earlier
    file content and every buffer: if `write_evbuf` returns, the file is the
    earlier content followed by the whole buffer. -/
theorem write_evbuf_exact (o : List Ret) (file buf f : List Nat) (l : List Call)
    (h : writeEvbuf o file buf = .done f l) : f = file ++ buf := by
  obtain ⟨n, _, hf, hd, _⟩ := loop_prefix o file buf
  unfold writeEvbuf at h
  rw [h] at hf hd
  have := hd rfl
  simp [Out.file] at hf
  rw [hf, this, List.take_length]

/-- **Prefix at every other moment.**  Abort or still looping: the file has
    gained a prefix of the buffer (never a byte out of place), and a loop that is
    still running owes exactly the remainder. -/
theorem write_evbuf_prefix (o : List Ret) (file buf : List Nat) :
    PrefixOf file buf (writeEvbuf o file buf) := loop_prefix o file buf

/-- every answer is a count of at least one byte -/
def Progress (o : List Ret) : Prop := ∀ r ∈ o, ∃ k, r = .count k ∧ 1 ≤ k

theorem loop_terminates (o : List Ret) : ∀ (file buf : List Nat),
    Progress o → max 1 buf.length ≤ o.length → (loop o file buf).isDone = true := by
  induction o with
  | nil => intro _ buf _ hl; simp at hl
  | cons r rest ih =>
    intro file buf hp hl
    obtain ⟨k, rfl, hk⟩ := hp r (List.mem_cons_self ..)
    simp only [loop]
    split
    · rfl
    · rename_i h
      rw [isDone_cons]
      apply ih
      · intro r hr; exact hp r (List.mem_cons_of_mem _ hr)
      · simp only [List.length_drop, List.length_cons] at hl ⊢
        omega

/-- **Termination.**  If the operating system transfers at least one byte per
    call, the loop returns after at most `max 1 size` calls — for every choice of
    the counts — and the file is the earlier content plus the buffer. -/
theorem write_evbuf_terminates (o : List Ret) (file buf : List Nat)
    (hp : Progress o) (hl : max 1 buf.length ≤ o.length) :
    ∃ l, writeEvbuf o file buf = .done (file ++ buf) l := by
  have h := loop_terminates o file buf hp hl
  unfold writeEvbuf
  cases hq : loop o file buf with
  | done f l =>
    have := write_evbuf_exact o file buf f l hq
    subst this
    exact ⟨l, rfl⟩
  | died f l => rw [hq] at h; simp [Out.isDone] at h
  | running f r l => rw [hq] at h; simp [Out.isDone] at h

theorem replay_loop (o : List Ret) : ∀ (file buf : List Nat) (owed : Option Nat) (i loops bytes : Nat),
    (owed = none ∨ owed = some buf.length) → (owed = none ∨ 0 < o.length) →
    replayAux (loop o file buf).log owed i loops bytes =
      match loop o file buf with
      | .done _ _ => .ok (loops + 1) (bytes + buf.length)
      | .died _ l => .aborted (i + l.length - 1) true
      | .running _ r _ => match owed with | none => (if o.isEmpty then .ok loops bytes else .unfinished r.length) | some _ => .unfinished r.length := by
  induction o with
  | nil =>
    intro file buf owed i loops bytes ho hl
    rcases ho with rfl | rfl
    · simp [loop, Out.log, replayAux]
    · simp at hl
  | cons r rest ih =>
    intro file buf owed i loops bytes ho _
    have hown : ¬ (owed.isSome ∧ owed ≠ some buf.length) := by
      rcases ho with rfl | rfl <;> simp
    cases r with
    | err => simp [loop, Out.log, replayAux, hown]
    | count k =>
      have hk : min k buf.length ≤ buf.length := Nat.min_le_right _ _
      simp only [loop]
      split
      · rename_i h
        have hm : min k buf.length = buf.length := by omega
        simp only [Out.log, replayAux, hown, if_false, hm, Nat.lt_irrefl, Nat.sub_self, if_true]
      · rename_i h
        rw [log_cons]
        simp only [replayAux, hown, if_false]
        have h1 : ¬ (min k buf.length > buf.length) := by omega
        simp only [h1, if_false, h]
        have hlen : (buf.drop (min k buf.length)).length = buf.length - min k buf.length := by simp
        have := ih (file ++ buf.take (min k buf.length)) (buf.drop (min k buf.length))
          (some (buf.length - min k buf.length)) (i + 1) loops (bytes + min k buf.length)
          (Or.inr (by rw [hlen]))
        cases hr : rest with
        | nil =>
          simp [loop, Out.log, Out.cons, replayAux]
          rcases ho with rfl | rfl <;> simp [hlen]
        | cons r2 rest2 =>
          have := this (Or.inr (by simp [hr]))
          rw [hr] at this
          rw [this]
          cases hq : loop (r2 :: rest2) (file ++ buf.take (min k buf.length)) (buf.drop (min k buf.length)) with
          | done f l => simp [Out.cons]; omega
          | died f l => simp [Out.cons]; try omega
          | running f r l => simp [Out.cons]; rcases ho with rfl | rfl <;> simp

/-- **The call log of a finished loop is accepted by `replay`**: one loop, as
    many bytes as the buffer has — for every answer list. -/
theorem replay_accepts (o : List Ret) (file buf f : List Nat) (l : List Call)
    (h : writeEvbuf o file buf = .done f l) : replay l = .ok 1 buf.length := by
  have := replay_loop o file buf none 0 0 0 (Or.inl rfl) (Or.inl rfl)
  unfold writeEvbuf at h
  rw [h] at this
  simpa [replay, Out.log] using this

/-- **… and the log of an aborted loop ends with the failed call.** -/
theorem replay_accepts_abort (o : List Ret) (file buf f : List Nat) (l : List Call)
    (h : writeEvbuf o file buf = .died f l) : replay l = .aborted (l.length - 1) true := by
  have := replay_loop o file buf none 0 0 0 (Or.inl rfl) (Or.inl rfl)
  unfold writeEvbuf at h
  rw [h] at this
  simpa [replay, Out.log] using this

/-- **A whole run.**  The header and every flushed buffer go through their own
    loop with their own answers: if all loops return, the file is exactly the
    concatenation of the buffers in flush order (what `Rt/Buffer`'s `disk` is:
    `Props/C01.stream_fidelity` is about that concatenation). -/
theorem writeAll_exact : ∀ (os : List (List Ret)) (bufs : List (List Nat)) (file f : List Nat),
    writeAll os bufs file = some f → f = file ++ bufs.flatten
  | _, [], file, f, h => by simp [writeAll] at h; simp [h]
  | [], _ :: _, _, _, h => by simp [writeAll] at h
  | o :: os, b :: bs, file, f, h => by
    simp only [writeAll] at h
    cases hq : writeEvbuf o file b with
    | done f1 l =>
      rw [hq] at h
      have h1 := write_evbuf_exact o file b f1 l hq
      have h2 := writeAll_exact os bs f1 f h
      rw [h2, h1]; simp
    | died f1 l => rw [hq] at h; simp at h
    | running f1 r l => rw [hq] at h; simp at h

/-- … and all loops do return when every answer of every loop moves at least one
    byte and there are enough answers. -/
theorem writeAll_terminates : ∀ (os : List (List Ret)) (bufs : List (List Nat)) (file : List Nat),
    os.length = bufs.length →
    (∀ i (h : i < os.length) (h' : i < bufs.length), Progress os[i] ∧ max 1 bufs[i].length ≤ os[i].length) →
    writeAll os bufs file = some (file ++ bufs.flatten)
  | [], [], file, _, _ => by simp [writeAll]
  | [], _ :: _, _, hl, _ => by simp at hl
  | _ :: _, [], _, hl, _ => by simp at hl
  | o :: os, b :: bs, file, hl, hp => by
    have h0 := hp 0 (by simp) (by simp)
    obtain ⟨l, hq⟩ := write_evbuf_terminates o file b h0.1 h0.2
    simp only [writeAll, hq]
    have := writeAll_terminates os bs (file ++ b) (by simpa using hl)
      (fun i h h' => by
        have := hp (i + 1) (by simp; omega) (by simp; omega)
        simp only [List.getElem_cons_succ] at this
        exact this)
    rw [this]; simp

example : writeAll [[.count 3, .count 9], [.count 1, .count 1]] [[1, 2, 3, 4], [5, 6]] [0] = some [0, 1, 2, 3, 4, 5, 6] := by decide

/-- a kernel that answers 0 for ever: the loop never ends (no bound in the code) -/
theorem zero_progress_never_ends (n : Nat) (file buf : List Nat) (hb : buf ≠ []) :
    (writeEvbuf (List.replicate n (.count 0)) file buf).isDone = false := by
  unfold writeEvbuf
  induction n generalizing file with
  | zero => rfl
  | succ n ih =>
    have : buf.length ≠ 0 := by simpa using hb
    simp only [List.replicate_succ, loop, Nat.zero_min, Nat.sub_zero, this, if_false, isDone_cons,
      List.take_zero, List.drop_zero, List.append_nil]
    exact ih file

/-! ### non-vacuity and the seeded variant -/

/-- a 5-byte buffer written as 2 + 1 + 2: three calls asking for 5, 3, 2 -/
example : writeEvbuf [.count 2, .count 1, .count 9] [7] [1, 2, 3, 4, 5] =
    .done [7, 1, 2, 3, 4, 5] [(5, some 2), (3, some 1), (2, some 2)] := by decide

/-- an empty buffer: `write` is still called once (`do … while`) -/
example : writeEvbuf [.count 0] [7] [] = .done [7] [(0, some 0)] := by decide

/-- an error at the second call: the file holds the first two bytes -/
example : writeEvbuf [.count 2, .err] [] [1, 2, 3] = .died [1, 2] [(3, some 2), (1, none)] := by decide

example : replay [(5, some 2), (3, some 1), (2, some 2), (4, some 4)] = .ok 2 9 := by decide
/-- C01-3 (asks for `size` again instead of `size - done`) is a mismatch at call 1 -/
example : replay [(5, some 2), (5, some 3)] = .mismatch 1 3 5 := by decide

/-- **Seeded change C01-1** (a short write retried from the start of the buffer)
    ends with a file that is not `file ++ buf`. -/
theorem retry_from_start_duplicates :
    loopRetryFromStart [.count 2, .count 1] [] [1, 2, 3] 3 = .done [1, 2, 1] [] := by decide

end Ovni.Props.C01Write
