import OvniModel.Lemmas.JsonTop
import OvniModel.Lemmas.JsonGet

/-!
# parson as ovni uses it — the theorems that replace "parson is a total JSON parser/serializer"

Model: `OvniModel/Json.lean` (`parse` = `json_parse_file_with_comments`, the
getters, `dotset`, `serializePretty` = `json_serialize_to_string_pretty`), tied
to the real `src/parson.c` by `checks/json_lib.py` (harness `harness/json_h.c`).
Not tied to one property: C09 (a cut `stream.json` is refused), C12 (metadata
gates read what these getters return), C17 / C19.

* `roundtrip` — every value in the libovni-writable class parses back from its
  pretty serialization, at full strength (any nesting up to `MAX_NESTING`, any
  byte strings, any names without NUL, integers up to 2^53 in magnitude).
* `truncation_rejected` — no strict prefix (the empty one included) of the
  serialization of an object, an array or a string is accepted.  (For a number
  the statement is false: `12` cut to `1` parses.)
* `trailing_ignored` — what follows a complete object / array / string is not
  looked at (`parse_value` returns at the closing delimiter; the emulator
  accepts a `stream.json` with garbage after the final `}`).
* `dotget_after_dotset` / `getter_law` — `dotget` on the parsed serialization
  returns what the `dotset` sequence stored.
* `parse_total` — the fuel `parse` supplies is never exhausted and any larger
  fuel gives the same result: `parse` is a total function that does not hide a
  diverging computation.
-/
namespace Ovni.Props.Json
open Ovni.Json

/-! ### (d) totality -/

/-- `parse` runs `parse_value` with fuel `2 * length + 1`: that fuel is never
    exhausted, and every larger fuel computes the same result. -/
theorem parse_total (s : List Nat) (n : Nat) :
    parseValue (2 * s.length + 1) n s ≠ .oof
    ∧ ∀ f, 2 * s.length + 1 ≤ f → parseValue f n s = parseValue (2 * s.length + 1) n s :=
  ⟨parseValue_ne_oof (Nat.le_refl _), fun _ hf => parseValue_fuel_eq hf⟩

/-- The result of `parse` is the result of `parse_value` at nesting 0 on the
    prepared text with *any* sufficient fuel; only number values the model does
    not compute turn an accepted document into `unsup`. -/
theorem parse_eq (s : List Nat) (f : Nat) (hf : 2 * (prepare s).length + 1 ≤ f) :
    parse s = match parseValue f 0 (prepare s) with
      | .ok (v, _) => if v.exact then .ok v else .unsup
      | _ => .fail := by
  unfold parse
  rw [parseValue_fuel_eq hf]
  have h1 := parseValue_ne_oof (n := 0) (Nat.le_refl (2 * (prepare s).length + 1))
  have h2 := parseValue_ne_unsup (2 * (prepare s).length + 1) 0 (prepare s)
  cases h : parseValue (2 * (prepare s).length + 1) 0 (prepare s) with
  | ok a => rfl
  | fail => rfl
  | unsup => exact absurd h h2
  | oof => exact absurd h h1

/-! ### (a) round trip -/

/-- `json_parse_file_with_comments` on what `json_serialize_to_file_pretty`
    wrote gives the value back, for every writable value. -/
theorem roundtrip (j : Json) (hw : Writable j) : parse (serializePretty j) = .ok j := by
  unfold parse
  rw [prepare_prefix (List.prefix_refl _)]
  have h := rtV j 0 0 [] (2 * (serializePretty j).length + 1) hw (by intro a ha; simp at ha)
    (by simp [serializePretty])
  simp only [List.append_nil] at h
  rw [show ser j 0 = serializePretty j from rfl] at h
  rw [h]
  simp only [wr_exact j 0 hw, if_true]

/-! ### (b) truncation -/

/-- A `stream.json` (any writable object, array or string) cut anywhere before
    its last byte — by a kill during `fputs`, by a full disk — is refused by
    `json_parse_file_with_comments`; so is the empty file. -/
theorem truncation_rejected (j : Json) (hw : Writable j) (hd : delimited j = true) (p : List Nat)
    (hp : p <+: serializePretty j) (hne : p ≠ serializePretty j) : parse p = .fail := by
  obtain ⟨u, hu⟩ := hp
  have hune : u ≠ [] := by
    intro e; subst e
    exact hne (by simpa using hu)
  rw [parse_eq p _ (Nat.le_refl _), prepare_prefix ⟨u, hu⟩]
  cases hres : parseValue (2 * p.length + 1) 0 p with
  | fail => rfl
  | unsup => rfl
  | oof => rfl
  | ok a =>
    exfalso
    obtain ⟨v', r'⟩ := a
    -- the value parsed from the prefix is closed
    obtain ⟨a0, t0, hser, ha0⟩ := ser_head_delimited hd 0
    have hcl : closed v' = true := by
      cases p with
      | nil =>
        rw [parseValue.eq_2] at hres
        simp [skipWs] at hres
      | cons b p' =>
        have hb : b = a0 := by
          have : (b :: p') ++ u = a0 :: t0 := by rw [hu]; exact hser
          simp only [List.cons_append, List.cons.injEq] at this
          exact this.1
        subst hb
        exact closed_of_head ha0 hres
    -- so the text after it does not matter: the whole serialization parses to `v'` with a non-empty rest
    obtain ⟨c, hc, hext⟩ := parseValue_ext hres
    have h1 := hext (r' ++ u) (Or.inl hcl)
    have e1 : c ++ (r' ++ u) = serializePretty j := by rw [← List.append_assoc, ← hc, hu]
    rw [e1] at h1
    -- but it parses to `j` with nothing left
    have h2 := rtV j 0 0 [] (2 * (serializePretty j).length + 1) hw (by intro a ha; simp at ha)
      (by simp [serializePretty])
    simp only [List.append_nil] at h2
    rw [show ser j 0 = serializePretty j from rfl] at h2
    have hlen : (serializePretty j).length = p.length + u.length := by rw [← hu]; simp
    have h3 : parseValue (2 * (serializePretty j).length + 1) 0 (serializePretty j) = .ok (v', r' ++ u) := by
      have hne' : parseValue (2 * p.length + 1) 0 (serializePretty j) ≠ .oof := by rw [h1]; simp
      have := parseValue_fuel_mono hne' (2 * u.length)
      rw [← h1, ← this]
      congr 1
      omega
    rw [h2] at h3
    simp only [Res.ok.injEq, Prod.mk.injEq] at h3
    have : r' ++ u = [] := h3.2.symm
    exact hune (List.append_eq_nil_iff.1 this).2

/-- `parse_value` stops at the closing delimiter of the root value: whatever
    follows a complete object, array or string is handed back unread
    (`json_parse_string` drops it). -/
theorem trailing_ignored (j : Json) (hw : Writable j) (hd : delimited j = true) (g : List Nat) (f : Nat)
    (hf : 2 * (serializePretty j ++ g).length + 1 ≤ f) :
    parseValue f 0 (serializePretty j ++ g) = .ok (j, g) := by
  have h2 := rtV j 0 0 [] (2 * (serializePretty j).length + 1) hw (by intro a ha; simp at ha)
    (by simp [serializePretty])
  obtain ⟨c, hc, hext⟩ := parseValue_ext h2
  have hcl : closed j = true := by cases j <;> first | rfl | cases hd
  simp only [List.append_nil] at hc
  have h1 := hext g (Or.inl hcl)
  rw [← hc, show ser j 0 = serializePretty j from rfl] at h1
  have hne' : parseValue (2 * (serializePretty j).length + 1) 0 (serializePretty j ++ g) ≠ .oof := by
    rw [h1]; simp
  obtain ⟨k, rfl⟩ : ∃ k, f = 2 * (serializePretty j).length + 1 + k :=
    ⟨f - (2 * (serializePretty j).length + 1), by simp only [List.length_append] at hf; omega⟩
  rw [parseValue_fuel_mono hne' k, h1]

/-! ### (c) getters -/

/-- `json_object_dotget_value` after `json_object_dotset_value` on the same path. -/
theorem dotget_after_dotset (j j' : Json) (p : List Nat) (v : Json) (h : dotset j p v = some j') :
    dotget j' p = some v := dotget_dotset_same h

/-- … and on a path that neither contains nor is contained in the one set. -/
theorem dotget_unchanged_by_dotset (j j' : Json) (p q : List Nat) (v : Json) (h : dotset j p v = some j')
    (hi : Indep (splitDots p) (splitDots q)) : dotget j' q = dotget j q := dotget_dotset_other h hi

/-- What libovni stored with a sequence of `json_object_dotset_*` calls is
    what the emulator's `json_object_dotget_*` finds in the parsed file: for a
    path set in the sequence and not overwritten later by a `dotset` through or
    above it, `dotget` on `parse (serializePretty j)` returns the value set. -/
theorem getter_law (pre : List (List Nat × Json)) (p : List Nat) (v : Json) (post : List (List Nat × Json))
    (j : Json) (h : applySets (.object []) (pre ++ (p, v) :: post) = some j) (hw : Writable j)
    (hi : ∀ qv ∈ post, Indep (splitDots qv.1) (splitDots p)) :
    ∃ j', parse (serializePretty j) = .ok j' ∧ dotget j' p = some v
      ∧ getNumber (dotget j' p) = getNumber (some v) ∧ getString (dotget j' p) = getString (some v) :=
  ⟨j, roundtrip j hw, applySets_get pre p v post _ j h hi,
    by rw [applySets_get pre p v post _ j h hi], by rw [applySets_get pre p v post _ j h hi]⟩

/-- The typed getters on a missing path or a value of another type:
    `json_object_dotget_number` = 0, `json_object_dotget_string` = NULL,
    `json_object_dotget_boolean` = -1. -/
theorem getters_default (j : Json) (p : List Nat) (h : dotget j p = none) :
    getNumber (dotget j p) = (0, 0) ∧ getString (dotget j p) = none ∧ getObject (dotget j p) = none
      ∧ getArray (dotget j p) = none ∧ getBoolean (dotget j p) = -1 := by
  rw [h]; exact ⟨rfl, rfl, rfl, rfl, rfl⟩

/-! ### the hypotheses are satisfiable: a real `stream.json` -/

/-- A `stream.json` written by libovni (`ovni_thread_free` of a thread with two
    `ovni_thread_require`, two CPUs, a rank, a mark type with a label and three
    `ovni_attr_set_*` attributes), byte for byte (938 bytes). -/
def realText : List Nat := [
  123, 10, 32, 32, 32, 32, 34, 118, 101, 114, 115, 105, 111, 110, 34, 58, 32, 51, 44, 10, 32, 32, 32, 32,
  34, 111, 118, 110, 105, 34, 58, 32, 123, 10, 32, 32, 32, 32, 32, 32, 32, 32, 34, 108, 105, 98, 34, 58,
  32, 123, 10, 32, 32, 32, 32, 32, 32, 32, 32, 32, 32, 32, 32, 34, 118, 101, 114, 115, 105, 111, 110, 34,
  58, 32, 34, 49, 46, 49, 49, 46, 48, 34, 44, 10, 32, 32, 32, 32, 32, 32, 32, 32, 32, 32, 32, 32,
  34, 99, 111, 109, 109, 105, 116, 34, 58, 32, 34, 117, 110, 107, 110, 111, 119, 110, 34, 10, 32, 32, 32, 32,
  32, 32, 32, 32, 125, 44, 10, 32, 32, 32, 32, 32, 32, 32, 32, 34, 112, 97, 114, 116, 34, 58, 32, 34,
  116, 104, 114, 101, 97, 100, 34, 44, 10, 32, 32, 32, 32, 32, 32, 32, 32, 34, 116, 105, 100, 34, 58, 32,
  53, 54, 55, 56, 44, 10, 32, 32, 32, 32, 32, 32, 32, 32, 34, 112, 105, 100, 34, 58, 32, 49, 50, 51,
  52, 44, 10, 32, 32, 32, 32, 32, 32, 32, 32, 34, 108, 111, 111, 109, 34, 58, 32, 34, 110, 111, 100, 101,
  48, 34, 44, 10, 32, 32, 32, 32, 32, 32, 32, 32, 34, 97, 112, 112, 95, 105, 100, 34, 58, 32, 49, 44,
  10, 32, 32, 32, 32, 32, 32, 32, 32, 34, 114, 101, 113, 117, 105, 114, 101, 34, 58, 32, 123, 10, 32, 32,
  32, 32, 32, 32, 32, 32, 32, 32, 32, 32, 34, 111, 118, 110, 105, 34, 58, 32, 34, 49, 46, 49, 49, 46,
  48, 34, 44, 10, 32, 32, 32, 32, 32, 32, 32, 32, 32, 32, 32, 32, 34, 110, 111, 115, 118, 34, 58, 32,
  34, 50, 46, 53, 46, 49, 34, 10, 32, 32, 32, 32, 32, 32, 32, 32, 125, 44, 10, 32, 32, 32, 32, 32,
  32, 32, 32, 34, 109, 97, 114, 107, 34, 58, 32, 123, 10, 32, 32, 32, 32, 32, 32, 32, 32, 32, 32, 32,
  32, 34, 55, 34, 58, 32, 123, 10, 32, 32, 32, 32, 32, 32, 32, 32, 32, 32, 32, 32, 32, 32, 32, 32,
  34, 116, 105, 116, 108, 101, 34, 58, 32, 34, 97, 92, 47, 98, 32, 92, 34, 113, 92, 34, 34, 44, 10, 32,
  32, 32, 32, 32, 32, 32, 32, 32, 32, 32, 32, 32, 32, 32, 32, 34, 99, 104, 97, 110, 95, 116, 121, 112,
  101, 34, 58, 32, 34, 115, 116, 97, 99, 107, 34, 44, 10, 32, 32, 32, 32, 32, 32, 32, 32, 32, 32, 32,
  32, 32, 32, 32, 32, 34, 108, 97, 98, 101, 108, 115, 34, 58, 32, 123, 10, 32, 32, 32, 32, 32, 32, 32,
  32, 32, 32, 32, 32, 32, 32, 32, 32, 32, 32, 32, 32, 34, 49, 34, 58, 32, 34, 111, 110, 101, 34, 10,
  32, 32, 32, 32, 32, 32, 32, 32, 32, 32, 32, 32, 32, 32, 32, 32, 125, 10, 32, 32, 32, 32, 32, 32,
  32, 32, 32, 32, 32, 32, 125, 10, 32, 32, 32, 32, 32, 32, 32, 32, 125, 44, 10, 32, 32, 32, 32, 32,
  32, 32, 32, 34, 114, 97, 110, 107, 34, 58, 32, 48, 44, 10, 32, 32, 32, 32, 32, 32, 32, 32, 34, 110,
  114, 97, 110, 107, 115, 34, 58, 32, 50, 44, 10, 32, 32, 32, 32, 32, 32, 32, 32, 34, 108, 111, 111, 109,
  95, 99, 112, 117, 115, 34, 58, 32, 91, 10, 32, 32, 32, 32, 32, 32, 32, 32, 32, 32, 32, 32, 123, 10,
  32, 32, 32, 32, 32, 32, 32, 32, 32, 32, 32, 32, 32, 32, 32, 32, 34, 105, 110, 100, 101, 120, 34, 58,
  32, 48, 44, 10, 32, 32, 32, 32, 32, 32, 32, 32, 32, 32, 32, 32, 32, 32, 32, 32, 34, 112, 104, 121,
  105, 100, 34, 58, 32, 48, 10, 32, 32, 32, 32, 32, 32, 32, 32, 32, 32, 32, 32, 125, 44, 10, 32, 32,
  32, 32, 32, 32, 32, 32, 32, 32, 32, 32, 123, 10, 32, 32, 32, 32, 32, 32, 32, 32, 32, 32, 32, 32,
  32, 32, 32, 32, 34, 105, 110, 100, 101, 120, 34, 58, 32, 49, 44, 10, 32, 32, 32, 32, 32, 32, 32, 32,
  32, 32, 32, 32, 32, 32, 32, 32, 34, 112, 104, 121, 105, 100, 34, 58, 32, 51, 10, 32, 32, 32, 32, 32,
  32, 32, 32, 32, 32, 32, 32, 125, 10, 32, 32, 32, 32, 32, 32, 32, 32, 93, 44, 10, 32, 32, 32, 32,
  32, 32, 32, 32, 34, 102, 105, 110, 105, 115, 104, 101, 100, 34, 58, 32, 49, 10, 32, 32, 32, 32, 125, 44,
  10, 32, 32, 32, 32, 34, 110, 111, 115, 118, 34, 58, 32, 123, 10, 32, 32, 32, 32, 32, 32, 32, 32, 34,
  99, 97, 110, 95, 98, 114, 101, 97, 107, 100, 111, 119, 110, 34, 58, 32, 116, 114, 117, 101, 44, 10, 32, 32,
  32, 32, 32, 32, 32, 32, 34, 108, 105, 98, 95, 118, 101, 114, 115, 105, 111, 110, 34, 58, 32, 34, 51, 46,
  49, 46, 48, 34, 10, 32, 32, 32, 32, 125, 44, 10, 32, 32, 32, 32, 34, 110, 97, 110, 111, 115, 54, 34,
  58, 32, 123, 10, 32, 32, 32, 32, 32, 32, 32, 32, 34, 120, 34, 58, 32, 50, 10, 32, 32, 32, 32, 125,
  10, 125]

/-- The value libovni held when it wrote `realText`. -/
def realJson : Json := .object [
  ([118, 101, 114, 115, 105, 111, 110] /- version -/, .number 3 0),
  ([111, 118, 110, 105] /- ovni -/, .object [
    ([108, 105, 98] /- lib -/, .object [
      ([118, 101, 114, 115, 105, 111, 110] /- version -/, .string [49, 46, 49, 49, 46, 48] /- "1.11.0" -/),
      ([99, 111, 109, 109, 105, 116] /- commit -/, .string [117, 110, 107, 110, 111, 119, 110] /- "unknown" -/)]),
    ([112, 97, 114, 116] /- part -/, .string [116, 104, 114, 101, 97, 100] /- "thread" -/),
    ([116, 105, 100] /- tid -/, .number 5678 0),
    ([112, 105, 100] /- pid -/, .number 1234 0),
    ([108, 111, 111, 109] /- loom -/, .string [110, 111, 100, 101, 48] /- "node0" -/),
    ([97, 112, 112, 95, 105, 100] /- app_id -/, .number 1 0),
    ([114, 101, 113, 117, 105, 114, 101] /- require -/, .object [
      ([111, 118, 110, 105] /- ovni -/, .string [49, 46, 49, 49, 46, 48] /- "1.11.0" -/),
      ([110, 111, 115, 118] /- nosv -/, .string [50, 46, 53, 46, 49] /- "2.5.1" -/)]),
    ([109, 97, 114, 107] /- mark -/, .object [
      ([55] /- 7 -/, .object [
        ([116, 105, 116, 108, 101] /- title -/, .string [97, 47, 98, 32, 34, 113, 34] /- "a/b \"q\"" -/),
        ([99, 104, 97, 110, 95, 116, 121, 112, 101] /- chan_type -/, .string [115, 116, 97, 99, 107] /- "stack" -/),
        ([108, 97, 98, 101, 108, 115] /- labels -/, .object [
          ([49] /- 1 -/, .string [111, 110, 101] /- "one" -/)])])]),
    ([114, 97, 110, 107] /- rank -/, .number 0 0),
    ([110, 114, 97, 110, 107, 115] /- nranks -/, .number 2 0),
    ([108, 111, 111, 109, 95, 99, 112, 117, 115] /- loom_cpus -/, .array [
      .object [
        ([105, 110, 100, 101, 120] /- index -/, .number 0 0),
        ([112, 104, 121, 105, 100] /- phyid -/, .number 0 0)],
      .object [
        ([105, 110, 100, 101, 120] /- index -/, .number 1 0),
        ([112, 104, 121, 105, 100] /- phyid -/, .number 3 0)]]),
    ([102, 105, 110, 105, 115, 104, 101, 100] /- finished -/, .number 1 0)]),
  ([110, 111, 115, 118] /- nosv -/, .object [
    ([99, 97, 110, 95, 98, 114, 101, 97, 107, 100, 111, 119, 110] /- can_breakdown -/, .bool true),
    ([108, 105, 98, 95, 118, 101, 114, 115, 105, 111, 110] /- lib_version -/, .string [51, 46, 49, 46, 48] /- "3.1.0" -/)]),
  ([110, 97, 110, 111, 115, 54] /- nanos6 -/, .object [
    ([120] /- x -/, .number 2 0)])]

/-- The `json_object_dotset_*` calls of libovni that built it, in call order. -/
def realSets : List (List Nat × Json) := [
  ([118, 101, 114, 115, 105, 111, 110] /- version -/, .number 3 0),
  ([111, 118, 110, 105, 46, 108, 105, 98, 46, 118, 101, 114, 115, 105, 111, 110] /- ovni.lib.version -/, .string [49, 46, 49, 49, 46, 48] /- "1.11.0" -/),
  ([111, 118, 110, 105, 46, 108, 105, 98, 46, 99, 111, 109, 109, 105, 116] /- ovni.lib.commit -/, .string [117, 110, 107, 110, 111, 119, 110] /- "unknown" -/),
  ([111, 118, 110, 105, 46, 112, 97, 114, 116] /- ovni.part -/, .string [116, 104, 114, 101, 97, 100] /- "thread" -/),
  ([111, 118, 110, 105, 46, 116, 105, 100] /- ovni.tid -/, .number 5678 0),
  ([111, 118, 110, 105, 46, 112, 105, 100] /- ovni.pid -/, .number 1234 0),
  ([111, 118, 110, 105, 46, 108, 111, 111, 109] /- ovni.loom -/, .string [110, 111, 100, 101, 48] /- "node0" -/),
  ([111, 118, 110, 105, 46, 97, 112, 112, 95, 105, 100] /- ovni.app_id -/, .number 1 0),
  ([111, 118, 110, 105, 46, 114, 101, 113, 117, 105, 114, 101, 46, 111, 118, 110, 105] /- ovni.require.ovni -/, .string [49, 46, 49, 49, 46, 48] /- "1.11.0" -/),
  ([111, 118, 110, 105, 46, 114, 101, 113, 117, 105, 114, 101, 46, 110, 111, 115, 118] /- ovni.require.nosv -/, .string [50, 46, 53, 46, 49] /- "2.5.1" -/),
  ([111, 118, 110, 105, 46, 109, 97, 114, 107, 46, 55, 46, 116, 105, 116, 108, 101] /- ovni.mark.7.title -/, .string [97, 47, 98, 32, 34, 113, 34] /- "a/b \"q\"" -/),
  ([111, 118, 110, 105, 46, 109, 97, 114, 107, 46, 55, 46, 99, 104, 97, 110, 95, 116, 121, 112, 101] /- ovni.mark.7.chan_type -/, .string [115, 116, 97, 99, 107] /- "stack" -/),
  ([111, 118, 110, 105, 46, 109, 97, 114, 107, 46, 55, 46, 108, 97, 98, 101, 108, 115, 46, 49] /- ovni.mark.7.labels.1 -/, .string [111, 110, 101] /- "one" -/),
  ([111, 118, 110, 105, 46, 114, 97, 110, 107] /- ovni.rank -/, .number 0 0),
  ([111, 118, 110, 105, 46, 110, 114, 97, 110, 107, 115] /- ovni.nranks -/, .number 2 0),
  ([111, 118, 110, 105, 46, 108, 111, 111, 109, 95, 99, 112, 117, 115] /- ovni.loom_cpus -/, .array [
    .object [
      ([105, 110, 100, 101, 120] /- index -/, .number 0 0),
      ([112, 104, 121, 105, 100] /- phyid -/, .number 0 0)],
    .object [
      ([105, 110, 100, 101, 120] /- index -/, .number 1 0),
      ([112, 104, 121, 105, 100] /- phyid -/, .number 3 0)]]),
  ([111, 118, 110, 105, 46, 102, 105, 110, 105, 115, 104, 101, 100] /- ovni.finished -/, .number 1 0),
  ([110, 111, 115, 118, 46, 99, 97, 110, 95, 98, 114, 101, 97, 107, 100, 111, 119, 110] /- nosv.can_breakdown -/, .bool true),
  ([110, 111, 115, 118, 46, 108, 105, 98, 95, 118, 101, 114, 115, 105, 111, 110] /- nosv.lib_version -/, .string [51, 46, 49, 46, 48] /- "3.1.0" -/),
  ([110, 97, 110, 111, 115, 54, 46, 120] /- nanos6.x -/, .number 2 0)]

set_option maxRecDepth 100000 in
/-- the file parses to the value … -/
example : parse realText = .ok realJson := by decide

set_option maxRecDepth 100000 in
/-- … which is writable and serializes to exactly the bytes libovni wrote -/
example : Writable realJson ∧ delimited realJson = true ∧ serializePretty realJson = realText := by decide

set_option maxRecDepth 100000 in
/-- the `dotset` calls of libovni build that value -/
example : applySets (.object []) realSets = some realJson := by decide

set_option maxRecDepth 100000 in
/-- cuts of the real file (inside a string, after a complete member, before the last brace) and the empty file -/
example : parse (realText.take 100) = .fail ∧ parse (realText.take 470) = .fail
    ∧ parse (realText.take 937) = .fail ∧ parse [] = .fail := by decide

set_option maxRecDepth 100000 in
/-- every cut of a small object with a nested array -/
example : ∀ k, k < (serializePretty (.object [([97], .array [.number 1 0, .string [47]])])).length →
    parse ((serializePretty (.object [([97], .array [.number 1 0, .string [47]])])).take k) = .fail := by decide

set_option maxRecDepth 100000 in
/-- the getters the emulator applies to it: `ovni.tid`, `ovni.part`, `ovni.finished`, `ovni.require`, `ovni.loom_cpus` -/
example : getNumber (dotget realJson [111, 118, 110, 105, 46, 116, 105, 100]) = (5678, 0)
    ∧ getString (dotget realJson [111, 118, 110, 105, 46, 112, 97, 114, 116]) = some [116, 104, 114, 101, 97, 100]
    ∧ cInt (getNumber (dotget realJson [111, 118, 110, 105, 46, 102, 105, 110, 105, 115, 104, 101, 100])) = 1
    ∧ (getObject (dotget realJson [111, 118, 110, 105, 46, 114, 101, 113, 117, 105, 114, 101])).isSome = true
    ∧ ((getArray (dotget realJson [111, 118, 110, 105, 46, 108, 111, 111, 109, 95, 99, 112, 117, 115])).map List.length) = some 2
    ∧ getBoolean (dotget realJson [110, 111, 115, 118, 46, 99, 97, 110, 95, 98, 114, 101, 97, 107, 100, 111, 119, 110]) = 1
    ∧ getNumber (dotget realJson [111, 118, 110, 105, 46, 112, 97, 114, 116]) = (0, 0) := by decide

/-- the path `ovni.tid` is independent of every path set after it -/
example : Indep (splitDots [111, 118, 110, 105, 46, 116, 105, 100]) (splitDots [111, 118, 110, 105, 46, 112, 105, 100]) := by
  unfold Indep; decide

/-- what parson does with documents libovni never writes: a duplicate name is
    refused, garbage after the root object is ignored, comments are blanked
    (also `/*` inside a `//` comment), a quote inside a line comment hides the
    block comment that follows it. -/
example : parse [123, 34, 97, 34, 58, 49, 44, 34, 97, 34, 58, 50, 125] = .fail                      -- {"a":1,"a":2}
    ∧ parse [123, 34, 97, 34, 58, 49, 125, 125, 120] = .ok (.object [([97], .number 1 0)])             -- {"a":1}}x
    ∧ parse [47, 42, 99, 42, 47, 91, 49, 44, 47, 47, 120, 10, 50, 93] = .ok (.array [.number 1 0, .number 2 0])  -- /*c*/[1,//x\n2]
    ∧ parse [47, 47, 34, 10, 47, 42, 42, 47, 49] = .fail                                               -- //"\n/**/1
    ∧ parse [48, 46, 49] = .unsup ∧ parse [48, 101, 49] = .fail := by decide                            -- 0.1   0e1

end Ovni.Props.Json
