import OvniModel.Lemmas.Task
/-!
  C07 — task life-cycle: bodies follow their state machine, never run twice at once.

  Model: `OvniModel/Emu/Task.lean` (transcription of body.c, task.c and the
  `update_task` callers).  Specification: `OvniModel/Emu/TaskSpec.lean`
  (written from the property text and the body diagram).
-/
namespace Ovni.Props.C07
open Ovni.Task Ovni.Task.Spec

theorem abs_init : abs Sys.init = Abs.init := rfl

/-- **task_accept_iff** (task module).  For every history of task.h API calls
    (any number of types, tasks, bodies, stacks; every flag combination), the
    transcription of task.c/body.c accepts the whole history iff every step is
    legal in the life-cycle specification: created → running → (paused ↔
    running)* → dead, only the top of a thread's stack changes, nesting only over
    a non-running top unless the top's task relaxes it, several bodies only for
    parallel tasks, pausing only with the pause flag, running again after death
    only with the resurrect flag. -/
theorem task_accept_iff (ops : List Op) :
    accepts Sys.init ops = true ↔ Legal Abs.init ops := by
  rw [← abs_init, ← run_ok_iff inv_init]
  unfold accepts
  cases run Sys.init ops with
  | error e => simp
  | ok σ => simp

/-- The same from any state reached by an accepted history (the statement is
    closed under continuation, so nothing depends on starting from scratch). -/
theorem task_accept_iff_from (pre ops : List Op) (σ : Sys) (h : run Sys.init pre = .ok σ) :
    accepts σ ops = true ↔ Legal (abs σ) ops := by
  rw [← run_ok_iff (run_inv inv_init h)]
  unfold accepts
  cases run σ ops with
  | error e => simp
  | ok σ => simp

/-- **body_unique_thread**.  After every accepted history: a body is listed on
    at most one thread's stack and at most once; it is listed exactly when it is
    Running or Paused, and exactly on the stack its back pointer names.  Hence no
    body is ever running (or paused) on two threads. -/
theorem body_unique_thread (ops : List Op) (σ : Sys) (h : run Sys.init ops = .ok σ)
    (t b s₁ s₂ : Nat) (h₁ : (t, b) ∈ σ.stacks s₁) (h₂ : (t, b) ∈ σ.stacks s₂) :
    s₁ = s₂ ∧ (σ.stacks s₁).count (t, b) = 1 ∧
      ∃ B, σ.bodies t b = some B ∧ B.stack = some s₁ ∧
        (B.state = .running ∨ B.state = .paused) := by
  have inv := run_inv inv_init h
  obtain ⟨B, hB, hs1⟩ := (inv.onStack t b s₁).1 h₁
  obtain ⟨B', hB', hs2⟩ := (inv.onStack t b s₂).1 h₂
  rw [hB] at hB'; cases hB'
  rw [hs1] at hs2; cases hs2
  refine ⟨rfl, by rw [(inv.nodup s₁).count, if_pos h₁], B, hB, hs1, ?_⟩
  exact (inv.stackState t b B hB).1 (by rw [hs1]; simp)

/-- Conversely a Running or Paused body is on exactly the stack of one thread. -/
theorem running_body_has_thread (ops : List Op) (σ : Sys) (h : run Sys.init ops = .ok σ)
    (t b : Nat) (B : Body) (hB : σ.bodies t b = some B)
    (hst : B.state = .running ∨ B.state = .paused) :
    ∃ s, B.stack = some s ∧ (t, b) ∈ σ.stacks s ∧ ∀ s', (t, b) ∈ σ.stacks s' → s' = s := by
  have inv := run_inv inv_init h
  have hne := (inv.stackState t b B hB).2 hst
  cases hs : B.stack with
  | none => exact absurd hs hne
  | some s =>
    refine ⟨s, rfl, (inv.onStack t b s).2 ⟨B, hB, hs⟩, ?_⟩
    intro s' hm
    obtain ⟨B', hB', hs'⟩ := (inv.onStack t b s').1 hm
    rw [hB] at hB'; cases hB'; rw [hs] at hs'; cases hs'; rfl

/-! Non-vacuity: a concrete accepted history with two threads, a parallel task
    whose bodies run at once on both, and a pausable task nested under one. -/
def demo : List Op :=
  [ .typeCreate 1 1234, .create 1 10 ⟨false, true, true, false⟩, .create 1 20 ⟨true, false, false, false⟩,
    .exec 0 10 1, .pause 0 10 1, .exec 0 20 1, .exec 1 20 2, .end_ 0 20 1, .resume 0 10 1,
    .end_ 0 10 1, .end_ 1 20 2, .exec 1 10 1 ]

example : accepts Sys.init demo = true := by decide
example : Legal Abs.init demo := (task_accept_iff demo).1 (by decide)
/-- …and illegal steps are refused: pausing a parallel body, resuming a non-top body. -/
example : accepts Sys.init (demo.take 7 ++ [.pause 1 20 2]) = false := by decide
example : accepts Sys.init (demo.take 7 ++ [.resume 0 10 1]) = false := by decide
example : ¬ Legal Abs.init (demo.take 7 ++ [.resume 0 10 1]) :=
  fun h => absurd ((task_accept_iff _).2 h) (by decide)

end Ovni.Props.C07
