import OvniModel.Lemmas.TaskEmu
/-!
  C07 — task life-cycle: bodies follow their state machine, never run twice at once.

  Model: `OvniModel/Emu/Task.lean` (transcription of body.c, task.c and the
  `update_task` callers).  Specification: `OvniModel/Emu/TaskSpec.lean`
  (written from the property text and the body diagram).
-/
namespace Ovni.Props.C07
open Ovni.Task Ovni.Task.Spec

/-- **task_accept_iff** (task module).  For every history of task.h API calls
    (any number of types, tasks, bodies, stacks; every flag combination), the
    transcription of task.c/body.c accepts the whole history iff every step is
    legal in the life-cycle specification: created → running → (paused ↔
    running)* → dead, only the top of a thread's stack changes, nesting only over
    a non-running top unless the top's task relaxes it, several bodies only for
    parallel tasks, pausing only with the pause flag, running again after death
    only with the resurrect flag. -/
theorem task_accept_iff (ops : List Op) :
    accepts Sys.init ops = true ↔ Legal Abs.init ops := by
  rw [show Abs.init = abs Sys.init from rfl, ← run_ok_iff inv_init]
  unfold accepts
  cases run Sys.init ops with
  | error e => simp
  | ok σ => simp

/-- The same from any state reached by an accepted history (the statement is
    closed under continuation, so nothing depends on starting from scratch). -/
theorem task_accept_iff_from (pre ops : List Op) (σ : Sys) (h : run Sys.init pre = .ok σ) :
    accepts σ ops = true ↔ Legal (abs σ) ops := by
  rw [← run_ok_iff (run_inv inv_init h)]
  unfold accepts
  cases run σ ops with
  | error e => simp
  | ok σ => simp

/-- **body_unique_thread**.  After every accepted history: a body is listed on
    at most one thread's stack and at most once; it is listed exactly when it is
    Running or Paused, and exactly on the stack its back pointer names.  Hence no
    body is ever running (or paused) on two threads. -/
theorem body_unique_thread (ops : List Op) (σ : Sys) (h : run Sys.init ops = .ok σ)
    (t b s₁ s₂ : Nat) (h₁ : (t, b) ∈ σ.stacks s₁) (h₂ : (t, b) ∈ σ.stacks s₂) :
    s₁ = s₂ ∧ (σ.stacks s₁).count (t, b) = 1 ∧
      ∃ B, σ.bodies t b = some B ∧ B.stack = some s₁ ∧
        (B.state = .running ∨ B.state = .paused) := by
  have inv := run_inv inv_init h
  obtain ⟨B, hB, hs1⟩ := (inv.onStack t b s₁).1 h₁
  obtain ⟨B', hB', hs2⟩ := (inv.onStack t b s₂).1 h₂
  rw [hB] at hB'; cases hB'
  rw [hs1] at hs2; cases hs2
  refine ⟨rfl, by rw [(inv.nodup s₁).count, if_pos h₁], B, hB, hs1, ?_⟩
  exact (inv.stackState t b B hB).1 (by rw [hs1]; simp)

/-- Conversely a Running or Paused body is on exactly the stack of one thread. -/
theorem running_body_has_thread (ops : List Op) (σ : Sys) (h : run Sys.init ops = .ok σ)
    (t b : Nat) (B : Body) (hB : σ.bodies t b = some B)
    (hst : B.state = .running ∨ B.state = .paused) :
    ∃ s, B.stack = some s ∧ (t, b) ∈ σ.stacks s ∧ ∀ s', (t, b) ∈ σ.stacks s' → s' = s := by
  have inv := run_inv inv_init h
  have hne := (inv.stackState t b B hB).2 hst
  cases hs : B.stack with
  | none => exact absurd hs hne
  | some s =>
    refine ⟨s, rfl, (inv.onStack t b s).2 ⟨B, hB, hs⟩, ?_⟩
    intro s' hm
    obtain ⟨B', hB', hs'⟩ := (inv.onStack t b s').1 hm
    rw [hB] at hB'; cases hB'; rw [hs] at hs'; cases hs'; rfl

/-! Non-vacuity: a concrete accepted history with two threads, a parallel task
    whose bodies run at once on both, and a pausable task nested under one. -/
def demo : List Op :=
  [ .typeCreate 1 1234, .create 1 10 ⟨false, true, true, false⟩, .create 1 20 ⟨true, false, false, false⟩,
    .exec 0 10 1, .pause 0 10 1, .exec 0 20 1, .exec 1 20 2, .end_ 0 20 1, .resume 0 10 1,
    .end_ 0 10 1, .end_ 1 20 2, .exec 1 10 1 ]

example : accepts Sys.init demo = true := by decide
example : Legal Abs.init demo := (task_accept_iff demo).1 (by decide)
/-- …and illegal steps are refused: pausing a parallel body, resuming a non-top body. -/
example : accepts Sys.init (demo.take 7 ++ [.pause 1 20 2]) = false := by decide
example : accepts Sys.init (demo.take 7 ++ [.resume 0 10 1]) = false := by decide
example : ¬ Legal Abs.init (demo.take 7 ++ [.resume 0 10 1]) :=
  fun h => absurd ((task_accept_iff _).2 h) (by decide)

/-- **nested_over_paused**.  After every accepted history, every body that lies
    below another one in a thread's stack is Paused, or its task carries the
    relaxed-nesting flag (Nanos6 compatibility). -/
theorem nested_over_paused (ops : List Op) (σ : Sys) (h : run Sys.init ops = .ok σ)
    (s : Nat) (r : Ref) (rest : List Ref) (hs : σ.stacks s = r :: rest) (x : Ref) (hx : x ∈ rest) :
    (∃ B, σ.bodies x.1 x.2 = some B ∧ B.state = .paused) ∨
    (∃ T, σ.tasks x.1 = some T ∧ T.flags.relax = true) := by
  have key : ∀ (ops : List Op) (σ0 σ : Sys), Inv σ0 → Below (abs σ0) → run σ0 ops = .ok σ → Below (abs σ) := by
    intro ops
    induction ops with
    | nil => intro σ0 σ _ hb h; simp only [run, Except.ok.injEq] at h; subst h; exact hb
    | cons op ops ih =>
      intro σ0 σ inv hb h
      simp only [run] at h
      cases hs : step σ0 op with
      | error e => simp [hs] at h
      | ok σ1 =>
        simp only [hs] at h
        obtain ⟨inv1, st⟩ := step_sound inv hs
        exact ih σ1 σ inv1 (below_step (ainv_of_inv inv) hb st) h
  have hb := key ops Sys.init σ inv_init below_init h
  rcases hb s r rest hs x hx with hp | ⟨f, hf, hr⟩
  · left
    obtain ⟨B, hB, hst⟩ := bodyOfPhase hp
    exact ⟨B, hB, phaseOf_paused.1 hst⟩
  · right
    obtain ⟨T, hT, rfl⟩ := abs_flags.1 hf
    exact ⟨T, hT, hr⟩

/-! ## Event level: nOS-V and Nanos6 `update_task`

  `P.appid > 0` is what `proc.c:load_appid` guarantees for every loaded process. -/

def eaccepts (m : Model) (P : ProcInfo) (evs : List Ev) : Bool :=
  match Emu.run m P Emu.init evs with
  | .ok _ => true
  | .error _ => false

/-- **task_accept_iff** (event level).  For every history of task-type, task
    creation, task state and subsystem events of one process over any number of
    threads, the transcription of the nOS-V / Nanos6 handlers accepts it iff
    every event is legal in the event-level specification: the life-cycle step
    of the named body is legal (`Spec.Step`), with the flags the model gives to
    created tasks and the body-id convention of the payload, task id 0 never
    runs, and the subsystem stack accepts the "running body" push / pop.  In
    particular none of the `chan_set` duplicate checks on the task channels can
    ever fire in a life-cycle-legal history. -/
theorem event_accept_iff (m : Model) (P : ProcInfo) (hP : 0 < P.appid) (evs : List Ev) :
    eaccepts m P evs = true ↔ ELegal m EAbs.init evs := by
  rw [show EAbs.init = eabs Emu.init from rfl, ← erun_ok_iff hP (einv_init m P)]
  unfold eaccepts
  cases Emu.run m P Emu.init evs with
  | error e => simp
  | ok ε => simp

/-- **body_unique_thread** at the event level (any number of threads). -/
theorem event_body_unique_thread (m : Model) (P : ProcInfo) (hP : 0 < P.appid) (evs : List Ev)
    (ε : Emu) (h : Emu.run m P Emu.init evs = .ok ε)
    (t b th₁ th₂ : Nat) (h₁ : (t, b) ∈ ε.sys.stacks th₁) (h₂ : (t, b) ∈ ε.sys.stacks th₂) :
    th₁ = th₂ ∧ (ε.sys.stacks th₁).count (t, b) = 1 := by
  have inv := (erun_inv hP (einv_init m P) h).inv
  obtain ⟨B, hB, hs1⟩ := (inv.onStack t b th₁).1 h₁
  obtain ⟨B', hB', hs2⟩ := (inv.onStack t b th₂).1 h₂
  rw [hB] at hB'; cases hB'
  rw [hs1] at hs2; cases hs2
  exact ⟨rfl, by rw [(inv.nodup th₁).count, if_pos h₁]⟩

/-- **task_view**.  After every accepted event history, for every thread: if
    the top of its stack is a Running body `B` of task `T`, the thread's task
    channels hold exactly task id, type gid, body id, app id and rank+1 (Nanos6
    has no body-id / app-id channels; rank only if the process has one); and
    if no body is running on top they are all null. -/
theorem task_view (m : Model) (P : ProcInfo) (hP : 0 < P.appid) (evs : List Ev)
    (ε : Emu) (h : Emu.run m P Emu.init evs = .ok ε) (th : Nat) :
    (∀ T B, ε.sys.runningT th = some (T, B) →
        ε.ch th = (match m with
          | .nosv => ⟨some T.id, some T.gid, some B.id, some P.appid, rankVal P⟩
          | .nanos6 => ⟨some T.id, some T.gid, none, none, rankVal P⟩) ∧
        T.id ≠ 0 ∧ T.gid ≠ 0 ∧ B.id ≠ 0 ∧ B.state = .running ∧ B.stack = some th) ∧
    (ε.sys.runningT th = none → ε.ch th = Chans.null) := by
  have ei := erun_inv hP (einv_init m P) h
  constructor
  · intro T B hr
    obtain ⟨t, b, hh, hB, hrun, hT⟩ := (runningT_some ei.inv).1 hr
    have hm : (t, b) ∈ ε.sys.stacks th := List.mem_of_mem_head? (by rw [hh]; rfl)
    obtain ⟨B', hB', hstk⟩ := (ei.inv.onStack t b th).1 hm
    rw [hB] at hB'; cases hB'
    refine ⟨?_, ?_, ei.gid t T hT, ?_, hrun, hstk⟩
    · rw [ei.view th, hr]; cases m <;> rfl
    · rw [ei.inv.taskId t T hT]; intro h0; subst h0; rw [ei.noZero b] at hB; cases hB
    · rw [ei.inv.bodyId t b B hB]; exact (ei.inv.body t b B hB).1
  · intro hr
    rw [ei.view th, hr]; rfl

/-- nOS-V never relaxes nesting, so "the running top" is "the running body":
    whenever any body on a thread's stack is Running, it is the top and the
    thread shows it; when none is Running the thread shows nothing. -/
theorem task_view_nosv (P : ProcInfo) (hP : 0 < P.appid) (evs : List Ev)
    (ε : Emu) (h : Emu.run .nosv P Emu.init evs = .ok ε) (th t b : Nat) (B : Body)
    (hm : (t, b) ∈ ε.sys.stacks th) (hB : ε.sys.bodies t b = some B) (hrun : B.state = .running) :
    ∃ T, ε.sys.tasks t = some T ∧
      ε.ch th = ⟨some (t : Int), some (T.gid : Int), some (b : Int), some P.appid, rankVal P⟩ := by
  have ei := erun_inv hP (einv_init .nosv P) h
  obtain ⟨_, _, T, hT, _⟩ := ei.inv.body t b B hB
  -- a running body cannot be below the top in nOS-V
  have htop : (ε.sys.stacks th).head? = some (t, b) := by
    cases hl : ε.sys.stacks th with
    | nil => rw [hl] at hm; cases hm
    | cons r rest =>
      rw [hl] at hm
      rcases List.mem_cons.1 hm with rfl | hin
      · rfl
      · rcases ei.below th r rest hl (t, b) hin with hp | ⟨f, hf, hr⟩
        · rw [abs_phase hB, hrun] at hp; cases hp
        · obtain ⟨T2, hT2, rfl⟩ := abs_flags.1 hf
          obtain ⟨par, hpar⟩ := ei.flags t T2 hT2
          rw [hpar, no_relax_nosv] at hr; cases hr
  have hr : ε.sys.runningT th = some (T, B) := (runningT_some ei.inv).2 ⟨t, b, htop, hB, hrun, hT⟩
  refine ⟨T, hT, ?_⟩
  rw [ei.view th, hr, ← ei.inv.taskId t T hT, ← ei.inv.bodyId t b B hB]
  rfl

/-- **Linter mode** (`ovniemu -l`): the trace is accepted iff the specification
    run exists and ends with an empty subsystem stack on every thread of the trace. -/
theorem lint_accept_iff (m : Model) (P : ProcInfo) (hP : 0 < P.appid) (evs : List Ev) (ths : List Nat) :
    (∃ ε, Emu.run m P Emu.init evs = .ok ε ∧ ε.lintOk ths = true) ↔
      ∃ e, ERun m EAbs.init evs e ∧ ∀ th ∈ ths, e.ss th = [] := by
  constructor
  · rintro ⟨ε, h, hl⟩
    refine ⟨eabs ε, (erun_final hP (einv_init m P) _).1 ⟨ε, h, rfl⟩, ?_⟩
    intro th hth
    have := List.all_eq_true.1 hl th hth
    show ε.ss th = []
    simpa using this
  · rintro ⟨e, hr, hl⟩
    obtain ⟨ε, h, rfl⟩ := (erun_final hP (einv_init m P) e).2 hr
    refine ⟨ε, h, List.all_eq_true.2 ?_⟩
    intro th hth
    have : ε.ss th = [] := hl th hth
    simp [this]

/-- The table-driven subsystem events of both models never push or pop the
    "running body" value themselves (whole regenerated tables). -/
theorem table_events_clean :
    (∀ row ∈ Ovni.Generated.Nosv.table, row.2.2.1 = 4 → row.2.2.2.2 ≠ Cfg.nosv.stTaskBody) ∧
    (∀ row ∈ Ovni.Generated.Nanos6.table, row.2.2.1 = 2 → row.2.2.2.2 ≠ Cfg.nanos6.stTaskBody) := by
  decide

/-- In linter mode an accepted trace leaves no body Running or Paused: every
    thread's body stack is empty at the end (given that the other subsystem
    events do not fake the "running body" value, see `table_events_clean`). -/
theorem lint_all_ended (m : Model) (P : ProcInfo) (hP : 0 < P.appid) (evs : List Ev) (ε : Emu)
    (h : Emu.run m P Emu.init evs = .ok ε) (hcl : ∀ ev ∈ evs, ev.clean m)
    (ths : List Nat) (hl : ε.lintOk ths = true) :
    ∀ th ∈ ths, ε.sys.stacks th = [] := by
  intro th hth
  have hc := sscovers_run hP (einv_init m P) (fun _ => Nat.le_refl 0) hcl h th
  have : ε.ss th = [] := by simpa using List.all_eq_true.1 hl th hth
  rw [this] at hc
  exact List.eq_nil_of_length_eq_zero (by simpa using hc)

/-! Non-vacuity at the event level: an nOS-V history with a parallel task on two
    threads and nesting over a paused task; a Nanos6 history with relaxed
    nesting (needs a subsystem change in between: no duplicates on that
    channel). -/
def demoNosv : List Ev :=
  [ .typeCreate 5 123456 true, .taskCreate false 9 5, .taskCreate true 10 5,
    .task 0 .x 9 0, .task 1 .x 10 3, .task 0 .p 9 0, .task 0 .x 10 4, .ssPush 0 (Ovni.Generated.Nosv.stTaskBody + 1), .ssPop 0 (Ovni.Generated.Nosv.stTaskBody + 1),
    .task 0 .e 10 4, .task 0 .r 9 0, .task 0 .e 9 0, .task 1 .e 10 3, .task 1 .x 9 0 ]

def demoNanos6 : List Ev :=
  [ .typeCreate 1 99 true, .taskCreate false 1 1, .taskCreate false 2 1,
    .task 0 .x 1 0, .ssPush 0 (Ovni.Generated.Nanos6.stTaskBody + 3), .task 0 .x 2 0, .task 0 .e 2 0, .ssPop 0 (Ovni.Generated.Nanos6.stTaskBody + 3), .task 0 .e 1 0 ]

def P0 : ProcInfo := ⟨7, 2⟩

example : eaccepts .nosv P0 demoNosv = true := by decide
example : ELegal .nosv EAbs.init demoNosv := (event_accept_iff .nosv P0 (by decide) _).1 (by decide)
example : eaccepts .nanos6 P0 demoNanos6 = true := by decide
example : ∀ ev ∈ demoNosv, ev.clean .nosv := by
  intro ev h; simp only [demoNosv, List.mem_cons, List.not_mem_nil, or_false] at h
  rcases h with h | h | h | h | h | h | h | h | h | h | h | h | h | h <;> subst h <;> simp [Ev.clean, Cfg.nosv, Model.cfg, Ovni.Generated.Nosv.stTaskBody]
/-- the view while body 1 of task 9 runs on thread 0 (rank 2 shows as 3), and after it paused -/
example : (match Emu.run .nosv P0 Emu.init (demoNosv.take 4) with
    | .ok ε => ε.ch 0 | .error _ => Chans.null) = ⟨some 9, some (gidOf 123456), some 1, some 7, some 3⟩ := by decide
example : (match Emu.run .nosv P0 Emu.init (demoNosv.take 6) with
    | .ok ε => (ε.ch 0, ε.ch 1) | .error _ => (Chans.null, Chans.null))
    = (Chans.null, ⟨some 10, some (gidOf 123456), some 3, some 7, some 3⟩) := by decide
/-- Nanos6 accepts the relaxed nesting made of task events alone (since the repair 29aa1a0 its
    subsystem channel allows the second ST_TASK_BODY push; the flag is regenerated from the source) … -/
example : eaccepts .nanos6 P0 [.typeCreate 1 99 true, .taskCreate false 1 1, .taskCreate false 2 1,
    .task 0 .x 1 0, .task 0 .x 2 0] = true := by decide
/-- … nOS-V refuses nesting over a running body, pausing a parallel body, a body id on a
    non-parallel task and running a body that is running on another thread. -/
example : eaccepts .nosv P0 (demoNosv.take 5 ++ [.task 0 .x 10 4]) = false := by decide
example : eaccepts .nosv P0 (demoNosv.take 5 ++ [.task 1 .p 10 3]) = false := by decide
example : eaccepts .nosv P0 (demoNosv.take 3 ++ [.task 0 .x 9 1]) = false := by decide
example : eaccepts .nosv P0 (demoNosv.take 6 ++ [.task 0 .x 10 3]) = false := by decide

end Ovni.Props.C07
