import OvniModel.Emu.MarkEmu
import OvniModel.Props.C08

/-!
# C17 — mark API end to end

Models: `Rt/Mark.lean` (ovni_mark_type / label / push / pop / set guards and the
metadata they build) and `Emu/MarkEmu.lean` (parse_mark / add_label merging,
mark channels as a run-time channel group, mark_event).
-/
set_option linter.unusedSimpArgs false
namespace Ovni.Props.C17
open Ovni.Emu Ovni.Rt.Mark Ovni.Generated

/-! ### Runtime guards -/

/-- `ovni_mark_type` is refused (abort) exactly for a type outside [0,100), an
    empty title or a type already defined by this thread. -/
theorem markType_refused_iff (m : Meta) (type : Int) (flags : Nat) (title : String) :
    markType m type flags title = none ↔
      (type < 0 ∨ type ≥ 100) ∨ title.isEmpty = true ∨ (find m type).isSome = true := by
  unfold markType
  by_cases h1 : (type < 0 || type ≥ 100) = true
  · simp only [h1, if_true, true_iff]
    left; simpa using h1
  · simp only [h1, Bool.false_eq_true, if_false]
    have h1' : ¬ (type < 0 ∨ type ≥ 100) := by simpa using h1
    by_cases h2 : title.isEmpty = true
    · simp [h2]
    · simp only [h2, Bool.false_eq_true, if_false]
      by_cases h3 : (find m type).isSome = true
      · simp [h3]
      · simp only [h3, Bool.false_eq_true, if_false, reduceCtorEq, false_iff]
        intro hh
        rcases hh with hh | hh | hh <;> first | exact h1' hh | exact h2 hh | exact h3 hh | exact hh.elim | cases hh

/-- `ovni_mark_label` is refused for a bad type, a value ≤ 0 (zero is
    forbidden), an empty label, an undefined type or a value already labelled. -/
theorem markLabel_refused_iff (m : Meta) (type value : Int) (label : String) :
    markLabel m type value label = none ↔
      (type < 0 ∨ type ≥ 100) ∨ value ≤ 0 ∨ label.isEmpty = true ∨ find m type = none ∨
      (∃ td, find m type = some td ∧ td.labels.any (·.1 == value) = true) := by
  unfold markLabel
  by_cases h1 : (type < 0 || type ≥ 100) = true
  · simp only [h1, if_true, true_iff]
    left; simpa using h1
  · simp only [h1, Bool.false_eq_true, if_false]
    have h1' : ¬ (type < 0 ∨ type ≥ 100) := by simpa using h1
    by_cases h2 : value ≤ 0
    · simp [h2]
    · simp only [h2, if_false]
      by_cases h3 : label.isEmpty = true
      · simp [h3]
      · simp only [h3, Bool.false_eq_true, if_false]
        cases hf : find m type with
        | none => simp
        | some td =>
          simp only
          by_cases h4 : td.labels.any (·.1 == value) = true
          · simp only [h4, if_true, true_iff]
            right; right; right; right
            exact ⟨td, rfl, h4⟩
          · simp only [h4, Bool.false_eq_true, if_false, reduceCtorEq, false_iff]
            intro hh
            rcases hh with hh | hh | hh | hh | ⟨td', he, ha⟩
            · first | exact h1' hh | exact hh.elim
            · first | exact h2 hh | exact hh.elim
            · first | exact h3 hh | exact hh.elim
            · cases hh
            · cases he; first | exact h4 ha | exact ha.elim | simp_all

/-- push / pop / set with value 0 never emit an event (the call aborts). -/
theorem mark_zero_refused : markEmitOk 0 = false := rfl

/-! ### Emulator: merging definitions -/

/-- A definition that disagrees in its title with the type already in the
    table is refused. -/
theorem title_conflict_refused (tab : List MarkType) (d : MarkIn) (t : MarkType)
    (ht : tab.find? (·.type == d.type) = some t) (title : String) (hd : d.title = some title)
    (hne : t.title ≠ title) : ∃ e, parseMark tab d = .error e := by
  unfold parseMark
  split
  · exact ⟨_, rfl⟩
  · rw [hd]
    cases hc : d.chanType with
    | none => exact ⟨_, rfl⟩
    | some ct =>
      simp only
      split
      · exact ⟨_, rfl⟩
      · rw [ht]
        simp only [hne, ne_eq, not_false_eq_true, if_true]
        exact ⟨_, rfl⟩

/-- … and so is one that disagrees in the channel type. -/
theorem ctype_conflict_refused (tab : List MarkType) (d : MarkIn) (t : MarkType)
    (ht : tab.find? (·.type == d.type) = some t) (ct : String) (hd : d.chanType = some ct)
    (hne : t.stack ≠ decide (ct = "stack")) : ∃ e, parseMark tab d = .error e := by
  unfold parseMark
  split
  · exact ⟨_, rfl⟩
  · cases htt : d.title with
    | none => exact ⟨_, rfl⟩
    | some title =>
      rw [hd]
      simp only
      split
      · exact ⟨_, rfl⟩
      · rw [ht]
        simp only
        split
        · exact ⟨_, rfl⟩
        · first
            | (rw [if_pos hne]; exact ⟨_, rfl⟩)
            | exact ⟨_, rfl⟩

/-- `add_label`: a second label for a value is refused unless it is the same. -/
theorem label_conflict_refused (ls : List (Int × String)) (v : Int) (l l' : String)
    (h : ls.find? (·.1 == v) = some (v, l')) (hne : l' ≠ l) : addLabel ls v l = .error .other := by
  unfold addLabel; rw [h]; simp [hne]

theorem label_agree_merges (ls : List (Int × String)) (v : Int) (l : String)
    (h : ls.find? (·.1 == v) = some (v, l)) : addLabel ls v l = .ok ls := by
  unfold addLabel; rw [h]; simp

theorem label_new_added (ls : List (Int × String)) (v : Int) (l : String)
    (h : ls.find? (·.1 == v) = none) : addLabel ls v l = .ok (ls ++ [(v, l)]) := by
  unfold addLabel; rw [h]

/-- An error while merging is final: once a definition is refused the whole
    trace is refused (`mark_create` fails, the emulator exits). -/
theorem parseMarks_error_final (tab : List MarkType) (d : MarkIn) (rest : List MarkIn) (e : Err)
    (h : parseMark tab d = .error e) : parseMarks tab (d :: rest) = .error e := by
  simp [parseMarks, h]

/-- A malformed definition (type outside [0,100), missing title or channel
    type, unknown channel type) is refused whatever the table. -/
theorem malformed_refused (tab : List MarkType) (d : MarkIn)
    (h : d.type < 0 ∨ d.type ≥ 100 ∨ d.title = none ∨ d.chanType = none ∨
      (∃ ct, d.chanType = some ct ∧ ct ≠ "single" ∧ ct ≠ "stack")) :
    ∃ e, parseMark tab d = .error e := by
  unfold parseMark
  split
  · exact ⟨_, rfl⟩
  · rename_i hr
    have hr' : ¬ (d.type < 0 ∨ d.type ≥ 100) := by simpa using hr
    rcases h with h | h | h | h | ⟨ct, hc, h1, h2⟩
    · exact absurd (Or.inl h) hr'
    · exact absurd (Or.inr h) hr'
    · rw [h]; exact ⟨_, rfl⟩
    · rw [h]; cases d.title <;> exact ⟨_, rfl⟩
    · rw [hc]
      cases d.title with
      | none => exact ⟨_, rfl⟩
      | some title =>
        simp only
        have : (ct ≠ "single" && ct ≠ "stack") = true := by simp [h1, h2]
        rw [if_pos this]; exact ⟨_, rfl⟩

/-! ### Emulator: mark events -/

/-- `mark_event` guards: wrong payload size, undefined type and value 0 are refused. -/
theorem mark_event_guards (tab : List MarkType) (e : Emu) (ti v : Nat) (payload : List Nat) :
    (payload.length ≠ 12 → ∃ er, markEvent tab e ti v payload = .error er) ∧
    (payload.length = 12 → tab.findIdx? (·.type == i32At payload 2) = none →
        ∃ er, markEvent tab e ti v payload = .error er) ∧
    (payload.length = 12 → i64At payload 0 = 0 → ∃ er, markEvent tab e ti v payload = .error er) := by
  refine ⟨?_, ?_, ?_⟩
  · intro h; unfold markEvent; rw [if_pos h]; exact ⟨_, rfl⟩
  · intro h hn
    unfold markEvent
    rw [if_neg (by simp [h])]
    simp only [hn]
    exact ⟨_, rfl⟩
  · intro h hz
    unfold markEvent
    rw [if_neg (by simp [h])]
    simp only
    cases tab.findIdx? (·.type == i32At payload 2) with
    | none => exact ⟨_, rfl⟩
    | some idx => simp only [hz, if_true]; exact ⟨_, rfl⟩

/-- push on a `single` type and set on a `stack` type are refused by the channel. -/
theorem wrong_op_refused (c : Chan) (v : Value) (maxStack : Nat) :
    (c.isStack = false → c.push maxStack v = .error .chanType ∧ c.pop v = .error .chanType) ∧
    (c.isStack = true → c.set v = .error .chanType) := by
  constructor
  · intro h; simp [Chan.push, Chan.pop, h]
  · intro h; simp [Chan.set, h]

/-- A pop whose value is not the innermost pushed one is refused (C08's
    channel theorem instantiated on a mark channel). -/
theorem mismatched_pop_refused (c : Chan) (stk : List Int) (h : C08.Rep c stk) (v : Int)
    (hne : stk.getLast? ≠ some v) : ∃ e, c.pop (.int v) = .error e := C08.pop_err h v hne

/-! ### Emulator: what the rows show -/

/-- Every mark type is a channel of the run-time group with Paraver type
    `100 + type`, tracked ACTIVE on the thread row and RUNNING on the CPU row. -/
theorem mark_channel_spec (tab : List MarkType) (i : Nat) (t : MarkType) (h : tab[i]? = some t) :
    (markSpec tab).pvtType.getD i 0 = prvOvniMark + t.type.toNat ∧
    (markSpec tab).thTrack.getD i 0 = trackAct ∧ (markSpec tab).cpuTrack.getD i 0 = trackRun ∧
    (markSpec tab).chanStack.getD i false = t.stack ∧ (markSpec tab).prvFlags.getD i 0 = prvSkipDupNull := by
  simp [markSpec, List.getD_eq_getElem?_getD, List.getElem?_map, h]

/-- **Thread row**: the mark value (top of the channel) exactly while the
    thread is active (running, cooling or warming), nothing otherwise. -/
theorem mark_thread_view (tab : List MarkType) (t : Thread) (i : Nat) (hi : i < tab.length)
    (cs : List Chan) (hc : t.getChans markGroup = some cs) :
    thView t (markSpec tab) i = if t.state.isActive then (cs.getD i {}).cur else .null := by
  unfold thView
  have : (markSpec tab).char = markGroup := rfl
  rw [this, hc]
  have hm : (markSpec tab).thTrack.getD i 0 = trackAct := by
    simp [markSpec, List.getD_eq_getElem?_getD, List.getElem?_map, List.getElem?_eq_getElem hi]
  rw [hm]
  unfold trackHolds
  cases t.state <;> simp [ThState.isActive, ThState.isRunning, trackAct, trackAny, trackRun]

/-- **CPU row**: the mark value of the unique running thread bound to the CPU,
    nothing when there is none or more than one. -/
theorem mark_cpu_view (tab : List MarkType) (e : Emu) (c : Cpu) (i : Nat) :
    cpuView e c (markSpec tab) i =
      match cpuSelected e c with
      | none => .null
      | some t => match t.getChans markGroup with
        | none => .null
        | some cs => (cs.getD i {}).cur := by
  unfold cpuView
  cases cpuSelected e c with
  | none => simp [markSpec]
  | some t => rfl

/-- the run-time group is well formed (one Paraver type per channel), as C13 needs -/
theorem markExtra_consistent (tab : List MarkType) : ∀ s ∈ markExtra tab, s.pvtType.length = s.nch := by
  intro s hs
  unfold markExtra at hs
  split at hs
  · cases hs
  · simp only [List.mem_cons, List.mem_nil_iff, or_false] at hs
    subst hs; simp [markSpec]

/-! ### Non-vacuity and order independence on concrete instances -/

def dA : MarkIn := { type := 3, title := some "Phase", chanType := some "stack", labels := [(1, "init"), (2, "solve")] }
def dB : MarkIn := { type := 3, title := some "Phase", chanType := some "stack", labels := [(2, "solve"), (5, "io")] }
def dC : MarkIn := { type := 7, title := some "Iter", chanType := some "single", labels := [] }

/-- definitions of different threads that agree merge, in either order, to the same label set -/
example : (mergeMarks [[dA, dC], [dB]]).toOption.map (fun tab => tab.map (fun t => (t.type, t.title, t.stack, t.labels.length))) =
    some [(3, "Phase", true, 3), (7, "Iter", false, 0)] := by decide
example : (mergeMarks [[dB], [dC, dA]]).toOption.map (fun tab => tab.map (fun t => (t.type, t.title, t.stack, t.labels.length))) =
    some [(3, "Phase", true, 3), (7, "Iter", false, 0)] := by decide
/-- a conflicting label is refused in both orders -/
example : (mergeMarks [[dA], [{ dB with labels := [(2, "other")] }]]).toOption = none := by decide
example : (mergeMarks [[{ dB with labels := [(2, "other")] }], [dA]]).toOption = none := by decide

end Ovni.Props.C17
