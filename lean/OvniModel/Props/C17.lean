import OvniModel.Emu.MarkEmu
import OvniModel.Lemmas.MarkRt
import OvniModel.Props.C08Stack

/-!
# C17 — mark API end to end

Models: `Rt/Mark.lean` (ovni_mark_type / label / push / pop / set guards and the
metadata they build) and `Emu/MarkEmu.lean` (parse_mark / add_label merging,
mark channels as a run-time channel group, mark_event).

The merge of the definitions of all threads is characterised against an
order-free specification (`Consistent`, spelled out by `consistent_iff`):
`merge_ok_iff` (accepted exactly when all definitions are well formed and agree
pairwise), `merge_content` (what the accepted table contains),
`merge_perm_invariant` / `mergeMarks_*` (any reordering of threads or of
definitions gives the same verdict and the same table up to the order of rows
and of labels) and `runtime_meta_*` (whatever a thread can build with
successful `ovni_mark_type` / `ovni_mark_label` calls is accepted on its own;
several threads are accepted together iff they agree pairwise).  All of these
hold for lists of any length; the helper lemmas are in `Lemmas/Mark*.lean`.
-/
set_option linter.unusedSimpArgs false
namespace Ovni.Props.C17
open Ovni.Emu Ovni.Emu.MarkL Ovni.Rt.Mark Ovni.Generated

/-! ### Runtime guards -/

/-- `ovni_mark_type` is refused (abort) exactly for a type outside [0,100), an
    empty title or a type already defined by this thread. -/
theorem markType_refused_iff (m : Meta) (type : Int) (flags : Nat) (title : String) :
    markType m type flags title = none ↔
      (type < 0 ∨ type ≥ 100) ∨ title.isEmpty = true ∨ (find m type).isSome = true := by
  unfold markType
  by_cases h1 : (type < 0 || type ≥ 100) = true
  · simp only [h1, if_true, true_iff]
    left; simpa using h1
  · simp only [h1, Bool.false_eq_true, if_false]
    have h1' : ¬ (type < 0 ∨ type ≥ 100) := by simpa using h1
    by_cases h2 : title.isEmpty = true
    · simp [h2]
    · simp only [h2, Bool.false_eq_true, if_false]
      by_cases h3 : (find m type).isSome = true
      · simp [h3]
      · simp only [h3, Bool.false_eq_true, if_false, reduceCtorEq, false_iff]
        intro hh
        rcases hh with hh | hh | hh <;> first | exact h1' hh | exact h2 hh | exact h3 hh | exact hh.elim | cases hh

/-- `ovni_mark_label` is refused for a bad type, a value ≤ 0 (zero is
    forbidden), an empty label, an undefined type or a value already labelled. -/
theorem markLabel_refused_iff (m : Meta) (type value : Int) (label : String) :
    markLabel m type value label = none ↔
      (type < 0 ∨ type ≥ 100) ∨ value ≤ 0 ∨ label.isEmpty = true ∨ find m type = none ∨
      (∃ td, find m type = some td ∧ td.labels.any (·.1 == value) = true) := by
  unfold markLabel
  by_cases h1 : (type < 0 || type ≥ 100) = true
  · simp only [h1, if_true, true_iff]
    left; simpa using h1
  · simp only [h1, Bool.false_eq_true, if_false]
    have h1' : ¬ (type < 0 ∨ type ≥ 100) := by simpa using h1
    by_cases h2 : value ≤ 0
    · simp [h2]
    · simp only [h2, if_false]
      by_cases h3 : label.isEmpty = true
      · simp [h3]
      · simp only [h3, Bool.false_eq_true, if_false]
        cases hf : find m type with
        | none => simp
        | some td =>
          simp only
          by_cases h4 : td.labels.any (·.1 == value) = true
          · simp only [h4, if_true, true_iff]
            right; right; right; right
            exact ⟨td, rfl, h4⟩
          · simp only [h4, Bool.false_eq_true, if_false, reduceCtorEq, false_iff]
            intro hh
            rcases hh with hh | hh | hh | hh | ⟨td', he, ha⟩
            · first | exact h1' hh | exact hh.elim
            · first | exact h2 hh | exact hh.elim
            · first | exact h3 hh | exact hh.elim
            · cases hh
            · cases he; first | exact h4 ha | exact ha.elim | simp_all

/-- push / pop / set with value 0 never emit an event (the call aborts). -/
theorem mark_zero_refused : markEmitOk 0 = false := rfl

/-! ### Emulator: merging definitions -/

/-- A definition that disagrees in its title with the type already in the
    table is refused. -/
theorem title_conflict_refused (tab : List MarkType) (d : MarkIn) (t : MarkType)
    (ht : tab.find? (·.type == d.type) = some t) (title : String) (hd : d.title = some title)
    (hne : t.title ≠ title) : ∃ e, parseMark tab d = .error e := by
  unfold parseMark
  split
  · exact ⟨_, rfl⟩
  · rw [hd]
    cases hc : d.chanType with
    | none => exact ⟨_, rfl⟩
    | some ct =>
      simp only
      split
      · exact ⟨_, rfl⟩
      · rw [ht]
        simp only [hne, ne_eq, not_false_eq_true, if_true]
        exact ⟨_, rfl⟩

/-- … and so is one that disagrees in the channel type. -/
theorem ctype_conflict_refused (tab : List MarkType) (d : MarkIn) (t : MarkType)
    (ht : tab.find? (·.type == d.type) = some t) (ct : String) (hd : d.chanType = some ct)
    (hne : t.stack ≠ decide (ct = "stack")) : ∃ e, parseMark tab d = .error e := by
  unfold parseMark
  split
  · exact ⟨_, rfl⟩
  · cases htt : d.title with
    | none => exact ⟨_, rfl⟩
    | some title =>
      rw [hd]
      simp only
      split
      · exact ⟨_, rfl⟩
      · rw [ht]
        simp only
        split
        · exact ⟨_, rfl⟩
        · first
            | (rw [if_pos hne]; exact ⟨_, rfl⟩)
            | exact ⟨_, rfl⟩

/-- `add_label`: a second label for a value is refused unless it is the same. -/
theorem label_conflict_refused (ls : List (Int × String)) (v : Int) (l l' : String)
    (h : ls.find? (·.1 == v) = some (v, l')) (hne : l' ≠ l) : addLabel ls v l = .error .other := by
  unfold addLabel; rw [h]; simp [hne]

theorem label_agree_merges (ls : List (Int × String)) (v : Int) (l : String)
    (h : ls.find? (·.1 == v) = some (v, l)) : addLabel ls v l = .ok ls := by
  unfold addLabel; rw [h]; simp

theorem label_new_added (ls : List (Int × String)) (v : Int) (l : String)
    (h : ls.find? (·.1 == v) = none) : addLabel ls v l = .ok (ls ++ [(v, l)]) := by
  unfold addLabel; rw [h]

/-- An error while merging is final: once a definition is refused the whole
    trace is refused (`mark_create` fails, the emulator exits). -/
theorem parseMarks_error_final (tab : List MarkType) (d : MarkIn) (rest : List MarkIn) (e : Err)
    (h : parseMark tab d = .error e) : parseMarks tab (d :: rest) = .error e := by
  simp [parseMarks, h]

/-- A malformed definition (type outside [0,100), missing title or channel
    type, unknown channel type) is refused whatever the table. -/
theorem malformed_refused (tab : List MarkType) (d : MarkIn)
    (h : d.type < 0 ∨ d.type ≥ 100 ∨ d.title = none ∨ d.chanType = none ∨
      (∃ ct, d.chanType = some ct ∧ ct ≠ "single" ∧ ct ≠ "stack")) :
    ∃ e, parseMark tab d = .error e := by
  unfold parseMark
  split
  · exact ⟨_, rfl⟩
  · rename_i hr
    have hr' : ¬ (d.type < 0 ∨ d.type ≥ 100) := by simpa using hr
    rcases h with h | h | h | h | ⟨ct, hc, h1, h2⟩
    · exact absurd (Or.inl h) hr'
    · exact absurd (Or.inr h) hr'
    · rw [h]; exact ⟨_, rfl⟩
    · rw [h]; cases d.title <;> exact ⟨_, rfl⟩
    · rw [hc]
      cases d.title with
      | none => exact ⟨_, rfl⟩
      | some title =>
        simp only
        have : (ct ≠ "single" && ct ≠ "stack") = true := by simp [h1, h2]
        rw [if_pos this]; exact ⟨_, rfl⟩

/-! ### Emulator: the merge against an order-free specification

`Consistent defs` (defined in `Lemmas/MarkMerge.lean` from `WellFormed` and
`Agree`) makes no reference to the order of `defs`: it only quantifies over
members and pairs of members. -/

/-- The specification spelled out: every definition has its type in [0,100), a
    title, channel type "single" or "stack" and no two different labels for
    one value; two definitions of the same type have the same title and
    channel type and agree on every value that both label. -/
theorem consistent_iff (defs : List MarkIn) :
    Consistent defs ↔
      (∀ d ∈ defs, 0 ≤ d.type ∧ d.type < 100 ∧ d.title.isSome = true ∧
          (d.chanType = some "single" ∨ d.chanType = some "stack") ∧
          (∀ p ∈ d.labels, ∀ q ∈ d.labels, p.1 = q.1 → p.2 = q.2)) ∧
      (∀ d ∈ defs, ∀ d' ∈ defs, d.type = d'.type →
          d.title = d'.title ∧ d.chanType = d'.chanType ∧
          (∀ p ∈ d.labels, ∀ q ∈ d'.labels, p.1 = q.1 → p.2 = q.2)) := Iff.rfl

/-- The specification is symmetric in the order of the definitions: it only
    depends on which definitions occur. -/
theorem consistent_order_free {defs defs' : List MarkIn} (h : ∀ d, d ∈ defs' ↔ d ∈ defs) :
    Consistent defs' ↔ Consistent defs := consistent_congr h

/-- **Accepted exactly when all definitions agree**: `mark_create` over the
    definitions of all threads (any number, any order) succeeds iff the
    collection is `Consistent`. -/
theorem merge_ok_iff (defs : List MarkIn) :
    (∃ tab, parseMarks [] defs = .ok tab) ↔ Consistent defs := by
  constructor
  · rintro ⟨tab, h⟩
    have := rep_parseMarks rep_nil h
    rw [List.nil_append] at this
    exact rep_consistent this
  · intro hC
    exact parseMarks_complete rep_nil (by rw [List.nil_append]; exact hC)

/-- **Refused exactly when some definition is malformed or some pair
    conflicts.** -/
theorem merge_refused_iff (defs : List MarkIn) :
    (∃ e, parseMarks [] defs = .error e) ↔
      (∃ d ∈ defs, ¬ WellFormed d) ∨ (∃ d ∈ defs, ∃ d' ∈ defs, ¬ Agree d d') := by
  have hok := merge_ok_iff defs
  constructor
  · rintro ⟨e, he⟩
    have hnC : ¬ Consistent defs := by
      intro hC
      obtain ⟨tab, ht⟩ := hok.mpr hC
      rw [he] at ht; cases ht
    by_cases h1 : ∀ d ∈ defs, WellFormed d
    · right
      apply Classical.byContradiction
      intro hne
      apply hnC
      refine ⟨h1, fun d hd d' hd' => Classical.byContradiction fun hna => hne ⟨d, hd, d', hd', hna⟩⟩
    · left
      apply Classical.byContradiction
      intro hne
      exact h1 fun d hd => Classical.byContradiction fun hnw => hne ⟨d, hd, hnw⟩
  · intro h
    have hnC : ¬ Consistent defs := by
      intro hC
      rcases h with ⟨d, hd, hn⟩ | ⟨d, hd, d', hd', hn⟩
      · exact hn (hC.1 d hd)
      · exact hn (hC.2 d hd d' hd')
    cases hr : parseMarks [] defs with
    | error e => exact ⟨e, rfl⟩
    | ok tab => exact absurd (hok.mp ⟨tab, hr⟩) hnC

/-- **Content of the merged table**: exactly the types that occur in the
    definitions, one row each; every row carries the common title and channel
    type; its label set is exactly the union of the labels of the definitions
    of its type; no value is labelled twice. -/
theorem merge_content {defs : List MarkIn} {tab : List MarkType} (h : parseMarks [] defs = .ok tab) :
    (tab.map (·.type)).Nodup ∧
    (∀ ty, ty ∈ tab.map (·.type) ↔ ∃ d ∈ defs, d.type = ty) ∧
    (∀ t ∈ tab, ∀ d ∈ defs, d.type = t.type →
        d.title = some t.title ∧ d.chanType = some (if t.stack then "stack" else "single")) ∧
    (∀ t ∈ tab, ∀ v l, (v, l) ∈ t.labels ↔ ∃ d ∈ defs, d.type = t.type ∧ (v, l) ∈ d.labels) ∧
    (∀ t ∈ tab, (t.labels.map (·.1)).Nodup) := by
  have hR := rep_parseMarks rep_nil h
  rw [List.nil_append] at hR
  refine ⟨hR.types_nodup, ?_, ?_, ?_, hR.keys⟩
  · intro ty
    constructor
    · intro hm
      obtain ⟨t, ht, rfl⟩ := List.mem_map.mp hm
      exact hR.used t ht
    · rintro ⟨d, hd, rfl⟩
      obtain ⟨_, _, t, ht, e, _⟩ := hR.covers d hd
      exact List.mem_map.mpr ⟨t, ht, e⟩
  · intro t ht d hd hty
    obtain ⟨_, _, t', ht', e1, e2, e3⟩ := hR.covers d hd
    have : t' = t := hR.row_unique ht' ht (e1.trans hty)
    subst this
    exact ⟨e2, e3⟩
  · intro t ht v l
    exact hR.labels t ht (v, l)

/-- … in particular a value has at most one label in the merged table. -/
theorem merge_labels_functional {defs : List MarkIn} {tab : List MarkType}
    (h : parseMarks [] defs = .ok tab) (t : MarkType) (ht : t ∈ tab) (v : Int) (l l' : String)
    (h1 : (v, l) ∈ t.labels) (h2 : (v, l') ∈ t.labels) : l = l' := by
  have hk : KeysNodup t.labels := (merge_content h).2.2.2.2 t ht
  exact hk.agree_self (v, l) h1 (v, l') h2 rfl

/-- Two merged tables are the same up to the order of rows and the order of
    the labels inside a row. -/
theorem tabEquiv_iff (tab tab' : List MarkType) :
    TabEquiv tab tab' ↔
      (tab.map (·.type)).Perm (tab'.map (·.type)) ∧
      ∀ t ∈ tab, ∀ t' ∈ tab', t.type = t'.type →
        t.title = t'.title ∧ t.stack = t'.stack ∧ t.labels.Perm t'.labels := Iff.rfl

/-- same verdict, and the same table up to `TabEquiv` when accepted -/
def SameOutcome (r r' : Except Err (List MarkType)) : Prop :=
  ((∃ tab', r' = .ok tab') ↔ (∃ tab, r = .ok tab)) ∧
  ∀ tab tab', r = .ok tab → r' = .ok tab' → TabEquiv tab tab'

/-- The merge only depends on *which* definitions occur (neither on their
    order nor on how often one is repeated). -/
theorem merge_mem_invariant {defs defs' : List MarkIn} (hm : ∀ d, d ∈ defs' ↔ d ∈ defs) :
    SameOutcome (parseMarks [] defs) (parseMarks [] defs') := by
  constructor
  · rw [merge_ok_iff, merge_ok_iff]
    exact consistent_congr hm
  · intro tab tab' h h'
    have hR := rep_parseMarks rep_nil h
    have hR' := rep_parseMarks rep_nil h'
    rw [List.nil_append] at hR hR'
    exact rep_equiv hm hR hR'

/-- **Order independence**: for any permutation `defs'` of `defs` the merge
    succeeds iff it does for `defs`, and both tables have the same types with
    the same titles, channel types and label sets. -/
theorem merge_perm_invariant {defs defs' : List MarkIn} (hp : defs'.Perm defs) :
    ((∃ tab', parseMarks [] defs' = .ok tab') ↔ (∃ tab, parseMarks [] defs = .ok tab)) ∧
    ∀ tab tab', parseMarks [] defs = .ok tab → parseMarks [] defs' = .ok tab' →
      (tab.map (·.type)).Perm (tab'.map (·.type)) ∧
      ∀ t ∈ tab, ∀ t' ∈ tab', t.type = t'.type →
        t.title = t'.title ∧ t.stack = t'.stack ∧ t.labels.Perm t'.labels :=
  merge_mem_invariant fun _ => hp.mem_iff

/-- `mark_create` over per-thread lists: the outcome depends only on the
    multiset of all definitions of all threads. -/
theorem mergeMarks_flatten_invariant {ths ths' : List (List MarkIn)}
    (hp : ths'.flatten.Perm ths.flatten) : SameOutcome (mergeMarks ths) (mergeMarks ths') :=
  merge_mem_invariant fun _ => hp.mem_iff

/-- any permutation of the threads -/
theorem mergeMarks_perm_threads {ths ths' : List (List MarkIn)} (hp : ths'.Perm ths) :
    SameOutcome (mergeMarks ths) (mergeMarks ths') :=
  mergeMarks_flatten_invariant hp.flatten

/-- any permutation of the definitions inside one thread -/
theorem mergeMarks_perm_inside (pre post : List (List MarkIn)) {th th' : List MarkIn}
    (hp : th'.Perm th) :
    SameOutcome (mergeMarks (pre ++ th :: post)) (mergeMarks (pre ++ th' :: post)) := by
  apply mergeMarks_flatten_invariant
  simp only [List.flatten_append, List.flatten_cons]
  exact (hp.append_right _).append_left _

/-- moving a definition from one thread to another (in either direction,
    whichever thread comes first) -/
theorem mergeMarks_move_def (pre mid post : List (List MarkIn)) (a₁ a₂ b₁ b₂ : List MarkIn) (d : MarkIn) :
    SameOutcome (mergeMarks (pre ++ (a₁ ++ d :: a₂) :: mid ++ (b₁ ++ b₂) :: post))
                (mergeMarks (pre ++ (a₁ ++ a₂) :: mid ++ (b₁ ++ d :: b₂) :: post)) ∧
    SameOutcome (mergeMarks (pre ++ (a₁ ++ a₂) :: mid ++ (b₁ ++ d :: b₂) :: post))
                (mergeMarks (pre ++ (a₁ ++ d :: a₂) :: mid ++ (b₁ ++ b₂) :: post)) := by
  have key : ∀ x, x ∈ (pre ++ (a₁ ++ a₂) :: mid ++ (b₁ ++ d :: b₂) :: post).flatten ↔
      x ∈ (pre ++ (a₁ ++ d :: a₂) :: mid ++ (b₁ ++ b₂) :: post).flatten := by
    intro x
    simp only [List.flatten_append, List.flatten_cons, List.mem_append, List.mem_cons]
    constructor
    · rintro ((h | (h | h) | h) | (h | h | h) | h) <;> simp [h]
    · rintro ((h | (h | h | h) | h) | (h | h) | h) <;> simp [h]
  exact ⟨merge_mem_invariant key, merge_mem_invariant fun x => (key x).symm⟩

/-! ### Runtime metadata is accepted by the emulator -/

/-- The conversion from the runtime's `ovni.mark` object to what the emulator
    reads (`metaToDefs`, `Lemmas/MarkRt.lean`), spelled out. -/
theorem metaToDefs_eq (m : Meta) :
    metaToDefs m = m.map fun td =>
      { type := td.type, title := some td.title,
        chanType := some (if td.stack then "stack" else "single"), labels := td.labels } := rfl

/-- `Reachable m`: `m` is obtained from the empty object by successful
    `ovni_mark_type` / `ovni_mark_label` calls, in any number and order. -/
theorem reachable_iff_calls (m : Meta) :
    Reachable m ↔ m = [] ∨
      (∃ m₀ ty flags title, Reachable m₀ ∧ markType m₀ ty flags title = some m) ∨
      (∃ m₀ ty v l, Reachable m₀ ∧ markLabel m₀ ty v l = some m) := by
  constructor
  · intro h
    cases h with
    | init => exact Or.inl rfl
    | type ty flags title h0 hs => exact Or.inr (Or.inl ⟨_, ty, flags, title, h0, hs⟩)
    | label ty v l h0 hs => exact Or.inr (Or.inr ⟨_, ty, v, l, h0, hs⟩)
  · rintro (rfl | ⟨m₀, ty, flags, title, h0, hs⟩ | ⟨m₀, ty, v, l, h0, hs⟩)
    · exact Reachable.init
    · exact Reachable.type ty flags title h0 hs
    · exact Reachable.label ty v l h0 hs

/-- Whatever a thread builds with successful calls is consistent on its own … -/
theorem runtime_meta_consistent {m : Meta} (h : Reachable m) : Consistent (metaToDefs m) := by
  have hI := h.inv
  have := (consistent_metas_iff (ms := [m]) (by
    intro m' hm'; rw [List.mem_singleton.mp hm']; exact hI)).mpr (by
    intro m₁ h₁ m₂ h₂
    rw [List.mem_singleton.mp h₁, List.mem_singleton.mp h₂]
    exact hI.metaAgree_self)
  simpa using this

/-- … so **a single thread's metadata is always accepted by the emulator**. -/
theorem runtime_meta_parses {m : Meta} (h : Reachable m) :
    (∃ tab, parseMarks [] (metaToDefs m) = .ok tab) ∧ (∃ tab, mergeMarks [metaToDefs m] = .ok tab) := by
  have h1 := (merge_ok_iff _).mpr (runtime_meta_consistent h)
  refine ⟨h1, ?_⟩
  unfold mergeMarks
  simpa using h1

/-- **Several threads**: their metadata are accepted together iff every two of
    them agree (same title and channel type for a type both define, same label
    for a value both label). -/
theorem runtime_metas_merge_iff {ms : List Meta} (h : ∀ m ∈ ms, Reachable m) :
    (∃ tab, mergeMarks (ms.map metaToDefs) = .ok tab) ↔ ∀ m₁ ∈ ms, ∀ m₂ ∈ ms, MetaAgree m₁ m₂ := by
  unfold mergeMarks
  rw [merge_ok_iff]
  exact consistent_metas_iff fun m hm => (h m hm).inv

/-- `MetaAgree`, spelled out. -/
theorem metaAgree_iff (m₁ m₂ : Meta) :
    MetaAgree m₁ m₂ ↔ ∀ a ∈ m₁, ∀ b ∈ m₂, a.type = b.type →
      a.title = b.title ∧ a.stack = b.stack ∧
      (∀ p ∈ a.labels, ∀ q ∈ b.labels, p.1 = q.1 → p.2 = q.2) := Iff.rfl

/-- **Two threads** are jointly accepted iff they agree. -/
theorem runtime_two_threads_iff {m₁ m₂ : Meta} (h₁ : Reachable m₁) (h₂ : Reachable m₂) :
    (∃ tab, mergeMarks [metaToDefs m₁, metaToDefs m₂] = .ok tab) ↔ MetaAgree m₁ m₂ := by
  have := runtime_metas_merge_iff (ms := [m₁, m₂]) (by
    intro m hm
    rcases List.mem_cons.mp hm with rfl | hm
    · exact h₁
    · rw [List.mem_singleton.mp hm]; exact h₂)
  rw [show [m₁, m₂].map metaToDefs = [metaToDefs m₁, metaToDefs m₂] from rfl] at this
  rw [this]
  constructor
  · intro hA
    exact hA m₁ List.mem_cons_self m₂ (List.mem_cons_of_mem _ List.mem_cons_self)
  · intro hA a ha b hb
    have hsymm : MetaAgree m₂ m₁ := fun x hx y hy hty =>
      let ⟨e1, e2, e3⟩ := hA y hy x hx hty.symm
      ⟨e1.symm, e2.symm, e3.symm⟩
    rcases List.mem_cons.mp ha with rfl | ha
    · rcases List.mem_cons.mp hb with rfl | hb
      · exact h₁.inv.metaAgree_self
      · rw [List.mem_singleton.mp hb]; exact hA
    · rw [List.mem_singleton.mp ha]
      rcases List.mem_cons.mp hb with rfl | hb
      · exact hsymm
      · rw [List.mem_singleton.mp hb]; exact h₂.inv.metaAgree_self

/-! ### Emulator: mark events -/

/-- `mark_event` guards: wrong payload size, undefined type and value 0 are refused. -/
theorem mark_event_guards (tab : List MarkType) (e : Emu) (ti v : Nat) (payload : List Nat) :
    (payload.length ≠ 12 → ∃ er, markEvent tab e ti v payload = .error er) ∧
    (payload.length = 12 → tab.findIdx? (·.type == i32At payload 2) = none →
        ∃ er, markEvent tab e ti v payload = .error er) ∧
    (payload.length = 12 → i64At payload 0 = 0 → ∃ er, markEvent tab e ti v payload = .error er) := by
  refine ⟨?_, ?_, ?_⟩
  · intro h; unfold markEvent; rw [if_pos h]; exact ⟨_, rfl⟩
  · intro h hn
    unfold markEvent
    rw [if_neg (by simp [h])]
    simp only [hn]
    exact ⟨_, rfl⟩
  · intro h hz
    unfold markEvent
    rw [if_neg (by simp [h])]
    simp only
    cases tab.findIdx? (·.type == i32At payload 2) with
    | none => exact ⟨_, rfl⟩
    | some idx => simp only [hz, if_true]; exact ⟨_, rfl⟩

/-- push on a `single` type and set on a `stack` type are refused by the channel. -/
theorem wrong_op_refused (c : Chan) (v : Value) (maxStack : Nat) :
    (c.isStack = false → c.push maxStack v = .error .chanType ∧ c.pop v = .error .chanType) ∧
    (c.isStack = true → c.set v = .error .chanType) := by
  constructor
  · intro h; simp [Chan.push, Chan.pop, h]
  · intro h; simp [Chan.set, h]

/-- A pop whose value is not the innermost pushed one is refused (C08's
    channel theorem instantiated on a mark channel). -/
theorem mismatched_pop_refused (c : Chan) (stk : List Int) (h : C08.Rep c stk) (v : Int)
    (hne : stk.getLast? ≠ some v) : ∃ e, c.pop (.int v) = .error e := C08.pop_err h v hne

/-! ### Emulator: what the rows show -/

/-- Every mark type is a channel of the run-time group with Paraver type
    `100 + type`, tracked ACTIVE on the thread row and RUNNING on the CPU row. -/
theorem mark_channel_spec (tab : List MarkType) (i : Nat) (t : MarkType) (h : tab[i]? = some t) :
    (markSpec tab).pvtType.getD i 0 = prvOvniMark + t.type.toNat ∧
    (markSpec tab).thTrack.getD i 0 = trackAct ∧ (markSpec tab).cpuTrack.getD i 0 = trackRun ∧
    (markSpec tab).chanStack.getD i false = t.stack ∧ (markSpec tab).prvFlags.getD i 0 = prvSkipDupNull := by
  simp [markSpec, List.getD_eq_getElem?_getD, List.getElem?_map, h]

/-- **Thread row**: the mark value (top of the channel) exactly while the
    thread is active (running, cooling or warming), nothing otherwise. -/
theorem mark_thread_view (tab : List MarkType) (t : Thread) (i : Nat) (hi : i < tab.length)
    (cs : List Chan) (hc : t.getChans markGroup = some cs) :
    thView t (markSpec tab) i = if t.state.isActive then (cs.getD i {}).cur else .null := by
  unfold thView
  have : (markSpec tab).char = markGroup := rfl
  rw [this, hc]
  have hm : (markSpec tab).thTrack.getD i 0 = trackAct := by
    simp [markSpec, List.getD_eq_getElem?_getD, List.getElem?_map, List.getElem?_eq_getElem hi]
  rw [hm]
  unfold trackHolds
  cases t.state <;> simp [ThState.isActive, ThState.isRunning, trackAct, trackAny, trackRun]

/-- **CPU row**: the mark value of the unique running thread bound to the CPU,
    nothing when there is none or more than one. -/
theorem mark_cpu_view (tab : List MarkType) (e : Emu) (c : Cpu) (i : Nat) :
    cpuView e c (markSpec tab) i =
      match cpuSelected e c with
      | none => .null
      | some t => match t.getChans markGroup with
        | none => .null
        | some cs => (cs.getD i {}).cur := by
  unfold cpuView
  cases cpuSelected e c with
  | none => simp [markSpec]
  | some t => rfl

/-- the run-time group is well formed (one Paraver type per channel), as C13 needs -/
theorem markExtra_consistent (tab : List MarkType) : ∀ s ∈ markExtra tab, s.pvtType.length = s.nch := by
  intro s hs
  unfold markExtra at hs
  split at hs
  · cases hs
  · simp only [List.mem_cons, List.mem_nil_iff, or_false] at hs
    subst hs; simp [markSpec]

/-! ### Non-vacuity: the hypotheses of the theorems above are satisfiable

(Order independence itself is `merge_perm_invariant` / `mergeMarks_*` above, for
lists of any length; the instances below only show that the hypotheses are
inhabited by non-trivial data and that both verdicts occur.) -/

def dA : MarkIn := { type := 3, title := some "Phase", chanType := some "stack", labels := [(1, "init"), (2, "solve")] }
def dB : MarkIn := { type := 3, title := some "Phase", chanType := some "stack", labels := [(2, "solve"), (5, "io")] }
def dC : MarkIn := { type := 7, title := some "Iter", chanType := some "single", labels := [] }
/-- conflicts with `dA` on the label of value 2 -/
def dX : MarkIn := { dB with labels := [(2, "other")] }

/-- definitions of different threads that agree merge, in either order, to the same label set -/
example : (mergeMarks [[dA, dC], [dB]]).toOption.map (fun tab => tab.map (fun t => (t.type, t.title, t.stack, t.labels.length))) =
    some [(3, "Phase", true, 3), (7, "Iter", false, 0)] := by decide
example : (mergeMarks [[dB], [dC, dA]]).toOption.map (fun tab => tab.map (fun t => (t.type, t.title, t.stack, t.labels.length))) =
    some [(3, "Phase", true, 3), (7, "Iter", false, 0)] := by decide
/-- a conflicting label is refused in both orders -/
example : (mergeMarks [[dA], [dX]]).toOption = none := by decide
example : (mergeMarks [[dX], [dA]]).toOption = none := by decide

/-- `Consistent` is decidable and holds of a non-trivial collection (two
    definitions of one type with overlapping labels, one of another type) … -/
example : Consistent [dA, dC, dB] := by decide
/-- … and fails for a label conflict, a title conflict and a malformed definition -/
example : ¬ Consistent [dA, dX] := by decide
example : ¬ Consistent [dA, { dA with title := some "Other" }] := by decide
example : ¬ Consistent [{ dC with type := 100 }] := by decide
/-- `merge_ok_iff` / `merge_content` / `merge_perm_invariant` apply to it -/
example : ∃ tab, parseMarks [] [dA, dC, dB] = .ok tab := (merge_ok_iff _).mpr (by decide)
example : [dB, dA, dC].Perm [dA, dC, dB] :=
  (List.Perm.swap dA dB [dC]).trans (List.Perm.cons dA (List.Perm.swap dC dB []))

/-- runtime metadata built by successful calls (two types, labels on one) -/
def mA : Meta :=
  [{ type := 3, title := "Phase", stack := true, labels := [(1, "init"), (2, "solve")] },
   { type := 7, title := "Iter", stack := false }]
def mB : Meta := [{ type := 3, title := "Phase", stack := true, labels := [(2, "solve"), (5, "io")] }]
def mX : Meta := [{ type := 3, title := "Phase", stack := true, labels := [(2, "other")] }]

example : Reachable mA :=
  .label (m := [{ type := 3, title := "Phase", stack := true, labels := [(1, "init")] }, { type := 7, title := "Iter", stack := false }]) 3 2 "solve"
    (.label (m := [{ type := 3, title := "Phase", stack := true }, { type := 7, title := "Iter", stack := false }]) 3 1 "init"
      (.type (m := [{ type := 3, title := "Phase", stack := true }]) 7 0 "Iter"
        (.type (m := []) 3 1 "Phase" .init (by decide)) (by decide)) (by decide)) (by decide)
example : Reachable mB :=
  .label (m := [{ type := 3, title := "Phase", stack := true, labels := [(2, "solve")] }]) 3 5 "io"
    (.label (m := [{ type := 3, title := "Phase", stack := true }]) 3 2 "solve"
      (.type (m := []) 3 1 "Phase" .init (by decide)) (by decide)) (by decide)
example : metaToDefs mA = [dA, dC] := rfl
example : MetaAgree mA mB := by decide
example : ¬ MetaAgree mA mX := by decide

end Ovni.Props.C17
