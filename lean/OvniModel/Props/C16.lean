import OvniModel.Tools.Ovnisort
namespace Ovni.Props.C16
open Ovni.Ovnisort

theorem stub : isort [] = [] := rfl

end Ovni.Props.C16
