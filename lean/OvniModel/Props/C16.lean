import OvniModel.Tools.Ovnisort
import OvniModel.Tools.OvnisortOld
import OvniModel.Lemmas.OvnisortSort
import OvniModel.Lemmas.OvnisortRing
import OvniModel.Lemmas.OvnisortInv
import OvniModel.Lemmas.OvnisortGen
import OvniModel.Lemmas.OvnisortTop

/-!
# C16 — ovnisort yields a stable sorted permutation and touches only what it must

Property theorems only.  Model: `OvniModel/Tools/Ovnisort.lean` (transcription
of `src/emu/ovnisort.c` and of the `stream_step` it drives).  `sortFn` stands
for `qsort` with `cmp_ev`: `IsSort sortFn` = it returns a permutation sorted by
the int64-cast clocks; `Stable sortFn` = equal clocks keep their order (named
hypothesis, true for the insertion sort `isort` used by the driver and for
glibc's merge sort).

Preconditions of the property, all decidable:
`OnlyRegionsUnsorted evs`, `WithinWindow n evs` (every region *that is not
already in place* finds its destination within the look-back; a region whose
events, `OU[` marker included, have non-decreasing clocks is left alone by
`region_in_place` and needs no window), `ClocksSigned evs` (clocks < 2^63),
look-back `n ≥ 1`, at least one event.

`sorted_input_noop` / `second_run_noop` are the statements that the code
violated before `region_in_place` was added (`second_run_fails_before_fix`).
-/
namespace Ovni.Props.C16
open Ovni.Ovnisort

/-- total size in bytes of a stream body -/
def totalSize (l : List Ev) : Nat := (l.map (·.size)).sum

/-- **winsort_ok.** Under the preconditions and for any `qsort` that returns a
    sorted permutation: ovnisort succeeds, the stream keeps its size, its
    events are exactly the original events (a permutation of the `Ev` values,
    which carry their bytes) and the clocks are non-decreasing. -/
theorem winsort_ok {sortFn : List Ev → List Ev} (hf : IsSort sortFn) {n : Nat} (hn : 1 ≤ n)
    {evs : List Ev} (hne : evs ≠ []) (hr : OnlyRegionsUnsorted evs) (hw : WithinWindow n evs)
    (hc : ClocksSigned evs) :
    (winsort sortFn n evs).status = Status.ok ∧
    totalSize (winsort sortFn n evs).out = totalSize evs ∧
    (encodeBody (winsort sortFn n evs).out).length = (encodeBody evs).length ∧
    (winsort sortFn n evs).out.Perm evs ∧
    Sorted (winsort sortFn n evs).out := by
  obtain ⟨h1, h2, h3⟩ := (winsort_main hf hn hne hr hc).1 hw
  refine ⟨h1, (h3.map _).sum_nat, ?_, h3, h2⟩
  unfold encodeBody
  exact (h3.flatMap_right _).length_eq

/-- Nothing is ever lost or altered, whatever the stream, the look-back and
    the outcome (also when ovnisort stops with an error after having sorted
    some regions): the events afterwards are a permutation of the events
    before. -/
theorem permutation_always {sortFn : List Ev → List Ev} (hf : IsSort sortFn) (n : Nat) (evs : List Ev)
    (trunc : Bool) : (winsort sortFn n evs trunc).out.Perm evs := by
  cases evs with
  | nil => exact List.Perm.refl _
  | cons e t =>
    apply wsLoop_rel (R := fun d p => d.Perm p) (e :: t) (fun d p x h => perm_snoc x h) _ trunc
      (e :: t) (WS.init n) [] rfl (List.Perm.refl _)
    intro d p first _ h
    unfold sortFrom
    refine List.Perm.trans ?_ h
    conv => rhs; rw [← List.take_append_drop first d]
    exact List.Perm.append_left _ (hf _).1

/-- **prefix_untouched.** Every event (hence every byte) before the earliest
    position named by an executed sort plan is unchanged; no precondition. -/
theorem prefix_untouched {sortFn : List Ev → List Ev} (hf : IsSort sortFn) (n : Nat) (evs : List Ev)
    (trunc : Bool) (q : Nat) (hq : ∀ pl ∈ (winsort sortFn n evs trunc).plans, q ≤ pl.1) :
    (winsort sortFn n evs trunc).out.take q = evs.take q := by
  cases evs with
  | nil => rfl
  | cons e t =>
    exact wsLoop_prefix (fun l => (hf l).1.length_eq) trunc q (e :: t) (WS.init n) [] hq rfl rfl

/-- byte form of `prefix_untouched` -/
theorem prefix_bytes_untouched {sortFn : List Ev → List Ev} (hf : IsSort sortFn) (n : Nat) (evs : List Ev)
    (trunc : Bool) (q : Nat) (hq : ∀ pl ∈ (winsort sortFn n evs trunc).plans, q ≤ pl.1) :
    (encodeBody (winsort sortFn n evs trunc).out).take (encodeBody (evs.take q)).length
      = encodeBody (evs.take q) := by
  have h := prefix_untouched hf n evs trunc q hq
  have : encodeBody (winsort sortFn n evs trunc).out
      = encodeBody (evs.take q) ++ encodeBody ((winsort sortFn n evs trunc).out.drop q) := by
    conv => lhs; rw [← List.take_append_drop q (winsort sortFn n evs trunc).out, h]
    unfold encodeBody; rw [List.flatMap_append]
  rw [this, List.take_left' rfl]

/-- **equal_clock_order_preserved.** With a stable `qsort`, events with the
    same clock keep their relative order — for every stream, look-back and
    outcome. -/
theorem equal_clock_order_preserved {sortFn : List Ev → List Ev} (hs : Stable sortFn) (n : Nat)
    (evs : List Ev) (trunc : Bool) (c : Nat) :
    atClock c (winsort sortFn n evs trunc).out = atClock c evs := by
  cases evs with
  | nil => rfl
  | cons e t =>
    apply wsLoop_rel (R := fun d p => atClock c d = atClock c p) (e :: t) _ _ trunc
      (e :: t) (WS.init n) [] rfl rfl
    · intro d p x h
      unfold atClock at *
      rw [List.filter_append, List.filter_append, h]
    · intro d p first _ h
      unfold sortFrom
      rw [← h]
      conv => rhs; rw [← List.take_append_drop first d]
      unfold atClock
      rw [List.filter_append, List.filter_append]
      congr 1
      exact hs _ c

/-- Under the preconditions and stability, ovnisort computes *the* stable sort
    of the whole stream (here: insertion sort `isort`). -/
theorem winsort_eq_stable_sort {sortFn : List Ev → List Ev} (hf : IsSort sortFn) (hs : Stable sortFn)
    {n : Nat} (hn : 1 ≤ n) {evs : List Ev} (hne : evs ≠ []) (hr : OnlyRegionsUnsorted evs)
    (hw : WithinWindow n evs) (hc : ClocksSigned evs) :
    (winsort sortFn n evs).out = isort evs := by
  obtain ⟨_, h2, _⟩ := (winsort_main hf hn hne hr hc).1 hw
  apply sorted_ext h2
  · exact (isort_ssorted evs).sorted (fun e he => hc e ((isort_perm evs).mem_iff.1 he))
  · intro c
    rw [equal_clock_order_preserved hs, isort_atClock]

/-- **sorted_input_noop.** On *any* stream whose events already have
    non-decreasing clocks — whatever its regions (closed or not, nested
    markers, empty), the look-back `n ≥ 1`, the clocks (also ≥ 2^63) and
    `qsort` — ovnisort exits 0, executes no sort plan and leaves every event,
    hence every byte, where it was: no region makes it look back. -/
theorem sorted_input_noop (sortFn : List Ev → List Ev) {n : Nat} (_hn : 1 ≤ n) {evs : List Ev}
    (hne : evs ≠ []) (hsorted : Sorted evs) :
    (winsort sortFn n evs).status = Status.ok ∧
    (winsort sortFn n evs).out = evs ∧
    encodeBody (winsort sortFn n evs).out = encodeBody evs ∧
    (winsort sortFn n evs).plans = [] := by
  obtain ⟨h1, h2, h3⟩ := winsort_sorted_noop sortFn n hne hsorted false
  exact ⟨by simpa using h3, h1, by rw [h1], h2⟩

/-- The `region_in_place` shortcut changes no result: when the events before
    the `OU[` marker are sorted (the loop invariant under `OnlyRegionsUnsorted`)
    and the region is in place, the look back + `qsort` + write that the code
    would otherwise perform (`sortRegion`, with a stable `qsort` and clocks
    < 2^63) leaves the buffer exactly as it is — in every outcome, also when
    it fails to find a destination.  The shortcut only removes that failure. -/
theorem in_place_skip_exact {sortFn : List Ev → List Ev} (hf : IsSort sortFn) (hs : Stable sortFn)
    {buf : List Ev} {opn : Nat} (hlt : opn < buf.length) (hpre : Sorted (buf.take (opn + 1)))
    (hip : regionInPlace buf opn = true) (hc : ClocksSigned buf) (r : Ring) (bad0 : Nat) :
    (sortRegion sortFn buf r bad0).2.1 = buf ∧
    (executeSortPlan sortFn buf r opn bad0) = (Status.ok, buf, r, none) := by
  refine ⟨?_, exec_inPlace hip⟩
  have hsd : Sorted buf := sorted_of_inPlace hlt hpre hip
  rcases sortRegion_shape sortFn buf r bad0 with ⟨h, _⟩ | ⟨first, h, _⟩
  · exact h
  · rw [h]
    unfold sortFrom
    rw [sorted_of_stable_eq_self hf hs (List.Pairwise.sublist (List.drop_sublist _ _) hsd)
      (fun x hx => hc x (List.mem_of_mem_drop hx)), List.take_append_drop]

/-- **idempotent.** Sorting a sorted stream changes nothing — for every
    look-back and `qsort`, also when the stream ends with an incomplete event
    (then the run reports that, after having written nothing). -/
theorem idempotent (sortFn : List Ev → List Ev) (n : Nat) {evs : List Ev} (hsorted : Sorted evs)
    (trunc : Bool) : (winsort sortFn n evs trunc).out = evs ∧ (winsort sortFn n evs trunc).plans = [] := by
  cases evs with
  | nil => exact ⟨rfl, rfl⟩
  | cons e t =>
    obtain ⟨h1, h2, _⟩ := winsort_sorted_noop sortFn n (List.cons_ne_nil e t) hsorted trunc
    exact ⟨h1, h2⟩

/-- **second_run_noop.** Under the preconditions of `winsort_ok`, running
    ovnisort again on the result (same look-back `n`, or any other `n' ≥ 1`)
    exits 0, executes no sort plan and returns the same events and bytes; so
    does every further run. -/
theorem second_run_noop {sortFn : List Ev → List Ev} (hf : IsSort sortFn) {n : Nat} (hn : 1 ≤ n)
    {evs : List Ev} (hne : evs ≠ []) (hr : OnlyRegionsUnsorted evs) (hw : WithinWindow n evs)
    (hc : ClocksSigned evs) {n' : Nat} (hn' : 1 ≤ n') :
    (winsort sortFn n' (winsort sortFn n evs).out).status = Status.ok ∧
    (winsort sortFn n' (winsort sortFn n evs).out).out = (winsort sortFn n evs).out ∧
    encodeBody (winsort sortFn n' (winsort sortFn n evs).out).out = encodeBody (winsort sortFn n evs).out ∧
    (winsort sortFn n' (winsort sortFn n evs).out).plans = [] := by
  obtain ⟨_, h2, h3⟩ := (winsort_main hf hn hne hr hc).1 hw
  have hne' : (winsort sortFn n evs).out ≠ [] := by
    intro h; rw [h] at h3; exact hne h3.symm.eq_nil
  exact sorted_input_noop sortFn hn' hne' h2

/-- the stream after `k` consecutive runs of ovnisort with look-back `n` -/
def rerun (sortFn : List Ev → List Ev) (n : Nat) : Nat → List Ev → List Ev
  | 0, l => l
  | k + 1, l => rerun sortFn n k (winsort sortFn n l).out

/-- Third, fourth, … run: a sorted stream survives any number of runs
    unchanged and each of them exits 0. -/
theorem every_rerun_noop (sortFn : List Ev → List Ev) {n : Nat} (hn : 1 ≤ n) {evs : List Ev}
    (hne : evs ≠ []) (hsorted : Sorted evs) (k : Nat) :
    rerun sortFn n k evs = evs ∧ (winsort sortFn n (rerun sortFn n k evs)).status = Status.ok := by
  obtain ⟨h1, h2, _, _⟩ := sorted_input_noop sortFn hn hne hsorted
  induction k with
  | zero => exact ⟨rfl, h1⟩
  | succ k ih =>
    show rerun sortFn n k (winsort sortFn n evs).out = evs ∧
      (winsort sortFn n (rerun sortFn n k (winsort sortFn n evs).out)).status = Status.ok
    rw [h2]; exact ih

/-- `ovnisort -c` passes exactly on non-empty streams with non-decreasing clocks. -/
theorem streamCheck_iff (l : List Ev) : streamCheck l = true ↔ l ≠ [] ∧ Sorted l := by
  cases l with
  | nil => simp [streamCheck]
  | cons e t =>
    simp only [streamCheck, checkLoop_eq, Bool.not_false, Bool.true_and, ne_eq, reduceCtorEq,
      not_false_eq_true, true_and]
    constructor
    · intro h
      obtain ⟨h1, h2⟩ := chainOk_sorted h
      exact List.pairwise_cons.2 ⟨h2, h1⟩
    · intro h
      have h' := List.pairwise_cons.1 h
      exact chainOk_of_sorted h'.2 _ h'.1

/-- **check_passes.** After a successful sort, check mode passes. -/
theorem check_passes {sortFn : List Ev → List Ev} (hf : IsSort sortFn) {n : Nat} (hn : 1 ≤ n)
    {evs : List Ev} (hne : evs ≠ []) (hr : OnlyRegionsUnsorted evs) (hw : WithinWindow n evs)
    (hc : ClocksSigned evs) : streamCheck (winsort sortFn n evs).out = true := by
  obtain ⟨_, h2, h3⟩ := (winsort_main hf hn hne hr hc).1 hw
  rw [streamCheck_iff]
  exact ⟨fun h => by rw [h] at h3; exact hne h3.symm.eq_nil, h2⟩

/-- **emulator_accepts_sorted** (stream level): the emulator's `stream_step`
    (monotonic-clock test on int64 values) accepts every event of the result. -/
theorem emulator_accepts_sorted {sortFn : List Ev → List Ev} (hf : IsSort sortFn) {n : Nat} (hn : 1 ≤ n)
    {evs : List Ev} (hne : evs ≠ []) (hr : OnlyRegionsUnsorted evs) (hw : WithinWindow n evs)
    (hc : ClocksSigned evs) : emuStreamAccepts (winsort sortFn n evs).out = true := by
  obtain ⟨_, h2, h3⟩ := (winsort_main hf hn hne hr hc).1 hw
  have hs := h2.ssorted (fun e he => hc e (h3.mem_iff.1 he))
  unfold emuStreamAccepts
  cases hout : (winsort sortFn n evs).out with
  | nil => rfl
  | cons e l =>
    rw [hout] at hs
    unfold SSorted at hs
    rw [List.pairwise_cons] at hs
    exact stepsMonotone_of_ssorted hs.2 _ hs.1

/-- **fails_loudly**, structural part: when the region is not in place and
    `find_destination` finds nothing, `execute_sort_plan` reports an error and
    writes nothing … -/
theorem no_destination_is_error (sortFn : List Ev → List Ev) (buf : List Ev) (r : Ring) (opn bad0 : Nat)
    (c : Nat) (hc : c = (if minClock (clockAt buf bad0) (buf.drop bad0) < clockAt buf bad0
      then minClock (clockAt buf bad0) (buf.drop bad0) else clockAt buf bad0))
    (hip : regionInPlace buf opn = false)
    (h : findDestination buf r c = Dest.notFound) :
    executeSortPlan sortFn buf r opn bad0 = (Status.errNoDest, buf, r, none) := by
  subst hc
  rw [exec_notInPlace hip]
  unfold sortRegion
  simp only [h]

/-- … and an error inside the loop is the status of the whole run, never `ok`. -/
theorem step_error_is_final {sortFn : List Ev → List Ev} {trunc : Bool} {s : WS} {e : Ev} {rest : List Ev}
    {st : Status} {buf : List Ev} {pl : List (Nat × Nat)} (h : wsStep sortFn s e = .error (st, buf, pl)) :
    (wsLoop sortFn trunc s (e :: rest)).status = st ∧ st ≠ Status.ok :=
  wsLoop_error_status h

/-- **fails_loudly.** If the stream is otherwise as required but some region
    that is not in place has its destination outside the look-back window, ovnisort reports
    "cannot find destination" — it never exits successfully. -/
theorem fails_loudly {sortFn : List Ev → List Ev} (hf : IsSort sortFn) {n : Nat} (hn : 1 ≤ n)
    {evs : List Ev} (hne : evs ≠ []) (hr : OnlyRegionsUnsorted evs) (hc : ClocksSigned evs)
    (hw : ¬ WithinWindow n evs) : (winsort sortFn n evs).status = Status.errNoDest :=
  (winsort_main hf hn hne hr hc).2 hw

/-- Success is exactly the window condition. -/
theorem status_ok_iff {sortFn : List Ev → List Ev} (hf : IsSort sortFn) {n : Nat} (hn : 1 ≤ n)
    {evs : List Ev} (hne : evs ≠ []) (hr : OnlyRegionsUnsorted evs) (hc : ClocksSigned evs) :
    (winsort sortFn n evs).status = Status.ok ↔ WithinWindow n evs := by
  constructor
  · intro h
    apply Decidable.byContradiction
    intro hw
    rw [(winsort_main hf hn hne hr hc).2 hw] at h
    cases h
  · exact fun hw => ((winsort_main hf hn hne hr hc).1 hw).1

/-- `WithinWindow` is implied by the window condition on *every* non-empty
    region (the form of the precondition before in-place regions were
    exempted): the theorems above cover all streams they covered then. -/
theorem withinWindow_of_every_region {n : Nat} {evs : List Ev} (h : windowOkAll n St.S [] 0 evs = true) :
    WithinWindow n evs :=
  windowOk_of_all n evs St.S [] 0 true 0 h

/-- The hypotheses on `qsort` are satisfiable: insertion sort with `cmp_ev`. -/
theorem isort_is_stable_sort : IsSort isort ∧ Stable isort := ⟨isort_isSort, isort_stable⟩

/-! ### Non-vacuity: a concrete stream (look-back 7) -/

private def ev (c : Nat) (k : Kind := Kind.other) : Ev := ⟨c, 12, [], k⟩

/-- two regions; the second one reaches back in front of the first `OU]` -/
private def ex1 : List Ev :=
  [ev 0, ev 1 Kind.start, ev 2, ev 3, ev 4, ev 20 Kind.stop, ev 21 Kind.start, ev 10, ev 11, ev 12,
   ev 22 Kind.stop, ev 30]

example : ex1 ≠ [] ∧ OnlyRegionsUnsorted ex1 ∧ WithinWindow 7 ex1 ∧ ClocksSigned ex1 := by decide

example : (winsort isort 7 ex1).status = Status.ok ∧ (winsort isort 7 ex1).plans = [(4, 10)] ∧
    (winsort isort 7 ex1).out.map (·.clock) = [0, 1, 2, 3, 4, 10, 11, 12, 20, 21, 22, 30] := by decide

example : ¬ WithinWindow 6 ex1 ∧ (winsort isort 6 ex1).status = Status.errNoDest := by decide

/-- The defect that `region_in_place` repairs, on the code as it was: the
    first run with `-n 7` succeeds, the second run with `-n 7` on its
    (unchanged, sorted) result reports "cannot find destination" — the events
    moved in front of the first `OU]` made that region larger than the window
    (seen on the real tool before the fix). -/
theorem second_run_fails_before_fix :
    (winsortOld isort 7 ex1).status = Status.ok ∧
    Sorted (winsortOld isort 7 ex1).out ∧
    (winsortOld isort 7 (winsortOld isort 7 ex1).out).status = Status.errNoDest ∧
    (winsortOld isort 7 (winsortOld isort 7 ex1).out).out = (winsortOld isort 7 ex1).out := by decide

/-- … and on the code as it is: same first result, second and third run exit
    0 and change nothing. -/
theorem second_run_witness_fixed :
    (winsort isort 7 ex1).out = (winsortOld isort 7 ex1).out ∧
    (winsort isort 7 (winsort isort 7 ex1).out).status = Status.ok ∧
    (winsort isort 7 (winsort isort 7 ex1).out).out = (winsort isort 7 ex1).out ∧
    (winsort isort 7 (winsort isort 7 ex1).out).plans = [] ∧
    (winsort isort 7 (winsort isort 7 (winsort isort 7 ex1).out).out).status = Status.ok ∧
    (winsort isort 7 (winsort isort 7 (winsort isort 7 ex1).out).out).out = (winsort isort 7 ex1).out := by
  decide

/-- a sorted stream on which the old code failed at the *first* run (all
    clocks equal, more of them than the look-back 3): no event with a strictly
    smaller clock exists -/
private def ex2 : List Ev :=
  [ev 5, ev 5, ev 5, ev 5 Kind.start, ev 5, ev 5 Kind.stop, ev 6]

example : Sorted ex2 ∧ (winsortOld isort 3 ex2).status = Status.errNoDest ∧
    (winsort isort 3 ex2).status = Status.ok ∧ (winsort isort 3 ex2).out = ex2 := by decide

end Ovni.Props.C16
