import OvniModel.Lemmas.FsFault
import OvniModel.Lemmas.FsWitness
import OvniModel.Props.C09

/-!
# C10 — I/O faults are never silent

Model: `OvniModel/Rt/Fs.lean`, `faultAt`: the `i`-th libc call of the run fails
(errno class, or short count for write/fwrite/fputs), then the runtime does
what the C code does after that failure (`cont`).  Outcome: `die fs`
(abort()) or `returned fs`.

* `single_fault_not_silent_partial` — for every program, every call index,
  every fault kind: if the failing call is at a call site whose result the code
  checks (or whose failure is harmless: fclose(infile), remove, closedir,
  rmdir), then either the runtime aborts — and a complete copy of every
  thread's flushed bytes is still on disk — or it returns with the final trace
  of every freed thread complete.  In particular direct mode except
  `close(streamfd)`.
* `…_fails` — for the code as it stands the full statement is FALSE; one
  witness per unchecked call site:
  `close_streamfd_unchecked`, `move_opendir_failure_silent`,
  `move_readdir_failure_silent`, `move_ignores_copy_errors` (fwrite; fclose of
  the copy; fopen of the destination), the last ones destroying the only
  complete copy.
-/
set_option linter.unusedSimpArgs false
namespace Ovni.Props.C10
open Ovni.Rt Ovni.Rt.Fs
open Ovni.Props.C09 (WellFormed ReaddirOrder crashState)

/-- The final trace of thread `t` is complete: its stream.obs holds every byte
    the thread flushed, its stream.json is whole and says finished. -/
def Complete (C : Codec) (t : ThreadProg) (s : Fs) : Prop :=
  s.get (.file .fin t.tid .obs) = some (.file t.obsBytes []) ∧
  s.get (.file .fin t.tid .json) = some (.file (C.ser ⟨true, t.metaF⟩) []) ∧
  s.flushed t.tid = t.obsBytes

/-- Some tree still has a stream.obs with every byte thread `tid` flushed. -/
def CopyExists (s : Fs) (tid : Nat) : Prop :=
  s.flushed tid = [] ∨ ∃ r d pn, s.get (.file r tid .obs) = some (.file d pn) ∧ d = s.flushed tid

/-- The fault was not silent. -/
def NotSilent (C : Codec) (p : Prog) : Outcome → Prop
  | .die s => ∀ t ∈ p.threads, CopyExists s t.tid
  | .returned s => ∀ t ∈ p.threads, t.free = true → Complete C t s ∧ CopyExists s t.tid
  | .killed _ => False

theorem copyExists_iff (s : Fs) (tid : Nat) : CopyExists s tid ↔ NoLoss (viewOf s tid) := by
  unfold CopyExists NoLoss
  rw [Fs.flushed_eq]
  constructor
  · rintro (h | ⟨r, d, pn, h1, h2⟩)
    · exact Or.inl h
    · exact Or.inr ⟨r, d, pn, by cases r <;> exact h1, h2⟩
  · rintro (h | ⟨r, d, pn, h1, h2⟩)
    · exact Or.inl h
    · exact Or.inr ⟨r, d, pn, by cases r <;> exact h1, h2⟩

/-- After every prefix of the fault-free run a complete copy exists. -/
theorem copy_at_crash (C : Codec) (p : Prog) (hwf : WellFormed p) (hm : p.tmpMode = false ∨ ReaddirOrder p)
    (t : ThreadProg) (ht : t ∈ p.threads) (k : Nat) : CopyExists (crashState C p k) t.tid := by
  rw [copyExists_iff]
  obtain ⟨k', hk'⟩ := view_at_crash C.ser p t ht hwf k
  unfold crashState
  rw [hk']
  cases hp : p.tmpMode with
  | false => exact ((thread_direct C p t hp _ rfl).1 k').noLoss
  | true =>
    rcases hm with hm | hm
    · rw [hp] at hm; cases hm
    · exact (thread_tmp_noloss C p t hp (Witness.streamEntries_of_perm hm) _ rfl).1 k'

/-- The fault-free run leaves every freed thread complete. -/
theorem complete_at_end (C : Codec) (p : Prog) (hwf : WellFormed p) (hm : p.tmpMode = false ∨ ReaddirOrder p)
    (t : ThreadProg) (ht : t ∈ p.threads) (hf : t.free = true) :
    Complete C t (run p.init (ops (calls C.ser p))) := by
  have hv := view_at_end C.ser p t ht hwf
  have hd : vrun t.tid View.empty (ops (threadCalls C.ser p t)) = doneView C t := by
    cases hp : p.tmpMode with
    | false => exact (thread_direct C p t hp _ rfl).2 hf
    | true =>
      rcases hm with hm | hm
      · rw [hp] at hm; cases hm
      · exact (thread_tmp_noloss C p t hp (Witness.streamEntries_of_perm hm) _ rfl).2 hf
  rw [hd] at hv
  have h1 : (run p.init (ops (calls C.ser p))).get (.file .fin t.tid .obs) = F t.obsBytes := congrArg View.ofn hv
  have h2 : (run p.init (ops (calls C.ser p))).get (.file .fin t.tid .json) = F (C.ser ⟨true, t.metaF⟩) :=
    congrArg View.jf hv
  have h3 : (run p.init (ops (calls C.ser p))).get (.ghost t.tid) = F t.obsBytes := congrArg View.g hv
  exact ⟨h1, h2, by rw [Fs.flushed_eq, h3]; rfl⟩

theorem complete_copy {C : Codec} {t : ThreadProg} {s : Fs} (h : Complete C t s) : CopyExists s t.tid :=
  Or.inr ⟨.fin, _, [], h.1, h.2.2.symm⟩

/-- `Complete` only reads the final-tree entries and the ghost log. -/
theorem complete_congr {C : Codec} {t : ThreadProg} {s s' : Fs}
    (h : ∀ q, q.isLeaf = true → (∀ tid n, q ≠ .file .tmp tid n) → s'.get q = s.get q)
    (hc : Complete C t s) : Complete C t s' := by
  refine ⟨?_, ?_, ?_⟩
  · rw [h _ rfl (by simp)]; exact hc.1
  · rw [h _ rfl (by simp)]; exact hc.2.1
  · rw [Fs.flushed_eq, h _ rfl (by simp), ← Fs.flushed_eq]; exact hc.2.2

theorem returned_ok {C : Codec} {p : Prog} {s : Fs}
    (h : ∀ t ∈ p.threads, t.free = true → Complete C t s) : NotSilent C p (.returned s) :=
  fun t ht hf => ⟨h t ht hf, complete_copy (h t ht hf)⟩

/-! ### C10 -/

theorem single_fault_not_silent_partial (C : Codec) (p : Prog) (hwf : WellFormed p)
    (hm : p.tmpMode = false ∨ ReaddirOrder p) (i : Nat) (f : Fault) (kept : Nat)
    (hchk : ∀ c, (calls C.ser p)[i]? = some c → c.site.unchecked = false) :
    NotSilent C p (faultAt C.ser p i f kept) := by
  have hend : NotSilent C p (.returned (run p.init (ops (calls C.ser p)))) :=
    returned_ok (fun t ht hf => complete_at_end C p hwf hm t ht hf)
  unfold faultAt
  simp only
  cases hci : (calls C.ser p)[i]? with
  | none => exact hend
  | some c =>
    simp only
    by_cases hfire : fires c.op f = true
    case neg => rw [if_neg hfire]; exact hend
    rw [if_pos hfire, show Fs.run p.init (ops (List.take i (calls C.ser p))) = crashState C p i from rfl]
    have hck := hchk c hci
    have hmem : c ∈ calls C.ser p := List.mem_of_getElem? hci
    have hso := siteOk_calls C.ser p c hmem
    have hsplit : calls C.ser p = (calls C.ser p).take i ++ c :: (calls C.ser p).drop (i + 1) := by
      have hi : i < (calls C.ser p).length := by
        rcases Nat.lt_or_ge i (calls C.ser p).length with h | h
        · exact h
        · rw [List.getElem?_eq_none h] at hci; cases hci
      have hc : (calls C.ser p)[i] = c := by
        rw [List.getElem?_eq_getElem hi] at hci; exact Option.some.inj hci
      rw [← hc]
      exact (List.take_append_drop i _).symm.trans (by rw [List.drop_eq_getElem_cons hi])
    -- the fault-free run as: prefix, the call, the rest
    have hfull : run p.init (ops (calls C.ser p))
        = run (apply (crashState C p i) c.op) (ops ((calls C.ser p).drop (i + 1))) := by
      conv => lhs; rw [hsplit]
      rw [ops_append, ops_cons, run_append, run_cons]
      rfl
    -- abort with the file system unchanged outside stream.json files
    have die_ok : ∀ s', (∀ q, q.isLeaf = true → (∀ r t, q ≠ .file r t .json) → s'.get q = (crashState C p i).get q) →
        NotSilent C p (.die s') := by
      intro s' hs' t ht
      rw [copyExists_iff]
      exact noLoss_of_agree t.tid hs' ((copyExists_iff _ _).mp (copy_at_crash C p hwf hm t ht i))
    -- return with the final tree and the ghost logs as in the fault-free run
    have go_ok : ∀ s', (∀ q, q.isLeaf = true → (∀ tid n, q ≠ .file .tmp tid n) →
          s'.get q = (run p.init (ops (calls C.ser p))).get q) → NotSilent C p (.returned s') := by
      intro s' hs'
      exact returned_ok (fun t ht hf => complete_congr hs' (complete_at_end C p hwf hm t ht hf))
    unfold SiteOk at hso
    cases hs : c.site <;> simp only [hs, Site.unchecked] at hck hso <;> try (cases hck)
    · -- mkdirPath
      obtain ⟨x, hop⟩ := hso
      simp only [cont, hs, hop, ops_nil, run_nil]
      exact die_ok _ (fun q _ _ => by cases f <;> rfl)
    · -- statPath
      obtain ⟨x, hop⟩ := hso
      simp only [cont, hs, hop, ops_nil, run_nil]
      exact die_ok _ (fun q _ _ => by cases f <;> rfl)
    · -- openStream
      obtain ⟨r, t, hop⟩ := hso
      simp only [cont, hs, hop, ops_nil, run_nil]
      exact die_ok _ (fun q _ _ => by cases f <;> rfl)
    · -- writeStream
      obtain ⟨r, t, d, hop⟩ := hso
      cases f
      case short =>
        simp only [cont, hs, hop, applyFailed]
        apply go_ok
        intro q hq _
        rw [hfull, hop, ops_cons]
        exact get_short_write hq r t d _ _
      all_goals
        simp only [cont, hs, hop, ops_nil, run_nil]
        exact die_ok _ (fun q _ _ => rfl)
    · -- storeFopen
      obtain ⟨r, t, hop⟩ := hso
      simp only [cont, hs, hop, ops_nil, run_nil]
      exact die_ok _ (fun q _ _ => by cases f <;> rfl)
    · -- storeFputs: the fclose, then abort
      obtain ⟨r, t, d, hop⟩ := hso
      simp only [cont, hs, hop]
      apply die_ok
      intro q hq hj
      have hne : q ≠ .file r t .json := hj r t
      rw [ops_cons, ops_nil, get_run _ _ hq, evolve_cons, evolve_nil, effect_of_not_touch (by simp [touch, hne])]
      cases f
      case short =>
        simp only [applyFailed]
        rw [get_apply _ _ hq, effect_of_not_touch (by simp [touch, hne])]
      all_goals rfl
    · -- storeFclose
      obtain ⟨r, t, hop⟩ := hso
      simp only [cont, hs, hop, ops_nil, run_nil]
      apply die_ok
      intro q hq hj
      have hne : q ≠ .file r t .json := hj r t
      have : ∀ g, applyFailed (crashState C p i) kept (.fcloseW (.file r t .json)) g =
          match (crashState C p i).get (.file r t .json) with
          | some (.file disk pend) => (crashState C p i).set (.file r t .json) (.file (disk ++ pend.take kept) [])
          | _ => crashState C p i := by intro g; cases g <;> rfl
      rw [this]
      split
      · exact Fs.get_set_ne _ _ hne
      · rfl
    · -- moveFcloseIn: ignored, harmless
      obtain ⟨x, hop⟩ := hso
      simp only [cont, hs]
      apply go_ok
      intro q hq _
      have : applyFailed (crashState C p i) kept c.op f = crashState C p i := by rw [hop]; cases f <;> rfl
      rw [this, hfull]
      exact get_skip hq _ (by rw [hop]; simp [touch]) _
    · -- moveRemove: the source stays behind
      obtain ⟨t, n, hop⟩ := hso
      simp only [cont, hs]
      apply go_ok
      intro q hq hnt
      have : applyFailed (crashState C p i) kept c.op f = crashState C p i := by rw [hop]; cases f <;> rfl
      rw [this, hfull]
      exact get_skip hq _ (by rw [hop]; simp only [touch, List.mem_cons, List.not_mem_nil, or_false]; exact hnt t n) _
    · -- moveClosedir
      simp only [cont, hs]
      apply go_ok
      intro q hq _
      have : applyFailed (crashState C p i) kept c.op f = crashState C p i := by rw [hso]; cases f <;> rfl
      rw [this, hfull]
      exact get_skip hq _ (by rw [hso]; simp [touch]) _
    · -- cleanRmdir
      obtain ⟨x, hop, hx⟩ := hso
      simp only [cont, hs]
      apply go_ok
      intro q hq _
      have : applyFailed (crashState C p i) kept c.op f = crashState C p i := by rw [hop]; cases f <;> rfl
      rw [this, hfull]
      refine get_skip hq _ ?_ _
      rw [hop]; simp only [touch, List.mem_cons, List.not_mem_nil, or_false]
      intro e; subst e; rw [hq] at hx; cases hx

/-! ### the code as it stands: the full statement is false

-- OPEN: theorem single_fault_not_silent (C p) : WellFormed p → (p.tmpMode = false ∨ ReaddirOrder p) →
--         ∀ i f kept, NotSilent C p (faultAt C.ser p i f kept)
Refuted below at each call site whose failure the code ignores although data
did not reach its destination (`Site.unchecked`).  After a fix that checks
these results (abort, never unlink after a failed copy) the sites leave
`Site.unchecked` and the `_partial` theorem is the full one. -/

open Ovni.Rt.Fs.Witness

def Outcome.isReturned : Outcome → Bool
  | .returned _ => true
  | _ => false

theorem notSilent_returned {C : Codec} {p : Prog} {o : Outcome} (hr : Outcome.isReturned o = true)
    (h : NotSilent C p o) : ∀ t ∈ p.threads, t.free = true → Complete C t o.fs ∧ CopyExists o.fs t.tid := by
  cases o with
  | returned s => exact h
  | die s => cases hr
  | killed s => cases hr

instance (C : Codec) (t : ThreadProg) (s : Fs) : Decidable (Complete C t s) := by
  unfold Complete; infer_instance

def copyExistsB (s : Fs) (tid : Nat) : Bool :=
  s.flushed tid == [] ||
    [Root.tmp, Root.fin].any fun r =>
      match s.get (.file r tid .obs) with
      | some (.file d _) => d == s.flushed tid
      | _ => false

theorem copyExists_iff_B (s : Fs) (tid : Nat) : CopyExists s tid ↔ copyExistsB s tid = true := by
  unfold CopyExists copyExistsB
  simp only [Bool.or_eq_true, beq_iff_eq, List.any_cons, List.any_nil, Bool.or_false]
  constructor
  · rintro (h | ⟨r, d, pn, h1, h2⟩)
    · exact Or.inl h
    · right
      cases r
      · left; rw [h1]; simpa using h2
      · right; rw [h1]; simpa using h2
  · rintro (h | h | h)
    · exact Or.inl h
    · right
      split at h
      · rename_i d pn hg; exact ⟨.tmp, d, pn, hg, by simpa using h⟩
      · cases h
    · right
      split at h
      · rename_i d pn hg; exact ⟨.fin, d, pn, hg, by simpa using h⟩
      · cases h

instance (s : Fs) (tid : Nat) : Decidable (CopyExists s tid) :=
  decidable_of_iff _ (copyExists_iff_B s tid).symm

/-- Key `close-streamfd-unchecked` (direct mode): `close(streamfd)` reports a
    deferred write error, `ovni_thread_free` ignores it and returns; the final
    stream.obs lacks the last flush and no complete copy exists. -/
theorem close_streamfd_unchecked :
    ((calls wC.ser wDirect)[20]?).map (·.site) = some .closeStream ∧
    ¬ NotSilent wC wDirect (faultAt wC.ser wDirect 20 .eio) := by
  refine ⟨by decide, fun h => ?_⟩
  have := notSilent_returned (by decide) h wT (by decide) rfl
  revert this; decide

/-- Key `move-opendir-failure-silent`: `opendir(thdir)` fails, nothing is
    relocated, `ovni_thread_free` returns: the final trace has no stream. -/
theorem move_opendir_failure_silent :
    ((calls wC.ser wObsFirst)[31]?).map (·.site) = some .moveOpendir ∧
    ¬ NotSilent wC wObsFirst (faultAt wC.ser wObsFirst 31 .eacces) := by
  refine ⟨by decide, fun h => ?_⟩
  have := notSilent_returned (by decide) h wT (by decide) rfl
  revert this; decide

/-- Key `move-readdir-failure-silent`: `readdir` fails, the loop ends as if
    the directory were empty. -/
theorem move_readdir_failure_silent :
    ((calls wC.ser wObsFirst)[32]?).map (·.site) = some .moveReaddir ∧
    ¬ NotSilent wC wObsFirst (faultAt wC.ser wObsFirst 32 .eio) := by
  refine ⟨by decide, fun h => ?_⟩
  have := notSilent_returned (by decide) h wT (by decide) rfl
  revert this; decide

/-- Key `move-ignores-copy-errors`: the `fwrite` of the stream.obs copy fails
    (ENOSPC), the result is ignored, `remove(src)` follows: normal return, final
    stream.obs empty, and the only complete copy has been unlinked. -/
theorem move_ignores_copy_errors :
    ((calls wC.ser wObsFirst)[38]?).map (·.site) = some .moveFwrite ∧
    Outcome.isReturned (faultAt wC.ser wObsFirst 38 .enospc) = true ∧
    ¬ Complete wC wT (faultAt wC.ser wObsFirst 38 .enospc).fs ∧
    ¬ CopyExists (faultAt wC.ser wObsFirst 38 .enospc).fs 7 := by decide

/-- … the same when the `fclose` of the copy fails (its final flush). -/
theorem move_ignores_fclose_error :
    ((calls wC.ser wObsFirst)[40]?).map (·.site) = some .moveFcloseOut ∧
    Outcome.isReturned (faultAt wC.ser wObsFirst 40 .enospc) = true ∧
    ¬ Complete wC wT (faultAt wC.ser wObsFirst 40 .enospc).fs ∧
    ¬ CopyExists (faultAt wC.ser wObsFirst 40 .enospc).fs 7 := by decide

/-- … and when `fopen(dst)` fails: the source survives, but the runtime
    returns normally with the stream missing from the final trace. -/
theorem move_ignores_fopen_error :
    ((calls wC.ser wObsFirst)[36]?).map (·.site) = some .moveFopenDst ∧
    Outcome.isReturned (faultAt wC.ser wObsFirst 36 .eacces) = true ∧
    ¬ Complete wC wT (faultAt wC.ser wObsFirst 36 .eacces).fs ∧
    CopyExists (faultAt wC.ser wObsFirst 36 .eacces).fs 7 := by decide

theorem single_fault_not_silent_fails :
    ¬ ∀ (C : Codec) (p : Prog), WellFormed p → (p.tmpMode = false ∨ ReaddirOrder p) →
        ∀ i f kept, NotSilent C p (faultAt C.ser p i f kept) := by
  intro h
  exact close_streamfd_unchecked.2 (h wC wDirect (by unfold WellFormed; decide) (Or.inl rfl) 20 .eio 0)

/-! ### non-vacuity -/

/-- Checked sites exist and faults there do fire: a failing `write` aborts, a
    short one is retried and the run completes. -/
example : ((calls wC.ser wObsFirst)[25]?).map (·.site) = some .writeStream ∧
    Outcome.isReturned (faultAt wC.ser wObsFirst 25 .enospc) = false ∧
    Outcome.isReturned (faultAt wC.ser wObsFirst 25 .short) = true ∧
    Complete wC wT (faultAt wC.ser wObsFirst 25 .short).fs := by decide

/-- Direct mode: every call site but `close(streamfd)` is checked. -/
example : ∀ c ∈ calls wC.ser wDirect, c.site.unchecked = true → c.site = .closeStream := by decide

end Ovni.Props.C10
