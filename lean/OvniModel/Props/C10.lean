import OvniModel.Rt.Fs
namespace Ovni.Props.C10
theorem placeholder : True := trivial
end Ovni.Props.C10
