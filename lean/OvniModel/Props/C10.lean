import OvniModel.Lemmas.FsSpec

/-!
# C10 — I/O faults are never silent

Model: `OvniModel/Rt/Fs.lean` (statement definitions `Complete`, `CopyExists`, `NotSilent` in
`OvniModel/Rt/FsSpec.lean`), `faultAt`: the `i`-th libc call of the run fails
(errno class, or short count for write/fwrite/fputs), then the runtime does
what the C code does after that failure (`cont`).  Outcome: `die fs`
(abort()) or `returned fs`.

* `single_fault_not_silent_partial` — for every program, every call index,
  every fault kind: if the failing call is at a call site whose result the code
  checks (or whose failure is harmless: fclose(infile), remove, closedir,
  rmdir), then either the runtime aborts — and a complete copy of every
  thread's flushed bytes is still on disk — or it returns with the final trace
  of every freed thread complete.  In particular direct mode except
  `close(streamfd)`.
* `…_fails` — for the code as it stands the full statement is FALSE; one
  witness per unchecked call site:
  `close_streamfd_unchecked`, `move_opendir_failure_silent`,
  `move_readdir_failure_silent`, `move_ignores_copy_errors` (fwrite; fclose of
  the copy; fopen of the destination), the last ones destroying the only
  complete copy.
-/
set_option linter.unusedSimpArgs false
namespace Ovni.Props.C10
open Ovni.Rt Ovni.Rt.Fs

/-! ### C10 -/

theorem single_fault_not_silent_partial (C : Codec) (p : Prog) (hwf : WellFormed p)
    (hm : p.tmpMode = false ∨ ReaddirOrder p) (i : Nat) (f : Fault) (kept : Nat)
    (hchk : ∀ c, (calls C.ser p)[i]? = some c → c.site.unchecked = false) :
    NotSilent C p (faultAt C.ser p i f kept) := by
  have hend : NotSilent C p (.returned (run p.init (ops (calls C.ser p)))) :=
    returned_ok (fun t ht hf => complete_at_end C p hwf hm t ht hf)
  unfold faultAt
  simp only
  cases hci : (calls C.ser p)[i]? with
  | none => exact hend
  | some c =>
    simp only
    by_cases hfire : fires c.op f = true
    case neg => rw [if_neg hfire]; exact hend
    rw [if_pos hfire, show Fs.run p.init (ops (List.take i (calls C.ser p))) = crashState C p i from rfl]
    have hck := hchk c hci
    have hmem : c ∈ calls C.ser p := List.mem_of_getElem? hci
    have hso := siteOk_calls C.ser p c hmem
    have hsplit : calls C.ser p = (calls C.ser p).take i ++ c :: (calls C.ser p).drop (i + 1) := by
      have hi : i < (calls C.ser p).length := by
        rcases Nat.lt_or_ge i (calls C.ser p).length with h | h
        · exact h
        · rw [List.getElem?_eq_none h] at hci; cases hci
      have hc : (calls C.ser p)[i] = c := by
        rw [List.getElem?_eq_getElem hi] at hci; exact Option.some.inj hci
      rw [← hc]
      exact (List.take_append_drop i _).symm.trans (by rw [List.drop_eq_getElem_cons hi])
    -- the fault-free run as: prefix, the call, the rest
    have hfull : run p.init (ops (calls C.ser p))
        = run (apply (crashState C p i) c.op) (ops ((calls C.ser p).drop (i + 1))) := by
      conv => lhs; rw [hsplit]
      rw [ops_append, ops_cons, run_append, run_cons]
      rfl
    -- abort with the file system unchanged outside stream.json files
    have die_ok : ∀ s', (∀ q, q.isLeaf = true → (∀ r t, q ≠ .file r t .json) → s'.get q = (crashState C p i).get q) →
        NotSilent C p (.die s') := by
      intro s' hs' t ht
      rw [copyExists_iff]
      exact noLoss_of_agree t.tid hs' ((copyExists_iff _ _).mp (copy_at_crash C p hwf hm t ht i))
    -- return with the final tree and the ghost logs as in the fault-free run
    have go_ok : ∀ s', (∀ q, q.isLeaf = true → (∀ tid n, q ≠ .file .tmp tid n) →
          s'.get q = (run p.init (ops (calls C.ser p))).get q) → NotSilent C p (.returned s') := by
      intro s' hs'
      exact returned_ok (fun t ht hf => complete_congr hs' (complete_at_end C p hwf hm t ht hf))
    unfold SiteOk at hso
    cases hs : c.site <;> simp only [hs, Site.unchecked] at hck hso <;> try (cases hck)
    · -- mkdirPath
      obtain ⟨x, hop⟩ := hso
      simp only [cont, hs, hop, ops_nil, run_nil]
      exact die_ok _ (fun q _ _ => by cases f <;> rfl)
    · -- statPath
      obtain ⟨x, hop⟩ := hso
      simp only [cont, hs, hop, ops_nil, run_nil]
      exact die_ok _ (fun q _ _ => by cases f <;> rfl)
    · -- openStream
      obtain ⟨r, t, hop⟩ := hso
      simp only [cont, hs, hop, ops_nil, run_nil]
      exact die_ok _ (fun q _ _ => by cases f <;> rfl)
    · -- writeStream
      obtain ⟨r, t, d, hop⟩ := hso
      cases f
      case short =>
        simp only [cont, hs, hop, applyFailed]
        apply go_ok
        intro q hq _
        rw [hfull, hop, ops_cons]
        exact get_short_write hq r t d _ _
      all_goals
        simp only [cont, hs, hop, ops_nil, run_nil]
        exact die_ok _ (fun q _ _ => rfl)
    · -- storeFopen
      obtain ⟨r, t, hop⟩ := hso
      simp only [cont, hs, hop, ops_nil, run_nil]
      exact die_ok _ (fun q _ _ => by cases f <;> rfl)
    · -- storeFputs: the fclose, then abort
      obtain ⟨r, t, d, hop⟩ := hso
      simp only [cont, hs, hop]
      apply die_ok
      intro q hq hj
      have hne : q ≠ .file r t .json := hj r t
      rw [ops_cons, ops_nil, get_run _ _ hq, evolve_cons, evolve_nil, effect_of_not_touch (by simp [touch, hne])]
      cases f
      case short =>
        simp only [applyFailed]
        rw [get_apply _ _ hq, effect_of_not_touch (by simp [touch, hne])]
      all_goals rfl
    · -- storeFclose
      obtain ⟨r, t, hop⟩ := hso
      simp only [cont, hs, hop, ops_nil, run_nil]
      apply die_ok
      intro q hq hj
      have hne : q ≠ .file r t .json := hj r t
      have : ∀ g, applyFailed (crashState C p i) kept (.fcloseW (.file r t .json)) g =
          match (crashState C p i).get (.file r t .json) with
          | some (.file disk pend) => (crashState C p i).set (.file r t .json) (.file (disk ++ pend.take kept) [])
          | _ => crashState C p i := by intro g; cases g <;> rfl
      rw [this]
      split
      · exact Fs.get_set_ne _ _ hne
      · rfl
    · -- moveFcloseIn: ignored, harmless
      obtain ⟨x, hop⟩ := hso
      simp only [cont, hs]
      apply go_ok
      intro q hq _
      have : applyFailed (crashState C p i) kept c.op f = crashState C p i := by rw [hop]; cases f <;> rfl
      rw [this, hfull]
      exact get_skip hq _ (by rw [hop]; simp [touch]) _
    · -- moveRemove: the source stays behind
      obtain ⟨t, n, hop⟩ := hso
      simp only [cont, hs]
      apply go_ok
      intro q hq hnt
      have : applyFailed (crashState C p i) kept c.op f = crashState C p i := by rw [hop]; cases f <;> rfl
      rw [this, hfull]
      exact get_skip hq _ (by rw [hop]; simp only [touch, List.mem_cons, List.not_mem_nil, or_false]; exact hnt t n) _
    · -- moveClosedir
      simp only [cont, hs]
      apply go_ok
      intro q hq _
      have : applyFailed (crashState C p i) kept c.op f = crashState C p i := by rw [hso]; cases f <;> rfl
      rw [this, hfull]
      exact get_skip hq _ (by rw [hso]; simp [touch]) _
    · -- cleanRmdir
      obtain ⟨x, hop, hx⟩ := hso
      simp only [cont, hs]
      apply go_ok
      intro q hq _
      have : applyFailed (crashState C p i) kept c.op f = crashState C p i := by rw [hop]; cases f <;> rfl
      rw [this, hfull]
      refine get_skip hq _ ?_ _
      rw [hop]; simp only [touch, List.mem_cons, List.not_mem_nil, or_false]
      intro e; subst e; rw [hq] at hx; cases hx

/-- Direct mode (no OVNI_TMPDIR), the code as it stands: every single fault
    on any call other than `close(streamfd)` aborts or leaves a complete trace. -/
theorem single_fault_not_silent_direct (C : Codec) (p : Prog) (hwf : WellFormed p) (hp : p.tmpMode = false)
    (i : Nat) (f : Fault) (kept : Nat)
    (hclose : ∀ c, (calls C.ser p)[i]? = some c → c.site ≠ .closeStream) :
    NotSilent C p (faultAt C.ser p i f kept) := by
  apply single_fault_not_silent_partial C p hwf (Or.inl hp)
  intro c hc
  cases hu : c.site.unchecked with
  | false => rfl
  | true => exact absurd (direct_unchecked C.ser p hp c (List.mem_of_getElem? hc) hu) (hclose c hc)

/-- Without faults, no point of the run — in either mode, for either readdir
    order — is without a complete copy of what each thread has flushed
    (`remove(src)` only ever follows the completed copy). -/
theorem fault_free_run_keeps_a_complete_copy (C : Codec) (p : Prog) (hwf : WellFormed p)
    (hm : p.tmpMode = false ∨ ReaddirOrder p) (k : Nat) :
    ∀ t ∈ p.threads, CopyExists (crashState C p k) t.tid :=
  fun t ht => copy_at_crash C p hwf hm t ht k

/-! ### the code as it stands: the full statement is false

-- OPEN: theorem single_fault_not_silent (C p) : WellFormed p → (p.tmpMode = false ∨ ReaddirOrder p) →
--         ∀ i f kept, NotSilent C p (faultAt C.ser p i f kept)
Refuted below at each call site whose failure the code ignores although data
did not reach its destination (`Site.unchecked`).  After a fix that checks
these results (abort, never unlink after a failed copy) the sites leave
`Site.unchecked` and the `_partial` theorem is the full one. -/

open Ovni.Rt.Fs.Witness

/-- Key `close-streamfd-unchecked` (direct mode): `close(streamfd)` reports a
    deferred write error, `ovni_thread_free` ignores it and returns; the final
    stream.obs lacks the last flush and no complete copy exists. -/
theorem close_streamfd_unchecked :
    ((calls wC.ser wDirect)[20]?).map (·.site) = some .closeStream ∧
    ¬ NotSilent wC wDirect (faultAt wC.ser wDirect 20 .eio) := by
  refine ⟨by decide, fun h => ?_⟩
  have := notSilent_returned (by decide) h wT (by decide) rfl
  revert this; decide

/-- Key `move-opendir-failure-silent`: `opendir(thdir)` fails, nothing is
    relocated, `ovni_thread_free` returns: the final trace has no stream. -/
theorem move_opendir_failure_silent :
    ((calls wC.ser wObsFirst)[31]?).map (·.site) = some .moveOpendir ∧
    ¬ NotSilent wC wObsFirst (faultAt wC.ser wObsFirst 31 .eacces) := by
  refine ⟨by decide, fun h => ?_⟩
  have := notSilent_returned (by decide) h wT (by decide) rfl
  revert this; decide

/-- Key `move-readdir-failure-silent`: `readdir` fails, the loop ends as if
    the directory were empty. -/
theorem move_readdir_failure_silent :
    ((calls wC.ser wObsFirst)[32]?).map (·.site) = some .moveReaddir ∧
    ¬ NotSilent wC wObsFirst (faultAt wC.ser wObsFirst 32 .eio) := by
  refine ⟨by decide, fun h => ?_⟩
  have := notSilent_returned (by decide) h wT (by decide) rfl
  revert this; decide

/-- Key `move-ignores-copy-errors`: the `fwrite` of the stream.obs copy fails
    (ENOSPC), the result is ignored, `remove(src)` follows: normal return, final
    stream.obs empty, and the only complete copy has been unlinked. -/
theorem move_ignores_copy_errors :
    ((calls wC.ser wObsFirst)[38]?).map (·.site) = some .moveFwrite ∧
    Outcome.isReturned (faultAt wC.ser wObsFirst 38 .enospc) = true ∧
    ¬ Complete wC wT (faultAt wC.ser wObsFirst 38 .enospc).fs ∧
    ¬ CopyExists (faultAt wC.ser wObsFirst 38 .enospc).fs 7 := by decide

/-- … the same when the `fclose` of the copy fails (its final flush). -/
theorem move_ignores_fclose_error :
    ((calls wC.ser wObsFirst)[40]?).map (·.site) = some .moveFcloseOut ∧
    Outcome.isReturned (faultAt wC.ser wObsFirst 40 .enospc) = true ∧
    ¬ Complete wC wT (faultAt wC.ser wObsFirst 40 .enospc).fs ∧
    ¬ CopyExists (faultAt wC.ser wObsFirst 40 .enospc).fs 7 := by decide

/-- … and when `fopen(dst)` fails: the source survives, but the runtime
    returns normally with the stream missing from the final trace. -/
theorem move_ignores_fopen_error :
    ((calls wC.ser wObsFirst)[36]?).map (·.site) = some .moveFopenDst ∧
    Outcome.isReturned (faultAt wC.ser wObsFirst 36 .eacces) = true ∧
    ¬ Complete wC wT (faultAt wC.ser wObsFirst 36 .eacces).fs ∧
    CopyExists (faultAt wC.ser wObsFirst 36 .eacces).fs 7 := by decide

theorem single_fault_not_silent_fails :
    ¬ ∀ (C : Codec) (p : Prog), WellFormed p → (p.tmpMode = false ∨ ReaddirOrder p) →
        ∀ i f kept, NotSilent C p (faultAt C.ser p i f kept) := by
  intro h
  exact close_streamfd_unchecked.2 (h wC wDirect (by unfold WellFormed; decide) (Or.inl rfl) 20 .eio 0)

/-! ### non-vacuity -/

/-- Checked sites exist and faults there do fire: a failing `write` aborts, a
    short one is retried and the run completes. -/
example : ((calls wC.ser wObsFirst)[25]?).map (·.site) = some .writeStream ∧
    Outcome.isReturned (faultAt wC.ser wObsFirst 25 .enospc) = false ∧
    Outcome.isReturned (faultAt wC.ser wObsFirst 25 .short) = true ∧
    Complete wC wT (faultAt wC.ser wObsFirst 25 .short).fs := by decide

/-- Direct mode: every call site but `close(streamfd)` is checked. -/
example : ∀ c ∈ calls wC.ser wDirect, c.site.unchecked = true → c.site = .closeStream := by decide

end Ovni.Props.C10
