import OvniModel.Lemmas.FsSpec
import OvniModel.Lemmas.FsWitness

/-!
# C10 — I/O faults are never silent

Model: `OvniModel/Rt/Fs.lean` (the code after `fix: check the relocation and
close(streamfd)` and `fix: relocate stream.obs before stream.json`; statement
definitions `Complete`, `CopyExists`, `NotSilent` in `OvniModel/Rt/FsSpec.lean`),
`faultAt`: the `i`-th libc call of the run fails (errno class, or short count
for write/fwrite/fputs), then the runtime does what the C code does after that
failure (`cont`).  Outcome: `die fs` (abort()) or `returned fs`.

* `single_fault_not_silent` — for every program (both modes), every call
  index, every fault kind: either the runtime aborts — and a complete copy of
  every thread's flushed bytes is still on disk, unless the failing call is
  `close(streamfd)` itself reporting the loss of the last write — or it
  returns with the final trace of every freed thread complete.
* `fault_free_run_keeps_a_complete_copy` — no point of a fault-free run is
  without a complete copy of what each thread flushed.
* `…_before_fix` — the code before the fix (`Rt/FsOld.lean`) violated the
  statement at each call site whose result it ignored: `close_streamfd_unchecked`,
  `move_opendir_failure_silent`, `move_readdir_failure_silent`,
  `move_ignores_copy_errors` (fwrite; fclose of the copy; fopen of the
  destination) — the keys checks/c10.py reports on the unpatched library.
-/
set_option linter.unusedSimpArgs false
namespace Ovni.Props.C10
open Ovni.Rt Ovni.Rt.Fs

/-! ### C10 -/

theorem single_fault_not_silent (C : Codec) (p : Prog) (hwf : WellFormed p) (i : Nat) (f : Fault) (kept : Nat) :
    NotSilent C p (siteAt (calls C.ser p) i) (faultAt C.ser p i f kept) := by
  have hend : ∀ fl, NotSilent C p fl (.returned (run p.init (ops (calls C.ser p)))) :=
    fun _ => returned_ok (fun t ht hf => complete_at_end C p hwf t ht hf)
  unfold faultAt
  simp only
  cases hci : (calls C.ser p)[i]? with
  | none => exact hend _
  | some c =>
    simp only
    by_cases hfire : fires c.op f = true
    case neg => rw [if_neg hfire]; exact hend _
    rw [if_pos hfire, show Fs.run p.init (ops (List.take i (calls C.ser p))) = crashState C p i from rfl]
    have hsite : siteAt (calls C.ser p) i = some c.site := by simp [siteAt, hci]
    rw [hsite]
    have hmem : c ∈ calls C.ser p := List.mem_of_getElem? hci
    have hso := siteOk_calls C.ser p c hmem
    have hopi : (ops (calls C.ser p))[i]? = some c.op := by simp [ops, hci]
    have hsplit : calls C.ser p = (calls C.ser p).take i ++ c :: (calls C.ser p).drop (i + 1) := by
      have hi : i < (calls C.ser p).length := by
        rcases Nat.lt_or_ge i (calls C.ser p).length with h | h
        · exact h
        · rw [List.getElem?_eq_none h] at hci; cases hci
      have hc : (calls C.ser p)[i] = c := by
        rw [List.getElem?_eq_getElem hi] at hci; exact Option.some.inj hci
      rw [← hc]
      exact (List.take_append_drop i _).symm.trans (by rw [List.drop_eq_getElem_cons hi])
    -- the fault-free run as: prefix, the call, the rest
    have hfull : run p.init (ops (calls C.ser p))
        = run (apply (crashState C p i) c.op) (ops ((calls C.ser p).drop (i + 1))) := by
      conv => lhs; rw [hsplit]
      rw [ops_append, ops_cons, run_append, run_cons]
      rfl
    -- abort with the file system unchanged outside stream.json files
    have die_ok : ∀ s', (∀ q, q.isLeaf = true → (∀ r t, q ≠ .file r t .json) → s'.get q = (crashState C p i).get q) →
        ∀ fl, NotSilent C p fl (.die s') := by
      intro s' hs' fl
      right
      intro t ht
      rw [copyExists_iff]
      exact noLoss_of_agree t.tid hs' ((copyExists_iff _ _).mp (copy_at_crash C p hwf t ht i))
    -- abort after calls that only touch the destination file `fin t n`, moving pending bytes to its disk part
    have die_dst : ∀ s' t n, (∀ q, q.isLeaf = true → q ≠ .file .fin t n → s'.get q = (crashState C p i).get q) →
        (∀ d pn, (crashState C p i).get (.file .fin t n) = some (.file d pn) →
          ∃ x pn', x <+: pn ∧ s'.get (.file .fin t n) = some (.file (d ++ x) pn')) →
        ∀ fl, NotSilent C p fl (.die s') := by
      intro s' t n hagree hfin fl
      right
      intro t' ht'
      apply copy_after_die (crashState C p i) s' t'.tid (tinv_at_crash C p hwf t' ht' i).kept
      · exact hagree _ rfl (by simp)
      · exact hagree _ rfl (by simp)
      · intro d pn hd
        by_cases he : (Path.file .fin t'.tid .obs) = .file .fin t n
        · rw [he] at hd ⊢; exact hfin d pn hd
        · exact ⟨[], pn, List.nil_prefix, by rw [hagree _ rfl he, hd, List.append_nil]⟩
    -- return with the final tree and the ghost logs as in the fault-free run
    have go_ok : ∀ s', (∀ q, q.isLeaf = true → (∀ tid n, q ≠ .file .tmp tid n) →
          s'.get q = (run p.init (ops (calls C.ser p))).get q) → ∀ fl, NotSilent C p fl (.returned s') := by
      intro s' hs' fl
      exact returned_ok (fun t ht hf => complete_congr hs' (complete_at_end C p hwf t ht hf))
    unfold SiteOk at hso
    cases hs : c.site <;> simp only [hs] at hso
    · -- mkdirPath
      obtain ⟨x, hop⟩ := hso
      simp only [cont, hs, hop, ops_nil, run_nil]
      exact die_ok _ (fun q _ _ => by cases f <;> rfl) _
    · -- statPath
      obtain ⟨x, hop⟩ := hso
      simp only [cont, hs, hop, ops_nil, run_nil]
      exact die_ok _ (fun q _ _ => by cases f <;> rfl) _
    · -- openStream
      obtain ⟨r, t, hop⟩ := hso
      simp only [cont, hs, hop, ops_nil, run_nil]
      exact die_ok _ (fun q _ _ => by cases f <;> rfl) _
    · -- writeStream
      obtain ⟨r, t, d, hop⟩ := hso
      cases f
      case short =>
        simp only [cont, hs, hop, applyFailed]
        refine go_ok _ ?_ _
        intro q hq _
        rw [hfull, hop, ops_cons]
        exact get_short_write hq r t d _ _
      all_goals
        simp only [cont, hs, hop, ops_nil, run_nil]
        exact die_ok _ (fun q _ _ => rfl) _
    · -- storeFopen
      obtain ⟨r, t, hop⟩ := hso
      simp only [cont, hs, hop, ops_nil, run_nil]
      exact die_ok _ (fun q _ _ => by cases f <;> rfl) _
    · -- storeFputs: the fclose, then abort
      obtain ⟨r, t, d, hop⟩ := hso
      simp only [cont, hs, hop]
      refine die_ok _ ?_ _
      intro q hq hj
      have hne : q ≠ .file r t .json := hj r t
      rw [ops_cons, ops_nil, get_run _ _ hq, evolve_cons, evolve_nil, effect_of_not_touch (by simp [touch, hne])]
      cases f
      case short =>
        simp only [applyFailed]
        rw [get_apply _ _ hq, effect_of_not_touch (by simp [touch, hne])]
      all_goals rfl
    · -- storeFclose
      obtain ⟨r, t, hop⟩ := hso
      simp only [cont, hs, hop, ops_nil, run_nil]
      refine die_ok _ ?_ _
      intro q hq hj
      have hne : q ≠ .file r t .json := hj r t
      have : ∀ g, applyFailed (crashState C p i) kept (.fcloseW (.file r t .json)) g =
          match (crashState C p i).get (.file r t .json) with
          | some (.file disk pend) => (crashState C p i).set (.file r t .json) (.file (disk ++ pend.take kept) [])
          | _ => crashState C p i := by intro g; cases g <;> rfl
      rw [this]
      split
      · exact Fs.get_set_ne _ _ hne
      · rfl
    · -- closeStream: the failed close is itself the loss; abort
      simp only [cont, hs]
      exact Or.inl rfl
    · -- moveFopenSrc
      obtain ⟨x, hop⟩ := hso
      simp only [cont, hs, hop, ops_nil, run_nil]
      exact die_ok _ (fun q _ _ => by cases f <;> rfl) _
    · -- moveFopenDst: fclose(infile), abort
      obtain ⟨t, n, hop⟩ := hso
      simp only [cont, hs, hop]
      refine die_ok _ ?_ _
      intro q hq _
      rw [ops_cons, ops_nil, get_run _ _ hq, evolve_cons, evolve_nil, effect_of_not_touch (by simp [touch])]
      cases f <;> rfl
    · -- moveFread: both fclose, abort
      obtain ⟨t, n, k, hop⟩ := hso
      simp only [cont, hs, hop]
      have hS : applyFailed (crashState C p i) kept (.fread (.file .tmp t n) k) f = crashState C p i := by cases f <;> rfl
      rw [hS]
      refine die_dst _ t n ?_ ?_ _
      · intro q hq hne
        rw [ops_cons, ops_cons, ops_nil, get_run _ _ hq, evolve_cons, evolve_cons, evolve_nil,
          effect_of_not_touch (by simp [touch, hne]), effect_of_not_touch (by simp [touch, hne])]
      · intro d pn hd
        refine ⟨pn, [], List.prefix_refl _, ?_⟩
        rw [ops_cons, ops_cons, ops_nil, get_run _ _ rfl, evolve_cons, evolve_cons, evolve_nil, hd,
          effect_of_not_touch (by simp [touch])]
        simp [effect, flushPend]
    · -- moveFwrite: break, both fclose, abort
      obtain ⟨t, n, d0, hop⟩ := hso
      simp only [cont, hs, hop]
      right
      intro t' ht'
      by_cases he : (Path.file .fin t'.tid .obs) = .file .fin t n
      · -- the copy of this thread's stream.obs: its source is intact
        have hk := fwrite_obs_at C p hwf t' ht' i d0 (by rw [hopi, hop, he])
        apply copy_after_die_tmp (crashState C p i) _ t'.tid hk
        · rw [ops_cons, ops_cons, ops_nil, get_run _ _ rfl, evolve_cons, evolve_cons, evolve_nil,
            effect_of_not_touch (by simp [touch]), effect_of_not_touch (by simp [touch])]
          cases f
          case short => simp only [applyFailed]; rw [get_apply _ _ rfl, effect_of_not_touch (by simp [touch])]
          all_goals rfl
        · rw [ops_cons, ops_cons, ops_nil, get_run _ _ rfl, evolve_cons, evolve_cons, evolve_nil,
            effect_of_not_touch (by simp [touch]), effect_of_not_touch (by simp [touch])]
          cases f
          case short => simp only [applyFailed]; rw [get_apply _ _ rfl, effect_of_not_touch (by simp [touch])]
          all_goals rfl
      · have agree : ∀ q, q.isLeaf = true → q ≠ .file .fin t n →
            (run (applyFailed (crashState C p i) kept (.fwrite (.file .fin t n) d0) f)
              (ops [⟨.moveFcloseOut, c.grp, .fcloseW (.file .fin t n)⟩, ⟨.moveFcloseIn, c.grp, .fcloseR (.file .tmp t n)⟩])).get q
            = (crashState C p i).get q := by
          intro q hq hne
          rw [ops_cons, ops_cons, ops_nil, get_run _ _ hq, evolve_cons, evolve_cons, evolve_nil,
            effect_of_not_touch (by simp [touch, hne]), effect_of_not_touch (by simp [touch, hne])]
          cases f
          case short => simp only [applyFailed]; rw [get_apply _ _ hq, effect_of_not_touch (by simp [touch, hne])]
          all_goals rfl
        apply copy_after_die (crashState C p i) _ t'.tid (tinv_at_crash C p hwf t' ht' i).kept
        · exact agree _ rfl (by simp)
        · exact agree _ rfl (by simp)
        · intro d pn hd
          exact ⟨[], pn, List.nil_prefix, by rw [agree _ rfl he, hd, List.append_nil]⟩
    · -- moveFcloseOut: fclose(infile), abort
      obtain ⟨t, n, hop⟩ := hso
      simp only [cont, hs, hop]
      have hS : ∀ g, applyFailed (crashState C p i) kept (.fcloseW (.file .fin t n)) g =
          match (crashState C p i).get (.file .fin t n) with
          | some (.file disk pend) => (crashState C p i).set (.file .fin t n) (.file (disk ++ pend.take kept) [])
          | _ => crashState C p i := by intro g; cases g <;> rfl
      refine die_dst _ t n ?_ ?_ _
      · intro q hq hne
        rw [ops_cons, ops_nil, get_run _ _ hq, evolve_cons, evolve_nil, effect_of_not_touch (by simp [touch]), hS]
        split
        · exact Fs.get_set_ne _ _ hne
        · rfl
      · intro d pn hd
        refine ⟨pn.take kept, [], List.take_prefix _ _, ?_⟩
        rw [ops_cons, ops_nil, get_run _ _ rfl, evolve_cons, evolve_nil, effect_of_not_touch (by simp [touch]), hS, hd]
        simp
    · -- moveFcloseIn: ignored, harmless
      obtain ⟨x, hop⟩ := hso
      simp only [cont, hs]
      refine go_ok _ ?_ _
      intro q hq _
      have : applyFailed (crashState C p i) kept c.op f = crashState C p i := by rw [hop]; cases f <;> rfl
      rw [this, hfull]
      exact get_skip hq _ (by rw [hop]; simp [touch]) _
    · -- moveRemove: abort, both copies exist
      obtain ⟨t, n, hop⟩ := hso
      simp only [cont, hs, hop, ops_nil, run_nil]
      exact die_ok _ (fun q _ _ => by cases f <;> rfl) _
    · -- cleanRmdir
      obtain ⟨x, hop, hx⟩ := hso
      simp only [cont, hs]
      refine go_ok _ ?_ _
      intro q hq _
      have : applyFailed (crashState C p i) kept c.op f = crashState C p i := by rw [hop]; cases f <;> rfl
      rw [this, hfull]
      refine get_skip hq _ ?_ _
      rw [hop]; simp only [touch, List.mem_cons, List.not_mem_nil, or_false]
      intro e; subst e; rw [hq] at hx; cases hx

/-- Without faults, no point of the run — in either mode — is without a
    complete copy of what each thread has flushed (`remove(src)` only ever
    follows the completed copy). -/
theorem fault_free_run_keeps_a_complete_copy (C : Codec) (p : Prog) (hwf : WellFormed p) (k : Nat) :
    ∀ t ∈ p.threads, CopyExists (crashState C p k) t.tid :=
  fun t ht => copy_at_crash C p hwf t ht k

/-! ### the code before the fix violated the statement

One witness per call site whose failure the old code (`Rt/FsOld.lean`) ignored
although data did not reach its destination (`Old.unchecked`). -/

open Ovni.Rt.Fs.Witness

/-- Key `close-streamfd-unchecked` (direct mode): `close(streamfd)` reports a
    deferred write error, the old `ovni_thread_free` ignored it and returned;
    the final stream.obs lacks the last flush and no complete copy exists. -/
theorem close_streamfd_unchecked :
    siteAt (Old.calls wC.ser wDirect) 20 = some .closeStream ∧
    Outcome.isReturned (Old.faultAt wC.ser wDirect 20 .eio) = true ∧
    ¬ Complete wC wT (Old.faultAt wC.ser wDirect 20 .eio).fs ∧
    ¬ CopyExists (Old.faultAt wC.ser wDirect 20 .eio).fs 7 := by decide

/-- Key `move-opendir-failure-silent`: `opendir(thdir)` fails, nothing is
    relocated, the old `ovni_thread_free` returned: the final trace has no stream. -/
theorem move_opendir_failure_silent :
    siteAt (Old.calls wC.ser wObsFirst) 31 = some .moveOpendir ∧
    Outcome.isReturned (Old.faultAt wC.ser wObsFirst 31 .eacces) = true ∧
    ¬ Complete wC wT (Old.faultAt wC.ser wObsFirst 31 .eacces).fs := by decide

/-- Key `move-readdir-failure-silent`: `readdir` fails, the old loop ended as
    if the directory were empty. -/
theorem move_readdir_failure_silent :
    siteAt (Old.calls wC.ser wObsFirst) 32 = some .moveReaddir ∧
    Outcome.isReturned (Old.faultAt wC.ser wObsFirst 32 .eio) = true ∧
    ¬ Complete wC wT (Old.faultAt wC.ser wObsFirst 32 .eio).fs := by decide

/-- Key `move-ignores-copy-errors`: the `fwrite` of the stream.obs copy fails
    (ENOSPC), the result was ignored, `remove(src)` followed: normal return, final
    stream.obs empty, and the only complete copy has been unlinked. -/
theorem move_ignores_copy_errors :
    siteAt (Old.calls wC.ser wObsFirst) 38 = some .moveFwrite ∧
    Outcome.isReturned (Old.faultAt wC.ser wObsFirst 38 .enospc) = true ∧
    ¬ Complete wC wT (Old.faultAt wC.ser wObsFirst 38 .enospc).fs ∧
    ¬ CopyExists (Old.faultAt wC.ser wObsFirst 38 .enospc).fs 7 := by decide

/-- … the same when the `fclose` of the copy fails (its final flush). -/
theorem move_ignores_fclose_error :
    siteAt (Old.calls wC.ser wObsFirst) 40 = some .moveFcloseOut ∧
    Outcome.isReturned (Old.faultAt wC.ser wObsFirst 40 .enospc) = true ∧
    ¬ Complete wC wT (Old.faultAt wC.ser wObsFirst 40 .enospc).fs ∧
    ¬ CopyExists (Old.faultAt wC.ser wObsFirst 40 .enospc).fs 7 := by decide

/-- … and when `fopen(dst)` fails: the source survives, but the old runtime
    returned normally with the stream missing from the final trace. -/
theorem move_ignores_fopen_error :
    siteAt (Old.calls wC.ser wObsFirst) 36 = some .moveFopenDst ∧
    Outcome.isReturned (Old.faultAt wC.ser wObsFirst 36 .eacces) = true ∧
    ¬ Complete wC wT (Old.faultAt wC.ser wObsFirst 36 .eacces).fs ∧
    CopyExists (Old.faultAt wC.ser wObsFirst 36 .eacces).fs 7 := by decide

theorem single_fault_not_silent_before_fix :
    ¬ ∀ (C : Codec) (p : Prog), WellFormed p → (p.tmpMode = false ∨ ReaddirOrder p) →
        ∀ i f kept, NotSilent C p (siteAt (Old.calls C.ser p) i) (Old.faultAt C.ser p i f kept) := by
  intro h
  have h1 := h wC wObsFirst (by unfold WellFormed; decide) (Or.inr (by unfold ReaddirOrder; decide)) 38 .enospc 0
  have := notSilent_returned (by decide) h1 wT (by decide) rfl
  revert this; decide

/-! ### the same faults on the code after the fix, and non-vacuity -/

/-- The witnesses above, replayed on the present code: every one aborts, and
    a complete copy is left (for `close`, the injected fault is itself the loss). -/
example :
    siteAt (calls wC.ser wDirect) 20 = some .closeStream ∧
    Outcome.isReturned (faultAt wC.ser wDirect 20 .eio) = false ∧
    siteAt (calls wC.ser wObsFirst) 34 = some .moveFwrite ∧
    Outcome.isReturned (faultAt wC.ser wObsFirst 34 .enospc) = false ∧
    CopyExists (faultAt wC.ser wObsFirst 34 .enospc).fs 7 ∧
    CopyExists (faultAt wC.ser wObsFirst 34 .short).fs 7 ∧
    siteAt (calls wC.ser wObsFirst) 36 = some .moveFcloseOut ∧
    Outcome.isReturned (faultAt wC.ser wObsFirst 36 .enospc) = false ∧
    CopyExists (faultAt wC.ser wObsFirst 36 .enospc).fs 7 := by decide

/-- A failing `write` aborts, a short one is retried and the run completes. -/
example : siteAt (calls wC.ser wObsFirst) 25 = some .writeStream ∧
    Outcome.isReturned (faultAt wC.ser wObsFirst 25 .enospc) = false ∧
    Outcome.isReturned (faultAt wC.ser wObsFirst 25 .short) = true ∧
    Complete wC wT (faultAt wC.ser wObsFirst 25 .short).fs := by decide

end Ovni.Props.C10
