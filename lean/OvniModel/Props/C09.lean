import OvniModel.Rt.Fs
namespace Ovni.Props.C09
theorem placeholder : True := trivial
end Ovni.Props.C09
