import OvniModel.Lemmas.FsSched
import OvniModel.Lemmas.FsWitness
import OvniModel.Lemmas.FsBuffer
import OvniModel.Lemmas.FsJsonCodec

/-!
# C09 — crash consistency

Model: `OvniModel/Rt/Fs.lean` (the code after `fix: relocate stream.obs before
stream.json` and `fix: check the relocation and close(streamfd)`); statement
definitions (`crashState`, `CrashConsistent`, `FinishedAfterData`, `WellFormed`,
`Schedule`): `OvniModel/Rt/FsSpec.lean`.  The process is killed when `k` of the
libc calls of the run have completed; what a reader then finds in a file is its
on-disk bytes plus *any* prefix of the bytes still in the stdio buffer
(`Fs.visible … cut`).  `accepts` is (a superset of) what `ovniemu` accepts:
every stream.json found parses with `finished = 1`, its stream.obs has the
header, tiles into events and leaves the thread dead.

* `crash_consistent` — every program, direct or OVNI_TMPDIR mode, every crash
  point, every stdio state, both trees: accepted ⇒ every visible stream holds
  exactly the bytes its thread has flushed.
* `finished_after_data` — finished = 1 visible in the final tree ⇒ the final
  stream.obs is complete.
* `…_any_schedule` — both for every interleaving of the calls of several threads.
* `…_parson` — the same with the `Codec` parameter instantiated by the parson
  model (`Lemmas/FsJsonCodec.jsonCodec`): its two hypotheses — a serialized
  `stream.json` parses back, **no proper prefix of it parses** — are theorems
  (`Props/Json.roundtrip`, `Props/Json.truncation_rejected`), no longer assumptions.
* `crash_consistent_before_fix`, `finished_after_data_before_fix` — for the code
  before the fix (`Rt/FsOld.lean`: files relocated in readdir order) both
  statements are FALSE: witness with stream.json relocated first (key
  `tmpdir-json-before-obs`, replayed on libovni by checks/c09.py).
-/
namespace Ovni.Props.C09
open Ovni.Rt Ovni.Rt.Fs

/-! ### C09 -/

theorem crash_consistent (E : EmuCfg) (C : Codec) (p : Prog) (hwf : WellFormed p) : CrashConsistent E C p := by
  intro k cut r hacc
  refine crash_consistent_of_inv E C p _ (fun t ht r => ?_) (fun τ h => view_of_stranger C.ser p τ h k) cut r hacc
  have inv := tinv_at_crash C p hwf t ht k
  cases r
  · exact inv.safeT
  · exact inv.safeF

theorem finished_after_data (C : Codec) (p : Prog) (hwf : WellFormed p) : FinishedAfterData C p := by
  intro k cut t ht j hj hfin
  exact finished_after_data_of_inv C t _ (tinv_at_crash C p hwf t ht k).fad cut j hj hfin

/-- The same for every interleaving of the threads' calls (`Schedule`): the
    calls of different threads touch disjoint files, so a thread's stream only
    depends on how far that thread got. -/
theorem crash_consistent_any_schedule (E : EmuCfg) (C : Codec) (p : Prog) (L : List FOp)
    (hL : Schedule C.ser p L) (hwf : WellFormed p) : CrashConsistentS E C p L := by
  intro k cut r hacc
  refine crash_consistent_of_inv E C p _ (fun t ht r => ?_) (fun τ h => view_of_stranger_sched C.ser p L hL τ h k)
    cut r hacc
  have inv := tinv_at_crash_sched C p L hL hwf t ht k
  cases r
  · exact inv.safeT
  · exact inv.safeF

theorem finished_after_data_any_schedule (C : Codec) (p : Prog) (L : List FOp)
    (hL : Schedule C.ser p L) (hwf : WellFormed p) : FinishedAfterDataS C p L := by
  intro k cut t ht j hj hfin
  exact finished_after_data_of_inv C t _ (tinv_at_crash_sched C p L hL hwf t ht k).fad cut j hj hfin

/-! ### with parson as modelled in `OvniModel/Json.lean` (no hypothesis on the JSON library left) -/

/-- `crash_consistent` for `json_serialize_to_file_pretty` /
    `json_parse_file_with_comments` themselves: what a kill leaves of a
    `stream.json` is a prefix of the serialized text, and the parson model
    refuses every proper prefix (`Props/Json.truncation_rejected`). -/
theorem crash_consistent_parson (E : EmuCfg) (p : Prog) (hwf : WellFormed p) : CrashConsistent E jsonCodec p :=
  crash_consistent E jsonCodec p hwf

theorem finished_after_data_parson (p : Prog) (hwf : WellFormed p) : FinishedAfterData jsonCodec p :=
  finished_after_data jsonCodec p hwf

theorem crash_consistent_any_schedule_parson (E : EmuCfg) (p : Prog) (L : List FOp)
    (hL : Schedule jsonCodec.ser p L) (hwf : WellFormed p) : CrashConsistentS E jsonCodec p L :=
  crash_consistent_any_schedule E jsonCodec p L hL hwf

/-- The codec is not vacuous: the serialized metadata of a finished thread is the
    pretty-printed object and reads back as finished; cut before its last byte it
    does not parse. -/
example : jsonCodec.parse (jsonCodec.ser ⟨true, 42⟩) = some ⟨true, 42⟩
    ∧ jsonFinished jsonCodec (jsonCodec.ser ⟨true, 42⟩) = true
    ∧ jsonFinished jsonCodec (jsonCodec.ser ⟨false, 42⟩) = false
    ∧ jsonCodec.parse ((jsonCodec.ser ⟨true, 42⟩).dropLast) = none
    ∧ jsonCodec.ser ⟨true, 7⟩ = [123, 10, 32, 32, 32, 32, 34, 118, 101, 114, 115, 105, 111, 110, 34, 58, 32, 51, 44, 10,
        32, 32, 32, 32, 34, 111, 118, 110, 105, 34, 58, 32, 123, 10, 32, 32, 32, 32, 32, 32, 32, 32, 34, 98, 111, 100,
        121, 34, 58, 32, 34, 55, 34, 44, 10, 32, 32, 32, 32, 32, 32, 32, 32, 34, 102, 105, 110, 105, 115, 104, 101,
        100, 34, 58, 32, 49, 10, 32, 32, 32, 32, 125, 10, 125] := by decide

/-- The sequential run of the other theorems is one of the schedules. -/
example (C : Codec) (p : Prog) : Schedule C.ser p (ops (calls C.ser p)) := schedule_sequential C.ser p

/-! ### what "complete" means in terms of the buffer model

The bytes `ThreadProg.obsBytes` the theorems speak about are the stream file
of the C01/C02 theorems: if the thread program's I/O steps are those of a
buffer-model program (`writesOf`, attribute flushes may be interleaved), the
complete stream.obs is `St.diskBytes` of that program's final state. -/

theorem obsBytes_is_buffer_disk {D : Type} [JData D] (cap : Nat) (magic : List Nat) (version : Nat)
    (s0 s1 s2 : St D) (body : List (Op D)) (ps : List PStep) (t : ThreadProg)
    (h0 : s0.disk = []) (hr : s0.ready = false) (hf : s0.finished = false)
    (hi : step cap s0 .init = some s1) (hni : ∀ op ∈ body, op ≠ .init)
    (hw : writesOf cap s1 body = some (s2, ps))
    (hh : t.hdr = streamHeader magic version) (hs : stepsBytes t.steps = stepsBytes ps) :
    Ovni.Rt.run cap s0 (.init :: body) = some s2 ∧ t.obsBytes = s2.diskBytes magic version := by
  obtain ⟨r1, r2⟩ := writesOf_spec cap magic version s1 body hni s2 ps hw
  refine ⟨by simp only [Ovni.Rt.run, hi]; exact r1, ?_⟩
  rw [r2, ThreadProg.obsBytes, hh, hs]
  congr 1
  simp only [step, threadInit, hr, hf, Bool.false_eq_true, if_false, Option.some.injEq] at hi
  subst hi
  simp [St.diskBytes, h0]

/-! ### the code before the fix violated both statements -/

open Ovni.Rt.Fs.Witness

/-- Witness (key `tmpdir-json-before-obs`): `OHx OHe flush flush free` in
    OVNI_TMPDIR mode, readdir gives stream.json first; the old code is killed
    after the `fwrite` of the stream.obs copy, stdio having flushed the bytes up
    to OHe.  The final tree has finished = 1, a stream ending in OHe — accepted —
    and lacks the flushed `OF[ OF]`. -/
theorem crash_consistent_before_fix :
    ¬ ∀ (E : EmuCfg) (C : Codec) (p : Prog), WellFormed p → ReaddirOrder p → CrashConsistentOld E C p := by
  intro h
  have := h wE wC wJsonFirst (by unfold WellFormed; decide) (by unfold ReaddirOrder; decide) 48 wCut .fin
    (by decide) 7 (by decide)
  revert this
  decide

/-- Same run killed right after stream.json was relocated: finished = 1 is
    visible in the final tree, stream.obs is not there yet. -/
theorem finished_after_data_before_fix :
    ¬ ∀ (C : Codec) (p : Prog), WellFormed p → ReaddirOrder p → FinishedAfterDataOld C p := by
  intro h
  have := h wC wJsonFirst (by unfold WellFormed; decide) (by unfold ReaddirOrder; decide) 43 (fun _ => 0) wT
    (by decide) (wC.ser ⟨true, 1⟩) (by decide) (by decide)
  revert this
  decide

/-! ### non-vacuity -/

example : WellFormed wObsFirst ∧ wObsFirst.tmpMode = true := ⟨by unfold WellFormed; decide, rfl⟩

example : WellFormed wDirect ∧ wDirect.tmpMode = false := ⟨by unfold WellFormed; decide, rfl⟩

/-- Several threads. -/
example : WellFormed { wObsFirst with threads := [wT, { wT with tid := 8 }, { wT with tid := 9, free := false }] } := by
  unfold WellFormed; decide

/-- The premise of `CrashConsistent` is reachable: the completed relocation
    (and a crash in the middle of the json copy, with the whole text already
    flushed by stdio) is accepted with a visible stream. -/
example : accepts wE wC (crashState wC wObsFirst 51) (fun _ => 0) .fin = true
    ∧ visibleStreams (crashState wC wObsFirst 51) .fin = [7] := by decide

example : accepts wE wC (crashState wC wObsFirst 43) (fun _ => 4) .fin = true
    ∧ visibleStreams (crashState wC wObsFirst 43) .fin = [7]
    ∧ (crashState wC wObsFirst 43).visible (fun _ => 4) (.file .fin 7 .obs) = some wT.obsBytes := by decide

/-- A crash before `ovni_thread_free` in direct mode leaves a visible stream
    that the emulator rejects (no finished flag). -/
example : accepts wE wC (crashState wC wDirect 17) (fun _ => 0) .fin = false
    ∧ visibleStreams (crashState wC wDirect 17) .fin = [7] := by decide

end Ovni.Props.C09
