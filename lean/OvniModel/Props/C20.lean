import OvniModel.Emu.Sort
import OvniModel.Emu.Breakdown
import OvniModel.Lemmas.Sort
import OvniModel.Lemmas.SortState
import OvniModel.Lemmas.Breakdown
import OvniModel.Lemmas.BreakdownSys

/-!
# C20 — breakdown view: the rows hold the sorted per-CPU breakdown values

Property theorems only.  Models: `OvniModel/Emu/Sort.lean` (`src/emu/sort.c`)
and `OvniModel/Emu/Breakdown.lean` (`src/emu/{nosv,nanos6}/breakdown.c` over
`mux.c`/`bay.c`/`chan.c`).  Arrays are `List Int`, unbounded in length and in
values.  `qsort` is a parameter `qs` about which only `IsSort qs` (returns a
sorted permutation) is assumed.
-/
namespace Ovni.Props.C20
open Ovni.Emu Ovni.Emu.Sort Ovni.Emu.Breakdown

/-! ## `sort_replace` -/

/-- `sort_replace` refines "erase one `old`, insert `new` in order", for every
    sorted array of every length, both branches and the `n/2` shortcut
    included.  The three hypotheses are the documented preconditions. -/
theorem sort_replace_spec (arr : List Int) (old new : Int)
    (hs : Sorted arr) (hm : old ∈ arr) (hne : old ≠ new) :
    sortReplace arr old new = some (insertSorted new (arr.erase old)) :=
  sortReplace_eq arr old new hs hm hne

/-- Hence: the result is sorted and its multiset is exactly the old one with
    one `old` replaced by `new`. -/
theorem sort_replace_sorted_multiset (arr : List Int) (old new : Int)
    (hs : Sorted arr) (hm : old ∈ arr) (hne : old ≠ new) :
    ∃ r, sortReplace arr old new = some r ∧ Sorted r ∧ r.length = arr.length ∧
      (old :: r).Perm (new :: arr) := by
  refine ⟨_, sort_replace_spec arr old new hs hm hne, ?_, ?_, ?_⟩
  · exact insertSorted_sorted _ _ (sorted_erase _ _ hs)
  · have h1 := (insertSorted_perm new (arr.erase old)).length_eq
    have h2 := (List.perm_cons_erase hm).length_eq
    simp only [List.length_cons] at h1 h2
    omega
  · exact ((List.Perm.cons old (insertSorted_perm new (arr.erase old))).trans
      (List.Perm.swap new old _)).trans (List.Perm.cons new (List.perm_cons_erase hm).symm)

/-- `old == new` is the `die("old == new")` path. -/
theorem sort_replace_dies_on_equal (arr : List Int) (x : Int) : sortReplace arr x x = none := by
  simp [sortReplace]

example : sortReplace [1, 3, 3, 5, 9] 3 7 = some [1, 3, 5, 7, 9] := by decide
example : sortReplace [1, 3, 3, 5, 9] 9 0 = some [0, 1, 3, 3, 5] := by decide
example : Sorted [1, 3, 3, 5, 9] ∧ (3 : Int) ∈ [1, 3, 3, 5, 9] ∧ (3 : Int) ≠ 7 := by decide

/-! ## `sort_cb_input`: the rows -/

/-- After every history of input changes (any number of inputs, any values,
    `NULL`s and non-integers included) the rows are non-decreasing from the
    first to the last and hold exactly the multiset of the input values. -/
theorem rows_are_sorted_values (qs : List Int → List Int) (hq : IsSort qs) (n : Nat)
    (evs : List (Nat × Value)) :
    Sorted (rows (run qs (init n) evs)) ∧
    (rows (run qs (init n) evs)).Perm (inputVals n evs) ∧
    (rows (run qs (init n) evs)).length = n := by
  have hi := inv_run qs hq evs _ (inv_init n)
  have hv := values_run qs hq evs _ (inv_init n)
  have hr := rows_of_inv _ hi
  have hvals : (run qs (init n) evs).values = inputVals n evs := hv
  refine ⟨hr.1, hvals ▸ hr.2, ?_⟩
  have hn : ∀ (evs : List (Nat × Value)) (s : State), (run qs s evs).n = s.n := by
    intro evs
    induction evs with
    | nil => intro s; rfl
    | cons e es ih =>
      intro s
      simp only [run]
      rw [ih]
      by_cases hc : rd s.values e.1 = e.2.toInt ∨ s.n ≤ e.1
      · rw [cbInput_same qs s e.1 e.2 hc]
      · rw [cbInput_change qs s e.1 e.2 hc]
  simp only [rows, List.length_map, hi.lenO, hn]
  rfl

/-- Once any input has changed, every output channel holds an integer (never
    `NULL` again). -/
theorem outputs_are_ints (qs : List Int → List Int) (hq : IsSort qs) (n : Nat)
    (evs : List (Nat × Value)) (hc : (run qs (init n) evs).copied = true) :
    (run qs (init n) evs).outs = (rows (run qs (init n) evs)).map Value.int := by
  have hi := inv_run qs hq evs _ (inv_init n)
  obtain ⟨_, _, h3⟩ := hi.cop hc
  simp only [rows, h3, List.map_map]
  have : (Value.int ∘ Value.toInt ∘ Value.int) = Value.int := by funext x; rfl
  rw [← List.map_map, List.map_map, this]

/-- The `qsort` hypothesis is satisfiable (insertion sort; the driver uses it). -/
theorem qsort_assumption_satisfiable : IsSort isort := isort_isSort

example : rows (run isort (init 3) [(0, .int 5), (2, .int (-2)), (0, .null), (1, .dbl 17)]) = [-2, 0, 0] := by
  decide

/-! ## `sort_cb_input`: minimal writes -/

/-- In any reachable state, one callback writes output `j` with `v` **iff**
    the value of output `j` changes, and then `v` is its new value.  (Outputs
    not written keep their value: that is the right-to-left direction.) -/
theorem minimal_writes (qs : List Int → List Int) (hq : IsSort qs) (n : Nat)
    (evs : List (Nat × Value)) (index : Nat) (cur : Value) (j : Nat) (v : Int) :
    let s := run qs (init n) evs
    let r := cbInput qs s index cur
    (j, v) ∈ r.2 ↔ (r.1.outs[j]? = some (Value.int v) ∧ s.outs[j]? ≠ r.1.outs[j]?) := by
  intro s r
  have hi : Inv s := inv_run qs hq evs _ (inv_init n)
  by_cases hc : rd s.values index = cur.toInt ∨ s.n ≤ index
  · have e : r = (s, []) := cbInput_same qs s index cur hc
    rw [e]; simp
  · have e := cbInput_change qs s index cur hc
    have hne : rd s.values index ≠ cur.toInt := fun h => hc (Or.inl h)
    have hidx : index < s.n := by
      apply Classical.byContradiction; intro h; exact hc (Or.inr (by omega))
    obtain ⟨_, hs2⟩ := step_sorted qs hq s hi index cur.toInt hidx hne
    have hlenS : (nextSorted qs s index cur.toInt).length = s.outs.length := by
      rw [hs2.length_eq, hi.lenO]; simp [hi.lenV]
    have hlog := writeLoop_log (nextSorted qs s index cur.toInt) 0 s.outs j v hlenS
    have houts := writeLoop_outs (nextSorted qs s index cur.toInt) 0 s.outs hlenS
    show (j, v) ∈ (cbInput qs s index cur).2 ↔
      ((cbInput qs s index cur).1.outs[j]? = some (Value.int v) ∧
        s.outs[j]? ≠ (cbInput qs s index cur).1.outs[j]?)
    rw [e]
    simp only [houts]
    rw [hlog]
    simp only [Nat.zero_le, Nat.sub_zero, true_and, List.getElem?_map]
    constructor
    · rintro ⟨h1, ov, h2, h3⟩
      refine ⟨by simp [h1], ?_⟩
      rw [h1, h2]; simpa using h3
    · rintro ⟨h1, h2⟩
      have hsv : (nextSorted qs s index cur.toInt)[j]? = some v := by
        cases hx : (nextSorted qs s index cur.toInt)[j]? with
        | none => simp [hx] at h1
        | some w => simp [hx] at h1; rw [h1]
      refine ⟨hsv, ?_⟩
      have hj : j < s.outs.length := by
        rw [← hlenS]; exact (List.getElem?_eq_some_iff.1 hsv).1
      refine ⟨s.outs[j], List.getElem?_eq_getElem hj, ?_⟩
      intro hov
      apply h2
      rw [hsv, List.getElem?_eq_getElem hj, hov]; rfl

/-- Outputs are written in increasing index order, each at most once per
    callback. -/
theorem writes_increasing (qs : List Int → List Int) (s : State) (index : Nat) (cur : Value) :
    ((cbInput qs s index cur).2.map Prod.fst).Pairwise (· < ·) := by
  by_cases hc : rd s.values index = cur.toInt ∨ s.n ≤ index
  · rw [cbInput_same qs s index cur hc]; exact List.Pairwise.nil
  · rw [cbInput_change qs s index cur hc]
    exact (writeLoop_increasing _ 0 s.outs).1

/-- An input "change" to the value the module already holds (e.g. `NULL`
    where it holds 0) touches nothing. -/
theorem no_change_no_write (qs : List Int → List Int) (s : State) (index : Nat) (cur : Value)
    (h : rd s.values index = cur.toInt) : cbInput qs s index cur = (s, []) :=
  cbInput_same qs s index cur (Or.inl h)

example : (cbInput isort (run isort (init 4) [(0, .int 1), (1, .int 2), (2, .int 3)]) 0 (.int 2)).2
    = [(1, 2)] := by decide

/-! ## the breakdown muxes -/

/-- The mux theorem at selection time: right after `mux0`'s `cb_select` ran
    (with `select_tr`), `tr` is the specified value of the inputs *as they are
    at that moment*; likewise `mux1` / `select_idle`. -/
theorem select_time_value (k : Consts) (ss tt tr idle : Value) :
    (Mux.cbSelect (.int k.unknownSs) (selectTr k ss [ss, tt]) [ss, tt]).out = trSpec k ss tt ∧
    (Mux.cbSelect .null (selectIdle k idle) [tr, idle]).out = triSpec k tr idle :=
  ⟨cbSelect_tr k ss tt, cbSelect_tri k tr idle⟩

/-- **breakdown_value.**  After any history of propagations (any subsets of
    the three CPU channels, any values, any dirty order in which `idle` is not
    ahead of `ss`/`tt`), if `mux0` has been evaluated and the selection it
    holds is the one `select_tr` would make on the current inputs (`Fresh`:
    the select was re-evaluated after the last change of what it reads), then
    the value the sort module holds for this CPU is `spec(ss, tt, idle)`. -/
theorem breakdown_value (k : Consts) (props : List (List (Src × Value))) (ho : OrdersOk props)
    (he : (runCpu k props).mux0.evaluated = true) (hf : Fresh k (runCpu k props)) :
    let c := runCpu k props
    c.tr = trSpec k c.ss c.tt ∧ c.tri = triSpec k c.tr c.idle ∧ c.seen = spec k c.ss c.tt c.idle := by
  intro c
  have hq := runCpu_quiescent k props ho
  have h1 := tr_of_fresh k c hq.ss hq.tt he hf
  have h2 := tri_of_delivered k c hq.idle hq.tr
  refine ⟨h1, h2, ?_⟩
  have h3 : c.seen = c.tri := hq.tri
  rw [h3, h2, h1]; rfl

/-- Whenever `ss` is among the channels of a propagation, the selection is
    fresh afterwards (whatever the order), and `mux0` counts as evaluated. -/
theorem fresh_after_ss (k : Consts) (c : Cpu) (sets : List (Src × Value)) (hq : Quiescent k c)
    (h : Src.ss ∈ sets.map (·.1)) :
    Fresh k (step k c sets) ∧ (step k c sets).mux0.evaluated = true :=
  (step_post k c sets hq).fresh h

/-- The explicit side condition: a propagation that does not touch `ss` keeps
    the selection fresh iff it does not flip the null-ness of `tt` while the
    subsystem is "task body" — `select_tr` reads `tt` only then, and only
    whether it is `NULL`. -/
theorem fresh_preserved_iff (k : Consts) (c : Cpu) (sets : List (Src × Value)) (hq : Quiescent k c)
    (hf : Fresh k c) (h : Src.ss ∉ sets.map (·.1)) :
    Fresh k (step k c sets) ↔
      (c.ss = .int k.taskBody → (c.tt = .null ↔ (step k c sets).tt = .null)) := by
  have p := step_post k c sets hq
  have hss : (step k c sets).ss = c.ss := p.vss.trans ((foldl_set_keep sets c).1 h)
  unfold Fresh at hf ⊢
  rw [(p.keep h).1, hss, hf]
  generalize (step k c sets).tt = tt'
  rcases selectTr_cases k c.ss c.tt with ⟨e, a⟩ | ⟨e, a, b⟩ | ⟨e, a, b⟩ <;>
    rcases selectTr_cases k c.ss tt' with ⟨e', a'⟩ | ⟨e', a', b'⟩ | ⟨e', a', b'⟩ <;>
    rw [e, e'] <;> simp_all

/-- **The deviation, classified.**  In a quiescent state whose selection is
    *not* fresh there are exactly two possibilities, both with the subsystem
    at "task body":
    (A) input 0 (`ss`) is selected although a task type is present — `tr`
        shows `ST_TASK_BODY` instead of the task type (`… VAP VTr`);
    (B) input 1 (`tt`) is selected although the task type is `NULL` — `tr` is
        `NULL` instead of `ST_TASK_BODY` (`VTx VTp`). -/
theorem stale_select_classes (k : Consts) (props : List (List (Src × Value))) (ho : OrdersOk props)
    (he : (runCpu k props).mux0.evaluated = true) (hf : ¬ Fresh k (runCpu k props)) :
    let c := runCpu k props
    (c.mux0.selected = some 0 ∧ c.ss = .int k.taskBody ∧ c.tt ≠ .null ∧ c.tr = .int k.taskBody) ∨
    (c.mux0.selected = some 1 ∧ c.ss = .int k.taskBody ∧ c.tt = .null ∧ c.tr = .null) := by
  intro c
  have hq := runCpu_quiescent k props ho
  exact stale_classes k c hq.ss hq.tt he hf

/-- **dirty_level_ordered (per CPU).**  `tri` has an upstream of level 1
    (`idle`) and one of level 2 (`tr`) and is processed once per propagation.
    If no `idle` entry is ahead of an `ss`/`tt` entry in the dirty list, then
    after the propagation the sort module has seen the final `tri`, `tri`
    follows `tr`/`idle`, and both muxes agree with their inputs — for every
    subset of dirty channels and every such order, duplicates included. -/
theorem dirty_level_ordered_partial (k : Consts) (c : Cpu) (sets : List (Src × Value))
    (hq : Quiescent k c) (ho : orderOk (dedup (sets.map (·.1))) = true) :
    let c' := step k c sets
    Quiescent k c' ∧ c'.seen = c'.tri ∧ c'.tri = triSpec k c'.tr c'.idle := by
  intro c'
  have q := quiescent_step k c sets hq ho
  exact ⟨q, q.tri, tri_of_delivered k c' q.idle q.tr⟩
-- OPEN: `dirty_level_ordered` for the whole emulator — that the CPU channels
-- really enter the dirty list as `step` assumes (all three written before any
-- is processed; `task_type` < `subsystem` < `idle` on a `th_running` change
-- because `model_cpu_connect` registers the track muxes in channel-index
-- order; `ss` before `tt` on `VTx`/`VTe`) needs the global bay/track model
-- (C06).  Here it is an explicit hypothesis (`orderOk`), exercised against
-- the real `connect_cpu` by the harness and against `ovniemu -b` by the e2e
-- oracle.

/-- Even with a bad order the muxes themselves end up right; only what the
    sort module saw can be out of date. -/
theorem muxes_right_in_any_order (k : Consts) (c : Cpu) (sets : List (Src × Value))
    (hq : Quiescent k c) :
    (step k c sets).tri = triSpec k (step k c sets).tr (step k c sets).idle :=
  let p := step_post k c sets hq
  tri_of_delivered k _ p.didle p.dtr

/-! ## the whole breakdown -/

/-- **The rows of the breakdown view.**  For any number of CPUs and any
    history of propagations of the whole patch-bay (any channels of any CPUs in
    any order), what the rows show is non-decreasing from the first row to the
    last and is exactly the multiset of the values the sort module has seen on
    each CPU's `tri` channel (`NULL` counting as 0).  Together with
    `breakdown_value` (that value is `spec(ss, tt, idle)` for a CPU whose
    selection is fresh) this is the property; `stale_select_classes` says what
    the row shows otherwise. -/
theorem system_rows (k : Consts) (qs : List Int → List Int) (hq : IsSort qs) (n : Nat)
    (hist : List (List (Nat × Src × Value))) :
    let S := runSys k qs n hist
    Sorted (rows S.sort) ∧ (rows S.sort).Perm (S.cpus.map (fun c => c.seen.toInt)) ∧
      (rows S.sort).length = S.cpus.length := by
  intro S
  have hi := runSys_inv k qs hq n hist
  have hr := rows_of_inv S.sort hi.sort
  refine ⟨hr.1, hi.vals ▸ hr.2, ?_⟩
  simp only [rows, List.length_map]
  exact hi.sort.lenO.trans hi.len
-- The per-CPU theorems above are about `step` (one CPU's walk of the dirty
-- list); `stepSys` walks the global list.  That the first is the projection of
-- the second is not proved here: the driver checks it on every line it
-- executes (it prints `proj-mismatch` otherwise), i.e. on all unit and e2e
-- cases of the correspondence run.

example : rows (runSys nosv isort 2 [[(0, .tt, .null), (0, .ss, .null), (0, .idle, .int 100)],
    [(0, .ss, .int 11), (0, .tt, .int 7)], [(1, .tt, .null), (1, .ss, .int 6), (1, .idle, .int 100)]]).sort
    = [6, 7] := by decide

/-! ### Non-vacuity and the concrete witnesses -/

example : Quiescent nosv Cpu.init := quiescent_init nosv

/-- The emulator's orders satisfy the order hypothesis: `th_running` change
    (`tt`, `ss`, `idle`), `VTx`/`VTe` (`ss`, `tt`), single-channel events. -/
example : orderOk (dedup [.tt, .ss, .idle]) = true ∧ orderOk (dedup [.ss, .tt]) = true ∧
    orderOk (dedup [.idle]) = true ∧ orderOk (dedup [.idle, .ss]) = false := by decide

def hOHx : List (Src × Value) := [(.tt, .null), (.ss, .null), (.idle, .int 100)]
def hVTx : List (Src × Value) := [(.ss, .int 11), (.tt, .int 7)]

/-- A normal pause: `OHx VTx VAp VTp VTr VAP` (task type 7). -/
def exNormal : Cpu :=
  runCpu nosv [hOHx, hVTx, [(.ss, .int 15)], [(.tt, .null)], [(.tt, .int 7)], [(.ss, .int 11)]]

/-- §6-G, class (A): `OHx VTx VAp VTp VAP VTr` — the resume comes after the pop. -/
def exStaleA : Cpu :=
  runCpu nosv [hOHx, hVTx, [(.ss, .int 15)], [(.tt, .null)], [(.ss, .int 11)], [(.tt, .int 7)]]

/-- Class (B): `OHx VTx VTp` — a bare pause. -/
def exStaleB : Cpu := runCpu nosv [hOHx, hVTx, [(.tt, .null)]]

/-- The hypotheses of `breakdown_value` hold on a non-trivial history, and
    the sort input is the task type. -/
example : OrdersOk [hOHx, hVTx, [(.ss, .int 15)], [(.tt, .null)], [(.tt, .int 7)], [(.ss, .int 11)]] ∧
    Fresh nosv exNormal ∧ exNormal.mux0.evaluated = true ∧ exNormal.seen = .int 7 := by decide

/-- (A): `ss = 11`, `tt = 7`, but the sort input stays 11 ("Task: In body")
    where the specification says 7. -/
example : ¬ Fresh nosv exStaleA ∧ exStaleA.mux0.evaluated = true ∧
    exStaleA.ss = .int 11 ∧ exStaleA.tt = .int 7 ∧ exStaleA.seen = .int 11 ∧
    spec nosv exStaleA.ss exStaleA.tt exStaleA.idle = .int 7 := by decide

/-- (B): `ss = 11`, `tt = NULL`; the sort input becomes `NULL` (row value 0)
    where the specification says 11. -/
example : ¬ Fresh nosv exStaleB ∧ exStaleB.seen = .null ∧
    spec nosv exStaleB.ss exStaleB.tt exStaleB.idle = .int 11 := by decide

/-- The order hypothesis of `dirty_level_ordered_partial` is needed: with
    `idle` ahead of `ss` in the dirty list the sort module keeps a stale value
    (here it still holds `NULL` although `tri = 5`). -/
example : (step nosv Cpu.init [(.idle, .int 100), (.ss, .int 5)]).tri = .int 5 ∧
    (step nosv Cpu.init [(.idle, .int 100), (.ss, .int 5)]).seen = .null := by decide

end Ovni.Props.C20
