import OvniModel.Emu.Sort
import OvniModel.Emu.Breakdown
import OvniModel.Lemmas.Sort
import OvniModel.Lemmas.SortState
import OvniModel.Lemmas.Breakdown
import OvniModel.Lemmas.BreakdownSys
import OvniModel.Lemmas.CoreBayOrder
import OvniModel.Lemmas.CoreBayRaw
import OvniModel.Lemmas.TaskHook
import OvniModel.Lemmas.CoreBayTable
import OvniModel.Lemmas.TaskHookOrder
import OvniModel.Lemmas.TaskCoupleDirty

/-!
# C20 — breakdown view: the rows hold the sorted per-CPU breakdown values

Property theorems only.  Models: `OvniModel/Emu/Sort.lean` (`src/emu/sort.c`)
and `OvniModel/Emu/Breakdown.lean` (`src/emu/{nosv,nanos6}/breakdown.c` over
`mux.c`/`bay.c`/`chan.c`).  Arrays are `List Int`, unbounded in length and in
values.  `qsort` is a parameter `qs` about which only `IsSort qs` (returns a
sorted permutation) is assumed.
-/
namespace Ovni.Props.C20
open Ovni.Emu.Sort Ovni.Emu.Breakdown

/-! ## `sort_replace` -/

/-- `sort_replace` refines "erase one `old`, insert `new` in order", for every
    sorted array of every length, both branches and the `n/2` shortcut
    included.  The three hypotheses are the documented preconditions. -/
theorem sort_replace_spec (arr : List Int) (old new : Int)
    (hs : Sorted arr) (hm : old ∈ arr) (hne : old ≠ new) :
    sortReplace arr old new = some (insertSorted new (arr.erase old)) :=
  sortReplace_eq arr old new hs hm hne

/-- Hence: the result is sorted and its multiset is exactly the old one with
    one `old` replaced by `new`. -/
theorem sort_replace_sorted_multiset (arr : List Int) (old new : Int)
    (hs : Sorted arr) (hm : old ∈ arr) (hne : old ≠ new) :
    ∃ r, sortReplace arr old new = some r ∧ Sorted r ∧ r.length = arr.length ∧
      (old :: r).Perm (new :: arr) := by
  refine ⟨_, sort_replace_spec arr old new hs hm hne, ?_, ?_, ?_⟩
  · exact insertSorted_sorted _ _ (sorted_erase _ _ hs)
  · have h1 := (insertSorted_perm new (arr.erase old)).length_eq
    have h2 := (List.perm_cons_erase hm).length_eq
    simp only [List.length_cons] at h1 h2
    omega
  · exact ((List.Perm.cons old (insertSorted_perm new (arr.erase old))).trans
      (List.Perm.swap new old _)).trans (List.Perm.cons new (List.perm_cons_erase hm).symm)

/-- `old == new` is the `die("old == new")` path. -/
theorem sort_replace_dies_on_equal (arr : List Int) (x : Int) : sortReplace arr x x = none := by
  simp [sortReplace]

example : sortReplace [1, 3, 3, 5, 9] 3 7 = some [1, 3, 5, 7, 9] := by decide
example : sortReplace [1, 3, 3, 5, 9] 9 0 = some [0, 1, 3, 3, 5] := by decide
example : Sorted [1, 3, 3, 5, 9] ∧ (3 : Int) ∈ [1, 3, 3, 5, 9] ∧ (3 : Int) ≠ 7 := by decide

/-! ## `sort_cb_input`: the rows -/

/-- After every history of input changes (any number of inputs, any values,
    `NULL`s and non-integers included) the rows are non-decreasing from the
    first to the last and hold exactly the multiset of the input values. -/
theorem rows_are_sorted_values (qs : List Int → List Int) (hq : IsSort qs) (n : Nat)
    (evs : List (Nat × Value)) :
    Sorted (rows (run qs (init n) evs)) ∧
    (rows (run qs (init n) evs)).Perm (inputVals n evs) ∧
    (rows (run qs (init n) evs)).length = n := by
  have hi := inv_run qs hq evs _ (inv_init n)
  have hv := values_run qs hq evs _ (inv_init n)
  have hr := rows_of_inv _ hi
  have hvals : (run qs (init n) evs).values = inputVals n evs := hv
  refine ⟨hr.1, hvals ▸ hr.2, ?_⟩
  have hn : ∀ (evs : List (Nat × Value)) (s : State), (run qs s evs).n = s.n := by
    intro evs
    induction evs with
    | nil => intro s; rfl
    | cons e es ih =>
      intro s
      simp only [run]
      rw [ih]
      by_cases hc : rd s.values e.1 = e.2.toInt ∨ s.n ≤ e.1
      · rw [cbInput_same qs s e.1 e.2 hc]
      · rw [cbInput_change qs s e.1 e.2 hc]
  simp only [rows, List.length_map, hi.lenO, hn]
  rfl

/-- Once any input has changed, every output channel holds an integer (never
    `NULL` again). -/
theorem outputs_are_ints (qs : List Int → List Int) (hq : IsSort qs) (n : Nat)
    (evs : List (Nat × Value)) (hc : (run qs (init n) evs).copied = true) :
    (run qs (init n) evs).outs = (rows (run qs (init n) evs)).map Value.int := by
  have hi := inv_run qs hq evs _ (inv_init n)
  obtain ⟨_, _, h3⟩ := hi.cop hc
  simp only [rows, h3, List.map_map]
  have : (Value.int ∘ Value.toInt ∘ Value.int) = Value.int := by funext x; rfl
  rw [← List.map_map, List.map_map, this]

/-- The `qsort` hypothesis is satisfiable (insertion sort; the driver uses it). -/
theorem qsort_assumption_satisfiable : IsSort isort := isort_isSort

example : rows (run isort (init 3) [(0, .int 5), (2, .int (-2)), (0, .null), (1, .dbl 17)]) = [-2, 0, 0] := by
  decide

/-! ## `sort_cb_input`: minimal writes -/

/-- In any reachable state, one callback writes output `j` with `v` **iff**
    the value of output `j` changes, and then `v` is its new value.  (Outputs
    not written keep their value: that is the right-to-left direction.) -/
theorem minimal_writes (qs : List Int → List Int) (hq : IsSort qs) (n : Nat)
    (evs : List (Nat × Value)) (index : Nat) (cur : Value) (j : Nat) (v : Int) :
    let s := run qs (init n) evs
    let r := cbInput qs s index cur
    (j, v) ∈ r.2 ↔ (r.1.outs[j]? = some (Value.int v) ∧ s.outs[j]? ≠ r.1.outs[j]?) := by
  intro s r
  have hi : Inv s := inv_run qs hq evs _ (inv_init n)
  by_cases hc : rd s.values index = cur.toInt ∨ s.n ≤ index
  · have e : r = (s, []) := cbInput_same qs s index cur hc
    rw [e]; simp
  · have e := cbInput_change qs s index cur hc
    have hne : rd s.values index ≠ cur.toInt := fun h => hc (Or.inl h)
    have hidx : index < s.n := by
      apply Classical.byContradiction; intro h; exact hc (Or.inr (by omega))
    obtain ⟨_, hs2⟩ := step_sorted qs hq s hi index cur.toInt hidx hne
    have hlenS : (nextSorted qs s index cur.toInt).length = s.outs.length := by
      rw [hs2.length_eq, hi.lenO]; simp [hi.lenV]
    have hlog := writeLoop_log (nextSorted qs s index cur.toInt) 0 s.outs j v hlenS
    have houts := writeLoop_outs (nextSorted qs s index cur.toInt) 0 s.outs hlenS
    show (j, v) ∈ (cbInput qs s index cur).2 ↔
      ((cbInput qs s index cur).1.outs[j]? = some (Value.int v) ∧
        s.outs[j]? ≠ (cbInput qs s index cur).1.outs[j]?)
    rw [e]
    simp only [houts]
    rw [hlog]
    simp only [Nat.zero_le, Nat.sub_zero, true_and, List.getElem?_map]
    constructor
    · rintro ⟨h1, ov, h2, h3⟩
      refine ⟨by simp [h1], ?_⟩
      rw [h1, h2]; simpa using h3
    · rintro ⟨h1, h2⟩
      have hsv : (nextSorted qs s index cur.toInt)[j]? = some v := by
        cases hx : (nextSorted qs s index cur.toInt)[j]? with
        | none => simp [hx] at h1
        | some w => simp [hx] at h1; rw [h1]
      refine ⟨hsv, ?_⟩
      have hj : j < s.outs.length := by
        rw [← hlenS]; exact (List.getElem?_eq_some_iff.1 hsv).1
      refine ⟨s.outs[j], List.getElem?_eq_getElem hj, ?_⟩
      intro hov
      apply h2
      rw [hsv, List.getElem?_eq_getElem hj, hov]; rfl

/-- Outputs are written in increasing index order, each at most once per
    callback. -/
theorem writes_increasing (qs : List Int → List Int) (s : State) (index : Nat) (cur : Value) :
    ((cbInput qs s index cur).2.map Prod.fst).Pairwise (· < ·) := by
  by_cases hc : rd s.values index = cur.toInt ∨ s.n ≤ index
  · rw [cbInput_same qs s index cur hc]; exact List.Pairwise.nil
  · rw [cbInput_change qs s index cur hc]
    exact (writeLoop_increasing _ 0 s.outs).1

/-- An input "change" to the value the module already holds (e.g. `NULL`
    where it holds 0) touches nothing. -/
theorem no_change_no_write (qs : List Int → List Int) (s : State) (index : Nat) (cur : Value)
    (h : rd s.values index = cur.toInt) : cbInput qs s index cur = (s, []) :=
  cbInput_same qs s index cur (Or.inl h)

example : (cbInput isort (run isort (init 4) [(0, .int 1), (1, .int 2), (2, .int 3)]) 0 (.int 2)).2
    = [(1, 2)] := by decide

/-! ## the breakdown muxes -/

/-- The mux theorem at selection time: right after `mux0`'s `cb_select` ran
    (with `select_tr`), `tr` is the specified value of the inputs *as they are
    at that moment*; likewise `mux1` / `select_idle`. -/
theorem select_time_value (k : Consts) (ss tt tr idle : Value) :
    (Mux.cbSelect (.int k.unknownSs) (selectTr k ss [ss, tt]) [ss, tt]).out = trSpec k ss tt ∧
    (Mux.cbSelect .null (selectIdle k idle) [tr, idle]).out = triSpec k tr idle :=
  ⟨cbSelect_tr k ss tt, cbSelect_tri k tr idle⟩

/-- **breakdown_value.**  After any history of propagations (any subsets of
    the three CPU channels, any values, any dirty order in which `idle` is not
    ahead of `ss`/`tt`), if `mux0` has been evaluated and the selection it
    holds is the one `select_tr` would make on the current inputs (`Fresh`:
    the select was re-evaluated after the last change of what it reads), then
    the value the sort module holds for this CPU is `spec(ss, tt, idle)`. -/
theorem breakdown_value (k : Consts) (props : List (List (Src × Value))) (ho : OrdersOk props)
    (he : (runCpu k props).mux0.evaluated = true) (hf : Fresh k (runCpu k props)) :
    let c := runCpu k props
    c.tr = trSpec k c.ss c.tt ∧ c.tri = triSpec k c.tr c.idle ∧ c.seen = spec k c.ss c.tt c.idle := by
  intro c
  have hq := runCpu_quiescent k props ho
  have h1 := tr_of_fresh k c hq.ss hq.tt he hf
  have h2 := tri_of_delivered k c hq.idle hq.tr
  refine ⟨h1, h2, ?_⟩
  have h3 : c.seen = c.tri := hq.tri
  rw [h3, h2, h1]; rfl

/-- Whenever `ss` is among the channels of a propagation, the selection is
    fresh afterwards (whatever the order), and `mux0` counts as evaluated. -/
theorem fresh_after_ss (k : Consts) (c : Cpu) (sets : List (Src × Value)) (hq : Quiescent k c)
    (h : Src.ss ∈ sets.map (·.1)) :
    Fresh k (step k c sets) ∧ (step k c sets).mux0.evaluated = true :=
  (step_post k c sets hq).fresh h

/-- The explicit side condition: a propagation that does not touch `ss` keeps
    the selection fresh iff it does not flip the null-ness of `tt` while the
    subsystem is "task body" — `select_tr` reads `tt` only then, and only
    whether it is `NULL`. -/
theorem fresh_preserved_iff (k : Consts) (c : Cpu) (sets : List (Src × Value)) (hq : Quiescent k c)
    (hf : Fresh k c) (h : Src.ss ∉ sets.map (·.1)) :
    Fresh k (step k c sets) ↔
      (c.ss = .int k.taskBody → (c.tt = .null ↔ (step k c sets).tt = .null)) := by
  have p := step_post k c sets hq
  have hss : (step k c sets).ss = c.ss := p.vss.trans ((foldl_set_keep sets c).1 h)
  unfold Fresh at hf ⊢
  rw [(p.keep h).1, hss, hf]
  generalize (step k c sets).tt = tt'
  rcases selectTr_cases k c.ss c.tt with ⟨e, a⟩ | ⟨e, a, b⟩ | ⟨e, a, b⟩ <;>
    rcases selectTr_cases k c.ss tt' with ⟨e', a'⟩ | ⟨e', a', b'⟩ | ⟨e', a', b'⟩ <;>
    rw [e, e'] <;> simp_all

/-- **The deviation, classified.**  In a quiescent state whose selection is
    *not* fresh there are exactly two possibilities, both with the subsystem
    at "task body":
    (A) input 0 (`ss`) is selected although a task type is present — `tr`
        shows `ST_TASK_BODY` instead of the task type (`… VAP VTr`);
    (B) input 1 (`tt`) is selected although the task type is `NULL` — `tr` is
        `NULL` instead of `ST_TASK_BODY` (`VTx VTp`). -/
theorem stale_select_classes (k : Consts) (props : List (List (Src × Value))) (ho : OrdersOk props)
    (he : (runCpu k props).mux0.evaluated = true) (hf : ¬ Fresh k (runCpu k props)) :
    let c := runCpu k props
    (c.mux0.selected = some 0 ∧ c.ss = .int k.taskBody ∧ c.tt ≠ .null ∧ c.tr = .int k.taskBody) ∨
    (c.mux0.selected = some 1 ∧ c.ss = .int k.taskBody ∧ c.tt = .null ∧ c.tr = .null) := by
  intro c
  have hq := runCpu_quiescent k props ho
  exact stale_classes k c hq.ss hq.tt he hf

/-- **dirty_level_ordered (per CPU).**  `tri` has an upstream of level 1
    (`idle`) and one of level 2 (`tr`) and is processed once per propagation.
    If no `idle` entry is ahead of an `ss`/`tt` entry in the dirty list, then
    after the propagation the sort module has seen the final `tri`, `tri`
    follows `tr`/`idle`, and both muxes agree with their inputs — for every
    subset of dirty channels and every such order, duplicates included. -/
theorem dirty_level_ordered_partial (k : Consts) (c : Cpu) (sets : List (Src × Value))
    (hq : Quiescent k c) (ho : orderOk (dedup (sets.map (·.1))) = true) :
    let c' := step k c sets
    Quiescent k c' ∧ c'.seen = c'.tri ∧ c'.tri = triSpec k c'.tr c'.idle := by
  intro c'
  have q := quiescent_step k c sets hq ho
  exact ⟨q, q.tri, tri_of_delivered k c' q.idle q.tr⟩

/-! ### `orderOk` from the registration order of the global bay (C06's `bayOf`) -/

/-- channel id ↦ which of the CPU's three breakdown inputs it is -/
def srcOf (tt ss idle ch : Nat) : Option Src :=
  if ch = tt then some Src.tt else if ch = ss then some Src.ss else if ch = idle then some Src.idle else none

/-- The three CPU track outputs feeding the breakdown, as they appear on a
    dirty list: channel ids `tt`, `ss`, `idle` ↦ `Src`. -/
def srcOrder (tt ss idle : Nat) (d : List Nat) : List Src := d.filterMap (srcOf tt ss idle)

theorem srcOf_iff (tt ss idle : Nat) (hts : tt ≠ ss) (hti : tt ≠ idle) (hsi : ss ≠ idle) (ch : Nat) :
    (srcOf tt ss idle ch = some Src.tt ↔ ch = tt) ∧ (srcOf tt ss idle ch = some Src.ss ↔ ch = ss) ∧
    (srcOf tt ss idle ch = some Src.idle ↔ ch = idle) := by
  unfold srcOf
  by_cases h1 : ch = tt <;> by_cases h2 : ch = ss <;> by_cases h3 : ch = idle <;> simp_all

theorem dedup_of_nodup : ∀ (l : List Src), l.Nodup → dedup l = l := by
  intro l
  induction l with
  | nil => intro _; rfl
  | cons a l ih =>
    intro h
    rw [List.nodup_cons] at h
    rw [dedup, ih h.2]
    congr 1
    apply List.filter_eq_self.mpr
    intro x hx
    have : x ≠ a := fun e => h.1 (e ▸ hx)
    simpa using this

theorem idxOf_cons_ne {a x : Nat} {d : List Nat} (h : a ≠ x) :
    (a :: d).idxOf x = d.idxOf x + 1 := by
  rw [List.idxOf_cons]
  have : (a == x) = false := beq_eq_false_iff_ne.mpr h
  simp only [this, cond_false]

theorem srcOrder_contains (tt ss idle : Nat) (hts : tt ≠ ss) (hti : tt ≠ idle) (hsi : ss ≠ idle) (d : List Nat) :
    (Src.tt ∈ srcOrder tt ss idle d ↔ tt ∈ d) ∧ (Src.ss ∈ srcOrder tt ss idle d ↔ ss ∈ d) := by
  unfold srcOrder
  simp only [List.mem_filterMap]
  constructor
  · constructor
    · rintro ⟨x, hx, hf⟩
      rw [((srcOf_iff tt ss idle hts hti hsi x).1).mp hf] at hx; exact hx
    · intro h; exact ⟨tt, h, ((srcOf_iff tt ss idle hts hti hsi tt).1).mpr rfl⟩
  · constructor
    · rintro ⟨x, hx, hf⟩
      rw [((srcOf_iff tt ss idle hts hti hsi x).2.1).mp hf] at hx; exact hx
    · intro h; exact ⟨ss, h, ((srcOf_iff tt ss idle hts hti hsi ss).2.1).mpr rfl⟩

/-- If on a duplicate-free dirty list `idle` comes after `tt` and after `ss`
    (whenever both are present), the order hypothesis of
    `dirty_level_ordered_partial` holds. -/
theorem orderOk_of_positions (tt ss idle : Nat) (hts : tt ≠ ss) (hti : tt ≠ idle) (hsi : ss ≠ idle) :
    ∀ (d : List Nat), d.Nodup →
      (tt ∈ d → idle ∈ d → d.idxOf tt < d.idxOf idle) → (ss ∈ d → idle ∈ d → d.idxOf ss < d.idxOf idle) →
      orderOk (srcOrder tt ss idle d) = true := by
  intro d
  induction d with
  | nil => intro _ _ _; rfl
  | cons a d ih =>
    intro hnd h1 h2
    rw [List.nodup_cons] at hnd
    have hstep : ∀ x, a ≠ x → a ≠ idle → (x ∈ a :: d → idle ∈ a :: d → (a :: d).idxOf x < (a :: d).idxOf idle) →
        (x ∈ d → idle ∈ d → d.idxOf x < d.idxOf idle) := by
      intro x hax hai h hx hi
      have := h (by simp [hx]) (by simp [hi])
      rw [idxOf_cons_ne hax, idxOf_cons_ne hai] at this
      omega
    by_cases hai : a = idle
    · -- idle first: no tt / ss may follow
      subst hai
      have hnt : tt ∉ d := by
        intro h
        have := h1 (by simp [h]) (by simp)
        rw [List.idxOf_cons] at this
        simp at this
      have hns : ss ∉ d := by
        intro h
        have := h2 (by simp [h]) (by simp)
        rw [List.idxOf_cons] at this
        simp at this
      have hc := srcOrder_contains tt ss a hts hti hsi d
      have e : srcOrder tt ss a (a :: d) = Src.idle :: srcOrder tt ss a d := by
        simp [srcOrder, srcOf, Ne.symm hti, Ne.symm hsi]
      rw [e]
      simp only [orderOk, List.contains_eq_mem, hc.1, hc.2, hnt, hns]
      simp
    · by_cases hat : a = tt
      · subst hat
        have e : srcOrder a ss idle (a :: d) = Src.tt :: srcOrder a ss idle d := by simp [srcOrder, srcOf]
        rw [e]
        simp only [orderOk]
        exact ih hnd.2 (fun h => absurd h hnd.1) (hstep ss hts hai h2)
      · by_cases has : a = ss
        · subst has
          have e : srcOrder tt a idle (a :: d) = Src.ss :: srcOrder tt a idle d := by
            simp [srcOrder, srcOf, Ne.symm hts]
          rw [e]
          simp only [orderOk]
          exact ih hnd.2 (hstep tt (Ne.symm hts) hai h1) (fun h => absurd h hnd.1)
        · have e : srcOrder tt ss idle (a :: d) = srcOrder tt ss idle d := by
            simp [srcOrder, srcOf, hat, has, hai]
          rw [e]
          exact ih hnd.2 (hstep tt hat hai h1) (hstep ss has hai h2)

theorem srcOrder_nodup (tt ss idle : Nat) (hts : tt ≠ ss) (hti : tt ≠ idle) (hsi : ss ≠ idle) (d : List Nat)
    (hnd : d.Nodup) : (srcOrder tt ss idle d).Nodup := by
  unfold srcOrder
  refine List.Pairwise.filterMap _ ?_ hnd
  intro a a' hne b hb b' hb' hbb
  subst hbb
  obtain ⟨i1, i2, i3⟩ := srcOf_iff tt ss idle hts hti hsi a
  obtain ⟨j1, j2, j3⟩ := srcOf_iff tt ss idle hts hti hsi a'
  cases b with
  | tt => exact hne ((i1.mp hb).trans (j1.mp hb').symm)
  | ss => exact hne ((i2.mp hb).trans (j2.mp hb').symm)
  | idle => exact hne ((i3.mp hb).trans (j3.mp hb').symm)

/-- **dirty_level_ordered** for the thread-state and affinity events (ovni
    `OH*`, `OA*`), derived from the emulator's bay instead of assumed.  For the
    bay `emu_connect` builds (`Shape.connect`, C06) and every emulator step that
    writes only system channels (`SimP Src.isSys`, e.g. `SimP.preThread`): all
    track outputs are appended to the dirty list while the written channels are
    processed (so all three CPU channels are on the list before any of them is
    processed), those of one CPU and one model in channel-index order; hence for
    any channels `itt`, `iss` below `iidle` (nOS-V: task type 2, subsystem 4,
    idle 6) the order hypothesis `orderOk` of `dirty_level_ordered_partial`
    holds for the CPU's three breakdown inputs. -/
theorem dirty_level_ordered_sys {e e' : Ovni.Emu.Emu} {b0 b : Ovni.Emu.Bay} (hc : e.shape.connect = .ok b0)
    (hs : Ovni.Emu.Shaped e) (hi : Ovni.Emu.Inv b0 e b) (hsim : Ovni.Emu.SimP Ovni.Emu.Src.isSys e e')
    {c k itt iss iidle : Nat} {m : Ovni.Emu.ModelSpec} (hcl : c < e.cpus.length) (hk : e.specs[k]? = some m)
    (h1 : itt < iidle) (h2 : iss < iidle) (h3 : iidle < m.nch) (hne : itt ≠ iss) :
    ∃ b1 bP bF em, Ovni.Emu.Bay.Writes (e.shape.okP Ovni.Emu.Src.isSys) b b1 ∧ Ovni.Emu.Mirrors e' b1 ∧
      b1.dirtyPhase b1.chans.length 0 = .ok bP ∧ b1.propagate = .ok (bF, em) ∧ Ovni.Emu.Inv b0 e'.flushAll bF ∧
      bP.dirty = b1.dirty ++ b1.dirty.flatMap b0.selOuts ∧
      orderOk (dedup (srcOrder (e.shape.cpuOut c k itt) (e.shape.cpuOut c k iss) (e.shape.cpuOut c k iidle)
        bP.dirty)) = true := by
  obtain ⟨b1, bP, bF, em, hw, hm, hph, hp, hinv, wfP, hsub, hd, _⟩ := Ovni.Emu.Inv.sys_event hc hs hi hsim
  have hb := Ovni.Emu.Shape.connect_built hc
  have hk' : e.shape.specs[k]? = some m := hk
  have hcl' : c < e.shape.nC := hcl
  have hj : ∀ i, i < m.nch → Ovni.Emu.Job.cpu c k i ∈ e.shape.jobs :=
    fun i hi => (e.shape.mem_jobs_cpu c k i).mpr ⟨hcl', m, hk', hi⟩
  have hti : e.shape.cpuOut c k itt ≠ e.shape.cpuOut c k iidle :=
    Nat.ne_of_lt (e.shape.cpuOut_lt (hj itt (by omega)) (hj iidle h3) h1)
  have hsi : e.shape.cpuOut c k iss ≠ e.shape.cpuOut c k iidle :=
    Nat.ne_of_lt (e.shape.cpuOut_lt (hj iss (by omega)) (hj iidle h3) h2)
  have hts : e.shape.cpuOut c k itt ≠ e.shape.cpuOut c k iss := by
    rcases Nat.lt_or_gt_of_ne hne with h | h
    · exact Nat.ne_of_lt (e.shape.cpuOut_lt (hj itt (by omega)) (hj iss (by omega)) h)
    · exact Nat.ne_of_gt (e.shape.cpuOut_lt (hj iss (by omega)) (hj itt (by omega)) h)
  have hD : ∀ s ∈ b1.dirty, s < e.shape.L := fun s h => Ovni.Emu.Shape.okP_lt (hsub s h)
  refine ⟨b1, bP, bF, em, hw, hm, hph, hp, hinv, hd, ?_⟩
  rw [dedup_of_nodup _ (srcOrder_nodup _ _ _ hts hti hsi _ wfP.dirtyNodup)]
  exact orderOk_of_positions _ _ _ hts hti hsi _ wfP.dirtyNodup
    (fun hx hy => hb.cpu_order hd hD hcl' hk' h1 h3 hx hy)
    (fun hx hy => hb.cpu_order hd hD hcl' hk' h2 h3 hx hy)

/-- The ovni thread events (`OHx OHe OHp OHr OHc OHw`) are such steps. -/
theorem dirty_level_ordered_thread_events {e e' : Ovni.Emu.Emu} {ti v : Nat} {p : List Nat}
    (h : Ovni.Emu.preThread e ti v p = .ok e') : Ovni.Emu.SimP Ovni.Emu.Src.isSys e e' :=
  Ovni.Emu.SimP.preThread h

/-- … and so are the affinity events (`OAs`, `OAr`). -/
theorem dirty_level_ordered_affinity_events {e e' : Ovni.Emu.Emu} {ti : Nat} {p : List Nat} :
    (Ovni.Emu.preAffinitySet e ti p = .ok e' → Ovni.Emu.SimP Ovni.Emu.Src.isSys e e') ∧
    (Ovni.Emu.preAffinityRemote e ti p = .ok e' → Ovni.Emu.SimP Ovni.Emu.Src.isSys e e') :=
  ⟨Ovni.Emu.SimP.preAffinitySet, Ovni.Emu.SimP.preAffinityRemote⟩

/-- **dirty_level_ordered** for the events that write raw model channels, derived
    from the emulator's bay.  For the bay `emu_connect` builds and every emulator
    step that writes sources of a class `P` containing neither the CPU's
    `th_running` nor the idle channel `iidle` of model `k` of any thread: the CPU
    track of `iidle` does not enter the dirty list at all (a track output enters
    only when its select channel or one of its inputs was written,
    `Bay.dirtyPhase_reached`), so no `idle` entry is ahead of an `ss` / `tt`
    entry: `orderOk` holds for the CPU's three breakdown inputs, whatever the
    order in which the handler wrote `ss` and `tt`. -/
theorem dirty_level_ordered_raw {P : Ovni.Emu.Src → Prop} {e e' : Ovni.Emu.Emu} {b0 b : Ovni.Emu.Bay}
    (hc : e.shape.connect = .ok b0) (hs : Ovni.Emu.Shaped e) (hi : Ovni.Emu.Inv b0 e b)
    (hsim : Ovni.Emu.SimP P e e')
    {c k itt iss iidle : Nat} {m : Ovni.Emu.ModelSpec} (hcl : c < e.cpus.length) (hk : e.specs[k]? = some m)
    (h1 : itt < iidle) (h2 : iss < iidle) (h3 : iidle < m.nch) (hne : itt ≠ iss)
    (hrun : ¬ P (.run c)) (hidle : ∀ g, ¬ P (.raw g k iidle)) :
    ∃ b1 bP bF em, Ovni.Emu.Bay.Writes (e.shape.okP P) b b1 ∧ Ovni.Emu.Mirrors e' b1 ∧
      b1.dirtyPhase b1.chans.length 0 = .ok bP ∧ b1.propagate = .ok (bF, em) ∧ Ovni.Emu.Inv b0 e'.flushAll bF ∧
      e.shape.cpuOut c k iidle ∉ bP.dirty ∧
      orderOk (dedup (srcOrder (e.shape.cpuOut c k itt) (e.shape.cpuOut c k iss) (e.shape.cpuOut c k iidle)
        bP.dirty)) = true := by
  obtain ⟨b1, bP, bF, em, hw, hm, hph, hp, hinv, wfP, hmx, hdsub, hreach⟩ := Ovni.Emu.Inv.any_event hc hs hi hsim
  have hb := Ovni.Emu.Shape.connect_built hc
  have hk' : e.shape.specs[k]? = some m := hk
  have hcl' : c < e.shape.nC := hcl
  have hj : ∀ i, i < m.nch → Ovni.Emu.Job.cpu c k i ∈ e.shape.jobs :=
    fun i hi => (e.shape.mem_jobs_cpu c k i).mpr ⟨hcl', m, hk', hi⟩
  have hti : e.shape.cpuOut c k itt ≠ e.shape.cpuOut c k iidle :=
    Nat.ne_of_lt (e.shape.cpuOut_lt (hj itt (by omega)) (hj iidle h3) h1)
  have hsi : e.shape.cpuOut c k iss ≠ e.shape.cpuOut c k iidle :=
    Nat.ne_of_lt (e.shape.cpuOut_lt (hj iss (by omega)) (hj iidle h3) h2)
  have hts : e.shape.cpuOut c k itt ≠ e.shape.cpuOut c k iss := by
    rcases Nat.lt_or_gt_of_ne hne with h | h
    · exact Nat.ne_of_lt (e.shape.cpuOut_lt (hj itt (by omega)) (hj iss (by omega)) h)
    · exact Nat.ne_of_gt (e.shape.cpuOut_lt (hj iss (by omega)) (hj itt (by omega)) h)
  have hnot : e.shape.cpuOut c k iidle ∉ bP.dirty := fun hx =>
    hb.cpuOut_not_reached hmx hdsub hcl' hk' h3 hrun hidle (hreach _ hx)
  refine ⟨b1, bP, bF, em, hw, hm, hph, hp, hinv, hnot, ?_⟩
  rw [dedup_of_nodup _ (srcOrder_nodup _ _ _ hts hti hsi _ wfP.dirtyNodup)]
  exact orderOk_of_positions _ _ _ hts hti hsi _ wfP.dirtyNodup
    (fun _ hy => absurd hy hnot) (fun _ hy => absurd hy hnot)

/-- The task events of nOS-V and Nanos6 (`VTx VTe VTp VTr`, `6Tx …`, and the
    creation events, which write nothing) are such steps: the task hook
    (`Emu/TaskHook.lean`: `update_task` = the task / body rules of `Emu/Task.lean`
    plus the channel writes in the order of the C code — subsystem push / pop
    first, then body id, task id, type, app id, rank) writes only task channels
    of the event's thread. -/
theorem dirty_level_ordered_task_events {tm : Ovni.Task.Model} {P : Ovni.Task.ProcInfo} {ε : Ovni.Task.Emu}
    {ev : Ovni.Task.Ev} {e e' : Ovni.Emu.Emu} {ti a b : Nat} {p : List Nat}
    (h : Ovni.Emu.taskHook tm P ε ev e ti a b p = .ok e') :
    Ovni.Emu.SimP (Ovni.Emu.rawOf ti (Ovni.Emu.taskIdx tm).all) e e' :=
  Ovni.Emu.taskHook_simP h

/-- The idle channel is not a task channel: nOS-V `CH_IDLE = 6`, Nanos6 `CH_IDLE = 5`. -/
theorem idle_not_task_channel :
    6 ∉ (Ovni.Emu.taskIdx .nosv).all ∧ 5 ∉ (Ovni.Emu.taskIdx .nanos6).all := by decide

/-- **dirty_level_ordered for the task events, no order hypothesis.**  For every
    task event accepted by the task hook, every CPU and every choice of
    `itt`, `iss` below an idle channel `iidle` that is not a task channel (nOS-V:
    2, 4, 6; Nanos6: 1, 2, 5 — `idle_not_task_channel`), `orderOk` holds for the
    CPU's breakdown inputs after the dirty phase. -/
theorem dirty_level_ordered_task {tm : Ovni.Task.Model} {P : Ovni.Task.ProcInfo} {ε : Ovni.Task.Emu}
    {ev : Ovni.Task.Ev} {e e' : Ovni.Emu.Emu} {b0 b : Ovni.Emu.Bay} {ti a b' : Nat} {p : List Nat}
    (hc : e.shape.connect = .ok b0) (hs : Ovni.Emu.Shaped e) (hi : Ovni.Emu.Inv b0 e b)
    (h : Ovni.Emu.taskHook tm P ε ev e ti a b' p = .ok e')
    {c k itt iss iidle : Nat} {m : Ovni.Emu.ModelSpec} (hcl : c < e.cpus.length) (hk : e.specs[k]? = some m)
    (h1 : itt < iidle) (h2 : iss < iidle) (h3 : iidle < m.nch) (hne : itt ≠ iss)
    (hidle : iidle ∉ (Ovni.Emu.taskIdx tm).all) :
    ∃ b1 bP bF em, Ovni.Emu.Bay.Writes (· < e.shape.L) b b1 ∧ Ovni.Emu.Mirrors e' b1 ∧
      b1.dirtyPhase b1.chans.length 0 = .ok bP ∧ b1.propagate = .ok (bF, em) ∧ Ovni.Emu.Inv b0 e'.flushAll bF ∧
      orderOk (dedup (srcOrder (e.shape.cpuOut c k itt) (e.shape.cpuOut c k iss) (e.shape.cpuOut c k iidle)
        bP.dirty)) = true := by
  obtain ⟨b1, bP, bF, em, hw, hm, hph, hp, hinv, _, ho⟩ :=
    dirty_level_ordered_raw hc hs hi (Ovni.Emu.taskHook_simP h) hcl hk h1 h2 h3 hne
      (by rintro ⟨_, _, hx, _⟩; cases hx)
      (by rintro g ⟨_, _, hx, hmem⟩; cases hx; exact hidle hmem)
  exact ⟨b1, bP, bF, em, hw.mono (fun _ h => Ovni.Emu.Shape.okP_lt h), hm, hph, hp, hinv, ho⟩

/-- **dirty_level_ordered (per CPU) without the order hypothesis**, for what
    the emulator produces: if `sets` are the writes the CPU's breakdown sees when
    the dirty list after a thread-state / affinity event (`dirty_level_ordered_sys`)
    or a task event (`dirty_level_ordered_task`) is walked, the conclusion of
    `dirty_level_ordered_partial` holds. -/
theorem dirty_level_ordered_emu (k : Consts) (c : Cpu) (sets : List (Src × Value)) (hq : Quiescent k c)
    (tt ss idle : Nat) (d : List Nat) (hd : sets.map (·.1) = srcOrder tt ss idle d)
    (ho : orderOk (dedup (srcOrder tt ss idle d)) = true) :
    let c' := step k c sets
    Quiescent k c' ∧ c'.seen = c'.tri ∧ c'.tri = triSpec k c'.tr c'.idle :=
  dirty_level_ordered_partial k c sets hq (hd ▸ ho)

/-! ### The table events (`VPp VPr VPa` write the idle channel), and the positions of
`ss` / `tt` after a task event -/

/-- A step that writes neither the CPU's `th_running` nor the channels `itt`, `iss`
    of model `k` of any thread (in particular: a step that writes only the idle
    channel) leaves the CPU tracks of `itt` and `iss` off the dirty list: the CPU's
    breakdown sees at most `[idle]`, and `orderOk` holds. -/
theorem dirty_level_ordered_idle {P : Ovni.Emu.Src → Prop} {e e' : Ovni.Emu.Emu} {b0 b : Ovni.Emu.Bay}
    (hc : e.shape.connect = .ok b0) (hs : Ovni.Emu.Shaped e) (hi : Ovni.Emu.Inv b0 e b)
    (hsim : Ovni.Emu.SimP P e e')
    {c k itt iss iidle : Nat} {m : Ovni.Emu.ModelSpec} (hcl : c < e.cpus.length) (hk : e.specs[k]? = some m)
    (h1 : itt < iidle) (h2 : iss < iidle) (h3 : iidle < m.nch) (hne : itt ≠ iss)
    (hrun : ¬ P (.run c)) (htt : ∀ g, ¬ P (.raw g k itt)) (hss : ∀ g, ¬ P (.raw g k iss)) :
    ∃ b1 bP bF em, Ovni.Emu.Bay.Writes (e.shape.okP P) b b1 ∧ Ovni.Emu.Mirrors e' b1 ∧
      b1.dirtyPhase b1.chans.length 0 = .ok bP ∧ b1.propagate = .ok (bF, em) ∧ Ovni.Emu.Inv b0 e'.flushAll bF ∧
      e.shape.cpuOut c k itt ∉ bP.dirty ∧ e.shape.cpuOut c k iss ∉ bP.dirty ∧
      orderOk (dedup (srcOrder (e.shape.cpuOut c k itt) (e.shape.cpuOut c k iss) (e.shape.cpuOut c k iidle)
        bP.dirty)) = true := by
  obtain ⟨b1, bP, bF, em, hw, hm, hph, hp, hinv, wfP, hmx, hdsub, hreach⟩ := Ovni.Emu.Inv.any_event hc hs hi hsim
  have hb := Ovni.Emu.Shape.connect_built hc
  have hk' : e.shape.specs[k]? = some m := hk
  have hcl' : c < e.shape.nC := hcl
  have hj : ∀ i, i < m.nch → Ovni.Emu.Job.cpu c k i ∈ e.shape.jobs :=
    fun i hi => (e.shape.mem_jobs_cpu c k i).mpr ⟨hcl', m, hk', hi⟩
  have hti : e.shape.cpuOut c k itt ≠ e.shape.cpuOut c k iidle :=
    Nat.ne_of_lt (e.shape.cpuOut_lt (hj itt (by omega)) (hj iidle h3) h1)
  have hsi : e.shape.cpuOut c k iss ≠ e.shape.cpuOut c k iidle :=
    Nat.ne_of_lt (e.shape.cpuOut_lt (hj iss (by omega)) (hj iidle h3) h2)
  have hts : e.shape.cpuOut c k itt ≠ e.shape.cpuOut c k iss := by
    rcases Nat.lt_or_gt_of_ne hne with h | h
    · exact Nat.ne_of_lt (e.shape.cpuOut_lt (hj itt (by omega)) (hj iss (by omega)) h)
    · exact Nat.ne_of_gt (e.shape.cpuOut_lt (hj iss (by omega)) (hj itt (by omega)) h)
  have hnt : e.shape.cpuOut c k itt ∉ bP.dirty := fun hx =>
    hb.cpuOut_not_reached hmx hdsub hcl' hk' (by omega) hrun htt (hreach _ hx)
  have hns : e.shape.cpuOut c k iss ∉ bP.dirty := fun hx =>
    hb.cpuOut_not_reached hmx hdsub hcl' hk' (by omega) hrun hss (hreach _ hx)
  refine ⟨b1, bP, bF, em, hw, hm, hph, hp, hinv, hnt, hns, ?_⟩
  rw [dedup_of_nodup _ (srcOrder_nodup _ _ _ hts hti hsi _ wfP.dirtyNodup)]
  exact orderOk_of_positions _ _ _ hts hti hsi _ wfP.dirtyNodup
    (fun hx _ => absurd hx hnt) (fun hx _ => absurd hx hns)

/-- A table event writes at most one channel (`simple`: one `chan_push` /
    `chan_pop` / `chan_set` on `entry[0]`). -/
theorem tableChans_single (m : Ovni.Emu.ModelSpec) (c v : Nat) :
    Ovni.Emu.tableChans m c v = [] ∨ ∃ ch, Ovni.Emu.tableChans m c v = [ch] := by
  unfold Ovni.Emu.tableChans
  split
  · split
    · exact Or.inr ⟨_, rfl⟩
    · exact Or.inl rfl
  · exact Or.inl rfl

/-- **dirty_level_ordered for every table event, the idle events included.**
    What `orderOk` asks of the idle channel — no `idle` entry of the CPU ahead of
    an `ss` / `tt` entry on the dirty list — is a constraint on events that put
    BOTH kinds on the list.  A table event (`simple` of nOS-V / Nanos6, in
    particular `VPp VPr VPa` / `6Pp 6Pr 6Pa`, `SimP.tableEventP`) writes one
    channel `ch` of its thread: if `ch` is the idle channel, the `ss` and `tt`
    tracks stay off the list (`dirty_level_ordered_idle`); otherwise the idle
    track does (`dirty_level_ordered_raw`).  Either way `orderOk` holds, for every
    CPU, with no hypothesis on the order. -/
theorem dirty_level_ordered_table {e e' : Ovni.Emu.Emu} {b0 b : Ovni.Emu.Bay} {ti ec ev : Nat}
    {ms : Ovni.Emu.ModelSpec} (hc : e.shape.connect = .ok b0) (hs : Ovni.Emu.Shaped e) (hi : Ovni.Emu.Inv b0 e b)
    (h : Ovni.Emu.tableEvent e ti ms ec ev = .ok e')
    {c k itt iss iidle : Nat} {m : Ovni.Emu.ModelSpec} (hcl : c < e.cpus.length) (hk : e.specs[k]? = some m)
    (h1 : itt < iidle) (h2 : iss < iidle) (h3 : iidle < m.nch) (hne : itt ≠ iss) :
    ∃ b1 bP bF em, Ovni.Emu.Bay.Writes (· < e.shape.L) b b1 ∧ Ovni.Emu.Mirrors e' b1 ∧
      b1.dirtyPhase b1.chans.length 0 = .ok bP ∧ b1.propagate = .ok (bF, em) ∧ Ovni.Emu.Inv b0 e'.flushAll bF ∧
      (iidle ∈ Ovni.Emu.tableChans ms ec ev →
        e.shape.cpuOut c k itt ∉ bP.dirty ∧ e.shape.cpuOut c k iss ∉ bP.dirty) ∧
      (iidle ∉ Ovni.Emu.tableChans ms ec ev → e.shape.cpuOut c k iidle ∉ bP.dirty) ∧
      orderOk (dedup (srcOrder (e.shape.cpuOut c k itt) (e.shape.cpuOut c k iss) (e.shape.cpuOut c k iidle)
        bP.dirty)) = true := by
  have hsim := Ovni.Emu.SimP.tableEventP h
  have hrun : ¬ Ovni.Emu.rawOf ti (Ovni.Emu.tableChans ms ec ev) (.run c) := by
    rintro ⟨_, _, hx, _⟩; cases hx
  by_cases hid : iidle ∈ Ovni.Emu.tableChans ms ec ev
  · have hone : Ovni.Emu.tableChans ms ec ev = [iidle] := by
      rcases tableChans_single ms ec ev with h0 | ⟨ch, h0⟩
      · rw [h0] at hid; cases hid
      · rw [h0] at hid ⊢; simp only [List.mem_singleton] at hid; rw [hid]
    obtain ⟨b1, bP, bF, em, hw, hm, hph, hp, hinv, hnt, hns, ho⟩ :=
      dirty_level_ordered_idle hc hs hi hsim hcl hk h1 h2 h3 hne hrun
        (by rintro g ⟨_, _, hx, hmem⟩; cases hx; rw [hone] at hmem; simp only [List.mem_singleton] at hmem; omega)
        (by rintro g ⟨_, _, hx, hmem⟩; cases hx; rw [hone] at hmem; simp only [List.mem_singleton] at hmem; omega)
    exact ⟨b1, bP, bF, em, hw.mono (fun _ h => Ovni.Emu.Shape.okP_lt h), hm, hph, hp, hinv,
      fun _ => ⟨hnt, hns⟩, fun hn => absurd hid hn, ho⟩
  · obtain ⟨b1, bP, bF, em, hw, hm, hph, hp, hinv, hnot, ho⟩ :=
      dirty_level_ordered_raw hc hs hi hsim hcl hk h1 h2 h3 hne hrun
        (by rintro g ⟨_, _, hx, hmem⟩; cases hx; exact hid hmem)
    exact ⟨b1, bP, bF, em, hw.mono (fun _ h => Ovni.Emu.Shape.okP_lt h), hm, hph, hp, hinv,
      fun hy => absurd hy hid, fun _ => hnot, ho⟩

/-- The rows of the generated tables on the idle channel: nOS-V `VPa VPp VPr`
    (`CH_IDLE = 6`), Nanos6 `6Pa 6Pp 6Pr` (`CH_IDLE = 5`), all `chan_set`; they
    write exactly the idle channel. -/
theorem idle_rows :
    (Ovni.Emu.specNosv.table.filter (fun r => r.2.2.1 == 6)).map (fun r => (r.1, r.2.1, r.2.2.2.1)) =
      [(80, 97, 3), (80, 112, 3), (80, 114, 3)] ∧
    (Ovni.Emu.specNanos6.table.filter (fun r => r.2.2.1 == 5)).map (fun r => (r.1, r.2.1, r.2.2.2.1)) =
      [(80, 97, 3), (80, 112, 3), (80, 114, 3)] ∧
    (∀ v ∈ [97, 112, 114], Ovni.Emu.tableChans Ovni.Emu.specNosv 80 v = [6] ∧
      Ovni.Emu.tableChans Ovni.Emu.specNanos6 80 v = [5]) := by decide

/-! #### positions of `ss` / `tt` after a task event -/

theorem srcOrder_nil_of_absent (tt ss idle : Nat) (d : List Nat) (h1 : tt ∉ d) (h2 : ss ∉ d) (h3 : idle ∉ d) :
    srcOrder tt ss idle d = [] := by
  unfold srcOrder
  rw [List.filterMap_eq_nil_iff]
  intro a ha
  have e1 : a ≠ tt := fun e => h1 (e ▸ ha)
  have e2 : a ≠ ss := fun e => h2 (e ▸ ha)
  have e3 : a ≠ idle := fun e => h3 (e ▸ ha)
  simp [srcOf, e1, e2, e3]

theorem srcOrder_cons_other {tt ss idle a : Nat} (d : List Nat) (h1 : a ≠ tt) (h2 : a ≠ ss) (h3 : a ≠ idle) :
    srcOrder tt ss idle (a :: d) = srcOrder tt ss idle d := by
  simp [srcOrder, srcOf, h1, h2, h3]

/-- no `ss`, no `idle` on a duplicate-free list: the projection is `[]` or `[tt]` -/
theorem srcOrder_sublist_tt (tt ss idle : Nat) : ∀ (d : List Nat), d.Nodup → ss ∉ d → idle ∉ d →
    (srcOrder tt ss idle d).Sublist [Src.tt] := by
  intro d
  induction d with
  | nil => intro _ _ _; exact List.nil_sublist _
  | cons a d ih =>
    intro hnd hs hi
    rw [List.nodup_cons] at hnd
    have has : a ≠ ss := fun e => hs (by simp [e])
    have hai : a ≠ idle := fun e => hi (by simp [e])
    have hs' : ss ∉ d := fun h => hs (by simp [h])
    have hi' : idle ∉ d := fun h => hi (by simp [h])
    by_cases hat : a = tt
    · subst hat
      have e : srcOrder a ss idle (a :: d) = Src.tt :: srcOrder a ss idle d := by simp [srcOrder, srcOf]
      rw [e, srcOrder_nil_of_absent _ _ _ d hnd.1 hs' hi']
      exact List.Sublist.refl _
    · rw [srcOrder_cons_other d hat has hai]
      exact ih hnd.2 hs' hi'

/-- **From positions to the projected list.**  On a duplicate-free dirty list
    without the `idle` track and with the `ss` track ahead of the `tt` track
    (whenever both are present), what the CPU's breakdown sees is a sublist of
    `[ss, tt]`: one of `[]`, `[ss]`, `[tt]`, `[ss, tt]`. -/
theorem srcOrder_sublist_of_positions (tt ss idle : Nat) (hts : tt ≠ ss) : ∀ (d : List Nat), d.Nodup → idle ∉ d →
    (ss ∈ d → tt ∈ d → d.idxOf ss < d.idxOf tt) → (srcOrder tt ss idle d).Sublist [Src.ss, Src.tt] := by
  intro d
  induction d with
  | nil => intro _ _ _; exact List.nil_sublist _
  | cons a d ih =>
    intro hnd hi hord
    rw [List.nodup_cons] at hnd
    have hai : a ≠ idle := fun e => hi (by simp [e])
    have hi' : idle ∉ d := fun h => hi (by simp [h])
    by_cases hat : a = tt
    · -- `tt` first: no `ss` may follow
      subst hat
      have hns : ss ∉ d := by
        intro h
        have := hord (by simp [h]) (by simp)
        rw [idxOf_cons_ne hts, List.idxOf_cons] at this
        simp at this
      have e : srcOrder a ss idle (a :: d) = Src.tt :: srcOrder a ss idle d := by simp [srcOrder, srcOf]
      rw [e, srcOrder_nil_of_absent _ _ _ d hnd.1 hns hi']
      exact List.Sublist.cons _ (List.Sublist.refl _)
    · by_cases has : a = ss
      · subst has
        have e : srcOrder tt a idle (a :: d) = Src.ss :: srcOrder tt a idle d := by
          simp [srcOrder, srcOf, Ne.symm hts]
        rw [e]
        exact List.Sublist.cons_cons _ (srcOrder_sublist_tt tt a idle d hnd.2 hnd.1 hi')
      · rw [srcOrder_cons_other d hat has hai]
        refine ih hnd.2 hi' (fun hx hy => ?_)
        have := hord (by simp [hx]) (by simp [hy])
        rw [idxOf_cons_ne has, idxOf_cons_ne hat] at this
        omega

/-- **The dirty list after a task event: `ss` before `tt`, no `idle`.**  For
    every task event accepted by the task hook (`VTx VTe VTp VTr`, `6Tx …`; the
    creation events write nothing), every CPU, and channels `iss` = the model's
    subsystem channel, `itt` one of the channels `update_task_channels` sets (the
    task type), `iidle` not a task channel (nOS-V: 4, 2, 6; Nanos6: 2, 1, 5 —
    `task_channel_groups`): after the dirty phase the idle track of the CPU is not
    on the dirty list, the `ss` track precedes the `tt` track whenever both are
    there — `update_task` calls `update_task_ss_channel` before
    `update_task_channels`, and outputs enter the list in the order in which their
    inputs are processed (`Bay.dirtyPhase_ordered`) — hence what the CPU's
    breakdown sees is a sublist of `[ss, tt]`; and for an event other than
    `x` / `e` (pause, resume) the `ss` track is absent: a sublist of `[tt]`. -/
theorem task_event_dirty_positions {tm : Ovni.Task.Model} {P : Ovni.Task.ProcInfo} {ε : Ovni.Task.Emu}
    {ev : Ovni.Task.Ev} {e e' : Ovni.Emu.Emu} {b0 b : Ovni.Emu.Bay} {ti a b' : Nat} {p : List Nat}
    (hc : e.shape.connect = .ok b0) (hs : Ovni.Emu.Shaped e) (hi : Ovni.Emu.Inv b0 e b)
    (h : Ovni.Emu.taskHook tm P ε ev e ti a b' p = .ok e')
    {c k itt iidle : Nat} {m : Ovni.Emu.ModelSpec} (hcl : c < e.cpus.length) (hk : e.specs[k]? = some m)
    (hss : (Ovni.Emu.taskIdx tm).ss < m.nch) (htt : itt < m.nch) (h3 : iidle < m.nch)
    (hin : itt ∈ (Ovni.Emu.taskIdx tm).sets) (hssn : (Ovni.Emu.taskIdx tm).ss ∉ (Ovni.Emu.taskIdx tm).sets)
    (hidle : iidle ∉ (Ovni.Emu.taskIdx tm).all) :
    let iss := (Ovni.Emu.taskIdx tm).ss
    ∃ b1 bP bF em, Ovni.Emu.Bay.Writes (e.shape.okP (Ovni.Emu.rawOf ti (Ovni.Emu.taskIdx tm).all)) b b1 ∧
      Ovni.Emu.Mirrors e' b1 ∧
      b1.dirtyPhase b1.chans.length 0 = .ok bP ∧ b1.propagate = .ok (bF, em) ∧ Ovni.Emu.Inv b0 e'.flushAll bF ∧
      bP.WF ∧ e.shape.cpuOut c k iidle ∉ bP.dirty ∧
      (e.shape.cpuOut c k iss ∈ bP.dirty → e.shape.cpuOut c k itt ∈ bP.dirty →
        bP.dirty.idxOf (e.shape.cpuOut c k iss) < bP.dirty.idxOf (e.shape.cpuOut c k itt)) ∧
      (srcOrder (e.shape.cpuOut c k itt) (e.shape.cpuOut c k iss) (e.shape.cpuOut c k iidle) bP.dirty).Sublist
        [Src.ss, Src.tt] ∧
      ((∀ th t bp, ev ≠ .task th .x t bp ∧ ev ≠ .task th .e t bp) →
        e.shape.cpuOut c k iss ∉ bP.dirty ∧
        (srcOrder (e.shape.cpuOut c k itt) (e.shape.cpuOut c k iss) (e.shape.cpuOut c k iidle) bP.dirty).Sublist
          [Src.tt]) := by
  intro iss
  obtain ⟨e1, s1, s2, hsame⟩ := Ovni.Emu.taskHook_two_phase h
  have hb := Ovni.Emu.Shape.connect_built hc
  have hk' : e.shape.specs[k]? = some m := hk
  have hcl' : c < e.shape.nC := hcl
  have hne : iss ≠ itt := fun hq => hssn (by rw [← hq] at hin; exact hin)
  have hj : ∀ i, i < m.nch → Ovni.Emu.Job.cpu c k i ∈ e.shape.jobs :=
    fun i hi => (e.shape.mem_jobs_cpu c k i).mpr ⟨hcl', m, hk', hi⟩
  have hts : e.shape.cpuOut c k itt ≠ e.shape.cpuOut c k iss := by
    rcases Nat.lt_or_gt_of_ne hne with h | h
    · exact Nat.ne_of_gt (e.shape.cpuOut_lt (hj iss hss) (hj itt htt) h)
    · exact Nat.ne_of_lt (e.shape.cpuOut_lt (hj itt htt) (hj iss hss) h)
  have hsets_all : ∀ i, i ∈ (Ovni.Emu.taskIdx tm).sets → i ∈ (Ovni.Emu.taskIdx tm).all := by
    intro i hi
    unfold Ovni.Emu.TaskChanIdx.sets at hi
    unfold Ovni.Emu.TaskChanIdx.all
    simp only [List.mem_append, List.mem_cons, List.not_mem_nil, or_false] at hi ⊢
    rcases hi with ((h | h | h) | h) | h
    · exact Or.inl (Or.inl (Or.inl h))
    · exact Or.inl (Or.inl (Or.inr (Or.inl h)))
    · exact Or.inl (Or.inl (Or.inr (Or.inr h)))
    · exact Or.inl (Or.inr h)
    · exact Or.inr (Or.inr h)
  have hss_all : iss ∈ (Ovni.Emu.taskIdx tm).all := by
    unfold Ovni.Emu.TaskChanIdx.all; simp [iss]
  by_cases hpr : ∀ th t bp, ev ≠ .task th .x t bp ∧ ev ≠ .task th .e t bp
  · -- pause / resume / creation: only the `chan_set`s
    have he1 := hsame hpr
    rw [he1] at s2
    obtain ⟨b1, bP, bF, em, hw, hm, hph, hp, hinv, wfP, hmx, hdsub, hreach⟩ := Ovni.Emu.Inv.any_event hc hs hi s2
    have hnot : e.shape.cpuOut c k iidle ∉ bP.dirty := fun hx =>
      hb.cpuOut_not_reached hmx hdsub hcl' hk' h3 (by rintro ⟨_, _, hx, _⟩; cases hx)
        (by rintro g ⟨_, _, hx, hmem⟩; cases hx; exact hidle (hsets_all _ hmem)) (hreach _ hx)
    have hnoss : e.shape.cpuOut c k iss ∉ bP.dirty := fun hx =>
      hb.cpuOut_not_reached hmx hdsub hcl' hk' hss (by rintro ⟨_, _, hx, _⟩; cases hx)
        (by rintro g ⟨_, _, hx, hmem⟩; cases hx; exact hssn hmem) (hreach _ hx)
    have hsub := srcOrder_sublist_tt (e.shape.cpuOut c k itt) _ _ _ wfP.dirtyNodup hnoss hnot
    exact ⟨b1, bP, bF, em, hw.mono (fun _ ⟨s0, a1, ⟨k0, i0, a2, a3⟩, a4⟩ => ⟨s0, a1, ⟨k0, i0, a2, hsets_all _ a3⟩, a4⟩),
      hm, hph, hp, hinv, wfP, hnot,
      fun hx _ => absurd hx hnoss, List.Sublist.cons _ hsub, fun _ => ⟨hnoss, hsub⟩⟩
  · obtain ⟨b1, bP, bF, em, D1, D2, A, hw, hm, hph, hp, hinv, wfP, hmx, hd, hd1, hd2, hdP, _, hord, hreach⟩ :=
      Ovni.Emu.Inv.two_phase_event hc hs hi s1 s2
    have hdsub : ∀ s ∈ b1.dirty, e.shape.okP
        (fun s => Ovni.Emu.rawOf ti [iss] s ∨ Ovni.Emu.rawOf ti (Ovni.Emu.taskIdx tm).sets s) s := by
      intro s hsd
      rw [hd] at hsd
      rcases List.mem_append.mp hsd with h | h
      · obtain ⟨s0, a1, a2, a3⟩ := hd1 s h; exact ⟨s0, a1, Or.inl a2, a3⟩
      · obtain ⟨s0, a1, a2, a3⟩ := hd2 s h; exact ⟨s0, a1, Or.inr a2, a3⟩
    have hnot : e.shape.cpuOut c k iidle ∉ bP.dirty := fun hx =>
      hb.cpuOut_not_reached hmx hdsub hcl' hk' h3
        (by rintro (⟨_, _, hx, _⟩ | ⟨_, _, hx, _⟩) <;> cases hx)
        (by
          rintro g (⟨_, _, hx, hmem⟩ | ⟨_, _, hx, hmem⟩)
          · cases hx; simp only [List.mem_singleton] at hmem; exact hidle (hmem ▸ hss_all)
          · cases hx; exact hidle (hsets_all _ hmem))
        (hreach _ hx)
    have hpos : e.shape.cpuOut c k iss ∈ bP.dirty → e.shape.cpuOut c k itt ∈ bP.dirty →
        bP.dirty.idxOf (e.shape.cpuOut c k iss) < bP.dirty.idxOf (e.shape.cpuOut c k itt) := by
      intro hx hy
      exact hb.cpu_order_two_phase hmx hd1 hd2 (by rw [hdP, hd]) (hd ▸ hord) hcl' hk' hss htt hne
        (by rintro ⟨_, _, hx, _⟩; cases hx) (by rintro ⟨_, _, hx, _⟩; cases hx)
        (by rintro g ⟨_, _, hx, hmem⟩; cases hx; exact hssn hmem)
        (by rintro g ⟨_, _, hx, hmem⟩; cases hx; simp only [List.mem_singleton] at hmem; exact hne hmem.symm)
        hx hy
    refine ⟨b1, bP, bF, em, hw.mono ?_, hm, hph, hp, hinv, wfP, hnot, hpos,
      srcOrder_sublist_of_positions _ _ _ hts _ wfP.dirtyNodup hnot hpos, fun h => absurd h hpr⟩
    rintro _ ⟨s0, a1, (⟨k0, i0, a2, a3⟩ | ⟨k0, i0, a2, a3⟩), a4⟩
    · simp only [List.mem_singleton] at a3
      exact ⟨s0, a1, ⟨k0, i0, a2, a3 ▸ hss_all⟩, a4⟩
    · exact ⟨s0, a1, ⟨k0, i0, a2, hsets_all _ a3⟩, a4⟩

theorem sublist_pair_full {l : List Src} (h : l.Sublist [Src.ss, Src.tt]) (h1 : Src.ss ∈ l) (h2 : Src.tt ∈ l) :
    l = [Src.ss, Src.tt] := by
  have hlen : [Src.ss, Src.tt].length ≤ l.length := by
    cases l with
    | nil => cases h1
    | cons a l =>
      cases l with
      | nil =>
        simp only [List.mem_singleton] at h1 h2
        rw [← h1] at h2; cases h2
      | cons b l => simp
  exact h.eq_of_length_le hlen

theorem sublist_single_full {l : List Src} (h : l.Sublist [Src.tt]) (h2 : Src.tt ∈ l) : l = [Src.tt] := by
  have hlen : [Src.tt].length ≤ l.length := by
    cases l with
    | nil => cases h2
    | cons a l => simp
  exact h.eq_of_length_le hlen

/-- **The exact dirty list after a task event, for the CPU the thread runs on.**
    In a coupled state (`Ovni.Emu.Coupled`, an invariant of every accepted
    history: `C06.coupled_history`), for the task-state event of thread `ti`
    accepted by the task hook and the CPU `c` whose `th_running` shows `ti`: after
    the dirty phase the CPU's breakdown inputs appear on the dirty list EXACTLY as
    `[ss, tt]` for `VTx` / `VTe` (`6Tx` / `6Te`) and as `[tt]` for `VTp` / `VTr`
    — `tt` = the task-type channel, `ss` = the subsystem channel, and no `idle`.
    Order: `update_task_ss_channel` before `update_task_channels`
    (`task_event_dirty_positions`); presence: `chan_push` / `chan_pop` always dirty
    the channel and the task type has `CHAN_ALLOW_DUP`, the CPU mux has the running
    thread's input callback enabled (`MuxSync` from `Inv`), and `cb_input` dirties
    the ALLOW_DUP output (`Inv.cpuOut_present`). -/
theorem task_event_dirty_exact {tm : Ovni.Task.Model} {P : Ovni.Task.ProcInfo} {ε : Ovni.Task.Emu}
    {e e' : Ovni.Emu.Emu} {b0 b : Ovni.Emu.Bay} {ti a k t bp : Nat} {tv : Ovni.Task.TaskEv} {p : List Nat}
    (hc : e.shape.connect = .ok b0) (hs : Ovni.Emu.Shaped e) (hi : Ovni.Emu.Inv b0 e b)
    (hk : e.specs[k]? = some (Ovni.Emu.specOf tm)) (hcp : Ovni.Emu.Coupled tm k e ε)
    (h : Ovni.Emu.taskHook tm P ε (.task ti tv t bp) e ti (Ovni.Emu.specOf tm).char a p = .ok e')
    {c iidle : Nat} {x : Ovni.Emu.Chan} (hcl : c < e.cpus.length) (hti : ti < e.threads.length)
    (hrun : e.src (.run c) = some x) (hcur : x.cur = .int (ti : Int))
    (h3 : iidle < (Ovni.Emu.specOf tm).nch) (hidle : iidle ∉ (Ovni.Emu.taskIdx tm).all) :
    let iss := (Ovni.Emu.taskIdx tm).ss
    let itt := (Ovni.Emu.taskIdx tm).typ
    ∃ b1 bP bF em, Ovni.Emu.Bay.Writes (· < e.shape.L) b b1 ∧ Ovni.Emu.Mirrors e' b1 ∧
      b1.dirtyPhase b1.chans.length 0 = .ok bP ∧ b1.propagate = .ok (bF, em) ∧ Ovni.Emu.Inv b0 e'.flushAll bF ∧
      srcOrder (e.shape.cpuOut c k itt) (e.shape.cpuOut c k iss) (e.shape.cpuOut c k iidle) bP.dirty =
        (if tv = .x ∨ tv = .e then [Src.ss, Src.tt] else [Src.tt]) := by
  intro iss itt
  have hgrp : iss < (Ovni.Emu.specOf tm).nch ∧ itt < (Ovni.Emu.specOf tm).nch ∧
      itt ∈ (Ovni.Emu.taskIdx tm).sets ∧ iss ∉ (Ovni.Emu.taskIdx tm).sets ∧
      itt ∈ (Ovni.Emu.taskIdx tm).all ∧ iss ∈ (Ovni.Emu.taskIdx tm).all := by
    cases tm <;> decide
  obtain ⟨g1, g2, g3, g4, g5, g6⟩ := hgrp
  obtain ⟨b1, bP, bF, em, hw, hm, hph, hp, hinv, wfP, hnot, _, hsub, hpr⟩ :=
    task_event_dirty_positions (c := c) (k := k) (itt := itt) (iidle := iidle) hc hs hi h hcl hk g1 g2 h3 g3 g4 hidle
  have hsh : e'.shape = e.shape := ((Ovni.Emu.taskHook_simP h) hs).2.1
  have hraw : ∀ s, Ovni.Emu.rawOf ti (Ovni.Emu.taskIdx tm).all s → s.isRaw := fun s hs => Ovni.Emu.rawOf_isRaw hs
  obtain ⟨⟨ch1, d1, d2⟩, hssd⟩ := Ovni.Emu.taskHook_task_dirty hs hk hcp hti h
  have hpt : e.shape.cpuOut c k itt ∈ bP.dirty :=
    Ovni.Emu.Inv.cpuOut_present hc hi hsh hw hm hph hraw hcl hk g2 hti hrun hcur d1 d2
  have hb := Ovni.Emu.Shape.connect_built hc
  have hk' : e.shape.specs[k]? = some (Ovni.Emu.specOf tm) := hk
  have hcl' : c < e.shape.nC := hcl
  have hj : ∀ i, i < (Ovni.Emu.specOf tm).nch → Ovni.Emu.Job.cpu c k i ∈ e.shape.jobs :=
    fun i hi => (e.shape.mem_jobs_cpu c k i).mpr ⟨hcl', _, hk', hi⟩
  have hne : iss ≠ itt := fun hq => g4 (hq ▸ g3)
  have hts : e.shape.cpuOut c k itt ≠ e.shape.cpuOut c k iss := by
    rcases Nat.lt_or_gt_of_ne hne with h | h
    · exact Nat.ne_of_gt (e.shape.cpuOut_lt (hj iss g1) (hj itt g2) h)
    · exact Nat.ne_of_lt (e.shape.cpuOut_lt (hj itt g2) (hj iss g1) h)
  have hti' : e.shape.cpuOut c k itt ≠ e.shape.cpuOut c k iidle := fun hq => hnot (hq ▸ hpt)
  have hsi' : e.shape.cpuOut c k iss ≠ e.shape.cpuOut c k iidle := by
    intro hq
    have h1 : iss ≠ iidle := fun hq2 => hidle (hq2 ▸ g6)
    rcases Nat.lt_or_gt_of_ne h1 with h | h
    · exact absurd hq (Nat.ne_of_lt (e.shape.cpuOut_lt (hj iss g1) (hj iidle h3) h))
    · exact absurd hq (Nat.ne_of_gt (e.shape.cpuOut_lt (hj iidle h3) (hj iss g1) h))
  have hmem := srcOrder_contains (e.shape.cpuOut c k itt) (e.shape.cpuOut c k iss) (e.shape.cpuOut c k iidle)
    hts hti' hsi' bP.dirty
  refine ⟨b1, bP, bF, em, hw.mono (fun _ h => Ovni.Emu.Shape.okP_lt h), hm, hph, hp, hinv, ?_⟩
  by_cases hxe : tv = .x ∨ tv = .e
  · rw [if_pos hxe]
    obtain ⟨ch2, d3, d4⟩ := hssd hxe
    have hps : e.shape.cpuOut c k iss ∈ bP.dirty :=
      Ovni.Emu.Inv.cpuOut_present hc hi hsh hw hm hph hraw hcl hk g1 hti hrun hcur d3 d4
    exact sublist_pair_full hsub (hmem.2.mpr hps) (hmem.1.mpr hpt)
  · rw [if_neg hxe]
    have hne2 : ∀ th t2 bp2, Ovni.Task.Ev.task ti tv t bp ≠ .task th .x t2 bp2 ∧
        Ovni.Task.Ev.task ti tv t bp ≠ .task th .e t2 bp2 := by
      intro th t2 bp2
      constructor
      · intro hq; injection hq with _ hq _ _; exact hxe (Or.inl hq)
      · intro hq; injection hq with _ hq _ _; exact hxe (Or.inr hq)
    exact sublist_single_full (hpr hne2).2 (hmem.1.mpr hpt)

-- OPEN (what is left of `dirty_level_ordered` for the whole emulator).
-- Proved now: for every thread-state / affinity event the three CPU channels enter the
-- dirty list in the order `task_type`, `subsystem`, `idle`, all of them before any is
-- processed, as a consequence of `model_cpu_connect` calling `mux_init` in channel-index
-- order (`dirty_level_ordered_sys`; bay-level: `Bay.dirtyPhase_selectOnly`,
-- `Shape.Built.cpu_order`).  For the task events `VTx` / `VTe` / `VTp` / `VTr` (and the
-- Nanos6 analogues) `orderOk` is no longer a hypothesis either (`dirty_level_ordered_task`):
-- the task layer is now a hook of the reference emulator connected to the bay model
-- (`Emu/TaskHook.lean`; `update_task` writes `ss` first, then body id, task id, type, app
-- id, rank — never the idle channel), a CPU track enters the dirty list only when its
-- select channel or one of its inputs was written (`Bay.dirtyPhase_reached`), so the
-- `idle` track is not on the list at all and `orderOk` — "no `idle` entry ahead of an
-- `ss` / `tt` entry" — holds whatever the relative order of `ss` and `tt`.  The code's
-- order (`ss` before `tt`) does not differ from what `orderOk` demands: `orderOk` does not
-- constrain `ss` against `tt` (`example` below: both `[ss, tt]` and `[tt, ss]` pass).
-- `dirty_level_ordered_raw` covers every other step that leaves `th_running` and the idle
-- channels alone.
-- Proved since: (a) the table events, those that write the idle channel included
-- (`dirty_level_ordered_table`, from `SimP.tableEventP`: a table event writes exactly the
-- channel its row names, `tableChans`; `idle_rows`: the rows on `CH_IDLE` are nOS-V
-- `VPa VPp VPr` and Nanos6 `6Pa 6Pp 6Pr`).  What `orderOk` requires of `idle` relative to
-- `ss` / `tt` only constrains events that put BOTH an `idle` and an `ss` / `tt` entry of one
-- CPU on the dirty list; the only such events are the thread-state / affinity events
-- (`th_running` changes: all three tracks, in `mux_init` order `tt, ss, idle` —
-- `dirty_level_ordered_sys`); a table event writes ONE channel, so either the `ss` / `tt`
-- tracks or the `idle` track stay off the list, and a task event never writes `idle`.
-- Hence no hazard in the registration order: `orderOk` holds for every event class of the
-- reference emulator.  (b) The positions after a task event
-- (`task_event_dirty_positions`, `Bay.dirtyPhase_ordered`,
-- `Shape.Built.cpu_order_two_phase`): no `idle`, `ss` before `tt`, i.e. the CPU's breakdown
-- sees a sublist of `[ss, tt]` (`[tt]` for pause / resume); and (c) the EXACT list for the
-- CPU the thread runs on, in a coupled state (`task_event_dirty_exact`: `[ss, tt]` for
-- `VTx` / `VTe`, `[tt]` for `VTp` / `VTr`; presence from `Bay.dirtyPhase_inputOnly`,
-- `Inv.cpuOut_present`, `taskHook_task_dirty`; `Coupled` is an invariant of every accepted
-- history, `C06.coupled_history`).
-- Still open: the positions of the OTHER tracks on the list (thread tracks, the tracks of
-- body id / task id / app id / rank): `Bay.dirtyPhase_ordered` orders them by trigger, the
-- order of two outputs with the SAME trigger (thread track vs CPU track of one channel) is
-- the order in which their `cb_input` callbacks were enabled — history dependent, not
-- characterised; the breakdown does not read them.  The ovni mark / flush events are
-- covered by `dirty_level_ordered_raw` as steps but are not instantiated here.
-- Also not modelled: the breakdown muxes themselves (chained muxes on the CPU track
-- outputs) are not part of `bayOf`; `step` is their per-CPU model.  Those parts stay
-- exercised against the real `connect_cpu` by the harness and against `ovniemu -b` by the
-- e2e oracle.

/-- Even with a bad order the muxes themselves end up right; only what the
    sort module saw can be out of date. -/
theorem muxes_right_in_any_order (k : Consts) (c : Cpu) (sets : List (Src × Value))
    (hq : Quiescent k c) :
    (step k c sets).tri = triSpec k (step k c sets).tr (step k c sets).idle :=
  let p := step_post k c sets hq
  tri_of_delivered k _ p.didle p.dtr

/-! ## the whole breakdown -/

/-- **The rows of the breakdown view.**  For any number of CPUs and any
    history of propagations of the whole patch-bay (any channels of any CPUs in
    any order), what the rows show is non-decreasing from the first row to the
    last and is exactly the multiset of the values the sort module has seen on
    each CPU's `tri` channel (`NULL` counting as 0).  Together with
    `breakdown_value` (that value is `spec(ss, tt, idle)` for a CPU whose
    selection is fresh) this is the property; `stale_select_classes` says what
    the row shows otherwise. -/
theorem system_rows (k : Consts) (qs : List Int → List Int) (hq : IsSort qs) (n : Nat)
    (hist : List (List (Nat × Src × Value))) :
    let S := runSys k qs n hist
    Sorted (rows S.sort) ∧ (rows S.sort).Perm (S.cpus.map (fun c => c.seen.toInt)) ∧
      (rows S.sort).length = S.cpus.length := by
  intro S
  have hi := runSys_inv k qs hq n hist
  have hr := rows_of_inv S.sort hi.sort
  refine ⟨hr.1, hi.vals ▸ hr.2, ?_⟩
  simp only [rows, List.length_map]
  exact hi.sort.lenO.trans hi.len
-- The per-CPU theorems above are about `step` (one CPU's walk of the dirty
-- list); `stepSys` walks the global list.  That the first is the projection of
-- the second is not proved here: the driver checks it on every line it
-- executes (it prints `proj-mismatch` otherwise), i.e. on all unit and e2e
-- cases of the correspondence run.

example : rows (runSys nosv isort 2 [[(0, .tt, .null), (0, .ss, .null), (0, .idle, .int 100)],
    [(0, .ss, .int 11), (0, .tt, .int 7)], [(1, .tt, .null), (1, .ss, .int 6), (1, .idle, .int 100)]]).sort
    = [6, 7] := by decide

/-! ### Non-vacuity and the concrete witnesses -/

example : Quiescent nosv Cpu.init := quiescent_init nosv

/-- The emulator's orders satisfy the order hypothesis: `th_running` change
    (`tt`, `ss`, `idle`), `VTx`/`VTe` (`ss`, `tt`), single-channel events. -/
example : orderOk (dedup [.tt, .ss, .idle]) = true ∧ orderOk (dedup [.ss, .tt]) = true ∧
    orderOk (dedup [.idle]) = true ∧ orderOk (dedup [.idle, .ss]) = false := by decide

def hOHx : List (Src × Value) := [(.tt, .null), (.ss, .null), (.idle, .int 100)]
def hVTx : List (Src × Value) := [(.ss, .int 11), (.tt, .int 7)]

/-- A normal pause: `OHx VTx VAp VTp VTr VAP` (task type 7). -/
def exNormal : Cpu :=
  runCpu nosv [hOHx, hVTx, [(.ss, .int 15)], [(.tt, .null)], [(.tt, .int 7)], [(.ss, .int 11)]]

/-- §6-G, class (A): `OHx VTx VAp VTp VAP VTr` — the resume comes after the pop. -/
def exStaleA : Cpu :=
  runCpu nosv [hOHx, hVTx, [(.ss, .int 15)], [(.tt, .null)], [(.ss, .int 11)], [(.tt, .int 7)]]

/-- Class (B): `OHx VTx VTp` — a bare pause. -/
def exStaleB : Cpu := runCpu nosv [hOHx, hVTx, [(.tt, .null)]]

/-- The hypotheses of `breakdown_value` hold on a non-trivial history, and
    the sort input is the task type. -/
example : OrdersOk [hOHx, hVTx, [(.ss, .int 15)], [(.tt, .null)], [(.tt, .int 7)], [(.ss, .int 11)]] ∧
    Fresh nosv exNormal ∧ exNormal.mux0.evaluated = true ∧ exNormal.seen = .int 7 := by decide

/-- (A): `ss = 11`, `tt = 7`, but the sort input stays 11 ("Task: In body")
    where the specification says 7. -/
example : ¬ Fresh nosv exStaleA ∧ exStaleA.mux0.evaluated = true ∧
    exStaleA.ss = .int 11 ∧ exStaleA.tt = .int 7 ∧ exStaleA.seen = .int 11 ∧
    spec nosv exStaleA.ss exStaleA.tt exStaleA.idle = .int 7 := by decide

/-- (B): `ss = 11`, `tt = NULL`; the sort input becomes `NULL` (row value 0)
    where the specification says 11. -/
example : ¬ Fresh nosv exStaleB ∧ exStaleB.seen = .null ∧
    spec nosv exStaleB.ss exStaleB.tt exStaleB.idle = .int 11 := by decide

/-- The order hypothesis of `dirty_level_ordered_partial` is needed: with
    `idle` ahead of `ss` in the dirty list the sort module keeps a stale value
    (here it still holds `NULL` although `tri = 5`). -/
example : (step nosv Cpu.init [(.idle, .int 100), (.ss, .int 5)]).tri = .int 5 ∧
    (step nosv Cpu.init [(.idle, .int 100), (.ss, .int 5)]).seen = .null := by decide


/-! ### Non-vacuity of `dirty_level_ordered_sys`

Two threads, a physical and the virtual CPU, models ovni + nOS-V (position 1
in the spec list: task type = channel 2, subsystem = 4, idle = 6).  The event
is `OHx` of thread 0 on CPU 0. -/

def exEmu : Ovni.Emu.Emu :=
  Ovni.Emu.mkEmu [(100, 10, 0), (101, 10, 0)] [(0, 0, false), (0, -1, true)] [79, 86] false []

def exBay0 : Ovni.Emu.Bay :=
  match exEmu.shape.connect with
  | .ok b => b
  | .error _ => {}

theorem exBay0_connect : exEmu.shape.connect = .ok exBay0 := by rfl

theorem exOHx_accepted :
    (match Ovni.Emu.preThread exEmu 0 120 [0, 0, 0, 0] with | .ok _ => true | .error _ => false) = true := by
  decide

/-- All hypotheses of `dirty_level_ordered_sys` hold (initial state from
    `Inv.init`, event `OHx`), hence `orderOk` for CPU 0's breakdown inputs. -/
example : ∃ (bI : Ovni.Emu.Bay) (e' : Ovni.Emu.Emu) (bP : Ovni.Emu.Bay), Ovni.Emu.Inv exBay0 exEmu bI ∧ Ovni.Emu.preThread exEmu 0 120 [0, 0, 0, 0] = .ok e' ∧
    orderOk (dedup (srcOrder (exEmu.shape.cpuOut 0 1 2) (exEmu.shape.cpuOut 0 1 4) (exEmu.shape.cpuOut 0 1 6)
      bP.dirty)) = true := by
  obtain ⟨hs, _, bI, _, _, _, hi⟩ := Ovni.Emu.Inv.init _ _ _ _ _ exBay0_connect (by decide) (by decide)
    (by rw [List.append_nil]; exact Ovni.Emu.initSingle_allSpecs _)
  cases h : Ovni.Emu.preThread exEmu 0 120 [0, 0, 0, 0] with
  | error x => have := exOHx_accepted; rw [h] at this; cases this
  | ok e' =>
    obtain ⟨_, bP, _, _, _, _, _, _, _, _, hord⟩ :=
      dirty_level_ordered_sys (c := 0) (k := 1) (itt := 2) (iss := 4) (iidle := 6) (m := Ovni.Emu.specNosv)
        exBay0_connect hs hi (Ovni.Emu.SimP.preThread h) (by decide) (by rfl) (by decide) (by decide)
        (by decide) (by decide)
    exact ⟨bI, e', bP, hi, rfl, hord⟩

private def unwrapB {α} (d : α) : Except Ovni.Emu.Err α → α
  | .ok a => a
  | .error _ => d

/-- The same computed: `emu_connect` (connect, idle := Progressing, propagate),
    then the three writes of `OHx` (thread 0's state, CPU 0's `th_running` and
    `th_active`) and the dirty phase.  The CPU's breakdown inputs enter the dirty
    list as task type, subsystem, idle. -/
def exDirty : List Nat :=
  let σ := exEmu.shape
  let b1 := (σ.addrs.filter σ.hasInit).foldl
    (fun b s => unwrapB b (b.write (σ.idx s) (σ.initOp s))) exBay0
  let bI := (unwrapB (b1, []) b1.propagate).1
  let w1 := unwrapB bI (bI.chanSet (σ.idx (.st 0)) (.int 1))
  let w2 := unwrapB w1 (w1.chanSet (σ.idx (.run 0)) (.int 0))
  let w3 := unwrapB w2 (w2.chanSet (σ.idx (.act 0)) (.int 0))
  (unwrapB w3 (w3.dirtyPhase w3.chans.length 0)).dirty

example : srcOrder (exEmu.shape.cpuOut 0 1 2) (exEmu.shape.cpuOut 0 1 4) (exEmu.shape.cpuOut 0 1 6) exDirty
    = [.tt, .ss, .idle] ∧ exDirty.length = 18 := by decide

/-! ### The task events

nOS-V process with app id 1 and no rank; task type 1 and task 1 created
(`VYc`, `VTc`); the event is `VTx` of task 1 on thread 0. -/

def exTaskE : Ovni.Task.Emu :=
  match Ovni.Task.Emu.run .nosv ⟨1, -1⟩ Ovni.Task.Emu.init [.typeCreate 1 7 true, .taskCreate false 1 1] with
  | .ok x => x
  | .error _ => Ovni.Task.Emu.init

theorem exVTx_accepted :
    (match Ovni.Emu.taskHook .nosv ⟨1, -1⟩ exTaskE (.task 0 .x 1 0) exEmu 0 86 84 [] with
      | .ok _ => true | .error _ => false) = true := by
  decide

/-- All hypotheses of `dirty_level_ordered_task` hold (state from `Inv.init`,
    event `VTx`), hence `orderOk` for CPU 0's breakdown inputs — no order
    hypothesis. -/
example : ∃ (bI : Ovni.Emu.Bay) (e' : Ovni.Emu.Emu) (bP : Ovni.Emu.Bay), Ovni.Emu.Inv exBay0 exEmu bI ∧
    Ovni.Emu.taskHook .nosv ⟨1, -1⟩ exTaskE (.task 0 .x 1 0) exEmu 0 86 84 [] = .ok e' ∧
    orderOk (dedup (srcOrder (exEmu.shape.cpuOut 0 1 2) (exEmu.shape.cpuOut 0 1 4) (exEmu.shape.cpuOut 0 1 6)
      bP.dirty)) = true := by
  obtain ⟨hs, _, bI, _, _, _, hi⟩ := Ovni.Emu.Inv.init _ _ _ _ _ exBay0_connect (by decide) (by decide)
    (by rw [List.append_nil]; exact Ovni.Emu.initSingle_allSpecs _)
  cases h : Ovni.Emu.taskHook .nosv ⟨1, -1⟩ exTaskE (.task 0 .x 1 0) exEmu 0 86 84 [] with
  | error x => have := exVTx_accepted; rw [h] at this; cases this
  | ok e' =>
    obtain ⟨_, bP, _, _, _, _, _, _, _, hord⟩ :=
      dirty_level_ordered_task (c := 0) (k := 1) (itt := 2) (iss := 4) (iidle := 6) (m := Ovni.Emu.specNosv)
        exBay0_connect hs hi h (by decide) (by rfl) (by decide) (by decide) (by decide) (by decide)
        idle_not_task_channel.1
    exact ⟨bI, e', bP, hi, rfl, hord⟩

/-- The same computed, in a state where the CPU tracks are live: `emu_connect`,
    `OHx` of thread 0 on CPU 0 (three writes, `bay_propagate`), then the writes of
    `VTx` in the order of `update_task` — subsystem push, body id, task id, type,
    app id — and the dirty phase.  The CPU's breakdown inputs enter the dirty list
    as subsystem, task type: the code's order is `ss` before `tt`, the idle track
    is absent, and `orderOk` accepts it (it accepts `[tt, ss]` as well). -/
def exDirtyT : List Nat :=
  let σ := exEmu.shape
  let b1 := (σ.addrs.filter σ.hasInit).foldl
    (fun b s => unwrapB b (b.write (σ.idx s) (σ.initOp s))) exBay0
  let bI := (unwrapB (b1, []) b1.propagate).1
  let w1 := unwrapB bI (bI.chanSet (σ.idx (.st 0)) (.int 1))
  let w2 := unwrapB w1 (w1.chanSet (σ.idx (.run 0)) (.int 0))
  let w3 := unwrapB w2 (w2.chanSet (σ.idx (.act 0)) (.int 0))
  let bX := (unwrapB (w3, []) w3.propagate).1
  let t1 := unwrapB bX (bX.chanPush (σ.idx (.raw 0 1 4)) (.int 11))
  let t2 := unwrapB t1 (t1.chanSet (σ.idx (.raw 0 1 0)) (.int 1))
  let t3 := unwrapB t2 (t2.chanSet (σ.idx (.raw 0 1 1)) (.int 1))
  let t4 := unwrapB t3 (t3.chanSet (σ.idx (.raw 0 1 2)) (.int 1673))
  let t5 := unwrapB t4 (t4.chanSet (σ.idx (.raw 0 1 3)) (.int 1))
  (unwrapB t5 (t5.dirtyPhase t5.chans.length 0)).dirty

example : srcOrder (exEmu.shape.cpuOut 0 1 2) (exEmu.shape.cpuOut 0 1 4) (exEmu.shape.cpuOut 0 1 6) exDirtyT
    = [.ss, .tt] ∧ orderOk (dedup [Src.ss, Src.tt]) = true ∧ orderOk (dedup [Src.tt, Src.ss]) = true := by decide

/-! ### The idle events and the positions after a task event: non-vacuity

`exEmuR`: the state after `OHx` of thread 0 on CPU 0 (`bay_propagate` done).  The
event is `VPr` (nOS-V `CH_IDLE := ST_RESTING`) of thread 0. -/

def exEmuR : Ovni.Emu.Emu :=
  (match Ovni.Emu.preThread exEmu 0 120 [0, 0, 0, 0] with
   | .ok e => e
   | .error _ => exEmu).flushAll

theorem exVPr_accepted :
    (match Ovni.Emu.tableEvent exEmuR 0 Ovni.Emu.specNosv 80 114 with | .ok _ => true | .error _ => false) = true := by
  decide

/-- All hypotheses of `dirty_level_ordered_table` hold in a state where the CPU
    tracks are live (`Inv` after `OHx` from `Inv.step`), event `VPr`: the `ss` /
    `tt` tracks of CPU 0 are not on the dirty list and `orderOk` holds. -/
example : ∃ (bR : Ovni.Emu.Bay) (e' : Ovni.Emu.Emu) (bP : Ovni.Emu.Bay), Ovni.Emu.Inv exBay0 exEmuR bR ∧
    Ovni.Emu.tableEvent exEmuR 0 Ovni.Emu.specNosv 80 114 = .ok e' ∧
    exEmuR.shape.cpuOut 0 1 2 ∉ bP.dirty ∧ exEmuR.shape.cpuOut 0 1 4 ∉ bP.dirty ∧
    orderOk (dedup (srcOrder (exEmuR.shape.cpuOut 0 1 2) (exEmuR.shape.cpuOut 0 1 4) (exEmuR.shape.cpuOut 0 1 6)
      bP.dirty)) = true := by
  obtain ⟨hs, _, bI, _, _, _, hi⟩ := Ovni.Emu.Inv.init _ _ _ _ _ exBay0_connect (by decide) (by decide)
    (by rw [List.append_nil]; exact Ovni.Emu.initSingle_allSpecs _)
  cases h : Ovni.Emu.preThread exEmu 0 120 [0, 0, 0, 0] with
  | error x => have := exOHx_accepted; rw [h] at this; cases this
  | ok e1 =>
    obtain ⟨hs1, hsh1, _, bR, _, _, _, _, _, hiR⟩ := Ovni.Emu.Inv.step exBay0_connect hs hi (Ovni.Emu.SimP.preThread h)
    have hR : exEmuR = e1.flushAll := by unfold exEmuR; rw [h]
    rw [← hR] at hs1 hsh1 hiR
    have hcR : exEmuR.shape.connect = .ok exBay0 := by rw [hsh1]; exact exBay0_connect
    cases h2 : Ovni.Emu.tableEvent exEmuR 0 Ovni.Emu.specNosv 80 114 with
    | error x => have := exVPr_accepted; rw [h2] at this; cases this
    | ok e' =>
      obtain ⟨_, bP, _, _, _, _, _, _, _, hin, _, hord⟩ :=
        dirty_level_ordered_table (c := 0) (k := 1) (itt := 2) (iss := 4) (iidle := 6) (m := Ovni.Emu.specNosv)
          hcR hs1 hiR h2 (by decide) (by rfl) (by decide) (by decide) (by decide) (by decide)
      obtain ⟨h3, h4⟩ := hin (by decide)
      exact ⟨bR, e', bP, hiR, rfl, h3, h4, hord⟩

/-- The same computed: `emu_connect`, `OHx` (three writes, `bay_propagate`), then
    the write of `VPr` — `chan_set(CH_IDLE, ST_RESTING)` — and the dirty phase: the
    CPU's breakdown sees `[idle]` only. -/
def exDirtyP : List Nat :=
  let σ := exEmu.shape
  let b1 := (σ.addrs.filter σ.hasInit).foldl
    (fun b s => unwrapB b (b.write (σ.idx s) (σ.initOp s))) exBay0
  let bI := (unwrapB (b1, []) b1.propagate).1
  let w1 := unwrapB bI (bI.chanSet (σ.idx (.st 0)) (.int 1))
  let w2 := unwrapB w1 (w1.chanSet (σ.idx (.run 0)) (.int 0))
  let w3 := unwrapB w2 (w2.chanSet (σ.idx (.act 0)) (.int 0))
  let bX := (unwrapB (w3, []) w3.propagate).1
  let t1 := unwrapB bX (bX.chanSet (σ.idx (.raw 0 1 6)) (.int 101))
  (unwrapB t1 (t1.dirtyPhase t1.chans.length 0)).dirty

example : srcOrder (exEmu.shape.cpuOut 0 1 2) (exEmu.shape.cpuOut 0 1 4) (exEmu.shape.cpuOut 0 1 6) exDirtyP
    = [.idle] ∧ exDirtyP.length = 3 ∧ orderOk (dedup [Src.idle]) = true := by decide

/-- All hypotheses of `task_event_dirty_positions` hold (state from `Inv.init`,
    event `VTx`): the CPU's breakdown sees a sublist of `[ss, tt]` (`exDirtyT`
    above: exactly `[ss, tt]` when the thread runs on the CPU). -/
example : ∃ (bI : Ovni.Emu.Bay) (e' : Ovni.Emu.Emu) (bP : Ovni.Emu.Bay), Ovni.Emu.Inv exBay0 exEmu bI ∧
    Ovni.Emu.taskHook .nosv ⟨1, -1⟩ exTaskE (.task 0 .x 1 0) exEmu 0 86 84 [] = .ok e' ∧
    (srcOrder (exEmu.shape.cpuOut 0 1 2) (exEmu.shape.cpuOut 0 1 4) (exEmu.shape.cpuOut 0 1 6) bP.dirty).Sublist
      [Src.ss, Src.tt] := by
  obtain ⟨hs, _, bI, _, _, _, hi⟩ := Ovni.Emu.Inv.init _ _ _ _ _ exBay0_connect (by decide) (by decide)
    (by rw [List.append_nil]; exact Ovni.Emu.initSingle_allSpecs _)
  cases h : Ovni.Emu.taskHook .nosv ⟨1, -1⟩ exTaskE (.task 0 .x 1 0) exEmu 0 86 84 [] with
  | error x => have := exVTx_accepted; rw [h] at this; cases this
  | ok e' =>
    obtain ⟨_, bP, _, _, _, _, _, _, _, _, _, _, hsub, _⟩ :=
      task_event_dirty_positions (c := 0) (k := 1) (itt := 2) (iidle := 6) (m := Ovni.Emu.specNosv)
        exBay0_connect hs hi h (by decide) (by rfl) (by decide) (by decide) (by decide) (by decide) (by decide)
        idle_not_task_channel.1
    exact ⟨bI, e', bP, hi, rfl, hsub⟩

/-! ### The exact list: non-vacuity

`exEmuR` (thread 0 runs on CPU 0), coupled with the task layer state `exTaskE`
(type 1 and task 1 created, every task channel null), event `VTx` of task 1. -/

theorem exVTxR_accepted :
    (match Ovni.Emu.taskHook .nosv ⟨1, -1⟩ exTaskE (.task 0 .x 1 0) exEmuR 0 86 84 [] with
      | .ok _ => true | .error _ => false) = true := by
  decide

/-- All hypotheses of `task_event_dirty_exact` hold: CPU 0's breakdown inputs are
    on the dirty list exactly as `[ss, tt]`. -/
example : ∃ (bR : Ovni.Emu.Bay) (e' : Ovni.Emu.Emu) (bP : Ovni.Emu.Bay), Ovni.Emu.Inv exBay0 exEmuR bR ∧
    Ovni.Emu.Coupled .nosv 1 exEmuR exTaskE ∧
    Ovni.Emu.taskHook .nosv ⟨1, -1⟩ exTaskE (.task 0 .x 1 0) exEmuR 0 86 84 [] = .ok e' ∧
    srcOrder (exEmuR.shape.cpuOut 0 1 2) (exEmuR.shape.cpuOut 0 1 4) (exEmuR.shape.cpuOut 0 1 6) bP.dirty =
      [Src.ss, Src.tt] := by
  obtain ⟨hs, _, bI, _, _, _, hi⟩ := Ovni.Emu.Inv.init _ _ _ _ _ exBay0_connect (by decide) (by decide)
    (by rw [List.append_nil]; exact Ovni.Emu.initSingle_allSpecs _)
  have hcp0 : Ovni.Emu.Coupled .nosv 1 exEmu Ovni.Task.Emu.init :=
    Ovni.Emu.coupled_init .nosv _ _ _ _ _ (by rfl)
  cases h : Ovni.Emu.preThread exEmu 0 120 [0, 0, 0, 0] with
  | error x => have := exOHx_accepted; rw [h] at this; cases this
  | ok e1 =>
    have hsim := Ovni.Emu.SimP.preThread h
    obtain ⟨hs1, hsh1, _, bR, _, _, _, _, _, hiR⟩ := Ovni.Emu.Inv.step exBay0_connect hs hi hsim
    have hR : exEmuR = e1.flushAll := by unfold exEmuR; rw [h]
    have hcpR : Ovni.Emu.Coupled .nosv 1 e1.flushAll exTaskE :=
      hcp0.keep (congrArg Ovni.Emu.Shape.nT (hsim hs).2.1) (Ovni.Emu.preThread_maxStack h)
        (Ovni.Emu.RawKeep.of_sys hsim hs hi.mirrors (fun _ _ hx => hx)) (by rfl) (by rfl)
    rw [← hR] at hs1 hsh1 hiR hcpR
    have hcR : exEmuR.shape.connect = .ok exBay0 := by rw [hsh1]; exact exBay0_connect
    cases h2 : Ovni.Emu.taskHook .nosv ⟨1, -1⟩ exTaskE (.task 0 .x 1 0) exEmuR 0 86 84 [] with
    | error x => have := exVTxR_accepted; rw [h2] at this; cases this
    | ok e' =>
      obtain ⟨_, bP, _, _, _, _, _, _, _, hex⟩ :=
        task_event_dirty_exact (tm := .nosv) (c := 0) (k := 1) (iidle := 6) (x := (exEmuR.src (.run 0)).getD {})
          hcR hs1 hiR (by rfl) hcpR h2 (by decide) (by decide) (by rfl) (by decide) (by decide)
          idle_not_task_channel.1
      exact ⟨bR, e', bP, hiR, hcpR, rfl, hex⟩

end Ovni.Props.C20
