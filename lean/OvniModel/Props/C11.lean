import OvniModel.Rt.Conc
import OvniModel.Lemmas.ConcSafe
import OvniModel.Lemmas.Conc
import OvniModel.Generated.Footprint
import OvniModel.Generated.Consts

/-!
# C11 — concurrent tracing threads are isolated; process init/fini happen exactly once

Model: `Rt/Conc.lean` (interleaving semantics over the process-wide `rproc`,
the thread-local `rthread`s and the per-thread files), whose shared accesses
are built from `Generated/Footprint.lean` — regenerated from
`src/rt/ovni.c` + `src/common.c` on every run by `tools/gen/gen_footprint.py`.

A *schedule* is any list of thread indices (`runSched`): the theorems quantify
over all of them, over any number of threads and over all programs.
Assumed (DESIGN §4): thread-local storage is private to its thread; the
operations on the `atomic_int` are sequentially consistent (one step each).
-/
set_option linter.unusedSectionVars false
set_option linter.unusedSimpArgs false
set_option linter.unusedVariables false
namespace Ovni.Props.C11
open Ovni.Rt Ovni.Rt.Conc
variable {D : Type} [JData D]

/-! ### The generated footprint -/

/-- Every API function other than `ovni_proc_init` / `ovni_proc_fini` writes no
    member of the shared `rproc` and only *loads* `rproc.st`; `rproc` is the
    only variable with static storage in `ovni.c` that is neither
    thread-local nor const (and `rthread` is thread-local); no API function
    writes any other shared global (those of `common.c` included); nothing
    was left unresolved by the analysis (no indirect calls). -/
theorem footprint_disjoint :
    (∀ r ∈ Ovni.Generated.Footprint.table, r.1 ≠ "ovni_proc_init" → r.1 ≠ "ovni_proc_fini" →
        r.2.2.1 = [] ∧ ∀ op ∈ r.2.2.2.2, isLoadRaw op = true) ∧
    Ovni.Generated.Footprint.sharedGlobals = ["rproc"] ∧
    "rthread" ∈ Ovni.Generated.Footprint.threadLocals ∧
    (∀ r ∈ Ovni.Generated.Footprint.otherWrites, r.2 = []) ∧
    Ovni.Generated.Footprint.unresolved = [] := by
  decide

/-- The thread-level functions the model expands are all in the table and
    satisfy the above (so their step lists contain no shared write). -/
theorem footprint_thread_functions : Foot.generated.threadOK = true := by decide

/-- `ovni_proc_init` as generated: its first access to `rproc.st` is
    `compare_exchange(UNINIT → INIT)`, and nothing later stores `UNINIT`. -/
theorem init_shape_generated :
    raceShapeRaw .uninit .init (Foot.generated.events "ovni_proc_init") = true := by decide

/-- `ovni_proc_fini` as generated: its first access is
    `compare_exchange(READY → GONE)`, nothing later stores `READY`. -/
theorem fini_shape_generated :
    raceShapeRaw .ready .gone (Foot.generated.events "ovni_proc_fini") = true := by decide

/-- In `ovni_proc_init` every write of an `rproc` member comes before READY is
    published: the last shared event is the store of READY (so `rproc` is
    read-only once a thread can see READY). -/
theorem init_publishes_last :
    (Foot.generated.events "ovni_proc_init").getLast? =
      some (Ovni.Generated.Footprint.kStore, Ovni.Generated.Footprint.stReady, 0, "st") := by decide

/-- Starting from INIT, READY is reached by the last shared event of
    `ovni_proc_init` and by no earlier one. -/
theorem init_ready_only_last :
    onlyLastRaw .init .ready (Foot.generated.events "ovni_proc_init").tail = true := by decide

/-- Every path a thread-level function builds contains `thread.%d` (the two
    files of the model are `…/thread.<tid>/stream.obs` and
    `…/thread.<tid>/stream.json`, formatted with `rthread.tid`): FS
    operations of different threads go to different paths.  A pure join of
    already built paths (`"%s/%s"`) adds no literal component and is neutral. -/
theorem thread_paths_contain_tid :
    (∀ r ∈ Ovni.Generated.Footprint.pathFormats, r.1 ∉ procLevelPathFns →
        (hasInfix tidPattern r.2.2 || pureJoin r.2.2) = true) ∧
    ("create_trace_stream", "%s/thread.%d/stream.obs") ∈ Ovni.Generated.Footprint.pathFormats.map (fun r => (r.1, r.2.1)) ∧
    ("thread_metadata_store", "%s/thread.%d/stream.json") ∈ Ovni.Generated.Footprint.pathFormats.map (fun r => (r.1, r.2.1)) := by
  decide

/-! ### Exactly once -/

/-- The hypothesis of the once-theorems (`Race`, spelled out): the process
    state is `frm`; threads `0 … N-1` are alive, have not started and are each
    about to make the single call `kall i`; every other thread `i` (OS tid
    `tidOf i`) runs an arbitrary thread-level program, at any stage. -/
theorem race_iff (frm : PSt) (N : Nat) (kall : Nat → Call D) (tidOf : Nat → Nat) (c : Cfg D) :
    Race frm N kall tidOf c ↔
      c.g.st = frm ∧
      (∀ i, i < N → (c.th i).dead = false ∧ (c.th i).wins = 0 ∧ (c.th i).pend = [] ∧ (c.th i).calls = [kall i]) ∧
      (∀ i, N ≤ i → ThrSafe (tidOf i) (c.th i) ∧ (c.th i).wins = 0) :=
  ⟨fun h => ⟨h.st, h.racers, h.others⟩, fun h => ⟨h.1, h.2.1, h.2.2⟩⟩

/-- `Returned x`: the call of the thread ran to its end without die(). -/
theorem returned_iff (x : Thr D) : Returned x ↔ x.dead = false ∧ x.pend = [] ∧ x.calls = [] := Iff.rfl

/-- Generic form: for ANY footprint whose thread-level functions write nothing
    shared and ANY step list whose first access to `rproc.st` is the
    compare-exchange `frm → to` (and whose later steps do not store `frm`
    again): under every schedule — the `N` racers interleaved with any number
    of threads running thread-level programs — at most one thread ever gets
    past it; once all `N` calls have run to completion exactly one returned
    while all the others reached die(), and the shared state is what the
    winner's steps alone make of `(to, initial members)`. -/
theorem cas_once {fp : Foot} (hfp : fp.threadOK = true) (cap : Nat) {frm to : PSt} (hne : frm ≠ to) (N : Nat)
    (kall : Nat → Call D) (rest : Nat → List (Step D)) (tidOf : Nat → Nat)
    (hexp : ∀ i t, expand fp t (kall i) = .st (.cas frm to) :: rest i)
    (hq : ∀ i, ∀ s ∈ rest i, Quiet frm s)
    (c0 : Cfg D) (h0 : Race frm N kall tidOf c0) (σ : List Nat) :
    (∀ i j, 0 < ((runSched fp cap c0 σ).th i).wins → 0 < ((runSched fp cap c0 σ).th j).wins → i = j) ∧
    (∀ i, ((runSched fp cap c0 σ).th i).wins ≤ 1) ∧
    (0 < N → (∀ i, i < N → ((runSched fp cap c0 σ).th i).done) →
      ∃ w, w < N ∧ Returned ((runSched fp cap c0 σ).th w) ∧ ((runSched fp cap c0 σ).th w).wins = 1 ∧
        (∀ i, i < N → i ≠ w → ((runSched fp cap c0 σ).th i).dead = true ∧ ((runSched fp cap c0 σ).th i).wins = 0) ∧
        (runSched fp cap c0 σ).g = applyQ (rest w) ⟨to, c0.g.proc⟩) := by
  have both := race_invariants hfp cap hne hexp hq c0 h0 σ
  have inv := both.1
  have eff := both.2
  generalize runSched fp cap c0 σ = c at inv eff
  obtain ⟨ph, g1, g2, g3⟩ := inv
  -- wins > 0 only in phase Won
  have wonOf : ∀ i, 0 < (c.th i).wins → Won frm (c.th i) := by
    intro i hw
    rcases ph i with ⟨_, hf | hl | hw' | hd⟩ | ⟨_, hi⟩
    · have := hf.2.1; omega
    · have := hl.2.1; omega
    · exact hw'
    · have := hd.2; omega
    · have := hi.2; omega
  have racerOf : ∀ i, Won frm (c.th i) → i < N := by
    intro i hw
    rcases ph i with ⟨h, _⟩ | ⟨_, hi⟩
    · exact h
    · have := hi.2; have := hw.2.1; omega
  refine ⟨fun i j a b => g3 i j (racerOf i (wonOf i a)) (racerOf j (wonOf j b)) (wonOf i a) (wonOf j b), ?_, ?_⟩
  · intro i
    rcases ph i with ⟨_, hf | hl | hw' | hd⟩ | ⟨_, hi⟩
    · have := hf.2.1; omega
    · have := hl.2.1; omega
    · have := hw'.2.1; omega
    · have := hd.2; omega
    · have := hi.2; omega
  · intro hN hdone
    -- a finished racer has either won (nothing left) or lost
    have fin : ∀ i, i < N → (Won frm (c.th i) ∧ (c.th i).pend = []) ∨ Lost (c.th i) := by
      intro i hi
      rcases ph i with ⟨_, hf | hl | hw' | hd⟩ | ⟨hge, _⟩
      · rcases hdone i hi with d | ⟨_, k⟩
        · have := hf.1; simp [d] at this
        · have := hf.2.2.2; simp [k] at this
      · rcases hdone i hi with d | ⟨p, _⟩
        · have := hl.1; simp [d] at this
        · have := hl.2.2.1; simp [p] at this
      · rcases hdone i hi with d | ⟨p, _⟩
        · have := hw'.1; simp [d] at this
        · exact Or.inl ⟨hw', p⟩
      · exact Or.inr hd
      · omega
    have hst : c.g.st ≠ frm := by
      intro e
      rcases fin 0 hN with ⟨w, _⟩ | l
      · exact (g1 e 0 hN).1 w
      · exact (g1 e 0 hN).2 l
    obtain ⟨w, hwN, hw⟩ := g2 hst
    have hwp : (c.th w).pend = [] := by
      rcases fin w hwN with ⟨_, p⟩ | l
      · exact p
      · have := l.1; have := hw.1; simp_all
    refine ⟨w, hwN, ⟨hw.1, hwp, hw.2.2.1⟩, hw.2.1, ?_, ?_⟩
    · intro i hi hne'
      rcases fin i hi with ⟨wi, _⟩ | l
      · exact absurd (g3 i w hi hwN wi hw) hne'
      · exact l
    · obtain ⟨done, hd1, hd2⟩ := eff.2 w hwN hw
      rw [hwp, List.append_nil] at hd1
      rw [hd2, hd1]

/-- **init_once**: `N ≥ 1` threads race to call `ovni_proc_init` (any
    arguments) on an uninitialised process, while any number of other threads
    run thread-level programs. Under every schedule at most one
    of them passes the compare-exchange; when all calls have completed,
    exactly one has returned, every other one has reached die(), and the
    process is READY with exactly the returned caller's arguments: the
    initialisation took effect once. The step list is the one generated from
    the C source. -/
theorem init_once (cap N : Nat) (a : Nat → Proc) (tidOf : Nat → Nat) (c0 : Cfg D)
    (h0 : Race .uninit N (fun i => Call.procInit (a i)) tidOf c0) (σ : List Nat) :
    (∀ i j, 0 < ((runSched Foot.generated cap c0 σ).th i).wins →
        0 < ((runSched Foot.generated cap c0 σ).th j).wins → i = j) ∧
    (∀ i, ((runSched Foot.generated cap c0 σ).th i).wins ≤ 1) ∧
    (0 < N → (∀ i, i < N → ((runSched Foot.generated cap c0 σ).th i).done) →
      ∃ w, w < N ∧ Returned ((runSched Foot.generated cap c0 σ).th w) ∧
        ((runSched Foot.generated cap c0 σ).th w).wins = 1 ∧
        (∀ i, i < N → i ≠ w → ((runSched Foot.generated cap c0 σ).th i).dead = true ∧
          ((runSched Foot.generated cap c0 σ).th i).wins = 0) ∧
        (runSched Foot.generated cap c0 σ).g = ⟨.ready, a w⟩) := by
  have sh := fun i => shape_of_raw (D := D) .uninit .init (a i) _ init_shape_generated
  have h := cas_once footprint_thread_functions cap (frm := .uninit) (to := .init) (by decide) N
    (fun i => Call.procInit (a i)) (fun i => ((Foot.generated.events "ovni_proc_init").map (toStep (a i))).tail)
    tidOf (fun i t => (sh i).1) (fun i => (sh i).2) c0 h0 σ
  refine ⟨h.1, h.2.1, fun hN hd => ?_⟩
  obtain ⟨w, h1, h2, h3, h4, h5⟩ := h.2.2 hN hd
  refine ⟨w, h1, h2, h3, h4, ?_⟩
  rw [h5]
  cases a w
  rfl

/-- **No thread ever sees a half-initialised process**: in every reachable
    state of such a race — any prefix of any schedule, with any number of
    bystander threads calling `ovni_thread_init`, emitting, … concurrently —
    if `rproc.st` is READY then the winner has returned and every member of
    `rproc` holds the winner's value (a bystander's `atomic_load(&rproc.st) ==
    ST_READY` test therefore guards completely initialised data; before that
    it dies with "process not ready"). -/
theorem ready_means_initialised (cap N : Nat) (a : Nat → Proc) (tidOf : Nat → Nat) (c0 : Cfg D)
    (h0 : Race .uninit N (fun i => Call.procInit (a i)) tidOf c0) (σ : List Nat) :
    (runSched Foot.generated cap c0 σ).g.st = .ready →
      ∃ w, w < N ∧ Returned ((runSched Foot.generated cap c0 σ).th w) ∧
        (runSched Foot.generated cap c0 σ).g.proc = a w := by
  have sh := fun i => shape_of_raw (D := D) .uninit .init (a i) _ init_shape_generated
  have both := race_invariants footprint_thread_functions cap (frm := .uninit) (to := .init) (by decide)
    (kall := fun i => Call.procInit (a i))
    (rest := fun i => ((Foot.generated.events "ovni_proc_init").map (toStep (a i))).tail)
    (fun i t => (sh i).1) (fun i => (sh i).2) c0 h0 σ
  generalize runSched Foot.generated cap c0 σ = c at both
  obtain ⟨⟨ph, g1, g2, g3⟩, e1, e2⟩ := both
  intro hr
  obtain ⟨w, hwN, hw⟩ := g2 (by rw [hr]; decide)
  obtain ⟨done, hd1', hd2⟩ := e2 w hwN hw
  have hd1 : ((Foot.generated.events "ovni_proc_init").map (toStep (a w))).tail = done ++ (c.th w).pend := hd1'
  have hp : (c.th w).pend = [] := by
    apply done_of_onlyLast .init .ready (a w) c0.g.proc _ init_ready_only_last done
    · rw [List.map_tail]; exact hd1
    · rw [← hd2]; exact hr
  refine ⟨w, hwN, ⟨hw.1, hp, hw.2.2.1⟩, ?_⟩
  rw [hp, List.append_nil] at hd1
  rw [hd2, ← hd1]
  cases a w
  rfl

/-- **fini_once**: the same for `N ≥ 1` threads racing to call
    `ovni_proc_fini` on a READY process (other threads may still be tracing);
    afterwards the process is GONE and
    the other members of `rproc` are as they were. -/
theorem fini_once (cap N : Nat) (tidOf : Nat → Nat) (c0 : Cfg D)
    (h0 : Race .ready N (fun _ => Call.procFini) tidOf c0) (σ : List Nat) :
    (∀ i j, 0 < ((runSched Foot.generated cap c0 σ).th i).wins →
        0 < ((runSched Foot.generated cap c0 σ).th j).wins → i = j) ∧
    (∀ i, ((runSched Foot.generated cap c0 σ).th i).wins ≤ 1) ∧
    (0 < N → (∀ i, i < N → ((runSched Foot.generated cap c0 σ).th i).done) →
      ∃ w, w < N ∧ Returned ((runSched Foot.generated cap c0 σ).th w) ∧
        ((runSched Foot.generated cap c0 σ).th w).wins = 1 ∧
        (∀ i, i < N → i ≠ w → ((runSched Foot.generated cap c0 σ).th i).dead = true ∧
          ((runSched Foot.generated cap c0 σ).th i).wins = 0) ∧
        (runSched Foot.generated cap c0 σ).g = ⟨.gone, c0.g.proc⟩) := by
  have sh := shape_of_raw (D := D) .ready .gone {} _ fini_shape_generated
  have h := cas_once footprint_thread_functions cap (frm := .ready) (to := .gone) (by decide) N
    (fun _ => Call.procFini) (fun _ => ((Foot.generated.events "ovni_proc_fini").map (toStep {})).tail)
    tidOf (fun i t => sh.1) (fun _ => sh.2) c0 h0 σ
  refine ⟨h.1, h.2.1, fun hN hd => ?_⟩
  obtain ⟨w, h1, h2, h3, h4, h5⟩ := h.2.2 hN hd
  exact ⟨w, h1, h2, h3, h4, by rw [h5]; rfl⟩

/-! ### Isolation -/

/-- The hypothesis of the isolation theorem (`SafeCfg`, spelled out): every
    thread `i` has its own OS tid `tidOf i`; its program — the call in progress
    and the calls to come — consists of thread-level API calls only
    (`ovni_thread_init` with its own tid, emit / jumbo / mark / flush, add_cpu,
    set_rank, require, attribute set/flush, `ovni_thread_free`), i.e. no
    `ovni_proc_init` / `ovni_proc_fini`: `rproc` has been published. -/
theorem safeCfg_iff (tidOf : Nat → Nat) (c : Cfg D) :
    SafeCfg tidOf c ↔ ∀ i, (c.th i).t.tid = tidOf i ∧ (∀ s ∈ (c.th i).pend, StepSafe (tidOf i) s) ∧
      (∀ k ∈ (c.th i).calls, CallSafe (tidOf i) k) := Iff.rfl

/-- **thread_isolation**: for every schedule `σ`, any number of threads with
    pairwise distinct tids, any thread-level programs, any initial thread
    states and any process state: what thread `i` ends up with — its whole
    thread-local state (buffer, records already written, clock, metadata,
    cpus, rank, whether it died and at which call) and its two files
    `thread.<tid>/stream.obs`, `thread.<tid>/stream.json` — is exactly what it
    gets when the same schedule is run with every other thread doing nothing;
    and the shared `rproc` is never modified. Built on the generated footprint
    (`footprint_thread_functions`). -/
theorem thread_isolation (cap : Nat) (tidOf : Nat → Nat) (hinj : ∀ a b, tidOf a = tidOf b → a = b)
    (c0 : Cfg D) (h0 : SafeCfg tidOf c0) (σ : List Nat) (i : Nat) :
    (runSched Foot.generated cap c0 σ).th i = (runSched Foot.generated cap (solo c0 i) σ).th i ∧
    (∀ k, (runSched Foot.generated cap c0 σ).fs (tidOf i) k =
          (runSched Foot.generated cap (solo c0 i) σ).fs (tidOf i) k) ∧
    (runSched Foot.generated cap c0 σ).g = c0.g := by
  have a := (agree_run footprint_thread_functions cap tidOf hinj i σ c0 (solo c0 i) h0
    (safeCfg_solo tidOf c0 h0 i) (othersStopped_solo c0 i) (agree_solo tidOf c0 i)).1
  exact ⟨a.2.1, a.2.2, g_run footprint_thread_functions cap tidOf σ c0 h0⟩

/-- Running alone, only the thread's own ticks count: the solo run of `σ` is
    the run of thread `i`'s calls, one tick after the other. -/
theorem solo_is_sequential (cap : Nat) (c0 : Cfg D) (σ : List Nat) (i : Nat) :
    runSched Foot.generated cap (solo c0 i) σ =
      runSched Foot.generated cap (solo c0 i) (List.replicate (σ.count i) i) := by
  rw [run_filter Foot.generated cap i σ (solo c0 i) (othersStopped_solo c0 i)]
  congr 1
  induction σ with
  | nil => rfl
  | cons j σ ih =>
    by_cases e : j = i
    · subst e; simp [List.filter_cons, List.count_cons, List.replicate_succ, ih]
    · have e' : (j == i) = false := by simp [e]
      simp [List.filter_cons, List.count_cons, e, e', ih]

/-- Two schedules that give thread `i` the same number of ticks leave it with
    the same state, stream and metadata — the other threads' interleaving is
    invisible. -/
theorem schedule_independent (cap : Nat) (tidOf : Nat → Nat) (hinj : ∀ a b, tidOf a = tidOf b → a = b)
    (c0 : Cfg D) (h0 : SafeCfg tidOf c0) (σ₁ σ₂ : List Nat) (i : Nat) (hc : σ₁.count i = σ₂.count i) :
    (runSched Foot.generated cap c0 σ₁).th i = (runSched Foot.generated cap c0 σ₂).th i ∧
    (∀ k, (runSched Foot.generated cap c0 σ₁).fs (tidOf i) k = (runSched Foot.generated cap c0 σ₂).fs (tidOf i) k) := by
  have a1 := thread_isolation cap tidOf hinj c0 h0 σ₁ i
  have a2 := thread_isolation cap tidOf hinj c0 h0 σ₂ i
  rw [solo_is_sequential cap c0 σ₁ i] at a1
  rw [solo_is_sequential cap c0 σ₂ i, ← hc] at a2
  exact ⟨a1.1.trans a2.1.symm, fun k => (a1.2.1 k).trans (a2.2.1 k).symm⟩

/-- The stream part of a thread is a C01 buffer machine: under every schedule
    and whatever the other threads (or anybody racing `ovni_proc_init` /
    `ovni_proc_fini`) do, the buffer, the records written so far and the clock
    of thread `i` are the result of running *some* sequence of `Rt.step`
    operations — its own — from its initial state. Hence every invariant C01
    proves for `Rt.run` (`run_fidelity`, `buffer_in_bounds`, C02's validity)
    holds for each thread of a concurrent execution. -/
theorem thread_stream_is_buffer_run (fp : Foot) (cap : Nat) (c0 : Cfg D) (σ : List Nat) (i : Nat) :
    ∃ ops : List (Op D), run cap (c0.th i).t.s ops = some ((runSched fp cap c0 σ).th i).t.s :=
  stream_run fp cap i σ c0

/-! ### Non-vacuity, and what happens without the hypotheses -/

section Examples

private def args (i : Nat) : Proc := { app := 1, pid := 10 + i, loom := 7 }
private def initRace : Cfg (List Nat) := raceCfg 3 (fun i => .procInit (args i)) .uninit
private def finiRace : Cfg (List Nat) := raceCfg 3 (fun _ => .procFini) .ready

/-- The hypotheses of `init_once` hold for three racing threads … -/
example : Race .uninit 3 (fun i => Call.procInit (args i)) (fun _ => 0) initRace :=
  ⟨rfl, fun i h => by simp [initRace, raceCfg, Fresh, h], fun i h => by
    have : ¬ i < 3 := by omega
    exact ⟨⟨by simp [initRace, raceCfg, this], by simp [initRace, raceCfg, this], by simp [initRace, raceCfg, this]⟩,
      by simp [initRace, raceCfg, this]⟩⟩

/-- … a round-robin schedule runs all three calls to completion: thread 0
    wins, the process is READY with thread 0's arguments, threads 1 and 2 died. -/
example :
    let c := runSched Foot.generated 100 initRace (roundRobin 3 15)
    (∀ i, i < 3 → (c.th i).dead = true ∨ ((c.th i).pend.isEmpty = true ∧ (c.th i).calls.isEmpty = true)) ∧
    (c.th 0).dead = false ∧ (c.th 0).wins = 1 ∧ (c.th 1).dead = true ∧ (c.th 2).dead = true ∧
    c.g = ⟨.ready, args 0⟩ := by decide

/-- … and under another schedule thread 2 is the one. -/
example :
    let c := runSched Foot.generated 100 initRace ([2, 2, 1, 0, 1, 0] ++ List.replicate 14 2)
    (c.th 2).dead = false ∧ (c.th 2).wins = 1 ∧ (c.th 0).dead = true ∧ (c.th 1).dead = true ∧
    c.g = ⟨.ready, args 2⟩ := by decide

example : Race .ready 3 (fun _ => (Call.procFini : Call (List Nat))) (fun _ => 0) finiRace :=
  ⟨rfl, fun i h => by simp [finiRace, raceCfg, Fresh, h], fun i h => by
    have : ¬ i < 3 := by omega
    exact ⟨⟨by simp [finiRace, raceCfg, this], by simp [finiRace, raceCfg, this], by simp [finiRace, raceCfg, this]⟩,
      by simp [finiRace, raceCfg, this]⟩⟩

example :
    let c := runSched Foot.generated 100 finiRace [1, 0, 2, 2, 1, 0]
    (c.th 2).dead = false ∧ (c.th 2).wins = 1 ∧ (c.th 0).dead = true ∧ (c.th 1).dead = true ∧
    c.g.st = .gone := by decide

/-- The compare-exchange is needed: for the step list of a `ovni_proc_init`
    that tests `st` with a load and then stores (the list `gen_footprint` would
    produce for such a source) there is a schedule under which TWO threads
    return from `ovni_proc_init`, the second overwriting the first one's pid. -/
theorem cas_is_needed :
    ∃ σ, Returned ((runSched loadStoreFoot 100 (raceCfg (D := List Nat) 2 (fun i => .procInit (args i)) .uninit) σ).th 0) ∧
         Returned ((runSched loadStoreFoot 100 (raceCfg (D := List Nat) 2 (fun i => .procInit (args i)) .uninit) σ).th 1) ∧
         (runSched loadStoreFoot 100 (raceCfg (D := List Nat) 2 (fun i => .procInit (args i)) .uninit) σ).g.proc.pid = 11 :=
  ⟨[0, 1, 0, 1, 0, 1, 0, 1, 0, 1], by
    refine ⟨⟨by decide, ?_, ?_⟩, ⟨by decide, ?_, ?_⟩, by decide⟩ <;>
      exact List.isEmpty_iff.mp (by decide)⟩

/-- and that generated list indeed fails the shape test `init_once` rests on. -/
example : raceShapeRaw .uninit .init (loadStoreFoot.events "ovni_proc_init") = false := by decide

private def ev (v : Nat) : Op (List Nat) := .emitNow { m := 79, c := 72, v := v, clock := 0 } []
private def prog (i : Nat) : List (Call (List Nat)) :=
  if i = 0 then [.threadInit 100, .stream (ev 1), .addCpu 0 0, .stream (ev 2), .stream .flush, .threadFree]
  else if i = 1 then [.threadInit 101, .stream (ev 3), .attrSet "k" "1", .stream .flush, .stream (ev 4), .threadFree]
  else []
private def twoThreads : Cfg (List Nat) := threadsCfg { app := 1, pid := 1, loom := 0 } (fun i => 100 + i) prog

/-- The hypothesis of `thread_isolation` holds for two threads that trace
    concurrently (init, emit, add_cpu / attr, flush, emit, free) … -/
example : SafeCfg (fun i => 100 + i) twoThreads :=
  threadsCfg_safe _ _ _ (by
    intro i k hk
    unfold prog at hk
    split at hk
    · next h => subst h; simp at hk; rcases hk with rfl | rfl | rfl | rfl | rfl | rfl <;> simp [CallSafe]
    · split at hk
      · next h => subst h; simp at hk; rcases hk with rfl | rfl | rfl | rfl | rfl | rfl <;> simp [CallSafe]
      · simp at hk)

/-- … and after a round-robin schedule both have finished, with the header and
    the user events emitted before their flush in their own file (two for
    thread 0; one for thread 1, whose last event stayed in the buffer: the
    library does not flush in `ovni_thread_free`) and their metadata written. -/
example :
    let c := runSched Foot.generated 100 twoThreads (roundRobin 2 26)
    (c.th 0).dead = false ∧ (c.th 1).dead = false ∧ (c.th 0).t.s.finished = true ∧ (c.th 1).t.s.finished = true ∧
    File.size (c.fs 100 .obs) = 2 ∧ File.size (c.fs 101 .obs) = 1 ∧
    File.size (c.fs 100 .json) = 11 ∧ File.size (c.fs 101 .json) = 11 := by
  set_option maxRecDepth 8000 in decide

private def mixed : Cfg (List Nat) :=
  { g := { st := .uninit },
    th := fun i => if i < 2 then { calls := [.procInit (args i)] }
                   else if i = 2 then { t := { tid := 102, s := { now := 1000 } }, calls := [.threadInit 102, .stream (ev 5)] }
                   else { t := { tid := 100 + i } } }

/-- Two racers and a bystander that calls `ovni_thread_init` concurrently:
    the hypotheses of `init_once` / `ready_means_initialised` hold; -/
example : Race .uninit 2 (fun i => Call.procInit (args i)) (fun i => 100 + i) mixed :=
  ⟨rfl, fun i h => by simp [mixed, Fresh, h], fun i h => by
    have h2 : ¬ i < 2 := by omega
    by_cases e : i = 2
    · subst e
      refine ⟨⟨rfl, by simp [mixed], ?_⟩, rfl⟩
      intro k hk
      simp [mixed] at hk
      rcases hk with rfl | rfl <;> simp [CallSafe]
    · exact ⟨⟨by simp [mixed, h2, e], by simp [mixed, h2, e], by simp [mixed, h2, e]⟩, by simp [mixed, h2, e]⟩⟩

/-- if the bystander comes too early it dies ("process not ready") … -/
example :
    let c := runSched Foot.generated 100 mixed ([0, 0, 2, 2] ++ roundRobin 2 15)
    (c.th 2).dead = true ∧ c.g = ⟨.ready, args 0⟩ := by decide

/-- … and if it comes after READY it is initialised with the winner's data
    (`ovni.pid` of thread 1, who won here). -/
example :
    let c := runSched Foot.generated 100 mixed ([1, 1] ++ roundRobin 2 15 ++ List.replicate 12 2)
    (c.th 2).dead = false ∧ (c.th 2).t.s.ready = true ∧ c.g = ⟨.ready, args 1⟩ ∧
    (c.th 2).t.md.lookup "ovni.pid" = some "11" := by
  set_option maxRecDepth 8000 in decide

/-- Distinct tids are needed: two threads that both call
    `ovni_thread_init(100)` clobber each other's `thread.100/stream.obs` — the
    file does not hold what thread 0 alone would have written. -/
example :
    let c0 : Cfg (List Nat) := threadsCfg {} (fun _ => 100)
      (fun i => if i = 0 then [.threadInit 100, .stream (ev 1), .stream .flush] else
                if i = 1 then [.threadInit 100] else [])
    let σ := List.replicate 15 0 ++ List.replicate 8 1
    File.size ((runSched Foot.generated 100 c0 σ).fs 100 .obs) = 0 ∧
    File.size ((runSched Foot.generated 100 (solo c0 0) σ).fs 100 .obs) = 1 := by decide

end Examples

end Ovni.Props.C11
