import OvniModel.Emu.Stream
import OvniModel.Emu.Meta
import OvniModel.Lemmas.Stream
import OvniModel.Lemmas.Meta
import OvniModel.Props.C14
import OvniModel.Emu.MetaJson
import OvniModel.Props.Json

/-!
# C12 — structurally invalid or incomplete traces are rejected

Model: `Emu/Stream.lean` (byte-level cursor: `load_obs`, `stream_step`,
`ovni_ev_size` with the C conversions; memory beyond the file is the parameter
`g`, every theorem holds **for all** `g`) and `Emu/Meta.lean` (metadata and
model gates as decision logic over what the JSON getters return).

Form of the theorems: `Valid t → acceptsN fuel g (corrupt t) = false` for every
`fuel` (so: never accepted, not even after arbitrarily many steps) and every
garbage `g`.  Streams are lists of well-formed events of **any** length, any
payload / jumbo sizes and any clocks below 2^63.

`truncation_rejected` is **false for the code as it is** (`stream_step` reads
the jumbo size field before checking that it lies inside the stream): the
negation is proved with a witness, the `_partial` theorem carries the exact
hypothesis that excludes the witness class, and `Fixed.truncation_rejected` is
the full statement for the repaired cursor (`Stream.Fixed`).

The metadata records the gates decide over are computed from the bytes of each
`stream.json` by the parson model (`Emu/MetaJson.lean` over `OvniModel/Json.lean`,
theorems in `Props/Json.lean`): `truncated_json_rejected` — a `stream.json` cut
anywhere is refused at `load_json`; `written_json_read_back` — the complete file
gives the getters exactly what libovni stored.
-/
namespace Ovni.Props.C12
open Ovni.Emu.Stream Ovni.Emu.Meta

/-! ### Sanity: valid streams are accepted (the rejections below are not vacuous) -/

/-- A valid stream passes the stream layer, whatever lies beyond its end. -/
theorem valid_accepted (g : Garbage) (evs : List SEv) (hv : Valid evs) :
    acceptsN (evs.length + 1) g (streamBytes evs) = true :=
  accepts_valid_with _ g evs hv (ldOk_cur g _)

theorem Fixed.valid_accepted (g : Garbage) (evs : List SEv) (hv : Valid evs) :
    Fixed.acceptsN (evs.length + 1) g (streamBytes evs) = true :=
  accepts_valid_with _ g evs hv (ldOk_fixed g _)

/-! ### Wrong magic / version: every byte of the header, every wrong value -/

/-- Replacing any one of the 8 header bytes (4 magic, 4 version) by **any**
    other value makes `load_obs` fail; holds for arbitrary stream contents
    after the header, for both cursors. -/
theorem bad_header_rejected (rest : List Nat) (i : Nat) (hi : i < 8) (v : Nat)
    (hv : v ≠ (header ++ rest).getD i 0) (g : Garbage) (fuel : Nat) :
    acceptsN fuel g ((header ++ rest).set i v) = false ∧
    Fixed.acceptsN fuel g ((header ++ rest).set i v) = false := by
  obtain ⟨e, he⟩ := loadObs_set_header rest i hi v hv false
  exact ⟨acceptsWith_loadErr _ fuel _ e he, acceptsWith_loadErr _ fuel _ e he⟩

/-- A file shorter than the header is refused (no byte is read). -/
theorem short_header_rejected (buf : List Nat) (h : buf.length < 8) (g : Garbage) (fuel : Nat) :
    acceptsN fuel g buf = false ∧ Fixed.acceptsN fuel g buf = false := by
  have : ∃ e, loadObs buf false = .error e := by
    unfold loadObs
    by_cases h0 : buf.length = 0
    · rw [if_pos h0]; exact ⟨_, rfl⟩
    · rw [if_neg h0, if_pos h]; exact ⟨_, rfl⟩
  obtain ⟨e, he⟩ := this
  exact ⟨acceptsWith_loadErr _ fuel _ e he, acceptsWith_loadErr _ fuel _ e he⟩

/-! ### Truncation strictly inside the last event -/

/-- `streamBytes init ++ l.encode.take r` is the valid stream `init ++ [l]`
    cut `r` bytes into its last event. -/
theorem truncated_eq_take (init : List SEv) (l : SEv) (r : Nat) :
    (streamBytes (init ++ [l])).take ((streamBytes init).length + r) = streamBytes init ++ l.encode.take r := by
  have : streamBytes (init ++ [l]) = streamBytes init ++ l.encode := by
    simp [streamBytes, encodeAll]
  rw [this, List.take_length_add_append]

-- OPEN: (full statement, false for the current code — see `truncation_not_rejected`)
-- theorem truncation_rejected (g : Garbage) (init : List SEv) (l : SEv) (r : Nat)
--     (hv : Valid (init ++ [l])) (hr : 0 < r) (hr2 : r < l.encode.length) :
--     ∀ fuel, acceptsN fuel g (streamBytes init ++ l.encode.take r) = false

/-- Current code: a stream cut strictly inside its last event is rejected
    **provided** the cut does not tear the size field of a jumbo event (last
    event not jumbo, or at least 16 of its bytes survive).  What is missing:
    the case of a jumbo last event with 1..15 surviving bytes, where
    `ovni_ev_size` reads the 4-byte size beyond the end of the stream. -/
theorem truncation_rejected_partial (g : Garbage) (init : List SEv) (l : SEv) (r : Nat)
    (hv : Valid (init ++ [l])) (hr : 0 < r) (hr2 : r < l.encode.length)
    (hj : isJumboF l.flags = true → 16 ≤ r) :
    ∀ fuel, acceptsN fuel g (streamBytes init ++ l.encode.take r) = false :=
  trunc_with _ g init l r hv hr hr2 (ldOk_cur g _)
    (fun pre c r1 h => by
      rw [h]; exact loadEv_trunc g pre l (hv.2.1 l (by simp)) r hr hj hr2 c r1)

/-- The valid one-event stream whose only event is a jumbo with 4 data bytes. -/
def tornJumbo : SEv := { flags := 0x13, mcv := [86, 89, 99], clock := 5, body := [4, 0, 0, 0, 1, 2, 3, 4] }

/-- Memory after the file: the bytes `fc ff ff ff` where the size field would be. -/
def tornGarbage : Garbage := fun i => if i = 20 then 0xfc else 0xff

/-- **The full truncation statement is false for the current code**: the valid
    stream `[tornJumbo]` cut after the 12-byte header of its jumbo event is
    accepted when the four bytes after the end of the buffer read
    `0xfffffffc` (`ovni_payload_size` wraps to 0, the event "fits" exactly). -/
theorem truncation_not_rejected :
    ∃ (g : Garbage) (init : List SEv) (l : SEv) (r : Nat),
      Valid (init ++ [l]) ∧ 0 < r ∧ r < l.encode.length ∧
      acceptsN 2 g (streamBytes init ++ l.encode.take r) = true :=
  ⟨tornGarbage, [], tornJumbo, 12, by decide, by decide, by decide, by decide⟩

/-- Repaired cursor: **every** cut strictly inside the last event is rejected,
    for every garbage beyond the end. -/
theorem Fixed.truncation_rejected (g : Garbage) (init : List SEv) (l : SEv) (r : Nat)
    (hv : Valid (init ++ [l])) (hr : 0 < r) (hr2 : r < l.encode.length) :
    ∀ fuel, Fixed.acceptsN fuel g (streamBytes init ++ l.encode.take r) = false :=
  trunc_with _ g init l r hv hr hr2 (ldOk_fixed g _)
    (fun pre c r1 h => by
      rw [h]; exact Ovni.Emu.Stream.Fixed.loadEv_trunc g pre l (hv.2.1 l (by simp)) r hr hr2 c r1)

/-- The same, phrased with `take` on the whole valid stream: every cut position
    `k` strictly between the start and the end of the last event. -/
theorem Fixed.truncation_rejected_take (g : Garbage) (init : List SEv) (l : SEv) (k : Nat)
    (hv : Valid (init ++ [l])) (h1 : (streamBytes init).length < k)
    (h2 : k < (streamBytes (init ++ [l])).length) :
    ∀ fuel, Fixed.acceptsN fuel g ((streamBytes (init ++ [l])).take k) = false := by
  have hlen : (streamBytes (init ++ [l])).length = (streamBytes init).length + l.encode.length := by
    simp [streamBytes, encodeAll]; omega
  have hk : k = (streamBytes init).length + (k - (streamBytes init).length) := by omega
  rw [hk, truncated_eq_take]
  exact Fixed.truncation_rejected g init l _ hv (by omega) (by omega)

/-! ### Two adjacent events with different clocks exchanged -/

/-- Swapping two adjacent events whose clocks differ makes the clock go
    backwards at the second of them: rejected (`unsorted = 0`), for any
    position in the stream and any surrounding events. -/
theorem swap_rejected (g : Garbage) (pre : List SEv) (a b : SEv) (post : List SEv)
    (hv : Valid (pre ++ a :: b :: post)) (hne : a.clock ≠ b.clock) :
    ∀ fuel, acceptsN fuel g (streamBytes (pre ++ b :: a :: post)) = false :=
  swap_with _ g pre a b post hv hne (ldOk_cur g _)

theorem Fixed.swap_rejected (g : Garbage) (pre : List SEv) (a b : SEv) (post : List SEv)
    (hv : Valid (pre ++ a :: b :: post)) (hne : a.clock ≠ b.clock) :
    ∀ fuel, Fixed.acceptsN fuel g (streamBytes (pre ++ b :: a :: post)) = false :=
  swap_with _ g pre a b post hv hne (ldOk_fixed g _)

/-! ### Non-vacuity: a concrete valid stream with payloads and a jumbo event -/

def exEvs : List SEv :=
  [ { flags := 0x0f, mcv := [79, 72, 120], clock := 10, body := [0,0,0,0, 255,255,255,255, 0,0,0,0,0,0,0,0] },
    { flags := 0x13, mcv := [86, 89, 99], clock := 10, body := [3, 0, 0, 0, 7, 8, 9] },
    { flags := 0x03, mcv := [79, 65, 115], clock := 20, body := [0, 0, 0, 0] },
    { flags := 0x00, mcv := [79, 72, 101], clock := 9223372036854775807, body := [] } ]

example : Valid exEvs := by decide
example : Valid (List.take 2 exEvs ++ exEvs[2] :: exEvs[3] :: []) ∧ exEvs[2].clock ≠ exEvs[3].clock := by decide
example : acceptsN 5 (fun _ => 0) (streamBytes exEvs) = true := by decide

/-! ### Metadata classes (decision logic over the getters' results) -/

/-- A stream.json that passes every per-stream check. -/
def goodMeta : Meta :=
  { version := some 3, part := some "thread", loom := some "node0", pid := 7, tid := 8, appId := some 1,
    finished := true, hasRequire := true, requires := [79], cpus := some [(0, 0)] }

example : checkStream goodMeta = .ok true := by decide
example : checkTrace [goodMeta] = .ok () := by decide

/-- What a stream must say to be loaded as a thread stream (specification of
    the per-stream checks, proved equivalent to the transcribed check order). -/
theorem thread_stream_spec (m : Meta) :
    checkStream m = .ok true ↔
      m.parsed = true ∧ m.version = some 3 ∧ m.part = some "thread" ∧
      (∃ name, m.loom = some name ∧ '/' ∉ name.toList) ∧ m.cpus ≠ some [] ∧ 0 < m.pid ∧
      (∀ a, m.appId = some a → 0 < a) ∧ 0 < m.tid ∧ m.finished = true :=
  checkStream_ok_iff m

/-- Every mandatory per-stream key, removed or set to a refused value, makes
    the stream fail to load — starting from **any** accepted metadata record. -/
theorem mandatory_key_rejected (m : Meta) (h : checkStream m = .ok true) :
    (∃ e, checkStream { m with parsed := false } = .error e) ∧
    (∃ e, checkStream { m with version := none } = .error e) ∧
    (∀ v : Int, v ≠ 3 → ∃ e, checkStream { m with version := some v } = .error e) ∧
    (∃ e, checkStream { m with part := none } = .error e) ∧
    (∃ e, checkStream { m with loom := none } = .error e) ∧
    (∀ s : String, '/' ∈ s.toList → ∃ e, checkStream { m with loom := some s } = .error e) ∧
    (∀ p : Int, p ≤ 0 → ∃ e, checkStream { m with pid := p } = .error e) ∧
    (∀ t : Int, t ≤ 0 → ∃ e, checkStream { m with tid := t } = .error e) ∧
    (∀ a : Int, a ≤ 0 → ∃ e, checkStream { m with appId := some a } = .error e) ∧
    (∃ e, checkStream { m with cpus := some [] } = .error e) ∧
    (∃ e, checkStream { m with finished := false } = .error e) := by
  obtain ⟨h1, h2, h3, ⟨name, h4, h4'⟩, h5, h6, h7, h8, h9⟩ := (checkStream_ok_iff m).mp h
  have rej : ∀ m' : Meta, m'.part = some "thread" → ¬ (checkStream m' = .ok true) →
      ∃ e, checkStream m' = .error e := fun m' hp hn => (checkStream_thread_cases m' hp).resolve_left hn
  refine ⟨?_, ?_, ?_, checkStream_nopart _ rfl, ?_, ?_, ?_, ?_, ?_, ?_, ?_⟩
  · exact rej _ h3 (fun hok => by have := ((checkStream_ok_iff _).mp hok).1; simp at this)
  · exact rej _ h3 (fun hok => by have := ((checkStream_ok_iff _).mp hok).2.1; simp at this)
  · intro v hv
    exact rej _ h3 (fun hok => by have := ((checkStream_ok_iff _).mp hok).2.1; simp at this; exact hv this)
  · exact rej _ h3 (fun hok => by
      obtain ⟨n, hn, _⟩ := ((checkStream_ok_iff _).mp hok).2.2.2.1; simp at hn)
  · intro s hs
    exact rej _ h3 (fun hok => by
      obtain ⟨n, hn, hn'⟩ := ((checkStream_ok_iff _).mp hok).2.2.2.1
      simp at hn; subst hn; exact hn' hs)
  · intro p hp
    exact rej _ h3 (fun hok => by have := ((checkStream_ok_iff _).mp hok).2.2.2.2.2.1; simp at this; omega)
  · intro t ht
    exact rej _ h3 (fun hok => by have := ((checkStream_ok_iff _).mp hok).2.2.2.2.2.2.2.1; simp at this; omega)
  · intro a ha
    exact rej _ h3 (fun hok => by
      have := ((checkStream_ok_iff _).mp hok).2.2.2.2.2.2.1 a rfl; omega)
  · exact rej _ h3 (fun hok => by have := ((checkStream_ok_iff _).mp hok).2.2.2.2.1; simp at this)
  · exact rej _ h3 (fun hok => by have := ((checkStream_ok_iff _).mp hok).2.2.2.2.2.2.2.2; simp at this)

/-- Trace level (single-stream form): a loom none of whose streams lists a
    CPU, a process none of whose streams carries `app_id`, a thread without
    `ovni.lib`, a thread without an `ovni.require` object — each is refused. -/
theorem trace_key_rejected (m : Meta) (h : checkStream m = .ok true) :
    (∃ e, checkTrace [{ m with cpus := none }] = .error e) ∧
    (∃ e, checkTrace [{ m with appId := none }] = .error e) ∧
    (∃ e, checkTrace [{ m with hasLib := false }] = .error e) ∧
    (∃ e, checkTrace [{ m with hasRequire := false }] = .error e) := by
  have spec := (checkStream_ok_iff m).mp h
  obtain ⟨h1, h2, h3, ⟨name, h4, h4'⟩, h5, h6, h7, h8, h9⟩ := spec
  have ok1 : checkStream { m with cpus := none } = .ok true :=
    (checkStream_ok_iff _).mpr ⟨h1, h2, h3, ⟨name, h4, h4'⟩, by simp, h6, h7, h8, h9⟩
  have ok2 : checkStream { m with appId := none } = .ok true :=
    (checkStream_ok_iff _).mpr ⟨h1, h2, h3, ⟨name, h4, h4'⟩, h5, h6, by simp, h8, h9⟩
  have ok3 : checkStream { m with hasLib := false } = .ok true :=
    (checkStream_ok_iff _).mpr ⟨h1, h2, h3, ⟨name, h4, h4'⟩, h5, h6, h7, h8, h9⟩
  have ok4 : checkStream { m with hasRequire := false } = .ok true :=
    (checkStream_ok_iff _).mpr ⟨h1, h2, h3, ⟨name, h4, h4'⟩, h5, h6, h7, h8, h9⟩
  refine ⟨?_, ?_, ?_, ?_⟩
  · unfold checkTrace; simp [List.mapM_cons, ok1, bind, Except.bind, pure, Except.pure]
  · unfold checkTrace; simp [List.mapM_cons, ok2, bind, Except.bind, pure, Except.pure]
    split <;> exact ⟨_, rfl⟩
  · unfold checkTrace; simp [List.mapM_cons, ok3, bind, Except.bind, pure, Except.pure]
    repeat' split
    all_goals exact ⟨_, rfl⟩
  · unfold checkTrace; simp [List.mapM_cons, ok4, bind, Except.bind, pure, Except.pure]
    repeat' split
    all_goals first | exact ⟨_, rfl⟩ | simp_all

/-- Events of a model no thread required (other than the always-enabled ovni
    model) and events of an unregistered model char are refused by `model_event`. -/
theorem unrequired_model_rejected (registered : List Nat) (ths : List Meta) (m : Nat)
    (hm : m ≠ 79) (hreq : ∀ t ∈ ths, m ∉ t.requires) :
    ∃ e, modelGate registered ths m = .error e := by
  unfold modelGate
  by_cases hr : m ∈ registered
  · rw [if_neg (by simpa using hr)]
    have : ¬ (m = 79 ∨ ths.any (fun t => decide (m ∈ t.requires)) = true) := by
      intro h
      rcases h with h | h
      · exact hm h
      · obtain ⟨t, ht, hd⟩ := List.any_eq_true.mp h
        exact hreq t ht (by simpa using hd)
    rw [if_neg this]; exact ⟨_, rfl⟩
  · rw [if_pos (by simpa using hr)]; exact ⟨_, rfl⟩

/-- **Version-mismatched metadata is refused, whichever thread carries it.**
    If some thread — first, last or in between — requires a registered model
    with a version string that does not parse or is not compatible with the
    model's version (the `.error` outcome of `should_enable`, characterised by
    `Props.C14.shouldEnable_error_iff`), the probe of `emu_init` aborts. -/
theorem mismatched_require_rejected (models : List (List Nat × List Nat × Nat)) (ths : List Meta)
    (name ver : List Nat) (ch : Nat) (hv : Ovni.Version.Ver)
    (hm : (name, ver, ch) ∈ models) (hp : Ovni.Version.parse (some ver) = some hv)
    (t : Meta) (ht : t ∈ ths)
    (hbad : Ovni.Version.shouldEnable hv (Ovni.Version.reqFor name t.require) = .error) :
    versionGate models ths = .error .reqVersion := by
  unfold versionGate
  have hnone : Ovni.Version.enabledSet false (ths.map (·.require)) models = none := by
    induction models with
    | nil => cases hm
    | cons x xs ih =>
      obtain ⟨n, v, c⟩ := x
      unfold Ovni.Version.enabledSet
      rcases List.mem_cons.1 hm with h | h
      · cases h
        have hab : Ovni.Version.modelEnabled false ver
            ((ths.map (·.require)).map (Ovni.Version.reqFor name)) (Ovni.Version.alwaysOn ch) = none := by
          rw [Ovni.Props.C14.abort_iff]
          refine Or.inr ⟨hv, hp, Ovni.Version.reqFor name t.require, ?_, hbad⟩
          exact List.mem_map.2 ⟨t.require, List.mem_map.2 ⟨t, ht, rfl⟩, rfl⟩
        simp only [hab]
      · cases hx : Ovni.Version.modelEnabled false v
            ((ths.map (·.require)).map (Ovni.Version.reqFor n)) (Ovni.Version.alwaysOn c) with
        | none => rfl
        | some en => simp only [ih h]
  rw [hnone]

/-- the two-thread situation: the first thread requires nanos6 1.1.0, the second
    one an incompatible major, a too-new minor, or an unparsable version -/
example : ∀ bad ∈ [[50, 46, 48, 46, 48], [49, 46, 57, 57, 46, 48], [49, 46, 120, 46, 48]],
    versionGate Ovni.Generated.modelVersions
      [{ goodMeta with reqs := [([110, 97, 110, 111, 115, 54], [49, 46, 49, 46, 48])] },
       { goodMeta with tid := 101, reqs := [([110, 97, 110, 111, 115, 54], bad)] }] = .error .reqVersion := by
  decide

example : versionGate Ovni.Generated.modelVersions
      [{ goodMeta with reqs := [([110, 97, 110, 111, 115, 54], [49, 46, 49, 46, 48])] },
       { goodMeta with tid := 101, reqs := [([110, 97, 110, 111, 115, 54], [49, 46, 48, 46, 55])] }] = .ok () := by
  decide

/-- A size-checked event stored with any other payload size is refused. -/
theorem wrong_payload_size_rejected (mcv : Nat × Nat × Nat) (ok : Nat → Bool) (n : Nat)
    (hg : sizeGuard mcv = some ok) (hn : ok n = false) : payloadGate mcv n = .error .payload := by
  unfold payloadGate; rw [hg]; simp [hn]

/-- The guards as they stand: `OHx` needs ≥ 4 bytes, `OAs` exactly 4, `OAr` exactly 8, marks exactly 12. -/
example : payloadGate (79, 72, 120) 0 = .error .payload ∧ payloadGate (79, 65, 115) 8 = .error .payload ∧
    payloadGate (79, 65, 114) 4 = .error .payload ∧ payloadGate (79, 77, 91) 8 = .error .payload ∧
    payloadGate (79, 72, 120) 16 = .ok () := by decide

/-! ### `emu_ev`: the jumbo flag handed to the models (§6-D) -/

/-- Current code: `is_jumbo` of a non-jumbo event with payload is whatever the
    previous event left — after a jumbo event it stays 1.  Witness: stream
    `[jumbo VYc, OAs with 4 bytes]`; the second event is decoded as jumbo. -/
theorem emuEv_sticky_jumbo :
    ∃ (buf : List Nat) (o1 o2 : Int) (g : Garbage),
      isJumboF (flagsAt g buf o2) = false ∧
      (emuEv (emuEv ⟨0, false, false⟩ g buf o1) g buf o2).isJumbo = true :=
  ⟨streamBytes (exEvs.drop 1), 8, 27, fun _ => 0, by decide, by decide⟩

/-- Repaired `emu_ev`: `is_jumbo` is a function of the event's own flags. -/
theorem Fixed.emuEv_isJumbo (prev : EmuEv) (g : Garbage) (buf : List Nat) (off : Int) :
    (Ovni.Emu.Stream.Fixed.emuEv prev g buf off).isJumbo = true → isJumboF (flagsAt g buf off) = true := by
  unfold Ovni.Emu.Stream.Fixed.emuEv
  simp only
  split <;> simp

/-! ### metadata from the bytes of `stream.json` (parson model) -/

/-- A `stream.json` whose text is a strict prefix of what libovni serialized (a
    kill or a full disk during `json_serialize_to_file_pretty`; the empty file
    included) does not pass `load_json`: the stream is rejected with class `json`,
    and so is a trace made of it. -/
theorem truncated_json_rejected (cast : Bool) (j : Ovni.Json.Json) (hw : Ovni.Json.Writable j)
    (hd : Ovni.Json.delimited j = true) (p : List Nat) (hp : p <+: Ovni.Json.serializePretty j)
    (hne : p ≠ Ovni.Json.serializePretty j) :
    ∃ m, metaOfText cast p = some m ∧ checkStream m = .error .json ∧ checkTrace [m] = .error .json := by
  refine ⟨metaOfJson cast .null, ?_, rfl, rfl⟩
  unfold metaOfText
  rw [Ovni.Props.Json.truncation_rejected j hw hd p hp hne]

/-- The complete file gives the emulator's getters the value libovni held. -/
theorem written_json_read_back (cast : Bool) (j : Ovni.Json.Json) (hw : Ovni.Json.Writable j) :
    metaOfText cast (Ovni.Json.serializePretty j) = some (metaOfJson cast j) := by
  unfold metaOfText
  rw [Ovni.Props.Json.roundtrip j hw]

set_option maxRecDepth 100000 in
/-- The real `stream.json` of `Props/Json.lean` passes the per-stream gate; cut before its last byte it does not. -/
example : (metaOfText false Ovni.Props.Json.realText).map checkStream = some (.ok true)
    ∧ (metaOfText false (Ovni.Props.Json.realText.take 937)).map checkStream = some (.error .json) := by decide

end Ovni.Props.C12
