import OvniModel.Emu.Stream
import OvniModel.Lemmas.StreamTotal

/-!
# C19 — tools are total: any bytes give a clean exit (stream front end)

Model: `Emu/Stream.lean`.  The byte string `buf` is **arbitrary** (no
well-formedness assumption anywhere in this file), the memory outside it is
the arbitrary parameter `g`.  `ovniemu`, `ovnidump`, `ovnitop` and `ovnisort`
all consume a stream with the same loop: `load_obs`, then `stream_step` until
it stops returning 0 (`run`); `runReads` are the memory accesses of that loop.

* `cursor_progress` / `terminates` and `reads_in_bounds` are **false for the
  code as it is**; the negations are proved with concrete witnesses
  (`no_progress`, `never_terminates`, `reads_out_of_bounds_*`).
* the `_partial` theorems hold under the explicit decidable hypothesis
  `guardedB` = "at every call the header of the next event lies inside the
  stream (12 bytes, 16 for a jumbo) and a jumbo size is at most 2^31−17";
* `Fixed.*` are the full statements for the cursor with the minimal repair.

Not covered by theorems (sanitizer runs only): the JSON parser, the handlers
behind the front end, `die()`/`abort()` policy.
-/
namespace Ovni.Props.C19
open Ovni.Emu.Stream

/-! ### The current code: concrete counterexamples -/

/-- header + one jumbo event whose size field is 0xfffffff0: `ovni_ev_size` = 12 + (int)(4 + 0xfffffff0) = 0. -/
def hangBuf : List Nat :=
  header ++ [0x13, 79, 85, 91] ++ Ovni.Rt.le 8 15 ++ [0xf0, 0xff, 0xff, 0xff]

/-- The cursor after the first call on `hangBuf`. -/
def hangCur : Cur := { offset := 8, hasEv := true, active := true, lastclock := 15, unsorted := false }

/-- What the code reads from the (in-bounds) event of `hangBuf`, for any garbage. -/
theorem hang_facts (g : Garbage) :
    flagsAt g hangBuf 8 = 19 ∧ jumboSizeAt g hangBuf 8 = 4294967280 ∧ clockAt g hangBuf 8 = 15 := by
  refine ⟨?_, ?_, ?_⟩
  · rw [show flagsAt g hangBuf 8 = flagsAt (fun _ => 0) hangBuf 8 from
      byteAt_inb g _ hangBuf 8 (by decide) (by decide)]
    decide
  · unfold jumboSizeAt
    rw [readLE_inb g (fun _ => 0) hangBuf 4 _ (by decide) (by decide)]
    decide
  · unfold clockAt
    rw [readLE_inb g (fun _ => 0) hangBuf 8 _ (by decide) (by decide)]
    decide

/-- `ovni_ev_size` of that event is 0. -/
theorem hang_evsize (g : Garbage) : evSizeC g hangBuf 8 = 0 := by
  obtain ⟨f1, f2, _⟩ := hang_facts g
  unfold evSizeC payloadSizeC
  rw [f1, f2]
  decide

/-- `stream_step` succeeds without moving: the call returns 0 and the cursor is
    exactly what it was (same offset, same event). -/
theorem no_progress (g : Garbage) : ∃ rd, streamStep g hangBuf hangCur = (.ok, hangCur, rd) := by
  obtain ⟨_, _, f3⟩ := hang_facts g
  have hn : nextOff g hangBuf hangCur = 8 := by
    simp only [nextOff, hangCur, hang_evsize g, if_true]; rfl
  unfold streamStep
  rw [if_neg (by decide), hn]
  simp only
  rw [if_neg (by decide), if_neg (by decide)]
  unfold loadEv
  simp only [hang_evsize g, f3]
  rw [if_neg (by decide), if_neg (by decide)]
  exact ⟨_, rfl⟩

/-- **`cursor_progress` is false**: a successful step that does not advance. -/
theorem not_cursor_progress :
    ¬ (∀ (g : Garbage) (buf : List Nat) (c c' : Cur) (rd : List Read),
        c.hasEv = true → streamStep g buf c = (.ok, c', rd) → c.offset + 12 ≤ c'.offset) := by
  intro h
  obtain ⟨rd, hs⟩ := no_progress (fun _ => 0)
  have := h _ _ _ _ rd rfl hs
  simp [hangCur] at this

/-- **Termination is false**: on `hangBuf` the loop is still running after any
    number of calls, whatever the memory around the buffer contains —
    `ovnidump`, `ovnitop`, `ovnisort` and `ovniemu` never return. -/
theorem never_terminates (g : Garbage) : ∀ fuel, run g hangBuf fuel hangCur = .running := by
  obtain ⟨rd, hs⟩ := no_progress g
  intro fuel
  induction fuel with
  | zero => rfl
  | succ n ih => unfold run at ih ⊢; rw [runWith_ok _ n _ _ rd hs]; exact ih

/-- ... and `hangBuf` is what `load_obs` accepts, one call before `hangCur`. -/
example : loadObs hangBuf false = .ok (cur0 false) ∧
    (streamStep (fun _ => 0) hangBuf (cur0 false)).1 = .ok ∧
    (streamStep (fun _ => 0) hangBuf (cur0 false)).2.1 = hangCur := by decide

/-- header + the 12-byte header of a jumbo event and nothing else. -/
def tornBuf : List Nat := header ++ [0x13, 79, 85, 91] ++ Ovni.Rt.le 8 15

/-- **`reads_in_bounds` is false (1)**: the first call on `tornBuf` (20 bytes)
    reads the 4-byte jumbo size at offset 20, before any bounds check. -/
theorem reads_out_of_bounds_header (g : Garbage) :
    ∃ r ∈ (streamStep g tornBuf (cur0 false)).2.2, ¬ r.inBounds tornBuf.length := by
  have hf : isJumboF (flagsAt g tornBuf 8) = true := by
    have : flagsAt g tornBuf 8 = flagsAt (fun _ => 0) tornBuf 8 :=
      byteAt_inb g _ tornBuf 8 (by decide) (by decide)
    rw [this]; decide
  have hmem : ∀ r ∈ evSizeReads g tornBuf 8, r ∈ (loadEv g tornBuf (cur0 false) 8 []).2.2 := by
    intro r h
    unfold loadEv
    simp only
    split
    · exact List.mem_append_right _ h
    · split
      · exact List.mem_append_left _ (List.mem_append_right _ h)
      · exact List.mem_append_left _ (List.mem_append_right _ h)
  refine ⟨(20, 4), ?_, by decide⟩
  rw [streamStep_eq, step_first]
  apply hmem
  unfold evSizeReads
  rw [if_pos hf]
  simp

/-- header + a jumbo event with size field 0x7ffffffc: `ovni_ev_size` = 12 + INT_MIN = −2147483636. -/
def negBuf : List Nat :=
  header ++ [0x13, 79, 85, 91] ++ Ovni.Rt.le 8 15 ++ [0xfc, 0xff, 0xff, 0x7f]

/-- **`reads_in_bounds` is false (2)**: a negative event size passes the
    "fits" test and moves the cursor 2 GiB *before* the buffer; the second
    call reads the header there. -/
theorem reads_out_of_bounds_negative :
    ∃ r ∈ runReads (fun _ => 0) negBuf 2 (cur0 false), r.1 < 0 := by
  refine ⟨(-2147483628, 1), by decide, by decide⟩

/-- Both defects happen on inputs `load_obs` accepts. -/
example : loadObs tornBuf false = .ok (cur0 false) ∧ loadObs negBuf false = .ok (cur0 false) := by decide

/-- **`reads_in_bounds` is false** as a universally quantified statement. -/
theorem not_reads_in_bounds :
    ¬ (∀ (g : Garbage) (buf : List Nat) (c : Cur) (fuel : Nat), loadObs buf false = .ok c →
        ∀ r ∈ runReads g buf fuel c, r.inBounds buf.length) := by
  intro h
  obtain ⟨r, hr, hneg⟩ := reads_out_of_bounds_negative
  have := h (fun _ => 0) negBuf (cur0 false) 2 (by decide) r hr
  exact absurd this.1 (by omega)

/-! ### The current code under the hypothesis that excludes those inputs -/

-- OPEN: (full statements, false for the current code — see above)
-- theorem reads_in_bounds (g buf c fuel) : loadObs buf u = .ok c → ∀ r ∈ runReads g buf fuel c, r.inBounds buf.length
-- theorem terminates (g buf c) : loadObs buf u = .ok c → run g buf (buf.length / 12 + 1) c ≠ .running

/-- Current code, one call: if the header of the event about to be loaded lies
    inside the stream (and a jumbo size is ≤ 2^31−17), every access of the call
    is inside the stream.  Missing for the full statement: that hypothesis —
    the code does not check it. -/
theorem reads_in_bounds_partial (g : Garbage) (buf : List Nat) (c : Cur) (hi : Inv g buf c)
    (hg : StepGuard g buf c) : ∀ r ∈ (streamStep g buf c).2.2, r.inBounds buf.length := by
  rw [step_eq_fixed g buf c hg]; exact Fixed.step_reads g buf c hi

/-- Current code, one call, same hypothesis: a successful call keeps the
    invariant, and the end of the loaded event moves forward by ≥ 12 bytes
    while staying ≤ size. -/
theorem cursor_progress_partial (g : Garbage) (buf : List Nat) (c c' : Cur) (rd : List Read)
    (hi : Inv g buf c) (hg : StepGuard g buf c) (h : streamStep g buf c = (.ok, c', rd)) :
    Inv g buf c' ∧ c'.offset = nextOff g buf c ∧
    nextOff g buf c + 12 ≤ nextOff g buf c' ∧ nextOff g buf c' ≤ (buf.length : Int) := by
  rw [step_eq_fixed g buf c hg] at h
  obtain ⟨a, _, _, b, c, d⟩ := Fixed.step_ok g buf c c' rd hi h
  exact ⟨a, b, c, d⟩

/-- Current code, whole loop: on inputs for which the repair's guards would
    never fire (`guardedB`, a decidable property of the bytes), the loop
    behaves exactly as the repaired one: all accesses inside the stream, at
    most `(size − 8) / 12` events, finished within `size / 12 + 1` calls. -/
theorem total_partial (g : Garbage) (buf : List Nat) (u : Bool) (c : Cur) (fuel : Nat)
    (hl : loadObs buf u = .ok c) (hg : guardedB g buf fuel c = true) :
    (∀ r ∈ runReads g buf fuel c, r.inBounds buf.length) ∧
    12 * runSteps g buf fuel c + 8 ≤ buf.length ∧
    (buf.length / 12 + 1 ≤ fuel → run g buf fuel c ≠ .running) := by
  obtain ⟨hi, ho, he⟩ := loadObs_inv g buf u c hl
  obtain ⟨e1, e2, e3⟩ := run_eq_fixed g buf fuel c hg
  have hn : nextOff g buf c = 8 := by simp [nextOff, he, ho]
  refine ⟨by rw [e2]; exact Fixed.run_reads g buf fuel c hi, ?_, ?_⟩
  · have := Fixed.steps_bound g buf fuel c hi
    rw [hn, ← e3] at this
    omega
  · intro hf
    rw [e1]
    apply Fixed.run_terminates g buf fuel c hi
    rw [hn]
    omega

/-- The hypothesis is satisfiable by non-trivial input (a jumbo and a normal event)… -/
example : guardedB (fun _ => 0)
    (header ++ [0x13, 86, 89, 99] ++ Ovni.Rt.le 8 5 ++ [2, 0, 0, 0, 7, 7] ++ [0x01, 79, 72, 101] ++ Ovni.Rt.le 8 6 ++ [1, 2])
    10 (cur0 false) = true := by decide

/-- …and it is exactly what the three counterexamples violate. -/
example : guardedB (fun _ => 0) hangBuf 3 (cur0 false) = false ∧
    guardedB (fun _ => 0) tornBuf 3 (cur0 false) = false ∧
    guardedB (fun _ => 0) negBuf 3 (cur0 false) = false := by decide

/-! ### The repaired cursor: the full theorems, for all byte strings -/

/-- `cursor_progress`: every successful call keeps `0 ≤ offset ≤ size`, and the
    end of the loaded event advances by at least 12 bytes and stays ≤ size. -/
theorem Fixed.cursor_progress (g : Garbage) (buf : List Nat) (c c' : Cur) (rd : List Read)
    (hi : Inv g buf c) (h : Fixed.streamStep g buf c = (.ok, c', rd)) :
    Inv g buf c' ∧ c'.offset = nextOff g buf c ∧
    nextOff g buf c + 12 ≤ nextOff g buf c' ∧ nextOff g buf c' ≤ (buf.length : Int) := by
  obtain ⟨a, _, _, b, c, d⟩ := Ovni.Emu.Stream.Fixed.step_ok g buf c c' rd hi h
  exact ⟨a, b, c, d⟩

/-- `reads_in_bounds`: for **every** byte string, every garbage and every
    number of calls, every access of the loop lies inside `[0, size)`. -/
theorem Fixed.reads_in_bounds (g : Garbage) (buf : List Nat) (u : Bool) (c : Cur) (fuel : Nat)
    (hl : loadObs buf u = .ok c) : ∀ r ∈ Fixed.runReads g buf fuel c, r.inBounds buf.length :=
  Ovni.Emu.Stream.Fixed.run_reads g buf fuel c (loadObs_inv g buf u c hl).1

/-- Termination: for every byte string the loop ends (end of stream or error)
    within `size / 12 + 1` calls, having delivered at most `(size − 8) / 12` events. -/
theorem Fixed.terminates (g : Garbage) (buf : List Nat) (u : Bool) (c : Cur) (hl : loadObs buf u = .ok c) :
    Fixed.run g buf (buf.length / 12 + 1) c ≠ .running ∧
    ∀ fuel, 12 * Fixed.runSteps g buf fuel c + 8 ≤ buf.length := by
  obtain ⟨hi, ho, he⟩ := loadObs_inv g buf u c hl
  have hn : nextOff g buf c = 8 := by simp [nextOff, he, ho]
  constructor
  · apply Ovni.Emu.Stream.Fixed.run_terminates g buf _ c hi
    rw [hn]; omega
  · intro fuel
    have := Ovni.Emu.Stream.Fixed.steps_bound g buf fuel c hi
    rw [hn] at this
    omega

/-- The verdict and the accesses of the repaired loop are a function of the
    file's bytes alone: whatever lies outside the stream is never consulted.
    (For the current code this is false: `truncation_not_rejected` in C12.) -/
theorem Fixed.garbage_independent (g g' : Garbage) (buf : List Nat) (u : Bool) (c : Cur) (fuel : Nat)
    (hl : loadObs buf u = .ok c) :
    Fixed.run g buf fuel c = Fixed.run g' buf fuel c ∧
    Fixed.runReads g buf fuel c = Fixed.runReads g' buf fuel c :=
  Ovni.Emu.Stream.Fixed.run_indep g g' buf fuel c (loadObs_inv g buf u c hl).1

/-- The three inputs that break the current code are refused cleanly by the repaired cursor. -/
example : Fixed.run (fun _ => 0) hangBuf 3 (cur0 false) = .err .jumbosize ∧
    Fixed.run (fun _ => 0) tornBuf 3 (cur0 false) = .err .incomplete ∧
    Fixed.run (fun _ => 0) negBuf 3 (cur0 false) = .err .jumbosize := by decide

/-! ### The event printer (`ovnidump`), §6-E -/

/-- Current code: `print_arg` dereferences `ev->payload` for every `%{arg}` of
    the declared signature without comparing the stored payload size: an
    `OHx(i32 cpu, i32 tid, u64 tag)` stored without payload reads through NULL. -/
theorem print_null_payload :
    printReads [(0, 4), (4, 4), (8, 8)] { payloadSize := 0, hasPayload := false, isJumbo := false } = none := by
  decide

/-- Repaired printer: every access lies inside the stored payload. -/
theorem Fixed.print_reads_guarded (args : List (Nat × Nat)) (ev : EmuEv) :
    ∀ rs, Ovni.Emu.Stream.Fixed.printReads args ev = some rs → ∀ r ∈ rs, r.1 + r.2 ≤ ev.payloadSize := by
  intro rs h r hr
  unfold Ovni.Emu.Stream.Fixed.printReads at h
  split at h
  · simp only [Option.some.injEq] at h; subst h; simp at hr
  · rename_i hsz
    simp only [Option.some.injEq] at h; subst h
    have : ∀ (l : List (Nat × Nat)) (acc : Nat), r ∈ l → r.1 + r.2 ≤ (l.map fun a => a.1 + a.2).foldl max acc := by
      intro l
      induction l with
      | nil => intro _ h; simp at h
      | cons x xs ih =>
        intro acc hm
        simp only [List.map_cons, List.foldl_cons]
        rcases List.mem_cons.mp hm with rfl | hm
        · have mono : ∀ (l : List Nat) (a : Nat), a ≤ l.foldl max a := by
            intro l; induction l with
            | nil => intro a; simp
            | cons y ys ih2 => intro a; simp only [List.foldl_cons]; exact Nat.le_trans (Nat.le_max_left a y) (ih2 _)
          exact Nat.le_trans (Nat.le_max_right acc _) (mono _ _)
        · exact ih _ hm
    have := this args 0 hr
    unfold declaredSize at hsz
    omega

end Ovni.Props.C19
