import OvniModel.Emu.Prv
import OvniModel.Lemmas.EmuCoreTotal

/-!
# C13 — Paraver output is well-formed and self-consistent

Model: `Emu/Prv.lean` (prv.c / prf.c) on top of the record generation of
`Emu/View.lean`.

`records_values_labelled_ovni`: every thread-state record an accepted OH* / OA* step writes to
thread.prv carries the code of the (new) state of the row's thread — one of the six values
labelled by `state_name[]` in thread.c — and every CPU-affinity record carries 0 (nothing) or
`gindex + 1` of an existing CPU, the value `cpu_add_to_pcf_type` labels.
-/
set_option linter.unusedSimpArgs false
namespace Ovni.Props.C13
open Ovni.Emu Ovni.Generated

/-- Invariant of a .prv file being written: timestamps in file order never
    decrease and none exceeds the current time. -/
def Mono (p : PrvFile) : Prop :=
  p.lines.Pairwise (fun a b => a.1 ≤ b.1) ∧ ∀ l ∈ p.lines, l.1 ≤ p.time

theorem mono_write (p : PrvFile) (r : PrvRec) (h : Mono p) : Mono (p.write r) := by
  obtain ⟨hs, hb⟩ := h
  constructor
  · show (p.lines ++ [(p.time, r.row, r.type, r.value)]).Pairwise _
    rw [List.pairwise_append]
    refine ⟨hs, by simp, ?_⟩
    intro a ha b hb'
    simp only [List.mem_cons, List.mem_nil_iff, or_false] at hb'
    subst hb'; exact hb a ha
  · intro l hl
    show l.1 ≤ p.time
    have : l ∈ p.lines ++ [(p.time, r.row, r.type, r.value)] := hl
    simp only [List.mem_append, List.mem_cons, List.mem_nil_iff, or_false] at this
    rcases this with h1 | h1
    · exact hb l h1
    · subst h1; exact Int.le_refl _

theorem write_time (p : PrvFile) (r : PrvRec) : (p.write r).time = p.time := rfl
theorem write_nrows (p : PrvFile) (r : PrvRec) : (p.write r).nrows = p.nrows := rfl

theorem mono_writeAll (rs : List PrvRec) (p : PrvFile) (h : Mono p) :
    Mono (p.writeAll rs) ∧ (p.writeAll rs).time = p.time ∧ (p.writeAll rs).nrows = p.nrows := by
  induction rs generalizing p with
  | nil => exact ⟨h, rfl, rfl⟩
  | cons r rs ih =>
    have := ih (p.write r) (mono_write p r h)
    exact ⟨this.1, this.2.1, this.2.2⟩

theorem mono_step (p p' : PrvFile) (file : Nat) (t : Int) (rs : List PrvRec) (h : Mono p)
    (hs : p.step file t rs = .ok p') : Mono p' ∧ p'.time = t ∧ p.time ≤ t ∧ p'.nrows = p.nrows := by
  unfold PrvFile.step PrvFile.advance at hs
  split at hs
  · cases hs
  · rename_i pa hadv
    split at hadv
    · cases hadv
    · rename_i hlt
      cases hadv
      cases hs
      have hm : Mono ({ p with time := t } : PrvFile) := by
        refine ⟨h.1, ?_⟩
        intro l hl
        have := h.2 l hl
        show l.1 ≤ t
        omega
      obtain ⟨m, ht, hn⟩ := mono_writeAll (rs.filter (·.file == file)) _ hm
      exact ⟨m, ht, by omega, hn⟩

/-- **Timestamps never decrease and the header duration is the last event
    time.** For every sequence of emulator steps (clock, records) the writer
    accepts, the lines of the file are in non-decreasing time order, none is
    later than the duration written in the header, and that duration is the
    clock of the last step. -/
theorem prv_times_monotone (file : Nat) (steps : List (Int × List PrvRec)) (p p' : PrvFile)
    (h : Mono p) (hr : p.run file steps = .ok p') :
    Mono p' ∧ p'.header.2 = p.nrows ∧
      p'.header.1 = (match steps.getLast? with | some (t, _) => t | none => p.time) := by
  induction steps generalizing p with
  | nil =>
    simp only [PrvFile.run, Except.ok.injEq] at hr
    subst hr
    exact ⟨h, rfl, rfl⟩
  | cons s rest ih =>
    obtain ⟨t, rs⟩ := s
    simp only [PrvFile.run] at hr
    cases hs : p.step file t rs with
    | error e => rw [hs] at hr; cases hr
    | ok p1 =>
      rw [hs] at hr
      obtain ⟨m1, ht1, _, hn1⟩ := mono_step p p1 file t rs h hs
      obtain ⟨m', hn', hh'⟩ := ih p1 m1 hr
      refine ⟨m', by rw [hn', hn1], ?_⟩
      rw [hh']
      cases rest with
      | nil => simp [ht1]
      | cons a b =>
        rw [List.getLast?_cons_cons]
        cases hgl : (a :: b).getLast? with
        | none => simp at hgl
        | some x => rfl

/-- A step whose clock goes backwards is refused (no line is written at an
    earlier time than an existing one). -/
theorem backwards_refused (p : PrvFile) (file : Nat) (t : Int) (rs : List PrvRec) (h : t < p.time) :
    p.step file t rs = .error .other := by
  unfold PrvFile.step PrvFile.advance
  simp [h]

/-! ### Rows and types of the records the emulator produces -/

theorem collect_mem (xs : List (Except Err (List PrvRec))) (out : List PrvRec)
    (h : collect xs = .ok out) (r : PrvRec) (hr : r ∈ out) :
    ∃ x ∈ xs, ∃ l, x = .ok l ∧ r ∈ l := by
  induction xs generalizing out with
  | nil => simp only [collect, Except.ok.injEq] at h; subst h; cases hr
  | cons x xs ih =>
    simp only [collect] at h
    cases x with
    | error e => cases h
    | ok l =>
      simp only at h
      cases hc : collect xs with
      | error e => rw [hc] at h; cases h
      | ok rest =>
        rw [hc] at h
        simp only [Except.ok.injEq] at h
        subst h
        rcases List.mem_append.1 hr with h1 | h1
        · exact ⟨.ok l, by simp, l, rfl, h1⟩
        · obtain ⟨y, hy, l', hl', hm⟩ := ih rest hc h1
          exact ⟨y, by simp [hy], l', hl', hm⟩

theorem emitRaw_mem (file row type flags : Nat) (c : Chan) (l : List PrvRec)
    (h : emitRaw file row type flags c = .ok l) (r : PrvRec) (hr : r ∈ l) :
    r.file = file ∧ r.row = row ∧ r.type = type := by
  unfold emitRaw at h
  split at h
  · cases hv : prvValue flags c.cur with
    | error e => simp [hv, bind, Except.bind] at h
    | ok v =>
      simp [hv, bind, Except.bind, pure, Except.pure] at h
      subst h
      simp at hr; subst hr; exact ⟨rfl, rfl, rfl⟩
  · simp [pure, Except.pure] at h; subst h; cases hr

theorem emitView_mem (file row type flags : Nat) (old new : Value) (l : List PrvRec)
    (h : emitView file row type flags old new = .ok l) (r : PrvRec) (hr : r ∈ l) :
    r.file = file ∧ r.row = row ∧ r.type = type := by
  unfold emitView at h
  split at h
  · simp [pure, Except.pure] at h; subst h; cases hr
  · cases hv : prvValue flags new with
    | error e => simp [hv, bind, Except.bind] at h
    | ok v =>
      simp [hv, bind, Except.bind, pure, Except.pure] at h
      subst h
      simp at hr; subst hr; exact ⟨rfl, rfl, rfl⟩

/-- the generated channel specs are consistent: one Paraver type per channel -/
theorem specs_consistent : ∀ s ∈ allSpecs, s.pvtType.length = s.nch := by decide

theorem type_mem (e : Emu) (hx : ∀ s ∈ e.extra, s.pvtType.length = s.nch) (m : ModelSpec)
    (hm : m ∈ e.specs) (i : Nat) (hi : i ∈ List.range m.nch) :
    m.pvtType.getD i 0 ∈ e.specs.flatMap (·.pvtType) := by
  have hlen : m.pvtType.length = m.nch := by
    rcases List.mem_append.1 hm with h1 | h1
    · exact specs_consistent m (List.mem_filter.1 h1).1
    · exact hx m h1
  have hi' : i < m.pvtType.length := by rw [hlen]; exact List.mem_range.1 hi
  apply List.mem_flatMap.2
  refine ⟨m, hm, ?_⟩
  rw [List.getD_eq_getElem?_getD, List.getElem?_eq_getElem hi']
  exact List.getElem_mem hi'

/-- **Rows in range, types declared.** Every record the emulator produces in a
    step belongs to the row of an existing thread (file 0) or CPU (file 1) —
    row = gindex + 1 — and its type is one of the types declared in the matching
    .pcf (the three fixed types plus the channel types of the enabled models). -/
theorem records_rows_types (old new : Emu) (hxc : ∀ s ∈ new.extra, s.pvtType.length = s.nch)
    (out : List PrvRec) (h : records old new = .ok out)
    (r : PrvRec) (hr : r ∈ out) :
    (r.file = 0 ∧ (∃ t ∈ new.threads, r.row = t.gindex + 1) ∧ r.type ∈ threadTypes new) ∨
    (r.file = 1 ∧ (∃ c ∈ new.cpus, r.row = c.gindex + 1) ∧ r.type ∈ cpuTypes new) := by
  unfold records at h
  obtain ⟨x, hx, l, hl, hm⟩ := collect_mem _ out h r hr
  rcases List.mem_append.1 hx with hx | hx
  · -- a thread row
    left
    obtain ⟨t, ht, rfl⟩ := List.mem_map.1 hx
    unfold threadRecords at hl
    obtain ⟨y, hy, l2, hl2, hm2⟩ := collect_mem _ l hl r hm
    rcases List.mem_append.1 hy with hy | hy
    · simp only [List.mem_cons, List.mem_nil_iff, or_false] at hy
      rcases hy with rfl | rfl | rfl
      · obtain ⟨a, b, c⟩ := emitRaw_mem _ _ _ _ _ l2 hl2 r hm2
        exact ⟨a, ⟨t, ht, b⟩, by rw [c]; simp [threadTypes]⟩
      · obtain ⟨a, b, c⟩ := emitRaw_mem _ _ _ _ _ l2 hl2 r hm2
        exact ⟨a, ⟨t, ht, b⟩, by rw [c]; simp [threadTypes]⟩
      · obtain ⟨a, b, c⟩ := emitRaw_mem _ _ _ _ _ l2 hl2 r hm2
        exact ⟨a, ⟨t, ht, b⟩, by rw [c]; simp [threadTypes]⟩
    · obtain ⟨m, hmem, hy2⟩ := List.mem_flatMap.1 hy
      obtain ⟨i, hi, rfl⟩ := List.mem_map.1 hy2
      obtain ⟨a, b, c⟩ := emitView_mem _ _ _ _ _ _ l2 hl2 r hm2
      refine ⟨a, ⟨t, ht, b⟩, ?_⟩
      rw [c]
      unfold threadTypes
      exact List.mem_append_right _ (type_mem new hxc m hmem i hi)
  · -- a CPU row
    right
    obtain ⟨c, hc, rfl⟩ := List.mem_map.1 hx
    unfold cpuRecords at hl
    obtain ⟨y, hy, l2, hl2, hm2⟩ := collect_mem _ l hl r hm
    rcases List.mem_append.1 hy with hy | hy
    · simp only [List.mem_cons, List.mem_nil_iff, or_false] at hy
      rcases hy with rfl | rfl | rfl
      · obtain ⟨a, b, cc⟩ := emitRaw_mem _ _ _ _ _ l2 hl2 r hm2
        exact ⟨a, ⟨c, hc, b⟩, by rw [cc]; simp [cpuTypes]⟩
      · obtain ⟨a, b, cc⟩ := emitRaw_mem _ _ _ _ _ l2 hl2 r hm2
        exact ⟨a, ⟨c, hc, b⟩, by rw [cc]; simp [cpuTypes]⟩
      · obtain ⟨a, b, cc⟩ := emitRaw_mem _ _ _ _ _ l2 hl2 r hm2
        exact ⟨a, ⟨c, hc, b⟩, by rw [cc]; simp [cpuTypes]⟩
    · obtain ⟨m, hmem, hy2⟩ := List.mem_flatMap.1 hy
      obtain ⟨i, hi, rfl⟩ := List.mem_map.1 hy2
      obtain ⟨a, b, cc⟩ := emitView_mem _ _ _ _ _ _ l2 hl2 r hm2
      refine ⟨a, ⟨c, hc, b⟩, ?_⟩
      rw [cc]
      unfold cpuTypes
      exact List.mem_append_right _ (type_mem new hxc m hmem i hi)

/-- **Labels.** Every value an event table, a connect-time initialisation or a
    CPU-mux default can put on a channel with a PCF value table has a label there
    (regenerated tables; the thread-state codes are labelled in thread.c and every
    CPU adds its own affinity label `gindex + 1`, see DESIGN). -/
def initLabelled (m : ModelSpec) (labels : List (List (Int × String))) : Bool :=
  (m.initVals ++ m.cpuDefault).all (fun iv => (labels.getD iv.1 []).any (fun l => l.1 == iv.2))

theorem init_values_labelled :
    initLabelled specNosv Nosv.labels = true ∧ initLabelled specNanos6 Nanos6.labels = true := by decide

/-- the six thread states have the codes labelled in the table of thread.c (regenerated codes) -/
theorem thread_state_codes :
    [ThState.unknown, .running, .paused, .dead, .cooling, .warming].map ThState.code = [0, 1, 2, 3, 4, 5] := by
  decide

/-! ### Values of the thread-state and CPU-affinity records of the ovni model -/

/-- no channel of the group uses the Paraver types of the thread state / the CPU affinity -/
def typesDisjoint (m : ModelSpec) : Bool :=
  m.pvtType.all fun ty => ty != prvThreadState && ty != prvThreadCpu

/-- none of the eight models does (regenerated specs) -/
theorem allSpecs_types_disjoint : ∀ m ∈ allSpecs, typesDisjoint m = true := by decide

theorem getD_type_ne {m : ModelSpec} (h : typesDisjoint m = true) (i : Nat) :
    m.pvtType.getD i 0 ≠ prvThreadState ∧ m.pvtType.getD i 0 ≠ prvThreadCpu := by
  rw [List.getD_eq_getElem?_getD]
  cases hg : m.pvtType[i]? with
  | none => exact ⟨by decide, by decide⟩
  | some ty =>
    unfold typesDisjoint at h
    rw [List.all_eq_true] at h
    have := h ty (List.mem_of_getElem? hg)
    simp only [Bool.and_eq_true, bne_iff_ne, ne_eq] at this
    exact this

theorem emitRaw_mem_val (file row type flags : Nat) (c : Chan) (l : List PrvRec)
    (h : emitRaw file row type flags c = .ok l) (r : PrvRec) (hr : r ∈ l) :
    prvValue flags c.cur = .ok r.value := by
  unfold emitRaw at h
  split at h
  · cases hv : prvValue flags c.cur with
    | error e => simp [hv, bind, Except.bind] at h
    | ok v =>
      simp [hv, bind, Except.bind, pure, Except.pure] at h
      subst h
      simp at hr; subst hr; rfl
  · simp [pure, Except.pure] at h; subst h; cases hr

theorem prvValue_stateVal (s : ThState) : prvValue prvSkipDup (stateVal s) = .ok s.code := by
  cases s <;> rfl

theorem prvValue_cpuVal_some (ci : Nat) : prvValue prvNext (cpuVal (some ci)) = .ok ((ci : Int) + 1) := by
  unfold cpuVal prvValue
  have : ¬ ((ci : Int) + 1 = 0) := by omega
  simp [prvNext, prvZero, this]

/-- **Labelled values (general form).**  Whenever the flushed successor state is well-formed and no
    channel group reuses the types 4 / 6, every record of `records old new` in thread.prv of type
    `prvThreadState` carries the code of the state of the thread of its row, and every record of
    type `prvThreadCpu` carries 0 when that thread has no CPU and otherwise `gindex + 1` of the
    (existing) CPU it is bound to. -/
theorem records_values_labelled_wf (old : Emu) {new : Emu} (hw : WF new.flushAll)
    (hx : ∀ m ∈ new.extra, typesDisjoint m = true) {out : List PrvRec} (h : records old new = .ok out)
    {r : PrvRec} (hr : r ∈ out) (hf : r.file = 0) :
    (r.type = prvThreadState →
      ∃ t ∈ new.flushAll.threads, r.row = t.gindex + 1 ∧ r.value = t.state.code) ∧
    (r.type = prvThreadCpu →
      ∃ t ∈ new.flushAll.threads, r.row = t.gindex + 1 ∧
        ((t.cpu = none ∧ r.value = 0) ∨
          ∃ c ∈ new.flushAll.cpus, t.cpu = some c.gindex ∧ r.value = (c.gindex : Int) + 1)) := by
  have hdis : ∀ m ∈ allSpecs.filter (fun s => new.enabled.contains s.char) ++ new.extra,
      typesDisjoint m = true := by
    intro m hm
    rcases List.mem_append.1 hm with h1 | h1
    · exact allSpecs_types_disjoint m (List.mem_filter.1 h1).1
    · exact hx m h1
  unfold records at h
  obtain ⟨x, hx', l, hl, hm⟩ := collect_mem _ out h r hr
  rcases List.mem_append.1 hx' with hx' | hx'
  · obtain ⟨t, ht, rfl⟩ := List.mem_map.1 hx'
    obtain ⟨hcs, _, hcc⟩ := wf_flush_thread hw ht
    have htf : t.flush ∈ new.flushAll.threads := by
      rw [Emu.flushAll_eq]; exact List.mem_map.2 ⟨t, ht, rfl⟩
    unfold threadRecords at hl
    obtain ⟨y, hy, l2, hl2, hm2⟩ := collect_mem _ l hl r hm
    rcases List.mem_append.1 hy with hy | hy
    · simp only [List.mem_cons, List.mem_nil_iff, or_false] at hy
      rcases hy with rfl | rfl | rfl
      · -- the CPU-affinity channel
        obtain ⟨_, b, c⟩ := emitRaw_mem _ _ _ _ _ l2 hl2 r hm2
        have hval := emitRaw_mem_val _ _ _ _ _ l2 hl2 r hm2
        refine ⟨fun h4 => absurd (c.symm.trans h4) (by decide), fun _ => ⟨t.flush, htf, b, ?_⟩⟩
        rw [hcc] at hval
        cases hcpu : t.cpu with
        | none =>
          rw [hcpu] at hval
          have : (Except.ok 0 : Except Err Int) = .ok r.value := hval
          exact Or.inl ⟨hcpu, by injection this with this; exact this.symm⟩
        | some ci =>
          rw [hcpu, prvValue_cpuVal_some] at hval
          obtain ⟨i, hi⟩ := List.mem_iff_getElem?.mp htf
          have hth := hw.th i _ hi
          have hlt := hth.cpuLt ci hcpu
          have hc := hw.cpu ci _ (List.getElem?_eq_getElem hlt)
          refine Or.inr ⟨new.flushAll.cpus[ci], List.getElem_mem hlt, ?_, ?_⟩
          · show t.cpu = _
            rw [hc.gidx]; exact hcpu
          · rw [hc.gidx]; injection hval with hval; exact hval.symm
      · -- the TID channel: another type
        obtain ⟨_, _, c⟩ := emitRaw_mem _ _ _ _ _ l2 hl2 r hm2
        exact ⟨fun h4 => absurd (c.symm.trans h4) (by decide), fun h6 => absurd (c.symm.trans h6) (by decide)⟩
      · -- the state channel
        obtain ⟨_, b, c⟩ := emitRaw_mem _ _ _ _ _ l2 hl2 r hm2
        have hval := emitRaw_mem_val _ _ _ _ _ l2 hl2 r hm2
        refine ⟨fun _ => ⟨t.flush, htf, b, ?_⟩, fun h6 => absurd (c.symm.trans h6) (by decide)⟩
        rw [hcs, prvValue_stateVal] at hval
        injection hval with hval
        exact hval.symm
    · -- a model view: its type is neither 4 nor 6
      obtain ⟨m, hmem, hy2⟩ := List.mem_flatMap.1 hy
      obtain ⟨i, _, rfl⟩ := List.mem_map.1 hy2
      obtain ⟨_, _, c⟩ := emitView_mem _ _ _ _ _ _ l2 hl2 r hm2
      obtain ⟨n4, n6⟩ := getD_type_ne (hdis m hmem) i
      exact ⟨fun h4 => absurd (c.symm.trans h4) n4, fun h6 => absurd (c.symm.trans h6) n6⟩
  · -- a CPU row: file 1
    obtain ⟨c, _, rfl⟩ := List.mem_map.1 hx'
    unfold cpuRecords at hl
    obtain ⟨y, hy, l2, hl2, hm2⟩ := collect_mem _ l hl r hm
    have hfile : r.file = 1 := by
      rcases List.mem_append.1 hy with hy | hy
      · simp only [List.mem_cons, List.mem_nil_iff, or_false] at hy
        rcases hy with rfl | rfl | rfl <;> exact (emitRaw_mem _ _ _ _ _ l2 hl2 r hm2).1
      · obtain ⟨m, _, hy2⟩ := List.mem_flatMap.1 hy
        obtain ⟨i, _, rfl⟩ := List.mem_map.1 hy2
        exact (emitView_mem _ _ _ _ _ _ l2 hl2 r hm2).1
    rw [hf] at hfile; cases hfile

/-- **`emit`'s zero rule is the only failure of the record emission**: `records` fails only with
    "forbidden value 0" — an integer 0 (after PRV_NEXT) on a type without PRV_ZERO; under
    `NoZeroIds` and for the events of the ovni model it does not fail at all
    (`records_total_of_wf`, C04 `records_total`, C05 `records_total_affinity`). -/
theorem records_error_only_zero {old new : Emu} {err : Err} (h : records old new = .error err) :
    err = .prvZero := records_error h

section
variable (th mh : Emu → Nat → Nat → Nat → List Nat → Except Err Emu)

/-- **Every thread-state and CPU-affinity value the ovni model prints has a label.**  For every
    accepted step (`stepEv`) of a thread event OH{x,c,p,w,r,e} or an affinity event OAs / OAr from a
    well-formed state, every record written to thread.prv with type `prvThreadState` carries the code
    of the state the thread of that row is in after the step — one of the six codes 0 … 5 labelled
    by `state_name[]` (`thread_state_codes`) — and every record with type `prvThreadCpu` carries 0
    (the thread has no CPU any more) or `gindex + 1` of the CPU of the new state the thread is bound
    to, which exists: exactly the value `cpu_add_to_pcf_type` labels for that CPU. -/
theorem records_values_labelled_ovni {e e' : Emu} (h : WF e) (hen : e.enabled.contains 79 = true)
    (hx : ∀ m ∈ e.extra, typesDisjoint m = true) {ev : OEv} (hk : IsThreadEv ev ∨ IsAffinityEv ev)
    {rs : List PrvRec} (hs : stepEv e ev.1 79 ev.2.1 ev.2.2.1 ev.2.2.2 th mh = .ok (e', rs))
    {r : PrvRec} (hr : r ∈ rs) (hf : r.file = 0) :
    (r.type = prvThreadState →
      ∃ t ∈ e'.threads, r.row = t.gindex + 1 ∧ r.value = t.state.code ∧
        r.value ∈ [ThState.unknown, .running, .paused, .dead, .cooling, .warming].map (fun s => (s.code : Int))) ∧
    (r.type = prvThreadCpu →
      ∃ t ∈ e'.threads, r.row = t.gindex + 1 ∧
        ((t.cpu = none ∧ r.value = 0) ∨
          ∃ c ∈ e'.cpus, t.cpu = some c.gindex ∧ r.value = (c.gindex : Int) + 1)) := by
  obtain ⟨e1, hm, hrec, rfl⟩ := (stepEv_ok_iff th mh e ev e' rs).mp hs
  obtain ⟨tj, x, hso⟩ := emuStep_sound th mh h hen hk (stepEv_emuStep th mh hs)
  have hx1 : ∀ m ∈ e1.extra, typesDisjoint m = true := by
    have : e1.extra = e.extra := hso.static.extra
    rw [this]; exact hx
  obtain ⟨a, b⟩ := records_values_labelled_wf e hso.wf hx1 hrec hr hf
  refine ⟨fun h4 => ?_, b⟩
  obtain ⟨t, ht, h1, h2⟩ := a h4
  refine ⟨t, ht, h1, h2, ?_⟩
  rw [h2]
  cases t.state <;> decide

/-- The OH* case with the event spelled out. -/
theorem records_values_labelled_OH {e e' : Emu} (h : WF e) (hen : e.enabled.contains 79 = true)
    (hx : ∀ m ∈ e.extra, typesDisjoint m = true) {ti v : Nat} (hv : v ∈ [120, 99, 112, 119, 114, 101])
    {payload : List Nat} {rs : List PrvRec} (hs : stepEv e ti 79 72 v payload th mh = .ok (e', rs))
    {r : PrvRec} (hr : r ∈ rs) (hf : r.file = 0) :
    (r.type = prvThreadState → ∃ t ∈ e'.threads, r.row = t.gindex + 1 ∧ r.value = t.state.code) ∧
    (r.type = prvThreadCpu → r.value = 0 ∨ ∃ c ∈ e'.cpus, r.value = (c.gindex : Int) + 1) := by
  obtain ⟨a, b⟩ := records_values_labelled_ovni th mh h hen hx (ev := (ti, 72, v, payload))
    (Or.inl ⟨rfl, hv⟩) hs hr hf
  refine ⟨fun h4 => ?_, fun h6 => ?_⟩
  · obtain ⟨t, ht, h1, h2, _⟩ := a h4; exact ⟨t, ht, h1, h2⟩
  · obtain ⟨t, _, _, h2⟩ := b h6
    rcases h2 with ⟨_, h0⟩ | ⟨c, hc, _, hv'⟩
    · exact Or.inl h0
    · exact Or.inr ⟨c, hc, hv'⟩
end

/-- **.row file**: as many names as rows, one per thread / CPU in gindex order. -/
theorem row_file_complete (labels : List String) :
    (rowFile labels).1 = labels.length ∧ (rowFile labels).2 = labels := ⟨rfl, rfl⟩

/-! ### Non-vacuity -/

example : Mono ({ nrows := 2 } : PrvFile) := ⟨List.Pairwise.nil, by intro l hl; cases hl⟩
example : (({ nrows := 2 } : PrvFile).run 0 [(0, [⟨0, 1, 4, 1⟩]), (5, [⟨0, 1, 4, 2⟩, ⟨1, 1, 3, 0⟩]), (5, [])]).toOption.map
    (fun p => (p.header, p.lines)) = some ((5, 2), [(0, 1, 4, 1), (5, 1, 4, 2)]) := by decide

/-- the execute of the only thread of a one-CPU system writes, on thread row 1, CPU 1 = `gindex 0 + 1`
    (type 6) and state 1 = running (type 4): the hypotheses of `records_values_labelled_ovni` are
    satisfiable and its conclusions are met with non-zero values -/
example :
    ((stepEv (mkEmu [(10, 100, 0)] [(0, 0, false)] [79] false) 0 79 72 120 [0, 0, 0, 0]
        (fun _ _ _ _ _ => .error .unknownEvent) (fun _ _ _ _ _ => .error .unknownEvent)).toOption.map
      fun p => p.2.filter (fun r => r.file == 0 && (r.type == prvThreadState || r.type == prvThreadCpu))) =
    some [⟨0, 1, 6, 1⟩, ⟨0, 1, 4, 1⟩] := by decide

example : ∀ m ∈ (mkEmu [(10, 100, 0)] [(0, 0, false)] [79] false).extra, typesDisjoint m = true := by
  intro m hm; cases hm

end Ovni.Props.C13
