import OvniModel.Emu.Chan
import OvniModel.Emu.Core
import OvniModel.Emu.View
import OvniModel.Spec.EventValues

/-!
# C08 — subsystem events nest like a stack and map to documented values

Model: `Emu/Chan.lean` (chan_push / chan_pop / chan_set of src/emu/chan.c) and
the generated event tables.  One emulator event = one channel operation
followed by the flush of `bay_propagate`.
-/
set_option linter.unusedSimpArgs false
namespace Ovni.Props.C08
open Ovni.Emu Ovni.Generated

/-- The enter/leave operations of one channel. -/
inductive SOp where
  | push (v : Int)
  | pop (v : Int)
deriving DecidableEq, Repr

/-- Implementation side: operation, then flush (one event). -/
def applyOp (maxStack : Nat) (c : Chan) : SOp → Except Err Chan
  | .push v => (c.push maxStack (.int v)).map Chan.flush
  | .pop v => (c.pop (.int v)).map Chan.flush

def runOps (maxStack : Nat) : Chan → List SOp → Except Err Chan
  | c, [] => .ok c
  | c, op :: ops => match applyOp maxStack c op with
    | .error e => .error e
    | .ok c' => runOps maxStack c' ops

/-- Specification, written from the property text: a leave must match the
    innermost open region; an enter must not re-enter the innermost open region
    (unless the channel allows duplicates) nor exceed the depth limit. -/
def specOp (maxStack : Nat) (allowDup : Bool) (stk : List Int) : SOp → Option (List Int)
  | .push v =>
    if !allowDup && stk.getLast? = some v then none
    else if stk.length ≥ maxStack then none
    else some (stk ++ [v])
  | .pop v => if stk.getLast? = some v then some stk.dropLast else none

def specRun (maxStack : Nat) (allowDup : Bool) : List Int → List SOp → Option (List Int)
  | stk, [] => some stk
  | stk, op :: ops => match specOp maxStack allowDup stk op with
    | none => none
    | some stk' => specRun maxStack allowDup stk' ops

/-- A flushed stack channel holding `stk`. -/
structure Rep (c : Chan) (stk : List Int) : Prop where
  isStack : c.isStack = true
  vals : c.vals = stk.map Value.int
  clean : c.dirty = false
  last : c.last = c.cur
  noIgnore : c.ignoreDup = false

theorem getLast_map_int (stk : List Int) :
    (stk.map Value.int).getLast? = stk.getLast?.map Value.int := by
  simp [List.getLast?_map]

theorem cur_of_rep {c : Chan} {stk : List Int} (h : Rep c stk) :
    c.cur = match stk.getLast? with | some v => .int v | none => .null := by
  unfold Chan.cur
  rw [h.vals, getLast_map_int]
  cases stk.getLast? <;> rfl

/-- **The timeline shows the innermost open region** (nothing when none is open). -/
theorem view_is_top {c : Chan} {stk : List Int} (h : Rep c stk) :
    c.cur = match stk.getLast? with | some v => .int v | none => .null := cur_of_rep h

theorem rep_flush_push {c : Chan} {stk : List Int} (h : Rep c stk) (v : Int) :
    Rep ({ c with vals := c.vals ++ [Value.int v], dirty := true } : Chan).flush (stk ++ [v]) := by
  refine ⟨?_, ?_, ?_, ?_, ?_⟩
  · simp [Chan.flush, h.isStack]
  · simp [Chan.flush, h.vals]
  · simp [Chan.flush]
  · simp [Chan.flush, Chan.cur]
  · simp [Chan.flush, h.noIgnore]

theorem rep_flush_pop {c : Chan} {stk : List Int} (h : Rep c stk) :
    Rep ({ c with vals := c.vals.dropLast, dirty := true } : Chan).flush stk.dropLast := by
  refine ⟨?_, ?_, ?_, ?_, ?_⟩
  · simp [Chan.flush, h.isStack]
  · simp [Chan.flush, h.vals, List.map_dropLast]
  · simp [Chan.flush]
  · simp [Chan.flush, Chan.cur]
  · simp [Chan.flush, h.noIgnore]

theorem last_of_rep {c : Chan} {stk : List Int} (h : Rep c stk) (v : Int) :
    (c.last = Value.int v) ↔ stk.getLast? = some v := by
  rw [h.last, cur_of_rep h]
  cases stk.getLast? with
  | none => simp
  | some t =>
    constructor
    · intro hh; cases hh; rfl
    · intro hh; cases hh; rfl

theorem push_ok {c : Chan} {stk : List Int} (h : Rep c stk) (maxStack : Nat) (v : Int)
    (hd : c.allowDup = true ∨ stk.getLast? ≠ some v) (hf : stk.length < maxStack) :
    c.push maxStack (.int v) = .ok { c with vals := c.vals ++ [Value.int v], dirty := true } := by
  have hlen : c.vals.length = stk.length := by rw [h.vals]; simp
  unfold Chan.push
  rw [if_neg (by simp [h.isStack]), if_neg (by simp [h.clean])]
  have hnd : ¬ ((!c.allowDup && decide (c.last = Value.int v)) = true) := by
    simp only [Bool.and_eq_true, Bool.not_eq_true', decide_eq_true_eq, not_and]
    intro ha hl
    rcases hd with hd | hd
    · rw [hd] at ha; cases ha
    · exact hd ((last_of_rep h v).1 hl)
  rw [if_neg hnd, if_neg (by omega)]

theorem push_err {c : Chan} {stk : List Int} (h : Rep c stk) (maxStack : Nat) (v : Int)
    (hd : (c.allowDup = false ∧ stk.getLast? = some v) ∨ stk.length ≥ maxStack) :
    ∃ e, c.push maxStack (.int v) = .error e := by
  have hlen : c.vals.length = stk.length := by rw [h.vals]; simp
  unfold Chan.push
  rw [if_neg (by simp [h.isStack]), if_neg (by simp [h.clean])]
  by_cases hdup : (!c.allowDup && decide (c.last = Value.int v)) = true
  · rw [if_pos hdup, h.noIgnore]; exact ⟨_, rfl⟩
  · rw [if_neg hdup]
    rcases hd with ⟨ha, hl⟩ | hfull
    · exfalso; apply hdup
      simp [ha, (last_of_rep h v).2 hl]
    · rw [if_pos (by omega)]; exact ⟨_, rfl⟩

theorem pop_ok {c : Chan} {stk : List Int} (h : Rep c stk) (v : Int) (ht : stk.getLast? = some v) :
    c.pop (.int v) = .ok { c with vals := c.vals.dropLast, dirty := true } := by
  unfold Chan.pop
  rw [if_neg (by simp [h.isStack]), if_neg (by simp [h.clean])]
  have : c.vals.getLast? = some (Value.int v) := by rw [h.vals, getLast_map_int, ht]; rfl
  rw [this]
  simp

theorem pop_err {c : Chan} {stk : List Int} (h : Rep c stk) (v : Int) (ht : stk.getLast? ≠ some v) :
    ∃ e, c.pop (.int v) = .error e := by
  unfold Chan.pop
  rw [if_neg (by simp [h.isStack]), if_neg (by simp [h.clean])]
  rw [h.vals, getLast_map_int]
  cases hl : stk.getLast? with
  | none => exact ⟨_, rfl⟩
  | some top =>
    have hne : top ≠ v := by intro hh; subst hh; exact ht hl
    have : (Value.int top ≠ Value.int v) := by intro hh; cases hh; exact hne rfl
    simp only [Option.map_some]
    rw [if_pos this]; exact ⟨_, rfl⟩

/-- One event: the implementation accepts exactly when the specification does,
    and the representation is kept. -/
theorem applyOp_iff (maxStack : Nat) (c : Chan) (stk : List Int) (h : Rep c stk) (op : SOp) :
    (∀ stk', specOp maxStack c.allowDup stk op = some stk' →
        ∃ c', applyOp maxStack c op = .ok c' ∧ Rep c' stk' ∧ c'.allowDup = c.allowDup) ∧
    (specOp maxStack c.allowDup stk op = none → ∃ e, applyOp maxStack c op = .error e) := by
  cases op with
  | push v =>
    simp only [specOp, applyOp]
    by_cases hdup : (!c.allowDup && decide (stk.getLast? = some v)) = true
    · rw [if_pos hdup]
      simp only [Bool.and_eq_true, Bool.not_eq_true', decide_eq_true_eq] at hdup
      obtain ⟨e, he⟩ := push_err h maxStack v (Or.inl hdup)
      rw [he]
      exact ⟨fun _ hh => (by cases hh), fun _ => ⟨e, rfl⟩⟩
    · rw [if_neg hdup]
      by_cases hf : stk.length ≥ maxStack
      · rw [if_pos hf]
        obtain ⟨e, he⟩ := push_err h maxStack v (Or.inr hf)
        rw [he]
        exact ⟨fun _ hh => (by cases hh), fun _ => ⟨e, rfl⟩⟩
      · rw [if_neg hf]
        have hd : c.allowDup = true ∨ stk.getLast? ≠ some v := by
          simp only [Bool.and_eq_true, Bool.not_eq_true', decide_eq_true_eq, not_and] at hdup
          cases ha : c.allowDup with
          | true => exact Or.inl rfl
          | false => exact Or.inr (hdup ha)
        rw [push_ok h maxStack v hd (by omega)]
        refine ⟨fun stk' hs => ?_, fun hn => by cases hn⟩
        cases hs
        exact ⟨_, rfl, rep_flush_push h v, by simp [Chan.flush]⟩
  | pop v =>
    simp only [specOp, applyOp]
    by_cases ht : stk.getLast? = some v
    · rw [if_pos ht, pop_ok h v ht]
      refine ⟨fun stk' hs => ?_, fun hn => by cases hn⟩
      cases hs
      exact ⟨_, rfl, rep_flush_pop h, by simp [Chan.flush]⟩
    · rw [if_neg ht]
      obtain ⟨e, he⟩ := pop_err h v ht
      rw [he]
      exact ⟨fun _ hh => (by cases hh), fun _ => ⟨e, rfl⟩⟩

/-- **C08 (nesting).** A history of enter/leave events on a thread's channel
    is accepted by the channel machinery exactly when it is properly nested:
    every leave matches the innermost open region, no enter exceeds the depth
    limit and (for channels without `ALLOW_DUP`) none re-enters the innermost
    open region.  Unbounded history length, any depth limit. -/
theorem nesting_accept_iff (maxStack : Nat) (ops : List SOp) (c : Chan) (stk : List Int)
    (h : Rep c stk) :
    (∀ stk', specRun maxStack c.allowDup stk ops = some stk' →
        ∃ c', runOps maxStack c ops = .ok c' ∧ Rep c' stk') ∧
    (specRun maxStack c.allowDup stk ops = none → ∃ e, runOps maxStack c ops = .error e) := by
  induction ops generalizing c stk with
  | nil =>
    constructor
    · intro stk' hs
      simp only [specRun, Option.some.injEq] at hs
      subst hs
      exact ⟨c, rfl, h⟩
    · intro hn; simp [specRun] at hn
  | cons op ops ih =>
    obtain ⟨hok, herr⟩ := applyOp_iff maxStack c stk h op
    simp only [specRun, runOps]
    cases hs : specOp maxStack c.allowDup stk op with
    | none =>
      obtain ⟨e, he⟩ := herr hs
      rw [he]
      exact ⟨fun _ hh => (by cases hh), fun _ => ⟨e, rfl⟩⟩
    | some stk1 =>
      obtain ⟨c1, hc1, hrep1, hd1⟩ := hok stk1 hs
      rw [hc1]
      simp only
      have := ih c1 stk1 hrep1
      rw [hd1] at this
      exact this

/-- Every properly nested history that never re-enters the innermost open
    region and stays within the depth limit is accepted, on every channel. -/
theorem nonreentering_accepted (maxStack : Nat) (ops : List SOp) (c : Chan) (stk stk' : List Int)
    (h : Rep c stk) (hs : specRun maxStack false stk ops = some stk') :
    ∃ c', runOps maxStack c ops = .ok c' ∧ Rep c' stk' := by
  -- accepted by the stricter (no-duplicate) specification ⇒ accepted whatever the dup property
  have mono : ∀ (ops : List SOp) (stk stk' : List Int) (d : Bool),
      specRun maxStack false stk ops = some stk' → specRun maxStack d stk ops = some stk' := by
    intro ops
    induction ops with
    | nil => intro stk stk' d hh; exact hh
    | cons op ops ih =>
      intro stk stk' d hh
      simp only [specRun] at hh ⊢
      cases h1 : specOp maxStack false stk op with
      | none => rw [h1] at hh; cases hh
      | some s1 =>
        rw [h1] at hh
        have h2 : specOp maxStack d stk op = some s1 := by
          cases op with
          | push v =>
            simp only [specOp, Bool.not_false, Bool.true_and] at h1 ⊢
            split at h1
            · cases h1
            · rename_i hne
              split at h1
              · cases h1
              · rename_i hf
                cases h1
                have : ¬ ((!d && decide (stk.getLast? = some v)) = true) := by
                  simp only [Bool.and_eq_true, decide_eq_true_eq, not_and]
                  intro _ hx; exact hne (by simpa using hx)
                simp [this, hf]
          | pop v => exact h1
        rw [h2]
        exact ih s1 stk' d hh
  exact (nesting_accept_iff maxStack ops c stk h).1 stk' (mono ops stk stk' c.allowDup hs)

/-- In lint mode a trace that ends with an open subsystem / function region of
    an enabled model is rejected. -/
theorem lint_open_rejected (e : Emu) (hl : e.lint = true) (ho : lintOpen e = true) :
    finish e = .error .finish := by
  unfold finish
  split
  · rfl
  · simp [hl, ho]

/-- … and a trace whose threads are all dead and which leaves nothing open is accepted. -/
theorem finish_ok_iff (e : Emu) :
    finish e = .ok () ↔ (e.threads.all (fun t => t.state = .dead) = true) ∧ (e.lint = false ∨ lintOpen e = false) := by
  unfold finish
  by_cases h1 : e.threads.any (fun t => t.state ≠ .dead) = true
  · simp only [h1, if_true, reduceCtorEq, false_iff]
    intro ⟨hall, _⟩
    simp only [List.any_eq_true, List.all_eq_true, decide_eq_true_eq] at h1 hall
    obtain ⟨t, ht, hne⟩ := h1
    have hne' : ¬ (t.state = ThState.dead) := by simpa using hne
    exact hne' (hall t ht)
  · simp only [h1, if_false, Bool.false_eq_true]
    have hall : e.threads.all (fun t => t.state = .dead) = true := by
      simp only [List.any_eq_true, not_exists, not_and, List.all_eq_true, decide_eq_true_eq] at h1 ⊢
      intro t ht
      have := h1 t ht
      simpa using this
    cases hl : e.lint <;> cases ho : lintOpen e <;> simp [hall]

/-! ### Whole-table facts about the regenerated event tables -/

abbrev Row := Nat × Nat × Nat × Nat × Int

def pushes (t : List Row) : List Row := t.filter (fun r => r.2.2.2.1 == 1)
def pops (t : List Row) : List Row := t.filter (fun r => r.2.2.2.1 == 2)

/-- every enter has a leave with the same channel and value, and vice versa -/
def Paired (t : List Row) : Bool :=
  (pushes t).all (fun p => (pops t).any (fun q => q.2.2.1 == p.2.2.1 && q.2.2.2.2 == p.2.2.2.2)) &&
  (pops t).all (fun q => (pushes t).any (fun p => q.2.2.1 == p.2.2.1 && q.2.2.2.2 == p.2.2.2.2))

/-- distinct enter events of one channel carry distinct values -/
def DistinctValues (t : List Row) : Bool :=
  (pushes t).all (fun p => (pushes t).all (fun q =>
    (p.1 == q.1 && p.2.1 == q.2.1) || !(p.2.2.1 == q.2.2.1 && p.2.2.2.2 == q.2.2.2.2)))

/-- every value an event can write has a label in the PCF value table of its channel -/
def Labelled (t : List Row) (labels : List (List (Int × String))) : Bool :=
  t.all (fun r => r.2.2.2.1 == 4 || ((labels.getD r.2.2.1 []).any (fun l => l.1 == r.2.2.2.2)))

/-- all actions are known (push / pop / set / ignore) and channels are in range -/
def WellFormed (t : List Row) (nch : Nat) : Bool :=
  t.all (fun r => (r.2.2.2.1 == 1 || r.2.2.2.1 == 2 || r.2.2.2.1 == 3 || r.2.2.2.1 == 4) && decide (r.2.2.1 < nch))

theorem tables_paired :
    Paired Nosv.table ∧ Paired Nanos6.table ∧ Paired Nodes.table ∧ Paired Tampi.table ∧
    Paired Mpi.table ∧ Paired Openmp.table ∧ Paired specKernel.table := by decide

theorem tables_distinct_values :
    DistinctValues Nosv.table ∧ DistinctValues Nanos6.table ∧ DistinctValues Nodes.table ∧
    DistinctValues Tampi.table ∧ DistinctValues Mpi.table ∧ DistinctValues Openmp.table := by decide

theorem tables_labelled :
    Labelled Nosv.table Nosv.labels ∧ Labelled Nanos6.table Nanos6.labels ∧
    Labelled Nodes.table Nodes.labels ∧ Labelled Tampi.table Tampi.labels ∧
    Labelled Mpi.table Mpi.labels ∧ Labelled Openmp.table Openmp.labels ∧
    Labelled specKernel.table Kernel.labels := by decide

theorem tables_wellformed :
    WellFormed Nosv.table Nosv.nch ∧ WellFormed Nanos6.table Nanos6.nch ∧
    WellFormed Nodes.table Nodes.nch ∧ WellFormed Tampi.table Tampi.nch ∧
    WellFormed Mpi.table Mpi.nch ∧ WellFormed Openmp.table Openmp.nch := by decide

/-- push/pop/set only on stack resp. single channels, so the table never
    triggers the "wrong channel type" error -/
def TypesOK (t : List Row) (stack : List Bool) : Bool :=
  t.all (fun r => r.2.2.2.1 == 4 ||
    (if r.2.2.2.1 == 3 then !(stack.getD r.2.2.1 false) else stack.getD r.2.2.1 false))

theorem tables_types_ok :
    TypesOK Nosv.table Nosv.chanStack ∧ TypesOK Nanos6.table Nanos6.chanStack ∧
    TypesOK Nodes.table Nodes.chanStack ∧ TypesOK Tampi.table Tampi.chanStack ∧
    TypesOK Mpi.table Mpi.chanStack ∧ TypesOK Openmp.table Openmp.chanStack := by decide

/-- **Documented mapping.** Every event of the committed mapping
    (`Spec/EventValues.lean`: model, code, channel, action, value, label — pinned
    from the documentation and the tree) is still mapped by the regenerated
    tables to the same channel, action and value, and that value still carries
    the same label.  New events are not required to be in the mapping. -/
def lookup (m : Nat) : List Row × List (List (Int × String)) :=
  if m = Nosv.modelChar then (Nosv.table, Nosv.labels)
  else if m = Nanos6.modelChar then (Nanos6.table, Nanos6.labels)
  else if m = Nodes.modelChar then (Nodes.table, Nodes.labels)
  else if m = Tampi.modelChar then (Tampi.table, Tampi.labels)
  else if m = Mpi.modelChar then (Mpi.table, Mpi.labels)
  else if m = Openmp.modelChar then (Openmp.table, Openmp.labels)
  else ([], [])

def matchesDoc (d : Nat × Nat × Nat × Nat × Nat × Int × String) : Bool :=
  let (m, c, v, ch, act, val, label) := d
  let (t, labels) := lookup m
  t.any (fun r => r.1 == c && r.2.1 == v && r.2.2.1 == ch && r.2.2.2.1 == act && r.2.2.2.2 == val) &&
  (act == 4 || (labels.getD ch []).any (fun l => l.1 == val && l.2 == label))

theorem table_matches_documented : Ovni.Spec.eventValues.all matchesDoc = true := by decide +kernel

/-! ### Non-vacuity -/

example : Rep ({ isStack := true } : Chan) [] := ⟨rfl, rfl, rfl, rfl, rfl⟩
example : specRun 512 false [] [.push 7, .push 9, .pop 9, .push 9, .pop 9, .pop 7] = some [] := by decide
/-- re-entering the innermost open region is refused on a channel without ALLOW_DUP -/
example : specRun 512 false [] [.push 7, .push 7] = none := by decide
example : (runOps 512 ({ isStack := true } : Chan) [.push 7, .push 7]).toOption.isNone = true := by decide

end Ovni.Props.C08
