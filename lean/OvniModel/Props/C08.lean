import OvniModel.Props.C08Stack
import OvniModel.Emu.Chan
import OvniModel.Emu.Core
import OvniModel.Emu.View
import OvniModel.Spec.EventValues
import OvniModel.Spec.TrackModes

/-!
# C08 — subsystem events nest like a stack and map to documented values

Model: `Emu/Chan.lean` (chan_push / chan_pop / chan_set of src/emu/chan.c) and
the generated event tables.  One emulator event = one channel operation
followed by the flush of `bay_propagate`.
-/
set_option linter.unusedSimpArgs false
namespace Ovni.Props.C08
open Ovni.Emu Ovni.Generated

/-- In lint mode a trace that ends with an open subsystem / function region of
    an enabled model is rejected. -/
theorem lint_open_rejected (e : Emu) (hl : e.lint = true) (ho : lintOpen e = true) :
    finish e = .error .finish := by
  unfold finish
  split
  · rfl
  · simp [hl, ho]

/-- … and a trace whose threads are all dead and which leaves nothing open is accepted. -/
theorem finish_ok_iff (e : Emu) :
    finish e = .ok () ↔ (e.threads.all (fun t => t.state = .dead) = true) ∧ (e.lint = false ∨ lintOpen e = false) := by
  unfold finish
  by_cases h1 : e.threads.any (fun t => t.state ≠ .dead) = true
  · simp only [h1, if_true, reduceCtorEq, false_iff]
    intro ⟨hall, _⟩
    simp only [List.any_eq_true, List.all_eq_true, decide_eq_true_eq] at h1 hall
    obtain ⟨t, ht, hne⟩ := h1
    have hne' : ¬ (t.state = ThState.dead) := by simpa using hne
    exact hne' (hall t ht)
  · simp only [h1, if_false, Bool.false_eq_true]
    have hall : e.threads.all (fun t => t.state = .dead) = true := by
      simp only [List.any_eq_true, not_exists, not_and, List.all_eq_true, decide_eq_true_eq] at h1 ⊢
      intro t ht
      have := h1 t ht
      simpa using this
    cases hl : e.lint <;> cases ho : lintOpen e <;> simp [hall]

/-! ### Whole-table facts about the regenerated event tables -/

abbrev Row := Nat × Nat × Nat × Nat × Int

def pushes (t : List Row) : List Row := t.filter (fun r => r.2.2.2.1 == 1)
def pops (t : List Row) : List Row := t.filter (fun r => r.2.2.2.1 == 2)

/-- every enter has a leave with the same channel and value, and vice versa -/
def Paired (t : List Row) : Bool :=
  (pushes t).all (fun p => (pops t).any (fun q => q.2.2.1 == p.2.2.1 && q.2.2.2.2 == p.2.2.2.2)) &&
  (pops t).all (fun q => (pushes t).any (fun p => q.2.2.1 == p.2.2.1 && q.2.2.2.2 == p.2.2.2.2))

/-- distinct enter events of one channel carry distinct values -/
def DistinctValues (t : List Row) : Bool :=
  (pushes t).all (fun p => (pushes t).all (fun q =>
    (p.1 == q.1 && p.2.1 == q.2.1) || !(p.2.2.1 == q.2.2.1 && p.2.2.2.2 == q.2.2.2.2)))

/-- every value an event can write has a label in the PCF value table of its channel -/
def Labelled (t : List Row) (labels : List (List (Int × String))) : Bool :=
  t.all (fun r => r.2.2.2.1 == 4 || ((labels.getD r.2.2.1 []).any (fun l => l.1 == r.2.2.2.2)))

/-- all actions are known (push / pop / set / ignore) and channels are in range -/
def WellFormed (t : List Row) (nch : Nat) : Bool :=
  t.all (fun r => (r.2.2.2.1 == 1 || r.2.2.2.1 == 2 || r.2.2.2.1 == 3 || r.2.2.2.1 == 4) && decide (r.2.2.1 < nch))

theorem tables_paired :
    Paired Nosv.table ∧ Paired Nanos6.table ∧ Paired Nodes.table ∧ Paired Tampi.table ∧
    Paired Mpi.table ∧ Paired Openmp.table ∧ Paired specKernel.table := by decide

theorem tables_distinct_values :
    DistinctValues Nosv.table ∧ DistinctValues Nanos6.table ∧ DistinctValues Nodes.table ∧
    DistinctValues Tampi.table ∧ DistinctValues Mpi.table ∧ DistinctValues Openmp.table := by decide

theorem tables_labelled :
    Labelled Nosv.table Nosv.labels ∧ Labelled Nanos6.table Nanos6.labels ∧
    Labelled Nodes.table Nodes.labels ∧ Labelled Tampi.table Tampi.labels ∧
    Labelled Mpi.table Mpi.labels ∧ Labelled Openmp.table Openmp.labels ∧
    Labelled specKernel.table Kernel.labels := by decide

theorem tables_wellformed :
    WellFormed Nosv.table Nosv.nch ∧ WellFormed Nanos6.table Nanos6.nch ∧
    WellFormed Nodes.table Nodes.nch ∧ WellFormed Tampi.table Tampi.nch ∧
    WellFormed Mpi.table Mpi.nch ∧ WellFormed Openmp.table Openmp.nch := by decide

/-- push/pop/set only on stack resp. single channels, so the table never
    triggers the "wrong channel type" error -/
def TypesOK (t : List Row) (stack : List Bool) : Bool :=
  t.all (fun r => r.2.2.2.1 == 4 ||
    (if r.2.2.2.1 == 3 then !(stack.getD r.2.2.1 false) else stack.getD r.2.2.1 false))

theorem tables_types_ok :
    TypesOK Nosv.table Nosv.chanStack ∧ TypesOK Nanos6.table Nanos6.chanStack ∧
    TypesOK Nodes.table Nodes.chanStack ∧ TypesOK Tampi.table Tampi.chanStack ∧
    TypesOK Mpi.table Mpi.chanStack ∧ TypesOK Openmp.table Openmp.chanStack := by decide

/-- **Documented mapping.** Every event of the committed mapping
    (`Spec/EventValues.lean`: model, code, channel, action, value, label — pinned
    from the documentation and the tree) is still mapped by the regenerated
    tables to the same channel, action and value, and that value still carries
    the same label.  New events are not required to be in the mapping. -/
def lookup (m : Nat) : List Row × List (List (Int × String)) :=
  if m = Nosv.modelChar then (Nosv.table, Nosv.labels)
  else if m = Nanos6.modelChar then (Nanos6.table, Nanos6.labels)
  else if m = Nodes.modelChar then (Nodes.table, Nodes.labels)
  else if m = Tampi.modelChar then (Tampi.table, Tampi.labels)
  else if m = Mpi.modelChar then (Mpi.table, Mpi.labels)
  else if m = Openmp.modelChar then (Openmp.table, Openmp.labels)
  else ([], [])

def matchesDoc (d : Nat × Nat × Nat × Nat × Nat × Int × String) : Bool :=
  let (m, c, v, ch, act, val, label) := d
  let (t, labels) := lookup m
  t.any (fun r => r.1 == c && r.2.1 == v && r.2.2.1 == ch && r.2.2.2.1 == act && r.2.2.2.2 == val) &&
  (act == 4 || (labels.getD ch []).any (fun l => l.1 == val && l.2 == label))

theorem table_matches_documented : Ovni.Spec.eventValues.all matchesDoc = true := by decide +kernel

/-- one pinned entry is the tracking-mode pair of the model with that character in the regenerated specs -/
def matchesTrackDoc (d : Nat × List Nat × List Nat) : Bool :=
  Ovni.Emu.allSpecs.any (fun s => s.char == d.1 && s.thTrack == d.2.1 && s.cpuTrack == d.2.2)

/-- **The tracking modes of the code are the documented ones** (`Spec/TrackModes.lean`, pinned): for
    every model, per channel, whether the thread row shows the value always / while running / while
    active, and that the CPU row follows the running thread; and no model is missing from the pin. -/
theorem track_modes_match_documented :
    Ovni.Spec.trackModes.all matchesTrackDoc = true ∧
    Ovni.Emu.allSpecs.all (fun s => Ovni.Spec.trackModes.any (fun d => d.1 == s.char)) = true := by decide

/-! ### a thread the kernel switched out -/

theorem stateGuard_out (m : ModelSpec) (t : Thread) (ho : t.outOfCpu = true) (hm : m.checkOutOfCpu = true) :
    stateGuard m t = .error .state := by
  unfold stateGuard
  by_cases h1 : (m.stateReq = 1 && !t.state.isRunning) = true
  · simp [h1]; rfl
  · by_cases h2 : (m.stateReq = 2 && !t.state.isActive) = true
    · simp [h1, h2]; rfl
    · simp [h1, h2, ho, hm]; rfl

/-- **No subsystem event from a switched-out thread.**  For every model whose `process_ev` tests
    `is_out_of_cpu` (regenerated fact `checkOutOfCpu`), every emulator state, every thread that the
    kernel model has marked out of the CPU — whatever thread state it is in: running, cooling,
    warming — and every event code, the table handler refuses the event. -/
theorem out_of_cpu_rejects (e : Emu) (ti : Nat) (m : ModelSpec) (c v : Nat) (t : Thread)
    (ht : e.threads[ti]? = some t) (ho : t.outOfCpu = true) (hm : m.checkOutOfCpu = true) :
    tableEvent e ti m c v = .error .state := by
  unfold tableEvent
  simp only [ht]
  simp [stateGuard_out m t ho hm, bind, Except.bind]

/-- … the same for every event of the ovni model (thread, affinity, burst, flush, mark events) -/
theorem out_of_cpu_rejects_ovni (e : Emu) (ti : Nat) (c v : Nat) (payload : List Nat) (t : Thread)
    (hook : Emu → Nat → Nat → List Nat → Except Err Emu)
    (ht : e.threads[ti]? = some t) (ho : t.outOfCpu = true) :
    ovniEvent e ti c v payload hook = .error .state := by
  unfold ovniEvent
  simp [ht, ho, bind, Except.bind]
  rfl

/-- which models test the flag, and which events set and clear it (regenerated handler facts):
    nOS-V does, the kernel's `KCO` sets it and `KCI` clears it — unconditionally, not only for a
    running thread (seeded change C08-8) -/
theorem out_of_cpu_facts :
    specNosv.checkOutOfCpu = true ∧ specKernel.outOfCpu = [(67, 79, true), (67, 73, false)] := by decide

/-! ### Non-vacuity -/

example : Rep ({ isStack := true } : Chan) [] := ⟨rfl, rfl, rfl, rfl, rfl⟩
example : specRun 512 false [] [.push 7, .push 9, .pop 9, .push 9, .pop 9, .pop 7] = some [] := by decide
/-- re-entering the innermost open region is refused on a channel without ALLOW_DUP -/
example : specRun 512 false [] [.push 7, .push 7] = none := by decide
example : (runOps 512 ({ isStack := true } : Chan) [.push 7, .push 7]).toOption.isNone = true := by decide

end Ovni.Props.C08
