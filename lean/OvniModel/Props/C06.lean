import OvniModel.Emu.View
import OvniModel.Lemmas.BayMux
import OvniModel.Lemmas.BayTrack

/-!
# C06 — view consistency: the tracking muxes compute `thView` / `cpuView`

Property theorems only.  Mechanism model: `OvniModel/Emu/Bay.lean`
(transcription of `src/emu/bay.c`, `mux.c`, `track.c`, `thread_select_*`);
specification vocabulary: `OvniModel/Emu/BaySpec.lean` (`WF`, `Frame`,
`MuxSync`, `specVal`, `Writes`); the specification the mechanism must meet:
`thView` / `cpuView` of `OvniModel/Emu/View.lean`.

Reading guide.  `b.MuxSync strong mi m` says, for mux `mi` (static part `m`):
the enabled `cb_input` callback is exactly the input chosen by the select
function on the select channel's current value, `mux->selected` is that input
(`strong`; it is `false` only before the select channel was ever propagated,
because `mux_init` leaves `selected = 0`), and
`output = spec(select value, input values)`.
-/
namespace Ovni.Props.C06
open Ovni.Emu Ovni.Generated

/-! ### One mux inside any network, one propagation -/

/-- **mux_round** (propagation half).  For ONE mux `mi` of an arbitrary
    network that satisfies the frame condition, start `bay_propagate` in ANY
    state `b` reached by writing channels — the dirty list `b.dirty` is an
    arbitrary ordering of the dirty channels (`WF.dirtyIff`), the data values are
    already stored — such that either the select channel is dirty, or the mux was
    in sync except that its selected input may be dirty.  If propagation succeeds,
    the mux is in sync with the FINAL values: `out = spec(f(select), inputs)`,
    enabled input = `f(select)`, and `selected = f(select)` whenever the select
    channel was dirty.  Two-phase argument over the processing order (before /
    after the select channel's turn), see `Bay.InvC`, `Bay.InvQ`. -/
theorem mux_round {strong : Bool} {b bF : Bay} {em : List (Nat × Value)} {mi : Nat} {m : Mux}
    (wf : b.WF) (hm : b.muxes[mi]? = some m) (hfr : b.Frame mi m) (hweak : b.Weak mi m)
    (hpre : (b.chan m.sel).dirty = true ∨
            b.SyncUpTo strong mi m (fun _ c => (b.chan c).dirty = true))
    (h : b.propagate = .ok (bF, em)) :
    bF.WF ∧ bF.Clean ∧ bF.muxes = b.muxes ∧
    ∃ s, m.selectInput (bF.chan m.sel).cur = .ok s ∧
      (bF.chan m.out).cur = bF.specVal m s ∧
      (∀ i, bF.enabled mi m i ↔ s = some i) ∧
      (strong = true ∨ (b.chan m.sel).dirty = true → bF.selOf mi = s) := by
  have key : ∀ st : Bool, ((b.chan m.sel).dirty = true ∨
      b.SyncUpTo st mi m (fun _ c => (b.chan c).dirty = true)) →
      bF.WF ∧ bF.Clean ∧ bF.muxes = b.muxes ∧ bF.MuxSync st mi m :=
    fun st hp => Bay.propagate_sync wf hm hfr hweak hp h
  obtain ⟨wfF, hcl, hmx, _, s, h1, h2, h3, h4⟩ := key strong hpre
  refine ⟨wfF, hcl, hmx, s, h1, ?_, h2, ?_⟩
  · rcases h4 with h4 | ⟨_, _, _, _, hf⟩
    · exact h4
    · exact hf.elim
  · rintro (hs | hd)
    · exact h3 hs
    · obtain ⟨_, _, _, _, s', g1, _, g3, _⟩ := key true (Or.inl hd)
      rw [h1] at g1; cases g1
      exact g3 rfl

/-- The values propagation works with are final: channels that are not the
    output of a mux are not touched by `bay_propagate` (only flushed). -/
theorem propagate_keeps_raw {b bF : Bay} {em : List (Nat × Value)} (wf : b.WF)
    (h : b.propagate = .ok (bF, em)) (c : Nat)
    (hc : ∀ (mj : Nat) (m' : Mux), b.muxes[mj]? = some m' → m'.out ≠ c) :
    (bF.chan c).cur = (b.chan c).cur :=
  Bay.propagate_raw wf h c hc

/-- **mux_round** (whole event).  From a state where the mux is in sync, ANY
    sequence of successful channel writes (to the select channel, to inputs, to
    unrelated channels; in any order; the channel rules reject a second write to
    a raw channel, which only removes cases) followed by `bay_propagate` leaves
    the mux in sync with the final values. -/
theorem mux_round_event {strong : Bool} {b b1 bF : Bay} {em : List (Nat × Value)} {mi : Nat} {m : Mux}
    (wf : b.WF) (hm : b.muxes[mi]? = some m) (hfr : b.Frame mi m)
    (hsync : b.MuxSync strong mi m)
    (hw : Bay.Writes (· ≠ m.out) b b1) (h : b1.propagate = .ok (bF, em)) :
    bF.WF ∧ bF.Clean ∧ bF.muxes = b.muxes ∧ bF.MuxSync strong mi m ∧
    ((b1.chan m.sel).dirty = true → bF.MuxSync true mi m) := by
  obtain ⟨wf1, _, _, hmx1, _, _⟩ := hw.inv wf
  have hm1 : b1.muxes[mi]? = some m := by rw [hmx1]; exact hm
  have hfr1 : b1.Frame mi m := hfr.congr hmx1
  obtain ⟨hweak1, hpre1⟩ := hw.pre wf hsync
  obtain ⟨wfF, hcl, hmx, hs⟩ := Bay.propagate_sync wf1 hm1 hfr1 hweak1 hpre1 h
  refine ⟨wfF, hcl, hmx.trans hmx1, hs, fun hd => ?_⟩
  exact (Bay.propagate_sync (strong := true) wf1 hm1 hfr1 hweak1 (Or.inl hd) h).2.2.2

/-- Any number of events. -/
inductive Rounds (ok : Nat → Prop) : Bay → Bay → Prop
  | nil (b : Bay) : Rounds ok b b
  | round {b b0 b1 b2 : Bay} {em : List (Nat × Value)} :
      Rounds ok b b0 → Bay.Writes ok b0 b1 → b1.propagate = .ok (b2, em) → Rounds ok b b2

/-- **At every instant**: after any history of events (writes then propagate)
    that never writes the mux output directly, the mux is in sync. -/
theorem mux_always {strong : Bool} {b b' : Bay} {mi : Nat} {m : Mux}
    (wf : b.WF) (hm : b.muxes[mi]? = some m) (hfr : b.Frame mi m)
    (hsync : b.MuxSync strong mi m) (h : Rounds (· ≠ m.out) b b') :
    b'.WF ∧ b'.muxes = b.muxes ∧ b'.MuxSync strong mi m := by
  induction h with
  | nil => exact ⟨wf, rfl, hsync⟩
  | round _ hw hp ih =>
    obtain ⟨wf0, hmx0, hs0⟩ := ih
    obtain ⟨wfF, _, hmxF, hsF, _⟩ :=
      mux_round_event wf0 (by rw [hmx0]; exact hm) (hfr.congr hmx0) hs0 hw hp
    exact ⟨wfF, hmxF.trans hmx0, hsF⟩

/-! ### Whole networks -/

/-- **network_round**: in a network where every mux satisfies the frame
    condition — no mux output is the select or an input of any mux and outputs
    are pairwise distinct, i.e. the outputs feed only emit (PRV) callbacks, which
    is the thread / CPU topology of `model_thread_connect` + `model_cpu_connect`
    without the breakdown model — after an event that writes only non-output
    channels EVERY mux is in sync, including muxes that share select and input
    channels. -/
theorem network_round {b b1 bF : Bay} {em : List (Nat × Value)} (strong : Nat → Bool)
    (wf : b.WF) (hfr : ∀ (mi : Nat) (m : Mux), b.muxes[mi]? = some m → b.Frame mi m)
    (hsync : ∀ (mi : Nat) (m : Mux), b.muxes[mi]? = some m → b.MuxSync (strong mi) mi m)
    (hw : Bay.Writes (fun c => ∀ (mj : Nat) (m' : Mux), b.muxes[mj]? = some m' → m'.out ≠ c) b b1)
    (h : b1.propagate = .ok (bF, em)) :
    bF.WF ∧ bF.Clean ∧ bF.muxes = b.muxes ∧
    ∀ (mi : Nat) (m : Mux), bF.muxes[mi]? = some m → bF.MuxSync (strong mi) mi m := by
  have hw' : ∀ (mi : Nat) (m : Mux), b.muxes[mi]? = some m → Bay.Writes (· ≠ m.out) b b1 := by
    intro mi m hm
    clear h
    induction hw with
    | nil => exact .nil _
    | snoc _ hok hf hwr ih => exact .snoc ih (fun e => hok mi m hm e.symm) hf hwr
  obtain ⟨wf1, _, _, hmx1, _, _⟩ := hw.inv wf
  have hmxF : bF.muxes = b.muxes := by
    obtain ⟨b2, b3, h1, h2, rfl, _⟩ := Bay.propagate_ok h
    have wf2 : b2.WF := (Bay.dirtyPhase_rule (fun _ _ => True) (by intros; trivial) _ b1 0 b2 wf1 trivial
      (Nat.zero_le _) h1).1
    exact ((Bay.flush_result wf2 h2).2.2.2.2.2.trans (Bay.dirtyPhase_raw wf1 h1).1).trans hmx1
  have hall : ∀ (mi : Nat) (m : Mux), b.muxes[mi]? = some m →
      bF.WF ∧ bF.Clean ∧ bF.MuxSync (strong mi) mi m := by
    intro mi m hm
    obtain ⟨a, c, _, d, _⟩ := mux_round_event wf hm (hfr mi m hm) (hsync mi m hm) (hw' mi m hm) h
    exact ⟨a, c, d⟩
  refine ⟨?_, ?_, hmxF, fun mi m hm => (hall mi m (hmxF ▸ hm)).2.2⟩
  · obtain ⟨b2, b3, h1, h2, rfl, _⟩ := Bay.propagate_ok h
    have wf2 : b2.WF := (Bay.dirtyPhase_rule (fun _ _ => True) (by intros; trivial) _ b1 0 b2 wf1 trivial
      (Nat.zero_le _) h1).1
    exact (Bay.flush_result wf2 h2).1
  · obtain ⟨b2, b3, h1, h2, rfl, _⟩ := Bay.propagate_ok h
    have wf2 : b2.WF := (Bay.dirtyPhase_rule (fun _ _ => True) (by intros; trivial) _ b1 0 b2 wf1 trivial
      (Nat.zero_le _) h1).1
    exact (Bay.flush_result wf2 h2).2.1

/-- A two-level wiring (sources below `L`, mux `k` drives channel `L + k`)
    satisfies the frame condition for every mux. -/
theorem layered_frame {b : Bay} {L : Nat}
    (hl : ∀ (mi : Nat) (m : Mux), b.muxes[mi]? = some m →
      m.out = L + mi ∧ m.sel < L ∧ ∀ (i c : Nat), m.inputs[i]? = some (some c) → c < L)
    (mi : Nat) (m : Mux) (hm : b.muxes[mi]? = some m) : b.Frame mi m := by
  intro mj m' hm'
  obtain ⟨ho', _, _⟩ := hl mj m' hm'
  obtain ⟨ho, hs, hi⟩ := hl mi m hm
  refine ⟨by omega, ?_, fun hne => by omega⟩
  intro i e
  have := hi i _ e
  omega

/-! ### The fuel of `bay_propagate` is sufficient -/

/-- More fuel never changes `bay_propagate`'s dirty phase: the dirty list
    holds distinct registered channels, so `chans.length` iterations suffice
    whatever is appended during the walk. -/
theorem dirtyPhase_fuel_sufficient {b : Bay} (wf : b.WF) (extra : Nat) :
    b.dirtyPhase (b.chans.length + extra) 0 = b.dirtyPhase b.chans.length 0 :=
  Bay.dirtyPhase_fuel _ _ b 0 wf (by omega) (by omega)

/-- Same for the walk over one channel's callback list (it does not change
    while it is walked when no mux uses its own select as an input). -/
theorem propChan_fuel_sufficient {b : Bay} (wf : b.WF) (c extra : Nat) :
    b.propChan (b.chanFuel c + extra) c 0 = b.propChan (b.chanFuel c) c 0 :=
  Bay.propChan_fuel c _ _ b 0 wf (by unfold Bay.chanFuel; omega) (by unfold Bay.chanFuel; omega)


/-! ### The thread and CPU tracks compute `thView` / `cpuView` -/

/-- Shape of the mux `track_connect_thread` builds for mode RUN / ACT: select
    = the thread's state channel, one input = the raw model channel, default
    null, select function by mode. -/
structure ThreadTrack (m : Mux) (mode S R : Nat) : Prop where
  modeOk : mode = trackRun ∨ mode = trackAct
  selEq : m.sel = S
  inputsEq : m.inputs = [some R]
  dfltEq : m.dflt = .null
  kindEq : m.kind = if mode = trackRun then .thRunning else .thActive

/-- A thread track in sync shows the channel's current top exactly while the
    tracking mode holds for the thread state, else null. -/
theorem thread_view_of_sync {strong : Bool} {b : Bay} {mi : Nat} {m : Mux} {mode S R : Nat}
    (ht : ThreadTrack m mode S R) (hsync : b.MuxSync strong mi m)
    (st : ThState) (hst : StateChan (b.chan S).cur st) :
    (b.chan m.out).cur = if trackHolds mode st then (b.chan R).cur else .null := by
  obtain ⟨_, s, h1, _, _, h4⟩ := hsync
  rw [ht.selEq, selectInput_track m mode ht.modeOk ht.kindEq (by rw [ht.inputsEq]; rfl) _ st hst] at h1
  cases h1
  rcases h4 with h4 | ⟨_, _, _, _, hf⟩
  · rw [h4]
    split
    · simp [Bay.specVal, ht.inputsEq]
    · simp [Bay.specVal, ht.dfltEq]
  · exact hf.elim

/-- **track_thread_view**.  For a thread's model channel tracked RUN or ACT:
    from a state in sync, after ANY event — writes to the state channel and/or
    the model channel (push, pop, set) and to anything else, in any order —
    followed by `bay_propagate`, the track output equals the definition of
    `thView`: the channel's current top if the mode holds for the NEW state,
    else null. -/
theorem track_thread_view {strong : Bool} {b b1 bF : Bay} {em : List (Nat × Value)} {mi : Nat} {m : Mux}
    {mode S R : Nat} (ht : ThreadTrack m mode S R)
    (wf : b.WF) (hm : b.muxes[mi]? = some m) (hfr : b.Frame mi m) (hsync : b.MuxSync strong mi m)
    (hw : Bay.Writes (· ≠ m.out) b b1) (h : b1.propagate = .ok (bF, em))
    (st : ThState) (hst : StateChan (bF.chan S).cur st) :
    (bF.chan m.out).cur = if trackHolds mode st then (bF.chan R).cur else .null :=
  thread_view_of_sync ht (mux_round_event wf hm hfr hsync hw h).2.2.2.1 st hst

/-- The same, phrased with the reference emulator's `thView`: if the bay's
    state channel and raw channel mirror thread `t`'s state and channel `i` of
    model `ms`, the thread row is `thView t ms i`. -/
theorem track_thread_thView {strong : Bool} {b : Bay} {mi : Nat} {m : Mux} {S R : Nat}
    (t : Thread) (ms : ModelSpec) (i : Nat) (cs : List Chan)
    (ht : ThreadTrack m (ms.thTrack.getD i 0) S R) (hsync : b.MuxSync strong mi m)
    (hcs : t.getChans ms.char = some cs)
    (hst : StateChan (b.chan S).cur t.state) (hR : (b.chan R).cur = (cs.getD i {}).cur) :
    (b.chan m.out).cur = thView t ms i := by
  rw [thread_view_of_sync ht hsync t.state hst, thView, hcs, hR]

/-- Mode ANY: `track_th_input_chan` aliases the raw channel, which is `thView`
    for that mode (`trackHolds trackAny _ = true`). -/
theorem track_any_thView {b b' : Bay} {sel inp out : Nat}
    (h : b.trackThread trackAny sel inp = .ok (b', out))
    (t : Thread) (ms : ModelSpec) (i : Nat) (cs : List Chan) (hmode : ms.thTrack.getD i 0 = trackAny)
    (hcs : t.getChans ms.char = some cs) (b2 : Bay) (hR : (b2.chan inp).cur = (cs.getD i {}).cur) :
    out = inp ∧ (b2.chan out).cur = thView t ms i := by
  have : out = inp := by
    unfold Bay.trackThread at h
    simp at h
    exact h.2.symm
  subst this
  refine ⟨rfl, ?_⟩
  rw [thView, hcs, hmode, hR]; simp [trackHolds]

/-- Shape of the mux `connect_cpu` builds for one CPU and model channel:
    select = the CPU's `th_running` channel, default select function, input `g` =
    raw model channel of the thread with global index `g`. -/
structure CpuTrack (m : Mux) (S : Nat) (rs : List Nat) : Prop where
  selEq : m.sel = S
  inputsEq : m.inputs = rs.map some
  kindEq : m.kind = .byIndex

/-- A CPU track in sync shows the raw value of the thread named by
    `th_running`, or the mux default when `th_running` is null. -/
theorem cpu_view_of_sync {strong : Bool} {b : Bay} {mi : Nat} {m : Mux} {S : Nat} {rs : List Nat}
    (hc : CpuTrack m S rs) (hsync : b.MuxSync strong mi m) :
    (b.chan m.out).cur =
      match (b.chan S).cur with
      | .null => m.dflt
      | .int g => (b.chan (rs.getD g.toNat 0)).cur := by
  obtain ⟨_, s, h1, _, _, h4⟩ := hsync
  rcases h4 with h4 | ⟨_, _, _, _, hf⟩
  · rw [h4, ← hc.selEq]
    cases hv : (b.chan m.sel).cur with
    | null => rw [hv, selectInput_null] at h1; cases h1; rfl
    | int g =>
      rw [hv] at h1
      obtain ⟨_, hlt, rfl⟩ := selectInput_index m hc.kindEq g s h1
      rw [hc.inputsEq, List.length_map] at hlt
      simp only [Bay.specVal, hc.inputsEq]
      rw [List.getElem?_map, List.getElem?_eq_getElem hlt]
      simp [List.getD_eq_getElem?_getD, List.getElem?_eq_getElem hlt]
  · exact hf.elim

/-- **track_cpu_view**.  For the CPU mux of one model channel: from a state in
    sync, after ANY event — `th_running` changes (state or affinity change) and
    any thread's raw channel changes, in the same event, in any order — followed
    by `bay_propagate`, the output is the raw value of the thread selected by
    `th_running`, or the default. -/
theorem track_cpu_view {strong : Bool} {b b1 bF : Bay} {em : List (Nat × Value)} {mi : Nat} {m : Mux}
    {S : Nat} {rs : List Nat} (hc : CpuTrack m S rs)
    (wf : b.WF) (hm : b.muxes[mi]? = some m) (hfr : b.Frame mi m) (hsync : b.MuxSync strong mi m)
    (hw : Bay.Writes (· ≠ m.out) b b1) (h : b1.propagate = .ok (bF, em)) :
    (bF.chan m.out).cur =
      match (bF.chan S).cur with
      | .null => m.dflt
      | .int g => (bF.chan (rs.getD g.toNat 0)).cur :=
  cpu_view_of_sync hc (mux_round_event wf hm hfr hsync hw h).2.2.2.1

/-- The same, phrased with the reference emulator's `cpuView`: if `th_running`
    mirrors the CPU's channel, input `g` mirrors channel `i` of thread `g`, and
    the mux default is the model's idle default, the CPU row is `cpuView`. -/
theorem track_cpu_cpuView {strong : Bool} {b : Bay} {mi : Nat} {m : Mux} {S : Nat} {rs : List Nat}
    (e : Emu) (c : Cpu) (ms : ModelSpec) (i : Nat)
    (hc : CpuTrack m S rs) (hsync : b.MuxSync strong mi m)
    (hS : (b.chan S).cur = c.chThrun.cur) (hlen : rs.length = e.threads.length)
    (hR : ∀ (g : Nat) (t : Thread), e.threads[g]? = some t →
      ∃ cs, t.getChans ms.char = some cs ∧ (b.chan (rs.getD g 0)).cur = (cs.getD i {}).cur)
    (hd : m.dflt = match ms.cpuDefault.find? (·.1 == i) with
      | some (_, v) => .int v
      | none => .null) :
    (b.chan m.out).cur = cpuView e c ms i := by
  have hsel := hsync.2
  rw [cpu_view_of_sync hc hsync, cpuView, cpuSelected, ← hS]
  cases hv : (b.chan S).cur with
  | null => simp only; exact hd
  | int g =>
    obtain ⟨s, h1, _⟩ := hsel
    rw [hc.selEq, hv] at h1
    obtain ⟨hg0, hlt, _⟩ := selectInput_index m hc.kindEq g s h1
    rw [hc.inputsEq, List.length_map, hlen] at hlt
    have hng : ¬ g < 0 := by omega
    simp only [hng, if_false]
    obtain ⟨cs, hcs, hcur⟩ := hR g.toNat e.threads[g.toNat] (List.getElem?_eq_getElem hlt)
    rw [List.getElem?_eq_getElem hlt]
    simp only [hcs, hcur]

end Ovni.Props.C06
