import OvniModel.Emu.View
import OvniModel.Lemmas.BayMux
import OvniModel.Lemmas.BayTrack
import OvniModel.Lemmas.BayBuild
import OvniModel.Lemmas.BayTotal
import OvniModel.Lemmas.BayTopo
import OvniModel.Lemmas.CoreBayView
import OvniModel.Lemmas.CoreBayTotal
import OvniModel.Lemmas.CoreBayFresh
import OvniModel.Lemmas.EmitEmu
import OvniModel.Lemmas.EmitInit
import OvniModel.Emu.Basic
import OvniModel.Lemmas.TaskHook
import OvniModel.Lemmas.SysEmit
import OvniModel.Lemmas.TaskCouple
import OvniModel.Lemmas.TaskCoupleTotal
import OvniModel.Lemmas.EmitZero

/-!
# C06 — view consistency: the tracking muxes compute `thView` / `cpuView`

Property theorems only.  Mechanism model: `OvniModel/Emu/Bay.lean`
(transcription of `src/emu/bay.c`, `mux.c`, `track.c`, `thread_select_*`);
specification vocabulary: `OvniModel/Emu/BaySpec.lean` (`WF`, `Frame`,
`MuxSync`, `specVal`, `Writes`); the specification the mechanism must meet:
`thView` / `cpuView` of `OvniModel/Emu/View.lean`.

Reading guide.  `b.MuxSync strong mi m` says, for mux `mi` (static part `m`):
the enabled `cb_input` callback is exactly the input chosen by the select
function on the select channel's current value, `mux->selected` is that input
(`strong`; it is `false` only before the select channel was ever propagated,
because `mux_init` leaves `selected = 0`), and
`output = spec(select value, input values)`.

Emit side (sections "The emit phase", "The system rows"): `Emu/Emit.lean`
transcribes `prv_register` / `emit` of `pv/prv.c` and the second loop of
`bay_propagate`; the theorems relate the lines the PRV callbacks write to
`View.records` (`emit_step`, `emu_event_emit`, `emu_event_fail_iff`,
`emu_step_lines`, `emu_history_emit`, `emu_run_emit_driver`).  Task layer
(section "The task layer"): `Emu/TaskHook.lean`, `emu_event_task`,
`emu_history_task` — no hook hypothesis; section "The task layer's copy of the
task channels IS the thread's channels": `Coupled`, `coupled_step`,
`coupled_history`, `coupled_verdicts`, `task_hook_accepts_iff`, `emu_history_task_coupled`,
`emu_run_task_driver`.  `PRV_ZERO` registrations: `emit_step_zero`.
-/
namespace Ovni.Props.C06
open Ovni.Emu Ovni.Generated

/-! ### One mux inside any network, one propagation -/

/-- **mux_round** (propagation half).  For ONE mux `mi` of an arbitrary
    network that satisfies the frame condition, start `bay_propagate` in ANY
    state `b` reached by writing channels — the dirty list `b.dirty` is an
    arbitrary ordering of the dirty channels (`WF.dirtyIff`), the data values are
    already stored — such that either the select channel is dirty, or the mux was
    in sync except that its selected input may be dirty.  If propagation succeeds,
    the mux is in sync with the FINAL values: `out = spec(f(select), inputs)`,
    enabled input = `f(select)`, and `selected = f(select)` whenever the select
    channel was dirty.  Two-phase argument over the processing order (before /
    after the select channel's turn), see `Bay.InvC`, `Bay.InvQ`. -/
theorem mux_round {strong : Bool} {b bF : Bay} {em : List (Nat × Value)} {mi : Nat} {m : Mux}
    (wf : b.WF) (hm : b.muxes[mi]? = some m) (hfr : b.Frame mi m) (hweak : b.Weak mi m)
    (hpre : (b.chan m.sel).dirty = true ∨
            b.SyncUpTo strong mi m (fun _ c => (b.chan c).dirty = true))
    (h : b.propagate = .ok (bF, em)) :
    bF.WF ∧ bF.Clean ∧ bF.muxes = b.muxes ∧
    ∃ s, m.selectInput (bF.chan m.sel).cur = .ok s ∧
      (bF.chan m.out).cur = bF.specVal m s ∧
      (∀ i, bF.enabled mi m i ↔ s = some i) ∧
      (strong = true ∨ (b.chan m.sel).dirty = true → bF.selOf mi = s) := by
  have key : ∀ st : Bool, ((b.chan m.sel).dirty = true ∨
      b.SyncUpTo st mi m (fun _ c => (b.chan c).dirty = true)) →
      bF.WF ∧ bF.Clean ∧ bF.muxes = b.muxes ∧ bF.MuxSync st mi m :=
    fun st hp => Bay.propagate_sync wf hm hfr hweak hp h
  obtain ⟨wfF, hcl, hmx, _, s, h1, h2, h3, h4⟩ := key strong hpre
  refine ⟨wfF, hcl, hmx, s, h1, ?_, h2, ?_⟩
  · rcases h4 with h4 | ⟨_, _, _, _, hf⟩
    · exact h4
    · exact hf.elim
  · rintro (hs | hd)
    · exact h3 hs
    · obtain ⟨_, _, _, _, s', g1, _, g3, _⟩ := key true (Or.inl hd)
      rw [h1] at g1; cases g1
      exact g3 rfl

/-- The values propagation works with are final: channels that are not the
    output of a mux are not touched by `bay_propagate` (only flushed). -/
theorem propagate_keeps_raw {b bF : Bay} {em : List (Nat × Value)} (wf : b.WF)
    (h : b.propagate = .ok (bF, em)) (c : Nat)
    (hc : ∀ (mj : Nat) (m' : Mux), b.muxes[mj]? = some m' → m'.out ≠ c) :
    (bF.chan c).cur = (b.chan c).cur :=
  Bay.propagate_raw wf h c hc

/-- **mux_round** (whole event).  From a state where the mux is in sync, ANY
    sequence of successful channel writes (to the select channel, to inputs, to
    unrelated channels; in any order; the channel rules reject a second write to
    a raw channel, which only removes cases) followed by `bay_propagate` leaves
    the mux in sync with the final values. -/
theorem mux_round_event {strong : Bool} {b b1 bF : Bay} {em : List (Nat × Value)} {mi : Nat} {m : Mux}
    (wf : b.WF) (hm : b.muxes[mi]? = some m) (hfr : b.Frame mi m)
    (hsync : b.MuxSync strong mi m)
    (hw : Bay.Writes (· ≠ m.out) b b1) (h : b1.propagate = .ok (bF, em)) :
    bF.WF ∧ bF.Clean ∧ bF.muxes = b.muxes ∧ bF.MuxSync strong mi m ∧
    ((b1.chan m.sel).dirty = true → bF.MuxSync true mi m) := by
  obtain ⟨wf1, _, _, hmx1, _, _⟩ := hw.inv wf
  have hm1 : b1.muxes[mi]? = some m := by rw [hmx1]; exact hm
  have hfr1 : b1.Frame mi m := hfr.congr hmx1
  obtain ⟨hweak1, hpre1⟩ := hw.pre wf hsync
  obtain ⟨wfF, hcl, hmx, hs⟩ := Bay.propagate_sync wf1 hm1 hfr1 hweak1 hpre1 h
  refine ⟨wfF, hcl, hmx.trans hmx1, hs, fun hd => ?_⟩
  exact (Bay.propagate_sync (strong := true) wf1 hm1 hfr1 hweak1 (Or.inl hd) h).2.2.2

/-- Any number of events. -/
inductive Rounds (ok : Nat → Prop) : Bay → Bay → Prop
  | nil (b : Bay) : Rounds ok b b
  | round {b b0 b1 b2 : Bay} {em : List (Nat × Value)} :
      Rounds ok b b0 → Bay.Writes ok b0 b1 → b1.propagate = .ok (b2, em) → Rounds ok b b2

/-- **At every instant**: after any history of events (writes then propagate)
    that never writes the mux output directly, the mux is in sync. -/
theorem mux_always {strong : Bool} {b b' : Bay} {mi : Nat} {m : Mux}
    (wf : b.WF) (hm : b.muxes[mi]? = some m) (hfr : b.Frame mi m)
    (hsync : b.MuxSync strong mi m) (h : Rounds (· ≠ m.out) b b') :
    b'.WF ∧ b'.muxes = b.muxes ∧ b'.MuxSync strong mi m := by
  induction h with
  | nil => exact ⟨wf, rfl, hsync⟩
  | round _ hw hp ih =>
    obtain ⟨wf0, hmx0, hs0⟩ := ih
    obtain ⟨wfF, _, hmxF, hsF, _⟩ :=
      mux_round_event wf0 (by rw [hmx0]; exact hm) (hfr.congr hmx0) hs0 hw hp
    exact ⟨wfF, hmxF.trans hmx0, hsF⟩

/-! ### Whole networks -/

/-- **network_round**: in a network where every mux satisfies the frame
    condition — no mux output is the select or an input of any mux and outputs
    are pairwise distinct, i.e. the outputs feed only emit (PRV) callbacks, which
    is the thread / CPU topology of `model_thread_connect` + `model_cpu_connect`
    without the breakdown model — after an event that writes only non-output
    channels EVERY mux is in sync, including muxes that share select and input
    channels. -/
theorem network_round {b b1 bF : Bay} {em : List (Nat × Value)} (strong : Nat → Bool)
    (wf : b.WF) (hfr : ∀ (mi : Nat) (m : Mux), b.muxes[mi]? = some m → b.Frame mi m)
    (hsync : ∀ (mi : Nat) (m : Mux), b.muxes[mi]? = some m → b.MuxSync (strong mi) mi m)
    (hw : Bay.Writes (fun c => ∀ (mj : Nat) (m' : Mux), b.muxes[mj]? = some m' → m'.out ≠ c) b b1)
    (h : b1.propagate = .ok (bF, em)) :
    bF.WF ∧ bF.Clean ∧ bF.muxes = b.muxes ∧
    ∀ (mi : Nat) (m : Mux), bF.muxes[mi]? = some m → bF.MuxSync (strong mi) mi m := by
  have hw' : ∀ (mi : Nat) (m : Mux), b.muxes[mi]? = some m → Bay.Writes (· ≠ m.out) b b1 :=
    fun mi m hm => hw.mono (fun _ hok e => hok mi m hm e.symm)
  obtain ⟨wf1, _, _, hmx1, _, _⟩ := hw.inv wf
  obtain ⟨wfF, hcl, hmxF'⟩ := Bay.propagate_wf wf1 h
  have hmxF : bF.muxes = b.muxes := hmxF'.trans hmx1
  refine ⟨wfF, hcl, hmxF, fun mi m hm => ?_⟩
  have hm0 : b.muxes[mi]? = some m := hmxF ▸ hm
  exact (mux_round_event wf hm0 (hfr mi m hm0) (hsync mi m hm0) (hw' mi m hm0) h).2.2.2.1

/-- A two-level wiring (sources below `L`, mux `k` drives channel `L + k`)
    satisfies the frame condition for every mux. -/
theorem layered_frame {b : Bay} {L : Nat}
    (hl : ∀ (mi : Nat) (m : Mux), b.muxes[mi]? = some m →
      m.out = L + mi ∧ m.sel < L ∧ ∀ (i c : Nat), m.inputs[i]? = some (some c) → c < L)
    (mi : Nat) (m : Mux) (hm : b.muxes[mi]? = some m) : b.Frame mi m := by
  intro mj m' hm'
  obtain ⟨ho', _, _⟩ := hl mj m' hm'
  obtain ⟨ho, hs, hi⟩ := hl mi m hm
  refine ⟨by omega, ?_, fun hne => by omega⟩
  intro i e
  have := hi i _ e
  omega

/-! ### The fuel of `bay_propagate` is sufficient -/

/-- More fuel never changes `bay_propagate`'s dirty phase: the dirty list
    holds distinct registered channels, so `chans.length` iterations suffice
    whatever is appended during the walk. -/
theorem dirtyPhase_fuel_sufficient {b : Bay} (wf : b.WF) (extra : Nat) :
    b.dirtyPhase (b.chans.length + extra) 0 = b.dirtyPhase b.chans.length 0 :=
  Bay.dirtyPhase_fuel _ _ b 0 wf (by omega) (by omega)

/-- **propagate_total**: in every well-formed bay whose inputs are all
    connected, whose select functions are defined on the current select values
    and whose select channels are not mux outputs, `bay_propagate` succeeds: no
    callback fails (outputs are single DIRTY_WRITE + ALLOW_DUP channels, so the
    double write select+input and the duplicate value are accepted) and neither
    fuel bound of the model is reached.  So the hypothesis `propagate = ok` of
    the theorems above only excludes ill-formed select values. -/
theorem propagate_total {b : Bay} (wf : b.WF) (sf : b.Safe) :
    ∃ bF em, b.propagate = .ok (bF, em) := by
  obtain ⟨⟨bF, em⟩, h⟩ := Bay.propagate_total wf sf
  exact ⟨bF, em, h⟩

/-- Same for the walk over one channel's callback list (it does not change
    while it is walked when no mux uses its own select as an input). -/
theorem propChan_fuel_sufficient {b : Bay} (wf : b.WF) (c extra : Nat) :
    b.propChan (b.chanFuel c + extra) c 0 = b.propChan (b.chanFuel c) c 0 :=
  Bay.propChan_fuel c _ _ b 0 wf (by unfold Bay.chanFuel; omega) (by unfold Bay.chanFuel; omega)


/-! ### The thread and CPU tracks compute `thView` / `cpuView` -/

/-- Shape of the mux `track_connect_thread` builds for mode RUN / ACT: select
    = the thread's state channel, one input = the raw model channel, default
    null, select function by mode. -/
structure ThreadTrack (m : Mux) (mode S R : Nat) : Prop where
  modeOk : mode = trackRun ∨ mode = trackAct
  selEq : m.sel = S
  inputsEq : m.inputs = [some R]
  dfltEq : m.dflt = .null
  kindEq : m.kind = if mode = trackRun then .thRunning else .thActive

/-- A thread track in sync shows the channel's current top exactly while the
    tracking mode holds for the thread state, else null. -/
theorem thread_view_of_sync {strong : Bool} {b : Bay} {mi : Nat} {m : Mux} {mode S R : Nat}
    (ht : ThreadTrack m mode S R) (hsync : b.MuxSync strong mi m)
    (st : ThState) (hst : StateChan (b.chan S).cur st) :
    (b.chan m.out).cur = if trackHolds mode st then (b.chan R).cur else .null := by
  obtain ⟨_, s, h1, _, _, h4⟩ := hsync
  rw [ht.selEq, selectInput_track m mode ht.modeOk ht.kindEq (by rw [ht.inputsEq]; rfl) _ st hst] at h1
  cases h1
  rcases h4 with h4 | ⟨_, _, _, _, hf⟩
  · rw [h4]
    split
    · simp [Bay.specVal, ht.inputsEq]
    · simp [Bay.specVal, ht.dfltEq]
  · exact hf.elim

/-- **track_thread_view**.  For a thread's model channel tracked RUN or ACT:
    from a state in sync, after ANY event — writes to the state channel and/or
    the model channel (push, pop, set) and to anything else, in any order —
    followed by `bay_propagate`, the track output equals the definition of
    `thView`: the channel's current top if the mode holds for the NEW state,
    else null. -/
theorem track_thread_view {strong : Bool} {b b1 bF : Bay} {em : List (Nat × Value)} {mi : Nat} {m : Mux}
    {mode S R : Nat} (ht : ThreadTrack m mode S R)
    (wf : b.WF) (hm : b.muxes[mi]? = some m) (hfr : b.Frame mi m) (hsync : b.MuxSync strong mi m)
    (hw : Bay.Writes (· ≠ m.out) b b1) (h : b1.propagate = .ok (bF, em))
    (st : ThState) (hst : StateChan (bF.chan S).cur st) :
    (bF.chan m.out).cur = if trackHolds mode st then (bF.chan R).cur else .null :=
  thread_view_of_sync ht (mux_round_event wf hm hfr hsync hw h).2.2.2.1 st hst

/-- The same, phrased with the reference emulator's `thView`: if the bay's
    state channel and raw channel mirror thread `t`'s state and channel `i` of
    model `ms`, the thread row is `thView t ms i`. -/
theorem track_thread_thView {strong : Bool} {b : Bay} {mi : Nat} {m : Mux} {S R : Nat}
    (t : Thread) (ms : ModelSpec) (i : Nat) (cs : List Chan)
    (ht : ThreadTrack m (ms.thTrack.getD i 0) S R) (hsync : b.MuxSync strong mi m)
    (hcs : t.getChans ms.char = some cs)
    (hst : StateChan (b.chan S).cur t.state) (hR : (b.chan R).cur = (cs.getD i {}).cur) :
    (b.chan m.out).cur = thView t ms i := by
  rw [thread_view_of_sync ht hsync t.state hst, thView, hcs, hR]

/-- Mode ANY: `track_th_input_chan` aliases the raw channel, which is `thView`
    for that mode (`trackHolds trackAny _ = true`). -/
theorem track_any_thView {b b' : Bay} {sel inp out : Nat}
    (h : b.trackThread trackAny sel inp = .ok (b', out))
    (t : Thread) (ms : ModelSpec) (i : Nat) (cs : List Chan) (hmode : ms.thTrack.getD i 0 = trackAny)
    (hcs : t.getChans ms.char = some cs) (b2 : Bay) (hR : (b2.chan inp).cur = (cs.getD i {}).cur) :
    out = inp ∧ (b2.chan out).cur = thView t ms i := by
  have : out = inp := by
    unfold Bay.trackThread at h
    simp at h
    exact h.2.symm
  subst this
  refine ⟨rfl, ?_⟩
  rw [thView, hcs, hmode, hR]; simp [trackHolds]

/-- Shape of the mux `connect_cpu` builds for one CPU and model channel:
    select = the CPU's `th_running` channel, default select function, input `g` =
    raw model channel of the thread with global index `g`. -/
structure CpuTrack (m : Mux) (S : Nat) (rs : List Nat) : Prop where
  selEq : m.sel = S
  inputsEq : m.inputs = rs.map some
  kindEq : m.kind = .byIndex

/-- A CPU track in sync shows the raw value of the thread named by
    `th_running`, or the mux default when `th_running` is null. -/
theorem cpu_view_of_sync {strong : Bool} {b : Bay} {mi : Nat} {m : Mux} {S : Nat} {rs : List Nat}
    (hc : CpuTrack m S rs) (hsync : b.MuxSync strong mi m) :
    (b.chan m.out).cur =
      match (b.chan S).cur with
      | .null => m.dflt
      | .int g => (b.chan (rs.getD g.toNat 0)).cur := by
  obtain ⟨_, s, h1, _, _, h4⟩ := hsync
  rcases h4 with h4 | ⟨_, _, _, _, hf⟩
  · rw [h4, ← hc.selEq]
    cases hv : (b.chan m.sel).cur with
    | null => rw [hv, selectInput_null] at h1; cases h1; rfl
    | int g =>
      rw [hv] at h1
      obtain ⟨_, hlt, rfl⟩ := selectInput_index m hc.kindEq g s h1
      rw [hc.inputsEq, List.length_map] at hlt
      simp only [Bay.specVal, hc.inputsEq]
      rw [List.getElem?_map, List.getElem?_eq_getElem hlt]
      simp [List.getD_eq_getElem?_getD, List.getElem?_eq_getElem hlt]
  · exact hf.elim

/-- **track_cpu_view**.  For the CPU mux of one model channel: from a state in
    sync, after ANY event — `th_running` changes (state or affinity change) and
    any thread's raw channel changes, in the same event, in any order — followed
    by `bay_propagate`, the output is the raw value of the thread selected by
    `th_running`, or the default. -/
theorem track_cpu_view {strong : Bool} {b b1 bF : Bay} {em : List (Nat × Value)} {mi : Nat} {m : Mux}
    {S : Nat} {rs : List Nat} (hc : CpuTrack m S rs)
    (wf : b.WF) (hm : b.muxes[mi]? = some m) (hfr : b.Frame mi m) (hsync : b.MuxSync strong mi m)
    (hw : Bay.Writes (· ≠ m.out) b b1) (h : b1.propagate = .ok (bF, em)) :
    (bF.chan m.out).cur =
      match (bF.chan S).cur with
      | .null => m.dflt
      | .int g => (bF.chan (rs.getD g.toNat 0)).cur :=
  cpu_view_of_sync hc (mux_round_event wf hm hfr hsync hw h).2.2.2.1

/-- The same, phrased with the reference emulator's `cpuView`: if `th_running`
    mirrors the CPU's channel, input `g` mirrors channel `i` of thread `g`, and
    the mux default is the model's idle default, the CPU row is `cpuView`. -/
theorem track_cpu_cpuView {strong : Bool} {b : Bay} {mi : Nat} {m : Mux} {S : Nat} {rs : List Nat}
    (e : Emu) (c : Cpu) (ms : ModelSpec) (i : Nat)
    (hc : CpuTrack m S rs) (hsync : b.MuxSync strong mi m)
    (hS : (b.chan S).cur = c.chThrun.cur) (hlen : rs.length = e.threads.length)
    (hR : ∀ (g : Nat) (t : Thread), e.threads[g]? = some t →
      ∃ cs, t.getChans ms.char = some cs ∧ (b.chan (rs.getD g 0)).cur = (cs.getD i {}).cur)
    (hd : m.dflt = match ms.cpuDefault.find? (·.1 == i) with
      | some (_, v) => .int v
      | none => .null) :
    (b.chan m.out).cur = cpuView e c ms i := by
  have hsel := hsync.2
  rw [cpu_view_of_sync hc hsync, cpuView, cpuSelected, ← hS]
  cases hv : (b.chan S).cur with
  | null => simp only; exact hd
  | int g =>
    obtain ⟨s, h1, _⟩ := hsel
    rw [hc.selEq, hv] at h1
    obtain ⟨hg0, hlt, _⟩ := selectInput_index m hc.kindEq g s h1
    rw [hc.inputsEq, List.length_map, hlen] at hlt
    have hng : ¬ g < 0 := by omega
    simp only [hng, if_false]
    obtain ⟨cs, hcs, hcur⟩ := hR g.toNat e.threads[g.toNat] (List.getElem?_eq_getElem hlt)
    rw [List.getElem?_eq_getElem hlt]
    simp only [hcs, hcur]


/-! ### The construction API establishes the hypotheses -/

/-- Bays built with `register` / `muxInit` / `muxSetInput` / `muxSetDefault`
    (what `model_thread_connect` / `model_cpu_connect` call) are well formed. -/
theorem built_wf {b b1 b2 b3 : Bay} {sel out n mi i c : Nat} {kind : SelKind} {v : Value}
    (wf : b.WF) (h1 : b.muxInit sel out kind n = .ok (b1, mi))
    (h2 : b1.muxSetInput mi i c = .ok b2) (hc : c ≠ sel) (h3 : b2.muxSetDefault mi v = .ok b3) :
    b1.WF ∧ b2.WF ∧ b3.WF := by
  obtain ⟨wf1, rfl, hmx, _⟩ := wf.muxInit h1
  have wf2 := (wf1.muxSetInput h2 (by
    intro m hm; rw [hmx] at hm; simp at hm; subst hm; exact hc)).1
  exact ⟨wf1, wf2, (wf2.muxSetDefault h3).1⟩

/-- Shape of what `track_connect_thread` builds for RUN / ACT: the new mux
    is a `ThreadTrack` on a fresh output channel. -/
theorem trackThread_shape {b b' : Bay} {mode sel inp out : Nat}
    (hmode : mode = trackRun ∨ mode = trackAct)
    (h : b.trackThread mode sel inp = .ok (b', out)) :
    out = b.chans.length ∧ ∃ m, b'.muxes = b.muxes ++ [m] ∧ m.out = out ∧ ThreadTrack m mode sel inp := by
  unfold Bay.trackThread at h
  have hna : mode ≠ trackAny := by rcases hmode with rfl | rfl <;> decide
  simp only [hna, if_false] at h
  have hk : (if mode = trackRun then some SelKind.thRunning
      else if mode = trackAct then some SelKind.thActive else none) =
      some (if mode = trackRun then SelKind.thRunning else SelKind.thActive) := by
    rcases hmode with rfl | rfl <;> simp [trackRun, trackAct]
  rw [hk] at h
  simp only at h
  split at h
  · cases h
  · rename_i b1 mi h1
    split at h
    · cases h
    · rename_i b2 h2
      cases h
      obtain ⟨_, _, _, _, _, rfl, rfl⟩ := Bay.muxInit_ok h1
      obtain ⟨m, hm, _, _, _, rfl⟩ := Bay.muxSetInput_ok h2
      simp only [Bay.enableCb_muxes, Bay.register] at hm
      rw [List.getElem?_append_right (Nat.le_refl _)] at hm
      simp at hm; subst hm
      refine ⟨rfl, { sel := sel, out := b.chans.length,
                     kind := (if mode = trackRun then .thRunning else .thActive), inputs := [some inp] },
        ?_, rfl, ⟨hmode, rfl, rfl, rfl, rfl⟩⟩
      simp [Bay.register]

/-! ### The emulator's thread / CPU topology -/

/-- A two-level wiring satisfies the frame condition of every mux. -/
theorem frame_of_layered {b : Bay} {L : Nat} (hl : b.Layered L) (mi : Nat) (m : Mux)
    (hm : b.muxes[mi]? = some m) : b.Frame mi m := by
  intro mj m' hm'
  obtain ⟨_, _, ho', _⟩ := hl mj m' hm'
  obtain ⟨hs, hi, _, hd⟩ := hl mi m hm
  refine ⟨by omega, ?_, fun hne => hd mj m' hm' hne⟩
  intro i e
  have := hi i _ e
  omega

/-- Every mux of the topology is a thread track or a CPU track. -/
def TrackShape (m : Mux) : Prop :=
  (∃ mode S R, ThreadTrack m mode S R) ∨ (∃ S rs, CpuTrack m S rs)

/-- Networks connected the way the emulator does it: all source channels
    (thread state, `th_running`, raw model channels: ids below `L`) exist and are
    untouched; then any number of `track_connect_thread` steps (mode RUN / ACT)
    and `connect_cpu` steps, in any order, each over source channels.  Sources
    may be shared freely (one state channel selects all tracks of the thread;
    one raw channel feeds its thread track and every CPU's track). -/
inductive Connected (L : Nat) : Bay → Prop
  | base {b : Bay} : b.WF → b.muxes = [] → b.NoInputCbs → b.AllNull → L ≤ b.chans.length →
      Connected L b
  | thread {b b' : Bay} {mode sel inp out : Nat} : Connected L b →
      (mode = trackRun ∨ mode = trackAct) → sel < L → inp < L → inp ≠ sel →
      b.trackThread mode sel inp = .ok (b', out) → Connected L b'
  | cpu {b b' : Bay} {sel out : Nat} {raws : List Nat} {dflt : Value} : Connected L b →
      sel < L → (∀ c ∈ raws, c < L ∧ c ≠ sel) →
      b.trackCpu sel raws dflt = .ok (b', out) → Connected L b'

/-- **topology_frame**: whatever the numbers of threads, CPUs and channels,
    the connected network is well formed, two-level (hence every mux satisfies
    the frame condition), quiet, and made of track-shaped muxes only. -/
theorem topology_frame {L : Nat} {b : Bay} (h : Connected L b) :
    b.Topo L ∧ (∀ (mi : Nat) (m : Mux), b.muxes[mi]? = some m → TrackShape m) ∧
    (∀ (mi : Nat) (m : Mux), b.muxes[mi]? = some m → b.Frame mi m) := by
  have key : b.Topo L ∧ (∀ (mi : Nat) (m : Mux), b.muxes[mi]? = some m → TrackShape m) := by
    induction h with
    | base wf hm hno hnull hl =>
      refine ⟨⟨wf, ?_, hno, hnull, hl⟩, ?_⟩
      · intro mi m h; rw [hm] at h; simp at h
      · intro mi m h; rw [hm] at h; simp at h
    | thread _ hmode hsel hinp hne htr ih =>
      obtain ⟨t, hsh⟩ := ih
      obtain ⟨t', _, hmx⟩ := t.trackThread hmode hsel hinp hne htr
      refine ⟨t', ?_⟩
      intro mi m hm
      rw [hmx] at hm
      rcases getElem?_append_some hm with h | ⟨_, rfl⟩
      · exact hsh mi m h
      · exact Or.inl ⟨_, _, _, hmode, rfl, rfl, rfl, rfl⟩
    | @cpu _ _ _ out _ _ _ hsel hraws htr ih =>
      obtain ⟨t, hsh⟩ := ih
      obtain ⟨wf', hl', hno', hlen', hout, hnull, hnullo, hmx⟩ := t.trackCpu hsel hraws htr
      refine ⟨⟨wf', hl', hno', ?_, hlen'⟩, ?_⟩
      · intro c
        by_cases e : c = out
        · rw [e]; exact hnullo
        · exact hnull c e
      · intro mi m hm
        rw [hmx] at hm
        rcases getElem?_append_some hm with h | ⟨_, rfl⟩
        · exact hsh mi m h
        · exact Or.inr ⟨_, _, rfl, rfl, rfl⟩
  exact ⟨key.1, key.2, fun mi m hm => frame_of_layered key.1.layered mi m hm⟩

/-- **topology_thread_rows**: in the connected network, at every instant
    (after any history of events writing source channels only), EVERY thread
    track shows `thView`'s definition. -/
theorem topology_thread_rows {L : Nat} {b0 b : Bay} (hc : Connected L b0)
    (hr : Rounds (· < L) b0 b) (mi : Nat) (m : Mux) (mode S R : Nat)
    (hm : b0.muxes[mi]? = some m) (ht : ThreadTrack m mode S R)
    (st : ThState) (hst : StateChan (b.chan S).cur st) :
    (b.chan m.out).cur = if trackHolds mode st then (b.chan R).cur else .null := by
  obtain ⟨t, _, hfr⟩ := topology_frame hc
  obtain ⟨_, _, hL, _⟩ := t.layered mi m hm
  have h0 : b0.MuxSync false mi m :=
    Bay.MuxSync.ofFresh t.noIn (t.allNull _) (by rw [t.allNull, ht.dfltEq])
  have hr' : Rounds (· ≠ m.out) b0 b := by
    clear hst
    induction hr with
    | nil => exact .nil _
    | round _ hw hp ih => exact .round ih (hw.mono (fun c hc => by omega)) hp
  exact thread_view_of_sync ht (mux_always t.wf hm (hfr mi m hm) h0 hr').2.2 st hst

/-- `Weak` (no stale enabled input) holds at every instant for every mux of the network. -/
theorem topology_weak {L : Nat} {b0 b : Bay} (hc : Connected L b0) (hr : Rounds (· < L) b0 b) :
    b.WF ∧ b.muxes = b0.muxes ∧ ∀ (mi : Nat) (m : Mux), b0.muxes[mi]? = some m → b.Weak mi m := by
  obtain ⟨t, _, hfr⟩ := topology_frame hc
  induction hr with
  | nil => exact ⟨t.wf, rfl, fun mi m _ => Bay.Weak.ofFresh t.noIn⟩
  | round _ hw hp ih =>
    obtain ⟨wf1, hmx, hwk⟩ := ih
    obtain ⟨wf2, _, _, hmx2, _, _⟩ := hw.inv wf1
    obtain ⟨wfF, _, hmxF⟩ := Bay.propagate_wf wf2 hp
    refine ⟨wfF, (hmxF.trans hmx2).trans hmx, fun mi m hm => ?_⟩
    have hm2 : _ := (hmx2.trans hmx) ▸ hm
    exact Bay.propagate_weak wf2 hm2 ((hfr mi m hm).congr (hmx2.trans hmx))
      (hw.weak wf1 (hwk mi m hm)) hp

/-- **topology_cpu_rows**: in the connected network, after any history, an
    event in which the CPU's `th_running` changes (thread starts, pauses, ends,
    migrates — possibly together with value changes of any thread) leaves the
    CPU track showing `cpuView`'s definition; CPU tracks with a null default
    (all but the idle channels of nOS-V / Nanos6) show it at every instant. -/
theorem topology_cpu_rows {L : Nat} {b0 b b1 bF : Bay} {em : List (Nat × Value)} (hc : Connected L b0)
    (hr : Rounds (· < L) b0 b) (hw : Bay.Writes (· < L) b b1) (hp : b1.propagate = .ok (bF, em))
    (mi : Nat) (m : Mux) (S : Nat) (rs : List Nat)
    (hm : b0.muxes[mi]? = some m) (hct : CpuTrack m S rs)
    (hd : m.dflt = .null ∨ (b1.chan S).dirty = true) :
    (bF.chan m.out).cur =
      match (bF.chan S).cur with
      | .null => m.dflt
      | .int g => (bF.chan (rs.getD g.toNat 0)).cur := by
  obtain ⟨t, _, hfr⟩ := topology_frame hc
  obtain ⟨_, _, hL, _⟩ := t.layered mi m hm
  rcases hd with hd | hd
  · have h0 : b0.MuxSync false mi m :=
      Bay.MuxSync.ofFresh t.noIn (t.allNull _) (by rw [t.allNull, hd])
    have hr' : Rounds (· ≠ m.out) b0 bF := by
      refine .round ?_ (hw.mono (fun c hc => by omega)) hp
      clear hw hp
      induction hr with
      | nil => exact .nil _
      | round _ hw hp ih => exact .round ih (hw.mono (fun c hc => by omega)) hp
    exact cpu_view_of_sync hct (mux_always t.wf hm (hfr mi m hm) h0 hr').2.2
  · obtain ⟨wf, hmx, hwk⟩ := topology_weak hc hr
    obtain ⟨wf1, _, _, hmx1, _, _⟩ := hw.inv wf
    have hm1 : b1.muxes[mi]? = some m := by rw [hmx1, hmx]; exact hm
    obtain ⟨_, _, _, hs⟩ := Bay.propagate_sync (strong := true) wf1 hm1
      ((hfr mi m hm).congr (hmx1.trans hmx)) (hw.weak wf (hwk mi m hm))
      (Or.inl (by rw [hct.selEq]; exact hd)) hp
    exact cpu_view_of_sync hct hs

/-! ### The reference emulator drives the connected bay

Vocabulary (`Lemmas/CoreBay*.lean`).  `e.shape` = (number of threads, number
of CPUs, channel specs of the enabled models and the mark group);
`e.shape.connect` = the bay `emu_connect` builds for that hierarchy with
`register` / `trackThread` / `trackCpu`: source channels (state channel of
every thread, `th_running` / `th_active` of every CPU, raw channel
(thread, model, i)), then per model `model_thread_connect` and
`model_cpu_connect`, one track per (thread | CPU, model, channel).
`e.shape.idx s` is the bay id of source `s`, `e.shape.L` the number of
sources, `e.shape.thOut g k i` / `e.shape.cpuOut c k i` the output channel of
the track of channel `i` of model number `k` for thread `g` / CPU `c` (for
mode ANY the raw channel itself).  `Mirrors e b`: every source channel of `b`
IS the emulator's channel (values, `last_value`, dirty flag, properties).
`Shaped e`: structural invariant of `Emu` states (`gindex` = position, channel
groups as in the specs, distinct model characters, `th_running` names an
existing thread, state channel = thread state).  `Inv b0 e b`: `b` has the
muxes of the connected bay `b0`, is well formed, clean, safe, mirrors `e`, and
every mux is in sync or has never been selected. -/

/-- `bayOf e`: what `emu_connect` builds for the hierarchy of `e` (before the
    connect-time writes and the first propagation). -/
def bayOf (e : Emu) : Bay :=
  match e.shape.connect with
  | .ok b => b
  | .error _ => {}

theorem bayOf_eq {e : Emu} {b0 : Bay} (h : e.shape.connect = .ok b0) : bayOf e = b0 := by
  simp [bayOf, h]

/-- `bayOf e` is a two-level network over `e.shape.L` source channels; every
    mux is a thread track (select = the thread's state channel, input = its raw
    channel) or a CPU track (select = the CPU's `th_running`, input `g` = raw
    channel of thread `g`, default = the model's idle default). -/
theorem bayOf_topology {e : Emu} {b0 : Bay} (h : e.shape.connect = .ok b0) :
    b0.Topo e.shape.L ∧ b0.chans.length = e.shape.L + e.shape.jobs.length ∧
    (∀ (mi : Nat) (m : Mux), b0.muxes[mi]? = some m → TrackShape m ∧ b0.Frame mi m) := by
  have hb := Shape.connect_built h
  refine ⟨hb.topo, hb.len, fun mi m hm => ⟨?_, frame_of_layered hb.topo.layered mi m hm⟩⟩
  cases hb.isTrack hm with
  | th g k i ms out hg hk hi hmode => exact Or.inl ⟨_, _, _, hmode, rfl, rfl, rfl, rfl⟩
  | cpu c k i ms out hc hk hi => exact Or.inr ⟨_, _, rfl, rfl, rfl⟩

/-- **emu_thread_rows.**  In any bay tied to the emulator state by `Inv`, the
    output of EVERY thread track is `thView` of that thread, model and channel
    (all modes: ANY, RUN, ACT). -/
theorem emu_thread_rows {e : Emu} {b0 b : Bay} (hc : e.shape.connect = .ok b0) (hs : Shaped e)
    (hi : Inv b0 e b) {g k i : Nat} {t : Thread} {m : ModelSpec}
    (ht : e.threads[g]? = some t) (hk : e.specs[k]? = some m) (hil : i < m.nch) :
    (b.chan (e.shape.thOut g k i)).cur = thView t m i := by
  obtain ⟨cs, hcs, hmch, hlen⟩ := hs.getChans ht hk
  have hraw : b.chan (e.shape.idx (.raw g k i)) = cs.getD i {} := hi.raw_cur ht hmch (by rw [hlen]; exact hil)
  have hk' : e.shape.specs[k]? = some m := hk
  by_cases hna : m.thTrack.getD i 0 = trackAny
  · have : e.shape.thOut g k i = e.shape.idx (.raw g k i) := by
      simp only [Shape.thOut, hk', hna, if_true]
    rw [this, hraw, thView, hcs, hna]
    simp [trackHolds]
  · have hg : g < e.threads.length := (List.getElem?_eq_some_iff.mp ht).1
    obtain ⟨hmode, mi, mx, hm, rfl⟩ := hi.thMux hc hg hk hil hna
    have hsync := (hi.sync mi _ hm).elim id (fun h => h.sync rfl)
    have hst : StateChan (b.chan (e.shape.idx (.st g))).cur t.state := by
      have hsrc : e.src (.st g) = some t.chState := by simp only [Emu.src, ht, Option.map_some]
      rw [Bay.chan_of_getElem? (hi.mirrors _ _ hsrc)]
      exact (hs.st g t ht).1
    exact track_thread_thView t m i cs ⟨hmode, rfl, rfl, rfl, rfl⟩ hsync hcs hst (by rw [hraw])

/-- **emu_cpu_rows.**  The output of EVERY CPU track is `cpuView` of that CPU,
    model and channel — except a track with a non-null default (the idle channel
    of nOS-V / Nanos6) on a CPU whose `th_running` has never been written: its
    output is still null where `cpuView` already shows the default.  (The C code
    never emits that default at time 0; `View.records` emits nothing either,
    because `cpuView` does not change.) -/
theorem emu_cpu_rows {e : Emu} {b0 b : Bay} (hc : e.shape.connect = .ok b0) (hs : Shaped e)
    (hi : Inv b0 e b) {c k i : Nat} {x : Cpu} {m : ModelSpec}
    (hx : e.cpus[c]? = some x) (hk : e.specs[k]? = some m) (hil : i < m.nch) :
    (b.chan (e.shape.cpuOut c k i)).cur = cpuView e x m i ∨
    (x.chThrun.cur = .null ∧ (b.chan (e.shape.cpuOut c k i)).cur = .null ∧ m.cpuDflt i ≠ .null) := by
  have hcl : c < e.cpus.length := (List.getElem?_eq_some_iff.mp hx).1
  obtain ⟨mi, mx, hm, rfl⟩ := hi.cpuMux hc hcl hk hil
  have hsel : b.chan (e.shape.idx (.run c)) = x.chThrun := by
    have hsrc : e.src (.run c) = some x.chThrun := by simp only [Emu.src, hx, Option.map_some]
    exact Bay.chan_of_getElem? (hi.mirrors _ _ hsrc)
  have hview : b.MuxSync false mi
      { sel := e.shape.idx (.run c), out := e.shape.cpuOut c k i, kind := .byIndex,
        inputs := (e.shape.rawsOf k i).map some, dflt := m.cpuDflt i } →
      (b.chan (e.shape.cpuOut c k i)).cur = cpuView e x m i := by
    intro hsync
    refine track_cpu_cpuView (rs := e.shape.rawsOf k i) e x m i ⟨rfl, rfl, rfl⟩ hsync (by rw [hsel])
      (by simp [Shape.rawsOf, Emu.shape]) ?_ rfl
    intro g t ht
    obtain ⟨cs, hcs, hmch, hlen⟩ := hs.getChans ht hk
    have hg : g < e.threads.length := (List.getElem?_eq_some_iff.mp ht).1
    refine ⟨cs, hcs, ?_⟩
    have : (e.shape.rawsOf k i).getD g 0 = e.shape.idx (.raw g k i) := by
      simp only [Shape.rawsOf, List.getD_eq_getElem?_getD, List.getElem?_map]
      rw [List.getElem?_range (show g < e.shape.nT from hg)]; rfl
    rw [this, hi.raw_cur ht hmch (by rw [hlen]; exact hil)]
  rcases hi.sync mi _ hm with h | h
  · exact Or.inl (hview h)
  · by_cases hd : m.cpuDflt i = .null
    · exact Or.inl (hview (h.sync hd))
    · right
      obtain ⟨h1, h2, _⟩ := h
      exact ⟨by rw [← hsel]; exact h1, h2, hd⟩

/-- **emu_event** (the composition step).  For every event accepted by the
    reference emulator (`modelEvent e … = .ok e'`; the two hooks are writes too,
    `HookSim`): the handlers' channel operations are a `Bay.Writes` on source
    channels from `b` to a bay `b1` mirroring `e'`; `bay_propagate` succeeds on
    `b1`; the result `bF` mirrors the flushed state (`Inv`: the next event starts
    from it), and in `bF` every thread-track output equals `thView t' m i` and
    every CPU-track output equals `cpuView e' c m i` (with the never-selected
    exception of `emu_cpu_rows`). -/
theorem emu_event {e e' : Emu} {b0 b : Bay} {ti mc c v : Nat} {p : List Nat}
    {th mh : Emu → Nat → Nat → Nat → List Nat → Except Err Emu} (hth : HookSim th) (hmh : HookSim mh)
    (hc : e.shape.connect = .ok b0) (hs : Shaped e) (hi : Inv b0 e b)
    (h : modelEvent e ti mc c v p th mh = .ok e') :
    ∃ b1 bF em, Bay.Writes (· < e.shape.L) b b1 ∧ Mirrors e' b1 ∧ b1.propagate = .ok (bF, em) ∧
      Shaped e'.flushAll ∧ e'.flushAll.shape = e.shape ∧ Inv b0 e'.flushAll bF ∧
      (∀ (g k i : Nat) (t' : Thread) (ms : ModelSpec), e'.threads[g]? = some t' →
        e.specs[k]? = some ms → i < ms.nch →
        (bF.chan (e.shape.thOut g k i)).cur = thView t' ms i) ∧
      (∀ (cg k i : Nat) (x' : Cpu) (ms : ModelSpec), e'.cpus[cg]? = some x' →
        e.specs[k]? = some ms → i < ms.nch →
        (bF.chan (e.shape.cpuOut cg k i)).cur = cpuView e' x' ms i ∨
        (x'.chThrun.cur = .null ∧ (bF.chan (e.shape.cpuOut cg k i)).cur = .null ∧ ms.cpuDflt i ≠ .null)) := by
  obtain ⟨hsF, hshape, b1, bF, em, hw, hm1, _, hp, hinv⟩ := hi.modelEvent hth hmh hc hs h
  have hcF : e'.flushAll.shape.connect = .ok b0 := by rw [hshape]; exact hc
  have hspecs : e'.flushAll.specs = e.specs := congrArg Shape.specs hshape
  refine ⟨b1, bF, em, hw, hm1, hp, hsF, hshape, hinv, ?_, ?_⟩
  · intro g k i t' ms ht' hk hil
    have htF : e'.flushAll.threads[g]? = some
        { t' with chCpu := t'.chCpu.flush, chTid := t'.chTid.flush, chState := t'.chState.flush,
                  mch := t'.mch.map fun x => (x.1, x.2.map Chan.flush) } := by
      simp only [Emu.flushAll, List.getElem?_map, ht', Option.map_some]
    have := emu_thread_rows hcF hsF hinv htF (hspecs ▸ hk) hil
    rw [hshape, thView_flush] at this
    exact this
  · intro cg k i x' ms hx' hk hil
    have hxF : e'.flushAll.cpus[cg]? = some
        { x' with chNrun := x'.chNrun.flush, chPid := x'.chPid.flush, chTid := x'.chTid.flush,
                  chThrun := x'.chThrun.flush, chThact := x'.chThact.flush } := by
      simp only [Emu.flushAll, List.getElem?_map, hx', Option.map_some]
    have := emu_cpu_rows hcF hsF hinv hxF (hspecs ▸ hk) hil
    rw [hshape, cpuView_flushAll] at this
    simpa only [Chan.flush_cur] using this

/-- **mirrors_init.**  `emu_connect` for `mkEmu …`: connect, the connect-time
    `chan_set`s (nOS-V / Nanos6: every thread Progressing), one `bay_propagate`.
    The result satisfies `Inv` with `mkEmu …` — so all rows are `thView` /
    `cpuView` of the initial state.  Hypotheses: at least one thread (the CPU
    muxes have one input per thread), distinct model characters (true of
    `allSpecs`; the mark group has its own id), connect-time values only on single
    channels (`initSingle_allSpecs`). -/
theorem emu_init (threads : List (Int × Int × Nat)) (cpus : List (Nat × Int × Bool)) (enabled : List Nat)
    (lint : Bool) (extra : List ModelSpec) {b0 : Bay}
    (hc : (mkEmu threads cpus enabled lint extra).shape.connect = .ok b0)
    (hnt : 0 < threads.length)
    (hchars : ((allSpecs.filter (fun s => enabled.contains s.char) ++ extra).map (·.char)).Nodup)
    (hinit : InitSingle (allSpecs.filter (fun s => enabled.contains s.char) ++ extra)) :
    Shaped (mkEmu threads cpus enabled lint extra) ∧
    ∃ b1 bI em, Bay.Writes (· < (mkEmu threads cpus enabled lint extra).shape.L) b0 b1 ∧
      b1.propagate = .ok (bI, em) ∧ Inv b0 (mkEmu threads cpus enabled lint extra) bI :=
  Inv.init threads cpus enabled lint extra hc hnt hchars hinit

/-- One event of a history: thread, model, category, value, payload. -/
abbrev Ev := Nat × Nat × Nat × Nat × List Nat

/-- The reference emulator on a list of events (`stepEv` = handlers, record
    emission, flush), collecting the records. -/
def replay (th mh : Emu → Nat → Nat → Nat → List Nat → Except Err Emu) :
    Emu → List Ev → Except Err (Emu × List PrvRec)
  | e, [] => .ok (e, [])
  | e, ev :: evs =>
    match stepEv e ev.1 ev.2.1 ev.2.2.1 ev.2.2.2.1 ev.2.2.2.2 th mh with
    | .error x => .error x
    | .ok (e1, rs) =>
      match replay th mh e1 evs with
      | .error x => .error x
      | .ok (eF, rs') => .ok (eF, rs ++ rs')

theorem stepEv_ok {e e2 : Emu} {ti m c v : Nat} {p : List Nat} {rs : List PrvRec}
    {th mh : Emu → Nat → Nat → Nat → List Nat → Except Err Emu}
    (h : stepEv e ti m c v p th mh = .ok (e2, rs)) :
    ∃ e1, modelEvent e ti m c v p th mh = .ok e1 ∧ records e e1 = .ok rs ∧ e2 = e1.flushAll := by
  unfold stepEv at h
  simp only [bind, Except.bind, pure, Except.pure] at h
  split at h
  · cases h
  · rename_i e1 h1
    split at h
    · cases h
    · rename_i rs' h2
      injection h with h; injection h with ha hb
      exact ⟨e1, h1, hb ▸ h2, ha.symm⟩

theorem Rounds.trans {ok : Nat → Prop} {b b1 b2 : Bay} (h1 : Rounds ok b b1) (h2 : Rounds ok b1 b2) :
    Rounds ok b b2 := by
  induction h2 with
  | nil => exact h1
  | round _ hw hp ih => exact .round ih hw hp

/-- **emu_history** (at every instant).  After ANY list of events accepted by
    the reference emulator, the bay reached by replaying the handlers' writes and
    propagating after each event satisfies `Inv` with the emulator state: all
    thread rows are `thView`, all CPU rows `cpuView` (`emu_thread_rows`,
    `emu_cpu_rows`).  The bay history is a `Rounds` over source channels, the
    premise of `topology_thread_rows` / `topology_cpu_rows`. -/
theorem emu_history {th mh : Emu → Nat → Nat → Nat → List Nat → Except Err Emu} (hth : HookSim th)
    (hmh : HookSim mh) (evs : List Ev) : ∀ {e eF : Emu} {b0 b : Bay} {rs : List PrvRec},
    e.shape.connect = .ok b0 → Shaped e → Inv b0 e b → replay th mh e evs = .ok (eF, rs) →
    ∃ bF, Rounds (· < e.shape.L) b bF ∧ Shaped eF ∧ eF.shape = e.shape ∧ Inv b0 eF bF := by
  induction evs with
  | nil =>
    intro e eF b0 b rs hc hs hi h
    injection h with h; injection h with h1 _
    subst h1
    exact ⟨b, .nil b, hs, rfl, hi⟩
  | cons ev evs ih =>
    intro e eF b0 b rs hc hs hi h
    rw [replay] at h
    split at h
    · cases h
    · rename_i e2 rs1 hstep
      split at h
      · cases h
      · rename_i eF' rs2 hrest
        injection h with h; injection h with h1 _
        subst h1
        obtain ⟨e1, hme, _, rfl⟩ := stepEv_ok hstep
        obtain ⟨hs1, hsh1, b1, b2, em, hw, _, _, hp, hi1⟩ := hi.modelEvent hth hmh hc hs hme
        obtain ⟨bF, hr, hsF, hshF, hiF⟩ := ih (hsh1 ▸ hc) hs1 hi1 hrest
        rw [hsh1] at hr
        exact ⟨bF, (Rounds.round (.nil b) hw hp).trans hr, hsF, hshF.trans hsh1, hiF⟩

/-- **emu_run**: the same from the initial state: connect, connect-time writes
    and first propagation (`emu_init`), then any accepted history. -/
theorem emu_run {th mh : Emu → Nat → Nat → Nat → List Nat → Except Err Emu} (hth : HookSim th)
    (hmh : HookSim mh) (threads : List (Int × Int × Nat)) (cpus : List (Nat × Int × Bool))
    (enabled : List Nat) (lint : Bool) (extra : List ModelSpec) {b0 : Bay} (evs : List Ev) {eF : Emu}
    {rs : List PrvRec}
    (hc : (mkEmu threads cpus enabled lint extra).shape.connect = .ok b0)
    (hnt : 0 < threads.length)
    (hchars : ((allSpecs.filter (fun s => enabled.contains s.char) ++ extra).map (·.char)).Nodup)
    (hinit : InitSingle (allSpecs.filter (fun s => enabled.contains s.char) ++ extra))
    (h : replay th mh (mkEmu threads cpus enabled lint extra) evs = .ok (eF, rs)) :
    ∃ bF, Rounds (· < (mkEmu threads cpus enabled lint extra).shape.L) b0 bF ∧ Shaped eF ∧
      eF.shape = (mkEmu threads cpus enabled lint extra).shape ∧ Inv b0 eF bF := by
  obtain ⟨hs, b1, bI, em, hw, hp, hi⟩ := emu_init threads cpus enabled lint extra hc hnt hchars hinit
  obtain ⟨bF, hr, hsF, hshF, hiF⟩ := emu_history hth hmh evs hc hs hi h
  exact ⟨bF, (Rounds.round (.nil b0) hw hp).trans hr, hsF, hshF, hiF⟩

/-- The hooks in use satisfy the hook hypothesis: the task layer is outside
    `Emu/Core` (`noHook`), the mark events are one push / pop / set. -/
theorem hooks_in_use (tab : List MarkType) :
    HookSim (fun _ _ _ _ _ => .error .unknownEvent) ∧ HookSim (fun e ti _ v p => markEvent tab e ti v p) :=
  ⟨hookSim_none, hookSim_mark tab⟩

/-! ### The generated channel specs only use the modes the theorems cover -/

/-- Every thread tracking mode in the (regenerated) channel specs of every
    model is ANY, RUN or ACT — the three cases of `track_th_input_chan`. -/
theorem generated_thread_modes :
    ∀ s ∈ allSpecs, ∀ x ∈ s.thTrack, x = trackAny ∨ x = trackRun ∨ x = trackAct := by decide

/-- Every CPU tracking mode is RUN (`connect_cpu` rejects anything else), and
    the CPU tracks select on `th_running`, which is what `cpuView` reads. -/
theorem generated_cpu_modes : ∀ s ∈ allSpecs, ∀ x ∈ s.cpuTrack, x = trackRun := by decide

/-! ### No hypothesis left for the configurations the emulator runs -/

/-- `emu_connect` succeeds (`bayOf e` is what it builds) whenever the tracking
    modes of the specs are the ones `track_th_input_chan` / `connect_cpu`
    accept. -/
theorem bayOf_connects {e : Emu} (hmo : e.shape.ModesOk) : e.shape.connect = .ok (bayOf e) := by
  obtain ⟨b0, h⟩ := e.shape.connect_total hmo
  rw [bayOf_eq h]; exact h

/-- The generated specs of any enabled set of models, plus the mark group of
    any mark table, satisfy the three side conditions of `emu_init`. -/
theorem driver_side_conditions (enabled : List Nat) (tab : List MarkType) :
    let specs := allSpecs.filter (fun s => enabled.contains s.char) ++ markExtra tab
    (∀ m ∈ specs, ∀ i : Nat,
      (m.thTrack.getD i 0 = trackAny ∨ m.thTrack.getD i 0 = trackRun ∨ m.thTrack.getD i 0 = trackAct) ∧
      m.cpuTrack.getD i trackRun = trackRun) ∧
    (specs.map (·.char)).Nodup ∧ InitSingle specs := by
  intro specs
  have hmem : ∀ m ∈ specs, m ∈ allSpecs ∨ (m = markSpec tab) := by
    intro m hm
    rcases List.mem_append.mp hm with h | h
    · exact Or.inl (List.mem_filter.mp h).1
    · right
      unfold markExtra at h
      split at h
      · cases h
      · simpa using h
  refine ⟨?_, ?_, ?_⟩
  · have := Shape.modesOk_of_lists (σ := ⟨0, 0, specs⟩)
      (by
        intro m hm x hx
        rcases hmem m hm with h | rfl
        · exact generated_thread_modes m h x hx
        · simp only [markSpec, List.mem_map] at hx
          obtain ⟨_, _, rfl⟩ := hx; exact Or.inr (Or.inr rfl))
      (by
        intro m hm x hx
        rcases hmem m hm with h | rfl
        · exact generated_cpu_modes m h x hx
        · simp only [markSpec, List.mem_map] at hx
          obtain ⟨_, _, rfl⟩ := hx; rfl)
    exact this
  · show ((allSpecs.filter (fun s => enabled.contains s.char) ++ markExtra tab).map (·.char)).Nodup
    rw [List.map_append, List.nodup_append]
    refine ⟨?_, ?_, ?_⟩
    · have h0 : (allSpecs.map (·.char)).Nodup := by decide
      exact List.Nodup.sublist (List.Sublist.map _ List.filter_sublist) h0
    · unfold markExtra; split
      · exact List.nodup_nil
      · simp
    · intro a ha b hb
      obtain ⟨m, hm, rfl⟩ := List.mem_map.mp ha
      have hm' := (List.mem_filter.mp hm).1
      have h1 : ∀ s ∈ allSpecs, s.char ≠ markGroup := by decide
      unfold markExtra at hb
      split at hb
      · cases hb
      · simp only [List.map_cons, List.map_nil, List.mem_singleton] at hb
        rw [hb]; exact h1 m hm'
  · intro m hm i v hv
    rcases List.mem_append.mp hm with h | h
    · exact initSingle_allSpecs enabled m h i v hv
    · unfold markExtra at h
      split at h
      · cases h
      · simp only [List.mem_singleton] at h
        subst h
        simp [ModelSpec.initOf, markSpec] at hv

/-- **emu_run for the emulator as it is run** (`Drivers/Emu.lean`: any thread
    and CPU lists with at least one thread, any set of enabled models, any mark
    table; hooks: no task layer, `markEvent`).  No other hypothesis: the
    connected bay exists, and after ANY accepted history the bay reached by
    replaying the handlers' writes and propagating satisfies `Inv` — so every
    thread row is `thView`, every CPU row `cpuView` (`emu_thread_rows`,
    `emu_cpu_rows`). -/
theorem emu_run_driver (threads : List (Int × Int × Nat)) (cpus : List (Nat × Int × Bool))
    (enabled : List Nat) (lint : Bool) (tab : List MarkType) (evs : List Ev) {eF : Emu} {rs : List PrvRec}
    (hnt : 0 < threads.length)
    (h : replay (fun _ _ _ _ _ => .error .unknownEvent) (fun e ti _ v p => markEvent tab e ti v p)
      (mkEmu threads cpus enabled lint (markExtra tab)) evs = .ok (eF, rs)) :
    ∃ b0 bF, (mkEmu threads cpus enabled lint (markExtra tab)).shape.connect = .ok b0 ∧
      Rounds (· < (mkEmu threads cpus enabled lint (markExtra tab)).shape.L) b0 bF ∧ Shaped eF ∧
      eF.shape = (mkEmu threads cpus enabled lint (markExtra tab)).shape ∧ Inv b0 eF bF := by
  obtain ⟨hmo, hchars, hinit⟩ := driver_side_conditions enabled tab
  have hc := bayOf_connects (e := mkEmu threads cpus enabled lint (markExtra tab)) hmo
  obtain ⟨bF, hr, hsF, hshF, hiF⟩ := emu_run hookSim_none (hookSim_mark tab) threads cpus enabled lint
    (markExtra tab) evs hc hnt hchars hinit h
  exact ⟨_, bF, hc, hr, hsF, hshF, hiF⟩

/-! ### The emit phase: what the PRV callbacks write, and `View.records`

Model: `Emu/Emit.lean` (`prv_register` table `Shape.regs`, `emit` = `emitOne`,
`Bay.propagateP` = `bay_propagate` with the emit callbacks).  `lvs` = the
`last_value`s of the registrations, `tvs` = what every Paraver row shows (value
of its last line, 0 before the first).  `EmitInv regs lvs tvs b`: both are
consistent with the registered channels of the clean bay `b`.  `fresh c`: the
`th_running` channel of CPU `c` has not been written since `emu_connect`;
`cpuViewC fresh …` is `cpuView`, except that a fresh CPU shows null on a channel
with a mux default (`FreshInv`: those tracks are still virgin, every other mux is
in sync).  `viewRecordsC old new fo fn` = the model rows of `records` with
`cpuViewC`; `viewRecords` = `viewRecordsC` without fresh CPUs
(`viewRecordsC_false`); `records` = `sysRecords` + `viewRecords`
(`records_split`). -/

/-- A fresh CPU stays fresh while the handlers do not write its `th_running`. -/
def freshE (fresh : Nat → Bool) (e' : Emu) : Nat → Bool :=
  fun c => fresh c && !(match e'.cpus[c]? with
    | some x => x.chThrun.dirty
    | none => false)

/-- The CPU track of (c, k, i): where it is, and what it shows when in sync. -/
theorem emu_cpu_track {e : Emu} {b0 b : Bay} (hc : e.shape.connect = .ok b0) (hs : Shaped e)
    (hi : Inv b0 e b) {c k i : Nat} {x : Cpu} {m : ModelSpec}
    (hx : e.cpus[c]? = some x) (hk : e.specs[k]? = some m) (hil : i < m.nch) :
    ∃ (mi : Nat) (mx : Mux), b.muxes[mi]? = some mx ∧ mx.sel = e.shape.idx (.run c) ∧
      mx.out = e.shape.cpuOut c k i ∧ mx.dflt = m.cpuDflt i ∧ b.chan mx.sel = x.chThrun ∧
      (b.MuxSync false mi mx → (b.chan (e.shape.cpuOut c k i)).cur = cpuView e x m i) := by
  have hcl : c < e.cpus.length := (List.getElem?_eq_some_iff.mp hx).1
  obtain ⟨mi, mx, hm, rfl⟩ := hi.cpuMux hc hcl hk hil
  have hsel : b.chan (e.shape.idx (.run c)) = x.chThrun := by
    have hsrc : e.src (.run c) = some x.chThrun := by simp only [Emu.src, hx, Option.map_some]
    exact Bay.chan_of_getElem? (hi.mirrors _ _ hsrc)
  refine ⟨mi, _, hm, rfl, rfl, rfl, hsel, ?_⟩
  intro hsync
  refine track_cpu_cpuView (rs := e.shape.rawsOf k i) e x m i ⟨rfl, rfl, rfl⟩ hsync (by rw [hsel])
    (by simp [Shape.rawsOf, Emu.shape]) ?_ rfl
  intro g t ht
  obtain ⟨cs, hcs, hmch, hlen⟩ := hs.getChans ht hk
  refine ⟨cs, hcs, ?_⟩
  have : (e.shape.rawsOf k i).getD g 0 = e.shape.idx (.raw g k i) := by
    have hg : g < e.threads.length := (List.getElem?_eq_some_iff.mp ht).1
    simp only [Shape.rawsOf, List.getD_eq_getElem?_getD, List.getElem?_map]
    rw [List.getElem?_range (show g < e.shape.nT from hg)]; rfl
  rw [this, hi.raw_cur ht hmch (by rw [hlen]; exact hil)]

/-- **emu_cpu_rows, exact.**  With the ghost `fresh` (`FreshInv`), the output
    of EVERY CPU track is `cpuViewC (fresh c)`: `cpuView`, or null on a track with
    a mux default whose CPU never had its `th_running` written. -/
theorem emu_cpu_rows_fresh {e : Emu} {b0 b : Bay} {fresh : Nat → Bool} (hc : e.shape.connect = .ok b0)
    (hs : Shaped e) (hi : Inv b0 e b) (hf : FreshInv e.shape b fresh) {c k i : Nat} {x : Cpu} {m : ModelSpec}
    (hx : e.cpus[c]? = some x) (hk : e.specs[k]? = some m) (hil : i < m.nch) :
    (b.chan (e.shape.cpuOut c k i)).cur = cpuViewC (fresh c) e x m i := by
  have hcl : c < e.shape.nC := (List.getElem?_eq_some_iff.mp hx).1
  obtain ⟨mi, mx, hm, hsel, hout, hd, _, hview⟩ := emu_cpu_track hc hs hi hx hk hil
  by_cases hfr : e.shape.isFresh fresh mx
  · obtain ⟨hdn, c', hcl', hsel', hfc⟩ := hfr
    have hcc : c' = c := by
      have := e.shape.idx_inj ((e.shape.mem_run c').mpr hcl') ((e.shape.mem_run c).mpr hcl)
        (hsel'.symm.trans hsel)
      cases this; rfl
    subst hcc
    have hnull := ((hf mi mx hm).1 ⟨hdn, c', hcl', hsel', hfc⟩).2.1
    rw [hout] at hnull
    rw [hnull, cpuViewC, if_pos ⟨hfc, hd ▸ hdn⟩]
  · rw [hview ((hf mi mx hm).2 hfr), cpuViewC, if_neg]
    rintro ⟨h1, h2⟩
    exact hfr ⟨hd ▸ h2, c, hcl, hsel, h1⟩

theorem cpuViewC_flushAll (f : Bool) (e : Emu) (c : Cpu) (m : ModelSpec) (i : Nat) :
    cpuViewC f e.flushAll { c with chNrun := c.chNrun.flush, chPid := c.chPid.flush, chTid := c.chTid.flush,
                                   chThrun := c.chThrun.flush, chThact := c.chThact.flush } m i =
      cpuViewC f e c m i := by
  unfold cpuViewC; rw [cpuView_flushAll]

/-- A fresh CPU has no running thread: `cpuView` shows the mux default. -/
theorem fresh_cpuView {e : Emu} {b0 b : Bay} {fresh : Nat → Bool} (hc : e.shape.connect = .ok b0)
    (hs : Shaped e) (hi : Inv b0 e b) (hf : FreshInv e.shape b fresh) {c k i : Nat} {x : Cpu} {m : ModelSpec}
    (hx : e.cpus[c]? = some x) (hk : e.specs[k]? = some m) (hil : i < m.nch) (hfc : fresh c = true)
    (hd : m.cpuDflt i ≠ .null) : cpuView e x m i = m.cpuDflt i := by
  have hcl : c < e.shape.nC := (List.getElem?_eq_some_iff.mp hx).1
  obtain ⟨mi, mx, hm, hsel, _, hdf, hch, _⟩ := emu_cpu_track hc hs hi hx hk hil
  have hnull := ((hf mi mx hm).1 ⟨hdf ▸ hd, c, hcl, hsel, hfc⟩).1
  rw [hch] at hnull
  unfold cpuView cpuSelected
  rw [hnull]; rfl

/-- The bay step of a simulated step with the registered channels' values before
    and after: `Bay.viewRecs` on `Shape.regs` IS `viewRecordsC` (the part of
    `emit_step` that does not depend on the flags of the registrations). -/
theorem emit_step_frame {e e' : Emu} {b0 b : Bay} {fresh : Nat → Bool}
    (hc : e.shape.connect = .ok b0) (hs : Shaped e) (hi : Inv b0 e b) (hf : FreshInv e.shape b fresh)
    (hsim : Sim e e') :
    ∃ b1 bF em, Bay.Writes (· < e.shape.L) b b1 ∧ Mirrors e' b1 ∧ b1.propagate = .ok (bF, em) ∧
      Shaped e'.flushAll ∧ e'.flushAll.shape = e.shape ∧ Inv b0 e'.flushAll bF ∧
      FreshInv e.shape bF (freshE fresh e') ∧
      b.viewRecs e.shape.regs bF = viewRecordsC e e' fresh (freshE fresh e') ∧
      (CpuDfltOk e.specs → ∀ v, viewRecords e e' = .ok v →
        ∃ vr, viewRecordsC e e' fresh (freshE fresh e') = .ok vr) ∧
      (∀ vr, viewRecordsC e e' fresh (freshE fresh e') = .ok vr → ∃ v, viewRecords e e' = .ok v) := by
  obtain ⟨hs', hshape', _⟩ := hsim hs
  obtain ⟨hsF, hshF, b1, bF, em, hwP, hm1, _, hp, hinv⟩ := hi.step hc hs hsim
  have hw : Bay.Writes (· < e.shape.L) b b1 := hwP.mono (fun _ h => Shape.okP_lt h)
  have hspecs' : e'.specs = e.specs := congrArg Shape.specs hshape'
  -- the ghost after the event
  have hfF : FreshInv e.shape bF (freshE fresh e') := by
    refine (hf.step hc hi hw hp).congr ?_
    intro c hcl
    have hcl' : c < e'.cpus.length := by
      have : e'.cpus.length = e.cpus.length := congrArg Shape.nC hshape'
      rw [this]; exact hcl
    have hx' : e'.cpus[c]? = some e'.cpus[c] := List.getElem?_eq_getElem hcl'
    have hsrc : e'.src (.run c) = some e'.cpus[c].chThrun := by simp only [Emu.src, hx', Option.map_some]
    have := Bay.chan_of_getElem? (hm1 _ _ hsrc)
    rw [hshape'] at this
    simp only [Shape.freshStep, freshE, this, hx']
  have hcF : e'.flushAll.shape.connect = .ok b0 := by rw [hshF]; exact hc
  have hspecsF : e'.flushAll.specs = e.specs := congrArg Shape.specs hshF
  -- the registered channels before and after
  have hthO : ∀ (g k i : Nat) (t : Thread) (ms : ModelSpec), e.threads[g]? = some t → e.specs[k]? = some ms →
      i < ms.nch → (b.chan (e.shape.thOut g k i)).cur = thView t ms i :=
    fun g k i t ms ht hk hil => emu_thread_rows hc hs hi ht hk hil
  have hcpO : ∀ (c k i : Nat) (x : Cpu) (ms : ModelSpec), e.cpus[c]? = some x → e.specs[k]? = some ms →
      i < ms.nch → (b.chan (e.shape.cpuOut c k i)).cur = cpuViewC (fresh c) e x ms i :=
    fun c k i x ms hx hk hil => emu_cpu_rows_fresh hc hs hi hf hx hk hil
  have hthN : ∀ (g k i : Nat) (t : Thread) (ms : ModelSpec), e'.threads[g]? = some t → e.specs[k]? = some ms →
      i < ms.nch → (bF.chan (e.shape.thOut g k i)).cur = thView t ms i := by
    intro g k i t' ms ht' hk hil
    have htF : e'.flushAll.threads[g]? = some
        { t' with chCpu := t'.chCpu.flush, chTid := t'.chTid.flush, chState := t'.chState.flush,
                  mch := t'.mch.map fun x => (x.1, x.2.map Chan.flush) } := by
      simp only [Emu.flushAll, List.getElem?_map, ht', Option.map_some]
    have := emu_thread_rows hcF hsF hinv htF (hspecsF ▸ hk) hil
    rw [hshF, thView_flush] at this
    exact this
  have hcpN : ∀ (c k i : Nat) (x : Cpu) (ms : ModelSpec), e'.cpus[c]? = some x → e.specs[k]? = some ms →
      i < ms.nch → (bF.chan (e.shape.cpuOut c k i)).cur = cpuViewC (freshE fresh e' c) e' x ms i := by
    intro cg k i x' ms hx' hk hil
    have hxF : e'.flushAll.cpus[cg]? = some
        { x' with chNrun := x'.chNrun.flush, chPid := x'.chPid.flush, chTid := x'.chTid.flush,
                  chThrun := x'.chThrun.flush, chThact := x'.chThact.flush } := by
      simp only [Emu.flushAll, List.getElem?_map, hx', Option.map_some]
    have := emu_cpu_rows_fresh hcF hsF hinv (hshF.symm ▸ hfF) hxF (hspecsF ▸ hk) hil
    rw [hshF, cpuViewC_flushAll] at this
    exact this
  have heq : b.viewRecs e.shape.regs bF = viewRecordsC e e' fresh (freshE fresh e') :=
    viewRecs_eq_viewRecordsC hs' hshape' hthO hthN hcpO hcpN
  have hfreshO : ∀ x' ∈ e'.cpus, fresh x'.gindex = true → ∀ ms ∈ e'.specs, ∀ (i : Nat), i < ms.nch →
      ms.cpuDflt i ≠ .null → cpuView e (e.cpus.getD x'.gindex x') ms i = ms.cpuDflt i := by
    intro x' hx' hfc ms hms i hil hdn
    obtain ⟨cg, hcg⟩ := List.mem_iff_getElem?.mp hx'
    have hgi : x'.gindex = cg := hs'.cpuIdx cg x' hcg
    have hcl : cg < e.cpus.length := by
      have : e'.cpus.length = e.cpus.length := congrArg Shape.nC hshape'
      rw [← this]; exact (List.getElem?_eq_some_iff.mp hcg).1
    have hx : e.cpus[cg]? = some e.cpus[cg] := List.getElem?_eq_getElem hcl
    have hxo : e.cpus.getD x'.gindex x' = e.cpus[cg] := by
      rw [hgi]; simp [List.getD_eq_getElem?_getD, List.getElem?_eq_getElem hcl]
    rw [hspecs'] at hms
    obtain ⟨k, hk⟩ := List.mem_iff_getElem?.mp hms
    rw [hxo]
    exact fresh_cpuView hc hs hi hf hx hk hil (hgi ▸ hfc) hdn
  have hfreshN : ∀ x' ∈ e'.cpus, freshE fresh e' x'.gindex = true → ∀ ms ∈ e'.specs, ∀ (i : Nat), i < ms.nch →
      ms.cpuDflt i ≠ .null → cpuView e' x' ms i = ms.cpuDflt i := by
    intro x' hx' hfc ms hms i hil hdn
    obtain ⟨cg, hcg⟩ := List.mem_iff_getElem?.mp hx'
    have hgi : x'.gindex = cg := hs'.cpuIdx cg x' hcg
    have hxF : e'.flushAll.cpus[cg]? = some
        { x' with chNrun := x'.chNrun.flush, chPid := x'.chPid.flush, chTid := x'.chTid.flush,
                  chThrun := x'.chThrun.flush, chThact := x'.chThact.flush } := by
      simp only [Emu.flushAll, List.getElem?_map, hcg, Option.map_some]
    rw [hspecs'] at hms
    obtain ⟨k, hk⟩ := List.mem_iff_getElem?.mp hms
    have := fresh_cpuView hcF hsF hinv (hshF.symm ▸ hfF) hxF (hspecsF ▸ hk) hil (hgi ▸ hfc) hdn
    rw [cpuView_flushAll] at this
    exact this
  refine ⟨b1, bF, em, hw, hm1, hp, hsF, hshF, hinv, hfF, heq, ?_, ?_⟩
  · intro hd v hv
    exact viewRecordsC_ok hfreshO (hspecs' ▸ hd) hv
  · intro vr hvr
    refine viewRecords_ok_of_C ?_ hfreshO hfreshN hvr
    intro c hfc
    unfold freshE at hfc
    simp only [Bool.and_eq_true] at hfc
    exact hfc.1

/-- **emit_step (any simulated step).**  `e → e'` by channel operations the bay
    can replay (`Sim`: an event's handlers, or the connect-time writes).  From
    `Inv`, `FreshInv` and `EmitInv`:

    * the bay step of `emu_event` (writes `b → b1`, `bay_propagate` to `bF`, `Inv`
      again) and `FreshInv` for `freshE fresh e'`;
    * `bay_propagate` WITH the PRV callbacks (`Bay.propagateP`) fails iff
      `viewRecordsC e e'` fails — the only error is "forbidden value 0";
    * otherwise it ends in the same `bF`; its lines `L` (dirty-list order) are a
      permutation of a list `Lr` (row order of `records`) whose *effective* lines
      — those that change what their row shows — are exactly `viewRecordsC e e'`;
      the other lines of `L` repeat the value their row already shows (first
      emission of a null, `PRV_EMITDUP`, non-null `PRV_SKIPDUPNULL` duplicates);
    * `EmitInv` holds again with the rows updated by `L`;
    * `viewRecordsC e e'` succeeds iff `viewRecords e e'` (the model part of
      `records`) does (⇐ when the mux defaults are legal Paraver values). -/
theorem emit_step {e e' : Emu} {b0 b : Bay} {fresh : Nat → Bool} {lvs : List (Option Value)} {tvs : List Int}
    (hc : e.shape.connect = .ok b0) (hs : Shaped e) (hi : Inv b0 e b) (hf : FreshInv e.shape b fresh)
    (hE : EmitInv e.shape.regs lvs tvs b) (hfl : SpecFlagsOk e.specs) (hsim : Sim e e') :
    ∃ b1 bF em, Bay.Writes (· < e.shape.L) b b1 ∧ Mirrors e' b1 ∧ b1.propagate = .ok (bF, em) ∧
      Shaped e'.flushAll ∧ e'.flushAll.shape = e.shape ∧ Inv b0 e'.flushAll bF ∧
      FreshInv e.shape bF (freshE fresh e') ∧
      ((∃ x, viewRecordsC e e' fresh (freshE fresh e') = .error x) ↔
        (∃ y, b1.propagateP e.shape.regs lvs = .error y)) ∧
      (∀ y, b1.propagateP e.shape.regs lvs = .error y → y = .prvZero) ∧
      (∀ vr, viewRecordsC e e' fresh (freshE fresh e') = .ok vr →
        ∃ lvs' L Lr, b1.propagateP e.shape.regs lvs = .ok (bF, lvs', L) ∧ L.Perm Lr ∧
          vr = (Lr.filter (effective tvs)).map (·.2) ∧ EmitInv e.shape.regs lvs' (tvStep tvs L) bF) ∧
      (CpuDfltOk e.specs → ∀ v, viewRecords e e' = .ok v →
        ∃ vr, viewRecordsC e e' fresh (freshE fresh e') = .ok vr) ∧
      (∀ vr, viewRecordsC e e' fresh (freshE fresh e') = .ok vr → ∃ v, viewRecords e e' = .ok v) := by
  obtain ⟨b1, bF, em, hw, hm1, hp, hsF, hshF, hinv, hfF, heq, h4, h5⟩ := emit_step_frame hc hs hi hf hsim
  obtain ⟨h1, h2, h3⟩ := Bay.emit_step hi.wf hw hp hE (Shape.regs_flags hfl)
  rw [heq] at h1 h3
  exact ⟨b1, bF, em, hw, hm1, hp, hsF, hshF, hinv, hfF, h1, h2, h3, h4, h5⟩

/-- every model channel has a duplicate policy (`PRV_ZERO` allowed) -/
def SpecDupOk (specs : List ModelSpec) : Prop :=
  ∀ m ∈ specs, ∀ i, i < m.nch → DupOk (m.prvFlags.getD i 0)

theorem SpecFlagsOk.dup {specs : List ModelSpec} (h : SpecFlagsOk specs) : SpecDupOk specs :=
  fun m hm i hi => (h m hm i hi).1

theorem regs_dup {σ : Shape} (h : SpecDupOk σ.specs) : ∀ r ∈ σ.regs, DupOk r.flags := by
  intro r hr
  have key : ∀ (f : Nat → Nat → Nat → Nat) (file : Nat) (row : Nat),
      r ∈ (σ.specs.zipIdx.flatMap fun mk => (List.range mk.1.nch).map fun i =>
        ({ chan := f mk.2 i 0, file := file, row := row, type := mk.1.pvtType.getD i 0,
           flags := mk.1.prvFlags.getD i 0 } : PrvReg)) → DupOk r.flags := by
    intro f file row hm
    obtain ⟨mk, hmk, hm⟩ := List.mem_flatMap.mp hm
    obtain ⟨i, hi, rfl⟩ := List.mem_map.mp hm
    have hmem : mk.1 ∈ σ.specs := by
      obtain ⟨m, k⟩ := mk
      exact List.mem_of_getElem? (List.mem_zipIdx_iff_getElem?.mp hmk)
    exact h mk.1 hmem i (List.mem_range.mp hi)
  rcases List.mem_append.mp hr with h1 | h1
  · obtain ⟨g, _, hg⟩ := List.mem_flatMap.mp h1
    exact key (fun k i _ => σ.thOut g k i) 0 (g + 1) hg
  · obtain ⟨c, _, hc⟩ := List.mem_flatMap.mp h1
    exact key (fun k i _ => σ.cpuOut c k i) 1 (c + 1) hc

/-- **emit_step with `PRV_ZERO` model channels allowed.**  As `emit_step`, for
    specs whose channels only need a duplicate policy (`SpecDupOk`): the model
    rows `viewRecordsC` and the lines the PRV callbacks write have the same
    EFFECTIVE lines (`Bay.emit_step_zero`; with `PRV_ZERO` a line with value 0 for
    a channel that goes from null to 0 is written by both sides and repeats what
    the row shows). -/
theorem emit_step_zero_emu {e e' : Emu} {b0 b : Bay} {fresh : Nat → Bool} {lvs : List (Option Value)}
    {tvs : List Int}
    (hc : e.shape.connect = .ok b0) (hs : Shaped e) (hi : Inv b0 e b) (hf : FreshInv e.shape b fresh)
    (hE : EmitInv e.shape.regs lvs tvs b) (hfl : SpecDupOk e.specs) (hsim : Sim e e') :
    ∃ b1 bF em, Bay.Writes (· < e.shape.L) b b1 ∧ Mirrors e' b1 ∧ b1.propagate = .ok (bF, em) ∧
      Shaped e'.flushAll ∧ e'.flushAll.shape = e.shape ∧ Inv b0 e'.flushAll bF ∧
      FreshInv e.shape bF (freshE fresh e') ∧
      ((∃ x, viewRecordsC e e' fresh (freshE fresh e') = .error x) ↔
        (∃ y, b1.propagateP e.shape.regs lvs = .error y)) ∧
      (∀ y, b1.propagateP e.shape.regs lvs = .error y → y = .prvZero) ∧
      (∀ vr, viewRecordsC e e' fresh (freshE fresh e') = .ok vr →
        ∃ lvs' L Lr, b1.propagateP e.shape.regs lvs = .ok (bF, lvs', L) ∧ L.Perm Lr ∧
          vr = (b.viewLinesT e.shape.regs bF).map (·.2) ∧
          (b.viewLinesT e.shape.regs bF).filter (effective tvs) = Lr.filter (effective tvs) ∧
          EmitInv e.shape.regs lvs' (tvStep tvs L) bF) := by
  obtain ⟨b1, bF, em, hw, hm1, hp, hsF, hshF, hinv, hfF, heq, _, _⟩ := emit_step_frame hc hs hi hf hsim
  obtain ⟨h1, h2, h3⟩ := Bay.emit_step_zero hi.wf hw hp hE (regs_dup hfl)
  rw [heq] at h1 h3
  exact ⟨b1, bF, em, hw, hm1, hp, hsF, hshF, hinv, hfF, h1, h2, h3⟩

/-- **emu_event with the emit phase** (`emit_step` for the handlers of one
    accepted event).  `emu_event` gives the values of all rows after the event;
    this adds what `bay_propagate`'s emit callbacks write. -/
theorem emu_event_emit {e e' : Emu} {b0 b : Bay} {ti mc c v : Nat} {p : List Nat}
    {th mh : Emu → Nat → Nat → Nat → List Nat → Except Err Emu} (hth : HookSim th) (hmh : HookSim mh)
    {fresh : Nat → Bool} {lvs : List (Option Value)} {tvs : List Int}
    (hc : e.shape.connect = .ok b0) (hs : Shaped e) (hi : Inv b0 e b) (hf : FreshInv e.shape b fresh)
    (hE : EmitInv e.shape.regs lvs tvs b) (hfl : SpecFlagsOk e.specs)
    (h : modelEvent e ti mc c v p th mh = .ok e') :
    ∃ b1 bF em, Bay.Writes (· < e.shape.L) b b1 ∧ Mirrors e' b1 ∧ b1.propagate = .ok (bF, em) ∧
      Shaped e'.flushAll ∧ e'.flushAll.shape = e.shape ∧ Inv b0 e'.flushAll bF ∧
      FreshInv e.shape bF (freshE fresh e') ∧
      ((∃ x, viewRecordsC e e' fresh (freshE fresh e') = .error x) ↔
        (∃ y, b1.propagateP e.shape.regs lvs = .error y)) ∧
      (∀ y, b1.propagateP e.shape.regs lvs = .error y → y = .prvZero) ∧
      (∀ vr, viewRecordsC e e' fresh (freshE fresh e') = .ok vr →
        ∃ lvs' L Lr, b1.propagateP e.shape.regs lvs = .ok (bF, lvs', L) ∧ L.Perm Lr ∧
          vr = (Lr.filter (effective tvs)).map (·.2) ∧ EmitInv e.shape.regs lvs' (tvStep tvs L) bF) ∧
      (CpuDfltOk e.specs → ∀ v, viewRecords e e' = .ok v →
        ∃ vr, viewRecordsC e e' fresh (freshE fresh e') = .ok vr) ∧
      (∀ vr, viewRecordsC e e' fresh (freshE fresh e') = .ok vr → ∃ v, viewRecords e e' = .ok v) :=
  emit_step hc hs hi hf hE hfl (Sim.modelEvent hth hmh h)

/-- **records vs the emit phase, failure.**  For the handlers of an accepted
    event (`modelEvent = ok e'`): `records e e'` fails — always with "forbidden
    value 0" — exactly when a system row fails (`sysRecords`, emitted from the
    emulator's own channels) or `bay_propagate`'s emit phase fails. -/
theorem emu_event_fail_iff {e e' : Emu} {b0 b : Bay} {ti mc c v : Nat} {p : List Nat}
    {th mh : Emu → Nat → Nat → Nat → List Nat → Except Err Emu} (hth : HookSim th) (hmh : HookSim mh)
    {fresh : Nat → Bool} {lvs : List (Option Value)} {tvs : List Int}
    (hc : e.shape.connect = .ok b0) (hs : Shaped e) (hi : Inv b0 e b) (hf : FreshInv e.shape b fresh)
    (hE : EmitInv e.shape.regs lvs tvs b) (hfl : SpecFlagsOk e.specs) (hd : CpuDfltOk e.specs)
    (h : modelEvent e ti mc c v p th mh = .ok e') :
    ∃ b1, Bay.Writes (· < e.shape.L) b b1 ∧ Mirrors e' b1 ∧
      ((∃ x, records e e' = .error x) ↔
        ((∃ x, sysRecords e' = .error x) ∨ (∃ y, b1.propagateP e.shape.regs lvs = .error y))) ∧
      (∀ x, records e e' = .error x → x = .prvZero) ∧
      (∀ y, b1.propagateP e.shape.regs lvs = .error y → y = .prvZero) := by
  obtain ⟨b1, _, _, hw, hm1, _, _, _, _, _, h1, h2, _, h4, h5⟩ := emu_event_emit hth hmh hc hs hi hf hE hfl h
  refine ⟨b1, hw, hm1, ?_, fun x hx => records_error_prvZero hx, h2⟩
  rw [(records_split e e').2.2, ← h1]
  have : (∃ x, viewRecords e e' = .error x) ↔ (∃ x, viewRecordsC e e' fresh (freshE fresh e') = .error x) := by
    rw [except_error_iff_not_ok, except_error_iff_not_ok]
    constructor
    · rintro hn ⟨vr, hvr⟩; exact hn (h5 vr hvr)
    · rintro hn ⟨v, hv⟩; exact hn (h4 hd v hv)
  rw [this]

/-- **records vs the emit phase, one accepted step** (`stepEv = ok (e2, rs)`:
    handlers, `records`, flush).  The bay step with the PRV callbacks succeeds;
    its lines `L` are a permutation of a list `Lr` in row order; the effective
    lines of `Lr` are `viewRecordsC e e1`; and `rs`, the records of the step, are
    — when no CPU of the hierarchy is fresh any more, e.g. once every CPU has run
    a thread — a permutation of the system-row records followed by those
    effective lines.  (With fresh CPUs the two differ only on their CPU rows
    with a mux default: see `cpuViewC`.) -/
theorem emu_step_records {e e2 : Emu} {b0 b : Bay} {ti mc c v : Nat} {p : List Nat} {rs : List PrvRec}
    {th mh : Emu → Nat → Nat → Nat → List Nat → Except Err Emu} (hth : HookSim th) (hmh : HookSim mh)
    {fresh : Nat → Bool} {lvs : List (Option Value)} {tvs : List Int}
    (hc : e.shape.connect = .ok b0) (hs : Shaped e) (hi : Inv b0 e b) (hf : FreshInv e.shape b fresh)
    (hE : EmitInv e.shape.regs lvs tvs b) (hfl : SpecFlagsOk e.specs) (hd : CpuDfltOk e.specs)
    (h : stepEv e ti mc c v p th mh = .ok (e2, rs)) :
    ∃ e1 b1 bF lvs' L Lr s vr, modelEvent e ti mc c v p th mh = .ok e1 ∧ e2 = e1.flushAll ∧
      Bay.Writes (· < e.shape.L) b b1 ∧ b1.propagateP e.shape.regs lvs = .ok (bF, lvs', L) ∧
      Inv b0 e2 bF ∧ FreshInv e.shape bF (freshE fresh e1) ∧ EmitInv e.shape.regs lvs' (tvStep tvs L) bF ∧
      sysRecords e1 = .ok s ∧ viewRecordsC e e1 fresh (freshE fresh e1) = .ok vr ∧
      L.Perm Lr ∧ vr = (Lr.filter (effective tvs)).map (·.2) ∧
      ((∀ cg, cg < e.cpus.length → fresh cg = false) → rs.Perm (s ++ vr)) := by
  obtain ⟨e1, hme, hrec, rfl⟩ := stepEv_ok h
  obtain ⟨s, v, hsys, hv, hperm⟩ := (records_split e e1).1 _ hrec
  obtain ⟨b1, bF, _, hw, _, _, _, _, hinv, hfF, _, _, h3, h4, _⟩ := emu_event_emit hth hmh hc hs hi hf hE hfl hme
  obtain ⟨vr, hvr⟩ := h4 hd v hv
  obtain ⟨lvs', L, Lr, hpp, hLr, hvrL, hE'⟩ := h3 vr hvr
  refine ⟨e1, b1, bF, lvs', L, Lr, s, vr, hme, rfl, hw, hpp, hinv, hfF, hE', hsys, hvr, hLr, hvrL, ?_⟩
  intro hnf
  obtain ⟨hs1, hsh1, _⟩ := (Sim.modelEvent hth hmh hme) hs
  have hlen : e1.cpus.length = e.cpus.length := congrArg Shape.nC hsh1
  have : viewRecordsC e e1 fresh (freshE fresh e1) = viewRecords e e1 := by
    apply viewRecordsC_of_settled hs1
    · intro cg hcg; exact hnf cg (hlen ▸ hcg)
    · intro cg hcg; unfold freshE; rw [hnf cg (hlen ▸ hcg)]; rfl
  rw [this, hv] at hvr
  injection hvr with hvr
  rw [← hvr]; exact hperm

/-- **emu_init with the emit phase.**  `emu_connect` for `mkEmu …`: connect,
    the PRV registrations (`Shape.regs`, no `last_value` set, every row shows
    0), the connect-time `chan_set`s, and the first `bay_propagate` — with the
    PRV callbacks: it does not fail when the connect-time values are legal
    Paraver values (`InitPrvOk`), and establishes `Inv`, `FreshInv` (every CPU
    fresh) and `EmitInv`. -/
theorem emu_init_emit (threads : List (Int × Int × Nat)) (cpus : List (Nat × Int × Bool)) (enabled : List Nat)
    (lint : Bool) (extra : List ModelSpec) {b0 : Bay}
    (hc : (mkEmu threads cpus enabled lint extra).shape.connect = .ok b0)
    (hnt : 0 < threads.length)
    (hchars : ((allSpecs.filter (fun s => enabled.contains s.char) ++ extra).map (·.char)).Nodup)
    (hinit : InitSingle (allSpecs.filter (fun s => enabled.contains s.char) ++ extra))
    (hfl : SpecFlagsOk (allSpecs.filter (fun s => enabled.contains s.char) ++ extra))
    (hiv : InitPrvOk (allSpecs.filter (fun s => enabled.contains s.char) ++ extra)) :
    Shaped (mkEmu threads cpus enabled lint extra) ∧
    ∃ b1 bI lvs tvs L, Bay.Writes (· < (mkEmu threads cpus enabled lint extra).shape.L) b0 b1 ∧
      b1.propagateP (mkEmu threads cpus enabled lint extra).shape.regs
        (List.replicate (mkEmu threads cpus enabled lint extra).shape.regs.length none) = .ok (bI, lvs, L) ∧
      Inv b0 (mkEmu threads cpus enabled lint extra) bI ∧
      FreshInv (mkEmu threads cpus enabled lint extra).shape bI (fun _ => true) ∧
      EmitInv (mkEmu threads cpus enabled lint extra).shape.regs lvs tvs bI := by
  have hshape : (mkEmuWith ModelSpec.protoChans threads cpus enabled lint extra).shape =
      (mkEmu threads cpus enabled lint extra).shape := by
    rw [mkEmu_eq, mkEmuWith_shape, mkEmuWith_shape]
  rw [← hshape] at hc ⊢
  obtain ⟨hs0, hi0⟩ := Inv.pre_init threads cpus enabled lint extra hc hnt hchars
  have hb := Shape.connect_built hc
  obtain ⟨b1, bF, em, hw, _, _, hsF, _, hinv, hfF, _, _, h3, _, _⟩ :=
    emit_step hc hs0 hi0 (FreshInv.connected hc rfl) (EmitInv.ofNull _ hb.topo.allNull) hfl
      (sim_init threads cpus enabled lint extra hinit)
  have hfr : freshE (fun _ => true) (mkEmuWith ModelSpec.dirtyChans threads cpus enabled lint extra) =
      fun _ => true := by
    funext c
    unfold freshE
    cases hx : (mkEmuWith ModelSpec.dirtyChans threads cpus enabled lint extra).cpus[c]? with
    | none => rfl
    | some x => simp only [mkEmuWith_cpu hx]; rfl
  rw [hfr] at h3 hfF
  obtain ⟨vr, hvr⟩ := init_rows_ok threads cpus enabled lint extra
    (mkEmuWith ModelSpec.protoChans threads cpus enabled lint extra) (fun _ => true) hiv hchars
  obtain ⟨lvs', L, _, hpp, _, _, hE⟩ := h3 vr hvr
  rw [mkEmuWith_flushAll] at hsF hinv
  exact ⟨hsF, b1, bF, lvs', _, L, hw, hpp, hinv, hfF, hE⟩

/-- The bay side of a history, with the PRV callbacks: per event, the writes
    of the handlers, then `bay_propagate` including its emit phase, which
    succeeded and wrote the lines `L`. -/
inductive RoundsP (regs : List PrvReg) (ok : Nat → Prop) :
    Bay × List (Option Value) → List (List (Nat × PrvRec)) → Bay × List (Option Value) → Prop
  | nil (s : Bay × List (Option Value)) : RoundsP regs ok s [] s
  | cons {b b1 b2 : Bay} {lvs lvs' : List (Option Value)} {L : List (Nat × PrvRec)}
      {rest : List (List (Nat × PrvRec))} {sF : Bay × List (Option Value)} :
      Bay.Writes ok b b1 → b1.propagateP regs lvs = .ok (b2, lvs', L) → RoundsP regs ok (b2, lvs') rest sF →
      RoundsP regs ok (b, lvs) (L :: rest) sF

/-- **emu_history with the emit phase.**  For ANY list of events accepted by the
    reference emulator (`replay`: handlers, `records`, flush), the bay reached by
    replaying the handlers' writes and running `bay_propagate` WITH the PRV
    callbacks after each event exists: the emit phase never fails on an accepted
    history (`records` already refused every forbidden 0), and `Inv`, `FreshInv`
    and `EmitInv` hold at the end — so `emu_event_emit` applies at every
    instant: event by event the effective lines are `viewRecordsC`. -/
theorem emu_history_emit {th mh : Emu → Nat → Nat → Nat → List Nat → Except Err Emu} (hth : HookSim th)
    (hmh : HookSim mh) (evs : List Ev) : ∀ {e eF : Emu} {b0 b : Bay} {rs : List PrvRec} {fresh : Nat → Bool}
      {lvs : List (Option Value)} {tvs : List Int},
    e.shape.connect = .ok b0 → Shaped e → Inv b0 e b → FreshInv e.shape b fresh →
    EmitInv e.shape.regs lvs tvs b → SpecFlagsOk e.specs → CpuDfltOk e.specs →
    replay th mh e evs = .ok (eF, rs) →
    ∃ bF lvsF freshF Ls, RoundsP e.shape.regs (· < e.shape.L) (b, lvs) Ls (bF, lvsF) ∧ Ls.length = evs.length ∧
      Shaped eF ∧ eF.shape = e.shape ∧ Inv b0 eF bF ∧ FreshInv e.shape bF freshF ∧
      EmitInv e.shape.regs lvsF (Ls.foldl tvStep tvs) bF := by
  induction evs with
  | nil =>
    intro e eF b0 b rs fresh lvs tvs hc hs hi hf hE _ _ h
    injection h with h; injection h with h1 _
    subst h1
    exact ⟨b, lvs, fresh, [], .nil _, rfl, hs, rfl, hi, hf, hE⟩
  | cons ev evs ih =>
    intro e eF b0 b rs fresh lvs tvs hc hs hi hf hE hfl hd h
    rw [replay] at h
    split at h
    · cases h
    · rename_i e2 rs1 hstep
      split at h
      · cases h
      · rename_i eF' rs2 hrest
        injection h with h; injection h with h1 _
        subst h1
        obtain ⟨e1, hme, hrec, rfl⟩ := stepEv_ok hstep
        obtain ⟨_, v, _, hv, _⟩ := (records_split e e1).1 _ hrec
        obtain ⟨b1, b2, em, hw, _, _, hs1, hsh1, hi1, hf1, _, _, h3, h4, _⟩ :=
          emu_event_emit hth hmh hc hs hi hf hE hfl hme
        obtain ⟨vr, hvr⟩ := h4 hd v hv
        obtain ⟨lvs', L, _, hpp, _, _, hE1⟩ := h3 vr hvr
        have hspecs1 : e1.flushAll.specs = e.specs := congrArg Shape.specs hsh1
        obtain ⟨bF, lvsF, freshF, Ls, hr, hlen, hsF, hshF, hiF, hfF, hEF⟩ :=
          ih (hsh1.symm ▸ hc) hs1 hi1 (hsh1.symm ▸ hf1) (hsh1.symm ▸ hE1) (hspecs1.symm ▸ hfl)
            (hspecs1.symm ▸ hd) hrest
        rw [hsh1] at hr hfF hEF
        exact ⟨bF, lvsF, freshF, L :: Ls, .cons hw hpp hr, by simp [hlen], hsF, hshF.trans hsh1, hiF, hfF, hEF⟩

/-- **emu_run with the emit phase**: from `emu_connect` on. -/
theorem emu_run_emit {th mh : Emu → Nat → Nat → Nat → List Nat → Except Err Emu} (hth : HookSim th)
    (hmh : HookSim mh) (threads : List (Int × Int × Nat)) (cpus : List (Nat × Int × Bool))
    (enabled : List Nat) (lint : Bool) (extra : List ModelSpec) {b0 : Bay} (evs : List Ev) {eF : Emu}
    {rs : List PrvRec}
    (hc : (mkEmu threads cpus enabled lint extra).shape.connect = .ok b0)
    (hnt : 0 < threads.length)
    (hchars : ((allSpecs.filter (fun s => enabled.contains s.char) ++ extra).map (·.char)).Nodup)
    (hinit : InitSingle (allSpecs.filter (fun s => enabled.contains s.char) ++ extra))
    (hfl : SpecFlagsOk (allSpecs.filter (fun s => enabled.contains s.char) ++ extra))
    (hiv : InitPrvOk (allSpecs.filter (fun s => enabled.contains s.char) ++ extra))
    (hd : CpuDfltOk (allSpecs.filter (fun s => enabled.contains s.char) ++ extra))
    (h : replay th mh (mkEmu threads cpus enabled lint extra) evs = .ok (eF, rs)) :
    ∃ b1 bI lvsI L0 bF lvsF tvsF freshF Ls,
      Bay.Writes (· < (mkEmu threads cpus enabled lint extra).shape.L) b0 b1 ∧
      b1.propagateP (mkEmu threads cpus enabled lint extra).shape.regs
        (List.replicate (mkEmu threads cpus enabled lint extra).shape.regs.length none) = .ok (bI, lvsI, L0) ∧
      RoundsP (mkEmu threads cpus enabled lint extra).shape.regs
        (· < (mkEmu threads cpus enabled lint extra).shape.L) (bI, lvsI) Ls (bF, lvsF) ∧
      Ls.length = evs.length ∧ Shaped eF ∧ Inv b0 eF bF ∧
      FreshInv (mkEmu threads cpus enabled lint extra).shape bF freshF ∧
      EmitInv (mkEmu threads cpus enabled lint extra).shape.regs lvsF tvsF bF := by
  obtain ⟨hs, b1, bI, lvsI, tvsI, L0, hw, hpp, hi, hf, hE⟩ :=
    emu_init_emit threads cpus enabled lint extra hc hnt hchars hinit hfl hiv
  obtain ⟨bF, lvsF, freshF, Ls, hr, hlen, hsF, _, hiF, hfF, hEF⟩ :=
    emu_history_emit hth hmh evs hc hs hi hf hE hfl hd h
  exact ⟨b1, bI, lvsI, L0, bF, lvsF, _, freshF, Ls, hw, hpp, hr, hlen, hsF, hiF, hfF, hEF⟩

/-! ### The generated specs satisfy the side conditions of the emit theorems -/

/-- Every channel of every model has a duplicate policy (`PRV_EMITDUP`,
    `PRV_SKIPDUP` or `PRV_SKIPDUPNULL`: a duplicate is never an error) and no
    `PRV_ZERO`. -/
theorem generated_prv_flags :
    ∀ s ∈ allSpecs, ∀ i ∈ List.range s.nch, DupOk (s.prvFlags.getD i 0) ∧ NoZero (s.prvFlags.getD i 0) := by
  decide

/-- The connect-time values and the CPU mux defaults are legal Paraver values. -/
theorem generated_prv_values :
    ∀ s ∈ allSpecs, ∀ i ∈ List.range s.nch,
      prvOkB (s.prvFlags.getD i 0) ((s.freshChans.getD i {}).cur) = true ∧
      prvOkB (s.prvFlags.getD i 0) (s.cpuDflt i) = true := by
  decide

/-- The side conditions of `emu_init_emit` / `emu_history_emit` hold for the
    generated specs of any enabled set of models plus any mark table. -/
theorem driver_emit_conditions (enabled : List Nat) (tab : List MarkType) :
    let specs := allSpecs.filter (fun s => enabled.contains s.char) ++ markExtra tab
    SpecFlagsOk specs ∧ InitPrvOk specs ∧ CpuDfltOk specs := by
  intro specs
  have hmem : ∀ m ∈ specs, m ∈ allSpecs ∨ (m = markSpec tab) := by
    intro m hm
    rcases List.mem_append.mp hm with h | h
    · exact Or.inl (List.mem_filter.mp h).1
    · right
      unfold markExtra at h
      split at h
      · cases h
      · simpa using h
  have hmark : ∀ i, i < (markSpec tab).nch → (markSpec tab).prvFlags.getD i 0 = prvSkipDupNull := by
    intro i hi
    have hi' : i < tab.length := hi
    simp [markSpec, List.getD_eq_getElem?_getD, List.getElem?_map, List.getElem?_eq_getElem hi']
  have hmd : ∀ i, (markSpec tab).cpuDflt i = .null := by intro i; rfl
  have hmf : ∀ i, ((markSpec tab).freshChans.getD i {}).cur = .null := by
    intro i
    simp only [ModelSpec.freshChans, markSpec, List.find?_nil, List.getD_eq_getElem?_getD, List.getElem?_map]
    cases (List.range tab.length)[i]? <;> rfl
  refine ⟨?_, ?_, ?_⟩
  · intro m hm i hi
    rcases hmem m hm with h | rfl
    · exact generated_prv_flags m h i (List.mem_range.mpr hi)
    · rw [hmark i hi]; decide
  · intro m hm i hi
    rcases hmem m hm with h | rfl
    · exact prvOkB_ok (generated_prv_values m h i (List.mem_range.mpr hi)).1
    · rw [hmf]; exact ⟨0, rfl⟩
  · intro m hm i hi
    rcases hmem m hm with h | rfl
    · exact prvOkB_ok (generated_prv_values m h i (List.mem_range.mpr hi)).2
    · rw [hmd]; exact ⟨0, rfl⟩

/-- **emu_run with the emit phase, for the emulator as it is run**
    (`Drivers/Emu.lean`: any hierarchy with at least one thread, any enabled
    models, any mark table; hooks `noHook`, `markEvent`).  No other hypothesis:
    `emu_connect`'s first `bay_propagate` and the one after every accepted event
    succeed INCLUDING their PRV callbacks, and `Inv`, `FreshInv`, `EmitInv` hold
    at the end. -/
theorem emu_run_emit_driver (threads : List (Int × Int × Nat)) (cpus : List (Nat × Int × Bool))
    (enabled : List Nat) (lint : Bool) (tab : List MarkType) (evs : List Ev) {eF : Emu} {rs : List PrvRec}
    (hnt : 0 < threads.length)
    (h : replay (fun _ _ _ _ _ => .error .unknownEvent) (fun e ti _ v p => markEvent tab e ti v p)
      (mkEmu threads cpus enabled lint (markExtra tab)) evs = .ok (eF, rs)) :
    ∃ b0 b1 bI lvsI L0 bF lvsF tvsF freshF Ls,
      (mkEmu threads cpus enabled lint (markExtra tab)).shape.connect = .ok b0 ∧
      Bay.Writes (· < (mkEmu threads cpus enabled lint (markExtra tab)).shape.L) b0 b1 ∧
      b1.propagateP (mkEmu threads cpus enabled lint (markExtra tab)).shape.regs
        (List.replicate (mkEmu threads cpus enabled lint (markExtra tab)).shape.regs.length none) =
          .ok (bI, lvsI, L0) ∧
      RoundsP (mkEmu threads cpus enabled lint (markExtra tab)).shape.regs
        (· < (mkEmu threads cpus enabled lint (markExtra tab)).shape.L) (bI, lvsI) Ls (bF, lvsF) ∧
      Ls.length = evs.length ∧ Shaped eF ∧ Inv b0 eF bF ∧
      FreshInv (mkEmu threads cpus enabled lint (markExtra tab)).shape bF freshF ∧
      EmitInv (mkEmu threads cpus enabled lint (markExtra tab)).shape.regs lvsF tvsF bF := by
  obtain ⟨hmo, hchars, hinit⟩ := driver_side_conditions enabled tab
  obtain ⟨hfl, hiv, hd⟩ := driver_emit_conditions enabled tab
  have hc := bayOf_connects (e := mkEmu threads cpus enabled lint (markExtra tab)) hmo
  obtain ⟨b1, bI, lvsI, L0, bF, lvsF, tvsF, freshF, Ls, h1, h2, h3, h4, h5, h6, h7, h8⟩ :=
    emu_run_emit hookSim_none (hookSim_mark tab) threads cpus enabled lint (markExtra tab) evs hc hnt hchars
      hinit hfl hiv hd h
  exact ⟨_, b1, bI, lvsI, L0, bF, lvsF, tvsF, freshF, Ls, hc, h1, h2, h3, h4, h5, h6, h7, h8⟩

/-! ### The task layer of nOS-V / Nanos6: no hook hypothesis

`Emu/TaskHook.lean`: `taskHook m P ε ev` = the task / body rules of
`Emu/Task.lean` (`Ovni.Task.Emu.step`, state `ε` of the thread's process, decoded
event `ev`) followed by the channel operations `update_task` performs on the
thread's raw channels, in the order of the C code: subsystem push / pop, then
`chan_set` of body id, task id, type, app id, rank (Nanos6: task id, type,
rank).  `modelEvent` passes a hook the category but not the event value, and
`Emu` has no field for the task state, so the hook is built per event. -/

/-- The task hook satisfies the hook hypothesis: it performs nothing but channel
    operations on raw channels of the event's thread (`taskHook_simP`: only its
    task channels). -/
theorem hooks_in_use_task (m : Ovni.Task.Model) (P : Ovni.Task.ProcInfo) (ε : Ovni.Task.Emu)
    (ev : Ovni.Task.Ev) : HookSim (taskHook m P ε ev) :=
  hookSim_task m P ε ev

/-- **emu_event for the models as they run**, task events included: task hook
    and mark hook as in nOS-V / Nanos6 / ovni — no hook hypothesis. -/
theorem emu_event_task {e e' : Emu} {b0 b : Bay} {ti mc c v : Nat} {p : List Nat}
    (tm : Ovni.Task.Model) (P : Ovni.Task.ProcInfo) (ε : Ovni.Task.Emu) (tev : Ovni.Task.Ev) (tab : List MarkType)
    (hc : e.shape.connect = .ok b0) (hs : Shaped e) (hi : Inv b0 e b)
    (h : modelEvent e ti mc c v p (taskHook tm P ε tev) (fun e ti _ v p => markEvent tab e ti v p) = .ok e') :
    ∃ b1 bF em, Bay.Writes (· < e.shape.L) b b1 ∧ Mirrors e' b1 ∧ b1.propagate = .ok (bF, em) ∧
      Shaped e'.flushAll ∧ e'.flushAll.shape = e.shape ∧ Inv b0 e'.flushAll bF ∧
      (∀ (g k i : Nat) (t' : Thread) (ms : ModelSpec), e'.threads[g]? = some t' →
        e.specs[k]? = some ms → i < ms.nch →
        (bF.chan (e.shape.thOut g k i)).cur = thView t' ms i) ∧
      (∀ (cg k i : Nat) (x' : Cpu) (ms : ModelSpec), e'.cpus[cg]? = some x' →
        e.specs[k]? = some ms → i < ms.nch →
        (bF.chan (e.shape.cpuOut cg k i)).cur = cpuView e' x' ms i ∨
        (x'.chThrun.cur = .null ∧ (bF.chan (e.shape.cpuOut cg k i)).cur = .null ∧ ms.cpuDflt i ≠ .null)) :=
  emu_event (hookSim_task tm P ε tev) (hookSim_mark tab) hc hs hi h

/-- One event of a history with the task layer: the raw event and, for a task
    event, its decoded form (`none`: not a task event; the hook is then `noHook`). -/
abbrev EvT := Ev × Option Ovni.Task.Ev

/-- the task hook of an event (`noHook` when it is not a task event) -/
def hookOf (tm : Ovni.Task.Model) (P : Ovni.Task.ProcInfo) (ε : Ovni.Task.Emu) :
    Option Ovni.Task.Ev → Emu → Nat → Nat → Nat → List Nat → Except Err Emu
  | some x => taskHook tm P ε x
  | none => fun _ _ _ _ _ => .error .unknownEvent

/-- the task state after an event -/
def advanceT (tm : Ovni.Task.Model) (P : Ovni.Task.ProcInfo) (ε : Ovni.Task.Emu) : Option Ovni.Task.Ev → Ovni.Task.Emu
  | some x => (match Ovni.Task.Emu.step tm P ε x with | .ok ε' => ε' | .error _ => ε)
  | none => ε

theorem hookSim_hookOf (tm : Ovni.Task.Model) (P : Ovni.Task.ProcInfo) (ε : Ovni.Task.Emu)
    (tev : Option Ovni.Task.Ev) : HookSim (hookOf tm P ε tev) := by
  cases tev with
  | some x => exact hookSim_task tm P ε x
  | none => exact hookSim_none

/-- The reference emulator with the task layer of one process (model `tm`,
    process info `P`) on a list of events: per event `stepEv` with the task hook
    built from the current task state, which is then advanced by
    `Ovni.Task.Emu.step`. -/
def replayT (tm : Ovni.Task.Model) (P : Ovni.Task.ProcInfo) (tab : List MarkType) :
    Emu → Ovni.Task.Emu → List EvT → Except Err (Emu × Ovni.Task.Emu × List PrvRec)
  | e, ε, [] => .ok (e, ε, [])
  | e, ε, evt :: evs =>
    match stepEv e evt.1.1 evt.1.2.1 evt.1.2.2.1 evt.1.2.2.2.1 evt.1.2.2.2.2 (hookOf tm P ε evt.2)
        (fun e ti _ v p => markEvent tab e ti v p) with
    | .error x => .error x
    | .ok (e1, rs) =>
      match replayT tm P tab e1 (advanceT tm P ε evt.2) evs with
      | .error x => .error x
      | .ok (eF, εF, rs') => .ok (eF, εF, rs ++ rs')

/-- **emu_history with the task layer and the emit phase**: for ANY history
    accepted by the reference emulator running the task hook (nOS-V or Nanos6
    task events included) and the mark hook, the bay run with the PRV callbacks
    exists, and `Inv`, `FreshInv`, `EmitInv` hold at the end.  No hook
    hypothesis. -/
theorem emu_history_task (tm : Ovni.Task.Model) (P : Ovni.Task.ProcInfo) (tab : List MarkType) (evs : List EvT) :
    ∀ {e eF : Emu} {ε εF : Ovni.Task.Emu} {b0 b : Bay} {rs : List PrvRec} {fresh : Nat → Bool}
      {lvs : List (Option Value)} {tvs : List Int},
    e.shape.connect = .ok b0 → Shaped e → Inv b0 e b → FreshInv e.shape b fresh →
    EmitInv e.shape.regs lvs tvs b → SpecFlagsOk e.specs → CpuDfltOk e.specs →
    replayT tm P tab e ε evs = .ok (eF, εF, rs) →
    ∃ bF lvsF freshF Ls, RoundsP e.shape.regs (· < e.shape.L) (b, lvs) Ls (bF, lvsF) ∧ Ls.length = evs.length ∧
      Shaped eF ∧ eF.shape = e.shape ∧ Inv b0 eF bF ∧ FreshInv e.shape bF freshF ∧
      EmitInv e.shape.regs lvsF (Ls.foldl tvStep tvs) bF := by
  induction evs with
  | nil =>
    intro e eF ε εF b0 b rs fresh lvs tvs hc hs hi hf hE _ _ h
    injection h with h; injection h with h1 _
    subst h1
    exact ⟨b, lvs, fresh, [], .nil _, rfl, hs, rfl, hi, hf, hE⟩
  | cons ev evs ih =>
    intro e eF ε εF b0 b rs fresh lvs tvs hc hs hi hf hE hfl hd h
    rw [replayT] at h
    split at h
    · cases h
    · rename_i e2 rs1 hstep
      split at h
      · cases h
      · rename_i eF' εF' rs2 hrest
        injection h with h; injection h with h1 _
        subst h1
        obtain ⟨e1, hme, hrec, rfl⟩ := stepEv_ok hstep
        obtain ⟨_, v, _, hv, _⟩ := (records_split e e1).1 _ hrec
        obtain ⟨b1, b2, em, hw, _, _, hs1, hsh1, hi1, hf1, _, _, h3, h4, _⟩ :=
          emu_event_emit (hookSim_hookOf tm P ε ev.2) (hookSim_mark tab) hc hs hi hf hE hfl hme
        obtain ⟨vr, hvr⟩ := h4 hd v hv
        obtain ⟨lvs', L, _, hpp, _, _, hE1⟩ := h3 vr hvr
        have hspecs1 : e1.flushAll.specs = e.specs := congrArg Shape.specs hsh1
        obtain ⟨bF, lvsF, freshF, Ls, hr, hlen, hsF, hshF, hiF, hfF, hEF⟩ :=
          ih (hsh1.symm ▸ hc) hs1 hi1 (hsh1.symm ▸ hf1) (hsh1.symm ▸ hE1) (hspecs1.symm ▸ hfl)
            (hspecs1.symm ▸ hd) hrest
        rw [hsh1] at hr hfF hEF
        exact ⟨bF, lvsF, freshF, L :: Ls, .cons hw hpp hr, by simp [hlen], hsF, hshF.trans hsh1, hiF, hfF, hEF⟩

/-! ### The task layer's copy of the task channels IS the thread's channels

`taskHook` runs the task / body rules of `Emu/Task.lean` on the task layer's own
copy of the task channels (`Ovni.Task.Emu.ch`, `.ss`) and then performs the
channel operations on the thread's real channels.  `Coupled tm k e ε`
(`Lemmas/TaskCouple.lean`): for every thread the real subsystem channel of the
model (position `k` in the spec list) holds exactly the stack `ε.ss`, and the
real body id / task id / type / app id / rank channels hold `ε.ch` — flushed,
with the stack / duplicate properties of `setup.c`.  It holds after
`emu_connect` (`coupled_init`) and is preserved by EVERY accepted event
(`coupled_step`): by the task hook, by the table rows of the same model that
push / pop the SHARED subsystem channel (`VA* VS* VU* VM* VH*`, `6*`: then the
copy is advanced by the same push / pop, accepted by `ssPush` / `ssPop` exactly
when `chan_push` / `chan_pop` accept it), by the rows on other channels (idle,
thread type), by the events of every other model, and by the thread-state /
affinity / flush / mark events, which write no raw channel of the model. -/

theorem hookOf_eq (tm : Ovni.Task.Model) (P : Ovni.Task.ProcInfo) (ε : Ovni.Task.Emu)
    (tev : Option Ovni.Task.Ev) : hookOf tm P ε tev = hookOpt tm P ε tev := by cases tev <;> rfl

theorem advanceT_eq (tm : Ovni.Task.Model) (P : Ovni.Task.ProcInfo) (ε : Ovni.Task.Emu)
    (tev : Option Ovni.Task.Ev) : advanceT tm P ε tev = advanceOpt tm P ε tev := by cases tev <;> rfl

/-- The decoded event of a history entry fits its raw event (`DecodedOk`): a
    task event (category `T` / `Y` of nOS-V / Nanos6) belongs to the model `tm`;
    any other event carries the subsystem push / pop its table row is
    (`ssEvOf`: read off the generated table), or nothing. -/
def Consistent (tm : Ovni.Task.Model) (evt : EvT) : Prop :=
  DecodedOk tm evt.1.1 evt.1.2.1 evt.1.2.2.1 evt.1.2.2.2.1 evt.2

instance (tm : Ovni.Task.Model) (evt : EvT) : Decidable (Consistent tm evt) := by
  unfold Consistent DecodedOk; infer_instance

/-- **One accepted step preserves the coupling.** -/
theorem coupled_step {tm : Ovni.Task.Model} {P : Ovni.Task.ProcInfo} {tab : List MarkType} {ε : Ovni.Task.Emu}
    {e e2 : Emu} {b : Bay} {k : Nat} {evt : EvT} {rs : List PrvRec}
    (hs : Shaped e) (hm : Mirrors e b) (hk : e.specs[k]? = some (specOf tm)) (hcp : Coupled tm k e ε)
    (hd : Consistent tm evt)
    (h : stepEv e evt.1.1 evt.1.2.1 evt.1.2.2.1 evt.1.2.2.2.1 evt.1.2.2.2.2 (hookOf tm P ε evt.2)
      (fun e ti _ v p => markEvent tab e ti v p) = .ok (e2, rs)) :
    Coupled tm k e2 (advanceT tm P ε evt.2) := by
  obtain ⟨e1, hme, _, rfl⟩ := stepEv_ok h
  rw [hookOf_eq] at hme
  rw [advanceT_eq]
  exact coupled_modelEvent hs hm hk hcp hd hme

/-- **The coupling along a history.**  For every history accepted by the
    reference emulator running the task hook (`replayT`) whose decoded events fit
    the raw ones, from a coupled state: the task layer's copy agrees with the
    thread channels at the end (hence, prefix by prefix, at every instant). -/
theorem coupled_history (tm : Ovni.Task.Model) (P : Ovni.Task.ProcInfo) (tab : List MarkType) (evs : List EvT) :
    ∀ {e eF : Emu} {ε εF : Ovni.Task.Emu} {b0 b : Bay} {rs : List PrvRec} {k : Nat},
    e.shape.connect = .ok b0 → Shaped e → Inv b0 e b → e.specs[k]? = some (specOf tm) → Coupled tm k e ε →
    (∀ evt ∈ evs, Consistent tm evt) → replayT tm P tab e ε evs = .ok (eF, εF, rs) → Coupled tm k eF εF := by
  induction evs with
  | nil =>
    intro e eF ε εF b0 b rs k _ _ _ _ hcp _ h
    injection h with h; injection h with h1 h2; injection h2 with h2 _
    subst h1; subst h2
    exact hcp
  | cons ev evs ih =>
    intro e eF ε εF b0 b rs k hc hs hi hk hcp hcons h
    rw [replayT] at h
    split at h
    · cases h
    · rename_i e2 rs1 hstep
      split at h
      · cases h
      · rename_i eF' εF' rs2 hrest
        injection h with h; injection h with h1 h2; injection h2 with h2 _
        subst h1; subst h2
        have hcp1 := coupled_step hs hi.mirrors hk hcp (hcons ev (by simp)) hstep
        obtain ⟨e1, hme, _, rfl⟩ := stepEv_ok hstep
        obtain ⟨_, b2, _, _, _, _, hs1, hsh1, hi1, _⟩ :=
          emu_event (hookSim_hookOf tm P ε ev.2) (hookSim_mark tab) hc hs hi hme
        have hspecs1 : e1.flushAll.specs = e.specs := congrArg Shape.specs hsh1
        exact ih (hsh1.symm ▸ hc) hs1 hi1 (hspecs1.symm ▸ hk) hcp1 (fun evt h => hcons evt (by simp [h])) hrest

/-- **What the coupling means for the checks of the task layer**: in a coupled
    state, every check `Ovni.Task.Emu.step` makes on its copy has the verdict of
    the C channel operation on the thread's REAL channel: `ssPush` ↔ `chan_push`,
    `ssPop` ↔ `chan_pop` on the subsystem channel, whose `chan_read` value
    (`enforce_task_rules`) is the top of the copy; `chanSet` ↔ `chan_set` on the
    body id / task id / type / app id / rank channels. -/
theorem coupled_verdicts {tm : Ovni.Task.Model} {k : Nat} {e : Emu} {ε : Ovni.Task.Emu} (hcp : Coupled tm k e ε)
    {ti : Nat} (hti : ti < e.threads.length) :
    (∃ c, e.src (.raw ti k (taskIdx tm).ss) = some c ∧ c.cur = ofOpt (ε.ss ti).head? ∧
      (∀ v, (∃ c', c.push e.maxStack (.int v) = .ok c') ↔ (∃ st', Ovni.Task.ssPush tm.cfg.dupSs (ε.ss ti) v = .ok st')) ∧
      (∀ v, (∃ c', c.pop (.int v) = .ok c') ↔ (∃ st', Ovni.Task.ssPop (ε.ss ti) v = .ok st'))) ∧
    (∀ f ∈ taskFields tm, ∃ c, e.src (.raw ti k f.1) = some c ∧ c.cur = ofOpt (f.2.2 (ε.ch ti)) ∧
      ∀ v, (∃ c', c.set (ofOpt v) = .ok c') ↔ (∃ w, Ovni.Task.chanSet f.2.1 (f.2.2 (ε.ch ti)) v = .ok w)) := by
  constructor
  · obtain ⟨c, h1, h2⟩ := hcp.ss ti hti
    exact ⟨c, h1, h2.cur_eq, fun v => by rw [hcp.maxStack]; exact h2.push_iff v, fun v => h2.pop_iff v⟩
  · intro f hf
    obtain ⟨c, h1, h2⟩ := hcp.single ti hti f hf
    exact ⟨c, h1, h2.cur, fun v => h2.set_iff v⟩

/-- **In a coupled state the task hook accepts exactly what the task layer
    accepts.**  For an event of the hook's thread: `taskHook` succeeds iff
    `Ovni.Task.Emu.step` does (and the event is a task-state or creation event of
    that thread) — no `chan_push` / `chan_pop` / `chan_set` on the thread's real
    channels refuses what the copy accepted.  So along a history (`coupled_history`)
    the verdict of the reference emulator on a task event IS the verdict of the
    task layer (`Emu/Task.lean`, the model C07's check drives through `drv_task`). -/
theorem task_hook_accepts_iff {tm : Ovni.Task.Model} {P : Ovni.Task.ProcInfo} {ε : Ovni.Task.Emu}
    {ev : Ovni.Task.Ev} {e : Emu} {ti a k : Nat} {p : List Nat} (hs : Shaped e)
    (hk : e.specs[k]? = some (specOf tm)) (hcp : Coupled tm k e ε) (hti : ti < e.threads.length) :
    (∃ e1, hookOf tm P ε (some ev) e ti (specOf tm).char a p = .ok e1) ↔
      ((∃ ε', Ovni.Task.Emu.step tm P ε ev = .ok ε') ∧
        ((∃ t v bp, ev = .task ti v t bp) ∨ (∃ ty h f, ev = .typeCreate ty h f) ∨
          (∃ par t ty, ev = .taskCreate par t ty))) :=
  taskHook_accepts_iff (a := a) (p := p) hs hk hcp hti

/-- **emu_history with the task layer, no separate-state caveat.**  For ANY
    history accepted by the reference emulator running the task hook and the mark
    hook, whose decoded events fit the raw ones, from a coupled state: the bay run
    with the PRV callbacks exists, `Inv`, `FreshInv`, `EmitInv` hold at the end —
    and the state the task rules ran on is the state of the thread's real
    channels (`Coupled` at the end and at every prefix; `coupled_verdicts`). -/
theorem emu_history_task_coupled (tm : Ovni.Task.Model) (P : Ovni.Task.ProcInfo) (tab : List MarkType)
    (evs : List EvT) {e eF : Emu} {ε εF : Ovni.Task.Emu} {b0 b : Bay} {rs : List PrvRec} {fresh : Nat → Bool}
    {lvs : List (Option Value)} {tvs : List Int} {k : Nat}
    (hc : e.shape.connect = .ok b0) (hs : Shaped e) (hi : Inv b0 e b) (hf : FreshInv e.shape b fresh)
    (hE : EmitInv e.shape.regs lvs tvs b) (hfl : SpecFlagsOk e.specs) (hd : CpuDfltOk e.specs)
    (hk : e.specs[k]? = some (specOf tm)) (hcp : Coupled tm k e ε) (hcons : ∀ evt ∈ evs, Consistent tm evt)
    (h : replayT tm P tab e ε evs = .ok (eF, εF, rs)) :
    ∃ bF lvsF freshF Ls, RoundsP e.shape.regs (· < e.shape.L) (b, lvs) Ls (bF, lvsF) ∧ Ls.length = evs.length ∧
      Shaped eF ∧ eF.shape = e.shape ∧ Inv b0 eF bF ∧ FreshInv e.shape bF freshF ∧
      EmitInv e.shape.regs lvsF (Ls.foldl tvStep tvs) bF ∧ Coupled tm k eF εF := by
  obtain ⟨bF, lvsF, freshF, Ls, h1, h2, h3, h4, h5, h6, h7⟩ :=
    emu_history_task tm P tab evs hc hs hi hf hE hfl hd h
  exact ⟨bF, lvsF, freshF, Ls, h1, h2, h3, h4, h5, h6, h7, coupled_history tm P tab evs hc hs hi hk hcp hcons h⟩

/-- **From `emu_connect`, for the emulator with the task layer** (any hierarchy
    with at least one thread, any enabled models among which the task model at
    position `k`, any mark table): every history accepted by `replayT` from the
    initial states of both layers, whose decoded events fit the raw ones, has its
    bay run with the PRV callbacks, and the task layer's copy agrees with the
    thread channels at the end.  No hook hypothesis, no coupling hypothesis. -/
theorem emu_run_task_driver (tm : Ovni.Task.Model) (P : Ovni.Task.ProcInfo) (threads : List (Int × Int × Nat))
    (cpus : List (Nat × Int × Bool)) (enabled : List Nat) (lint : Bool) (tab : List MarkType) (evs : List EvT)
    {eF : Emu} {εF : Ovni.Task.Emu} {rs : List PrvRec} {k : Nat} (hnt : 0 < threads.length)
    (hk : (mkEmu threads cpus enabled lint (markExtra tab)).specs[k]? = some (specOf tm))
    (hcons : ∀ evt ∈ evs, Consistent tm evt)
    (h : replayT tm P tab (mkEmu threads cpus enabled lint (markExtra tab)) Ovni.Task.Emu.init evs = .ok (eF, εF, rs)) :
    ∃ b0 bI lvsI bF lvsF tvsF freshF Ls,
      (mkEmu threads cpus enabled lint (markExtra tab)).shape.connect = .ok b0 ∧
      Inv b0 (mkEmu threads cpus enabled lint (markExtra tab)) bI ∧
      RoundsP (mkEmu threads cpus enabled lint (markExtra tab)).shape.regs
        (· < (mkEmu threads cpus enabled lint (markExtra tab)).shape.L) (bI, lvsI) Ls (bF, lvsF) ∧
      Ls.length = evs.length ∧ Shaped eF ∧ Inv b0 eF bF ∧
      FreshInv (mkEmu threads cpus enabled lint (markExtra tab)).shape bF freshF ∧
      EmitInv (mkEmu threads cpus enabled lint (markExtra tab)).shape.regs lvsF tvsF bF ∧
      Coupled tm k eF εF := by
  obtain ⟨hmo, hchars, hinit⟩ := driver_side_conditions enabled tab
  obtain ⟨hfl, hiv, hd⟩ := driver_emit_conditions enabled tab
  have hc := bayOf_connects (e := mkEmu threads cpus enabled lint (markExtra tab)) hmo
  obtain ⟨hs, _, bI, lvsI, tvsI, _, _, _, hi, hf, hE⟩ :=
    emu_init_emit threads cpus enabled lint (markExtra tab) hc hnt hchars hinit hfl hiv
  obtain ⟨bF, lvsF, freshF, Ls, h1, h2, h3, _, h5, h6, h7, h8⟩ :=
    emu_history_task_coupled tm P tab evs hc hs hi hf hE hfl hd hk
      (coupled_init tm threads cpus enabled lint (markExtra tab) hk) hcons h
  exact ⟨_, bI, lvsI, bF, lvsF, _, freshF, Ls, hc, hi, h1, h2, h3, h5, h6, h7, h8⟩

/-! ### The system rows

The thread's `cpu` / `tid` / state channels and the CPU's `pid` / `tid` /
`nrunning` channels are registered with prv by `thread_connect` /
`cpu_connect`; the reference emulator keeps them in its `Thread` / `Cpu` records
(`Emu/Core.lean`), and their emit callback is `emitOne` on the record's channel
(`sysEmit`, `Emu/Emit.lean`).  `SysInv e tl cl`: the `last_value`s `tl` / `cl`
(a triple per thread / CPU) are consistent with the flushed system channels of
`e`.  `HookSys`: a hook leaves the system channels alone (true of the hooks in
use: `hookSys_none`, `hookSys_mark`, `hookSys_task`). -/

/-- **The system rows of one event.**  For the handlers of an accepted event
    the emit callbacks of the system channels fail iff `sysRecords e'` fails and
    otherwise write EXACTLY `sysRecords e'` — no redundant line: a system channel
    is dirty only with a value different from the last one emitted, so `emit`
    never meets a duplicate there (its "duplicated value" error cannot occur,
    although `cpu`, `tid`, `pid`, `nrunning` have no duplicate policy).  `SysInv`
    holds again after the flush. -/
theorem emu_event_sys {e e' : Emu} {ti mc c v : Nat} {p : List Nat}
    {th mh : Emu → Nat → Nat → Nat → List Nat → Except Err Emu} (hth : HookSys th) (hmh : HookSys mh)
    {tl cl : List Lv3} (hs : Shaped e) (hi : SysInv e tl cl)
    (h : modelEvent e ti mc c v p th mh = .ok e') :
    sysEmit e' tl cl =
      (match sysRecords e' with
      | .error x => .error x
      | .ok s => .ok (newRows newT e'.threads tl, newRows newC e'.cpus cl, s)) ∧
    SysInv e'.flushAll (newRows newT e'.threads tl) (newRows newC e'.cpus cl) :=
  sysEmit_eq hi (SysS.modelEvent hth hmh h hs)

/-- Right after `emu_connect` no system channel has been emitted. -/
theorem sysInv_init (threads : List (Int × Int × Nat)) (cpus : List (Nat × Int × Bool)) (enabled : List Nat)
    (lint : Bool) (extra : List ModelSpec) : SysInv (mkEmu threads cpus enabled lint extra) [] [] := by
  have hg : ∀ (ign : Bool), Good ({ ignoreDup := ign } : Chan) none :=
    fun ign => ⟨⟨rfl, rfl, rfl, fun h => by cases h⟩, rfl, rfl, Or.inl rfl⟩
  constructor
  · intro g t ht
    simp only [mkEmu, List.getElem?_mapIdx] at ht
    cases hx : threads[g]? with
    | none => rw [hx] at ht; cases ht
    | some x =>
      obtain ⟨tid, pid, loom⟩ := x
      rw [hx] at ht
      simp only [Option.map_some, Option.some.injEq] at ht
      subst ht
      exact ⟨hg false, hg true, hg false⟩
  · intro g x hx
    simp only [mkEmu, List.getElem?_mapIdx] at hx
    cases hy : cpus[g]? with
    | none => rw [hy] at hx; cases hx
    | some y =>
      obtain ⟨loom, index, virt⟩ := y
      rw [hy] at hx
      simp only [Option.map_some, Option.some.injEq] at hx
      subst hx
      exact ⟨hg true, hg true, hg true⟩

/-- **The system rows along a history.**  For every accepted history the
    system-channel callbacks never fail, and `SysInv` holds at the end (so
    `emu_event_sys` applies at every instant). -/
theorem emu_history_sys {th mh : Emu → Nat → Nat → Nat → List Nat → Except Err Emu} (hth : HookSys th)
    (hmh : HookSys mh) (hths : HookSim th) (hmhs : HookSim mh) (evs : List Ev) :
    ∀ {e eF : Emu} {rs : List PrvRec} {tl cl : List Lv3},
    Shaped e → SysInv e tl cl → replay th mh e evs = .ok (eF, rs) → ∃ tlF clF, SysInv eF tlF clF := by
  induction evs with
  | nil =>
    intro e eF rs tl cl _ hi h
    injection h with h; injection h with h1 _
    subst h1
    exact ⟨tl, cl, hi⟩
  | cons ev evs ih =>
    intro e eF rs tl cl hs hi h
    rw [replay] at h
    split at h
    · cases h
    · rename_i e2 rs1 hstep
      split at h
      · cases h
      · rename_i eF' rs2 hrest
        injection h with h; injection h with h1 _
        subst h1
        obtain ⟨e1, hme, _, rfl⟩ := stepEv_ok hstep
        obtain ⟨_, hi1⟩ := emu_event_sys hth hmh hs hi hme
        have hs1 : Shaped e1.flushAll := ((Sim.modelEvent hths hmhs hme) hs).1.flushAll
        exact ih hs1 hi1 hrest

/-- **All lines of one accepted step** (`stepEv = ok (e2, rs)`), system rows and
    model rows together.  The emit callbacks of `bay_propagate` — those of the
    system channels (`sysEmit`, lines `s`) and those of the track outputs
    (`Bay.propagateP`, lines `L`) — all succeed; `s` is exactly `sysRecords`; `L`
    is a permutation of a list `Lr` whose effective lines are `viewRecordsC`; and
    when no CPU is fresh, `rs`, the records of the step, are a permutation of `s`
    followed by the effective lines of `Lr`: **`records` = the lines written,
    minus the lines that repeat what their row already shows**. -/
theorem emu_step_lines {e e2 : Emu} {b0 b : Bay} {ti mc c v : Nat} {p : List Nat} {rs : List PrvRec}
    {th mh : Emu → Nat → Nat → Nat → List Nat → Except Err Emu} (hth : HookSim th) (hmh : HookSim mh)
    (hths : HookSys th) (hmhs : HookSys mh)
    {fresh : Nat → Bool} {lvs : List (Option Value)} {tvs : List Int} {tl cl : List Lv3}
    (hc : e.shape.connect = .ok b0) (hs : Shaped e) (hi : Inv b0 e b) (hf : FreshInv e.shape b fresh)
    (hE : EmitInv e.shape.regs lvs tvs b) (hS : SysInv e tl cl) (hfl : SpecFlagsOk e.specs)
    (hd : CpuDfltOk e.specs) (h : stepEv e ti mc c v p th mh = .ok (e2, rs)) :
    ∃ e1 b1 bF lvs' L Lr s tl' cl', modelEvent e ti mc c v p th mh = .ok e1 ∧ e2 = e1.flushAll ∧
      Bay.Writes (· < e.shape.L) b b1 ∧
      sysEmit e1 tl cl = .ok (tl', cl', s) ∧ sysRecords e1 = .ok s ∧
      b1.propagateP e.shape.regs lvs = .ok (bF, lvs', L) ∧ L.Perm Lr ∧
      viewRecordsC e e1 fresh (freshE fresh e1) = .ok ((Lr.filter (effective tvs)).map (·.2)) ∧
      Inv b0 e2 bF ∧ FreshInv e.shape bF (freshE fresh e1) ∧ EmitInv e.shape.regs lvs' (tvStep tvs L) bF ∧
      SysInv e2 tl' cl' ∧
      ((∀ cg, cg < e.cpus.length → fresh cg = false) →
        rs.Perm (s ++ (Lr.filter (effective tvs)).map (·.2))) := by
  obtain ⟨e1, b1, bF, lvs', L, Lr, s, vr, hme, rfl, hw, hpp, hinv, hfF, hE', hsys, hvr, hLr, hvrL, hperm⟩ :=
    emu_step_records hth hmh hc hs hi hf hE hfl hd h
  obtain ⟨hse, hS'⟩ := emu_event_sys hths hmhs hs hS hme
  rw [hsys] at hse
  exact ⟨e1, b1, bF, lvs', L, Lr, s, _, _, hme, rfl, hw, hse, hsys, hpp, hLr, hvrL ▸ hvr, hinv, hfF, hE', hS',
    fun hnf => hvrL ▸ hperm hnf⟩

/-
-- OPEN (what is left of the last composition step).
--
-- Proved now (this section + Lemmas/CoreBay*.lean): the simulation from the handlers of
-- `Emu/Core` to bay writes (`Sim.modelEvent`, a structural induction over `modelEvent`:
-- thread.c / cpu.c operations, `withChan`, the table-driven models, the ovni thread,
-- affinity and flush events, the kernel model's out-of-CPU flag), hence `emu_event` — the
-- statement that used to be here — for EVERY accepted event, `emu_init` for `mkEmu`, and
-- `emu_history` / `emu_run` for every accepted history.  The mirror is no longer a
-- hypothesis: `Inv` is established by `emu_connect` and preserved by every event, and
-- `emu_thread_rows` / `emu_cpu_rows` read the rows off it.  The simulation is refined by
-- source class (`SimP`): thread / affinity events write only thread-state and
-- `th_running` / `th_active` channels, model events only raw channels; C20 uses this for
-- the order in which the CPU track outputs enter the dirty list
-- (`C20.dirty_level_ordered_sys`).
--
-- Proved since (section "The emit phase", `Emu/Emit.lean`, `Lemmas/Emit*.lean`,
-- `Lemmas/CoreBayFresh.lean`): former item (1), `View.records` vs what the emit callbacks
-- write, and former item (2), the one place where row values differ.
--   * `Emu/Emit.lean` transcribes `prv_register` / `cb_prv` / `emit` (duplicate rules with
--     `last_value`, `PRV_EMITDUP`, `PRV_SKIPDUP`, `PRV_SKIPDUPNULL`, `PRV_NEXT`, `PRV_ZERO`) and
--     the second loop of `bay_propagate` (`Bay.propagateP`); `Shape.regs` is the table
--     `model_pvt_connect_thread` / `_cpu` register (every track output / ANY raw channel).
--   * The LITERAL statement "`records e e'` is a permutation of the lines `emit` writes" is
--     FALSE for the code as it is (`decide` examples at the end of the file): an output is
--     on the dirty list whenever its mux was re-selected, also with an unchanged value; with
--     `PRV_EMITDUP` (Nanos6 task type / rank, OpenMP) and `PRV_SKIPDUPNULL` (all nOS-V
--     channels, the marks) a non-null duplicate IS written again, and the first emission of
--     any channel is written even when the value is null (line `…:0`).  `emitView` emits only
--     on change.  The true relation, proved for every accepted event (`emit_step`,
--     `emu_event_emit`, `emu_step_records`) and lifted to histories (`emu_history_emit`,
--     `emu_run_emit`, `emu_run_emit_driver`): the lines written are a permutation of a list
--     whose EFFECTIVE lines — those that change what their Paraver row shows — are exactly
--     the model rows of `records`; every other line repeats the value its row already
--     shows (invisible in a timeline; the e2e comparison X2 canonicalises them away).  The
--     emit phase fails iff the model rows of `records` fail (`emu_event_fail_iff`), always
--     with "forbidden value 0" (the duplicate error of `emit` cannot occur: every generated
--     channel has a duplicate policy, `generated_prv_flags`).
--   * Former (2): a CPU track with a mux default on a CPU whose `th_running` was never
--     written shows null where `cpuView` shows the default.  Now exact: `cpuViewC fresh`
--     (`emu_cpu_rows_fresh`, ghost `fresh` with invariant `FreshInv`); the model rows with
--     `cpuViewC` are `viewRecordsC`, equal to `viewRecords` as soon as no CPU is fresh
--     (`viewRecordsC_of_settled`).  Consequence for lines: when a fresh CPU gets its first
--     thread and the new value equals the default, `emit` writes the default (the row showed
--     0), `records` writes nothing (`cpuView` showed the default from the start) — the
--     `strip_base` canonicalisation of X2.
--
-- Still open:
--  (1) In `emu_step_records` the equation `rs ~ sysRecords ++ effective lines` is stated for
--      states without fresh CPUs; with fresh CPUs the right-hand side is `viewRecordsC`
--      (exact), which differs from `viewRecords` on the CPU rows with a mux default only.
--  (2) `PRV_ZERO` channels: the BAY-side theorem now covers them (`emit_step_zero` =
--      `Bay.emit_step_zero`, `Lemmas/EmitZero.lean`: any registrations with a duplicate
--      policy, value 0 allowed; the effective lines of `emitView` and of `emit` coincide;
--      `emit_step_zero_noZero` recovers the old statement; `decide` examples with a
--      `PRV_SKIPDUP | PRV_ZERO` registration — the flags of the breakdown outputs — where the
--      OLD conclusion is false); so does the emulator-level step (`emit_step_zero_emu`:
--      `emit_step` for specs with `SpecDupOk` only, on `Shape.regs`).  Still restricted to
--      `NoZero`: the per-event / history forms `emu_event_emit` / `emu_history_emit` /
--      `emu_step_records` (`SpecFlagsOk`; every generated spec satisfies it —
--      `generated_prv_flags` — so nothing the reference emulator registers is excluded).  The
--      breakdown outputs themselves are not channels of `bayOf` (6), so `emit_step_zero` is
--      not instantiated for them here.
--  (3) The system channels (thread `cpu` / `tid` / `state` row, CPU `nrunning` / `pid` /
--      `tid`) are not part of the `Bay` model / `Shape.regs`: the reference emulator keeps
--      them in its `Thread` / `Cpu` records and their emit callback is modelled on those
--      records (`sysEmit`).  Proved for them (`emu_event_sys`, `emu_history_sys`,
--      `emu_step_lines`): the callbacks write exactly `sysRecords` (a dirty system channel
--      never holds its `last_value` again — `SysOk`, structural induction over the handlers
--      `SysS.modelEvent` — so the duplicate error of `emit` cannot occur).  Not modelled:
--      that these channels sit on the same dirty list as the bay's (only the order of the
--      lines within one timestamp depends on it), and the state channel / `th_running` /
--      `th_active` exist twice (record and bay source, tied by `Mirrors`).
--  (4) The task layer of nOS-V / Nanos6 (`VT*`, `VY*`, `6T*`, `6Y*`): `HookSim` is PROVED for
--      the task hook (`hooks_in_use_task`, `emu_event_task`, `emu_history_task`), and the
--      coupling between the task layer's own copy of the task channels and the thread's real
--      channels is now PROVED too (section "The task layer's copy …", `Lemmas/TaskCouple*.lean`):
--      `Coupled` holds after `emu_connect` (`coupled_init`) and is preserved by every accepted
--      event (`coupled_step`, `coupled_history`): task hook, table rows of the same model on
--      the shared subsystem channel, other rows, other models, thread-state / affinity /
--      flush / mark events; in a coupled state each check of `Ovni.Task.Emu.step` on the copy
--      has the verdict of the C channel operation on the real channel (`coupled_verdicts`);
--      `emu_history_task_coupled` / `emu_run_task_driver` are `emu_history_task` without the
--      separate-state caveat.  What stays open there:
--      (a) `replayT` carries ONE task state: one task model `tm` and one process (`ProcInfo`)
--          for all threads; `Consistent` therefore asks that every task event of the history
--          belongs to `tm`.  Several processes / both task models at once need a family of
--          task states indexed by (model, process) and `Coupled` restricted to the threads
--          of the process — not done.
--      (b) `modelEvent` does not pass the event value to the hook and `Emu` has no task
--          state: the hook is a per-event closure, and the decoding of the payloads of task
--          events into `Ovni.Task.Ev` (ids, the uthash Jenkins hash of the type label) is
--          the caller's; for NON-task events the decoded event is no longer free: it must be
--          `ssEvOf` (computed from the generated table), which `Consistent` checks.
--      (c) The hook still evaluates the rules on the copy and then writes the channels
--          (`taskHook`).  Proved: in a coupled state it accepts exactly what
--          `Ovni.Task.Emu.step` accepts (`task_hook_accepts_iff`: the real channel operations
--          never refuse what the copy accepted), so the copy is redundant for the verdict.  A
--          hook WITHOUT the `ch` / `ss` fields (rules evaluated on the real channels only) is
--          not defined.
--      (d) The driver (`Drivers/Emu.lean`) still runs `noHook`: its line protocol carries
--          neither app id / rank of the process nor the label hash, and the e2e generator of
--          C04–C08 emits no task events; C07's check drives the task layer through
--          `drv_task` against `ovniemu` (X2 of C07).
--  (5) `emu_init` / `emu_run` keep three side conditions on the spec list (accepted
--      tracking modes so that `Shape.connect` succeeds — `bayOf_connects`; distinct model
--      characters; connect-time values on single channels) and "at least one thread".
--      `driver_side_conditions` discharges the first three for every enabled set and
--      every mark table (`emu_run_driver`); a hierarchy without threads accepts no event.
--  (6) Outside the frame condition as before: muxes whose select is one of their own
--      inputs, and chained muxes (breakdown model) — X1 only.
-/

/-! ### Non-vacuity: a concrete thread + CPU network

Channels: 0 = thread state, 1 = the CPU's `th_running`, 2 = a raw stack
channel of the thread, 3 = thread track output (RUN), 4 = CPU track output.
Event: the thread starts running on the CPU and pushes a value in the SAME
event (state, raw channel and `th_running` written in that order, so the dirty
list is `[0, 2, 1]`). -/

private def unwrap {α} (d : α) : Except Err α → α
  | .ok a => a
  | .error _ => d

def exB0 : Bay :=
  let b := (({} : Bay).register {}).1
  let b := (b.register {}).1
  let b := (b.register { isStack := true }).1
  let b := (b.register {}).1
  (b.register {}).1
def exB1 : Bay := (unwrap (exB0, 0) (exB0.muxInit 0 3 .thRunning 1)).1
def exB2 : Bay := unwrap exB1 (exB1.muxSetInput 0 0 2)
def exB3 : Bay := (unwrap (exB2, 0) (exB2.muxInit 1 4 .byIndex 1)).1
def exB4 : Bay := unwrap exB3 (exB3.muxSetInput 1 0 2)
def exB : Bay := unwrap exB4 (exB4.muxSetDefault 1 (.int 9))
def exW1 : Bay := unwrap exB (exB.chanSet 0 (.int 1))
def exW2 : Bay := unwrap exW1 (exW1.chanPush 2 (.int 7))
def exW3 : Bay := unwrap exW2 (exW2.chanSet 1 (.int 0))
def exF : Bay × List (Nat × Value) := unwrap (exW3, []) exW3.propagate

def exThreadMux : Mux := { sel := 0, out := 3, kind := .thRunning, inputs := [some 2] }
def exCpuMux : Mux := { sel := 1, out := 4, kind := .byIndex, inputs := [some 2], dflt := .int 9 }

theorem exB_wf : exB.WF := by
  have w0 : exB0.WF :=
    ((((Bay.WF.empty.register _ rfl).register _ rfl).register _ rfl).register _ rfl).register _ rfl
  have h1 : exB0.muxInit 0 3 .thRunning 1 = .ok (exB1, 0) := by rfl
  have h2 : exB1.muxSetInput 0 0 2 = .ok exB2 := by rfl
  have h3 : exB2.muxInit 1 4 .byIndex 1 = .ok (exB3, 1) := by rfl
  have h4 : exB3.muxSetInput 1 0 2 = .ok exB4 := by rfl
  have h5 : exB4.muxSetDefault 1 (.int 9) = .ok exB := by rfl
  have w1 := (w0.muxInit h1).1
  have s2 : ∀ m, exB1.muxes[0]? = some m → 2 ≠ m.sel := by
    intro m hm
    have e : exB1.muxes[0]? = some { sel := 0, out := 3, kind := .thRunning, inputs := [none] } := by rfl
    rw [e] at hm; cases hm; decide
  have w2 := (w1.muxSetInput h2 s2).1
  have w3 := (w2.muxInit h3).1
  have s4 : ∀ m, exB3.muxes[1]? = some m → 2 ≠ m.sel := by
    intro m hm
    have e : exB3.muxes[1]? = some { sel := 1, out := 4, kind := .byIndex, inputs := [none] } := by rfl
    rw [e] at hm; cases hm; decide
  have w4 := (w3.muxSetInput h4 s4).1
  exact (w4.muxSetDefault h5).1

theorem exB_muxes : exB.muxes = [exThreadMux, exCpuMux] := by rfl

theorem exB_frame (mi : Nat) (m : Mux) (hm : exB.muxes[mi]? = some m) : exB.Frame mi m := by
  apply layered_frame (L := 3) _ mi m hm
  intro mj m' h
  rw [exB_muxes] at h
  match mj, h with
  | 0, h => simp at h; subst h; exact ⟨rfl, by decide, by intro i c hi; match i, hi with
    | 0, hi => simp [exThreadMux] at hi; omega
    | _ + 1, hi => simp [exThreadMux] at hi⟩
  | 1, h => simp at h; subst h; exact ⟨rfl, by decide, by intro i c hi; match i, hi with
    | 0, hi => simp [exCpuMux] at hi; omega
    | _ + 1, hi => simp [exCpuMux] at hi⟩
  | _ + 2, h => simp at h

theorem exB_noInputCbs : exB.NoInputCbs := by
  intro c mj i h
  have : exB.cbs = [[.muxSelect 0], [.muxSelect 1], [], [], []] := by rfl
  simp only [Bay.cbsOf, this] at h
  match c, h with
  | 0, h => simp at h
  | 1, h => simp at h
  | 2, h => simp at h
  | 3, h => simp at h
  | 4, h => simp at h
  | _ + 5, h => simp at h

/-- The thread track (default null) starts in sync; the CPU track has a
    non-null default, so it is in sync only after `th_running`'s first change —
    which this event provides. -/
theorem exB_thread_sync : exB.MuxSync false 0 exThreadMux :=
  Bay.MuxSync.ofFresh exB_noInputCbs (by rfl) (by rfl)

theorem ex_writes : Bay.Writes (fun c => c ≠ 3 ∧ c ≠ 4) exB exW3 :=
  have h1 : Bay.Writes (fun c => c ≠ 3 ∧ c ≠ 4) exB exW1 :=
    .snoc (b1 := exB) (b2 := exW1) (c := 0) (f := fun x => x.set (.int 1)) (.nil _) (by decide)
      (chanOp_set _) (by rfl)
  have h2 : Bay.Writes (fun c => c ≠ 3 ∧ c ≠ 4) exB exW2 :=
    .snoc (b1 := exW1) (b2 := exW2) (c := 2) (f := fun x => Chan.push exW1.maxStack x (.int 7)) h1
      (by decide) (chanOp_push _ _) (by rfl)
  .snoc (b1 := exW2) (b2 := exW3) (c := 1) (f := fun x => x.set (.int 0)) h2 (by decide)
    (chanOp_set _) (by rfl)

theorem ex_propagate : exW3.propagate = .ok exF := by rfl

/-- The state before propagation is `Safe`, so `propagate_total` applies. -/
example : exW3.Safe := by
  have hmx : exW3.muxes = [exThreadMux, exCpuMux] := by rfl
  have two : ∀ (P : Nat → Mux → Prop), P 0 exThreadMux → P 1 exCpuMux →
      ∀ (mi : Nat) (m : Mux), exW3.muxes[mi]? = some m → P mi m := by
    intro P h0 h1 mi m h
    rw [hmx] at h
    match mi, h with
    | 0, h => simp at h; subst h; exact h0
    | 1, h => simp at h; subst h; exact h1
    | _ + 2, h => simp at h
  constructor
  · intro mi m i h
    revert i
    refine two (fun _ m => ∀ i, i < m.inputs.length → ∃ c, m.inputs[i]? = some (some c)) ?_ ?_ mi m h
    · intro i hi; have : i = 0 := by simp [exThreadMux] at hi; omega
      subst this; exact ⟨2, rfl⟩
    · intro i hi; have : i = 0 := by simp [exCpuMux] at hi; omega
      subst this; exact ⟨2, rfl⟩
  · intro mi m j h
    refine two (fun mi m => exW3.selOf mi = some j → j < m.inputs.length) ?_ ?_ mi m h
    · intro hs; have : exW3.selOf 0 = some 0 := by rfl
      rw [this] at hs; cases hs; decide
    · intro hs; have : exW3.selOf 1 = some 0 := by rfl
      rw [this] at hs; cases hs; decide
  · intro mi m h
    exact two (fun _ m => (exW3.chan m.out).isStack = false ∧ (exW3.chan m.out).dirtyWrite = true)
      ⟨by rfl, by rfl⟩ ⟨by rfl, by rfl⟩ mi m h
  · intro mi m h
    exact two (fun _ m => ∃ s, m.selectInput (exW3.chan m.sel).cur = .ok s)
      ⟨some 0, by rfl⟩ ⟨some 0, by rfl⟩ mi m h
  · intro mi m mj m' h h'
    revert mj m'
    refine two (fun _ m => ∀ (mj : Nat) (m' : Mux), exW3.muxes[mj]? = some m' → m'.out ≠ m.sel) ?_ ?_ mi m h
    · intro mj m' h'; exact two (fun _ m' => m'.out ≠ exThreadMux.sel) (by decide) (by decide) mj m' h'
    · intro mj m' h'; exact two (fun _ m' => m'.out ≠ exCpuMux.sel) (by decide) (by decide) mj m' h'

/-- The dirty list really has the select channels and the shared input,
    input between the two selects. -/
example : exW3.dirty = [0, 2, 1] := by rfl

/-- `mux_round_event` applies to the thread track: all hypotheses hold. -/
example : exF.1.MuxSync false 0 exThreadMux :=
  (mux_round_event exB_wf (by rfl) (exB_frame 0 _ (by rfl)) exB_thread_sync
    (ex_writes.mono (fun _ h => h.1))
    ex_propagate).2.2.2.1

/-- `mux_round` applies to the CPU track (select dirty, never synced before):
    afterwards `out = spec`, and `selected = f(select)`. -/
example : ∃ s, exCpuMux.selectInput (exF.1.chan 1).cur = .ok s ∧
    (exF.1.chan 4).cur = exF.1.specVal exCpuMux s ∧ exF.1.selOf 1 = s := by
  have wf3 : exW3.WF := (ex_writes.inv exB_wf).1
  have hmx : exW3.muxes = exB.muxes := by rfl
  obtain ⟨_, _, _, s, h1, h2, _, h4⟩ := mux_round (strong := false) wf3 (by rfl : exW3.muxes[1]? = some exCpuMux)
    ((exB_frame 1 _ (by rfl)).congr hmx)
    (by
      have : exW3.cbs = exB.cbs := by rfl
      intro i ⟨c, _, h⟩
      rw [Bay.cbsOf_congr this] at h
      exact absurd h (exB_noInputCbs c 1 i))
    (Or.inl (by rfl)) ex_propagate
  exact ⟨s, h1, h2, h4 (Or.inr (by rfl))⟩

/-- What the rows show after the event: the pushed value on both. -/
example : (exF.1.chan 3).cur = .int 7 ∧ (exF.1.chan 4).cur = .int 7 ∧ exF.1.selOf 0 = some 0 ∧
    exF.1.selOf 1 = some 0 ∧ exF.2 = [] := by decide

/-- `track_thread_view` instance: state RUNNING, mode RUN. -/
example : (exF.1.chan 3).cur = if trackHolds trackRun .running then (exF.1.chan 2).cur else .null := by
  have ht : ThreadTrack exThreadMux trackRun 0 2 := ⟨Or.inl rfl, rfl, rfl, rfl, rfl⟩
  exact track_thread_view ht exB_wf (by rfl) (exB_frame 0 _ (by rfl)) exB_thread_sync
    (ex_writes.mono (fun _ h => h.1))
    ex_propagate .running (Or.inl (by rfl))


/-- `Connected` is inhabited by what the connection functions build: three
    source channels (state, `th_running`, a raw stack channel), one thread track
    (RUN) and one CPU track with a non-null default — 2 muxes sharing the raw
    channel. -/
def exSrc : Bay :=
  let b := (({} : Bay).register {}).1
  let b := (b.register {}).1
  (b.register { isStack := true }).1
def exT1 : Bay × Nat := unwrap (exSrc, 0) (exSrc.trackThread trackRun 0 2)
def exT2 : Bay × Nat := unwrap (exT1.1, 0) (exT1.1.trackCpu 1 [2] (.int 9))

theorem exT2_connected : Connected 3 exT2.1 := by
  have base : Connected 3 exSrc := by
    refine .base (((Bay.WF.empty.register _ rfl).register _ rfl).register _ rfl) rfl ?_ ?_ (by decide)
    · intro c mj i h
      have : exSrc.cbs = [[], [], []] := by rfl
      simp only [Bay.cbsOf, this] at h
      match c, h with
      | 0, h => simp at h
      | 1, h => simp at h
      | 2, h => simp at h
      | _ + 3, h => simp at h
    · intro c
      match c with
      | 0 => rfl
      | 1 => rfl
      | 2 => rfl
      | _ + 3 => rfl
  have h1 : exSrc.trackThread trackRun 0 2 = .ok (exT1.1, exT1.2) := by rfl
  have h2 : exT1.1.trackCpu 1 [2] (.int 9) = .ok (exT2.1, exT2.2) := by rfl
  exact .cpu (.thread base (Or.inl rfl) (by decide) (by decide) (by decide) h1) (by decide)
    (by intro c hc; simp at hc; subst hc; decide) h2

example : exT2.1.muxes.length = 2 ∧ exT2.2 = 4 := by decide


/-! ### Non-vacuity of the emulator-level theorems

Hierarchy: two threads of one process, one physical and the virtual CPU of one
loom, models ovni + nOS-V (8 raw channels per thread: 22 source channels, 32
tracks of which 30 are muxes).  History: thread 0 starts on CPU 0 (`OHx`),
enters a nOS-V subsystem (`VAa`, a push on the stack channel), pauses and
resumes (`OHp`, `OHr`), leaves the subsystem (`VAA`) and ends (`OHe`). -/

def exEmu : Emu := mkEmu [(100, 10, 0), (101, 10, 0)] [(0, 0, false), (0, -1, true)] [79, 86] false []
def exEmuBay : Bay := bayOf exEmu

/-- `Shape.connect` succeeds on the concrete hierarchy. -/
theorem exEmuBay_connect : exEmu.shape.connect = .ok exEmuBay := by rfl

example : exEmu.shape.L = 22 ∧ exEmuBay.chans.length = 54 ∧ exEmuBay.muxes.length = 30 := by decide

def exNoHook : Emu → Nat → Nat → Nat → List Nat → Except Err Emu := fun _ _ _ _ _ => .error .unknownEvent

def exHist : List Ev :=
  [(0, 79, 72, 120, [0, 0, 0, 0]), (0, 86, 65, 97, []), (0, 79, 72, 112, []), (0, 79, 72, 114, []),
   (0, 86, 65, 65, []), (0, 79, 72, 101, [])]

theorem exHist_accepted :
    (match replay exNoHook exNoHook exEmu exHist with | .ok _ => true | .error _ => false) = true := by decide

theorem exEmu_chars :
    ((allSpecs.filter (fun s : ModelSpec => [79, 86].contains s.char) ++ []).map ModelSpec.char).Nodup := by
  decide

theorem exEmu_initSingle : InitSingle (allSpecs.filter (fun s => [79, 86].contains s.char) ++ []) := by
  rw [List.append_nil]; exact initSingle_allSpecs _

/-- All hypotheses of `emu_run` hold for the concrete history, hence its
    conclusion: a bay reachable from the connected one with `Inv`, in which all
    rows are `thView` / `cpuView` of the final state. -/
example : ∃ eF rs bF, replay exNoHook exNoHook exEmu exHist = .ok (eF, rs) ∧
    Rounds (· < exEmu.shape.L) exEmuBay bF ∧ Inv exEmuBay eF bF ∧
    ∀ (g k i : Nat) (t : Thread) (m : ModelSpec), eF.threads[g]? = some t → eF.specs[k]? = some m →
      i < m.nch → (bF.chan (eF.shape.thOut g k i)).cur = thView t m i := by
  cases h : replay exNoHook exNoHook exEmu exHist with
  | error x => have := exHist_accepted; rw [h] at this; cases this
  | ok r =>
    obtain ⟨eF, rs⟩ := r
    obtain ⟨bF, hr, hsF, hshF, hiF⟩ := emu_run hookSim_none hookSim_none _ _ _ _ _ exHist exEmuBay_connect
      (by decide) exEmu_chars exEmu_initSingle h
    have hcF : eF.shape.connect = .ok exEmuBay := by rw [hshF]; exact exEmuBay_connect
    exact ⟨eF, rs, bF, rfl, hr, hiF, fun g k i t m ht hk hi => emu_thread_rows hcF hsF hiF ht hk hi⟩

/-- `emu_event` applies to the first event (`OHx`) from the initial state
    given by `emu_init`. -/
example : ∃ bI e' b1 bF em, Inv exEmuBay exEmu bI ∧
    modelEvent exEmu 0 79 72 120 [0, 0, 0, 0] exNoHook exNoHook = .ok e' ∧
    Bay.Writes (· < exEmu.shape.L) bI b1 ∧ Mirrors e' b1 ∧ b1.propagate = .ok (bF, em) ∧
    Inv exEmuBay e'.flushAll bF := by
  obtain ⟨hs, _, bI, _, _, _, hi⟩ := emu_init _ _ _ _ _ exEmuBay_connect (by decide) exEmu_chars exEmu_initSingle
  cases h : modelEvent exEmu 0 79 72 120 [0, 0, 0, 0] exNoHook exNoHook with
  | error x =>
    have : (match modelEvent exEmu 0 79 72 120 [0, 0, 0, 0] exNoHook exNoHook with
      | .ok _ => true | .error _ => false) = true := by decide
    rw [h] at this; cases this
  | ok e' =>
    obtain ⟨b1, bF, em, hw, hm, hp, _, _, hiF, _⟩ := emu_event hookSim_none hookSim_none exEmuBay_connect hs hi h
    exact ⟨bI, e', b1, bF, em, hi, rfl, hw, hm, hp, hiF⟩

/-- The exception in `emu_cpu_rows` is real.  `emu_connect` computed on the
    concrete hierarchy (connect, the `chan_set` of every thread's idle channel,
    `bay_propagate`): the idle track (nOS-V channel 6) of a CPU that never had a
    thread still shows null, where `cpuView` shows the default "Resting" (101);
    thread 0's raw idle channel holds "Progressing" (100), flushed. -/
def exInitBay : Bay :=
  let b1 := (exEmu.shape.addrs.filter exEmu.shape.hasInit).foldl
    (fun b s => unwrap b (b.write (exEmu.shape.idx s) (exEmu.shape.initOp s))) exEmuBay
  (unwrap (b1, []) b1.propagate).1

example : (exInitBay.chan (exEmu.shape.cpuOut 1 1 6)).cur = .null ∧
    (match exEmu.cpus[1]? with | some x => cpuView exEmu x specNosv 6 | none => .null) = .int 101 ∧
    (exInitBay.chan (exEmu.shape.idx (.raw 0 1 6))).cur = .int 100 ∧ exInitBay.dirty = [] := by decide

/-! ### Non-vacuity of the emit theorems

A thread with one raw stack channel tracked ACT: channels 0 = thread state,
1 = raw channel, 2 = track output, registered as row 1, type 10 with
`PRV_SKIPDUPNULL` (the nOS-V flags).  Event A: the thread starts running and
pushes 7.  Event B: the thread goes to *cooling* — still active, so `cb_select`
re-selects the same input and rewrites the output with the same value 7. -/

def exPSrc : Bay :=
  let b := (({} : Bay).register {}).1
  (b.register { isStack := true }).1
def exP0 : Bay := (unwrap (exPSrc, 0) (exPSrc.trackThread trackAct 0 1)).1
def exPRegs : List PrvReg := [⟨2, 0, 1, 10, prvSkipDupNull⟩]
def exPA1 : Bay := unwrap exP0 ((unwrap exP0 (exP0.chanSet 0 (.int 1))).chanPush 1 (.int 7))
def exPA : Bay × List (Option Value) × List (Nat × PrvRec) :=
  unwrap (exPA1, [], []) (exPA1.propagateP exPRegs [none])
def exPB1 : Bay := unwrap exPA.1 (exPA.1.chanSet 0 (.int 4))
def exPB : Bay × List (Option Value) × List (Nat × PrvRec) :=
  unwrap (exPB1, [], []) (exPB1.propagateP exPRegs exPA.2.1)

/-- Event A: one line, the one `emitView` gives; `last_value` becomes 7. -/
example : exPA1.propagateP exPRegs [none] = .ok exPA ∧ exPA.2.2 = [(0, ⟨0, 1, 10, 7⟩)] ∧
    exPA.2.1 = [some (.int 7)] ∧ exP0.viewRecs exPRegs exPA.1 = .ok [⟨0, 1, 10, 7⟩] :=
  ⟨by rfl, by decide, by decide, by decide⟩

/-- **The literal statement "`records` = the lines written" is false for the
    code as it is.**  Event B: the output is dirty with an unchanged value; with
    `PRV_SKIPDUPNULL` a non-null duplicate is written again, so the emit phase
    writes the line `1:10:7` a second time, while `emitView` (hence `records`)
    gives nothing.  The extra line is not *effective*: it repeats the 7 the row
    already shows — exactly what `Bay.emit_step` / `emit_step` state. -/
example : exPB1.propagateP exPRegs exPA.2.1 = .ok exPB ∧ exPB.2.2 = [(0, ⟨0, 1, 10, 7⟩)] ∧
    exPA.1.viewRecs exPRegs exPB.1 = .ok [] ∧ exPB.2.2.filter (effective [7]) = [] :=
  ⟨by rfl, by decide, by decide, by decide⟩

/-- Same with a thread that starts running with an EMPTY channel: `cb_select`
    writes null to the never-emitted output, `last_value` is not set, so `emit`
    writes the line `1:10:0`; `emitView null null` gives nothing.  Not effective
    either: a row shows 0 before its first line. -/
example :
    let b1 := unwrap exP0 (exP0.chanSet 0 (.int 1))
    (match b1.propagateP exPRegs [none] with
      | .ok (bF, _, L) => decide (L = [(0, ⟨0, 1, 10, 0⟩)] ∧ exP0.viewRecs exPRegs bF = .ok [] ∧
          L.filter (effective [0]) = [])
      | .error _ => false) = true := by decide

/-- The failure case: pushing the value 0 on a channel without `PRV_ZERO`.
    Both sides fail with "forbidden value 0". -/
example :
    let b1 := unwrap exP0 ((unwrap exP0 (exP0.chanSet 0 (.int 1))).chanPush 1 (.int 0))
    (match b1.propagateP exPRegs [none] with
      | .error x => decide (x = .prvZero)
      | .ok _ => false) = true ∧
    (match b1.propagate with
      | .ok (bF, _) => decide (exP0.viewRecs exPRegs bF = .error .prvZero)
      | .error _ => false) = true := by decide

/-- `Bay.emit_step` applies to event B: all its hypotheses hold (`EmitInv`
    after event A comes from `Bay.emit_step` for event A, from the all-null bay). -/
example : ∃ lvs tvs, EmitInv exPRegs lvs tvs exPA.1 := by
  have hfl : ∀ r ∈ exPRegs, DupOk r.flags ∧ NoZero r.flags := by decide
  have wf0 : exP0.WF := by
    have w : exPSrc.WF := (Bay.WF.empty.register _ rfl).register _ rfl
    have h1 : exPSrc.trackThread trackAct 0 1 = .ok (exP0, 2) := by rfl
    obtain ⟨_, b1, mi, h2, h3⟩ := Bay.trackThread_ok (Or.inr rfl) h1
    obtain ⟨w1, hmi, hmx, _⟩ := (w.register {} rfl).muxInit h2
    exact (w1.muxSetInput h3 (by
      intro m hm
      have hmi0 : mi = 0 := hmi
      subst hmi0
      rw [hmx] at hm
      have : (exPSrc.register {}).1.muxes = [] := rfl
      rw [this] at hm
      simp only [List.nil_append, List.getElem?_cons_zero, Option.some.injEq] at hm
      subst hm; decide)).1
  have hnull : exP0.AllNull := by
    intro c
    match c with
    | 0 => rfl
    | 1 => rfl
    | 2 => rfl
    | _ + 3 => rfl
  have hw : Bay.Writes (fun _ => True) exP0 exPA1 :=
    .snoc (b1 := unwrap exP0 (exP0.chanSet 0 (.int 1))) (c := 1)
      (f := fun x => Chan.push (unwrap exP0 (exP0.chanSet 0 (.int 1))).maxStack x (.int 7))
      (.snoc (b1 := exP0) (c := 0) (f := fun x => x.set (.int 1)) (.nil _) trivial (chanOp_set _) (by rfl))
      trivial (chanOp_push _ _) (by rfl)
  have hp : exPA1.propagate = .ok (exPA.1, []) := by rfl
  obtain ⟨_, _, h3⟩ := Bay.emit_step wf0 hw hp (EmitInv.ofNull exPRegs hnull) hfl
  obtain ⟨lvs', L, _, hpp, _, _, hE⟩ := h3 _ (by decide : exP0.viewRecs exPRegs exPA.1 = .ok [⟨0, 1, 10, 7⟩])
  exact ⟨lvs', _, hE⟩

/-- The emulator-level theorems apply to the concrete history `exHist` on
    `exEmu` (ovni + nOS-V, two threads, two CPUs — nOS-V has an idle channel with
    a CPU mux default, so both CPUs start fresh): all hypotheses of
    `emu_run_emit` hold, hence the emit phase succeeds at connect time and after
    each of the six events, and the invariants hold at the end. -/
example : ∃ eF rs bF lvsF tvsF freshF, replay exNoHook exNoHook exEmu exHist = .ok (eF, rs) ∧
    Inv exEmuBay eF bF ∧ FreshInv exEmu.shape bF freshF ∧ EmitInv exEmu.shape.regs lvsF tvsF bF := by
  cases h : replay exNoHook exNoHook exEmu exHist with
  | error x => have := exHist_accepted; rw [h] at this; cases this
  | ok r =>
    obtain ⟨eF, rs⟩ := r
    obtain ⟨hfl, hiv, hd⟩ := driver_emit_conditions [79, 86] []
    obtain ⟨_, _, _, _, bF, lvsF, tvsF, freshF, _, _, _, _, _, _, hiF, hfF, hEF⟩ :=
      emu_run_emit hookSim_none hookSim_none _ _ _ _ _ exHist exEmuBay_connect (by decide) exEmu_chars
        exEmu_initSingle hfl hiv hd h
    exact ⟨eF, rs, bF, lvsF, tvsF, freshF, rfl, hiF, hfF, hEF⟩

example : exEmu.shape.regs.length = 32 ∧ (exEmu.shape.regs.map (·.chan)).Nodup := by decide

/-- `prv_register` accepts the whole table: the (file, row, type) keys are
    distinct, the flags pass `check_flags`, the channels exist. -/
example : (exEmu.shape.regs.foldl (fun (acc : Except Err (List PrvReg)) r => match acc with
      | Except.ok rs => prvRegister exEmuBay rs r
      | Except.error x => Except.error x) (Except.ok [])) = Except.ok exEmu.shape.regs := by decide

/-! ### Non-vacuity of the task-layer theorems

`exEmu` (ovni + nOS-V), process with app id 1 and no rank.  History: thread 0
starts (`OHx`), a task type and a task are created (`VYc`, `VTc`: no channel
write), the task runs and ends on thread 0 (`VTx`: subsystem push + body id,
task id, type, app id; `VTe`: pop + the four set to null), the thread ends. -/

def exHistT : List EvT :=
  [((0, 79, 72, 120, [0, 0, 0, 0]), none),
   ((0, 86, 89, 99, []), some (.typeCreate 1 7 true)),
   ((0, 86, 84, 99, []), some (.taskCreate false 1 1)),
   ((0, 86, 84, 120, []), some (.task 0 .x 1 0)),
   ((0, 86, 84, 101, []), some (.task 0 .e 1 0)),
   ((0, 79, 72, 101, []), none)]

theorem exHistT_accepted :
    (match replayT .nosv ⟨1, -1⟩ [] exEmu Ovni.Task.Emu.init exHistT with
      | .ok r => decide (r.2.2.length = 36)
      | .error _ => false) = true := by decide

/-- All hypotheses of `emu_init_emit` and `emu_history_task` hold for the
    history with task events; hence the bay run with the PRV callbacks exists and
    the invariants hold at the end — without any hook hypothesis. -/
example : ∃ eF εF rs bF lvsF tvsF freshF, replayT .nosv ⟨1, -1⟩ [] exEmu Ovni.Task.Emu.init exHistT = .ok (eF, εF, rs) ∧
    Inv exEmuBay eF bF ∧ FreshInv exEmu.shape bF freshF ∧ EmitInv exEmu.shape.regs lvsF tvsF bF := by
  cases h : replayT .nosv ⟨1, -1⟩ [] exEmu Ovni.Task.Emu.init exHistT with
  | error x => have := exHistT_accepted; rw [h] at this; cases this
  | ok r =>
    obtain ⟨eF, εF, rs⟩ := r
    obtain ⟨hfl, hiv, hd⟩ := driver_emit_conditions [79, 86] []
    obtain ⟨hs, _, bI, lvsI, tvsI, _, _, _, hi, hf, hE⟩ :=
      emu_init_emit _ _ _ _ _ exEmuBay_connect (by decide) exEmu_chars exEmu_initSingle hfl hiv
    obtain ⟨bF, lvsF, freshF, Ls, _, _, _, _, hiF, hfF, hEF⟩ :=
      emu_history_task .nosv ⟨1, -1⟩ [] exHistT exEmuBay_connect hs hi hf hE hfl hd h
    exact ⟨eF, εF, rs, bF, lvsF, _, freshF, rfl, hiF, hfF, hEF⟩

/-! ### Non-vacuity of `emu_step_lines`, final clause included

One thread, one CPU, only the ovni model (no mux default, so no CPU is ever
fresh: `FreshInv.of_null_defaults`).  Event: `OHx`. -/

def exEmuO : Emu := mkEmu [(100, 10, 0)] [(0, 0, false)] [79] false []

theorem exEmuO_connect : exEmuO.shape.connect = .ok (bayOf exEmuO) := by rfl

theorem exEmuO_step :
    (match stepEv exEmuO 0 79 72 120 [0, 0, 0, 0] exNoHook exNoHook with
      | .ok r => decide (r.2.length = 6)
      | .error _ => false) = true := by decide

/-- All hypotheses of `emu_step_lines` hold, premise of the last clause
    included: the six records of `OHx` (thread cpu / tid / state, CPU pid / tid /
    nrunning) are a permutation of the system-row lines followed by the
    effective lines of the track outputs. -/
example : ∃ (e2 : Emu) (rs s : List PrvRec) (Lr : List (Nat × PrvRec)) (tvs : List Int),
    stepEv exEmuO 0 79 72 120 [0, 0, 0, 0] exNoHook exNoHook = .ok (e2, rs) ∧
    rs.Perm (s ++ (Lr.filter (effective tvs)).map (·.2)) := by
  cases h : stepEv exEmuO 0 79 72 120 [0, 0, 0, 0] exNoHook exNoHook with
  | error x => have := exEmuO_step; rw [h] at this; cases this
  | ok r =>
    obtain ⟨e2, rs⟩ := r
    obtain ⟨hfl, hiv, hd⟩ := driver_emit_conditions [79] []
    have hchars : ((allSpecs.filter (fun s : ModelSpec => [79].contains s.char) ++ []).map ModelSpec.char).Nodup := by
      decide
    have hinit : InitSingle (allSpecs.filter (fun s => [79].contains s.char) ++ []) := by
      rw [List.append_nil]; exact initSingle_allSpecs _
    obtain ⟨hs, _, bI, lvsI, tvsI, _, _, _, hi, hf, hE⟩ :=
      emu_init_emit _ _ _ _ _ exEmuO_connect (by decide) hchars hinit hfl hiv
    have hb := Shape.connect_built exEmuO_connect
    have hnull : ∀ (mi : Nat) (m : Mux), bI.muxes[mi]? = some m → m.dflt = .null := by
      intro mi m hm
      rw [hi.muxes] at hm
      cases hb.isTrack hm with
      | th g k i ms out _ _ _ _ => rfl
      | cpu c k i ms out _ hk _ =>
        have hms : ms ∈ exEmuO.shape.specs := List.mem_of_getElem? hk
        have : ∀ ms ∈ exEmuO.shape.specs, ms.cpuDefault = [] := by decide
        simp only [ModelSpec.cpuDflt, this ms hms, List.find?_nil]
    have hf' : FreshInv exEmuO.shape bI (fun _ => false) := hf.of_null_defaults hnull
    obtain ⟨_, _, _, _, _, Lr, s, _, _, _, _, _, _, _, _, _, _, _, _, _, _, hperm⟩ :=
      emu_step_lines hookSim_none hookSim_none hookSys_none hookSys_none exEmuO_connect hs hi hf' hE
        (sysInv_init _ _ _ _ _) hfl hd h
    exact ⟨e2, rs, s, Lr, tvsI, rfl, hperm (fun _ _ => rfl)⟩

/-! ### Non-vacuity of the coupling theorems

`exHistT` above (task events only) and `exHistS`: the task runs INSIDE table
states of the same subsystem channel — `VHw` (push Worker), `VTx` (push "Task: In
body" + the `chan_set`s), `VAr` / `VAR` (push / pop "API: Create" over the
running body), `VTe`, `VHW`, and `VPr` (idle channel, no task channel). -/

example : ∀ evt ∈ exHistT, Consistent .nosv evt := by decide

def exHistS : List EvT :=
  [((0, 79, 72, 120, [0, 0, 0, 0]), none),
   ((0, 86, 89, 99, []), some (.typeCreate 1 7 true)),
   ((0, 86, 84, 99, []), some (.taskCreate false 1 1)),
   ((0, 86, 72, 119, []), some (.ssPush 0 28)),
   ((0, 86, 84, 120, []), some (.task 0 .x 1 0)),
   ((0, 86, 65, 114, []), some (.ssPush 0 12)),
   ((0, 86, 65, 82, []), some (.ssPop 0 12)),
   ((0, 86, 80, 114, []), none),
   ((0, 86, 84, 101, []), some (.task 0 .e 1 0)),
   ((0, 86, 72, 87, []), some (.ssPop 0 28)),
   ((0, 79, 72, 101, []), none)]

theorem exHistS_consistent : ∀ evt ∈ exHistS, Consistent .nosv evt := by decide

theorem exHistS_accepted :
    (match replayT .nosv ⟨1, -1⟩ [] exEmu Ovni.Task.Emu.init exHistS with
      | .ok _ => true
      | .error _ => false) = true := by decide

/-- In the middle of the history (after `VAr`): the copy holds `[12, 11, 28]`
    (head = top) and the thread's real subsystem channel `[28, 11, 12]` (bottom …
    top); the real task-id channel shows the task. -/
example :
    (match replayT .nosv ⟨1, -1⟩ [] exEmu Ovni.Task.Emu.init (exHistS.take 6) with
      | .ok (e, ε, _) =>
        decide (ε.ss 0 = [12, 11, 28] ∧
          (e.src (.raw 0 1 4)).map (·.vals) = some [.int 28, .int 11, .int 12] ∧
          (e.src (.raw 0 1 1)).map (·.cur) = some (.int 1) ∧ (ε.ch 0).taskid = some 1)
      | .error _ => false) = true := by decide

/-- All hypotheses of `emu_run_task_driver` hold for `exHistS` (nOS-V at position
    1 of the spec list of `exEmu`): the bay run exists and the copy agrees with
    the thread channels at the end. -/
example : ∃ eF εF rs bF, replayT .nosv ⟨1, -1⟩ [] exEmu Ovni.Task.Emu.init exHistS = .ok (eF, εF, rs) ∧
    Inv exEmuBay eF bF ∧ Coupled .nosv 1 eF εF := by
  cases h : replayT .nosv ⟨1, -1⟩ [] exEmu Ovni.Task.Emu.init exHistS with
  | error x => have := exHistS_accepted; rw [h] at this; cases this
  | ok r =>
    obtain ⟨eF, εF, rs⟩ := r
    obtain ⟨b0, _, _, bF, _, _, _, _, hc, _, _, _, _, hiF, _, _, hcp⟩ :=
      emu_run_task_driver .nosv ⟨1, -1⟩ [(100, 10, 0), (101, 10, 0)] [(0, 0, false), (0, -1, true)] [79, 86] false []
        exHistS (k := 1) (by decide) (by rfl) exHistS_consistent h
    have hb : b0 = exEmuBay := by
      have h1 : exEmu.shape.connect = .ok b0 := hc
      rw [exEmuBay_connect] at h1
      injection h1 with h1; exact h1.symm
    subst hb
    exact ⟨eF, εF, rs, bF, rfl, hiF, hcp⟩

/-- The consistency hypothesis is needed: the same push on the shared subsystem
    channel with no decoded event (`none` instead of `ssPush`) leaves the copy
    behind the channel. -/
example : ¬ Consistent .nosv ((0, 86, 72, 119, []), none) ∧
    (match replayT .nosv ⟨1, -1⟩ [] exEmu Ovni.Task.Emu.init
        [((0, 79, 72, 120, [0, 0, 0, 0]), none), ((0, 86, 72, 119, []), none)] with
      | .ok (e, ε, _) => decide (ε.ss 0 = [] ∧ (e.src (.raw 0 1 4)).map (·.vals) = some [.int 28])
      | .error _ => false) = true := by decide

/-- `task_hook_accepts_iff` at the initial state (`Shaped` from `emu_init`,
    `Coupled` from `coupled_init`): the type-creation event is accepted by the
    hook because the task layer accepts it. -/
example : ∃ e1, hookOf .nosv ⟨1, -1⟩ Ovni.Task.Emu.init (some (.typeCreate 1 7 true)) exEmu 0 86 89 [] = .ok e1 := by
  obtain ⟨hfl, hiv, _⟩ := driver_emit_conditions [79, 86] []
  obtain ⟨hs, _⟩ := emu_init_emit _ _ _ _ _ exEmuBay_connect (by decide) exEmu_chars exEmu_initSingle hfl hiv
  have hcp := coupled_init .nosv [(100, 10, 0), (101, 10, 0)] [(0, 0, false), (0, -1, true)] [79, 86] false []
    (k := 1) (by rfl)
  exact (task_hook_accepts_iff (tm := .nosv) (k := 1) hs (by rfl) hcp (by decide)).mpr
    ⟨⟨_, rfl⟩, Or.inr (Or.inl ⟨1, 7, true, rfl⟩)⟩

/-! ### `PRV_ZERO` registrations (`Lemmas/EmitZero.lean`)

`Bay.emit_step_zero`: `Bay.emit_step` for ANY registrations with a duplicate
policy, `PRV_ZERO` allowed (the breakdown output channels are registered with
`PRV_SKIPDUP | PRV_ZERO`).  With `PRV_ZERO` null and 0 both show as 0, so a
changed channel value need not change the row: `emitView` (on values) and `emit`
then both write a line that repeats the row, and the statement compares the
EFFECTIVE lines of the two sides. -/

/-- **One event on a bay whose registrations may have `PRV_ZERO`.** -/
theorem emit_step_zero {ok : Nat → Prop} {b b1 bF : Bay} {em : List (Nat × Value)} {regs : List PrvReg}
    {lvs : List (Option Value)} {tvs : List Int}
    (wf : b.WF) (hw : Bay.Writes ok b b1) (hp : b1.propagate = .ok (bF, em))
    (hinv : EmitInv regs lvs tvs b) (hfl : ∀ r ∈ regs, DupOk r.flags) :
    ((∃ x, b.viewRecs regs bF = .error x) ↔ (∃ y, b1.propagateP regs lvs = .error y)) ∧
    (∀ y, b1.propagateP regs lvs = .error y → y = .prvZero) ∧
    (∀ vr, b.viewRecs regs bF = .ok vr → ∃ lvs' L Lr, b1.propagateP regs lvs = .ok (bF, lvs', L) ∧
      L.Perm Lr ∧ vr = (b.viewLinesT regs bF).map (·.2) ∧
      (b.viewLinesT regs bF).filter (effective tvs) = Lr.filter (effective tvs) ∧
      EmitInv regs lvs' (tvStep tvs L) bF) :=
  Bay.emit_step_zero wf hw hp hinv hfl

/-- For registrations without `PRV_ZERO` every view line is effective, and the
    statement of `Bay.emit_step` is recovered. -/
theorem emit_step_zero_noZero {b bF : Bay} {regs : List PrvReg} {lvs : List (Option Value)} {tvs : List Int}
    (hinv : EmitInv regs lvs tvs b) (hz : ∀ r ∈ regs, NoZero r.flags) :
    (b.viewLinesT regs bF).filter (effective tvs) = b.viewLinesT regs bF :=
  Bay.viewLinesT_effective_of_noZero hinv hz

/-- A registration with `PRV_SKIPDUP | PRV_ZERO` (`ezRegs`, flags 10), the value
    0 written on the null channel: the line `1:10:0` is written by both sides and
    is not effective — the conclusion of `Bay.emit_step` fails there, that of
    `emit_step_zero` holds (`Lemmas/EmitZero.lean`, examples). -/
example : (∀ r ∈ ezRegs, DupOk r.flags ∧ ¬ NoZero r.flags) ∧
    ezB0.viewRecs ezRegs ezA.1 = .ok [⟨0, 1, 10, 0⟩] ∧ ezA.2.2 = [(0, ⟨0, 1, 10, 0⟩)] ∧
    effective [0] (0, ⟨0, 1, 10, 0⟩) = false ∧
    (ezB0.viewLinesT ezRegs ezA.1).filter (effective [0]) = ezA.2.2.filter (effective [0]) := by decide

end Ovni.Props.C06
