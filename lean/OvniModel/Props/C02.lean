import OvniModel.Props.C01

/-!
# C02 — traces produced through correct API use are valid

Same model as C01.  A program is *protocol conformant* when every event clock
is a reading of the library clock taken right before the emit call
(`emitNow` / `jumboNow` / the mark API), events start from a zeroed struct and
the user does not forge the library's own `OF[`/`OF]` codes.

The theorem is proved for the code **after** the repair `fix: reserve room for
both flush events after a forced flush`; for the code before it the statement
is false (`nested_markers_before_fix` below keeps the witness).
-/
set_option linter.unusedSectionVars false
set_option linter.unusedSimpArgs false
namespace Ovni.Props.C02
open Ovni.Rt Ovni.Props.C01
variable {D : Type} [JData D]

def isOpen (r : Rec D) : Bool := r.mcv == (79, 70, 91)
def isClose (r : Rec D) : Bool := r.mcv == (79, 70, 93)

/-- Scan the flush markers: depth is 0 or 1; `none` = nested or unmatched. -/
def scan : Nat → List (Rec D × Origin) → Option Nat
  | d, [] => some d
  | d, x :: xs =>
    if isOpen x.1 then (if d = 0 then scan 1 xs else none)
    else if isClose x.1 then (if d = 1 then scan 0 xs else none)
    else scan d xs

/-- Flush markers come in properly paired, non-nested begin/end pairs. -/
def Balanced (l : List (Rec D × Origin)) : Prop := scan 0 l = some 0

/-- Clocks never decrease along the sequence. -/
def ClockSorted (l : List (Rec D × Origin)) : Prop := l.Pairwise (fun a b => a.1.clock ≤ b.1.clock)

theorem scan_append (d : Nat) (a b : List (Rec D × Origin)) :
    scan d (a ++ b) = (scan d a).bind (fun d' => scan d' b) := by
  induction a generalizing d with
  | nil => rfl
  | cons x xs ih =>
    simp only [List.cons_append, scan]
    split
    · split
      · exact ih 1
      · rfl
    · split
      · split
        · exact ih 0
        · rfl
      · exact ih d

theorem balanced_append {a b : List (Rec D × Origin)} (ha : Balanced a) (hb : Balanced b) :
    Balanced (a ++ b) := by
  unfold Balanced at *
  rw [scan_append, ha]; exact hb

theorem balanced_nil : Balanced ([] : List (Rec D × Origin)) := rfl

theorem balanced_single (x : Rec D × Origin) (h1 : isOpen x.1 = false) (h2 : isClose x.1 = false) :
    Balanced [x] := by
  unfold Balanced; simp [scan, h1, h2]

theorem balanced_pair (t0 t1 : Nat) :
    Balanced [((markerOpen t0 : Rec D), Origin.lib), (markerClose t1, Origin.lib)] := by
  unfold Balanced; rfl

/-- Protocol conformance of one operation. -/
def Conformant : Op D → Prop
  | .emit _ _ => False
  | .jumbo _ _ _ => False
  | .emitNow e _ => Fresh e ∧ ¬ (e.m = 79 ∧ e.c = 70)
  | .jumboNow e _ _ => Fresh e ∧ ¬ (e.m = 79 ∧ e.c = 70)
  | _ => True

/-- Invariant of conformant runs. -/
structure Valid (cap : Nat) (s : St D) : Prop where
  good : Good cap s
  sorted : ClockSorted s.all
  bound : ∀ x ∈ s.all, x.1.clock ≤ s.now
  bdisk : Balanced s.disk
  bbuf : Balanced s.buf

theorem flushedForm_disk (cap : Nat) (s : St D) (r : Rec D) (o : Origin) :
    (flushedForm cap s r o).disk =
      if r.size + 24 ≥ cap then s.disk ++ s.buf ++ [(r, o)] else s.disk ++ s.buf := by
  unfold flushedForm makeRoom
  simp only [append_disk, forcedFlush_evlen, Nat.zero_add]
  split <;> simp

theorem flushedForm_buf (cap : Nat) (s : St D) (r : Rec D) (o : Origin) :
    (flushedForm cap s r o).buf =
      (if r.size + 24 ≥ cap then [] else [(r, o)]) ++
        [(markerOpen s.now, .lib), (markerClose (s.now + s.tick), .lib)] := by
  unfold flushedForm makeRoom
  simp only [append_buf, forcedFlush_evlen, Nat.zero_add]
  split <;> simp

theorem sorted_snoc {l : List (Rec D × Origin)} (hs : ClockSorted l) (x : Rec D × Origin)
    (hx : ∀ y ∈ l, y.1.clock ≤ x.1.clock) : ClockSorted (l ++ [x]) := by
  unfold ClockSorted at *
  rw [List.pairwise_append]
  refine ⟨hs, by simp, ?_⟩
  intro a ha b hb
  simp only [List.mem_cons, List.mem_nil_iff, or_false] at hb
  subst hb; exact hx a ha

/-- One `ovni_ev_add` of a non-marker record stamped with a current clock
    reading keeps the stream valid. -/
theorem evAdd_valid (cap : Nat) (hcap : 24 < cap) (s s' : St D) (r : Rec D) (o : Origin)
    (hv : Valid cap s) (hclk : r.clock ≤ s.now) (hall : ∀ x ∈ s.all, x.1.clock ≤ r.clock)
    (ho : isOpen r = false) (hc : isClose r = false)
    (h : evAdd cap addFuel s r o = some s') : Valid cap s' := by
  have hi := hv.good.inv
  have hr : s.ready = true := by
    cases hrd : s.ready with
    | true => rfl
    | false => rw [evAdd_not_ready cap addFuel s r o hrd] at h; cases h
  obtain ⟨ms, ha, hm, hinv, hr', hf', hh', hn'⟩ := evAdd_effect cap hcap s s' r o hi h
  rw [show addFuel = 2 + 2 from rfl, evAdd_eq cap hcap 2 s r o hr] at h
  simp only [Option.some.injEq] at h
  split at h
  · -- forced flush
    subst h
    have hallf := flushedForm_all cap s r o
    refine ⟨⟨hinv, fun hx _ => by rw [hr'] at hx; cases hx⟩, ?_, ?_, ?_, ?_⟩
    · rw [hallf]
      have e : s.all ++ [(r, o), (markerOpen s.now, Origin.lib), (markerClose (s.now + s.tick), Origin.lib)]
          = ((s.all ++ [(r, o)]) ++ [(markerOpen s.now, Origin.lib)]) ++ [(markerClose (s.now + s.tick), Origin.lib)] := by
        simp
      rw [e]
      apply sorted_snoc
      · apply sorted_snoc
        · exact sorted_snoc hv.sorted _ hall
        · intro y hy
          simp only [List.mem_append, List.mem_cons, List.mem_nil_iff, or_false] at hy
          rcases hy with hy | hy
          · exact hv.bound y hy
          · subst hy; exact hclk
      · intro y hy
        simp only [List.mem_append, List.mem_cons, List.mem_nil_iff, or_false] at hy
        show y.1.clock ≤ s.now + s.tick
        rcases hy with (hy | hy) | hy
        · have := hv.bound y hy; omega
        · subst hy; show r.clock ≤ _; omega
        · subst hy; show s.now ≤ s.now + s.tick; omega
    · intro x hx
      rw [hallf] at hx
      have hnow : (flushedForm cap s r o).now = s.now + s.tick + s.tick := by simp [flushedForm]
      rw [hnow]
      simp only [List.mem_append, List.mem_cons, List.mem_nil_iff, or_false] at hx
      rcases hx with hx | hx | hx | hx
      · have := hv.bound x hx; omega
      · subst hx; show r.clock ≤ _; omega
      · subst hx; show s.now ≤ _; omega
      · subst hx; show s.now + s.tick ≤ _; omega
    · rw [flushedForm_disk]
      split
      · exact balanced_append (balanced_append hv.bdisk hv.bbuf) (balanced_single _ ho hc)
      · exact balanced_append hv.bdisk hv.bbuf
    · rw [flushedForm_buf]
      split
      · exact balanced_append balanced_nil (balanced_pair _ _)
      · exact balanced_append (balanced_single _ ho hc) (balanced_pair _ _)
  · subst h
    refine ⟨⟨hinv, fun hx _ => by rw [hr'] at hx; cases hx⟩, ?_, ?_, hv.bdisk, ?_⟩
    · rw [append_all]; exact sorted_snoc hv.sorted _ hall
    · intro x hx
      rw [append_all] at hx
      simp only [List.mem_append, List.mem_cons, List.mem_nil_iff, or_false] at hx
      rcases hx with hx | hx
      · exact hv.bound x hx
      · subst hx; exact hclk
    · simp only [append_buf]
      exact balanced_append hv.bbuf (balanced_single _ ho hc)

theorem valid_tick (cap : Nat) (s : St D) (hv : Valid cap s) : Valid cap s.clockNow.2 := by
  refine ⟨⟨⟨hv.good.inv.len, hv.good.inv.lt⟩, hv.good.fresh⟩, hv.sorted, ?_, hv.bdisk, hv.bbuf⟩
  intro x hx
  have := hv.bound x hx
  show x.1.clock ≤ s.now + s.tick
  omega

theorem mcv_of_payloadAddAll (e e' : Ev) (chs : List (List Nat)) (hw : e.WF)
    (h : payloadAddAll e chs = some e') : e'.m = e.m ∧ e'.c = e.c ∧ e'.v = e.v ∧ e'.clock = e.clock := by
  obtain ⟨_, _, _, _, m, c, v, k⟩ := payloadAddAll_spec e e' chs hw h
  exact ⟨m, c, v, k⟩

theorem notMarker_of (m c v : Nat) (h : ¬ (m = 79 ∧ c = 70)) :
    ((m, c, v) == ((79, 70, 91) : Nat × Nat × Nat)) = false ∧
    ((m, c, v) == ((79, 70, 93) : Nat × Nat × Nat)) = false := by
  constructor <;>
  · rw [beq_eq_false_iff_ne]
    intro hh
    simp only [Prod.mk.injEq] at hh
    exact h ⟨hh.1, hh.2.1⟩

theorem jumboRec_fields (cap : Nat) (e : Ev) (he : Fresh e) (chs : List (List Nat)) (d : D) (r : Rec D)
    (h : jumboRec cap e chs d = some r) : r.mcv = (e.m, e.c, e.v) ∧ r.clock = e.clock := by
  unfold jumboRec at h
  cases h1 : payloadAddAll e chs with
  | none => rw [h1] at h; cases h
  | some e1 =>
    rw [h1] at h
    simp only at h
    obtain ⟨w1, _, _, _, m1, c1, v1, k1⟩ := payloadAddAll_spec e e1 chs (fresh_wf e he) h1
    split at h
    · cases h
    · cases h2 : payloadAdd e1 (le 4 (JData.len d)) with
      | none => rw [h2] at h; cases h
      | some e2 =>
        rw [h2] at h
        simp only at h
        obtain ⟨_, _, _, _, m2, c2, v2, k2⟩ := payloadAdd_spec e1 e2 _ w1 h2
        split at h
        · cases h
        · cases h
          simp only [Rec.mcv, Rec.clock]
          rw [m2, c2, v2, k2, m1, c1, v1, k1]
          exact ⟨rfl, rfl⟩

theorem threadInit_eff (s s' : St D) (h : threadInit s = some s')
    (hb : s.ready = false → s.finished = false → s.buf = []) :
    s'.all = s.all ∧ s'.now = s.now ∧ s'.disk = s.disk ∧ s'.buf = s.buf ∧
      (s'.evlen = s.evlen ∨ (s'.evlen = 0 ∧ s.buf = [])) ∧ s'.ready = true := by
  unfold threadInit at h
  split at h
  · rename_i hr
    cases h
    exact ⟨rfl, rfl, rfl, rfl, Or.inl rfl, hr⟩
  · rename_i hnr
    split at h
    · cases h
    · rename_i hnf
      cases h
      have hbuf := hb (by simpa using hnr) (by simpa using hnf)
      refine ⟨?_, rfl, rfl, ?_, Or.inr ⟨rfl, hbuf⟩, rfl⟩
      · simp [St.all, hbuf]
      · simp [hbuf]

/-- Conformant steps preserve validity. -/
theorem step_valid (cap : Nat) (hcap : 24 < cap) (s s' : St D) (op : Op D) (hv : Valid cap s)
    (hc : Conformant op) (h : step cap s op = some s') : Valid cap s' := by
  cases op with
  | emit e ch => exact absurd hc id
  | jumbo e ch d => exact absurd hc id
  | init =>
    simp only [step] at h
    obtain ⟨ha, hn, hd, hbf, hev, hrd⟩ := threadInit_eff s s' h hv.good.fresh
    have hi := hv.good.inv
    refine ⟨⟨⟨?_, ?_⟩, fun hx _ => by rw [hrd] at hx; cases hx⟩, by rw [ha]; exact hv.sorted, ?_,
      by rw [hd]; exact hv.bdisk, by rw [hbf]; exact hv.bbuf⟩
    · rcases hev with hev | ⟨hev, hnil⟩
      · rw [hev, hbf]; exact hi.len
      · rw [hev, hbf, hnil]; rfl
    · rcases hev with hev | ⟨hev, _⟩
      · rw [hev]; exact hi.lt
      · rw [hev]; omega
    · rw [ha, hn]; exact hv.bound
  | emitNow e ch =>
    simp only [step, emit, clockNow_fst] at h
    cases hp : payloadAddAll { e with clock := s.now } ch with
    | none => rw [hp] at h; cases h
    | some e' =>
      rw [hp] at h
      obtain ⟨hm, hcc, hvv, hk⟩ := mcv_of_payloadAddAll { e with clock := s.now } e' ch (fresh_wf _ ⟨hc.1.1, hc.1.2⟩) hp
      have nm := notMarker_of e'.m e'.c e'.v (by rw [hm, hcc]; exact hc.2)
      apply evAdd_valid cap hcap s.clockNow.2 s' (.ev e') .user (valid_tick cap s hv) _ _ nm.1 nm.2 h
      · show e'.clock ≤ s.now + s.tick
        rw [hk]; show s.now ≤ _; omega
      · intro x hx
        show x.1.clock ≤ e'.clock
        rw [hk]; exact hv.bound x hx
  | jumboNow e ch d =>
    simp only [step, emitJumbo, clockNow_fst, clockNow_ready] at h
    cases hrd : s.ready with
    | false => simp [hrd] at h
    | true =>
      simp only [hrd, Bool.not_true, Bool.false_eq_true, if_false] at h
      cases hp : jumboRec cap { e with clock := s.now } ch d with
      | none => rw [hp] at h; cases h
      | some r =>
        rw [hp] at h
        obtain ⟨hmcv, hk⟩ := jumboRec_fields cap { e with clock := s.now } ⟨hc.1.1, hc.1.2⟩ ch d r hp
        have nm := notMarker_of e.m e.c e.v hc.2
        apply evAdd_valid cap hcap s.clockNow.2 s' r .user (valid_tick cap s hv) _ _ _ _ h
        · rw [hk]; show s.now ≤ s.now + s.tick; omega
        · intro x hx; rw [hk]; exact hv.bound x hx
        · unfold isOpen; rw [hmcv]; exact nm.1
        · unfold isClose; rw [hmcv]; exact nm.2
  | flush =>
    simp only [step] at h
    obtain ⟨hd, hb, hinv, hr', _, _⟩ := flush_effect cap hcap s s' h
    -- explicit form of the result
    unfold flush at h
    cases hr : s.ready with
    | false => simp [hr] at h
    | true =>
      simp only [hr, Bool.not_true, Bool.false_eq_true, if_false] at h
      have e1 := evAdd_two_markers (D := D) cap 3 ((s.clockNow.2.flushBuf).clockNow.2) (by simp [hr])
        s.now (s.now + s.tick) (by simp; omega)
      rw [show addFuel = 3 + 1 from rfl] at h
      have h' := e1.symm.trans h
      simp only [Option.some.injEq] at h'
      subst h'
      have hall : (((s.clockNow.2.flushBuf).clockNow.2.append (markerOpen s.now) Origin.lib).append
          (markerClose (s.now + s.tick)) Origin.lib).all =
          (s.all ++ [((markerOpen s.now : Rec D), Origin.lib)]) ++ [(markerClose (s.now + s.tick), Origin.lib)] := by
        simp [St.all]
      refine ⟨⟨hinv, fun hx _ => by rw [hr'] at hx; cases hx⟩, ?_, ?_, ?_, ?_⟩
      · rw [hall]
        apply sorted_snoc
        · exact sorted_snoc hv.sorted _ (fun y hy => hv.bound y hy)
        · intro y hy
          simp only [List.mem_append, List.mem_cons, List.mem_nil_iff, or_false] at hy
          show y.1.clock ≤ s.now + s.tick
          rcases hy with hy | hy
          · have := hv.bound y hy; omega
          · subst hy; show s.now ≤ _; omega
      · intro x hx
        rw [hall] at hx
        simp only [List.mem_append, List.mem_cons, List.mem_nil_iff, or_false] at hx
        show x.1.clock ≤ s.now + s.tick + s.tick
        rcases hx with (hx | hx) | hx
        · have := hv.bound x hx; omega
        · subst hx; show s.now ≤ _; omega
        · subst hx; show s.now + s.tick ≤ _; omega
      · simp only [append_disk, clockNow_disk, flushBuf_disk]
        exact balanced_append hv.bdisk hv.bbuf
      · simp only [append_buf, clockNow_buf, flushBuf_buf, List.nil_append]
        exact balanced_pair _ _
  | mark k t v =>
    simp only [step, mark] at h
    split at h
    · cases h
    · simp only [clockNow_fst, emit] at h
      cases hp : payloadAddAll { m := 79, c := 77, v := k, clock := s.now } [sle 8 v, sle 4 t] with
      | none => rw [hp] at h; cases h
      | some e' =>
        rw [hp] at h
        obtain ⟨hm, hcc, hvv, hk⟩ := mcv_of_payloadAddAll _ e' _ (fresh_wf _ ⟨rfl, rfl⟩) hp
        have nm := notMarker_of e'.m e'.c e'.v (by rw [hm, hcc]; intro hh; have h2 : (77 : Nat) = 70 := hh.2; omega)
        apply evAdd_valid cap hcap s.clockNow.2 s' (.ev e') .user (valid_tick cap s hv) _ _ nm.1 nm.2 h
        · show e'.clock ≤ s.now + s.tick
          rw [hk]; show s.now ≤ _; omega
        · intro x hx
          show x.1.clock ≤ e'.clock
          rw [hk]; exact hv.bound x hx
  | setTick n =>
    simp only [step, Option.some.injEq] at h
    subst h
    exact ⟨⟨⟨hv.good.inv.len, hv.good.inv.lt⟩, hv.good.fresh⟩, hv.sorted, hv.bound, hv.bdisk, hv.bbuf⟩
  | metaOp =>
    simp only [step] at h
    split at h
    · cases h; exact hv
    · cases h
  | free =>
    simp only [step, threadFree] at h
    split at h
    · cases h
    · split at h
      · cases h
      · cases h
        exact ⟨⟨⟨hv.good.inv.len, hv.good.inv.lt⟩, by simp⟩, hv.sorted, hv.bound, hv.bdisk, hv.bbuf⟩

theorem valid_init0 (cap : Nat) (hcap : 0 < cap) : Valid cap (init0 : St D) :=
  ⟨good_init0 cap hcap, List.Pairwise.nil, (by intro x hx; cases hx), rfl, rfl⟩

theorem run_valid (cap : Nat) (hcap : 24 < cap) (ops : List (Op D)) (s s' : St D) (hv : Valid cap s)
    (hc : ∀ op ∈ ops, Conformant op) (h : run cap s ops = some s') : Valid cap s' := by
  induction ops generalizing s with
  | nil => simp only [run, Option.some.injEq] at h; subst h; exact hv
  | cons op ops ih =>
    simp only [run] at h
    cases hs : step cap s op with
    | none => rw [hs] at h; cases h
    | some s1 =>
      rw [hs] at h
      exact ih s1 (step_valid cap hcap s s1 op hv (hc op (by simp)) hs) (fun o ho => hc o (by simp [ho])) h

theorem sorted_prefix {a b : List (Rec D × Origin)} (h : ClockSorted (a ++ b)) : ClockSorted a := by
  unfold ClockSorted at *
  exact (List.pairwise_append.1 h).1

/-- **C02.** For every capacity above 24 bytes and every protocol-conformant
    program that returns, the stream file — at that moment, whatever was still
    buffered — has the header (after `init`), never-decreasing clocks and
    properly paired, non-nested flush markers; and (C01) its events tile the
    file exactly and decode to the records produced. -/
theorem conformant_stream_valid (cap : Nat) (hcap : 24 < cap) (hc32 : cap ≤ 2 ^ 32)
    (ops : List (Op D)) (hc : ∀ op ∈ ops, Conformant op) (s' : St D)
    (h : run cap (init0 : St D) ops = some s') :
    ClockSorted s'.disk ∧ Balanced s'.disk ∧ (∀ x ∈ s'.disk, x.1.WF) ∧
    (s'.hdrOnDisk = true →
      ∀ magic version, magic.length = 4 →
        decodeStream magic version (s'.diskBytes magic version) = some (s'.disk.map (fun x => x.1.toDec))) := by
  have hv := run_valid cap hcap ops init0 s' (valid_init0 cap (by omega)) hc h
  have hfresh : ∀ op ∈ ops, FreshEv op := by
    intro op ho
    have := hc op ho
    cases op <;> simp only [FreshEv, Conformant] at this ⊢
    · exact this.1
    · exact this.1
  have hw := run_wf cap hcap hc32 ops init0 s' (good_init0 cap (by omega)) hfresh
    (by intro x hx; cases hx) h
  have hwd : ∀ x ∈ s'.disk, x.1.WF := fun x hx => hw x (by simp [St.all, hx])
  refine ⟨sorted_prefix hv.sorted, hv.bdisk, hwd, ?_⟩
  intro hh magic version hm
  exact file_decodes magic hm version s' hh hwd

/-! ### The statement is false for the code before the fix -/

/-- `ovni_ev_add` as it was before the repair (no `makeRoom`). -/
def evAddOld (cap : Nat) : Nat → St D → Rec D → Origin → Option (St D)
  | 0, _, _, _ => none
  | fuel + 1, s, r, o =>
    if !s.ready then none
    else if s.evlen + r.size ≥ cap then
      match evAddOld cap fuel (forcedFlush s r o) (markerOpen s.now) .lib with
      | none => none
      | some s5 => evAddOld cap fuel s5 (markerClose (s.now + s.tick)) .lib
    else some (s.append r o)

/-- Witness at capacity 64: one small event, then a jumbo of 40 bytes
    (total 56 ≥ 64 − 12) — the file gets `OF[ OF[ OF] OF]`: not balanced. -/
theorem nested_markers_before_fix :
    ∃ s' : St (List Nat),
      (match evAddOld 64 4 ({ ready := true, now := 10 } : St (List Nat))
              (.ev { m := 65, c := 66, v := 67, clock := 5 }) .user with
        | none => none
        | some s1 => evAddOld 64 4 s1
            (.jumbo { flags := 19, m := 74, c := 74, v := 74, clock := 11 } (List.replicate 40 0)) .user) = some s'
      ∧ scan 0 s'.all = none := by
  refine ⟨_, rfl, ?_⟩
  decide

/-! ### Non-vacuity -/

example : Conformant (Op.emitNow (D := List Nat) { m := 65, c := 66, v := 67, clock := 0 } [[1, 2]]) :=
  ⟨⟨rfl, rfl⟩, by decide⟩

/-- a conformant program at capacity 64 that returns and forces a flush with a
    jumbo within 24 bytes of the capacity -/
example :
    (run 64 (init0 : St (List Nat))
      [.init, .emitNow { m := 65, c := 66, v := 67, clock := 0 } [],
       .jumboNow { m := 74, c := 74, v := 74, clock := 0 } [] (List.replicate 40 0),
       .mark 61 1 5, .flush, .free]).isSome = true := by decide

end Ovni.Props.C02
