import OvniModel.Props.C04
import OvniModel.Lemmas.EmuCoreTotal

/-!
# C05 — CPU occupancy: one running thread per physical CPU; CPU rows mirror threads

Same model as C04 (`cpuUpdate`, `cpuAddThread`, `cpuRemoveThread`, `migrate`,
`preAffinitySet`, `preAffinityRemote` of `Emu/Core.lean`).  Histories here
contain the thread events OH{x,c,p,w,r,e} **and** the affinity events OAs
(local) / OAr (remote) in any interleaving, on any number of threads, CPUs and
looms; a state is *reachable* when `emuRun` (the fold of the emulator component
of `stepEv`) accepts the history.

* `cpu_membership_inv`: `ti ∈ c.threads ↔ threads[ti].cpu = some c.gindex`, no duplicates.
* `no_phys_oversub`: every physical CPU has at most one running thread in every
  reachable state; `thread_oversub_rejected`, `affinity_set_oversub_rejected`,
  `affinity_remote_oversub_rejected`: a step whose logical result has two is an error.
* `vcpu_may_oversub`: an accepted history with two running threads on the virtual CPU.
* `cpu_view`: the nrun / tid / pid channels of every CPU are clean and show the number of
  running threads bound to it and the TID / PID of that thread when it is unique.
* `cpu_records`: whenever one of these channels is modified in an accepted step, the step emits
  the record of type 3 / 2 / 1 carrying that value on the CPU's row of cpu.prv.
* `records_total_affinity`: with `NoZeroIds` (C04: non-zero TIDs / PIDs, no forbidden 0 on a model
  channel) the records of every accepted thread **or affinity** event can be emitted;
  `stepRun_iff_emuRun`: hence the fold of the full `stepEv` (handlers, record emission, flush) reaches
  exactly the states `emuRun` reaches, so every theorem above holds for the full emulation step.
* `remote_same_cpu_rejected`: the model (like the implementation) rejects a remote
  affinity change whose target is the thread's current CPU; the property does not speak
  about it, so `affinity_remote_accept_iff` carries the hypothesis "target ≠ current".
-/
set_option linter.unusedSimpArgs false
set_option linter.unusedVariables false
set_option synthInstance.maxSize 1024
namespace Ovni.Props.C05
open Ovni.Emu Ovni.Generated Ovni.Props.C04

/-- threads in the running state whose `cpu` field names CPU `g` (specification notion) -/
def runningOn (ths : List Thread) (g : Nat) : List Thread :=
  ths.filter (fun t => t.state = .running && t.cpu == some g)

theorem runningOn_eq (ths : List Thread) (g : Nat) : runningOn ths g = runOf (onCpu ths g) := by
  unfold runningOn runOf onCpu; rw [List.filter_filter]

/-- value shown for "the thread when it is unique, nothing otherwise" -/
def uniqueOr (l : List Thread) (f : Thread → Int) : Value :=
  match l with
  | [t] => .int (f t)
  | _ => .null

section
variable (th mh : Emu → Nat → Nat → Nat → List Nat → Except Err Emu)

/-- a history of thread and affinity events -/
def Hist (hist : List OEv) : Prop := ∀ ev ∈ hist, IsThreadEv ev ∨ IsAffinityEv ev

/-- **Membership invariant** in every reachable state. -/
theorem cpu_membership_inv {e0 e : Emu} (h0 : WF e0) (hen : e0.enabled.contains 79 = true)
    {hist : List OEv} (hh : Hist hist) (hr : emuRun th mh e0 hist = .ok e)
    {g : Nat} {c : Cpu} (hc : e.cpus[g]? = some c) :
    c.gindex = g ∧ c.threads.Nodup ∧
      ∀ ti, ti ∈ c.threads ↔ ∃ t, e.threads[ti]? = some t ∧ t.cpu = some g := by
  obtain ⟨hw, _⟩ := emuRun_wf th mh h0 hen hist hh hr
  have := hw.cpu g c hc
  exact ⟨this.gidx, this.mem.nodup, this.mem.mem⟩

/-- indices are consistent and a thread's CPU exists, in every reachable state -/
theorem index_inv {e0 e : Emu} (h0 : WF e0) (hen : e0.enabled.contains 79 = true)
    {hist : List OEv} (hh : Hist hist) (hr : emuRun th mh e0 hist = .ok e)
    {ti : Nat} {t : Thread} (ht : e.threads[ti]? = some t) :
    t.gindex = ti ∧ (t.cpu = none ↔ (t.state = .unknown ∨ t.state = .dead)) ∧
      ∀ ci, t.cpu = some ci → ∃ c, e.cpus[ci]? = some c ∧ ti ∈ c.threads := by
  obtain ⟨hw, _⟩ := emuRun_wf th mh h0 hen hist hh hr
  have hth := hw.th ti t ht
  refine ⟨hth.gidx, hth.cpuIff, fun ci hci => ?_⟩
  have hlt := hth.cpuLt ci hci
  refine ⟨e.cpus[ci], List.getElem?_eq_getElem hlt, ?_⟩
  exact (hw.cpu ci _ (List.getElem?_eq_getElem hlt)).mem.mem_of ht hci

/-- **No physical CPU is oversubscribed** in any reachable state. -/
theorem no_phys_oversub {e0 e : Emu} (h0 : WF e0) (hen : e0.enabled.contains 79 = true)
    {hist : List OEv} (hh : Hist hist) (hr : emuRun th mh e0 hist = .ok e)
    {g : Nat} {c : Cpu} (hc : e.cpus[g]? = some c) (hphys : c.virt = false) :
    (runningOn e.threads g).length ≤ 1 := by
  obtain ⟨hw, _⟩ := emuRun_wf th mh h0 hen hist hh hr
  rw [runningOn_eq]
  exact (hw.cpu g c hc).phys hphys
end

theorem not_ok_err {α} {r : Except Err α} (h : ¬ ∃ a, r = .ok a) : ∃ err, r = .error err := by
  cases r with
  | error err => exact ⟨err, rfl⟩
  | ok a => exact absurd ⟨a, rfl⟩ h

/-- A thread event whose (legal) result would leave a physical CPU with two running threads is
    rejected. -/
theorem thread_oversub_rejected {e : Emu} (h : WF e) {ti : Nat} {t : Thread} (ht : e.threads[ti]? = some t)
    {v : Nat} (hv : v ∈ [120, 99, 112, 119, 114, 101]) {payload : List Nat} {ci : Nat}
    (hx : v = 120 → t.state ≠ .dead ∧ 4 ≤ payload.length ∧
      loomGetCpu e t.loom (i32At payload 0) = some ci)
    {s' : LState} (hs : specThread (absOf e.threads) ti v ci = some s')
    {g : Nat} (hg : e.phys g) (h2 : 2 ≤ runCount s' g) :
    ∃ err, preThread e ti v payload = .error err := by
  apply not_ok_err
  intro hacc
  obtain ⟨s'', hs'', hno⟩ := (thread_accept_iff h ht hv hx).mp hacc
  rw [hs] at hs''
  cases hs''
  have := hno g hg
  omega

/-- In particular: executing a thread on a physical CPU that already has a running thread. -/
theorem execute_on_busy_rejected {e : Emu} (h : WF e) {ti : Nat} {t : Thread} (ht : e.threads[ti]? = some t)
    {payload : List Nat} {ci : Nat} (hst : t.state = .unknown) (hlen : 4 ≤ payload.length)
    (hci : loomGetCpu e t.loom (i32At payload 0) = some ci) (hphys : e.phys ci)
    (hbusy : 1 ≤ runCount (absOf e.threads) ci) :
    ∃ err, preThread e ti 120 payload = .error err := by
  have habs : (absOf e.threads)[ti]? = some (t.state, t.cpu) := by
    unfold absOf; rw [List.getElem?_map, ht]; rfl
  refine thread_oversub_rejected h ht (by decide) (fun _ => ⟨by rw [hst]; decide, hlen, hci⟩)
    (s' := (absOf e.threads).set ti (.running, some ci)) ?_ hphys ?_
  · unfold specThread
    simp only [habs, hst]
    rfl
  · have := runCount_set (new := (ThState.running, some ci)) habs ci
    simp only [hst] at this
    simp at this
    omega

/-- **Local affinity change (OAs).**  On an active thread it is accepted iff the result leaves no
    physical CPU oversubscribed; the thread is then bound to the named CPU and the state is
    well-formed again (so `cpu_view` holds after it). -/
theorem affinity_set_accept_iff {e : Emu} (h : WF e) {ti : Nat} {t : Thread} (ht : e.threads[ti]? = some t)
    {payload : List Nat} {ci : Nat} (hlen : payload.length = 4)
    (hci : loomGetCpu e t.loom (i32At payload 0) = some ci) (hact : t.state.isActive = true) :
    ((∃ e1, preAffinitySet e ti payload = .ok e1) ↔
        NoOversub e.phys ((absOf e.threads).set ti (t.state, some ci))) ∧
    (∀ e1, preAffinitySet e ti payload = .ok e1 →
        WF e1.flushAll ∧ absOf e1.flushAll.threads = (absOf e.threads).set ti (t.state, some ci)) := by
  have hver := preAffinitySet_verdict h ht hlen hci
  simp only [hact, if_true] at hver
  exact ⟨hver.1, fun e1 h1 => ⟨(hver.2.1 e1 h1).wf, (hver.2.1 e1 h1).abs⟩⟩

theorem affinity_set_oversub_rejected {e : Emu} (h : WF e) {ti : Nat} {t : Thread}
    (ht : e.threads[ti]? = some t) {payload : List Nat} {ci : Nat} (hlen : payload.length = 4)
    (hci : loomGetCpu e t.loom (i32At payload 0) = some ci) (hact : t.state.isActive = true)
    {g : Nat} (hg : e.phys g) (h2 : 2 ≤ runCount ((absOf e.threads).set ti (t.state, some ci)) g) :
    ∃ err, preAffinitySet e ti payload = .error err := by
  apply not_ok_err
  intro hacc
  have := ((affinity_set_accept_iff h ht hlen hci hact).1.mp hacc) g hg
  omega

/-- **Remote affinity change (OAr)** of thread `r` (found by TID in the sender's process, then
    loom) to a CPU different from its current one: accepted iff `r` has started and is not dead
    and the result leaves no physical CPU oversubscribed; `r` is then bound to the named CPU. -/
theorem affinity_remote_accept_iff {e : Emu} (h : WF e) {ti : Nat} {t : Thread} (ht : e.threads[ti]? = some t)
    {payload : List Nat} {ci : Nat} {r : Thread} (hlen : payload.length = 8)
    (hr : findRemote e t (i32At payload 1) = some r)
    (hci : loomGetCpu e t.loom (i32At payload 0) = some ci) (hdiff : r.cpu ≠ some ci) :
    ((∃ e1, preAffinityRemote e ti payload = .ok e1) ↔
        (r.state ≠ .dead ∧ r.state ≠ .unknown ∧
          NoOversub e.phys ((absOf e.threads).set r.gindex (r.state, some ci)))) ∧
    (∀ e1, preAffinityRemote e ti payload = .ok e1 →
        WF e1.flushAll ∧ absOf e1.flushAll.threads = (absOf e.threads).set r.gindex (r.state, some ci)) := by
  have hver := preAffinityRemote_verdict h ht hlen hr hci hdiff
  by_cases hd : r.state = .dead ∨ r.state = .unknown
  · simp only [hd, if_true] at hver
    obtain ⟨err, he⟩ := hver
    refine ⟨⟨?_, ?_⟩, ?_⟩
    · rintro ⟨e1, h1⟩; rw [he] at h1; cases h1
    · rintro ⟨h1, h2, _⟩; rcases hd with hd | hd
      · exact absurd hd h1
      · exact absurd hd h2
    · intro e1 h1; rw [he] at h1; cases h1
  · simp only [hd, if_false] at hver
    have hd' := not_or.mp hd
    refine ⟨⟨fun hacc => ⟨hd'.1, hd'.2, hver.1.mp hacc⟩, fun hh => hver.1.mpr hh.2.2⟩, ?_⟩
    exact fun e1 h1 => ⟨(hver.2.1 e1 h1).wf, (hver.2.1 e1 h1).abs⟩

theorem affinity_remote_oversub_rejected {e : Emu} (h : WF e) {ti : Nat} {t : Thread}
    (ht : e.threads[ti]? = some t) {payload : List Nat} {ci : Nat} {r : Thread} (hlen : payload.length = 8)
    (hr : findRemote e t (i32At payload 1) = some r)
    (hci : loomGetCpu e t.loom (i32At payload 0) = some ci) (hdiff : r.cpu ≠ some ci)
    {g : Nat} (hg : e.phys g) (h2 : 2 ≤ runCount ((absOf e.threads).set r.gindex (r.state, some ci)) g) :
    ∃ err, preAffinityRemote e ti payload = .error err := by
  apply not_ok_err
  intro hacc
  have := ((affinity_remote_accept_iff h ht hlen hr hci hdiff).1.mp hacc).2.2 g hg
  omega

/-- The model mirrors the implementation: a remote affinity change whose target is the CPU the
    thread already has is an error (second write of a dirty channel, or the duplicate value on the
    affinity channel).  The property does not speak about this case. -/
theorem remote_same_cpu_rejected {e : Emu} (h : WF e) {ti : Nat} {t : Thread}
    (ht : e.threads[ti]? = some t) {payload : List Nat} {ci : Nat} {r : Thread}
    (hr : findRemote e t (i32At payload 1) = some r)
    (hci : loomGetCpu e t.loom (i32At payload 0) = some ci) (hsame : r.cpu = some ci) :
    ∃ err, preAffinityRemote e ti payload = .error err :=
  preAffinityRemote_same_cpu_err h ht hr hci hsame

section
variable (th mh : Emu → Nat → Nat → Nat → List Nat → Except Err Emu)

/-- **CPU view.**  In every state reached by accepted thread and affinity events (execute, end,
    state changes, local and remote affinity changes), for every CPU: the nrun, tid and pid
    channels are clean; Paraver shows for nrun the number of running threads bound to the CPU
    (the channel holds that number, or is still empty while it is 0 and the CPU was never
    updated); the tid / pid channels hold the TID / PID of the running thread when it is unique
    and nothing otherwise. -/
theorem cpu_view {e0 e : Emu} (h0 : WF e0) (hen : e0.enabled.contains 79 = true)
    {hist : List OEv} (hh : Hist hist) (hr : emuRun th mh e0 hist = .ok e)
    {g : Nat} {c : Cpu} (hc : e.cpus[g]? = some c) :
    c.chNrun.dirty = false ∧ c.chTid.dirty = false ∧ c.chPid.dirty = false ∧
    prvValue prvZero c.chNrun.cur = .ok (runningOn e.threads g).length ∧
    c.chTid.cur = uniqueOr (runningOn e.threads g) (·.tid) ∧
    c.chPid.cur = uniqueOr (runningOn e.threads g) (·.pid) := by
  obtain ⟨hw, _⟩ := emuRun_wf th mh h0 hen hist hh hr
  obtain ⟨vn, hch, hn⟩ := (hw.cpu g c hc).vals
  rw [runningOn_eq]
  refine ⟨hch.nrun.clean, hch.tid.clean, hch.pid.clean, ?_, hch.tid.cur, hch.pid.cur⟩
  rw [hch.nrun.cur]
  rcases hn with hn | ⟨hn, h0⟩
  · rw [hn]; rfl
  · rw [hn, h0]; rfl

/-- The same for one accepted step from any well-formed state. -/
theorem cpu_view_step {e e' : Emu} (h : WF e) (hen : e.enabled.contains 79 = true) {ev : OEv}
    (hk : IsThreadEv ev ∨ IsAffinityEv ev) {rs : List PrvRec}
    (hs : stepEv e ev.1 79 ev.2.1 ev.2.2.1 ev.2.2.2 th mh = .ok (e', rs))
    {g : Nat} {c : Cpu} (hc : e'.cpus[g]? = some c) :
    prvValue prvZero c.chNrun.cur = .ok (runningOn e'.threads g).length ∧
    c.chTid.cur = uniqueOr (runningOn e'.threads g) (·.tid) ∧
    c.chPid.cur = uniqueOr (runningOn e'.threads g) (·.pid) ∧
    (c.virt = false → (runningOn e'.threads g).length ≤ 1) := by
  have hrun : emuRun th mh e [ev] = .ok e' := by
    unfold emuRun; rw [stepEv_emuStep th mh hs]; rfl
  have hh : Hist [ev] := by intro ev' h'; rw [List.mem_singleton.mp h']; exact hk
  obtain ⟨_, _, _, a, b, c'⟩ := cpu_view th mh h hen hh hrun hc
  exact ⟨a, b, c', no_phys_oversub th mh h hen hh hrun hc⟩
end

/-! ## The Paraver records of a step -/

section
variable (th mh : Emu → Nat → Nat → Nat → List Nat → Except Err Emu)

/-- **CPU records of a step.**  In an accepted `stepEv` of a thread or affinity event, whenever the
    nrun / tid / pid channel of CPU `g` was modified, the step emits on row `g + 1` of cpu.prv a
    record of type `prvCpuNrun` / `prvCpuTid` / `prvCpuPid` whose value is the number of running
    threads bound to the CPU after the step / the TID / PID of that thread when it is unique
    (0 = nothing otherwise). -/
theorem cpu_records {e e1 : Emu} (h : WF e) (hen : e.enabled.contains 79 = true) {ev : OEv}
    (hk : IsThreadEv ev ∨ IsAffinityEv ev) {rs : List PrvRec}
    (hm : modelEvent e ev.1 79 ev.2.1 ev.2.2.1 ev.2.2.2 th mh = .ok e1) (hrec : records e e1 = .ok rs)
    {g : Nat} {c1 : Cpu} (hc : e1.cpus[g]? = some c1) :
    (c1.chNrun.dirty = true →
      (⟨1, g + 1, prvCpuNrun, (runningOn e1.flushAll.threads g).length⟩ : PrvRec) ∈ rs) ∧
    (c1.chTid.dirty = true →
      ∃ v, prvValue 0 (uniqueOr (runningOn e1.flushAll.threads g) (·.tid)) = .ok v ∧
        (⟨1, g + 1, prvCpuTid, v⟩ : PrvRec) ∈ rs) ∧
    (c1.chPid.dirty = true →
      ∃ v, prvValue 0 (uniqueOr (runningOn e1.flushAll.threads g) (·.pid)) = .ok v ∧
        (⟨1, g + 1, prvCpuPid, v⟩ : PrvRec) ∈ rs) := by
  have hs : stepEv e ev.1 79 ev.2.1 ev.2.2.1 ev.2.2.2 th mh = .ok (e1.flushAll, rs) :=
    (stepEv_ok_iff th mh e ev _ rs).mpr ⟨e1, hm, hrec, rfl⟩
  have hrun : emuRun th mh e [ev] = .ok e1.flushAll := by
    unfold emuRun; rw [stepEv_emuStep th mh hs]; rfl
  have hh : Hist [ev] := by intro ev' h'; rw [List.mem_singleton.mp h']; exact hk
  have hcf : e1.flushAll.cpus[g]? = some c1.flush := by
    rw [Emu.flushAll_eq]
    show (e1.cpus.map Cpu.flush)[g]? = _
    rw [List.getElem?_map, hc]; rfl
  obtain ⟨hgi, _, _⟩ := cpu_membership_inv th mh h hen hh hrun hcf
  obtain ⟨_, _, _, vn, vt, vp⟩ := cpu_view th mh h hen hh hrun hcf
  have hg1 : c1.gindex = g := hgi
  obtain ⟨⟨r1, hr1, hs1⟩, ⟨r2, hr2, hs2⟩, ⟨r3, hr3, hs3⟩⟩ :=
    records_cpu hrec (List.mem_iff_getElem?.mpr ⟨g, hc⟩)
  rw [hg1] at hr1 hr2 hr3
  refine ⟨fun hd => ?_, fun hd => ?_, fun hd => ?_⟩
  · obtain ⟨v, hv, rfl⟩ := emitRaw_dirty_ok hd hr3
    have : (c1.flush).chNrun.cur = c1.chNrun.cur := Chan.flush_cur _
    rw [this, hv] at vn
    have hv' : v = ((runningOn e1.flushAll.threads g).length : Int) := by injection vn
    rw [← hv']
    exact hs3 _ (List.mem_singleton.mpr rfl)
  · obtain ⟨v, hv, rfl⟩ := emitRaw_dirty_ok hd hr2
    have : (c1.flush).chTid.cur = c1.chTid.cur := Chan.flush_cur _
    rw [this] at vt
    rw [vt] at hv
    exact ⟨v, hv, hs2 _ (List.mem_singleton.mpr rfl)⟩
  · obtain ⟨v, hv, rfl⟩ := emitRaw_dirty_ok hd hr1
    have : (c1.flush).chPid.cur = c1.chPid.cur := Chan.flush_cur _
    rw [this] at vp
    rw [vp] at hv
    exact ⟨v, hv, hs1 _ (List.mem_singleton.mpr rfl)⟩
end

/-! ## The full step: record emission never fails on accepted thread / affinity events -/

section
variable (th mh : Emu → Nat → Nat → Nat → List Nat → Except Err Emu)

/-- **Record emission is total** for OH{x,c,p,w,r,e}, OAs and OAr: in a well-formed state satisfying
    `NoZeroIds`, whenever the handlers accept the event, `records` succeeds (thread rows: the new CPU
    is `gindex + 1 ≥ 1`; CPU rows: nrun has PRV_ZERO, pid / tid are those of the unique running thread
    — non-zero — or nothing; the model views move with the thread and show untouched model-channel
    values or CPU-mux defaults), and `NoZeroIds` holds again after the step. -/
theorem records_total_affinity {e e1 : Emu} (h : WF e) (hz : NoZeroIds e) (hen : e.enabled.contains 79 = true)
    {ev : OEv} (hk : IsThreadEv ev ∨ IsAffinityEv ev)
    (hm : modelEvent e ev.1 79 ev.2.1 ev.2.2.1 ev.2.2.2 th mh = .ok e1) :
    (∃ rs, records e e1 = .ok rs) ∧ NoZeroIds e1.flushAll :=
  records_total_step th mh h hz hen hk hm

/-- the fold of the full `stepEv` over a history of thread and affinity events: final state and
    the records of every step -/
def stepRunO (e : Emu) : List OEv → Except Err (Emu × List (List PrvRec))
  | [] => .ok (e, [])
  | ev :: rest =>
    match stepEv e ev.1 79 ev.2.1 ev.2.2.1 ev.2.2.2 th mh with
    | .error err => .error err
    | .ok (e', rs) =>
      match stepRunO e' rest with
      | .error err => .error err
      | .ok (e'', rss) => .ok (e'', rs :: rss)

/-- **The full step reaches exactly the states of `emuRun`.**  From a well-formed state satisfying
    `NoZeroIds`, a history of thread and affinity events is accepted by the fold of the full `stepEv`
    (handlers, Paraver record emission, flush) with final state `e` **iff** `emuRun` accepts it with
    final state `e`: the reachable states of `cpu_membership_inv`, `no_phys_oversub` and `cpu_view`
    are those of the complete emulation step. -/
theorem stepRun_iff_emuRun : ∀ (hist : List OEv) (e0 : Emu), WF e0 → NoZeroIds e0 →
    e0.enabled.contains 79 = true → Hist hist → ∀ e,
      (∃ rss, stepRunO th mh e0 hist = .ok (e, rss)) ↔ emuRun th mh e0 hist = .ok e
  | [], e0, _, _, _, _, e => by
    unfold stepRunO emuRun
    constructor
    · rintro ⟨rss, h⟩
      injection h with h
      have : e0 = e := congrArg Prod.fst h
      rw [this]
    · intro h
      injection h with h
      exact ⟨[], by rw [h]⟩
  | ev :: rest, e0, h0, hz, hen, hh, e => by
    have hk := hh ev List.mem_cons_self
    have hh' : Hist rest := fun ev' h' => hh ev' (List.mem_cons_of_mem _ h')
    unfold stepRunO emuRun
    constructor
    · rintro ⟨rss, h⟩
      cases hs : stepEv e0 ev.1 79 ev.2.1 ev.2.2.1 ev.2.2.2 th mh with
      | error err => simp only [hs] at h; cases h
      | ok p =>
        obtain ⟨e', rs⟩ := p
        simp only [hs] at h
        have hes := stepEv_emuStep th mh hs
        rw [hes]
        simp only
        obtain ⟨tj, x, hso⟩ := emuStep_sound th mh h0 hen hk hes
        cases hr : stepRunO th mh e' rest with
        | error err => simp only [hr] at h; cases h
        | ok q =>
          obtain ⟨e3, rss'⟩ := q
          simp only [hr] at h
          have : e3 = e := by injection h with h; exact congrArg Prod.fst h
          subst this
          exact (stepRun_iff_emuRun rest e' hso.wf (hz.of_static hso.static)
            (by rw [hso.static.enabled]; exact hen) hh' e3).mp ⟨rss', hr⟩
    · intro h
      cases hes : emuStep th mh e0 ev with
      | error err => simp only [hes] at h; cases h
      | ok e' =>
        simp only [hes] at h
        obtain ⟨rs, hs⟩ := (stepEv_iff_emuStep th mh h0 hz hen hk e').mpr hes
        obtain ⟨tj, x, hso⟩ := emuStep_sound th mh h0 hen hk hes
        obtain ⟨rss, hr⟩ := (stepRun_iff_emuRun rest e' hso.wf (hz.of_static hso.static)
          (by rw [hso.static.enabled]; exact hen) hh' e).mpr h
        exact ⟨rs :: rss, by simp only [hs, hr]⟩
end


/-! ## Witnesses -/

/-- thread 0 and thread 1 both execute on the virtual CPU (index -1 = 0xffffffff) -/
def vPayload : List Nat := [255, 255, 255, 255, 255, 255, 255, 255, 0, 0, 0, 0, 0, 0, 0, 0]

/-- **The virtual CPU may be oversubscribed**: the history is accepted and leaves two running
    threads on the virtual CPU (global index 2), whose nrun channel shows 2 and whose tid
    channel shows nothing. -/
theorem vcpu_may_oversub :
    ((emuRun noHook noHook demo [(0, 72, 120, vPayload), (1, 72, 120, vPayload)]).toOption.map fun e =>
      (absOf e.threads, (e.cpus[2]?).map fun c => (c.virt, c.threads, c.chNrun.cur, c.chTid.cur))) =
    some ([(.running, some 2), (.running, some 2)], some (true, [0, 1], .int 2, .null)) := by
  decide

/-- the same two executes on physical CPU 0 are refused with the oversubscription error -/
theorem phys_oversub_witness :
    (match emuRun noHook noHook demo [(0, 72, 120, xPayload 0), (1, 72, 120, xPayload 0)] with
      | .error .oversub => true | _ => false) = true := by decide

/-- payloads of OAs (cpu index) and OAr (cpu index, tid) -/
def sPayload (i : Nat) : List Nat := [i, 0, 0, 0]
def rPayload (i tid : Nat) : List Nat := [i, 0, 0, 0, tid, 0, 0, 0]

/-- a reachable state exercising both affinity events: thread 0 runs on CPU 0 and moves itself to
    CPU 1 (OAs); thread 1 runs on the virtual CPU and is moved by thread 0 to CPU 0 (OAr) -/
def demoAff : List OEv :=
  [(0, 72, 120, xPayload 0), (1, 72, 120, vPayload), (0, 65, 115, sPayload 1), (0, 65, 114, rPayload 0 11)]

example : Hist demoAff := by
  intro ev hev
  simp only [demoAff, List.mem_cons, List.not_mem_nil, or_false] at hev
  rcases hev with rfl | rfl | rfl | rfl
  · exact Or.inl ⟨rfl, by decide⟩
  · exact Or.inl ⟨rfl, by decide⟩
  · exact Or.inr ⟨rfl, Or.inl rfl⟩
  · exact Or.inr ⟨rfl, Or.inr rfl⟩

example :
    ((emuRun noHook noHook demo demoAff).toOption.map fun e =>
      (absOf e.threads, e.cpus.map fun c => (c.threads, c.chNrun.cur, c.chTid.cur, c.chPid.cur))) =
    some ([(.running, some 1), (.running, some 0)],
      [([1], .int 1, .int 11, .int 100), ([0], .int 1, .int 10, .int 100), ([], .int 0, .null, .null)]) := by
  decide

/-- the full step accepts the affinity history and emits 6, 6, 7 and 7 records (a migration writes
    the new CPU on the thread's row, clears the old CPU's row and fills the new CPU's) -/
example : NoZeroIds demo := by decide
example : ((stepRunO noHook noHook demo demoAff).toOption.map fun r => r.2.map List.length) =
    some [6, 6, 7, 7] := by decide

/-- a remote migration to the thread's own CPU is rejected (documented behaviour of the code) -/
example : (match emuRun noHook noHook demo
      [(0, 72, 120, xPayload 0), (1, 72, 120, xPayload 1), (0, 65, 114, rPayload 1 11)] with
    | .error _ => true | .ok _ => false) = true := by decide

end Ovni.Props.C05
