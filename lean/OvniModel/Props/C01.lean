import OvniModel.Rt.Buffer
import OvniModel.Lemmas.Rt
import OvniModel.Lemmas.RtEvent
import OvniModel.Generated.Consts

/-!
# C01 — runtime stream fidelity

Model: `Rt/Event.lean`, `Rt/Buffer.lean` (transcription of `src/rt/ovni.c`).
`cap` (OVNI_MAX_EV_BUF) is a parameter: every theorem holds for every
capacity above 24 bytes, hence for every alignment of the buffer-full boundary.
-/
set_option linter.unusedSectionVars false
set_option linter.unusedSimpArgs false
namespace Ovni.Props.C01
open Ovni.Rt
variable {D : Type} [JData D]

/-! ### Payload encoding -/

/-- The payload sizes the API accepts: chunks of at least 2 bytes, 16 in total. -/
def ChunksOK (chs : List (List Nat)) : Prop := (∀ c ∈ chs, 2 ≤ c.length) ∧ chs.flatten.length ≤ 16

/-- A fresh event (`struct ovni_ev ev = {0}` + set_mcv/set_clock). -/
def Fresh (e : Ev) : Prop := e.flags = 0 ∧ e.payload = []

theorem fresh_wf (e : Ev) (h : Fresh e) : e.WF := by
  obtain ⟨hf, hp⟩ := h
  exact ⟨by rw [hf, hp]; rfl, by omega⟩

/-- `ovni_payload_add` accepts exactly the documented sizes, and afterwards the
    size nibble decodes to the number of bytes added, which are the
    concatenation of the chunks: payload sizes 0, 2..16 round-trip. -/
theorem payload_roundtrip (e : Ev) (he : Fresh e) (chs : List (List Nat)) :
    (∀ e', payloadAddAll e chs = some e' →
        e'.payload = chs.flatten ∧ payloadSize e'.flags = chs.flatten.length ∧ ChunksOK chs ∧
        e'.m = e.m ∧ e'.c = e.c ∧ e'.v = e.v ∧ e'.clock = e.clock) ∧
    (ChunksOK chs → (payloadAddAll e chs).isSome = true) := by
  have hw := fresh_wf e he
  constructor
  · intro e' h
    obtain ⟨w, p, l, t, rest⟩ := payloadAddAll_spec e e' chs hw h
    rw [he.2] at p t
    simp only [List.nil_append, List.length_nil, Nat.zero_add] at p t
    exact ⟨p, by rw [w.size, p], ⟨l, t⟩, rest⟩
  · intro ⟨h2, h16⟩
    apply payloadAddAll_accepts e chs hw h2
    rw [he.2]; simpa using h16

/-! ### Decoder round trip -/

/-- Any sequence of records the library produces decodes back, event by event,
    to exactly those records: MCV, clock, payload and jumbo data byte for byte,
    and the events tile the byte string. -/
theorem decode_encode (rs : List (Rec D)) (h : ∀ r ∈ rs, r.WF) :
    decodeAll (rs.flatMap Rec.encode).length (rs.flatMap Rec.encode) = some (rs.map Rec.toDec) :=
  decodeAll_encode rs h _ (Nat.le_refl _)

theorem decode_stream (magic : List Nat) (hm : magic.length = 4) (version : Nat)
    (rs : List (Rec D)) (h : ∀ r ∈ rs, r.WF) :
    decodeStream magic version (streamHeader magic version ++ rs.flatMap Rec.encode) =
      some (rs.map Rec.toDec) := by
  unfold decodeStream
  have hl : (streamHeader magic version).length = 8 := by simp [streamHeader, le_length, hm]
  have t : (streamHeader magic version ++ rs.flatMap Rec.encode).take 8 = streamHeader magic version := by
    rw [List.take_append_of_le_length (by omega), List.take_of_length_le (by omega)]
  have d : (streamHeader magic version ++ rs.flatMap Rec.encode).drop 8 = rs.flatMap Rec.encode := by
    rw [List.drop_append_of_le_length (by omega), List.drop_of_length_le (by omega)]; rfl
  simp only [t, d, List.length_append, hl, true_and]
  have : 8 ≤ 8 + (rs.flatMap Rec.encode).length := by omega
  simp only [this, if_true]
  exact decodeAll_encode rs h _ (by omega)

/-! ### What each API call hands to the library -/

/-- The user records an operation hands over (given the clock the library
    would read), independent of the buffer state. -/
def handed (cap : Nat) (s : St D) : Op D → List (Rec D)
  | .emit e ch => match payloadAddAll e ch with
    | some e' => [.ev e'] | none => []
  | .emitNow e ch => match payloadAddAll { e with clock := s.now } ch with
    | some e' => [.ev e'] | none => []
  | .jumbo e ch d => match jumboRec cap e ch d with
    | some r => [r] | none => []
  | .jumboNow e ch d => match jumboRec cap { e with clock := s.now } ch d with
    | some r => [r] | none => []
  | .mark k t v => match payloadAddAll { m := 79, c := 77, v := k, clock := s.now } [sle 8 v, sle 4 t] with
    | some e' => [.ev e'] | none => []
  | _ => []

/-- A flush marker: library origin, `OF[` or `OF]`, no payload. -/
def IsMarker (x : Rec D × Origin) : Prop :=
  x.2 = .lib ∧ ∃ t, x.1 = markerOpen t ∨ x.1 = markerClose t

def userOf (l : List (Rec D × Origin)) : List (Rec D) :=
  l.filterMap (fun x => if x.2 = .user then some x.1 else none)

theorem userOf_append (a b : List (Rec D × Origin)) : userOf (a ++ b) = userOf a ++ userOf b := by
  simp [userOf]

theorem userOf_map_user (l : List (Rec D)) : userOf (l.map (fun r => (r, Origin.user))) = l := by
  induction l with
  | nil => rfl
  | cons x xs ih =>
    simp only [userOf, List.map_cons, List.filterMap_cons, if_true] at ih ⊢
    rw [ih]

theorem userOf_markers (ms : List (Rec D × Origin)) (h : ∀ x ∈ ms, IsMarker x) : userOf ms = [] := by
  induction ms with
  | nil => rfl
  | cons x xs ih =>
    have hx := (h x (by simp)).1
    simp only [userOf, List.filterMap_cons, hx]
    have := ih (fun y hy => h y (by simp [hy]))
    simpa [userOf] using this

/-- Reachability invariant used below. -/
structure Good (cap : Nat) (s : St D) : Prop where
  inv : Inv cap s
  fresh : s.ready = false → s.finished = false → s.buf = []

/-- Effect of one successful `ovni_ev_add` on the produced sequence: the
    record, then possibly the library's marker pair; the bookkeeping invariant
    is kept. -/
theorem evAdd_effect (cap : Nat) (hcap : 24 < cap) (s s' : St D) (r : Rec D) (o : Origin)
    (hi : Inv cap s) (h : evAdd cap addFuel s r o = some s') :
    ∃ ms, s'.all = s.all ++ (r, o) :: ms ∧ (∀ x ∈ ms, IsMarker x) ∧ Inv cap s' ∧
      s'.ready = true ∧ s'.finished = s.finished ∧ s'.hdrOnDisk = s.hdrOnDisk ∧ s.now ≤ s'.now := by
  have hr : s.ready = true := by
    cases hrd : s.ready with
    | true => rfl
    | false => rw [evAdd_not_ready cap addFuel s r o hrd] at h; cases h
  rw [show addFuel = 2 + 2 from rfl, evAdd_eq cap hcap 2 s r o hr] at h
  simp only [Option.some.injEq] at h
  split at h
  · subst h
    refine ⟨[(markerOpen s.now, .lib), (markerClose (s.now + s.tick), .lib)], ?_, ?_, ?_, ?_, ?_, ?_, ?_⟩
    · rw [flushedForm_all]
    · intro x hx
      simp only [List.mem_cons, List.mem_nil_iff, or_false] at hx
      rcases hx with hx | hx
      · subst hx; exact ⟨rfl, s.now, Or.inl rfl⟩
      · subst hx; exact ⟨rfl, s.now + s.tick, Or.inr rfl⟩
    · exact flushedForm_inv cap hcap s r o
    · simp [flushedForm, hr]
    · simp [flushedForm]
    · simp [flushedForm]
    · simp [flushedForm]; omega
  · rename_i hfit
    subst h
    exact ⟨[], by rw [append_all], by simp, append_inv cap s r o hi hfit, by simp [hr], rfl, rfl,
      Nat.le_refl _⟩

theorem markers_append {a b : List (Rec D × Origin)} (ha : ∀ x ∈ a, IsMarker x)
    (hb : ∀ x ∈ b, IsMarker x) : ∀ x ∈ a ++ b, IsMarker x := by
  intro x hx
  rcases List.mem_append.1 hx with h | h
  · exact ha x h
  · exact hb x h

/-- `ovni_flush()`: everything produced before it is in the file afterwards;
    the buffer holds only the new marker pair. -/
theorem flush_effect (cap : Nat) (hcap : 24 < cap) (s s' : St D) (h : flush cap s = some s') :
    s'.disk = s.disk ++ s.buf ∧ (∀ x ∈ s'.buf, IsMarker x) ∧ Inv cap s' ∧ s'.ready = true ∧
      s'.finished = s.finished ∧ s'.hdrOnDisk = s.hdrOnDisk := by
  unfold flush at h
  cases hr : s.ready with
  | false => simp [hr] at h
  | true =>
    simp only [hr, Bool.not_true, Bool.false_eq_true, if_false] at h
    have e1 := evAdd_two_markers (D := D) cap 3 ((s.clockNow.2.flushBuf).clockNow.2) (by simp [hr])
      s.now (s.now + s.tick) (by simp; omega)
    rw [show addFuel = 3 + 1 from rfl] at h
    have h' := e1.symm.trans h
    simp only [Option.some.injEq] at h'
    subst h' 
    refine ⟨by simp, ?_, ⟨by simp [sizes], by simp; omega⟩, by simp [hr], by simp, by simp⟩
    intro x hx
    simp only [append_buf, clockNow_buf, flushBuf_buf, List.nil_append, List.cons_append,
      List.mem_cons, List.mem_nil_iff, or_false] at hx
    rcases hx with hx | hx
    · subst hx; exact ⟨rfl, s.now, Or.inl rfl⟩
    · subst hx; exact ⟨rfl, s.now + s.tick, Or.inr rfl⟩

/-- Every operation that returns appends exactly what the user handed over
    (nothing, or one record) followed only by flush markers: no event is lost,
    duplicated or reordered, whatever the position of the buffer-full boundary. -/
theorem step_fidelity (cap : Nat) (hcap : 24 < cap) (s s' : St D) (op : Op D)
    (hg : Good cap s) (h : step cap s op = some s') :
    (∃ ms, s'.all = s.all ++ (handed cap s op).map (fun r => (r, Origin.user)) ++ ms ∧
        (∀ x ∈ ms, IsMarker x)) ∧ Good cap s' ∧ (s.hdrOnDisk = true → s'.hdrOnDisk = true) := by
  have hi := hg.inv
  cases op with
  | init =>
    simp only [step, threadInit] at h
    split at h
    · cases h; exact ⟨⟨[], by simp [handed], by simp⟩, hg, id⟩
    · rename_i hnr
      split at h
      · cases h
      · rename_i hnf
        cases h
        have hb := hg.fresh (by simpa using hnr) (by simpa using hnf)
        refine ⟨⟨[], ?_, by simp⟩, ⟨⟨by simp, ?_⟩, by simp⟩, fun _ => rfl⟩
        · simp [St.all, handed, hb]
        · have := hi.lt; simp; omega
  | emit e ch =>
    simp only [step, emit] at h
    cases hp : payloadAddAll e ch with
    | none => rw [hp] at h; cases h
    | some e' =>
      rw [hp] at h
      obtain ⟨ms, ha, hm, hinv, hr', hf', hh, _⟩ := evAdd_effect cap hcap s s' _ _ hi h
      refine ⟨⟨ms, ?_, hm⟩, ⟨hinv, by simp [hr']⟩, fun x => by rw [hh]; exact x⟩
      simp [handed, hp, ha]
  | emitNow e ch =>
    simp only [step, emit] at h
    cases hp : payloadAddAll { e with clock := s.now } ch with
    | none => simp only [clockNow_fst] at h; rw [hp] at h; cases h
    | some e' =>
      simp only [clockNow_fst] at h
      rw [hp] at h
      have hi1 : Inv cap s.clockNow.2 := ⟨hi.len, hi.lt⟩
      obtain ⟨ms, ha, hm, hinv, hr', hf', hh, _⟩ := evAdd_effect cap hcap _ s' _ _ hi1 h
      refine ⟨⟨ms, ?_, hm⟩, ⟨hinv, by simp [hr']⟩, fun x => by rw [hh]; exact x⟩
      simp only [handed, hp, ha]
      simp [St.all]
  | jumbo e ch d =>
    simp only [step, emitJumbo] at h
    split at h
    · cases h
    · cases hp : jumboRec cap e ch d with
      | none => rw [hp] at h; cases h
      | some r =>
        rw [hp] at h
        obtain ⟨ms, ha, hm, hinv, hr', hf', hh, _⟩ := evAdd_effect cap hcap s s' _ _ hi h
        refine ⟨⟨ms, ?_, hm⟩, ⟨hinv, by simp [hr']⟩, fun x => by rw [hh]; exact x⟩
        simp [handed, hp, ha]
  | jumboNow e ch d =>
    simp only [step, emitJumbo, clockNow_fst, clockNow_ready] at h
    cases hrd : s.ready with
    | false => simp [hrd] at h
    | true =>
      simp only [hrd, Bool.not_true, Bool.false_eq_true, if_false] at h
      cases hp : jumboRec cap { e with clock := s.now } ch d with
      | none => rw [hp] at h; cases h
      | some r =>
        rw [hp] at h
        have hi1 : Inv cap s.clockNow.2 := ⟨hi.len, hi.lt⟩
        obtain ⟨ms, ha, hm, hinv, hr', hf', hh, _⟩ := evAdd_effect cap hcap _ s' _ _ hi1 h
        refine ⟨⟨ms, ?_, hm⟩, ⟨hinv, by simp [hr']⟩, fun x => by rw [hh]; exact x⟩
        simp only [handed, hp, ha]
        simp [St.all]
  | flush =>
    simp only [step] at h
    obtain ⟨hd, hb, hinv, hr', _, hh⟩ := flush_effect cap hcap s s' h
    refine ⟨⟨s'.buf, ?_, hb⟩, ⟨hinv, by simp [hr']⟩, fun x => by rw [hh]; exact x⟩
    simp [St.all, hd, handed]
  | mark k t v =>
    simp only [step, mark] at h
    split at h
    · cases h
    · simp only [clockNow_fst, emit] at h
      cases hp : payloadAddAll { m := 79, c := 77, v := k, clock := s.now } [sle 8 v, sle 4 t] with
      | none => rw [hp] at h; cases h
      | some e' =>
        rw [hp] at h
        have hi1 : Inv cap s.clockNow.2 := ⟨hi.len, hi.lt⟩
        obtain ⟨ms, ha, hm, hinv, hr', hf', hh, _⟩ := evAdd_effect cap hcap _ s' _ _ hi1 h
        refine ⟨⟨ms, ?_, hm⟩, ⟨hinv, by simp [hr']⟩, fun x => by rw [hh]; exact x⟩
        simp only [handed, hp, ha]
        simp [St.all]
  | setTick n =>
    simp only [step, Option.some.injEq] at h
    subst h
    exact ⟨⟨[], by simp [St.all, handed], by simp⟩, ⟨⟨hi.len, hi.lt⟩, hg.fresh⟩, id⟩
  | metaOp =>
    simp only [step] at h
    split at h
    · cases h; exact ⟨⟨[], by simp [handed], by simp⟩, hg, id⟩
    · cases h
  | free =>
    simp only [step, threadFree] at h
    split at h
    · cases h
    · split at h
      · cases h
      · cases h
        exact ⟨⟨[], by simp [St.all, handed], by simp⟩, ⟨⟨hi.len, hi.lt⟩, by simp⟩, id⟩

/-- All user records handed over by a program, in call order. -/
def handedAll (cap : Nat) : St D → List (Op D) → List (Rec D)
  | _, [] => []
  | s, op :: ops =>
    handed cap s op ++ (match step cap s op with
      | some s' => handedAll cap s' ops
      | none => [])

/-- **Fidelity over whole programs**: after any program that does not abort,
    the user records in (file ++ buffer) are exactly the records handed over,
    each once, in call order; everything else that was added is a flush marker;
    `evlen` is exact and below the capacity. -/
theorem run_fidelity (cap : Nat) (hcap : 24 < cap) (ops : List (Op D)) (s s' : St D)
    (hg : Good cap s) (h : run cap s ops = some s') :
    userOf s'.all = userOf s.all ++ handedAll cap s ops ∧
    (∃ rest, s'.all = s.all ++ rest ∧ ∀ x ∈ rest, x.2 = .lib → IsMarker x) ∧ Good cap s' ∧
    (s.hdrOnDisk = true → s'.hdrOnDisk = true) := by
  induction ops generalizing s with
  | nil =>
    simp only [run, Option.some.injEq] at h
    subst h
    exact ⟨by simp [handedAll], ⟨[], by simp, by simp⟩, hg, id⟩
  | cons op ops ih =>
    simp only [run] at h
    cases hs : step cap s op with
    | none => rw [hs] at h; cases h
    | some s1 =>
      rw [hs] at h
      obtain ⟨⟨ms, ha, hm⟩, hg1, hh1⟩ := step_fidelity cap hcap s s1 op hg hs
      obtain ⟨hu, ⟨rest, hr, hrm⟩, hg', hh'⟩ := ih s1 hg1 h
      refine ⟨?_, ⟨(handed cap s op).map (fun r => (r, Origin.user)) ++ ms ++ rest, ?_, ?_⟩, hg',
        fun x => hh' (hh1 x)⟩
      · rw [hu, ha]
        simp only [handedAll, hs, userOf_append, userOf_markers ms hm, List.append_nil,
          List.append_assoc]
        rw [userOf_map_user]
      · rw [hr, ha]; simp
      · intro x hx hl
        simp only [List.append_assoc, List.mem_append, List.mem_map] at hx
        rcases hx with ⟨r, _, rfl⟩ | hx | hx
        · cases hl
        · exact hm x hx
        · exact hrm x hx hl

/-- Initial state of a thread. -/
def init0 : St D := {}

theorem good_init0 (cap : Nat) (hcap : 0 < cap) : Good cap (init0 : St D) :=
  ⟨⟨rfl, hcap⟩, fun _ _ => rfl⟩

/-- **C01.** A thread runs `init; ops; flush; free` without aborting. Then the
    stream file begins with the header, its user events are exactly those handed
    to the library by `ops` — each once, in call order — and every other record
    in the file is one of the library's own payload-free flush markers. -/
theorem stream_fidelity (cap : Nat) (hcap : 24 < cap) (ops : List (Op D)) (s' : St D)
    (h : run cap (init0 : St D) (.init :: ops ++ [.flush, .free]) = some s') :
    s'.hdrOnDisk = true ∧
    userOf s'.disk = handedAll cap init0 (.init :: ops) ∧
    (∀ x ∈ s'.disk, x.2 = .lib → IsMarker x) := by
  -- split the run at the final flush
  have split : ∀ (l1 l2 : List (Op D)) (s : St D), run cap s (l1 ++ l2) =
      (match run cap s l1 with | none => none | some s1 => run cap s1 l2) := by
    intro l1 l2
    induction l1 with
    | nil => intro s; rfl
    | cons o l ih =>
      intro s
      simp only [List.cons_append, run]
      cases step cap s o with
      | none => rfl
      | some s1 => exact ih s1
  rw [show Op.init :: ops ++ [Op.flush, Op.free] = [Op.init] ++ (ops ++ [Op.flush, Op.free]) from rfl,
    split] at h
  -- the first step is thread_init on the initial state
  have hinit : run cap (init0 : St D) [.init] =
      some { (init0 : St D) with ready := true, hdrOnDisk := true, nflush := 1 } := rfl
  rw [hinit] at h
  simp only at h
  generalize hs0 : ({ (init0 : St D) with ready := true, hdrOnDisk := true, nflush := 1 } : St D) = s0 at h
  have hg0 : Good cap s0 := by
    subst hs0; exact ⟨⟨rfl, by show 0 < cap; omega⟩, fun hr _ => by cases hr⟩
  have hh0 : s0.hdrOnDisk = true := by subst hs0; rfl
  have hall0 : s0.all = [] := by subst hs0; rfl
  have hnow0 : s0.now = (init0 : St D).now := by subst hs0; rfl
  rw [split] at h
  cases h1 : run cap s0 ops with
  | none => rw [h1] at h; cases h
  | some s1 =>
    rw [h1] at h
    simp only [run] at h
    cases h2 : step cap s1 .flush with
    | none => rw [h2] at h; cases h
    | some s2 =>
      rw [h2] at h
      simp only at h
      cases h3 : step cap s2 .free with
      | none => rw [h3] at h; cases h
      | some s3 =>
        rw [h3] at h
        simp only [Option.some.injEq] at h
        subst h
        obtain ⟨hu, ⟨rest, hr, hrm⟩, hg1, hh1⟩ := run_fidelity cap hcap ops s0 s1 hg0 h1
        simp only [step] at h2
        obtain ⟨hd, _, _, _, _, hh⟩ := flush_effect cap hcap s1 s2 h2
        simp only [step, threadFree] at h3
        split at h3
        · cases h3
        · split at h3
          · cases h3
          · cases h3
            refine ⟨?_, ?_, ?_⟩
            · show s2.hdrOnDisk = true
              rw [hh]; exact hh1 hh0
            · show userOf s2.disk = _
              have e : s2.disk = s1.all := hd
              rw [e, hu, hall0]
              have : handedAll cap (init0 : St D) (.init :: ops) = handedAll cap s0 ops := by
                simp only [handedAll, handed, List.nil_append]
                have : step cap (init0 : St D) .init = some s0 := by subst hs0; rfl
                rw [this]
              rw [this]; simp [userOf]
            · intro x hx hl
              have hx' : x ∈ s1.all := by
                have e : s2.disk = s1.all := hd
                rw [← e]; exact hx
              rw [hr, hall0] at hx'
              simp only [List.nil_append] at hx'
              exact hrm x hx' hl

/-- The bytes of the file after such a run decode (header check, exact tiling)
    to exactly the records of `disk`: together with `stream_fidelity` this is
    the byte-for-byte statement. -/
theorem file_decodes (magic : List Nat) (hm : magic.length = 4) (version : Nat) (s : St D)
    (hh : s.hdrOnDisk = true) (hw : ∀ x ∈ s.disk, x.1.WF) :
    decodeStream magic version (s.diskBytes magic version) = some (s.disk.map (fun x => x.1.toDec)) := by
  unfold St.diskBytes
  simp only [hh, if_true]
  have := decode_stream magic hm version (s.disk.map (·.1)) (by
    intro r hr
    simp only [List.mem_map] at hr
    obtain ⟨x, hx, rfl⟩ := hr
    exact hw x hx)
  have e1 : List.flatMap Rec.encode (s.disk.map (·.1)) = List.flatMap (fun r => r.1.encode) s.disk := by
    rw [List.flatMap_map]
  have e2 : (s.disk.map (·.1)).map Rec.toDec = s.disk.map (fun x => x.1.toDec) := by
    rw [List.map_map]; rfl
  rw [e1, e2] at this
  exact this

/-- The program uses the API as documented: events start from a zeroed
    `struct ovni_ev` (flags and payload only ever touched by `ovni_payload_add`). -/
def FreshEv : Op D → Prop
  | .emit e _ => Fresh e
  | .emitNow e _ => Fresh e
  | .jumbo e _ _ => Fresh e
  | .jumboNow e _ _ => Fresh e
  | _ => True

theorem jumboRec_wf (cap : Nat) (hc : cap ≤ 2 ^ 32) (e : Ev) (he : Fresh e) (chs : List (List Nat))
    (d : D) (r : Rec D) (h : jumboRec cap e chs d = some r) : r.WF := by
  unfold jumboRec at h
  cases h1 : payloadAddAll e chs with
  | none => rw [h1] at h; cases h
  | some e1 =>
    rw [h1] at h
    simp only at h
    obtain ⟨w1, _⟩ := payloadAddAll_spec e e1 chs (fresh_wf e he) h1
    split at h
    · cases h
    · rename_i hz
      have hz' : payloadSize e1.flags = 0 := by simpa using hz
      have hf0 : e1.flags = 0 := by
        have := w1.small
        rw [payloadSize_lt16 _ this] at hz'
        split at hz' <;> omega
      cases h2 : payloadAdd e1 (le 4 (JData.len d)) with
      | none => rw [h2] at h; cases h
      | some e2 =>
        rw [h2] at h
        simp only at h
        split at h
        · cases h
        · rename_i hlt
          cases h
          -- flags of e2
          unfold payloadAdd at h2
          rw [isJumbo_small _ w1.small] at h2
          simp only [Bool.false_eq_true, if_false, le_length] at h2
          rw [hz'] at h2
          simp only [Nat.zero_add] at h2
          have a1 : ¬ (4 < 2) := by omega
          have a2 : ¬ (4 > 16) := by omega
          simp only [a1, a2, if_false, Option.some.injEq] at h2
          subst h2
          refine Rec.WF.jumbo _ d ?_ ?_
          · simp [hf0]
          · omega

theorem handed_wf (cap : Nat) (hc : cap ≤ 2 ^ 32) (s : St D) (op : Op D) (hf : FreshEv op) :
    ∀ r ∈ handed cap s op, r.WF := by
  intro r hr
  cases op with
  | emit e ch =>
    simp only [handed] at hr
    cases hp : payloadAddAll e ch with
    | none => rw [hp] at hr; cases hr
    | some e' =>
      rw [hp] at hr
      simp only [List.mem_cons, List.mem_nil_iff, or_false] at hr
      subst hr
      exact Rec.WF.ev _ (payloadAddAll_spec e e' ch (fresh_wf e hf) hp).1
  | emitNow e ch =>
    simp only [handed] at hr
    cases hp : payloadAddAll { e with clock := s.now } ch with
    | none => rw [hp] at hr; cases hr
    | some e' =>
      rw [hp] at hr
      simp only [List.mem_cons, List.mem_nil_iff, or_false] at hr
      subst hr
      exact Rec.WF.ev _ (payloadAddAll_spec { e with clock := s.now } e' ch (fresh_wf _ ⟨hf.1, hf.2⟩) hp).1
  | jumbo e ch d =>
    simp only [handed] at hr
    cases hp : jumboRec cap e ch d with
    | none => rw [hp] at hr; cases hr
    | some r' =>
      rw [hp] at hr
      simp only [List.mem_cons, List.mem_nil_iff, or_false] at hr
      subst hr
      exact jumboRec_wf cap hc e hf ch d _ hp
  | jumboNow e ch d =>
    simp only [handed] at hr
    cases hp : jumboRec cap { e with clock := s.now } ch d with
    | none => rw [hp] at hr; cases hr
    | some r' =>
      rw [hp] at hr
      simp only [List.mem_cons, List.mem_nil_iff, or_false] at hr
      subst hr
      exact jumboRec_wf cap hc { e with clock := s.now } ⟨hf.1, hf.2⟩ ch d _ hp
  | mark k t v =>
    simp only [handed] at hr
    cases hp : payloadAddAll { m := 79, c := 77, v := k, clock := s.now } [sle 8 v, sle 4 t] with
    | none => rw [hp] at hr; cases hr
    | some e' =>
      rw [hp] at hr
      simp only [List.mem_cons, List.mem_nil_iff, or_false] at hr
      subst hr
      exact Rec.WF.ev _ (payloadAddAll_spec _ e' _ (fresh_wf _ ⟨rfl, rfl⟩) hp).1
  | init => cases hr
  | flush => cases hr
  | setTick n => cases hr
  | metaOp => cases hr
  | free => cases hr

theorem marker_wf (x : Rec D × Origin) (h : IsMarker x) : x.1.WF := by
  obtain ⟨_, t, ht | ht⟩ := h
  · rw [ht]; exact Rec.WF.ev _ ⟨rfl, by show (0 : Nat) < 16; omega⟩
  · rw [ht]; exact Rec.WF.ev _ ⟨rfl, by show (0 : Nat) < 16; omega⟩

/-- Every record ever produced by an API-conformant program is well formed,
    so the file decodes (`file_decodes`). -/
theorem run_wf (cap : Nat) (hcap : 24 < cap) (hc : cap ≤ 2 ^ 32) (ops : List (Op D)) (s s' : St D)
    (hg : Good cap s) (hf : ∀ op ∈ ops, FreshEv op) (hw : ∀ x ∈ s.all, x.1.WF)
    (h : run cap s ops = some s') : ∀ x ∈ s'.all, x.1.WF := by
  induction ops generalizing s with
  | nil => simp only [run, Option.some.injEq] at h; subst h; exact hw
  | cons op ops ih =>
    simp only [run] at h
    cases hs : step cap s op with
    | none => rw [hs] at h; cases h
    | some s1 =>
      rw [hs] at h
      obtain ⟨⟨ms, ha, hm⟩, hg1, _⟩ := step_fidelity cap hcap s s1 op hg hs
      apply ih s1 hg1 (fun o ho => hf o (by simp [ho])) _ h
      intro x hx
      rw [ha] at hx
      simp only [List.mem_append, List.mem_map] at hx
      rcases hx with (hx | ⟨r, hr, rfl⟩) | hx
      · exact hw x hx
      · exact handed_wf cap hc s op (hf op (by simp)) r hr
      · exact marker_wf x (hm x hx)

/-- Generic form of `run_wf`: any predicate that holds of every record handed
    over by the operations and of the flush markers holds of everything in
    (file ++ buffer) after a run. -/
theorem run_all_records (cap : Nat) (hcap : 24 < cap) (P : Rec D → Prop)
    (hm : ∀ t, P (markerOpen t) ∧ P (markerClose t))
    (ops : List (Op D)) (s s' : St D) (hg : Good cap s)
    (hh : ∀ op ∈ ops, ∀ st : St D, ∀ r ∈ handed cap st op, P r)
    (hw : ∀ x ∈ s.all, P x.1) (h : run cap s ops = some s') : ∀ x ∈ s'.all, P x.1 := by
  induction ops generalizing s with
  | nil => simp only [run, Option.some.injEq] at h; subst h; exact hw
  | cons op ops ih =>
    simp only [run] at h
    cases hs : step cap s op with
    | none => rw [hs] at h; cases h
    | some s1 =>
      rw [hs] at h
      obtain ⟨⟨ms, ha, hmk⟩, hg1, _⟩ := step_fidelity cap hcap s s1 op hg hs
      apply ih s1 hg1 (fun o ho => hh o (by simp [ho])) _ h
      intro x hx
      rw [ha] at hx
      simp only [List.mem_append, List.mem_map] at hx
      rcases hx with (hx | ⟨r, hr, rfl⟩) | hx
      · exact hw x hx
      · exact hh op (by simp) s r hr
      · obtain ⟨_, t, ht | ht⟩ := hmk x hx
        · rw [ht]; exact (hm t).1
        · rw [ht]; exact (hm t).2

theorem jumboRec_size (cap : Nat) (e : Ev) (he : Fresh e) (chs : List (List Nat)) (d : D) (r : Rec D)
    (h : jumboRec cap e chs d = some r) : r.size < cap := by
  unfold jumboRec at h
  cases h1 : payloadAddAll e chs with
  | none => rw [h1] at h; cases h
  | some e1 =>
    rw [h1] at h
    simp only at h
    obtain ⟨w1, _⟩ := payloadAddAll_spec e e1 chs (fresh_wf e he) h1
    split at h
    · cases h
    · rename_i hz
      have hz' : payloadSize e1.flags = 0 := by simpa using hz
      cases h2 : payloadAdd e1 (le 4 (JData.len d)) with
      | none => rw [h2] at h; cases h
      | some e2 =>
        rw [h2] at h
        simp only at h
        obtain ⟨w2, p2, _, _, _⟩ := payloadAdd_spec e1 e2 _ w1 h2
        have hp1 : e1.payload.length = 0 := by rw [← w1.size, hz']
        have hps : payloadSize e2.flags = 4 := by
          rw [w2.size, p2, List.length_append, le_length, hp1]
        split at h
        · cases h
        · rename_i hlt
          cases h
          show 16 + JData.len d < cap
          rw [hps] at hlt; omega

/-- Every record a program leaves in (file ++ buffer) is smaller than the
    capacity (or than the largest normal event, 28 bytes). -/
theorem run_sizes (cap : Nat) (hcap : 24 < cap) (ops : List (Op D)) (s' : St D)
    (hf : ∀ op ∈ ops, FreshEv op) (h : run cap (init0 : St D) ops = some s') :
    ∀ x ∈ s'.all, x.1.size < max cap 29 := by
  apply run_all_records cap hcap (fun r => r.size < max cap 29) _ ops init0 s' (good_init0 cap (by omega)) _
    (by intro x hx; cases hx) h
  · intro t; constructor <;> (show 12 < max cap 29; omega)
  · intro op ho st r hr
    have hfr := hf op ho
    have small : ∀ e : Ev, e.WF → (Rec.ev e : Rec D).size < max cap 29 := by
      intro e hw
      show 12 + payloadSize e.flags < max cap 29
      have := hw.size; have := hw.len_le; omega
    cases op with
    | emit e ch =>
      simp only [handed] at hr
      cases hp : payloadAddAll e ch with
      | none => rw [hp] at hr; cases hr
      | some e' =>
        rw [hp] at hr
        simp only [List.mem_cons, List.mem_nil_iff, or_false] at hr
        subst hr
        exact small _ (payloadAddAll_spec e e' ch (fresh_wf e hfr) hp).1
    | emitNow e ch =>
      simp only [handed] at hr
      cases hp : payloadAddAll { e with clock := st.now } ch with
      | none => rw [hp] at hr; cases hr
      | some e' =>
        rw [hp] at hr
        simp only [List.mem_cons, List.mem_nil_iff, or_false] at hr
        subst hr
        exact small _ (payloadAddAll_spec { e with clock := st.now } e' ch (fresh_wf _ ⟨hfr.1, hfr.2⟩) hp).1
    | jumbo e ch d =>
      simp only [handed] at hr
      cases hp : jumboRec cap e ch d with
      | none => rw [hp] at hr; cases hr
      | some r' =>
        rw [hp] at hr
        simp only [List.mem_cons, List.mem_nil_iff, or_false] at hr
        subst hr
        have := jumboRec_size cap e hfr ch d _ hp
        omega
    | jumboNow e ch d =>
      simp only [handed] at hr
      cases hp : jumboRec cap { e with clock := st.now } ch d with
      | none => rw [hp] at hr; cases hr
      | some r' =>
        rw [hp] at hr
        simp only [List.mem_cons, List.mem_nil_iff, or_false] at hr
        subst hr
        have := jumboRec_size cap { e with clock := st.now } ⟨hfr.1, hfr.2⟩ ch d _ hp
        omega
    | mark k t v =>
      simp only [handed] at hr
      cases hp : payloadAddAll { m := 79, c := 77, v := k, clock := st.now } [sle 8 v, sle 4 t] with
      | none => rw [hp] at hr; cases hr
      | some e' =>
        rw [hp] at hr
        simp only [List.mem_cons, List.mem_nil_iff, or_false] at hr
        subst hr
        exact small _ (payloadAddAll_spec _ e' _ (fresh_wf _ ⟨rfl, rfl⟩) hp).1
    | init => cases hr
    | flush => cases hr
    | setTick n => cases hr
    | metaOp => cases hr
    | free => cases hr

/-- The memcpy of a record always stays inside the buffer: `evlen` is the exact
    number of buffered bytes and stays below the capacity in every reachable
    state (the `Good` invariant carried by `run_fidelity`). -/
theorem buffer_in_bounds (cap : Nat) (hcap : 24 < cap) (ops : List (Op D)) (s' : St D)
    (h : run cap (init0 : St D) ops = some s') :
    s'.evlen = sizes s'.buf ∧ s'.evlen < cap := by
  obtain ⟨_, _, hg, _⟩ := run_fidelity cap hcap ops init0 s' (good_init0 cap (by omega)) h
  exact ⟨hg.inv.len, hg.inv.lt⟩

/-! ### Non-vacuity -/

/-- A concrete program at a tiny capacity (cap = 64) that forces a flush in the
    middle: the hypotheses of `stream_fidelity` are satisfiable and the forced
    flush path is exercised. -/
example :
    (run 64 (init0 : St (List Nat))
      (.init :: [.emitNow { m := 65, c := 66, v := 67, clock := 0 } [[1, 2, 3]],
                 .jumboNow { m := 74, c := 74, v := 74, clock := 0 } [] [9, 8, 7, 6, 5, 4, 3, 2, 1, 0, 1, 2, 3, 4, 5, 6, 7, 8, 9, 10],
                 .emitNow { m := 65, c := 66, v := 68, clock := 0 } []] ++ [.flush, .free])).isSome = true := by
  decide

end Ovni.Props.C01
