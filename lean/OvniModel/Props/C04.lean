import OvniModel.Lemmas.EmuCoreTotal

/-!
# C04 — thread life-cycle: accepted traces follow the documented state machine

The model is the reference emulator of `Emu/Core.lean` (`preThread*`,
`Thread.setState/setCpu/unsetCpu`, `cpuUpdate`, `finish`), tied to `ovniemu`
by the correspondence check.  The specification below (`Legal`, `specThread`,
`SpecAccepts`) is written from the property text / doc/user/emulation/ovni.md
and never mentions the model's handlers.

* `wf_init`, `wf_step`: the invariant `WF` (every channel flushed and showing
  the logical state; `cpu ≠ none ↔ state ∈ {running, cooling, paused, warming}`;
  `ti ∈ c.threads ↔ t.cpu = some c.gindex`, no duplicates; indices consistent;
  ≤ 1 running thread per physical CPU) holds initially and after every accepted
  OH* event.
* `thread_accept_iff`: one event is accepted **iff** it is `Legal` and leaves no
  physical CPU oversubscribed.
* `history_accept_iff`: a whole OH* history over any number of threads (never
  executing a dead thread) is accepted **iff** every step is legal, no physical
  CPU is ever oversubscribed and all threads end dead.
* `state_view`: after every accepted prefix the `state` channel shows the
  specification state and the `tid` channel shows the TID exactly while the
  thread is running, cooling or warming; `state_records` / `tid_records`: these
  are the values the step emits as Paraver records of types 4 and 2.
* `NoZeroIds` (Lemmas/EmuCoreTotal): the side condition under which the record emission inside
  `stepEv` cannot fail — no TID / PID is 0 (the loader refuses them) and no model channel or CPU-mux
  default holds an integer 0 on a Paraver type without PRV_ZERO; `noZeroIds_init`: it holds for
  `mkEmu …` as soon as the TIDs and PIDs are non-zero; `records_total`: in a well-formed state
  satisfying it the records of every accepted OH* event can be emitted, and it holds again after
  the step; `tid_zero_records_fail`: without it the handlers accept and `emit` refuses;
  `stepEv_rejects_only_zero`: that ("forbidden value 0") is the only way the full step can fail
  where its emulator component accepts.
* `stepEv_history_accept_iff`: with `NoZeroIds`, folding the **full** `stepEv` (handlers, record
  emission, flush) over an OH* history and then `finish` succeeds **iff** every step is legal, no
  physical CPU is ever oversubscribed and all threads end dead (`stepAccepts_accepts`: the
  direction that needs no side condition).
-/
set_option linter.unusedSimpArgs false
set_option linter.unusedVariables false
namespace Ovni.Props.C04
open Ovni.Emu Ovni.Generated

/-! ## Specification (independent of the model) -/

/-- The documented thread state machine; the event is the third character of `OH?`:
    `x` = 120 execute, `c` = 99 cool, `p` = 112 pause, `w` = 119 warm, `r` = 114 resume,
    `e` = 101 end. -/
def Legal : ThState → Nat → Option ThState
  | .unknown, 120 => some .running
  | .running, 99 => some .cooling
  | .running, 112 => some .paused
  | .cooling, 112 => some .paused
  | .paused, 119 => some .warming
  | .paused, 114 => some .running
  | .warming, 114 => some .running
  | .running, 101 => some .dead
  | .cooling, 101 => some .dead
  | _, _ => none

/-- CPU a thread is bound to after a legal step: execute binds it to the CPU named in the
    payload, end releases it, everything else keeps it. -/
def specCpu (op : Nat) (cur : Option Nat) (target : Nat) : Option Nat :=
  if op = 120 then some target else if op = 101 then none else cur

/-- One step of the specification on the logical state (state, cpu) per thread. -/
def specThread (s : LState) (ti op target : Nat) : Option LState :=
  match s[ti]? with
  | none => none
  | some (st, cur) =>
    match Legal st op with
    | none => none
    | some st' => some (s.set ti (st', specCpu op cur target))

/-- An OH* event: thread index, event character, payload. -/
abbrev HEv := Nat × Nat × List Nat

def HEv.toOEv (ev : HEv) : OEv := (ev.1, 72, ev.2.1, ev.2.2)

/-- "every step is legal, no physical CPU is ever oversubscribed, and all threads end dead";
    `target ti payload` is the global index of the CPU an execute payload names. -/
def SpecAccepts (phys : Nat → Prop) (target : Nat → List Nat → Nat) : LState → List HEv → Prop
  | s, [] => ∀ x ∈ s, x.1 = .dead
  | s, ev :: rest => ∃ s', specThread s ev.1 ev.2.1 (target ev.1 ev.2.2) = some s' ∧
      NoOversub phys s' ∧ SpecAccepts phys target s' rest

/-- The specification state after a history (legality only). -/
def specRun (target : Nat → List Nat → Nat) : LState → List HEv → Option LState
  | s, [] => some s
  | s, ev :: rest =>
    match specThread s ev.1 ev.2.1 (target ev.1 ev.2.2) with
    | none => none
    | some s' => specRun target s' rest

/-- the CPU an execute payload of thread `ti` names: a lookup in the (static) hierarchy -/
def targetOf (e0 : Emu) (ti : Nat) (payload : List Nat) : Nat :=
  match e0.threads[ti]? with
  | some t => (loomGetCpu e0 t.loom (i32At payload 0)).getD 0
  | none => 0

/-- The quantified space: OH{x,c,p,w,r,e} events; an execute carries at least four payload
    bytes naming an existing CPU of the thread's loom, and never hits a dead thread. -/
def Admissible (e0 : Emu) : LState → List HEv → Prop
  | _, [] => True
  | s, ev :: rest =>
    ev.2.1 ∈ [120, 99, 112, 119, 114, 101] ∧
    (ev.2.1 = 120 → ∀ t, e0.threads[ev.1]? = some t →
      (∀ st c, s[ev.1]? = some (st, c) → st ≠ .dead) ∧ 4 ≤ ev.2.2.length ∧
      ∃ ci, loomGetCpu e0 t.loom (i32At ev.2.2 0) = some ci) ∧
    ∀ s', specThread s ev.1 ev.2.1 (targetOf e0 ev.1 ev.2.2) = some s' → Admissible e0 s' rest

/-! ## The invariant -/

/-- The emulator built from the hierarchy is well-formed. -/
theorem wf_init (threads : List (Int × Int × Nat)) (cpus : List (Nat × Int × Bool))
    (enabled : List Nat) (lint : Bool) (extra : List ModelSpec := []) :
    WF (mkEmu threads cpus enabled lint extra) :=
  wf_mkEmu threads cpus enabled lint extra

section
variable (th mh : Emu → Nat → Nat → Nat → List Nat → Except Err Emu)

/-- `WF` is preserved by every successful `stepEv` of an OH* event. -/
theorem wf_step {e e' : Emu} (h : WF e) (hen : e.enabled.contains 79 = true) {ev : HEv}
    (hv : ev.2.1 ∈ [120, 99, 112, 119, 114, 101]) {rs : List PrvRec}
    (hs : stepEv e ev.1 79 72 ev.2.1 ev.2.2 th mh = .ok (e', rs)) : WF e' := by
  obtain ⟨_, _, hso⟩ := emuStep_sound th mh h hen (ev := ev.toOEv) (Or.inl ⟨rfl, hv⟩)
    (stepEv_emuStep th mh (ev := ev.toOEv) hs)
  exact hso.wf

/-! ## One event -/

/-- The model's transition table is the documented one (the table allows execute on a dead
    thread, which the property leaves open). -/
theorem legal_eq_modelNext {st : ThState} {v : Nat} (hv : v ∈ [120, 99, 112, 119, 114, 101])
    (hd : v = 120 → st ≠ .dead) : Legal st v = modelNext st v := by
  simp only [List.mem_cons, List.not_mem_nil, or_false] at hv
  rcases hv with rfl | rfl | rfl | rfl | rfl | rfl <;> cases st <;>
    first | rfl | exact absurd rfl (hd rfl)

theorem specThread_eq {e : Emu} {ti : Nat} {t : Thread} (ht : e.threads[ti]? = some t) {v : Nat}
    (hv : v ∈ [120, 99, 112, 119, 114, 101]) (hd : v = 120 → t.state ≠ .dead) (ci : Nat) :
    specThread (absOf e.threads) ti v ci =
      (modelNext t.state v).map fun st' => (absOf e.threads).set ti (st', cpuAfter v t.cpu ci) := by
  unfold specThread
  have : (absOf e.threads)[ti]? = some (t.state, t.cpu) := by
    unfold absOf; rw [List.getElem?_map, ht]; rfl
  simp only [this, legal_eq_modelNext hv hd]
  cases modelNext t.state v <;> rfl

/-- **Acceptance of one event.**  In a well-formed state an OH* event on thread `ti` (for an
    execute: payload of at least four bytes naming CPU `ci` of the thread's loom, thread not dead)
    is accepted by the handler **iff** the transition is `Legal` from the thread's state and in
    the resulting logical state no physical CPU has more than one running thread. -/
theorem thread_accept_iff {e : Emu} (h : WF e) {ti : Nat} {t : Thread} (ht : e.threads[ti]? = some t)
    {v : Nat} (hv : v ∈ [120, 99, 112, 119, 114, 101]) {payload : List Nat} {ci : Nat}
    (hx : v = 120 → t.state ≠ .dead ∧ 4 ≤ payload.length ∧
      loomGetCpu e t.loom (i32At payload 0) = some ci) :
    (∃ e1, preThread e ti v payload = .ok e1) ↔
      ∃ s', specThread (absOf e.threads) ti v ci = some s' ∧ NoOversub e.phys s' := by
  have hver := preThread_verdict h ht hv (payload := payload) (ci := ci) (fun h' => (hx h').2)
  rw [specThread_eq ht hv (fun h' => (hx h').1) ci]
  cases hm : modelNext t.state v with
  | none =>
    rw [hm] at hver
    obtain ⟨err, he⟩ := hver
    constructor
    · rintro ⟨e1, h1⟩; rw [he] at h1; cases h1
    · rintro ⟨s', h1, _⟩; cases h1
  | some st' =>
    rw [hm] at hver
    constructor
    · intro hacc; exact ⟨_, rfl, hver.1.mp hacc⟩
    · rintro ⟨s', h1, h2⟩
      have : s' = (absOf e.threads).set ti (st', cpuAfter v t.cpu ci) := by injection h1 with h1; exact h1.symm
      subst this; exact hver.1.mpr h2

/-- An accepted event leaves a well-formed state whose logical state is the specification's. -/
theorem thread_step_sound {e e1 : Emu} (h : WF e) {ti : Nat} {t : Thread} (ht : e.threads[ti]? = some t)
    {v : Nat} (hv : v ∈ [120, 99, 112, 119, 114, 101]) {payload : List Nat} {ci : Nat}
    (hx : v = 120 → t.state ≠ .dead ∧ 4 ≤ payload.length ∧
      loomGetCpu e t.loom (i32At payload 0) = some ci)
    (hacc : preThread e ti v payload = .ok e1) :
    WF e1.flushAll ∧ SameStatic e e1.flushAll ∧
      specThread (absOf e.threads) ti v ci = some (absOf e1.flushAll.threads) := by
  have hver := preThread_verdict h ht hv (payload := payload) (ci := ci) (fun h' => (hx h').2)
  obtain ⟨y, hy, hso⟩ := verdict_ok hver hacc
  refine ⟨hso.wf, hso.static, ?_⟩
  rw [specThread_eq ht hv (fun h' => (hx h').1) ci, hso.abs]
  cases hm : modelNext t.state v with
  | none => rw [hm] at hy; cases hy
  | some st' =>
    rw [hm] at hy
    have : y = (st', cpuAfter v t.cpu ci) := by injection hy with hy; exact hy.symm
    rw [this]; rfl

/-! ## Histories -/

/-- The model accepts a history: every event is accepted by the handlers (then flushed, exactly
    the emulator component of `stepEv`) and `finish` succeeds at the end. -/
def Accepts (e : Emu) : List HEv → Prop
  | [] => finish e = .ok ()
  | ev :: rest => ∃ e', emuStep th mh e ev.toOEv = .ok e' ∧ Accepts e' rest

/-- the states reached by accepted prefixes -/
def Reaches (e : Emu) : List HEv → Emu → Prop
  | [], e' => e' = e
  | ev :: rest, e' => ∃ e2, emuStep th mh e ev.toOEv = .ok e2 ∧ Reaches e2 rest e'

theorem emuStep_OH {e : Emu} (h : WF e) (hen : e.enabled.contains 79 = true) {ti : Nat} {t : Thread}
    (ht : e.threads[ti]? = some t) (v : Nat) (payload : List Nat) (e' : Emu) :
    emuStep th mh e (ti, 72, v, payload) = .ok e' ↔
      ∃ e1, preThread e ti v payload = .ok e1 ∧ e' = e1.flushAll := by
  unfold emuStep
  simp only [modelEvent_OH th mh h hen ht]
  cases preThread e ti v payload with
  | error err =>
    constructor
    · intro h; cases h
    · rintro ⟨e1, h, _⟩; cases h
  | ok e1 =>
    constructor
    · intro h; injection h with h; exact ⟨e1, rfl, h.symm⟩
    · rintro ⟨e1', h, h'⟩; cases h; rw [h']

theorem admissible_hx {e0 e : Emu} (hst : SameStatic e0 e) {ti : Nat} {t : Thread}
    (ht : e.threads[ti]? = some t) {v : Nat} {payload : List Nat}
    (hadm : v = 120 → ∀ t0, e0.threads[ti]? = some t0 →
      (∀ st c, (absOf e.threads)[ti]? = some (st, c) → st ≠ .dead) ∧ 4 ≤ payload.length ∧
      ∃ ci, loomGetCpu e0 t0.loom (i32At payload 0) = some ci) :
    v = 120 → t.state ≠ .dead ∧ 4 ≤ payload.length ∧
      loomGetCpu e t.loom (i32At payload 0) = some (targetOf e0 ti payload) := by
  intro hv
  obtain ⟨t0, ht0, hs⟩ := hst.thread ht
  obtain ⟨h1, h2, ci, h3⟩ := hadm hv t0 ht0
  have habs : (absOf e.threads)[ti]? = some (t.state, t.cpu) := by
    unfold absOf; rw [List.getElem?_map, ht]; rfl
  refine ⟨h1 _ _ habs, h2, ?_⟩
  rw [loomGetCpu_static hst, static_loom hs]
  unfold targetOf
  simp only [ht0, h3]
  rfl

/-- Generalised form of `history_accept_iff` / `state_view` for any state reachable from `e0`. -/
theorem history_aux (e0 : Emu) (hen : e0.enabled.contains 79 = true)
    (hl : (e0.lint && lintOpen e0) = false) :
    ∀ (hist : List HEv) (e : Emu), WF e → SameStatic e0 e → Admissible e0 (absOf e.threads) hist →
      (Accepts th mh e hist ↔ SpecAccepts e0.phys (targetOf e0) (absOf e.threads) hist)
  | [], e, hw, hst, _ => by
    unfold Accepts SpecAccepts
    rw [finish_ok_iff, lintOpen_static hst, hst.lint]
    constructor
    · rintro ⟨hd, _⟩ x hx
      unfold absOf at hx
      obtain ⟨t, ht, rfl⟩ := List.mem_map.mp hx
      exact hd t ht
    · intro hd
      refine ⟨fun t ht => ?_, hl⟩
      exact hd (t.state, t.cpu) (List.mem_map.mpr ⟨t, ht, rfl⟩)
  | ev :: rest, e, hw, hst, hadm => by
    obtain ⟨ti, v, payload⟩ := ev
    obtain ⟨hv, hadx, hadr⟩ := hadm
    simp only at hv hadx hadr
    have hen' : e.enabled.contains 79 = true := by rw [hst.enabled]; exact hen
    unfold Accepts SpecAccepts
    simp only [HEv.toOEv]
    cases ht : e.threads[ti]? with
    | none =>
      have hs : specThread (absOf e.threads) ti v (targetOf e0 ti payload) = none := by
        unfold specThread
        have : (absOf e.threads)[ti]? = none := by unfold absOf; rw [List.getElem?_map, ht]; rfl
        simp only [this]
      constructor
      · rintro ⟨e', he', _⟩
        unfold emuStep at he'
        simp only [modelEvent_nothread th mh hen' ht] at he'
        cases he'
      · rintro ⟨s', h1, _⟩; rw [hs] at h1; cases h1
    | some t =>
      have hx := admissible_hx hst ht hadx
      constructor
      · rintro ⟨e', he', hrest⟩
        obtain ⟨e1, hacc, rfl⟩ := (emuStep_OH th mh hw hen' ht v payload e').mp he'
        obtain ⟨hw1, hst1, hsp⟩ := thread_step_sound hw ht hv hx hacc
        refine ⟨_, hsp, ?_, ?_⟩
        · have := noOversub_of_wf hw1
          intro g hg
          exact this g (((hst.trans hst1).phys g).mpr hg)
        · exact (history_aux e0 hen hl rest _ hw1 (hst.trans hst1) (hadr _ hsp)).mp hrest
      · rintro ⟨s', hsp, hno, hrest⟩
        have hno' : NoOversub e.phys s' := fun g hg => hno g ((hst.phys g).mp hg)
        obtain ⟨e1, hacc⟩ := (thread_accept_iff hw ht hv hx).mpr ⟨s', hsp, hno'⟩
        obtain ⟨hw1, hst1, hsp1⟩ := thread_step_sound hw ht hv hx hacc
        have : s' = absOf e1.flushAll.threads := by rw [hsp] at hsp1; injection hsp1
        subst this
        refine ⟨e1.flushAll, (emuStep_OH th mh hw hen' ht v payload _).mpr ⟨e1, hacc, rfl⟩, ?_⟩
        exact (history_aux e0 hen hl rest _ hw1 (hst.trans hst1) (hadr _ hsp)).mpr hrest

/-- **Acceptance of histories.**  From any well-formed state (in particular `mkEmu …`) with the
    ovni model enabled, an OH* history on any number of threads that never executes a dead thread
    is accepted (all handlers succeed and `finish` succeeds) **iff** every step is `Legal`, no
    physical CPU is ever oversubscribed, and all threads end dead. -/
theorem history_accept_iff {e0 : Emu} (h0 : WF e0) (hen : e0.enabled.contains 79 = true)
    (hl : (e0.lint && lintOpen e0) = false) (hist : List HEv)
    (hadm : Admissible e0 (absOf e0.threads) hist) :
    Accepts th mh e0 hist ↔ SpecAccepts e0.phys (targetOf e0) (absOf e0.threads) hist :=
  history_aux th mh e0 hen hl hist e0 h0 (SameStatic.refl e0) hadm

/-! ## The full step: handlers, record emission, flush -/

/-- A history accepted by the **full** emulation step: the fold of `stepEv` (handlers, Paraver
    record emission, flush) succeeds on every event, and `finish` succeeds at the end. -/
def StepAccepts (e : Emu) : List HEv → Prop
  | [] => finish e = .ok ()
  | ev :: rest => ∃ e' rs, stepEv e ev.1 79 72 ev.2.1 ev.2.2 th mh = .ok (e', rs) ∧ StepAccepts e' rest

/-- the same as a function: final state and the records of every step -/
def stepRun (e : Emu) : List HEv → Except Err (Emu × List (List PrvRec))
  | [] => .ok (e, [])
  | ev :: rest =>
    match stepEv e ev.1 79 72 ev.2.1 ev.2.2 th mh with
    | .error err => .error err
    | .ok (e', rs) =>
      match stepRun e' rest with
      | .error err => .error err
      | .ok (e'', rss) => .ok (e'', rs :: rss)

theorem stepAccepts_iff_run : ∀ (hist : List HEv) (e : Emu),
    StepAccepts th mh e hist ↔ ∃ e' rss, stepRun th mh e hist = .ok (e', rss) ∧ finish e' = .ok ()
  | [], e => by
    unfold StepAccepts stepRun
    constructor
    · intro h; exact ⟨e, [], rfl, h⟩
    · rintro ⟨e', rss, h1, h2⟩
      have : e = e' := by injection h1 with h1; exact congrArg Prod.fst h1
      rw [this]; exact h2
  | ev :: rest, e => by
    unfold StepAccepts stepRun
    constructor
    · rintro ⟨e', rs, hs, hrest⟩
      obtain ⟨e'', rss, hr, hf⟩ := (stepAccepts_iff_run rest e').mp hrest
      exact ⟨e'', rs :: rss, by simp only [hs, hr], hf⟩
    · rintro ⟨e'', rss, hr, hf⟩
      cases hs : stepEv e ev.1 79 72 ev.2.1 ev.2.2 th mh with
      | error err => simp only [hs] at hr; cases hr
      | ok p =>
        obtain ⟨e', rs⟩ := p
        simp only [hs] at hr
        cases hr2 : stepRun th mh e' rest with
        | error err => simp only [hr2] at hr; cases hr
        | ok q =>
          obtain ⟨e3, rss'⟩ := q
          simp only [hr2] at hr
          have he : e3 = e'' := by injection hr with hr; exact congrArg Prod.fst hr
          refine ⟨e', rs, rfl, (stepAccepts_iff_run rest e').mpr ⟨e3, rss', hr2, ?_⟩⟩
          rw [he]; exact hf

/-- A history accepted by the full step is accepted in the sense of `Accepts` (no side condition):
    the emulator component of `stepEv` is `emuStep`. -/
theorem stepAccepts_accepts : ∀ (hist : List HEv) (e : Emu), StepAccepts th mh e hist → Accepts th mh e hist
  | [], _, h => h
  | ev :: rest, e, h => by
    obtain ⟨e', rs, hs, hrest⟩ := h
    exact ⟨e', stepEv_emuStep th mh (ev := ev.toOEv) hs, stepAccepts_accepts rest e' hrest⟩

/-- **The side condition holds initially**: for the emulator built from the hierarchy (no run-time
    channel groups) it is enough that no TID and no PID is 0 — which `thread_stream_get_tid` /
    `proc_stream_get_pid` guarantee; the connect-time values and CPU-mux defaults of the eight models
    are accepted by `emit` (`allSpecs_initOk`, regenerated specs). -/
theorem noZeroIds_init (threads : List (Int × Int × Nat)) (cpus : List (Nat × Int × Bool))
    (enabled : List Nat) (lint : Bool) (hid : ∀ x ∈ threads, x.1 ≠ 0 ∧ x.2.1 ≠ 0) :
    NoZeroIds (mkEmu threads cpus enabled lint) :=
  noZeroIds_mkEmu_nil threads cpus enabled lint hid

/-- … and with run-time channel groups (the mark types), when their ids are distinct from the
    models' and their connect-time values / CPU-mux defaults are accepted by `emit`. -/
theorem noZeroIds_init_extra (threads : List (Int × Int × Nat)) (cpus : List (Nat × Int × Bool))
    (enabled : List Nat) (lint : Bool) (extra : List ModelSpec)
    (hid : ∀ x ∈ threads, x.1 ≠ 0 ∧ x.2.1 ≠ 0)
    (hx : ∀ m ∈ extra, m.initOk = true ∧ m.defaultOk = true)
    (hnd : ((allSpecs.filter (fun s => enabled.contains s.char) ++ extra).map (·.char)).Nodup) :
    NoZeroIds (mkEmu threads cpus enabled lint extra) :=
  noZeroIds_mkEmu threads cpus enabled lint extra hid hx hnd

/-- **Record emission is total.**  In a well-formed state satisfying `NoZeroIds`, for every OH*
    event the handlers accept, `records` succeeds: on the thread rows the CPU value is
    `gindex + 1 ≥ 1` (PRV_NEXT) or nothing, the TID value is the non-zero TID or nothing, the state
    value is the code of running / paused / dead / cooling / warming (1 … 5; the code 0 = unknown is
    never written: before the first execute the channel is empty, and no transition leads back);
    on the CPU rows nrun has PRV_ZERO and pid / tid are those of the unique running thread or
    nothing; the model views are unchanged or show an untouched model-channel value / CPU-mux
    default.  `NoZeroIds` holds again after the step. -/
theorem records_total {e e1 : Emu} (h : WF e) (hz : NoZeroIds e) (hen : e.enabled.contains 79 = true)
    {ti v : Nat} (hv : v ∈ [120, 99, 112, 119, 114, 101]) {payload : List Nat}
    (hm : modelEvent e ti 79 72 v payload th mh = .ok e1) :
    (∃ rs, records e e1 = .ok rs) ∧ NoZeroIds e1.flushAll :=
  records_total_step th mh h hz hen (ev := (ti, 72, v, payload)) (Or.inl ⟨rfl, hv⟩) hm

/-- Conversely the record emission is the **only** place where the full step can differ from its
    emulator component, and it fails in one way only: whenever the handlers and the flush accept an
    event (`emuStep`) and the full `stepEv` does not, the error is `emit`'s "forbidden value 0". -/
theorem stepEv_rejects_only_zero {e e' : Emu} {ev : HEv} (hs : emuStep th mh e ev.toOEv = .ok e') {err : Err}
    (hf : stepEv e ev.1 79 72 ev.2.1 ev.2.2 th mh = .error err) : err = .prvZero :=
  stepEv_error_of_emuStep_ok th mh (ev := ev.toOEv) hs hf

/-- `NoZeroIds` is kept by every accepted `stepEv` of an OH* event. -/
theorem noZeroIds_step {e e' : Emu} (h : WF e) (hz : NoZeroIds e) (hen : e.enabled.contains 79 = true)
    {ev : HEv} (hv : ev.2.1 ∈ [120, 99, 112, 119, 114, 101]) {rs : List PrvRec}
    (hs : stepEv e ev.1 79 72 ev.2.1 ev.2.2 th mh = .ok (e', rs)) : NoZeroIds e' := by
  obtain ⟨e1, hm, _, rfl⟩ := (stepEv_ok_iff th mh e ev.toOEv e' rs).mp hs
  exact (records_total th mh h hz hen hv hm).2

/-- Generalised form of `stepEv_history_accept_iff` for any state reachable from `e0`. -/
theorem stepAccepts_iff_accepts (e0 : Emu) (hen : e0.enabled.contains 79 = true) :
    ∀ (hist : List HEv) (e : Emu), WF e → NoZeroIds e → SameStatic e0 e →
      Admissible e0 (absOf e.threads) hist →
      (StepAccepts th mh e hist ↔ Accepts th mh e hist)
  | [], _, _, _, _, _ => Iff.rfl
  | ev :: rest, e, hw, hz, hst, hadm => by
    obtain ⟨ti, v, payload⟩ := ev
    obtain ⟨hv, hadx, hadr⟩ := hadm
    simp only at hv hadx hadr
    have hen' : e.enabled.contains 79 = true := by rw [hst.enabled]; exact hen
    constructor
    · exact stepAccepts_accepts th mh _ _
    · rintro ⟨e', he', hrest⟩
      simp only [HEv.toOEv] at he'
      cases ht : e.threads[ti]? with
      | none =>
        unfold emuStep at he'
        simp only [modelEvent_nothread th mh hen' ht] at he'
        cases he'
      | some t =>
        have hx := admissible_hx hst ht hadx
        obtain ⟨e1, hacc, rfl⟩ := (emuStep_OH th mh hw hen' ht v payload e').mp he'
        obtain ⟨hw1, hst1, hsp⟩ := thread_step_sound hw ht hv hx hacc
        have hm : modelEvent e ti 79 72 v payload th mh = .ok e1 := by
          rw [modelEvent_OH th mh hw hen' ht]; exact hacc
        obtain ⟨⟨rs, hrs⟩, hz1⟩ := records_total th mh hw hz hen' hv hm
        refine ⟨e1.flushAll, rs, (stepEv_ok_iff th mh e (ti, 72, v, payload) _ rs).mpr ⟨e1, hm, hrs, rfl⟩, ?_⟩
        exact (stepAccepts_iff_accepts e0 hen rest _ hw1 hz1 (hst.trans hst1) (hadr _ hsp)).mpr hrest

/-- **Acceptance of histories by the full emulation step.**  From any well-formed state satisfying
    `NoZeroIds` (in particular `mkEmu …` with non-zero TIDs and PIDs: `wf_init`, `noZeroIds_init`)
    with the ovni model enabled, for every OH* history on any number of threads that never executes a
    dead thread: folding the full `stepEv` — handlers, Paraver record emission, flush — and then
    `finish` succeeds **iff** every step is `Legal`, no physical CPU is ever oversubscribed, and all
    threads end dead. -/
theorem stepEv_history_accept_iff {e0 : Emu} (h0 : WF e0) (hz : NoZeroIds e0)
    (hen : e0.enabled.contains 79 = true) (hl : (e0.lint && lintOpen e0) = false) (hist : List HEv)
    (hadm : Admissible e0 (absOf e0.threads) hist) :
    StepAccepts th mh e0 hist ↔ SpecAccepts e0.phys (targetOf e0) (absOf e0.threads) hist :=
  (stepAccepts_iff_accepts th mh e0 hen hist e0 h0 hz (SameStatic.refl e0) hadm).trans
    (history_accept_iff th mh h0 hen hl hist hadm)

/-- The same for the emulator built from a hierarchy whose TIDs and PIDs are non-zero. -/
theorem stepEv_history_accept_iff_init (threads : List (Int × Int × Nat)) (cpus : List (Nat × Int × Bool))
    (enabled : List Nat) (lint : Bool) (hid : ∀ x ∈ threads, x.1 ≠ 0 ∧ x.2.1 ≠ 0)
    (hen : enabled.contains 79 = true)
    (hl : (lint && lintOpen (mkEmu threads cpus enabled lint)) = false) (hist : List HEv)
    (hadm : Admissible (mkEmu threads cpus enabled lint) (absOf (mkEmu threads cpus enabled lint).threads) hist) :
    StepAccepts th mh (mkEmu threads cpus enabled lint) hist ↔
      SpecAccepts (mkEmu threads cpus enabled lint).phys (targetOf (mkEmu threads cpus enabled lint))
        (absOf (mkEmu threads cpus enabled lint).threads) hist :=
  stepEv_history_accept_iff th mh (wf_init threads cpus enabled lint) (noZeroIds_init threads cpus enabled lint hid)
    hen hl hist hadm

/-! ## The thread-state timeline -/

/-- In every state reached by an accepted prefix, well-formedness holds and the logical state is
    the specification's. -/
theorem reaches_spec (e0 : Emu) (hen : e0.enabled.contains 79 = true) :
    ∀ (hist : List HEv) (e e' : Emu), WF e → SameStatic e0 e → Admissible e0 (absOf e.threads) hist →
      Reaches th mh e hist e' →
      WF e' ∧ SameStatic e0 e' ∧ specRun (targetOf e0) (absOf e.threads) hist = some (absOf e'.threads)
  | [], e, e', hw, hst, _, hr => by
    have : e' = e := hr
    subst this; exact ⟨hw, hst, rfl⟩
  | ev :: rest, e, e', hw, hst, hadm, hr => by
    obtain ⟨ti, v, payload⟩ := ev
    obtain ⟨hv, hadx, hadr⟩ := hadm
    obtain ⟨e2, he2, hrest⟩ := hr
    simp only at hv hadx hadr
    simp only [HEv.toOEv] at he2
    have hen' : e.enabled.contains 79 = true := by rw [hst.enabled]; exact hen
    cases ht : e.threads[ti]? with
    | none =>
      unfold emuStep at he2
      simp only [modelEvent_nothread th mh hen' ht] at he2
      cases he2
    | some t =>
      have hx := admissible_hx hst ht hadx
      obtain ⟨e1, hacc, rfl⟩ := (emuStep_OH th mh hw hen' ht v payload e2).mp he2
      obtain ⟨hw1, hst1, hsp⟩ := thread_step_sound hw ht hv hx hacc
      obtain ⟨a, b, c⟩ := reaches_spec e0 hen rest _ e' hw1 (hst.trans hst1) (hadr _ hsp) hrest
      refine ⟨a, b, ?_⟩
      unfold specRun
      simp only [hsp]
      exact c

/-- **State view.**  After every accepted prefix of a history, for every thread: the logical
    state is the specification's; the `state` channel is clean and its current value is the code
    of that state (nothing before the first execute, which Paraver shows as 0 = unknown); the
    `tid` channel holds the thread's TID exactly while the state is running, cooling or warming
    and nothing otherwise. -/
theorem state_view {e0 : Emu} (h0 : WF e0) (hen : e0.enabled.contains 79 = true) (hist : List HEv)
    (hadm : Admissible e0 (absOf e0.threads) hist) {e' : Emu} (hr : Reaches th mh e0 hist e')
    {ti : Nat} {t : Thread} (ht : e'.threads[ti]? = some t) :
    (∃ s', specRun (targetOf e0) (absOf e0.threads) hist = some s' ∧ s'[ti]? = some (t.state, t.cpu)) ∧
    t.chState.dirty = false ∧
    t.chState.cur = (if t.state = .unknown then .null else .int t.state.code) ∧
    prvValue prvSkipDup t.chState.cur = .ok t.state.code ∧
    t.chTid.dirty = false ∧
    t.chTid.cur = (if t.state = .running ∨ t.state = .cooling ∨ t.state = .warming then .int t.tid else .null) := by
  obtain ⟨hw, _, hsp⟩ := reaches_spec th mh e0 hen hist e0 e' h0 (SameStatic.refl e0) hadm hr
  have hth := hw.th ti t ht
  refine ⟨⟨_, hsp, ?_⟩, hth.chState.clean, hth.chState.cur, ?_, hth.chTid.clean, ?_⟩
  · unfold absOf; rw [List.getElem?_map, ht]; rfl
  · rw [hth.chState.cur]
    cases t.state <;> rfl
  · rw [hth.chTid.cur]
    unfold tidVal ThState.isActive
    cases t.state <;> simp

end

/-! ## The Paraver records of a step -/

section
variable (th mh : Emu → Nat → Nat → Nat → List Nat → Except Err Emu)

theorem prvValue_zero_int {i v : Int} (h : prvValue 0 (.int i) = .ok v) : v = i := by
  unfold prvValue at h
  simp only [prvNext, prvZero] at h
  by_cases hi : i = 0
  · subst hi; simp at h
  · simp [hi] at h; exact h.symm

theorem prvValue_tid {s : ThState} {tid v : Int} (h : prvValue 0 (tidVal s tid) = .ok v) :
    v = if s = .running ∨ s = .cooling ∨ s = .warming then tid else 0 := by
  unfold tidVal at h
  cases s <;> simp [ThState.isActive] at h ⊢ <;>
    first
      | exact prvValue_zero_int h
      | (have h' : Except.ok (0 : Int) = Except.ok v := h
         injection h' with h'; exact h'.symm)

/-- **Records of a step.**  An accepted `stepEv` of an OH* event on thread `ti` emits, on row
    `ti + 1` of thread.prv, a record of type `prvThreadState` whose value is the code of the new
    (specification) state, and — whenever the value of the tid channel changes — a record of type
    `prvThreadTid` with the TID while the new state is running, cooling or warming and 0 otherwise. -/
theorem state_records {e e' : Emu} (h : WF e) (hen : e.enabled.contains 79 = true) {ti : Nat} {t : Thread}
    (ht : e.threads[ti]? = some t) {v : Nat} (hv : v ∈ [120, 99, 112, 119, 114, 101])
    {payload : List Nat} {ci : Nat}
    (hx : v = 120 → t.state ≠ .dead ∧ 4 ≤ payload.length ∧
      loomGetCpu e t.loom (i32At payload 0) = some ci)
    {rs : List PrvRec} (hs : stepEv e ti 79 72 v payload th mh = .ok (e', rs)) :
    ∃ t' st', e'.threads[ti]? = some t' ∧ Legal t.state v = some st' ∧ t'.state = st' ∧
      (⟨0, ti + 1, prvThreadState, st'.code⟩ : PrvRec) ∈ rs ∧
      (tidVal t.state t.tid ≠ tidVal st' t.tid →
        (⟨0, ti + 1, prvThreadTid,
          if st' = .running ∨ st' = .cooling ∨ st' = .warming then t.tid else 0⟩ : PrvRec) ∈ rs) := by
  obtain ⟨e1, hm, hrec, rfl⟩ := (stepEv_ok_iff th mh e (ti, 72, v, payload) e' rs).mp hs
  simp only at hm
  rw [modelEvent_OH th mh h hen ht] at hm
  have hth := h.th ti t ht
  have hver := preThread_verdict h ht hv (payload := payload) (ci := ci) (fun h' => (hx h').2)
  cases hmn : modelNext t.state v with
  | none =>
    rw [hmn] at hver
    obtain ⟨err, he⟩ := hver
    rw [he] at hm; cases hm
  | some st' =>
    rw [hmn] at hver
    have hso := hver.2.1 e1 hm
    obtain ⟨⟨t0, t1, ht0, ht1, hg1, htid, hcs, hct, _⟩, _, _⟩ := hver.2.2 e1 hm
    rw [ht] at ht0; cases ht0
    obtain ⟨hn1, hn2⟩ := modelNext_ne hmn
    have hflush : e1.flushAll.threads[ti]? = some t1.flush := by
      rw [Emu.flushAll_eq]
      show (e1.threads.map Thread.flush)[ti]? = _
      rw [List.getElem?_map, ht1]; rfl
    have hstate : t1.flush.state = st' := by
      have h1 : (absOf e1.flushAll.threads)[ti]? = some (t1.flush.state, t1.flush.cpu) := by
        unfold absOf; rw [List.getElem?_map, hflush]; rfl
      rw [hso.abs, List.getElem?_set_self (by unfold absOf; rw [List.length_map]; exact lt_of_getElem? ht)] at h1
      have h2 : (st', cpuAfter v t.cpu ci) = (t1.flush.state, t1.flush.cpu) := by injection h1
      exact (congrArg Prod.fst h2).symm
    have hmem : t1 ∈ e1.threads := List.mem_iff_getElem?.mpr ⟨ti, ht1⟩
    obtain ⟨_, ⟨r2, hr2, hs2⟩, ⟨r3, hr3, hs3⟩⟩ := records_thread hrec hmem
    rw [hg1] at hr2 hr3
    refine ⟨t1.flush, st', hflush, ?_, hstate, ?_, ?_⟩
    · rw [legal_eq_modelNext hv (fun h' => (hx h').1), hmn]
    · have hd : t1.chState.dirty = true := by
        rw [hcs, hth.chState.setv_dirty]
        exact decide_eq_true (stateVal_ne hn1 hn2)
      obtain ⟨v', hv', rfl⟩ := emitRaw_dirty_ok hd hr3
      rw [hcs, hth.chState.setv_cur, prvValue_state hn1] at hv'
      have : v' = st'.code := by injection hv' with hv'; exact hv'.symm
      rw [← this]
      exact hs3 _ (List.mem_singleton.mpr rfl)
    · intro hne
      have hd : t1.chTid.dirty = true := by
        rw [hct, hth.chTid.setv_dirty]
        exact decide_eq_true hne
      obtain ⟨v', hv', rfl⟩ := emitRaw_dirty_ok hd hr2
      rw [hct, hth.chTid.setv_cur] at hv'
      rw [← prvValue_tid hv']
      exact hs2 _ (List.mem_singleton.mpr rfl)
end


/-! ## Non-vacuity: a concrete two-thread, two-CPU (+ virtual CPU) system -/

/-- two threads of one process on loom 0; CPUs 0 and 1 physical, CPU 2 the virtual CPU -/
def demo : Emu := mkEmu [(10, 100, 0), (11, 100, 0)] [(0, 0, false), (0, 1, false), (0, -1, true)] [79] true

def noHook : Emu → Nat → Nat → Nat → List Nat → Except Err Emu := fun _ _ _ _ _ => .error .unknownEvent

/-- payload of `OHx` naming CPU index `i` (little endian `int32`) plus creator and tag -/
def xPayload (i : Nat) : List Nat := [i, 0, 0, 0, 255, 255, 255, 255, 0, 0, 0, 0, 0, 0, 0, 0]

/-- thread 0 executes on CPU 0, thread 1 on CPU 1, thread 0 pauses, thread 1 cools and ends,
    thread 0 resumes and ends -/
def demoHist : List HEv :=
  [(0, 120, xPayload 0), (1, 120, xPayload 1), (0, 112, []), (1, 99, []), (1, 101, []), (0, 114, []), (0, 101, [])]

example : WF demo := wf_init _ _ _ _ _
example : demo.enabled.contains 79 = true := by decide
example : (demo.lint && lintOpen demo) = false := by decide

/-- the state reached by `stepEv` after the first three events: thread 0 paused on CPU 0,
    thread 1 running on CPU 1 -/
def demo3 : Except Err Emu := do
  let (e1, _) ← stepEv demo 0 79 72 120 (xPayload 0) noHook noHook
  let (e2, _) ← stepEv e1 1 79 72 120 (xPayload 1) noHook noHook
  let (e3, _) ← stepEv e2 0 79 72 112 [] noHook noHook
  pure e3

example : (demo3.toOption.map fun e => absOf e.threads) = some [(.paused, some 0), (.running, some 1)] := by
  decide

/-- the records of the first step: thread row 1 shows CPU 1 (type 6), TID 10 (type 2), state
    running = 1 (type 4); CPU row 1 shows PID 100, TID 10 and one running thread -/
example : (stepEv demo 0 79 72 120 (xPayload 0) noHook noHook).toOption.map (·.2) =
    some [⟨0, 1, 6, 1⟩, ⟨0, 1, 2, 10⟩, ⟨0, 1, 4, 1⟩, ⟨1, 1, 1, 100⟩, ⟨1, 1, 2, 10⟩, ⟨1, 1, 3, 1⟩] := by
  decide

/-- decidable form of `Admissible`, for concrete histories -/
def admissibleB (e0 : Emu) : LState → List HEv → Bool
  | _, [] => true
  | s, ev :: rest =>
    [120, 99, 112, 119, 114, 101].contains ev.2.1 &&
    (ev.2.1 != 120 ||
      match e0.threads[ev.1]? with
      | none => true
      | some t =>
        (match s[ev.1]? with | some (st, _) => st != .dead | none => true) &&
        decide (4 ≤ ev.2.2.length) && (loomGetCpu e0 t.loom (i32At ev.2.2 0)).isSome) &&
    match specThread s ev.1 ev.2.1 (targetOf e0 ev.1 ev.2.2) with
    | none => true
    | some s' => admissibleB e0 s' rest

theorem admissible_of_B (e0 : Emu) : ∀ (hist : List HEv) (s : LState),
    admissibleB e0 s hist = true → Admissible e0 s hist
  | [], _, _ => trivial
  | ev :: rest, s, h => by
    unfold admissibleB at h
    simp only [Bool.and_eq_true, Bool.or_eq_true] at h
    obtain ⟨⟨h1, h2⟩, h3⟩ := h
    refine ⟨by simpa using h1, ?_, ?_⟩
    · intro hv t ht
      rcases h2 with h2 | h2
      · simp [hv] at h2
      · simp only [ht, Bool.and_eq_true] at h2
        obtain ⟨⟨h4, h5⟩, h6⟩ := h2
        refine ⟨?_, by simpa using h5, ?_⟩
        · intro st c hs
          simp only [hs] at h4
          simpa using h4
        · cases hl : loomGetCpu e0 t.loom (i32At ev.2.2 0) with
          | none => rw [hl] at h6; cases h6
          | some ci => exact ⟨ci, rfl⟩
    · intro s' hs'
      simp only [hs'] at h3
      exact admissible_of_B e0 rest s' h3

example : Admissible demo (absOf demo.threads) demoHist := admissible_of_B _ _ _ (by decide)

/-- the demo history is accepted by the model … -/
example : ((emuRun noHook noHook demo (demoHist.map HEv.toOEv)).toOption.map
    fun e => (absOf e.threads, (finish e).toOption)) =
    some ([(.dead, none), (.dead, none)], some ()) := by decide

/-- the side condition holds for the demo system (TIDs 10, 11, PID 100) … -/
example : NoZeroIds demo := by decide
example : NoZeroIds demo := noZeroIds_init _ _ _ _ (by decide)

/-- … and the full step accepts the demo history: `finish` succeeds and the seven steps emit
    6, 6, 5, 4, 3, 5 and 6 records; the last step (end of thread 0) writes CPU 0 (nothing), TID 0
    (nothing), state 3 = dead on thread row 1 and PID / TID nothing, nrun 0 on CPU row 1 -/
example : ((stepRun noHook noHook demo demoHist).toOption.map fun r =>
      ((finish r.1).toOption, r.2.map List.length, r.2.getLast?)) =
    some (some (), [6, 6, 5, 4, 3, 5, 6],
      some [⟨0, 1, 6, 0⟩, ⟨0, 1, 2, 0⟩, ⟨0, 1, 4, 3⟩, ⟨1, 1, 1, 0⟩, ⟨1, 1, 2, 0⟩, ⟨1, 1, 3, 0⟩]) := by
  decide

/-- a system whose only thread has TID 0 (not `NoZeroIds`; the loader refuses it) -/
def demoTid0 : Emu := mkEmu [(0, 100, 0)] [(0, 0, false)] [79] true

/-- **The side condition is needed**: with TID 0 the handlers accept the execute (`emuStep`
    succeeds) but the record emission refuses the value 0 on the TID type ("forbidden value 0"), so
    the full step fails. -/
theorem tid_zero_records_fail :
    ¬ NoZeroIds demoTid0 ∧
    (emuStep noHook noHook demoTid0 (0, 72, 120, xPayload 0)).toOption.isSome = true ∧
    (match stepEv demoTid0 0 79 72 120 (xPayload 0) noHook noHook with
      | .error .prvZero => true | _ => false) = true := by decide

/-- … and two running threads on physical CPU 0 are refused (`Err.oversub`) -/
example : (match emuRun noHook noHook demo [(0, 72, 120, xPayload 0), (1, 72, 120, xPayload 0)] with
    | .error .oversub => true | _ => false) = true := by decide

end Ovni.Props.C04
