import OvniModel.Emu.Chan

/-!
# C08, part one — subsystem events nest like a stack (channel discipline)

The table-independent half of C08: `chan_push` / `chan_pop` / `chan_set` of
src/emu/chan.c refine a stack specification.  Kept apart from the facts about
the regenerated event tables (`Props/C08.lean`) so that properties which only
use the channel discipline (C17) do not depend on the tables.
-/
set_option linter.unusedSimpArgs false
namespace Ovni.Props.C08
open Ovni.Emu

/-- The enter/leave operations of one channel. -/
inductive SOp where
  | push (v : Int)
  | pop (v : Int)
deriving DecidableEq, Repr

/-- Implementation side: operation, then flush (one event). -/
def applyOp (maxStack : Nat) (c : Chan) : SOp → Except Err Chan
  | .push v => (c.push maxStack (.int v)).map Chan.flush
  | .pop v => (c.pop (.int v)).map Chan.flush

def runOps (maxStack : Nat) : Chan → List SOp → Except Err Chan
  | c, [] => .ok c
  | c, op :: ops => match applyOp maxStack c op with
    | .error e => .error e
    | .ok c' => runOps maxStack c' ops

/-- Specification, written from the property text: a leave must match the
    innermost open region; an enter must not re-enter the innermost open region
    (unless the channel allows duplicates) nor exceed the depth limit. -/
def specOp (maxStack : Nat) (allowDup : Bool) (stk : List Int) : SOp → Option (List Int)
  | .push v =>
    if !allowDup && stk.getLast? = some v then none
    else if stk.length ≥ maxStack then none
    else some (stk ++ [v])
  | .pop v => if stk.getLast? = some v then some stk.dropLast else none

def specRun (maxStack : Nat) (allowDup : Bool) : List Int → List SOp → Option (List Int)
  | stk, [] => some stk
  | stk, op :: ops => match specOp maxStack allowDup stk op with
    | none => none
    | some stk' => specRun maxStack allowDup stk' ops

/-- A flushed stack channel holding `stk`. -/
structure Rep (c : Chan) (stk : List Int) : Prop where
  isStack : c.isStack = true
  vals : c.vals = stk.map Value.int
  clean : c.dirty = false
  last : c.last = c.cur
  noIgnore : c.ignoreDup = false

theorem getLast_map_int (stk : List Int) :
    (stk.map Value.int).getLast? = stk.getLast?.map Value.int := by
  simp [List.getLast?_map]

theorem cur_of_rep {c : Chan} {stk : List Int} (h : Rep c stk) :
    c.cur = match stk.getLast? with | some v => .int v | none => .null := by
  unfold Chan.cur
  rw [h.vals, getLast_map_int]
  cases stk.getLast? <;> rfl

/-- **The timeline shows the innermost open region** (nothing when none is open). -/
theorem view_is_top {c : Chan} {stk : List Int} (h : Rep c stk) :
    c.cur = match stk.getLast? with | some v => .int v | none => .null := cur_of_rep h

theorem rep_flush_push {c : Chan} {stk : List Int} (h : Rep c stk) (v : Int) :
    Rep ({ c with vals := c.vals ++ [Value.int v], dirty := true } : Chan).flush (stk ++ [v]) := by
  refine ⟨?_, ?_, ?_, ?_, ?_⟩
  · simp [Chan.flush, h.isStack]
  · simp [Chan.flush, h.vals]
  · simp [Chan.flush]
  · simp [Chan.flush, Chan.cur]
  · simp [Chan.flush, h.noIgnore]

theorem rep_flush_pop {c : Chan} {stk : List Int} (h : Rep c stk) :
    Rep ({ c with vals := c.vals.dropLast, dirty := true } : Chan).flush stk.dropLast := by
  refine ⟨?_, ?_, ?_, ?_, ?_⟩
  · simp [Chan.flush, h.isStack]
  · simp [Chan.flush, h.vals, List.map_dropLast]
  · simp [Chan.flush]
  · simp [Chan.flush, Chan.cur]
  · simp [Chan.flush, h.noIgnore]

theorem last_of_rep {c : Chan} {stk : List Int} (h : Rep c stk) (v : Int) :
    (c.last = Value.int v) ↔ stk.getLast? = some v := by
  rw [h.last, cur_of_rep h]
  cases stk.getLast? with
  | none => simp
  | some t =>
    constructor
    · intro hh; cases hh; rfl
    · intro hh; cases hh; rfl

theorem push_ok {c : Chan} {stk : List Int} (h : Rep c stk) (maxStack : Nat) (v : Int)
    (hd : c.allowDup = true ∨ stk.getLast? ≠ some v) (hf : stk.length < maxStack) :
    c.push maxStack (.int v) = .ok { c with vals := c.vals ++ [Value.int v], dirty := true } := by
  have hlen : c.vals.length = stk.length := by rw [h.vals]; simp
  unfold Chan.push
  rw [if_neg (by simp [h.isStack]), if_neg (by simp [h.clean])]
  have hnd : ¬ ((!c.allowDup && decide (c.last = Value.int v)) = true) := by
    simp only [Bool.and_eq_true, Bool.not_eq_true', decide_eq_true_eq, not_and]
    intro ha hl
    rcases hd with hd | hd
    · rw [hd] at ha; cases ha
    · exact hd ((last_of_rep h v).1 hl)
  rw [if_neg hnd, if_neg (by omega)]

theorem push_err {c : Chan} {stk : List Int} (h : Rep c stk) (maxStack : Nat) (v : Int)
    (hd : (c.allowDup = false ∧ stk.getLast? = some v) ∨ stk.length ≥ maxStack) :
    ∃ e, c.push maxStack (.int v) = .error e := by
  have hlen : c.vals.length = stk.length := by rw [h.vals]; simp
  unfold Chan.push
  rw [if_neg (by simp [h.isStack]), if_neg (by simp [h.clean])]
  by_cases hdup : (!c.allowDup && decide (c.last = Value.int v)) = true
  · rw [if_pos hdup, h.noIgnore]; exact ⟨_, rfl⟩
  · rw [if_neg hdup]
    rcases hd with ⟨ha, hl⟩ | hfull
    · exfalso; apply hdup
      simp [ha, (last_of_rep h v).2 hl]
    · rw [if_pos (by omega)]; exact ⟨_, rfl⟩

theorem pop_ok {c : Chan} {stk : List Int} (h : Rep c stk) (v : Int) (ht : stk.getLast? = some v) :
    c.pop (.int v) = .ok { c with vals := c.vals.dropLast, dirty := true } := by
  unfold Chan.pop
  rw [if_neg (by simp [h.isStack]), if_neg (by simp [h.clean])]
  have : c.vals.getLast? = some (Value.int v) := by rw [h.vals, getLast_map_int, ht]; rfl
  rw [this]
  simp

theorem pop_err {c : Chan} {stk : List Int} (h : Rep c stk) (v : Int) (ht : stk.getLast? ≠ some v) :
    ∃ e, c.pop (.int v) = .error e := by
  unfold Chan.pop
  rw [if_neg (by simp [h.isStack]), if_neg (by simp [h.clean])]
  rw [h.vals, getLast_map_int]
  cases hl : stk.getLast? with
  | none => exact ⟨_, rfl⟩
  | some top =>
    have hne : top ≠ v := by intro hh; subst hh; exact ht hl
    have : (Value.int top ≠ Value.int v) := by intro hh; cases hh; exact hne rfl
    simp only [Option.map_some]
    rw [if_pos this]; exact ⟨_, rfl⟩

/-- One event: the implementation accepts exactly when the specification does,
    and the representation is kept. -/
theorem applyOp_iff (maxStack : Nat) (c : Chan) (stk : List Int) (h : Rep c stk) (op : SOp) :
    (∀ stk', specOp maxStack c.allowDup stk op = some stk' →
        ∃ c', applyOp maxStack c op = .ok c' ∧ Rep c' stk' ∧ c'.allowDup = c.allowDup) ∧
    (specOp maxStack c.allowDup stk op = none → ∃ e, applyOp maxStack c op = .error e) := by
  cases op with
  | push v =>
    simp only [specOp, applyOp]
    by_cases hdup : (!c.allowDup && decide (stk.getLast? = some v)) = true
    · rw [if_pos hdup]
      simp only [Bool.and_eq_true, Bool.not_eq_true', decide_eq_true_eq] at hdup
      obtain ⟨e, he⟩ := push_err h maxStack v (Or.inl hdup)
      rw [he]
      exact ⟨fun _ hh => (by cases hh), fun _ => ⟨e, rfl⟩⟩
    · rw [if_neg hdup]
      by_cases hf : stk.length ≥ maxStack
      · rw [if_pos hf]
        obtain ⟨e, he⟩ := push_err h maxStack v (Or.inr hf)
        rw [he]
        exact ⟨fun _ hh => (by cases hh), fun _ => ⟨e, rfl⟩⟩
      · rw [if_neg hf]
        have hd : c.allowDup = true ∨ stk.getLast? ≠ some v := by
          simp only [Bool.and_eq_true, Bool.not_eq_true', decide_eq_true_eq, not_and] at hdup
          cases ha : c.allowDup with
          | true => exact Or.inl rfl
          | false => exact Or.inr (hdup ha)
        rw [push_ok h maxStack v hd (by omega)]
        refine ⟨fun stk' hs => ?_, fun hn => by cases hn⟩
        cases hs
        exact ⟨_, rfl, rep_flush_push h v, by simp [Chan.flush]⟩
  | pop v =>
    simp only [specOp, applyOp]
    by_cases ht : stk.getLast? = some v
    · rw [if_pos ht, pop_ok h v ht]
      refine ⟨fun stk' hs => ?_, fun hn => by cases hn⟩
      cases hs
      exact ⟨_, rfl, rep_flush_pop h, by simp [Chan.flush]⟩
    · rw [if_neg ht]
      obtain ⟨e, he⟩ := pop_err h v ht
      rw [he]
      exact ⟨fun _ hh => (by cases hh), fun _ => ⟨e, rfl⟩⟩

/-- **C08 (nesting).** A history of enter/leave events on a thread's channel
    is accepted by the channel machinery exactly when it is properly nested:
    every leave matches the innermost open region, no enter exceeds the depth
    limit and (for channels without `ALLOW_DUP`) none re-enters the innermost
    open region.  Unbounded history length, any depth limit. -/
theorem nesting_accept_iff (maxStack : Nat) (ops : List SOp) (c : Chan) (stk : List Int)
    (h : Rep c stk) :
    (∀ stk', specRun maxStack c.allowDup stk ops = some stk' →
        ∃ c', runOps maxStack c ops = .ok c' ∧ Rep c' stk') ∧
    (specRun maxStack c.allowDup stk ops = none → ∃ e, runOps maxStack c ops = .error e) := by
  induction ops generalizing c stk with
  | nil =>
    constructor
    · intro stk' hs
      simp only [specRun, Option.some.injEq] at hs
      subst hs
      exact ⟨c, rfl, h⟩
    · intro hn; simp [specRun] at hn
  | cons op ops ih =>
    obtain ⟨hok, herr⟩ := applyOp_iff maxStack c stk h op
    simp only [specRun, runOps]
    cases hs : specOp maxStack c.allowDup stk op with
    | none =>
      obtain ⟨e, he⟩ := herr hs
      rw [he]
      exact ⟨fun _ hh => (by cases hh), fun _ => ⟨e, rfl⟩⟩
    | some stk1 =>
      obtain ⟨c1, hc1, hrep1, hd1⟩ := hok stk1 hs
      rw [hc1]
      simp only
      have := ih c1 stk1 hrep1
      rw [hd1] at this
      exact this

/-- Every properly nested history that never re-enters the innermost open
    region and stays within the depth limit is accepted, on every channel. -/
theorem nonreentering_accepted (maxStack : Nat) (ops : List SOp) (c : Chan) (stk stk' : List Int)
    (h : Rep c stk) (hs : specRun maxStack false stk ops = some stk') :
    ∃ c', runOps maxStack c ops = .ok c' ∧ Rep c' stk' := by
  -- accepted by the stricter (no-duplicate) specification ⇒ accepted whatever the dup property
  have mono : ∀ (ops : List SOp) (stk stk' : List Int) (d : Bool),
      specRun maxStack false stk ops = some stk' → specRun maxStack d stk ops = some stk' := by
    intro ops
    induction ops with
    | nil => intro stk stk' d hh; exact hh
    | cons op ops ih =>
      intro stk stk' d hh
      simp only [specRun] at hh ⊢
      cases h1 : specOp maxStack false stk op with
      | none => rw [h1] at hh; cases hh
      | some s1 =>
        rw [h1] at hh
        have h2 : specOp maxStack d stk op = some s1 := by
          cases op with
          | push v =>
            simp only [specOp, Bool.not_false, Bool.true_and] at h1 ⊢
            split at h1
            · cases h1
            · rename_i hne
              split at h1
              · cases h1
              · rename_i hf
                cases h1
                have : ¬ ((!d && decide (stk.getLast? = some v)) = true) := by
                  simp only [Bool.and_eq_true, decide_eq_true_eq, not_and]
                  intro _ hx; exact hne (by simpa using hx)
                simp [this, hf]
          | pop v => exact h1
        rw [h2]
        exact ih s1 stk' d hh
  exact (nesting_accept_iff maxStack ops c stk h).1 stk' (mono ops stk stk' c.allowDup hs)

end Ovni.Props.C08
