import OvniModel.Props.C02
import OvniModel.Props.C12

/-!
# C02, second half: "consequently the emulator accepts the trace" (stream layer)

Composition of the runtime model (Rt/Buffer, C01/C02) with the emulator's
byte-level stream cursor (Emu/Stream, C12): the bytes a protocol-conformant
program leaves in its stream file are accepted by `check_stream_header` /
`stream_step` — header, exact tiling, monotone clocks — whatever lies in memory
beyond the file.  (Acceptance of the *events* by the models is established by
running the real `ovniemu` in the C02 check.)
-/
set_option linter.unusedSectionVars false
set_option linter.unusedSimpArgs false
namespace Ovni.Props.C02
open Ovni.Rt Ovni.Props.C01 Ovni.Generated
open Ovni.Emu.Stream (SEv streamBytes Sorted)
variable {D : Type} [JData D]

/-- A runtime record as the emulator's decoder sees it. -/
def toSEv : Rec D → SEv
  | .ev e => ⟨e.flags % 256, [e.m % 256, e.c % 256, e.v % 256], e.clock, e.payload.take (payloadSize e.flags)⟩
  | .jumbo e d => ⟨e.flags % 256, [e.m % 256, e.c % 256, e.v % 256], e.clock, le 4 (JData.len d) ++ JData.bytes d⟩

theorem toSEv_encode (r : Rec D) : (toSEv r).encode = r.encode := by
  cases r with
  | ev e => simp [toSEv, SEv.encode, Rec.encode, headerBytes]
  | jumbo e d => simp [toSEv, SEv.encode, Rec.encode, headerBytes]

theorem toSEv_clock (r : Rec D) : (toSEv r).clock = r.clock := by
  cases r <;> rfl

theorem encodeAll_map (rs : List (Rec D × Origin)) :
    Ovni.Emu.Stream.encodeAll (rs.map (fun x => toSEv x.1)) = rs.flatMap (fun r => r.1.encode) := by
  induction rs with
  | nil => rfl
  | cons x xs ih =>
    simp only [Ovni.Emu.Stream.encodeAll, List.map_cons, List.flatMap_cons] at ih ⊢
    rw [toSEv_encode, ih]

/-- A well-formed runtime record with a clock below 2^63 and (for a jumbo) a
    total size below 2^31 is a well-formed event for the emulator. -/
theorem toSEv_wf (r : Rec D) (h : r.WF) (hc : r.clock < 9223372036854775808)
    (hs : r.size < 2147483648) : (toSEv r).WF := by
  cases h with
  | ev e hw =>
    have hsm := hw.small
    have hf : e.flags % 256 = e.flags := Nat.mod_eq_of_lt (by omega)
    have hnj : Ovni.Emu.Stream.isJumboF e.flags = false := by
      unfold Ovni.Emu.Stream.isJumboF
      have : e.flags / 16 = 0 := by omega
      simp [this]
    refine ⟨rfl, hc, ?_⟩
    show (if Ovni.Emu.Stream.isJumboF (e.flags % 256) then _ else _)
    rw [hf, hnj]
    simp only [Bool.false_eq_true, if_false]
    show (e.payload.take (payloadSize e.flags)).length = Ovni.Emu.Stream.nibSize (e.flags % 256)
    rw [hf]
    have hps : payloadSize e.flags = Ovni.Emu.Stream.nibSize e.flags := rfl
    rw [List.length_take, hw.size, ← hps, hw.size]
    omega
  | jumbo e d hf hl =>
    have hj : Ovni.Emu.Stream.isJumboF (19 % 256) = true := by decide
    refine ⟨rfl, hc, ?_⟩
    show (if Ovni.Emu.Stream.isJumboF (e.flags % 256) then _ else _)
    rw [hf, hj]
    simp only [if_true]
    have l4 : (le 4 (JData.len d)).length = 4 := le_length 4 _
    have hb : (JData.bytes d).length = JData.len d := (JData.len_eq d).symm
    have hsz : (Rec.jumbo e d).size = 16 + JData.len d := rfl
    refine ⟨?_, ?_, ?_⟩
    · show 4 ≤ (le 4 (JData.len d) ++ JData.bytes d).length
      simp only [List.length_append, l4]; omega
    · show unle ((le 4 (JData.len d) ++ JData.bytes d).take 4) = (le 4 (JData.len d) ++ JData.bytes d).length - 4
      rw [List.take_append_of_le_length (by omega), List.take_of_length_le (by omega), unle_le]
      simp only [List.length_append, l4, hb]
      have : (256 : Nat) ^ 4 = 2 ^ 32 := by decide
      rw [Nat.mod_eq_of_lt (by omega)]
      omega
    · show (le 4 (JData.len d) ++ JData.bytes d).length + 12 < 2147483648
      simp only [List.length_append, l4, hb]
      rw [hsz] at hs; omega

/-- **The emulator's stream layer accepts every conformant stream.**  For every
    capacity in (24, 2^31], every protocol-conformant program that returns with
    at least one event in the file and clock readings below 2^63: the file
    content is accepted by the (repaired) `stream_step` loop — header check,
    every event complete, exact tiling, clocks never backwards — for every
    content of memory beyond the file. -/
theorem conformant_stream_accepted (cap : Nat) (hcap : 24 < cap) (hc31 : cap ≤ 2147483648)
    (ops : List (Op D)) (hc : ∀ op ∈ ops, Conformant op) (s' : St D)
    (h : run cap (init0 : St D) ops = some s') (hh : s'.hdrOnDisk = true) (hne : s'.disk ≠ [])
    (hclk : s'.now < 9223372036854775808) (g : Ovni.Emu.Stream.Garbage) :
    Ovni.Emu.Stream.Fixed.acceptsN (s'.disk.length + 1) g (s'.diskBytes streamMagic streamVersion) = true := by
  have hv := run_valid cap hcap ops init0 s' (valid_init0 cap (by omega)) hc h
  obtain ⟨hsorted, _, hwf, _⟩ := conformant_stream_valid cap hcap (by omega) ops hc s' h
  -- the file is the emulator-side encoding of the mapped records
  have hbytes : s'.diskBytes streamMagic streamVersion =
      streamBytes (s'.disk.map (fun x => toSEv x.1)) := by
    unfold St.diskBytes streamBytes Ovni.Emu.Stream.header streamHeader
    rw [hh, encodeAll_map]; rfl
  have hvalid : Ovni.Emu.Stream.Valid (s'.disk.map (fun x => toSEv x.1)) := by
    refine ⟨by simpa using hne, ?_, ?_⟩
    · intro e he
      obtain ⟨x, hx, rfl⟩ := List.mem_map.1 he
      have hxall : x ∈ s'.all := by simp [St.all, hx]
      apply toSEv_wf x.1 (hwf x hx)
      · have := hv.bound x hxall; omega
      · have hfresh : ∀ op ∈ ops, FreshEv op := by
          intro op ho
          have := hc op ho
          cases op <;> simp only [FreshEv, Conformant] at this ⊢
          · exact this.1
          · exact this.1
        have := run_sizes cap hcap ops s' hfresh h x hxall
        omega
    · unfold Sorted
      rw [List.pairwise_map]
      exact hsorted.imp (fun hab => by rw [toSEv_clock, toSEv_clock]; exact hab)
  rw [hbytes]
  have := Ovni.Props.C12.Fixed.valid_accepted g _ hvalid
  simpa using this

end Ovni.Props.C02
