import OvniModel.Props.C13
import OvniModel.Lemmas.PvRegs
import OvniModel.Lemmas.PvPcfRt

/-!
# C13, text level — the Paraver files as text

Model: `Emu/PvText.lean` (the text `prv.c`, `prf.c`, `pcf.c` print and what
`system.c`, `thread.c`, `cpu.c`, `model_pvt.c`, `ovni/mark.c`, `task.c` put into
the PCFs) over `Emu/PvLines.lean` (the emulator with its whole patch bay: the
lines `emit` writes, in file order).  `Props/C13.lean` states the property on
records; here it is stated on the bytes of the files, read back by independent
readers (`parsePrv`, `parseRow`, `pcfDeclared`, `parsePcfTypes`).  The same functions print the
files the check compares byte for byte with ovniemu's (`drv_emu`, `pvtext`).
-/
namespace Ovni.Props.C13Text
open Ovni.Emu Ovni.Emu.PvText Ovni.Generated Ovni.Props.C13

/-- **C13 on the text of a `.prv` and its `.pcf`**: the file parses — header
    with the given duration and row count, then one record per line —, the
    records are in non-decreasing time order, none later than the header
    duration, every row within 1 … nrows, every type declared by the PCF text. -/
def PrvWellFormed (prv pcf : Text) (nrows : Nat) (duration : Int) : Prop :=
  ∃ ls, parsePrv prv = some ((duration, nrows), ls) ∧
    ls.Pairwise (fun a b => a.1 ≤ b.1) ∧
    ∀ l ∈ ls, 1 ≤ l.2.1 ∧ l.2.1 ≤ nrows ∧ l.1 ≤ duration ∧ l.2.2.1 ∈ pcfDeclared pcf

/-! ### (a) round trip -/

/-- **Every `.prv` text reads back**: for any row count, any duration (any
    `Int`, negative included) and any list of records (numbers of any size) the
    reader returns exactly the header fields and the records, in order.  In
    particular decimal printing loses nothing and no record is split or merged. -/
theorem prv_roundtrip (p : PrvFile) : parsePrv (prvText p) = some (p.header, p.lines) :=
  parsePrv_text p.nrows p.time p.lines

/-- Two files with the same text have the same header and the same records. -/
theorem prvText_injective (p q : PrvFile) (h : prvText p = prvText q) :
    p.header = q.header ∧ p.lines = q.lines := by
  have hp := prv_roundtrip p
  rw [h, prv_roundtrip q] at hp
  simp only [Option.some.injEq, Prod.mk.injEq] at hp
  exact ⟨hp.1.symm, hp.2.symm⟩

/-! ### (d) the header rewrite of `prv_close` -/

/-- **Exact bound of the `%020lld` placeholder**: the header `prv_close` writes
    has the length of the header `prv_open` wrote iff the duration has at most
    20 digits (19 after a minus sign). -/
theorem header_rewrite_same_length_iff (nrows : Nat) (d : Int) :
    (prvHeader nrows d).length = (prvOpenText nrows).length ↔ (-(10 : Int) ^ 19 < d ∧ d < (10 : Int) ^ 20) := by
  have h0 : (intPad0 20 0).length = 20 := (intPad0_length 0).mpr (by decide)
  unfold prvOpenText
  rw [prvHeader_length, prvHeader_length, h0, ← intPad0_length d]
  omega

/-- **The rewrite never changes the file** beyond the header when the duration
    is in that range — every `int64_t` clock is (2^63 < 10^19): the closed file
    is the final header followed by the lines written, same length as before
    the rewrite. -/
theorem close_is_prvText (p : PrvFile) (h : -(10 : Int) ^ 19 < p.time ∧ p.time < (10 : Int) ^ 20) :
    prvCloseText p = prvText p ∧ (prvCloseText p).length = (prvOpenedText p).length := by
  have hl := (header_rewrite_same_length_iff p.nrows p.time).mpr h
  have e : prvCloseText p = prvText p := overwrite_same_length _ _ _ hl
  refine ⟨e, ?_⟩
  rw [e]
  simp only [prvText, prvOpenedText, List.length_append, hl]

theorem int64_in_range (t : Int) (h0 : 0 ≤ t) (h : t < 2 ^ 63) : -(10 : Int) ^ 19 < t ∧ t < (10 : Int) ^ 20 := by
  have : (2 : Int) ^ 63 < (10 : Int) ^ 20 := by decide
  have : -(10 : Int) ^ 19 < 0 := by decide
  omega

/-- Beyond the bound the rewrite eats the beginning of the first record: a
    duration of 10^20 (21 digits) turns `2:0:1:1:1:…` into `:0:1:1:1:…` and the
    file no longer parses. -/
theorem close_corrupts_beyond_bound :
    parsePrv (prvCloseText { nrows := 1, time := 10 ^ 20, lines := [(10 ^ 20, 1, 4, 1)] }) = none := by decide

/-! ### (c) the `.row` file -/

/-- **thread.row**: what `prf_close` writes reads back as exactly one name per
    thread — the declared size is the number of threads — in gindex order, the
    name of thread `g` being `TH <appid>.<tid>`; every name fits
    `MAX_PRF_LABEL`. -/
theorem thread_row_wellformed (e : Emu) (n : Names) (t : Text) (h : rowFileOf (threadNames e n) = .ok t) :
    parseRow t = some (e.threads.length, threadNames e n) ∧
    threadNames e n = e.threads.mapIdx (fun g th => threadName (n.appids.getD g 0) th.tid) ∧
    ∀ nm ∈ threadNames e n, nm.length < maxPrfLabel := by
  obtain ⟨rfl, hlen⟩ := rowFileOf_eq _ _ h
  refine ⟨?_, rfl, hlen⟩
  have := parseRow_rowText (threadNames e n) (by
    intro nm hnm
    simp only [threadNames, List.mem_mapIdx] at hnm
    obtain ⟨i, _, rfl⟩ := hnm
    exact threadName_no_nl _ _)
  simpa [threadNames] using this

/-- **cpu.row**: one name per CPU in gindex order, ` CPU <loom>.<phyid>` or
    `vCPU <loom>.*`. -/
theorem cpu_row_wellformed (e : Emu) (n : Names) (t : Text) (h : rowFileOf (cpuNames e n) = .ok t) :
    parseRow t = some (e.cpus.length, cpuNames e n) ∧
    cpuNames e n = e.cpus.mapIdx (fun g c => cpuName (n.cpus.getD g (c.loom, 0)).1 (n.cpus.getD g (c.loom, 0)).2 c.virt) ∧
    ∀ nm ∈ cpuNames e n, nm.length < maxPrfLabel := by
  obtain ⟨rfl, hlen⟩ := rowFileOf_eq _ _ h
  refine ⟨?_, rfl, hlen⟩
  have := parseRow_rowText (cpuNames e n) (by
    intro nm hnm
    simp only [cpuNames, List.mem_mapIdx] at hnm
    obtain ⟨i, _, rfl⟩ := hnm
    exact cpuName_no_nl _ _ _)
  simpa [cpuNames] using this

/-! ### (b) the files of an accepted history -/

section
variable {th mh : Emu → Nat → Nat → Nat → List Nat → Except Err Emu}

/-- **thread.prv of every accepted history is well formed, as text.**  Connect
    the emulator for any hierarchy, enabled models and mark table
    (`XEmu.init`), emulate any list of events that is accepted (`XEmu.run`,
    clocks below 10^20 — every `int64_t` is), close the file (`prvCloseText`: the
    header rewritten over the placeholder).  Then the text parses with the
    duration = clock of the last event and the number of threads as row count,
    the records are in non-decreasing time order, none later than the duration,
    every row is the row of a thread, and every type is declared by the text of
    thread.pcf (`pcfText` of what `system_connect`, the models and the marks put
    there). -/
theorem thread_prv_text_wellformed {e : Emu} {n : Names} {x0 x : XEmu} {evs : List XEv}
    (hinit : XEmu.init e = .ok x0) (hrun : x0.run th mh evs = .ok x)
    (hmarks : e.extra = markExtra n.marks) (hdur : x.th.time < (10 : Int) ^ 20)
    {tp : Pcf} (htp : threadPcf e n = .ok tp) :
    PrvWellFormed (prvCloseText x.th) (pcfText tp) e.threads.length x.th.time ∧
    x.th.time = (match evs.getLast? with | some ev => ev.1 | none => 0) := by
  obtain ⟨hi0, he0⟩ := XEmu.init_inv hinit
  obtain ⟨hi, he⟩ := XEmu.run_inv evs hi0 hrun
  have hlay := hi.lay
  rw [he, he0] at hlay
  have hn : x.th.nrows = e.threads.length := by rw [hi.thRows, hlay]
  have hclose := (close_is_prvText x.th ⟨neg_bound_of_nonneg hi.thTime, hdur⟩).1
  have htime := (XEmu.run_time evs hi0 hrun).1
  have ht0 : x0.th.time = 0 := by
    unfold XEmu.init at hinit
    simp only at hinit
    split at hinit
    · cases hinit
    · split at hinit
      · cases hinit
      · split at hinit
        · cases hinit
        · cases hinit
          exact (mono_writeAll _ _ (mono_empty _)).2.1
  refine ⟨⟨x.th.lines, ?_, hi.thMono.1, ?_⟩, ?_⟩
  · rw [hclose, prv_roundtrip]; simp [PrvFile.header, hn]
  · intro l hl
    obtain ⟨r, hr, hf, hrow, hty⟩ := hi.thLines l hl
    rcases hi.regs r hr with ⟨_, h1, h2, h3⟩ | ⟨h1, _⟩
    · refine ⟨by omega, by rw [hrow]; rw [hlay] at h2; exact h2, hi.thMono.2 l hl, ?_⟩
      apply pcfText_declares_ids
      rw [threadPcf_ids htp, hty]
      have : (connectOrder e.enabled e.extra).flatMap (specPcfTypes false n.marks) =
          (connectOrder e.enabled e.extra).flatMap laySpecTypes :=
        flatMap_congr' (fun s hs => specPcfTypes_eq false (by rw [hmarks] at hs; exact hs))
      rw [this]
      rw [hlay] at h3
      exact h3
    · rw [hf] at h1; cases h1
  · rw [htime]
    cases evs.getLast? with
    | none => exact ht0
    | some ev => rfl

/-- **cpu.prv of every accepted history is well formed, as text** (rows = CPUs
    including the virtual ones, types declared by the text of cpu.pcf). -/
theorem cpu_prv_text_wellformed {e : Emu} {n : Names} {x0 x : XEmu} {evs : List XEv}
    (hinit : XEmu.init e = .ok x0) (hrun : x0.run th mh evs = .ok x)
    (hmarks : e.extra = markExtra n.marks) (hdur : x.cpu.time < (10 : Int) ^ 20)
    {cp : Pcf} (hcp : cpuPcf e n = .ok cp) :
    PrvWellFormed (prvCloseText x.cpu) (pcfText cp) e.cpus.length x.cpu.time ∧
    x.cpu.time = (match evs.getLast? with | some ev => ev.1 | none => 0) := by
  obtain ⟨hi0, he0⟩ := XEmu.init_inv hinit
  obtain ⟨hi, he⟩ := XEmu.run_inv evs hi0 hrun
  have hlay := hi.lay
  rw [he, he0] at hlay
  have hn : x.cpu.nrows = e.cpus.length := by rw [hi.cpuRows, hlay]
  have hclose := (close_is_prvText x.cpu ⟨neg_bound_of_nonneg hi.cpuTime, hdur⟩).1
  have htime := (XEmu.run_time evs hi0 hrun).2
  have ht0 : x0.cpu.time = 0 := by
    unfold XEmu.init at hinit
    simp only at hinit
    split at hinit
    · cases hinit
    · split at hinit
      · cases hinit
      · split at hinit
        · cases hinit
        · cases hinit
          exact (mono_writeAll _ _ (mono_empty _)).2.1
  refine ⟨⟨x.cpu.lines, ?_, hi.cpuMono.1, ?_⟩, ?_⟩
  · rw [hclose, prv_roundtrip]; simp [PrvFile.header, hn]
  · intro l hl
    obtain ⟨r, hr, hf, hrow, hty⟩ := hi.cpuLines l hl
    rcases hi.regs r hr with ⟨h1, _⟩ | ⟨_, h1, h2, h3⟩
    · rw [hf] at h1; cases h1
    · refine ⟨by omega, by rw [hrow]; rw [hlay] at h2; exact h2, hi.cpuMono.2 l hl, ?_⟩
      apply pcfText_declares_ids
      rw [cpuPcf_ids hcp, hty]
      have : (connectOrder e.enabled e.extra).flatMap (specPcfTypes true n.marks) =
          (connectOrder e.enabled e.extra).flatMap laySpecTypes :=
        flatMap_congr' (fun s hs => specPcfTypes_eq true (by rw [hmarks] at hs; exact hs))
      rw [this]
      rw [hlay] at h3
      exact h3
  · rw [htime]
    cases evs.getLast? with
    | none => exact ht0
    | some ev => rfl

/-- **The six files the driver prints** (`PvText.files`, what the check
    compares byte for byte with ovniemu's): both `.prv` are well formed against
    their `.pcf`, both `.row` read back as one name per row in gindex order. -/
theorem files_wellformed {e : Emu} {n : Names} {x0 x : XEmu} {evs : List XEv} {f : Files}
    (hinit : XEmu.init e = .ok x0) (hrun : x0.run th mh evs = .ok x)
    (hmarks : e.extra = markExtra n.marks) (hdt : x.th.time < (10 : Int) ^ 20) (hdc : x.cpu.time < (10 : Int) ^ 20)
    (hf : files x n = .ok f) :
    PrvWellFormed f.threadPrv f.threadPcf e.threads.length x.th.time ∧
    PrvWellFormed f.cpuPrv f.cpuPcf e.cpus.length x.cpu.time ∧
    parseRow f.threadRow = some (e.threads.length, threadNames e n) ∧
    parseRow f.cpuRow = some (e.cpus.length, cpuNames e n) := by
  have he : x.emu0 = e := by
    obtain ⟨hi0, he0⟩ := XEmu.init_inv hinit
    exact (XEmu.run_inv evs hi0 hrun).2.trans he0
  unfold files at hf
  rw [he] at hf
  split at hf
  · rename_i tp cp tr cr h1 h2 h3 h4
    cases hf
    exact ⟨(thread_prv_text_wellformed hinit hrun hmarks hdt h1).1,
      (cpu_prv_text_wellformed hinit hrun hmarks hdc h2).1,
      (thread_row_wellformed e n tr h3).1, (cpu_row_wellformed e n cr h4).1⟩
  · cases hf
end

/-! ### (e) the event-type section of the `.pcf`: round trip, values labelled in the text -/

/-- **Every `.pcf` text reads back**: for any structure (any ids, any values,
    ids and values of any size, repeated or not, labels empty or with leading /
    trailing blanks) whose labels contain no newline (`PcfWf`, the only
    hypothesis — see `rt_fails_type_label`, `rt_fails_value_label`,
    `rt_truncates_value_label` for what happens without it), the independent
    reader `parsePcfTypes` (lines, `EVENT_TYPE` blocks, decimal numbers, the
    padding of `%-10d` / `%-4d` stripped) returns exactly the types in order,
    each with its id, its label and its (value, label) pairs in order.  The
    default options and the colours are skipped (`pcfHead_no_event_type`). -/
theorem pcf_roundtrip (p : Pcf) (h : PcfWf p) :
    parsePcfTypes (pcfText p) = some (p.map fun t => (t.id, t.label, t.values)) :=
  parsePcfTypes_pcfText p h

/-- Two well-formed structures with the same text are equal. -/
theorem pcfText_injective (p q : Pcf) (hp : PcfWf p) (hq : PcfWf q) (h : pcfText p = pcfText q) : p = q := by
  have e := pcf_roundtrip p hp
  rw [h, pcf_roundtrip q hq] at e
  have finj : Function.Injective (fun t : PcfType => (t.id, t.label, t.values)) := by
    intro a b hab
    cases a; cases b
    simp only [Prod.mk.injEq] at hab
    obtain ⟨h1, h2, h3⟩ := hab
    subst h1; subst h2; subst h3; rfl
  exact ((List.map_inj_right (fun x y hxy => finj hxy)).mp (Option.some.inj e)).symm

/-- **The text of thread.pcf and cpu.pcf of the model is readable**: the
    structures the emulator builds are well formed whenever the labels that
    come from the trace metadata (mark titles and labels, task type labels) have
    no newline; every other label is a CPU name or comes from a fixed table. -/
theorem emu_pcf_roundtrip {e : Emu} {n : Names} (hn : NamesWf n) :
    (∀ p, threadPcf e n = .ok p → parsePcfTypes (pcfText p) = some (p.map fun t => (t.id, t.label, t.values))) ∧
    (∀ p, cpuPcf e n = .ok p → parsePcfTypes (pcfText p) = some (p.map fun t => (t.id, t.label, t.values))) :=
  ⟨fun p h => pcf_roundtrip p (threadPcf_wf hn h), fun p h => pcf_roundtrip p (cpuPcf_wf hn h)⟩

/-- the thread-state codes are in the table of thread.c -/
theorem thread_state_in_table :
    ∀ v ∈ [ThState.unknown, .running, .paused, .dead, .cooling, .warming].map (fun s => (s.code : Int)),
      ∃ x ∈ threadPcfTypes, x.1 = prvThreadState ∧ v ∈ x.2.2.map (·.1) := by decide

/-- **State values are labelled in the text of thread.pcf.**  For the PCF the
    emulator builds for any system, enabled models, marks and task types
    (`threadPcf e n = .ok p`, labels of the metadata without newline), reading
    the file text `pcfText p` back with the independent reader gives:
    - under the thread-state type (4) a label for each of the six state codes —
      exactly the set `records_values_labelled_ovni` shows every thread-state
      record to carry (`thread_state_codes`: 0 … 5);
    - under the CPU-affinity type (6) a label for `gindex + 1` of every CPU —
      the non-zero values `records_values_labelled_ovni` shows the affinity
      records to carry (0 = no CPU is Paraver's "no value");
    - for every enabled model `s` and each of its channels `i`, a label under
      the Paraver type of that channel for every value of the channel's label
      table (`model_pvt_spec`). -/
theorem pcf_values_labelled_text {e : Emu} {n : Names} {p : Pcf} (hn : NamesWf n) (h : threadPcf e n = .ok p) :
    (∀ v ∈ [ThState.unknown, .running, .paused, .dead, .cooling, .warming].map (fun s => (s.code : Int)),
      v ∈ pcfValuesOf (pcfText p) prvThreadState) ∧
    (∀ g < e.cpus.length, ((g : Int) + 1) ∈ pcfValuesOf (pcfText p) prvThreadCpu) ∧
    (∀ s ∈ connectOrder e.enabled e.extra, s.char ≠ markGroup → ∀ info, pcfInfo s.char = some info →
      ∀ i < s.nch, ∀ v ∈ info.labels.getD i [], v.1 ∈ pcfValuesOf (pcfText p) (s.pvtType.getD i 0)) := by
  have hwf := threadPcf_wf hn h
  obtain ⟨a, b, c⟩ := threadPcf_hasVal h
  refine ⟨?_, fun g hg => hasVal_text hwf (b g hg), fun s hs hne info hi i hlt v hv =>
    hasVal_text hwf (c s hs hne info hi i hlt v hv)⟩
  intro v hv
  obtain ⟨x, hx, hty, hmem⟩ := thread_state_in_table v hv
  obtain ⟨w, hw, rfl⟩ := List.mem_map.mp hmem
  rw [← hty]
  exact hasVal_text hwf (a x hx w hw)

/-- **The initial and CPU-default values of the nOS-V and Nanos6 channels are
    labelled in the text** (`init_values_labelled` at text level): when the
    model is enabled, every value `model_*_connect` puts on channel `i` at
    connect time or a CPU mux shows by default has a label under the type of
    that channel in the text of thread.pcf. -/
theorem init_values_labelled_text {e : Emu} {n : Names} {p : Pcf} (hn : NamesWf n) (h : threadPcf e n = .ok p)
    {s : ModelSpec} (hs : s ∈ connectOrder e.enabled e.extra) (hsp : s = specNosv ∨ s = specNanos6) :
    ∀ iv ∈ s.initVals ++ s.cpuDefault, iv.2 ∈ pcfValuesOf (pcfText p) (s.pvtType.getD iv.1 0) := by
  have key : ∀ (info : PcfInfo), pcfInfo s.char = some info → s.char ≠ markGroup →
      (∀ iv ∈ s.initVals ++ s.cpuDefault, iv.1 < s.nch ∧ iv.2 ∈ (info.labels.getD iv.1 []).map (·.1)) →
      ∀ iv ∈ s.initVals ++ s.cpuDefault, iv.2 ∈ pcfValuesOf (pcfText p) (s.pvtType.getD iv.1 0) := by
    intro info hi hne hall iv hiv
    obtain ⟨hlt, hmem⟩ := hall iv hiv
    obtain ⟨w, hw, hw2⟩ := List.mem_map.mp hmem
    rw [← hw2]
    exact (pcf_values_labelled_text hn h).2.2 s hs hne info hi iv.1 hlt w hw
  rcases hsp with rfl | rfl
  · exact key ⟨Nosv.pcfPrefix, Nosv.labels, Nosv.cpuPvtType⟩ rfl (by decide) (by decide)
  · exact key ⟨Nanos6.pcfPrefix, Nanos6.labels, Nanos6.cpuPvtType⟩ rfl (by decide) (by decide)

/-! ### Non-vacuity: a real trace

One loom, one process (pid 100, application 3) with thread 10, CPU 0 and the
virtual CPU; the thread executes on CPU 0 at clock 100, flushes from 103 to 105
and ends at 110.  The strings below are the bytes of the six files
`ovniemu` wrote for that trace (copied from a run of the real tool); the model
prints the same bytes, and the hypotheses of `files_wellformed` hold. -/

def exEmu : Emu := mkEmu [(10, 100, 0)] [(0, 0, false), (0, -1, true)] [79] true
def exNames : Names := { appids := [3], cpus := [(0, 0), (0, 0)] }
def exHook : Emu → Nat → Nat → Nat → List Nat → Except Err Emu := fun _ _ _ _ _ => .error .unknownEvent
/-- OHx(cpu 0, tid -1, tag 0) at 0, OF[ at 3, OF] at 5, OHe at 10 (clocks relative to the first event) -/
def exEvs : List XEv :=
  [(0, 0, 79, 72, 120, [0, 0, 0, 0, 255, 255, 255, 255, 0, 0, 0, 0, 0, 0, 0, 0]),
   (3, 0, 79, 70, 91, []), (5, 0, 79, 70, 93, []), (10, 0, 79, 72, 101, [])]
def exRun : Option XEmu := (XEmu.init exEmu).toOption.bind fun x0 => (x0.run exHook exHook exEvs).toOption
def exFiles : Option Files := exRun.bind fun x => (files x exNames).toOption

/-- bytes of a text (the expected files are given as byte lists: the kernel evaluates those fast) -/
def bytesOf (t : Text) : List Nat := t.map Char.toNat

/- thread.prv as ovniemu wrote it:
    #Paraver (19/01/38 at 03:14):00000000000000000010_ns:0:1:1(1:1)
    2:0:1:1:1:0:6:1
    2:0:1:1:1:0:4:1
    2:0:1:1:1:0:2:10
    2:0:1:1:1:3:7:1
    2:0:1:1:1:5:7:0
    2:0:1:1:1:10:4:3
    2:0:1:1:1:10:2:0
    2:0:1:1:1:10:6:0
-/
example : exFiles.map (fun f => bytesOf f.threadPrv) = some
    [35, 80, 97, 114, 97, 118, 101, 114, 32, 40, 49, 57, 47, 48, 49, 47, 51, 56, 32, 97, 116, 32, 48, 51, 58, 49, 52, 41, 58, 48, 48, 48, 48, 48, 48, 48, 48, 48, 48, 48, 48, 48, 48, 48, 48, 48, 48, 49, 48, 95, 110, 115, 58, 48, 58, 49, 58, 49, 40, 49, 58, 49, 41, 10, 50, 58, 48, 58, 49, 58, 49, 58, 49, 58, 48, 58, 54, 58, 49, 10, 50, 58, 48, 58, 49, 58, 49, 58, 49, 58, 48, 58, 52, 58, 49, 10, 50, 58, 48, 58, 49, 58, 49, 58, 49, 58, 48, 58, 50, 58, 49, 48, 10, 50, 58, 48, 58, 49, 58, 49, 58, 49, 58, 51, 58, 55, 58, 49, 10, 50, 58, 48, 58, 49, 58, 49, 58, 49, 58, 53, 58, 55, 58, 48, 10, 50, 58, 48, 58, 49, 58, 49, 58, 49, 58, 49, 48, 58, 52, 58, 51, 10, 50, 58, 48, 58, 49, 58, 49, 58, 49, 58, 49, 48, 58, 50, 58, 48, 10, 50, 58, 48, 58, 49, 58, 49, 58, 49, 58, 49, 48, 58, 54, 58, 48, 10] := by decide +kernel

/- cpu.prv as ovniemu wrote it:
    #Paraver (19/01/38 at 03:14):00000000000000000010_ns:0:1:1(2:1)
    2:0:1:1:1:0:2:10
    2:0:1:1:1:0:1:100
    2:0:1:1:1:0:3:1
    2:0:1:1:1:0:7:0
    2:0:1:1:1:3:7:1
    2:0:1:1:1:5:7:0
    2:0:1:1:1:10:2:0
    2:0:1:1:1:10:1:0
    2:0:1:1:1:10:3:0
-/
example : exFiles.map (fun f => bytesOf f.cpuPrv) = some
    [35, 80, 97, 114, 97, 118, 101, 114, 32, 40, 49, 57, 47, 48, 49, 47, 51, 56, 32, 97, 116, 32, 48, 51, 58, 49, 52, 41, 58, 48, 48, 48, 48, 48, 48, 48, 48, 48, 48, 48, 48, 48, 48, 48, 48, 48, 48, 49, 48, 95, 110, 115, 58, 48, 58, 49, 58, 49, 40, 50, 58, 49, 41, 10, 50, 58, 48, 58, 49, 58, 49, 58, 49, 58, 48, 58, 50, 58, 49, 48, 10, 50, 58, 48, 58, 49, 58, 49, 58, 49, 58, 48, 58, 49, 58, 49, 48, 48, 10, 50, 58, 48, 58, 49, 58, 49, 58, 49, 58, 48, 58, 51, 58, 49, 10, 50, 58, 48, 58, 49, 58, 49, 58, 49, 58, 48, 58, 55, 58, 48, 10, 50, 58, 48, 58, 49, 58, 49, 58, 49, 58, 51, 58, 55, 58, 49, 10, 50, 58, 48, 58, 49, 58, 49, 58, 49, 58, 53, 58, 55, 58, 48, 10, 50, 58, 48, 58, 49, 58, 49, 58, 49, 58, 49, 48, 58, 50, 58, 48, 10, 50, 58, 48, 58, 49, 58, 49, 58, 49, 58, 49, 48, 58, 49, 58, 48, 10, 50, 58, 48, 58, 49, 58, 49, 58, 49, 58, 49, 48, 58, 51, 58, 48, 10] := by decide +kernel

/- thread.row as ovniemu wrote it:
    LEVEL NODE SIZE 1
    hostname
    
    LEVEL THREAD SIZE 1
    TH 3.10
-/
example : exFiles.map (fun f => bytesOf f.threadRow) = some
    [76, 69, 86, 69, 76, 32, 78, 79, 68, 69, 32, 83, 73, 90, 69, 32, 49, 10, 104, 111, 115, 116, 110, 97, 109, 101, 10, 10, 76, 69, 86, 69, 76, 32, 84, 72, 82, 69, 65, 68, 32, 83, 73, 90, 69, 32, 49, 10, 84, 72, 32, 51, 46, 49, 48, 10] := by decide +kernel

/- cpu.row as ovniemu wrote it:
    LEVEL NODE SIZE 1
    hostname
    
    LEVEL THREAD SIZE 2
     CPU 0.0
    vCPU 0.*
-/
example : exFiles.map (fun f => bytesOf f.cpuRow) = some
    [76, 69, 86, 69, 76, 32, 78, 79, 68, 69, 32, 83, 73, 90, 69, 32, 49, 10, 104, 111, 115, 116, 110, 97, 109, 101, 10, 10, 76, 69, 86, 69, 76, 32, 84, 72, 82, 69, 65, 68, 32, 83, 73, 90, 69, 32, 50, 10, 32, 67, 80, 85, 32, 48, 46, 48, 10, 118, 67, 80, 85, 32, 48, 46, 42, 10] := by decide +kernel

/- thread.pcf as ovniemu wrote it (1066 bytes: the default header, the 23 colours, then)
    
    
    EVENT_TYPE
    0 6          Thread: CPU affinity
    VALUES
    1     CPU 0.0
    2    vCPU 0.*
    
    
    EVENT_TYPE
    0 2          Thread: TID of the ACTIVE thread
    VALUES
    
    
    EVENT_TYPE
    0 4          Thread: thread state
    VALUES
    0    Unknown
    1    Running
    2    Paused
    3    Dead
    4    Cooling
    5    Warming
    
    
    EVENT_TYPE
    0 7          Flushing ovni buffer 
    VALUES
    1    Flushing
-/
example : exFiles.map (fun f => bytesOf f.threadPcf) = some
    [68, 69, 70, 65, 85, 76, 84, 95, 79, 80, 84, 73, 79, 78, 83, 10, 10, 76, 69, 86, 69, 76, 32, 32, 32, 32, 32, 32, 32, 32, 32, 32, 32, 32, 32, 32, 32, 84, 72, 82, 69, 65, 68, 10, 85, 78, 73, 84, 83, 32, 32, 32, 32, 32, 32, 32, 32, 32, 32, 32, 32, 32, 32, 32, 78, 65, 78, 79, 83, 69, 67, 10, 76, 79, 79, 75, 95, 66, 65, 67, 75, 32, 32, 32, 32, 32, 32, 32, 32, 32, 32, 32, 49, 48, 48, 10, 83, 80, 69, 69, 68, 32, 32, 32, 32, 32, 32, 32, 32, 32, 32, 32, 32, 32, 32, 32, 49, 10, 70, 76, 65, 71, 95, 73, 67, 79, 78, 83, 32, 32, 32, 32, 32, 32, 32, 32, 32, 32, 69, 78, 65, 66, 76, 69, 68, 10, 78, 85, 77, 95, 79, 70, 95, 83, 84, 65, 84, 69, 95, 67, 79, 76, 79, 82, 83, 32, 49, 48, 48, 48, 10, 89, 77, 65, 88, 95, 83, 67, 65, 76, 69, 32, 32, 32, 32, 32, 32, 32, 32, 32, 32, 51, 55, 10, 10, 10, 68, 69, 70, 65, 85, 76, 84, 95, 83, 69, 77, 65, 78, 84, 73, 67, 10, 10, 84, 72, 82, 69, 65, 68, 95, 70, 85, 78, 67, 32, 32, 32, 32, 32, 32, 32, 32, 32, 83, 116, 97, 116, 101, 32, 65, 115, 32, 73, 115, 10, 10, 10, 83, 84, 65, 84, 69, 83, 95, 67, 79, 76, 79, 82, 10, 48, 32, 32, 32, 123, 32, 32, 48, 44, 32, 32, 32, 48, 44, 32, 32, 32, 48, 125, 10, 49, 32, 32, 32, 123, 32, 32, 48, 44, 32, 49, 51, 48, 44, 32, 50, 48, 48, 125, 10, 50, 32, 32, 32, 123, 50, 49, 55, 44, 32, 50, 49, 55, 44, 32, 50, 49, 55, 125, 10, 51, 32, 32, 32, 123, 50, 51, 48, 44, 32, 32, 50, 53, 44, 32, 32, 55, 53, 125, 10, 52, 32, 32, 32, 123, 32, 54, 48, 44, 32, 49, 56, 48, 44, 32, 32, 55, 53, 125, 10, 53, 32, 32, 32, 123, 50, 53, 53, 44, 32, 50, 50, 53, 44, 32, 32, 50, 53, 125, 10, 54, 32, 32, 32, 123, 50, 52, 53, 44, 32, 49, 51, 48, 44, 32, 32, 52, 56, 125, 10, 55, 32, 32, 32, 123, 49, 52, 53, 44, 32, 32, 51, 48, 44, 32, 49, 56, 48, 125, 10, 56, 32, 32, 32, 123, 32, 55, 48, 44, 32, 50, 52, 48, 44, 32, 50, 52, 48, 125, 10, 57, 32, 32, 32, 123, 50, 52, 48, 44, 32, 32, 53, 48, 44, 32, 50, 51, 48, 125, 10, 49, 48, 32, 32, 123, 50, 49, 48, 44, 32, 50, 52, 53, 44, 32, 32, 54, 48, 125, 10, 49, 49, 32, 32, 123, 50, 53, 48, 44, 32, 49, 57, 48, 44, 32, 50, 49, 50, 125, 10, 49, 50, 32, 32, 123, 32, 32, 48, 44, 32, 49, 50, 56, 44, 32, 49, 50, 56, 125, 10, 49, 51, 32, 32, 123, 49, 50, 56, 44, 32, 49, 50, 56, 44, 32, 49, 50, 56, 125, 10, 49, 52, 32, 32, 123, 50, 50, 48, 44, 32, 49, 57, 48, 44, 32, 50, 53, 53, 125, 10, 49, 53, 32, 32, 123, 49, 55, 48, 44, 32, 49, 49, 48, 44, 32, 32, 52, 48, 125, 10, 49, 54, 32, 32, 123, 50, 53, 53, 44, 32, 50, 53, 48, 44, 32, 50, 48, 48, 125, 10, 49, 55, 32, 32, 123, 49, 50, 56, 44, 32, 32, 32, 48, 44, 32, 32, 32, 48, 125, 10, 49, 56, 32, 32, 123, 49, 55, 48, 44, 32, 50, 53, 53, 44, 32, 49, 57, 53, 125, 10, 49, 57, 32, 32, 123, 49, 50, 56, 44, 32, 49, 50, 56, 44, 32, 32, 32, 48, 125, 10, 50, 48, 32, 32, 123, 50, 53, 53, 44, 32, 50, 49, 53, 44, 32, 49, 56, 48, 125, 10, 50, 49, 32, 32, 123, 32, 32, 48, 44, 32, 32, 32, 48, 44, 32, 49, 50, 56, 125, 10, 50, 50, 32, 32, 123, 32, 32, 48, 44, 32, 32, 32, 48, 44, 32, 50, 53, 53, 125, 10, 10, 10, 69, 86, 69, 78, 84, 95, 84, 89, 80, 69, 10, 48, 32, 54, 32, 32, 32, 32, 32, 32, 32, 32, 32, 32, 84, 104, 114, 101, 97, 100, 58, 32, 67, 80, 85, 32, 97, 102, 102, 105, 110, 105, 116, 121, 10, 86, 65, 76, 85, 69, 83, 10, 49, 32, 32, 32, 32, 32, 67, 80, 85, 32, 48, 46, 48, 10, 50, 32, 32, 32, 32, 118, 67, 80, 85, 32, 48, 46, 42, 10, 10, 10, 69, 86, 69, 78, 84, 95, 84, 89, 80, 69, 10, 48, 32, 50, 32, 32, 32, 32, 32, 32, 32, 32, 32, 32, 84, 104, 114, 101, 97, 100, 58, 32, 84, 73, 68, 32, 111, 102, 32, 116, 104, 101, 32, 65, 67, 84, 73, 86, 69, 32, 116, 104, 114, 101, 97, 100, 10, 86, 65, 76, 85, 69, 83, 10, 10, 10, 69, 86, 69, 78, 84, 95, 84, 89, 80, 69, 10, 48, 32, 52, 32, 32, 32, 32, 32, 32, 32, 32, 32, 32, 84, 104, 114, 101, 97, 100, 58, 32, 116, 104, 114, 101, 97, 100, 32, 115, 116, 97, 116, 101, 10, 86, 65, 76, 85, 69, 83, 10, 48, 32, 32, 32, 32, 85, 110, 107, 110, 111, 119, 110, 10, 49, 32, 32, 32, 32, 82, 117, 110, 110, 105, 110, 103, 10, 50, 32, 32, 32, 32, 80, 97, 117, 115, 101, 100, 10, 51, 32, 32, 32, 32, 68, 101, 97, 100, 10, 52, 32, 32, 32, 32, 67, 111, 111, 108, 105, 110, 103, 10, 53, 32, 32, 32, 32, 87, 97, 114, 109, 105, 110, 103, 10, 10, 10, 69, 86, 69, 78, 84, 95, 84, 89, 80, 69, 10, 48, 32, 55, 32, 32, 32, 32, 32, 32, 32, 32, 32, 32, 70, 108, 117, 115, 104, 105, 110, 103, 32, 111, 118, 110, 105, 32, 98, 117, 102, 102, 101, 114, 32, 10, 86, 65, 76, 85, 69, 83, 10, 49, 32, 32, 32, 32, 70, 108, 117, 115, 104, 105, 110, 103, 10] := by decide +kernel

/- cpu.pcf as ovniemu wrote it (1003 bytes: the default header, the 23 colours, then)
    
    
    EVENT_TYPE
    0 3          CPU: Number of RUNNING threads
    VALUES
    
    
    EVENT_TYPE
    0 1          CPU: PID of the RUNNING thread
    VALUES
    
    
    EVENT_TYPE
    0 2          CPU: TID of the RUNNING thread
    VALUES
    
    
    EVENT_TYPE
    0 7          Flushing ovni buffer of the RUNNING thread
    VALUES
    1    Flushing
-/
example : exFiles.map (fun f => bytesOf f.cpuPcf) = some
    [68, 69, 70, 65, 85, 76, 84, 95, 79, 80, 84, 73, 79, 78, 83, 10, 10, 76, 69, 86, 69, 76, 32, 32, 32, 32, 32, 32, 32, 32, 32, 32, 32, 32, 32, 32, 32, 84, 72, 82, 69, 65, 68, 10, 85, 78, 73, 84, 83, 32, 32, 32, 32, 32, 32, 32, 32, 32, 32, 32, 32, 32, 32, 32, 78, 65, 78, 79, 83, 69, 67, 10, 76, 79, 79, 75, 95, 66, 65, 67, 75, 32, 32, 32, 32, 32, 32, 32, 32, 32, 32, 32, 49, 48, 48, 10, 83, 80, 69, 69, 68, 32, 32, 32, 32, 32, 32, 32, 32, 32, 32, 32, 32, 32, 32, 32, 49, 10, 70, 76, 65, 71, 95, 73, 67, 79, 78, 83, 32, 32, 32, 32, 32, 32, 32, 32, 32, 32, 69, 78, 65, 66, 76, 69, 68, 10, 78, 85, 77, 95, 79, 70, 95, 83, 84, 65, 84, 69, 95, 67, 79, 76, 79, 82, 83, 32, 49, 48, 48, 48, 10, 89, 77, 65, 88, 95, 83, 67, 65, 76, 69, 32, 32, 32, 32, 32, 32, 32, 32, 32, 32, 51, 55, 10, 10, 10, 68, 69, 70, 65, 85, 76, 84, 95, 83, 69, 77, 65, 78, 84, 73, 67, 10, 10, 84, 72, 82, 69, 65, 68, 95, 70, 85, 78, 67, 32, 32, 32, 32, 32, 32, 32, 32, 32, 83, 116, 97, 116, 101, 32, 65, 115, 32, 73, 115, 10, 10, 10, 83, 84, 65, 84, 69, 83, 95, 67, 79, 76, 79, 82, 10, 48, 32, 32, 32, 123, 32, 32, 48, 44, 32, 32, 32, 48, 44, 32, 32, 32, 48, 125, 10, 49, 32, 32, 32, 123, 32, 32, 48, 44, 32, 49, 51, 48, 44, 32, 50, 48, 48, 125, 10, 50, 32, 32, 32, 123, 50, 49, 55, 44, 32, 50, 49, 55, 44, 32, 50, 49, 55, 125, 10, 51, 32, 32, 32, 123, 50, 51, 48, 44, 32, 32, 50, 53, 44, 32, 32, 55, 53, 125, 10, 52, 32, 32, 32, 123, 32, 54, 48, 44, 32, 49, 56, 48, 44, 32, 32, 55, 53, 125, 10, 53, 32, 32, 32, 123, 50, 53, 53, 44, 32, 50, 50, 53, 44, 32, 32, 50, 53, 125, 10, 54, 32, 32, 32, 123, 50, 52, 53, 44, 32, 49, 51, 48, 44, 32, 32, 52, 56, 125, 10, 55, 32, 32, 32, 123, 49, 52, 53, 44, 32, 32, 51, 48, 44, 32, 49, 56, 48, 125, 10, 56, 32, 32, 32, 123, 32, 55, 48, 44, 32, 50, 52, 48, 44, 32, 50, 52, 48, 125, 10, 57, 32, 32, 32, 123, 50, 52, 48, 44, 32, 32, 53, 48, 44, 32, 50, 51, 48, 125, 10, 49, 48, 32, 32, 123, 50, 49, 48, 44, 32, 50, 52, 53, 44, 32, 32, 54, 48, 125, 10, 49, 49, 32, 32, 123, 50, 53, 48, 44, 32, 49, 57, 48, 44, 32, 50, 49, 50, 125, 10, 49, 50, 32, 32, 123, 32, 32, 48, 44, 32, 49, 50, 56, 44, 32, 49, 50, 56, 125, 10, 49, 51, 32, 32, 123, 49, 50, 56, 44, 32, 49, 50, 56, 44, 32, 49, 50, 56, 125, 10, 49, 52, 32, 32, 123, 50, 50, 48, 44, 32, 49, 57, 48, 44, 32, 50, 53, 53, 125, 10, 49, 53, 32, 32, 123, 49, 55, 48, 44, 32, 49, 49, 48, 44, 32, 32, 52, 48, 125, 10, 49, 54, 32, 32, 123, 50, 53, 53, 44, 32, 50, 53, 48, 44, 32, 50, 48, 48, 125, 10, 49, 55, 32, 32, 123, 49, 50, 56, 44, 32, 32, 32, 48, 44, 32, 32, 32, 48, 125, 10, 49, 56, 32, 32, 123, 49, 55, 48, 44, 32, 50, 53, 53, 44, 32, 49, 57, 53, 125, 10, 49, 57, 32, 32, 123, 49, 50, 56, 44, 32, 49, 50, 56, 44, 32, 32, 32, 48, 125, 10, 50, 48, 32, 32, 123, 50, 53, 53, 44, 32, 50, 49, 53, 44, 32, 49, 56, 48, 125, 10, 50, 49, 32, 32, 123, 32, 32, 48, 44, 32, 32, 32, 48, 44, 32, 49, 50, 56, 125, 10, 50, 50, 32, 32, 123, 32, 32, 48, 44, 32, 32, 32, 48, 44, 32, 50, 53, 53, 125, 10, 10, 10, 69, 86, 69, 78, 84, 95, 84, 89, 80, 69, 10, 48, 32, 51, 32, 32, 32, 32, 32, 32, 32, 32, 32, 32, 67, 80, 85, 58, 32, 78, 117, 109, 98, 101, 114, 32, 111, 102, 32, 82, 85, 78, 78, 73, 78, 71, 32, 116, 104, 114, 101, 97, 100, 115, 10, 86, 65, 76, 85, 69, 83, 10, 10, 10, 69, 86, 69, 78, 84, 95, 84, 89, 80, 69, 10, 48, 32, 49, 32, 32, 32, 32, 32, 32, 32, 32, 32, 32, 67, 80, 85, 58, 32, 80, 73, 68, 32, 111, 102, 32, 116, 104, 101, 32, 82, 85, 78, 78, 73, 78, 71, 32, 116, 104, 114, 101, 97, 100, 10, 86, 65, 76, 85, 69, 83, 10, 10, 10, 69, 86, 69, 78, 84, 95, 84, 89, 80, 69, 10, 48, 32, 50, 32, 32, 32, 32, 32, 32, 32, 32, 32, 32, 67, 80, 85, 58, 32, 84, 73, 68, 32, 111, 102, 32, 116, 104, 101, 32, 82, 85, 78, 78, 73, 78, 71, 32, 116, 104, 114, 101, 97, 100, 10, 86, 65, 76, 85, 69, 83, 10, 10, 10, 69, 86, 69, 78, 84, 95, 84, 89, 80, 69, 10, 48, 32, 55, 32, 32, 32, 32, 32, 32, 32, 32, 32, 32, 70, 108, 117, 115, 104, 105, 110, 103, 32, 111, 118, 110, 105, 32, 98, 117, 102, 102, 101, 114, 32, 111, 102, 32, 116, 104, 101, 32, 82, 85, 78, 78, 73, 78, 71, 32, 116, 104, 114, 101, 97, 100, 10, 86, 65, 76, 85, 69, 83, 10, 49, 32, 32, 32, 32, 70, 108, 117, 115, 104, 105, 110, 103, 10] := by decide +kernel

/-! the event types read back from the two `.pcf` texts above by `parsePcfTypes`
    (labels as byte lists), and the values the texts label -/

/-- a block with its labels as bytes -/
abbrev BlockBytes := Nat × List Nat × List (Int × List Nat)
instance : DecidableEq BlockBytes := inferInstanceAs (DecidableEq (Nat × List Nat × List (Int × List Nat)))
def blockBytes (b : PcfBlock) : BlockBytes :=
  (b.1, bytesOf b.2.1, b.2.2.map fun v => (v.1, bytesOf v.2))

example : exFiles.map (fun f => (parsePcfTypes f.threadPcf).map (·.map blockBytes)) = some (some
    [(6, [84, 104, 114, 101, 97, 100, 58, 32, 67, 80, 85, 32, 97, 102, 102, 105, 110, 105, 116, 121],
       [(1, [32, 67, 80, 85, 32, 48, 46, 48]), (2, [118, 67, 80, 85, 32, 48, 46, 42])]),
     (2, [84, 104, 114, 101, 97, 100, 58, 32, 84, 73, 68, 32, 111, 102, 32, 116, 104, 101, 32, 65, 67, 84, 73, 86, 69, 32, 116, 104, 114, 101, 97, 100], []),
     (4, [84, 104, 114, 101, 97, 100, 58, 32, 116, 104, 114, 101, 97, 100, 32, 115, 116, 97, 116, 101],
       [(0, [85, 110, 107, 110, 111, 119, 110]), (1, [82, 117, 110, 110, 105, 110, 103]), (2, [80, 97, 117, 115, 101, 100]),
        (3, [68, 101, 97, 100]), (4, [67, 111, 111, 108, 105, 110, 103]), (5, [87, 97, 114, 109, 105, 110, 103])]),
     (7, [70, 108, 117, 115, 104, 105, 110, 103, 32, 111, 118, 110, 105, 32, 98, 117, 102, 102, 101, 114, 32],
       [(1, [70, 108, 117, 115, 104, 105, 110, 103])])]) := by decide +kernel

example : exFiles.map (fun f => pcfValuesOf f.threadPcf prvThreadState) = some [0, 1, 2, 3, 4, 5] := by decide +kernel
example : exFiles.map (fun f => pcfValuesOf f.threadPcf prvThreadCpu) = some [1, 2] := by decide +kernel
example : exFiles.map (fun f => pcfValuesOf f.threadPcf 7) = some [1] := by decide +kernel
example : exFiles.map (fun f => pcfValuesOf f.threadPcf 5) = some [] := by decide +kernel
example : exFiles.map (fun f => (parsePcfTypes f.cpuPcf).map (·.map fun b => (b.1, b.2.2.map (·.1)))) =
    some (some [(3, []), (1, []), (2, []), (7, [1])]) := by decide +kernel
/-- every value of the thread-state and affinity records of thread.prv above
    (type 4: values 1 and 3; type 6: value 1, and 0 = "no CPU", which Paraver does
    not label) is labelled in the text of thread.pcf -/
example : exFiles.map (fun f => (parsePrv f.threadPrv).map fun r =>
    (r.2.filter fun l => l.2.2.1 == 4 || (l.2.2.1 == 6 && l.2.2.2 != 0)).all fun l =>
      (pcfValuesOf f.threadPcf l.2.2.1).contains l.2.2.2) = some (some true) := by decide +kernel
example : NamesWf exNames := by decide

example : exRun.map (fun x => (x.th.time, x.cpu.time, x.th.lines.length)) = some (10, 10, 8) := by decide +kernel
example : exEmu.extra = markExtra exNames.marks := rfl

end Ovni.Props.C13Text
