import OvniModel.Props.C13
import OvniModel.Emu.PvText

namespace Ovni.Props.C13Text
open Ovni.Emu Ovni.Emu.PvText

theorem placeholder : prvOpenText 1 = prvHeader 1 0 := rfl

end Ovni.Props.C13Text
