import OvniModel.Emu.Heap
import OvniModel.Emu.Player
import OvniModel.Lemmas.Heap
import OvniModel.Lemmas.Player

/-!
# C03 — the emulator replays all streams as one time-ordered, loss-free sequence

Property theorems only.  Models: `Emu/Heap.lean` (transcription of
`src/include/heap.h`) and `Emu/Player.lean` (`src/emu/player.c`, the relevant
parts of `stream.c`, `trace.c`, `system.c`).  Helper lemmas: `Lemmas/Heap.lean`,
`Lemmas/Player.lean`.

All statements are for unbounded sizes: any number of heap elements, streams,
events, any clock values (unbounded integers), equal clocks, empty streams.
-/
namespace Ovni.Props.C03
open Ovni.Heap Ovni.Player

/-! ## heap.h -/

section heap
variable {α : Type} (gt : α → α → Bool) (key : α → Int)

/-- `heap_insert` on a heap with the shape of a complete tree of `size` nodes
    (`Shape`) that is heap-ordered never reaches a `die()`, and gives a heap of
    `size+1` nodes with the same two invariants whose elements are the old
    ones plus the new one.  `GtKey gt key`: the comparison handed to the heap
    is "`cmp(a,b) > 0` iff `key a > key b`". -/
theorem heap_insert_inv (hgt : GtKey gt key) (h : Heap α) (x : α)
    (hs : Shape h.root h.size) (ho : Ordered key h.root) :
    ∃ h', insert gt h x = some h' ∧ h'.size = h.size + 1 ∧ Shape h'.root h'.size ∧
      Ordered key h'.root ∧ h'.root.toList.Perm (x :: h.root.toList) :=
  insert_inv gt key hgt h x hs ho

/-- `heap_pop_max` on a non-empty well-formed heap never dies, returns an
    element `m`, and leaves a well-formed heap of `size-1` nodes holding
    exactly the other elements. -/
theorem heap_pop_inv (hgt : GtKey gt key) (h : Heap α)
    (hs : Shape h.root h.size) (ho : Ordered key h.root) (hne : h.root ≠ .nil) :
    ∃ m h', popMax gt h = some (some m, h') ∧ h'.size = h.size - 1 ∧ Shape h'.root h'.size ∧
      Ordered key h'.root ∧ h.root.toList.Perm (m :: h'.root.toList) := by
  obtain ⟨m, h', a, b, c, d, e, _⟩ := popMax_inv gt key hgt h hs ho hne
  exact ⟨m, h', a, b, c, d, e⟩

/-- The element returned by `heap_pop_max` is a maximum of the heap. -/
theorem pop_is_max (hgt : GtKey gt key) (h : Heap α)
    (hs : Shape h.root h.size) (ho : Ordered key h.root) (m : α) (h' : Heap α)
    (hp : popMax gt h = some (some m, h')) : ∀ y ∈ h.root.toList, key y ≤ key m := by
  have hne : h.root ≠ .nil := by
    intro hn
    rw [popMax_empty gt h hn] at hp
    cases hp
  obtain ⟨m', h'', a, _, _, _, _, f⟩ := popMax_inv gt key hgt h hs ho hne
  rw [a] at hp
  cases hp
  exact f

/-- `heap_pop_max` on the empty heap returns NULL and changes nothing. -/
theorem pop_empty (h : Heap α) (hr : h.root = .nil) : popMax gt h = some (none, h) :=
  popMax_empty gt h hr

/-- A shape-correct heap is empty exactly when its size is 0 (so `root == NULL`
    and `size == 0` never disagree). -/
theorem shape_empty_iff (h : Heap α) (hs : Shape h.root h.size) : h.root = .nil ↔ h.size = 0 :=
  shape_nil_iff hs

/-- Operations of a heap client. -/
inductive Op (α : Type) where
  | ins (x : α)
  | pop

/-- Run a sequence of operations; `none` = some operation died. -/
def exec : Heap α → List (Op α) → Option (Heap α)
  | h, [] => some h
  | h, .ins x :: ops =>
    match insert gt h x with
    | some h' => exec h' ops
    | none => none
  | h, .pop :: ops =>
    match popMax gt h with
    | some (_, h') => exec h' ops
    | none => none

/-- Starting from `heap_init`, no sequence of insertions and extractions ever
    reaches a `die()` (or a NULL dereference), and shape and order hold
    afterwards. -/
theorem heap_ops_never_die (hgt : GtKey gt key) (ops : List (Op α)) :
    ∀ (h : Heap α), Shape h.root h.size → Ordered key h.root →
      ∃ h', exec gt h ops = some h' ∧ Shape h'.root h'.size ∧ Ordered key h'.root := by
  induction ops with
  | nil => intro h hs ho; exact ⟨h, rfl, hs, ho⟩
  | cons op ops ih =>
    intro h hs ho
    cases op with
    | ins x =>
      obtain ⟨h', e, _, hs', ho', _⟩ := insert_inv gt key hgt h x hs ho
      simp only [exec, e]
      exact ih h' hs' ho'
    | pop =>
      by_cases hne : h.root = .nil
      · simp only [exec, popMax_empty gt h hne]
        exact ih h hs ho
      · obtain ⟨m, h', e, _, hs', ho', _, _⟩ := popMax_inv gt key hgt h hs ho hne
        simp only [exec, e]
        exact ih h' hs' ho'

theorem heap_init_wf : Shape (Heap.empty : Heap α).root (Heap.empty : Heap α).size ∧
    Ordered key (Heap.empty : Heap α).root := ⟨shape_empty, trivial⟩

end heap

/-- The move list computed by `heap_get_move` is the binary expansion of the
    node index below its leading one: the last move is the parity, the moves
    before lead to the parent `n/2`. -/
theorem heap_path_bits (n : Nat) (h : 2 ≤ n) : path n = path (n / 2) ++ [decide (n % 2 = 1)] :=
  path_step n h

/-- `stream_cmp` turns the max-heap into a min-heap on `lastclock`. -/
theorem stream_cmp_min : GtKey sgt (fun s => - s.lastclock) := sgt_key

/-! ## player.c -/

/-- events of the loaded streams, tagged with the stream they belong to -/
def allEvents (ss : List Stream) : List (Str × Ev) :=
  ss.flatMap fun s => s.rest.map fun e => (s.relpath, e)

/-- **Loss-free.**  Whenever the replay does not fail, the emitted sequence is
    a permutation of all events of all streams (each exactly once). -/
theorem replay_perm (u : Bool) (ss : List Stream) (out : List Out) (hl : ∀ s ∈ ss, Loaded s)
    (h : replay u ss = some out) :
    (out.map fun o => (o.relpath, o.ev)).Perm (allEvents ss) := by
  have h1 := absRun_perm (replay_absRun u ss out hl h)
  rw [starts_pendT u ss hl] at h1
  have h2 := h1.map (fun x : PE => (x.1, x.2.2))
  rw [List.map_map] at h2
  have e1 : ((fun x : PE => (x.1, x.2.2)) ∘ peOut) = fun o : Out => (o.relpath, o.ev) := rfl
  rw [e1] at h2
  refine h2.trans (List.Perm.of_eq ?_)
  unfold allEvents tagS
  rw [List.map_flatMap]
  congr 1
  funext s
  rw [List.map_map]
  rfl

/-- **Corrected time.**  Each emitted event carries as `sclock` its own clock
    plus the clock offset of the stream it comes from. -/
theorem replay_clock (u : Bool) (ss : List Stream) (out : List Out) (hl : ∀ s ∈ ss, Loaded s)
    (h : replay u ss = some out) :
    ∀ o ∈ out, ∃ s ∈ ss, s.relpath = o.relpath ∧ o.ev ∈ s.rest ∧ o.sclock = o.ev.clock + s.offset := by
  intro o ho
  have h1 := absRun_perm (replay_absRun u ss out hl h)
  rw [starts_pendT u ss hl] at h1
  have hm : peOut o ∈ ss.flatMap fun s => tagS s s.rest := h1.subset (List.mem_map_of_mem ho)
  rw [List.mem_flatMap] at hm
  obtain ⟨s, hs, hx⟩ := hm
  unfold tagS at hx
  rw [List.mem_map] at hx
  obtain ⟨e, he, hx⟩ := hx
  simp only [peOut, Prod.mk.injEq] at hx
  refine ⟨s, hs, hx.1, by rw [← hx.2.2]; exact he, ?_⟩
  have := hx.2.1
  omega

/-- **Time-ordered.**  If the corrected clocks inside each stream never
    decrease, the emitted sequence is non-decreasing in corrected time (both
    in `ovniemu`'s mode and in the unsorted mode of `ovnidump`). -/
theorem replay_sorted (u : Bool) (ss : List Stream) (out : List Out) (hl : ∀ s ∈ ss, Loaded s)
    (hsorted : ∀ s ∈ ss, SortedRest s) (h : replay u ss = some out) :
    out.Pairwise fun a b => a.sclock ≤ b.sclock := by
  refine absRun_sorted (replay_absRun u ss out hl h) ?_
  intro x hx
  rw [List.mem_filterMap] at hx
  obtain ⟨s, hs, hst⟩ := hx
  exact start_sorted u s x (hl s hs) (hsorted s hs) hst

/-- In the emulator's own mode (`unsorted = 0`) the order does not even depend
    on the streams being sorted: a replay that is not rejected is
    non-decreasing in corrected time. -/
theorem replay_sorted_or_rejected (ss : List Stream) (out : List Out) (hl : ∀ s ∈ ss, Loaded s)
    (h : replay false ss = some out) : out.Pairwise fun a b => a.sclock ≤ b.sclock := by
  rcases replay_cases false ss hl with ⟨h1, _⟩ | ⟨p, _, h1, h2, _, _, _, h6⟩
  · rw [h1] at h; cases h
  · rw [h1] at h
    exact (run_sorted_mode _ p out h2 h6 h).1

/-- **Order inside a stream.**  With distinct relative paths, the events
    emitted for a stream are that stream's events in their original order. -/
theorem replay_stream_order (u : Bool) (ss : List Stream) (out : List Out) (hl : ∀ s ∈ ss, Loaded s)
    (hn : (ss.map (·.relpath)).Nodup) (h : replay u ss = some out) :
    ∀ s ∈ ss, (out.filter fun o => o.relpath == s.relpath).map (·.ev) = s.rest := by
  intro s hs
  have hn' : ((ss.filterMap (start u)).map (·.relpath)).Nodup :=
    List.Nodup.sublist (starts_relpaths_sublist u ss hl) hn
  rw [absRun_order (replay_absRun u ss out hl h) hn' s.relpath, starts_pendR u s.relpath ss hl]
  have : (ss.filter fun x => x.relpath == s.relpath) = [s] := by
    have hlen := filter_key_le_one (·.relpath) s.relpath ss hn
    have hmem : s ∈ ss.filter fun x => x.relpath == s.relpath := by
      rw [List.mem_filter]; exact ⟨hs, by simp⟩
    match hf : ss.filter fun x => x.relpath == s.relpath, hlen, hmem with
    | [], _, hmem => rw [hf] at hmem; cases hmem
    | [a], _, hmem =>
      rw [hf] at hmem
      simp only [List.mem_singleton] at hmem
      subst hmem
      exact hf
    | _ :: _ :: _, hlen, _ => rw [hf] at hlen; simp at hlen
  rw [this]
  simp

/-- **Paraver time.**  `dclock` of every emitted event is its corrected clock
    minus the corrected clock of the first emitted event. -/
theorem dclock_def (u : Bool) (ss : List Stream) (o0 : Out) (out : List Out)
    (hl : ∀ s ∈ ss, Loaded s) (h : replay u ss = some (o0 :: out)) :
    ∀ o ∈ o0 :: out, o.dclock = o.sclock - o0.sclock := by
  rcases replay_cases u ss hl with ⟨h1, _⟩ | ⟨p, _, h1, h2, _, _, h5, _⟩
  · rw [h1] at h; cases h
  · rw [h1] at h
    exact run_dclock _ p o0 out h2 h5 h

/-- **Totality, emulator mode.**  For per-stream sorted inputs — whatever the
    sign of the corrected clocks: after `fix: do not compare the first clock of
    a stream` the first event of a stream is not compared with the
    zero-initialised `lastclock` — that pass the one-hour `check_clock_gate`,
    the replay never fails: the `update_clocks` guard and every `die()` of the
    heap are dead. -/
theorem replay_total (ss : List Stream) (hl : ∀ s ∈ ss, Loaded s)
    (hsorted : ∀ s ∈ ss, SortedRest s)
    (hgate : clockGate (ss.map (stepped false)) = true) :
    ∃ out, replay false ss = some out := by
  unfold replay
  rcases playerInit_cases false ss hl with ⟨_, _, hg⟩ |
    ⟨p, h1, h2, h3, h4, h5, h6⟩
  · rw [hg] at hgate; cases hgate
  · rw [h1]
    simp only
    have hlive : live p = p.heap.root.toList := by unfold live; rw [h3]; rfl
    have hsrc : sources p = p.heap.root.toList := by unfold sources; rw [h3]; rfl
    refine run_total _ p h2 ⟨?_, ?_, ?_⟩ ?_
    · intro hu; rw [h6] at hu; cases hu
    · intro _ x hx
      rw [hsrc] at hx
      have := h4.subset hx
      rw [List.mem_filterMap] at this
      obtain ⟨s, hs, hst⟩ := this
      exact start_sorted false s x (hl s hs) (hsorted s hs) hst
    · intro _ hf; rw [h5] at hf; cases hf
    · rw [hlive]
      have : mu p.heap.root.toList = mu (ss.filterMap (start false)) := by
        unfold mu; exact (List.Perm.flatMap_right pendS h4).length_eq
      rw [this, starts_mu false ss hl]
      omega

/-- **Totality, `ovnidump` mode.**  With `unsorted = 1` the replay never
    fails, whatever the streams contain. -/
theorem replay_total_unsorted (ss : List Stream) (hl : ∀ s ∈ ss, Loaded s) :
    ∃ out, replay true ss = some out := by
  unfold replay
  rcases playerInit_cases true ss hl with ⟨_, hu, _⟩ | ⟨p, h1, h2, h3, h4, h5, h6⟩
  · cases hu
  · rw [h1]
    simp only
    have hlive : live p = p.heap.root.toList := by unfold live; rw [h3]; rfl
    have hsrc : sources p = p.heap.root.toList := by unfold sources; rw [h3]; rfl
    refine run_total _ p h2 ⟨?_, ?_, ?_⟩ ?_
    · intro _ x hx
      rw [hsrc] at hx
      have := h4.subset hx
      rw [List.mem_filterMap] at this
      obtain ⟨s, hs, hst⟩ := this
      obtain ⟨_, _, _, f4, _, _, _⟩ := flag_loaded true s (hl s hs)
      unfold start at hst
      rw [adv_unsorted _ _ hst]; exact f4
    · intro hu; rw [h6] at hu; cases hu
    · intro hu; rw [h6] at hu; cases hu
    · rw [hlive]
      have : mu p.heap.root.toList = mu (ss.filterMap (start true)) := by
        unfold mu; exact (List.Perm.flatMap_right pendS h4).length_eq
      rw [this, starts_mu true ss hl]
      omega

/-- The emulator-mode replay is refused only through the documented guards:
    the clock gate, or (contrapositive of `replay_total`) a stream that is not
    sorted. -/
theorem replay_rejects_only_by_guards (ss : List Stream) (hl : ∀ s ∈ ss, Loaded s)
    (h : replay false ss = none) :
    (∃ s ∈ ss, ¬ SortedRest s) ∨ clockGate (ss.map (stepped false)) = false := by
  by_cases h1 : ∃ s ∈ ss, ¬ SortedRest s
  · exact Or.inl h1
  · by_cases h3 : clockGate (ss.map (stepped false)) = true
    · exfalso
      have g1 : ∀ s ∈ ss, SortedRest s := fun s hs =>
        Classical.byContradiction fun hns => h1 ⟨s, hs, hns⟩
      obtain ⟨out, ho⟩ := replay_total ss hl g1 h3
      rw [ho] at h; cases h
    · right; simpa using h3

/-! ## trace.c, system.c: independence of the enumeration order -/

/-- **Enumeration independence.**  `trace_load` sorts the streams by relative
    path, so any two enumerations of the same stream directories (distinct
    relative paths) give the same stream list… -/
theorem enumeration_independent (found1 found2 : List Raw) (hp : found1.Perm found2)
    (hn : (found1.map (·.relpath)).Nodup) : traceLoad found1 = traceLoad found2 :=
  traceLoad_perm_eq found1 found2 hp hn

/-- … hence the same `ovnidump` output … -/
theorem dump_enumeration_independent (found1 found2 : List Raw) (hp : found1.Perm found2)
    (hn : (found1.map (·.relpath)).Nodup) : dumpTrace found1 = dumpTrace found2 := by
  unfold dumpTrace; rw [enumeration_independent found1 found2 hp hn]

/-- … and the same emulation, for every clock-offset table. -/
theorem emu_enumeration_independent (table : Option (List (Str × Int))) (found1 found2 : List Raw)
    (hp : found1.Perm found2) (hn : (found1.map (·.relpath)).Nodup) :
    emuTrace table found1 = emuTrace table found2 := by
  unfold emuTrace; rw [enumeration_independent found1 found2 hp hn]

/-- The loaded list is sorted by `strcmp` and holds the same streams. -/
theorem traceLoad_sorted (found : List Raw) :
    (traceLoad found).Pairwise (fun a b => strLe a.relpath b.relpath = true) ∧
    (traceLoad found).Perm found := by
  unfold traceLoad
  refine ⟨?_, List.mergeSort_perm found _⟩
  exact List.pairwise_mergeSort (le := fun a b : Raw => strLe a.relpath b.relpath)
    (fun a b c => strLe_trans a.relpath b.relpath c.relpath)
    (fun a b => strLe_total a.relpath b.relpath) found

/-! ## The tools end to end (player level) -/

/-- `ovnidump` never fails in the player and emits every event of every
    stream directory exactly once. -/
theorem dump_total_perm (found : List Raw) :
    ∃ out, dumpTrace found = some out ∧
      (out.map fun o => (o.relpath, o.ev)).Perm
        (found.flatMap fun r => r.evs.map fun e => (r.relpath, e)) := by
  unfold dumpTrace
  have hl : ∀ s ∈ (traceLoad found).map (fun r => Stream.load r.relpath r.evs), Loaded s := by
    intro s hs
    rw [List.mem_map] at hs
    obtain ⟨r, _, rfl⟩ := hs
    exact load_loaded _ _
  obtain ⟨out, ho⟩ := replay_total_unsorted _ hl
  refine ⟨out, ho, (replay_perm true _ out hl ho).trans ?_⟩
  unfold allEvents
  rw [List.flatMap_map]
  exact List.Perm.flatMap_right _ (traceLoad_sorted found).2

/-- `ovniemu`: if the emulation is not rejected, the streams carry the offset
    of their loom, every event is emitted exactly once, and the sequence is
    non-decreasing in corrected time. -/
theorem emu_perm_sorted (table : Option (List (Str × Int))) (found : List Raw) (out : List Out)
    (h : emuTrace table found = some out) :
    ∃ ls, loomOffsets table ((traceLoad found).map (·.loom)) = some ls ∧
      (out.map fun o => (o.relpath, o.ev)).Perm
        (found.flatMap fun r => r.evs.map fun e => (r.relpath, e)) ∧
      (out.Pairwise fun a b => a.sclock ≤ b.sclock) ∧
      (∀ o ∈ out, ∃ r ∈ found, r.relpath = o.relpath ∧ o.ev ∈ r.evs ∧
        o.sclock = o.ev.clock + offOf ls r.loom) := by
  unfold emuTrace applyOffsets at h
  cases hls : loomOffsets table ((traceLoad found).map (·.loom)) with
  | none => rw [hls] at h; cases h
  | some ls =>
    rw [hls] at h
    simp only [setOffsets_eq] at h
    have hl : ∀ s ∈ (traceLoad found).map (mkStream ls), Loaded s := by
      intro s hs
      rw [List.mem_map] at hs
      obtain ⟨r, _, rfl⟩ := hs
      exact mkStream_loaded _ _
    refine ⟨ls, rfl, ?_, replay_sorted_or_rejected _ out hl h, ?_⟩
    · refine (replay_perm false _ out hl h).trans ?_
      unfold allEvents
      rw [List.flatMap_map]
      exact List.Perm.flatMap_right _ (traceLoad_sorted found).2
    · intro o ho
      obtain ⟨s, hs, h1, h2, h3⟩ := replay_clock false _ out hl h o ho
      rw [List.mem_map] at hs
      obtain ⟨r, hr, rfl⟩ := hs
      exact ⟨r, (traceLoad_sorted found).2.subset hr, h1, h2, h3⟩

/-! ## Non-vacuity: concrete states satisfying the hypotheses -/

/-- a heap built by the model from empty, with equal keys: 5 elements keyed
    3,1,3,2,3 (ids 0..4); it has the shape of 5 nodes and is ordered. -/
def exHeap : Option (Heap (Int × Nat)) :=
  [((3 : Int), 0), (1, 1), (3, 2), (2, 3), (3, 4)].foldlM
    (fun h x => insert (fun a b => decide (a.1 > b.1)) h x) Heap.empty

example : (exHeap.map fun h => (h.size, h.root.toList)) =
    some (5, [(3, 0), (3, 4), (1, 1), (2, 3), (3, 2)]) := by decide

/-- popping it returns a maximal key: the first inserted among the equal ones -/
example : (exHeap.bind fun h => (popMax (fun a b => decide (a.1 > b.1)) h).map
    fun r => (r.1, r.2.root.toList)) = some (some (3, 0), [(3, 4), (2, 3), (1, 1), (3, 2)]) := by
  decide

example : path 6 = [true, false] ∧ path 11 = [false, true, true] := by decide

/-- two sorted streams with equal clocks across streams, one empty stream, one
    with a negative offset -/
def exStreams : List Stream :=
  [ { Stream.load [97] [⟨10, 0⟩, ⟨20, 1⟩, ⟨20, 2⟩] with offset := 0 },
    Stream.load [98] [],
    { Stream.load [99] [⟨15, 0⟩, ⟨25, 1⟩] with offset := -5 } ]

example : ∀ s ∈ exStreams, Loaded s ∧ SortedRest s := by
  intro s hs
  simp only [exStreams, List.mem_cons, List.mem_nil_iff, or_false] at hs
  rcases hs with rfl | rfl | rfl <;> refine ⟨⟨rfl, rfl, rfl, rfl⟩, ?_⟩ <;>
    simp [SortedRest, Stream.load]

example : clockGate (exStreams.map (stepped false)) = true := by decide

example : (exStreams.map (·.relpath)).Nodup := by decide

/-- the replay of the example: equal corrected clocks (10 and 10, 20 20 20)
    are emitted in the order the heap fixes; times are relative to the first -/
example : (replay false exStreams).map (fun os => os.map fun o => (o.relpath, o.ev.tag, o.sclock, o.dclock)) =
    some [([97], 0, 10, 0), ([99], 0, 10, 0), ([97], 1, 20, 10), ([99], 1, 20, 10), ([97], 2, 20, 10)] := by
  decide

/-- a stream whose first corrected clock is negative is replayed like any
    other (before `fix: do not compare the first clock of a stream` the
    emulator refused it: "clock goes backwards 0 -> -2"); times stay relative to
    the first event -/
example : (replay false [{ Stream.load [97] [⟨3, 0⟩, ⟨9, 1⟩] with offset := -5 }]).map
    (fun os => os.map fun o => (o.sclock, o.dclock)) = some [(-2, 0), (4, 6)] := by decide
example : (replay true [{ Stream.load [97] [⟨3, 0⟩] with offset := -5 }]).isSome = true := by decide

end Ovni.Props.C03
