import OvniModel.Version
import OvniModel.Lemmas.Version
import OvniModel.Generated.Consts

/-!
# C14 — version gating follows semantic versioning

Property theorems only.  Model: `OvniModel/Version.lean` (transcription of
`src/include/version.h`, `ovni_version_check_str`, `src/emu/model.c`).
Strings are byte lists; `dec n` is the decimal rendering of `n`.
-/
namespace Ovni.Props.C14
open Ovni.Version

/-- Compatibility is exactly "same major, minor not greater"; the patch number
    is ignored.  All triples, unbounded. -/
theorem compat_iff (w h : Ver) :
    compatible w h = true ↔ w.major = h.major ∧ w.minor ≤ h.minor := by
  unfold compatible
  by_cases h1 : w.major = h.major <;> by_cases h2 : w.minor > h.minor <;> simp [h1, h2] <;> omega

theorem compat_ignores_patch (w h : Ver) (p q : Nat) :
    compatible { w with patch := p } { h with patch := q } = compatible w h := rfl

/-- Every well-formed `a.b.c` and `a.b.c-suffix` (fields below 2^31, fewer than
    64 characters) parses to `(a, b, c)`. -/
theorem parse_wellformed (a b c : Nat) (ha : a < 2 ^ 31) (hb : b < 2 ^ 31) (hc : c < 2 ^ 31)
    (suffix : Str) (hs : suffix = [] ∨ ∃ t, suffix = 45 :: t)
    (hlen : (dec a ++ 46 :: (dec b ++ 46 :: (dec c ++ suffix))).length < 64) :
    parse (some (dec a ++ 46 :: (dec b ++ 46 :: (dec c ++ suffix)))) = some ⟨a, b, c⟩ := by
  have nodot : ∀ n, ∀ x ∈ dec n, isDot x = false := by
    intro n x hx
    have := (isDigit_iff x).1 (dec_all_digits n x hx)
    simp [isDot]; omega
  have nodd : ∀ n, ∀ x ∈ dec n, isDotDash x = false := by
    intro n x hx
    have := (isDigit_iff x).1 (dec_all_digits n x hx)
    simp [isDotDash]; omega
  have pf : ∀ n, n < 2 ^ 31 → parseField (dec n) = some n := by
    intro n hn
    have := parseField_digits (dec n) (dec_ne_nil n) (dec_all_digits n) (by rw [digitsVal_dec]; exact hn)
    rw [digitsVal_dec] at this; exact this
  show parseStr _ = _
  unfold parseStr
  simp only [ge_iff_le, Nat.not_le.mpr hlen, if_false]
  rw [strtok_field isDot (dec a) 46 _ (dec_ne_nil a) (nodot a) (by decide)]
  simp only [pf a ha]
  rw [strtok_field isDot (dec b) 46 _ (dec_ne_nil b) (nodot b) (by decide)]
  simp only [pf b hb]
  rcases hs with hs | ⟨t, hs⟩
  · subst hs
    rw [List.append_nil, strtok_last isDotDash (dec c) (dec_ne_nil c) (nodd c)]
    simp only [pf c hc]
  · subst hs
    rw [strtok_field isDotDash (dec c) 45 _ (dec_ne_nil c) (nodd c) (by decide)]
    simp only [pf c hc]

/-- Plain `a.b.c` with fields below 2^31 is always short enough. -/
theorem parse_wellformed_plain (a b c : Nat) (ha : a < 2 ^ 31) (hb : b < 2 ^ 31) (hc : c < 2 ^ 31) :
    parse (some (dec a ++ 46 :: (dec b ++ 46 :: (dec c ++ [])))) = some ⟨a, b, c⟩ := by
  apply parse_wellformed a b c ha hb hc [] (Or.inl rfl)
  have la := dec_length_le 9 a (by omega)
  have lb := dec_length_le 9 b (by omega)
  have lc := dec_length_le 9 c (by omega)
  simp only [List.length_append, List.length_cons, List.length_nil]
  omega

/-! ### Refusals -/

theorem parse_null : parse none = none := rfl

theorem parse_too_long (s : Str) (h : s.length ≥ 64) : parse (some s) = none := by
  show parseStr s = none
  unfold parseStr; simp [h]

theorem parse_empty : parse (some []) = none := by decide

/-- A field is accepted only if it is blanks, an optional sign and then at
    least one digit and nothing else: any other (non-numeric, trailing
    garbage, empty) field is refused. -/
theorem parseField_sound (t : Str) (n : Nat) (h : parseField t = some n) :
    ∃ ws sg ds, t = ws ++ sg ++ ds ∧ (∀ c ∈ ws, isSpace c = true) ∧
      (sg = [] ∨ sg = [45] ∨ sg = [43]) ∧ ds ≠ [] ∧ (∀ c ∈ ds, isDigit c = true) := by
  unfold parseField at h
  simp only at h
  split at h
  · cases h
  · rename_i hne
    split at h
    · cases h
    · rename_i hrest
      refine ⟨t.takeWhile isSpace, ?_, (stripSign (t.dropWhile isSpace)).2, ?_, ?_, ?_, ?_, ?_⟩
      · exact if (stripSign (t.dropWhile isSpace)).1 then [45]
          else if t.dropWhile isSpace = (stripSign (t.dropWhile isSpace)).2 then [] else [43]
      · have e := (List.takeWhile_append_dropWhile (p := isSpace) (l := t)).symm
        rw [List.append_assoc]
        conv => lhs; rw [e]
        congr 1
        generalize t.dropWhile isSpace = u
        unfold stripSign
        split <;> simp
      · intro c hc; exact List.all_eq_true.mp List.all_takeWhile c hc
      · split
        · simp
        · split <;> simp
      · intro hnil
        rw [hnil] at hne; simp at hne
      · intro c hc
        have hr : (stripSign (t.dropWhile isSpace)).2.dropWhile isDigit = [] := by
          simpa using hrest
        have e := (List.takeWhile_append_dropWhile (p := isDigit)
          (l := (stripSign (t.dropWhile isSpace)).2)).symm
        rw [hr, List.append_nil] at e
        rw [e] at hc
        exact List.all_eq_true.mp List.all_takeWhile c hc

/-- Negative fields are refused. -/
theorem parseField_negative (n : Nat) (h0 : 0 < n) (h : n < 2 ^ 31) :
    parseField (45 :: dec n) = none := by
  unfold parseField
  rw [dropWhile_head_false _ _ _ (by decide)]
  have e : stripSign (45 :: dec n) = (true, dec n) := rfl
  simp only [e]
  rw [takeWhile_all isDigit _ (dec_all_digits n), dropWhile_all isDigit _ (dec_all_digits n),
    digitsVal_dec]
  have hne : (dec n).isEmpty = false := by
    cases hd : dec n with
    | nil => exact absurd hd (dec_ne_nil n)
    | cons _ _ => rfl
  simp only [hne, Bool.false_eq_true, if_false, List.isEmpty_nil, Bool.not_true]
  unfold fieldValue
  have h1 : ¬ n > longMax + 1 := by unfold longMax; omega
  simp only [Bool.not_true, Bool.false_and, Bool.true_and, Bool.false_or, decide_eq_true_eq, h1,
    if_false, if_true]
  have hc : castInt (-(n : Int)) = -(n : Int) := by
    unfold castInt
    simp only
    split <;> omega
  rw [hc]
  have : (-(n : Int)) < 0 := by omega
  simp only [this, if_true]

/-- A missing field (fewer than three tokens) is refused: with no dot at all
    there is no minor number. -/
theorem parse_missing_minor (s : Str) (h : ∀ c ∈ s, isDot c = false) : parse (some s) = none := by
  show parseStr s = none
  unfold parseStr
  split
  · rfl
  · cases s with
    | nil => rfl
    | cons c cs =>
      rw [strtok_last isDot (c :: cs) (by simp) h]
      simp only
      split
      · rfl
      · rfl

/-- ... and with a single dot there is no patch number. -/
theorem parse_missing_patch (t0 t1 : Str) (h0 : ∀ c ∈ t0, isDot c = false) (hne : t0 ≠ [])
    (h1 : ∀ c ∈ t1, isDot c = false) : parse (some (t0 ++ 46 :: t1)) = none := by
  show parseStr _ = none
  unfold parseStr
  split
  · rfl
  · rw [strtok_field isDot t0 46 t1 hne h0 (by decide)]
    simp only
    split
    · rfl
    · cases t1 with
      | nil => rfl
      | cons c cs =>
        rw [strtok_last isDot (c :: cs) (by simp) h1]
        simp only
        split
        · rfl
        · rfl

/-! ### Runtime check -/

/-- `ovni_version_check_str` returns (does not abort) exactly when the
    requested version parses, has the library's major and a minor that is not
    greater. -/
theorem check_str_iff (lib : Str) (e : Ver) (hlib : parse (some lib) = some e) (v : Option Str) :
    checkStr lib v = true ↔ ∃ p, parse v = some p ∧ p.major = e.major ∧ p.minor ≤ e.minor := by
  unfold checkStr
  cases v with
  | none => simp [parse_null]
  | some s =>
    simp only
    cases hp : parse (some s) with
    | none => simp
    | some p =>
      simp only [hlib]
      by_cases h1 : p.major = e.major <;> by_cases h2 : p.minor > e.minor <;> simp [h1, h2] <;> omega

/-- The runtime's own version string (regenerated from the source) parses. -/
theorem lib_version_parses : (parse (some Ovni.Generated.libVersion)).isSome = true := by decide

/-! ### Emulator: which models are enabled -/

theorem shouldEnable_enabled_iff (h : Ver) (t : ThreadReq) :
    shouldEnable h t = .enabled ↔
      ∃ s w, t = some (some s) ∧ parse (some s) = some w ∧ w.major = h.major ∧ w.minor ≤ h.minor := by
  unfold shouldEnable
  cases t with
  | none => simp
  | some o =>
    cases o with
    | none => simp
    | some s =>
      simp only
      cases hp : parse (some s) with
      | none => simp [hp]
      | some w =>
        simp only
        by_cases hc : compatible w h = true
        · have := (compat_iff w h).1 hc
          simp [hc, hp, this]
        · have hn : ¬ (w.major = h.major ∧ w.minor ≤ h.minor) := fun x => hc ((compat_iff w h).2 x)
          simp only [hc, if_false, reduceCtorEq, false_iff]
          intro ⟨s', w', he, hp', hx⟩
          cases he
          rw [hp] at hp'; cases hp'
          exact hn hx

theorem shouldEnable_error_iff (h : Ver) (t : ThreadReq) :
    shouldEnable h t = .error ↔
      t = none ∨ ∃ s, t = some (some s) ∧
        (parse (some s) = none ∨ ∃ w, parse (some s) = some w ∧ ¬ (w.major = h.major ∧ w.minor ≤ h.minor)) := by
  unfold shouldEnable
  cases t with
  | none => simp
  | some o =>
    cases o with
    | none => simp
    | some s =>
      simp only
      cases hp : parse (some s) with
      | none => simp [hp]
      | some w =>
        simp only
        by_cases hc : compatible w h = true
        · have := (compat_iff w h).1 hc
          simp only [hc, if_true, reduceCtorEq, false_iff]
          intro hx
          rcases hx with hx | ⟨s', he, hx⟩
          · cases hx
          · cases he
            rcases hx with hx | ⟨w', hp', hx⟩
            · rw [hp] at hx; cases hx
            · rw [hp] at hp'; cases hp'; exact hx this
        · have hn : ¬ (w.major = h.major ∧ w.minor ≤ h.minor) := fun x => hc ((compat_iff w h).2 x)
          rw [if_neg hc]
          refine ⟨fun _ => ?_, fun _ => rfl⟩
          refine Or.inr ⟨s, rfl, Or.inr ⟨w, ?_, hn⟩⟩
          exact hp

theorem probeLoop_spec (h : Ver) (ts : List ThreadReq) (en : Bool) :
    (probeLoop h en ts = .error ↔ ∃ t ∈ ts, shouldEnable h t = .error) ∧
    (probeLoop h en ts = .enabled ↔
      (∀ t ∈ ts, shouldEnable h t ≠ .error) ∧ (en = true ∨ ∃ t ∈ ts, shouldEnable h t = .enabled)) := by
  induction ts generalizing en with
  | nil => cases en <;> simp [probeLoop]
  | cons t ts ih =>
    unfold probeLoop
    cases hs : shouldEnable h t with
    | error => simp [hs]
    | enabled =>
      simp only
      have := ih true
      constructor
      · rw [this.1]; simp [hs]
      · rw [this.2]; simp [hs]
    | disabled =>
      simp only
      have := ih en
      constructor
      · rw [this.1]; simp [hs]
      · rw [this.2]; simp [hs]

/-- A model is enabled exactly when its own version parses, no thread carries
    an unusable requirement (missing `require` object, unparsable or
    incompatible version: those abort emulation) and some thread requires it
    compatibly — or all models are forced on. -/
theorem enabled_iff (enableAll : Bool) (specV : Str) (threads : List ThreadReq) (on : Bool) :
    modelEnabled enableAll specV threads on = some true ↔
      ∃ h, parse (some specV) = some h ∧ (∀ t ∈ threads, shouldEnable h t ≠ .error) ∧
        ((enableAll || on) = true ∨ ∃ t ∈ threads, shouldEnable h t = .enabled) := by
  unfold modelEnabled versionProbe
  cases hp : parse (some specV) with
  | none => simp
  | some h =>
    simp only
    have sp := probeLoop_spec h threads false
    cases hl : probeLoop h false threads with
    | error =>
      have := sp.1.1 hl
      simp only [reduceCtorEq, false_iff]
      intro ⟨h', he, hne, _⟩
      cases he
      obtain ⟨t, ht, hte⟩ := this
      exact hne t ht hte
    | enabled =>
      have := sp.2.1 hl
      simp only [Option.some.injEq, true_iff]
      refine ⟨h, rfl, this.1, ?_⟩
      rcases this.2 with h0 | h1
      · cases h0
      · exact Or.inr h1
    | disabled =>
      simp only [Option.some.injEq]
      have hne : ¬ (probeLoop h false threads = .error) := by rw [hl]; simp
      have hnn : ¬ (probeLoop h false threads = .enabled) := by rw [hl]; simp
      rw [sp.1] at hne
      rw [sp.2] at hnn
      constructor
      · intro ha
        refine ⟨h, rfl, ?_, Or.inl ha⟩
        intro t ht hte; exact hne ⟨t, ht, hte⟩
      · intro ⟨h', he, hall, hor⟩
        cases he
        rcases hor with ha | hb
        · exact ha
        · exact absurd ⟨hall, Or.inr hb⟩ hnn

/-- An incompatible, unparsable or structurally missing requirement aborts. -/
theorem abort_iff (enableAll : Bool) (specV : Str) (threads : List ThreadReq) (on : Bool) :
    modelEnabled enableAll specV threads on = none ↔
      parse (some specV) = none ∨
      ∃ h, parse (some specV) = some h ∧ ∃ t ∈ threads, shouldEnable h t = .error := by
  unfold modelEnabled versionProbe
  cases hp : parse (some specV) with
  | none => simp
  | some h =>
    simp only
    have sp := probeLoop_spec h threads false
    cases hl : probeLoop h false threads with
    | error =>
      have := sp.1.1 hl
      simp only [true_iff]
      exact Or.inr ⟨h, rfl, this⟩
    | enabled =>
      simp only [reduceCtorEq, false_iff, false_or]
      intro ⟨h', he, hex⟩
      cases he
      have := sp.1.2 hex
      rw [hl] at this; cases this
    | disabled =>
      simp only [reduceCtorEq, false_iff, false_or]
      intro ⟨h', he, hex⟩
      cases he
      have := sp.1.2 hex
      rw [hl] at this; cases this

/-- Events of a model that is not enabled never reach its handler. -/
theorem event_gate (registered enabled : Bool) :
    eventGate registered enabled = true ↔ registered = true ∧ enabled = true := by
  simp [eventGate]

theorem enabledSet_mem (all : Bool) (threads : List Require) (models : List (Str × Str × Nat))
    (en : List Nat) (h : enabledSet all threads models = some en) (ch : Nat) :
    ch ∈ en ↔ ∃ name ver, (name, ver, ch) ∈ models ∧
      modelEnabled all ver (threads.map (reqFor name)) (alwaysOn ch) = some true := by
  induction models generalizing en with
  | nil =>
    simp only [enabledSet, Option.some.injEq] at h
    subst h; simp
  | cons m ms ih =>
    obtain ⟨name, ver, c⟩ := m
    simp only [enabledSet] at h
    cases hm : modelEnabled all ver (threads.map (reqFor name)) (alwaysOn c) with
    | none => rw [hm] at h; cases h
    | some b =>
      rw [hm] at h
      simp only at h
      cases hr : enabledSet all threads ms with
      | none => rw [hr] at h; cases h
      | some r =>
        rw [hr] at h
        simp only [Option.some.injEq] at h
        have ih' := ih r hr
        subst h
        cases b with
        | true =>
          simp only [if_true, List.mem_cons]
          constructor
          · rintro (rfl | hin)
            · exact ⟨name, ver, Or.inl rfl, hm⟩
            · obtain ⟨n, v, hmem, he⟩ := ih'.1 hin
              exact ⟨n, v, Or.inr hmem, he⟩
          · rintro ⟨n, v, hmem | hmem, he⟩
            · cases hmem; exact Or.inl rfl
            · exact Or.inr (ih'.2 ⟨n, v, hmem, he⟩)
        | false =>
          simp only [Bool.false_eq_true, if_false, List.mem_cons]
          constructor
          · intro hin
            obtain ⟨n, v, hmem, he⟩ := ih'.1 hin
            exact ⟨n, v, Or.inr hmem, he⟩
          · rintro ⟨n, v, hmem | hmem, he⟩
            · cases hmem; rw [hm] at he; cases he
            · exact ih'.2 ⟨n, v, hmem, he⟩

/-- A trace passes probing and the per-event gate only if no model aborts and
    every event belongs to a registered model that is enabled (by a compatible
    requirement of some stream, or by force). -/
theorem gate_pass_only_enabled (all : Bool) (models : List (Str × Str × Nat))
    (threads : List Require) (evs : List Nat)
    (h : gateVerdict all models threads evs = true) :
    ∀ m ∈ evs, ∃ name ver, (name, ver, m) ∈ models ∧
      modelEnabled all ver (threads.map (reqFor name)) (alwaysOn m) = some true := by
  unfold gateVerdict at h
  cases hs : enabledSet all threads models with
  | none => rw [hs] at h; cases h
  | some en =>
    rw [hs] at h
    simp only [List.all_eq_true] at h
    intro m hm
    have := h m hm
    rw [event_gate] at this
    have hin : m ∈ en := by simpa using this.2
    exact (enabledSet_mem all threads models en hs m).1 hin

/-- All eight provider versions in the source (regenerated) parse, so no model
    aborts because of its own version string. -/
theorem model_versions_parse :
    ∀ m ∈ Ovni.Generated.modelVersions, (parse (some m.2.1)).isSome = true := by decide

/-! ### Non-vacuity: the hypotheses are satisfiable by concrete inputs -/

/-- "1.11.0" -/
example : parse (some [49, 46, 49, 49, 46, 48]) = some ⟨1, 11, 0⟩ := by decide
example : dec 1234 = [49, 50, 51, 52] := by simp [dec]
/-- "2.4.0-rc" -/
example : parse (some [50, 46, 52, 46, 48, 45, 114, 99]) = some ⟨2, 4, 0⟩ := by decide
/-- the provider's own version followed by text that is not a `-` suffix is malformed, not compatible
    (the requirement strings of seeded change C14-9: "1.1.0rc1", "1.1.0x", "1.1.0 beta"; tests, not theorems —
    the general statement is `parseField_sound`: a field is blanks, a sign, digits and nothing else) -/
example : parse (some [49, 46, 49, 46, 48, 114, 99, 49]) = none ∧ parse (some [49, 46, 49, 46, 48, 120]) = none ∧
    parse (some [49, 46, 49, 46, 48, 32, 98, 101, 116, 97]) = none := by decide
example : modelEnabled false [49, 46, 49, 46, 48] [some (some [49, 46, 49, 46, 48, 114, 99, 49])] = none := by decide
/-- provider 2.4.0; one thread without the model, one requiring 2.3.9 -/
example : modelEnabled false [50, 46, 52, 46, 48]
    [some none, some (some [50, 46, 51, 46, 57])] = some true := by decide
/-- provider 2.4.0, a thread requiring 2.5.0: abort -/
example : modelEnabled false [50, 46, 52, 46, 48] [some (some [50, 46, 53, 46, 48])] = none := by decide
/-- spellings the C code accepts beyond strict semver (documented, not violations):
    " +1..2.-3" parses as 1.2.3 -/
example : parse (some [32, 43, 49, 46, 46, 50, 46, 45, 51]) = some ⟨1, 2, 3⟩ := by decide

end Ovni.Props.C14
