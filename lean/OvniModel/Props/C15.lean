import OvniModel.Emu.System

/-! # C15 — metadata merge (work in progress: witnesses only) -/
namespace Ovni.Props.C15
open Ovni.Emu.System

def mkStream (relpath loom : Str) (pid tid : Int) (appId : Option Int)
    (cpus : Option (List (Int × Int))) : StreamMeta :=
  { tp := { relpath := relpath, part := some sThread, loom := some loom, pid := pid, tid := tid,
            finished := 1, hasVersion := true, hasCommit := true },
    appId := appId, rank := none, nranks := none, cpus := cpus }

/-- §6-B: CPUs listed as (index 1, phyid 1) then (index 0, phyid 0). -/
theorem crash_witness_descending :
    build .asIs [mkStream [97] [110] 1 1 (some 1) (some [(1, 1), (0, 0)])] = .crash := by decide

end Ovni.Props.C15
