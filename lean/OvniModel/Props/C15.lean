import OvniModel.Emu.System
import OvniModel.Emu.SystemSpec
import OvniModel.Lemmas.SystemMain
import OvniModel.Lemmas.SystemOrder
import OvniModel.Lemmas.SystemConflict
import OvniModel.Lemmas.SystemContent
import OvniModel.Lemmas.SystemSafe
import OvniModel.Lemmas.SystemDirname

/-!
# C15 — metadata merge is distribution-independent; conflicts are refused cleanly

Property theorems only.  Model: `OvniModel/Emu/System.lean` (`build m ss`:
`trace_load`'s relpath sort followed by `system_init`; `m = .asIs` is the code as
it is, `m = .fixed` replaces the `cpus_array[index]` lookup of `load_cpus` by a
search among the CPUs merged so far).  Vocabulary: `OvniModel/Emu/SystemSpec.lean`
(`appFacts`/`rankFacts`/`cpuFacts` = the union of the per-process and per-loom
attributes, `SameUnion`, `RelpathsDistinct`).
-/
namespace Ovni.Props.C15
open Ovni.Emu.System

/-! ## Concrete streams used by the witnesses and the non-vacuity examples -/

def mkStream (relpath loom : Str) (pid tid : Int) (appId : Option Int)
    (cpus : Option (List (Int × Int))) (rank : Option Int := none) (nranks : Option Int := none) :
    StreamMeta :=
  { tp := { relpath := relpath, part := some sThread, loom := some loom, pid := pid, tid := tid,
            finished := 1, hasVersion := true, hasCommit := true },
    appId := appId, rank := rank, nranks := nranks, cpus := cpus }

/-- One thread listing its two CPUs in ascending index order. -/
def wAsc : List StreamMeta := [mkStream [97] [110] 1 1 (some 1) (some [(0, 0), (1, 1)])]
/-- §6-B: the same CPUs listed as (index 1, phyid 1) then (index 0, phyid 0). -/
def wDesc : List StreamMeta := [mkStream [97] [110] 1 1 (some 1) (some [(1, 1), (0, 0)])]
/-- §6-B: index 0 bound to phyid 0 and to phyid 5. -/
def wTwoPhy : List StreamMeta := [mkStream [97] [110] 1 1 (some 1) (some [(0, 0), (0, 5)])]

/-- Two looms, three processes with ranks, app id / ranks / CPUs spread over the threads. -/
def wBig : List StreamMeta :=
  [ mkStream [98, 49] [110, 50] 7 71 (some 3) none (some 2) (some 3),
    mkStream [98, 50] [110, 50] 7 70 none (some [(0, 4), (1, 2)]),
    mkStream [97, 49] [110, 49] 5 50 (some 1) (some [(0, 9)]) (some 1) (some 3),
    mkStream [97, 50] [110, 49] 4 41 (some 2) none (some 0) (some 3),
    mkStream [97, 51] [110, 49] 4 40 none (some [(0, 9)]) ]

/-- The same union, attributes moved to other threads, CPU lists duplicated,
    streams enumerated in another order. -/
def wBig' : List StreamMeta :=
  [ mkStream [97, 51] [110, 49] 4 40 (some 2) none (some 0) (some 3),
    mkStream [97, 50] [110, 49] 4 41 (some 2) (some [(0, 9), (0, 9)]),
    mkStream [98, 50] [110, 50] 7 70 (some 3) none (some 2) (some 3),
    mkStream [97, 49] [110, 49] 5 50 (some 1) none (some 1) (some 3),
    mkStream [98, 49] [110, 50] 7 71 none (some [(0, 4), (1, 2), (0, 4)]) ]

/-! ## The crash (DESIGN §6-B) -/

theorem crash_witness_descending : build .asIs wDesc = .crash := by decide

theorem crash_witness_two_phyids : build .asIs wTwoPhy = .crash := by decide

/-- The fixed lookup accepts the consistent list in any order and refuses the
    contradictory one. -/
theorem fixed_on_witnesses :
    build .fixed wDesc = build .fixed wAsc ∧ (build .fixed wAsc).okPart ≠ none ∧
    build .fixed wTwoPhy = .error .cpuIndexRedefined := by decide

/-- With the lookup fixed, `build` never crashes. -/
theorem fixed_never_crashes (ss : List StreamMeta) : build .fixed ss ≠ .crash :=
  build_fixed_ne_crash ss

/-! ## build_perm_invariant -/

/-- Enumeration order alone (`nftw`/`readdir` order): the result is identical,
    error class and crash included, for the code as it is. -/
theorem build_enum_order_invariant (m : Mode) (ss ss' : List StreamMeta)
    (hp : ss.Perm ss') (hd : RelpathsDistinct ss) : build m ss = build m ss' := by
  unfold build
  rw [load_eq_of_perm hp hd]

-- OPEN (refuted for the code as it is, see `not_build_perm_invariant_asIs`):
--   theorem build_perm_invariant (ss ss') (hd : RelpathsDistinct ss) (hd' : RelpathsDistinct ss')
--       (hu : SameUnion ss ss') : (build .asIs ss).okPart = (build .asIs ss').okPart
--       ∧ build .asIs ss ≠ .crash
-- What is missing is exactly the hypothesis `build .asIs _ ≠ .crash` on both sides.

/-- Same union of metadata (same threads; per-process and per-loom attributes
    carried by any threads of that process / loom, any number of times; any
    enumeration order) ⇒ same hierarchy, same order, same rows, or both fail —
    provided neither presentation makes `load_cpus` dereference the
    unallocated `cpus_array` (decidable: `build` is computable). -/
theorem build_perm_invariant_partial (ss ss' : List StreamMeta)
    (hd : RelpathsDistinct ss) (hd' : RelpathsDistinct ss') (hu : SameUnion ss ss')
    (hc : build .asIs ss ≠ .crash) (hc' : build .asIs ss' ≠ .crash) :
    (build .asIs ss).okPart = (build .asIs ss').okPart :=
  okPart_eq_of_transfer (fun _ hb => build_ok_transfer hd hu hc' hb)
    (fun _ hb => build_ok_transfer hd' hu.symm hc hb)

/-- The crash hypothesis in explicit form (`CpuOrderSafe`, decidable, defined
    in `Emu/SystemSpec.lean` without reference to `build`): for every loom, going
    through the streams in load order and through each CPU list front to back,
    every entry whose physical id was not met before carries an index that is at
    least the number of distinct CPUs met before (or a negative one). -/
theorem safe_order_excludes_crash (ss : List StreamMeta) (h : CpuOrderSafe ss) :
    build .asIs ss ≠ .crash :=
  build_asIs_ne_crash_of_safe h

/-- `build_perm_invariant_partial` with the explicit hypothesis. -/
theorem build_perm_invariant_safe (ss ss' : List StreamMeta)
    (hd : RelpathsDistinct ss) (hd' : RelpathsDistinct ss') (hu : SameUnion ss ss')
    (hs : CpuOrderSafe ss) (hs' : CpuOrderSafe ss') :
    (build .asIs ss).okPart = (build .asIs ss').okPart :=
  build_perm_invariant_partial ss ss' hd hd' hu (build_asIs_ne_crash_of_safe hs)
    (build_asIs_ne_crash_of_safe hs')

example : CpuOrderSafe wBig ∧ CpuOrderSafe wBig' ∧ CpuOrderSafe wAsc ∧ ¬ CpuOrderSafe wDesc ∧
    ¬ CpuOrderSafe wTwoPhy := by decide

/-- The hypothesis cannot be dropped for the code as it is: two presentations
    of the same union, one accepted, one crashing. -/
theorem not_build_perm_invariant_asIs :
    ¬ (∀ ss ss' : List StreamMeta, RelpathsDistinct ss → RelpathsDistinct ss' → SameUnion ss ss' →
        (build .asIs ss).okPart = (build .asIs ss').okPart ∧ build .asIs ss' ≠ .crash) := by
  intro h
  have hu : SameUnion wAsc wDesc := by
    refine ⟨List.Perm.refl _, ?_, ?_, ?_⟩ <;> simp [SameSet, wAsc, wDesc, mkStream, appFacts, rankFacts,
      cpuFacts, appFactsOf, rankFactsOf, cpuFactsOf, isThr]
  exact (h wAsc wDesc (by decide) (by decide) hu).2 crash_witness_descending

/-- Full strength for the fixed lookup: no hypothesis about crashes. -/
theorem build_perm_invariant_fixed (ss ss' : List StreamMeta)
    (hd : RelpathsDistinct ss) (hd' : RelpathsDistinct ss') (hu : SameUnion ss ss') :
    (build .fixed ss).okPart = (build .fixed ss').okPart ∧ build .fixed ss ≠ .crash ∧
      build .fixed ss' ≠ .crash :=
  ⟨okPart_eq_of_transfer (fun _ hb => build_ok_transfer hd hu (build_fixed_ne_crash _) hb)
    (fun _ hb => build_ok_transfer hd' hu.symm (build_fixed_ne_crash _) hb),
   build_fixed_ne_crash _, build_fixed_ne_crash _⟩

/-- Whenever the code as it is does not crash it computes what the fixed
    lookup computes (so the fix changes nothing but the crash). -/
theorem asIs_agrees_with_fixed (ss : List StreamMeta) (hd : RelpathsDistinct ss)
    (hc : build .asIs ss ≠ .crash) : (build .asIs ss).okPart = (build .fixed ss).okPart :=
  okPart_eq_of_transfer
    (fun _ hb => build_ok_transfer hd (SameUnion.of_perm (List.Perm.refl _)) (build_fixed_ne_crash _) hb)
    (fun _ hb => build_ok_transfer hd (SameUnion.of_perm (List.Perm.refl _)) hc hb)

/-- Non-vacuity: the hypotheses hold for a two-loom, three-process trace and a
    genuinely different distribution of it, and the common result is a success. -/
example : RelpathsDistinct wBig ∧ RelpathsDistinct wBig' ∧ build .asIs wBig ≠ .crash ∧
    build .asIs wBig' ≠ .crash ∧ (build .asIs wBig).okPart ≠ none ∧ wBig.map (·.tp) ≠ wBig'.map (·.tp) := by
  decide

example : SameUnion wBig wBig' := by decide

/-! ## The directory names do not matter either (ranks distinct) -/

/-- The stable sorts fall back on insertion order, i.e. on `trace_load`'s
    relpath order, only when sort keys tie; pids, tids, physical ids and loom
    names never tie, ranks might.  So when no rank is claimed by two processes
    (`RanksDistinct`, decidable) the result does not even depend on how the
    stream directories are named (`SameUnionMod`: same threads up to relpath,
    same facts; relpaths need not be distinct). -/
theorem build_dirname_independent_partial (ss ss' : List StreamMeta)
    (hu : SameUnionMod ss ss') (hr : RanksDistinct ss)
    (hc : build .asIs ss ≠ .crash) (hc' : build .asIs ss' ≠ .crash) :
    (build .asIs ss).okPart = (build .asIs ss').okPart :=
  okPart_eq_of_transfer (fun _ hb => build_ok_transferMod hu hr hc' hb)
    (fun _ hb => build_ok_transferMod hu.symm (hr.transfer hu) hc hb)

theorem build_dirname_independent_fixed (ss ss' : List StreamMeta)
    (hu : SameUnionMod ss ss') (hr : RanksDistinct ss) :
    (build .fixed ss).okPart = (build .fixed ss').okPart :=
  okPart_eq_of_transfer (fun _ hb => build_ok_transferMod hu hr (build_fixed_ne_crash _) hb)
    (fun _ hb => build_ok_transferMod hu.symm (hr.transfer hu) (build_fixed_ne_crash _) hb)

/-- Two processes of one loom both claiming rank 0; directories `a`, `b`. -/
def wTie : List StreamMeta :=
  [ mkStream [97] [110] 4 40 (some 1) (some [(0, 0)]) (some 0) (some 2),
    mkStream [98] [110] 5 50 (some 2) none (some 0) (some 2) ]
/-- The same with the two directory names exchanged. -/
def wTie' : List StreamMeta :=
  [ mkStream [98] [110] 4 40 (some 1) (some [(0, 0)]) (some 0) (some 2),
    mkStream [97] [110] 5 50 (some 2) none (some 0) (some 2) ]

/-- `RanksDistinct` cannot be dropped: with a rank tie the directory names
    decide the order of the rows (this is the code's documented stable-sort
    behaviour, not a defect: the union here is itself ambiguous). -/
theorem dirname_matters_on_rank_ties :
    SameUnionMod wTie wTie' ∧ ¬ RanksDistinct wTie ∧
    (build .fixed wTie).okPart ≠ (build .fixed wTie').okPart ∧
    (build .asIs wTie).okPart ≠ (build .asIs wTie').okPart := by decide

example : SameUnionMod wBig wBig' ∧ RanksDistinct wBig := by decide

/-! ## order_spec -/

/-- A successful `build` is ordered as the property says (`Ordered`, in
    `Emu/SystemSpec.lean`): looms by rank_min (the minimum rank of their
    processes) exactly when every loom has ranks, else strictly by name
    (`strcmp`); inside a loom, processes by rank when the loom has ranks
    (then every process has one), else strictly by pid; threads strictly by
    tid; CPUs strictly by physical id. -/
theorem order_spec (m : Mode) (ss : List StreamMeta) (h : Hier) (hb : build m ss = .ok h) : Ordered h := by
  obtain ⟨sys, hc, hf⟩ := build_ok hb
  exact finish_ordered (create_ok hc) hf

/-- Rows of `thread.prv` in hierarchy order: looms, then processes, then
    threads; the name carries the process's app id and the thread's tid. -/
theorem threadRows_spec (h : Hier) :
    h.threadRows = h.looms.flatMap fun l => l.procs.flatMap fun p => p.threads.map fun t => (p.appid, t.tid) := by
  simp only [Hier.threadRows, Hier.threads, List.map_flatMap, List.map_map]
  rfl

/-- Rows of `cpu.prv`: loom after loom (numbered by position), its CPUs in
    order, then its virtual CPU — the virtual CPU is the last row of each loom. -/
theorem cpuRows_spec (i : Nat) (l : HLoom) (ls : List HLoom) :
    cpuRowsFrom i (l :: ls) =
      l.cpus.map (fun c => (i, some c.phyid)) ++ (i, none) :: cpuRowsFrom (i + 1) ls := by
  simp [cpuRowsFrom, loomCpuRows]

/-- Non-vacuity: a build that succeeds, is sorted by rank, and whose rows are
    the expected ones (loom `n1` holds ranks 0 and 1 and comes first; inside it
    pid 4 (rank 0) precedes pid 5 (rank 1); CPUs by physical id, vCPU last). -/
example : ∃ h, build .asIs wBig = .ok h ∧ h.sortByRank = true ∧
    h.threadRows = [(2, 40), (2, 41), (1, 50), (3, 70), (3, 71)] ∧
    h.cpuRows = [(0, some 9), (0, none), (1, some 2), (1, some 4), (1, none)] := by
  refine ⟨_, rfl, ?_⟩
  decide

/-! ## What the hierarchy contains -/

/-- A successful `build` contains exactly the union (`Content`, in
    `Emu/SystemSpec.lean`): the looms named by the thread streams; per loom the
    CPUs of its CPU facts, with indices exactly `0..n-1`; the processes and
    threads of the thread streams; each process with the app id (and rank /
    rank count, if any) that its threads wrote. -/
theorem hier_content (m : Mode) (ss : List StreamMeta) (h : Hier) (hb : build m ss = .ok h) :
    Content ss h := by
  obtain ⟨sys, hc, hf⟩ := build_ok hb
  exact (finish_content (create_ok hc) hf).of_load

/-! ## conflicts_refused -/

-- OPEN (refuted for the code as it is, see `not_conflicts_refused_asIs`):
--   theorem conflicts_refused (ss) (hc : Conflict ss) : ∃ e, build .asIs ss = .error e
-- What is missing is exactly the hypothesis `build .asIs ss ≠ .crash`.

/-- None of the contradictions of the property (two app ids, ranks or rank
    counts in one process; one CPU index bound to two physical ids or one
    physical id to two indices; duplicate TIDs; a loom without CPUs; a process
    without app id) is ever accepted — for the code as it is and for the fixed
    lookup alike. -/
theorem conflicts_never_accepted (m : Mode) (ss : List StreamMeta) (hc : Conflict ss) (h : Hier) :
    build m ss ≠ .ok h :=
  conflict_never_ok hc h

/-- ... and unless `load_cpus` dereferences the unallocated `cpus_array`
    first, it is refused with an error. -/
theorem conflicts_refused_partial (ss : List StreamMeta) (hc : Conflict ss)
    (hn : build .asIs ss ≠ .crash) : ∃ e, build .asIs ss = .error e := by
  cases hb : build .asIs ss with
  | ok h => exact absurd hb (conflict_never_ok hc h)
  | error e => exact ⟨e, rfl⟩
  | crash => exact absurd hb hn

/-- The hypothesis cannot be dropped for the code as it is: index 0 bound to
    phyid 0 and 5 is a contradiction and crashes. -/
theorem not_conflicts_refused_asIs :
    ¬ (∀ ss : List StreamMeta, Conflict ss → ∃ e, build .asIs ss = .error e) := by
  intro h
  have hc : Conflict wTwoPhy :=
    Conflict.indexTwoPhyids [110] 0 0 5 (by decide) (by decide) (by decide)
  obtain ⟨e, he⟩ := h wTwoPhy hc
  rw [crash_witness_two_phyids] at he
  cases he

/-- Full strength for the fixed lookup: every contradiction is refused with an
    error — never accepted, never a crash. -/
theorem conflicts_refused_fixed (ss : List StreamMeta) (hc : Conflict ss) :
    ∃ e, build .fixed ss = .error e := by
  cases hb : build .fixed ss with
  | ok h => exact absurd hb (conflict_never_ok hc h)
  | error e => exact ⟨e, rfl⟩
  | crash => exact absurd hb (build_fixed_ne_crash ss)

/-- Conversely a failing merge always has a reason in the union: if
    `create_system` fails with an error then the union violates `CreateOK` or
    binds a CPU index to two physical ids. -/
theorem create_error_has_conflict (m : Mode) (ss : List StreamMeta) (e : Err)
    (h : create m (load ss) = .error e) : ¬ (CreateOK (load ss) ∧ IndexOK (cpuFacts (load ss))) :=
  create_error h

/-- Non-vacuity: each kind of contradiction is exhibited by a concrete trace
    which the model refuses with the corresponding error. -/
example :
    build .asIs [mkStream [97] [110] 1 1 (some 1) (some [(0, 0)]), mkStream [98] [110] 1 2 (some 2) none]
      = .error .appidMismatch ∧
    build .asIs [mkStream [97] [110] 1 1 (some 1) (some [(0, 0)]) (some 0) (some 2),
                 mkStream [98] [110] 1 2 none none (some 1) (some 2)] = .error .rankMismatch ∧
    build .asIs [mkStream [97] [110] 1 1 (some 1) (some [(0, 0)]) (some 0) (some 2),
                 mkStream [98] [110] 1 2 none none (some 0) (some 3)] = .error .nranksMismatch ∧
    build .asIs [mkStream [97] [110] 1 1 (some 1) (some [(0, 0), (1, 0)])] = .error .cpuIndexMismatch ∧
    build .asIs [mkStream [97] [110] 1 1 (some 1) (some [(1, 0), (1, 5)])] = .error .cpuIndexTaken ∧
    build .asIs [mkStream [97] [110] 1 1 (some 1) (some [(0, 0)]), mkStream [98] [110] 1 1 none none]
      = .error .dupThread ∧
    build .asIs [mkStream [97] [110] 1 1 (some 1) none] = .error .noCpus ∧
    build .asIs [mkStream [97] [110] 1 1 none (some [(0, 0)])] = .error .appidMissing := by
  decide

example : Conflict [mkStream [97] [110] 1 1 (some 1) (some [(0, 0)]), mkStream [98] [110] 1 1 none none] :=
  Conflict.dupTid (by decide)

end Ovni.Props.C15
