import OvniModel.Emu.Core
import OvniModel.Emu.MarkEmu
import OvniModel.Emu.Dispatch
import OvniModel.Version

/-!
# Generated handler facts vs. the values that used to be written by hand

Not tied to one property.  `Generated/Handlers.lean` is regenerated from
`/repo`'s current `event.c` / `setup.c` on every run (`tools/gen/gen_handlers.py`,
clang AST) and the models *consume* it (`Emu/Core.lean` `specNosv … specOvni`,
`Emu/Dispatch.lean` `disp` / `stateGuard`, `Version.lean` `alwaysOn`).

This file keeps the former hand-written values (`…Hand`) next to the derived
ones and states, by evaluation, that they coincide on the current tree; and it
ties the parts of the model that are still hand-written control flow
(`ovniEvent`, `preThread`, `preFlush`, `markEvent`: the proofs of C04/C05 unfold
them) to the generated switches.

When `/repo` changes a guard, a `case`, a connect-time value … the models
follow the code, the theorems below stop checking (they name what moved), and
the independent oracles of the end-to-end checks (own Python tables) report the
concrete history on which code and documentation now differ.
-/
namespace Ovni.Props.Gen
open Ovni.Emu Ovni.Generated

/-! ## The extraction understood everything -/

/-- nothing in the eight handlers was left unrecognised by the extractor -/
theorem unresolved_empty : ∀ f ∈ Handlers.all, f.unresolved = [] := by decide

/-- every handler was found, dispatches on the category or indexes its table,
    and its category switch fails on unknown categories -/
theorem dispatch_found : ∀ f ∈ Handlers.all,
    (f.directTable = true ∨ f.catSwitch.isSome = true) ∧
    (∀ s ∈ f.switches, s.defaultErr = true) := by decide

/-- the model character `model_<m>_event` tests is the registered one -/
theorem evChar_is_model_char :
    Handlers.all.map (·.evChar) = allSpecs.map (fun s => some s.char) := by decide

/-! ## `ModelSpec` fields: hand-written = generated -/

def catsOf (s : String) : List Nat := s.toList.map Char.toNat

/-- order of `allSpecs`: ovni, nanos6, nosv, nodes, tampi, mpi, kernel, openmp -/
def catsHand : List (Option (List Nat)) :=
  [some [], some (catsOf "CSUFOtHDBWMP"), some (catsOf "SUMHAP"), some (catsOf "RUWITCSP"),
   none, none, some [67], none]

theorem cats_hand : allSpecs.map (·.cats) = catsHand := by decide

def stateReqHand : List Nat := [0, 2, 2, 1, 1, 1, 0, 1]

theorem stateReq_hand : allSpecs.map (·.stateReq) = stateReqHand := by decide

def checkOutOfCpuHand : List Bool := [true, false, true, false, false, false, false, false]

theorem checkOutOfCpu_hand : allSpecs.map (·.checkOutOfCpu) = checkOutOfCpuHand := by decide

def lintChanHand : List (Option Nat) := [none, some 2, some 4, some 0, some 0, some 0, none, some 0]

theorem lintChan_hand : allSpecs.map (·.lintChan) = lintChanHand := by decide

/-- the channel `end_lint` inspects is a stack channel of the model -/
theorem lintChan_is_stack : ∀ s ∈ allSpecs, ∀ i, s.lintChan = some i → s.chanStack.getD i false = true := by
  decide

/-- hand-written: nOS-V / Nanos6 set the idle channel to the first label of its
    PCF table (*Progressing*) and give the CPU mux the second (*Resting*) -/
def initValsHand : List (List (Nat × Int)) :=
  [[], [(5, labelVal Nanos6.labels 5 0)], [(6, labelVal Nosv.labels 6 0)], [], [], [], [], []]

def cpuDefaultHand : List (List (Nat × Int)) :=
  [[], [(5, labelVal Nanos6.labels 5 1)], [(6, labelVal Nosv.labels 6 1)], [], [], [], [], []]

theorem initVals_hand : allSpecs.map (·.initVals) = initValsHand := by decide

theorem cpuDefault_hand : allSpecs.map (·.cpuDefault) = cpuDefaultHand := by decide

/-- hand-written: KCO pushes / KCI pops `ST_CSOUT` on channel 0 -/
def kernelTableHand : List (Nat × Nat × Nat × Nat × Int) :=
  [(67, 79, 0, 1, kernelCsOut), (67, 73, 0, 2, kernelCsOut)]

theorem kernelTable_hand : specKernel.table = kernelTableHand := by decide

/-- hand-written: `is_out_of_cpu` is set by KCO and cleared by KCI -/
theorem kernelOutOfCpu_hand : specKernel.outOfCpu = [(67, 79, true), (67, 73, false)] := by decide

/-- hand-written: only nOS-V and Nanos6 hand `T` / `Y` to the task layer -/
theorem taskCats_hand :
    allSpecs.map (·.taskCats) = [[], [84, 89], [84, 89], [], [], [], [], []] := by decide

/-- hand-written: only the kernel model touches `is_out_of_cpu` -/
theorem outOfCpu_only_kernel : ∀ s ∈ allSpecs, s.char ≠ 75 → s.outOfCpu = [] := by decide

/-! ## C18's dispatch data: hand-written = generated -/

open Ovni.Emu.Dispatch in
/-- the dispatch as it was transcribed by hand from the eight `event.c` -/
def dispHand : ModelId → Disp
  | .ovni => {
      cats := [(72, .vals (chars "Cxeprcw")),   -- 'H' pre_thread
               (65, .vals (chars "sr")),        -- 'A' pre_affinity
               (66, .any),                      -- 'B' pre_burst
               (67, .vals (chars "n")),         -- 'C' pre_cpu
               (70, .vals (chars "[]")),        -- 'F' pre_flush
               (85, .any),                      -- 'U'
               (77, .vals (chars "[]="))],      -- 'M' mark_event
      dflt := false }
  | .nanos6 => {
      cats := catsTab "CSUFOtHDBWMP" ++
              [(84, .vals (chars "Ccxerp")),    -- 'T' pre_task
               (89, .vals (chars "c"))],        -- 'Y' pre_type
      dflt := false }
  | .nosv => {
      cats := catsTab "SUMHAP" ++
              [(84, .vals (chars "Ccxerp")),
               (89, .vals (chars "c"))],
      dflt := false }
  | .nodes => { cats := catsTab "RUWITCSP", dflt := false }
  | .tampi => { cats := [], dflt := true }
  | .mpi => { cats := [], dflt := true }
  | .kernel => { cats := [(67, .vals (chars "OI"))], dflt := false }
  | .openmp => { cats := [], dflt := true }

open Ovni.Emu.Dispatch in
theorem disp_hand : ∀ M ∈ ModelId.all, disp M = dispHand M := by decide

open Ovni.Emu.Dispatch in
/-- the thread-state guards as they were transcribed by hand -/
def stateGuardHand : ModelId → Ctx → Bool
  | .ovni, x => !x.outOfCpu
  | .nanos6, x => x.active
  | .nosv, x => x.active && !x.outOfCpu
  | .nodes, x | .tampi, x | .mpi, x | .openmp, x => x.running
  | .kernel, _ => true

open Ovni.Emu.Dispatch in
theorem stateGuard_hand (M : ModelId) (x : Ctx) : stateGuard M x = stateGuardHand M x := by
  obtain ⟨a, r, o⟩ := x
  cases M <;> cases a <;> cases r <;> cases o <;> decide

/-! ## `alwaysOn` -/

open Ovni.Version in
/-- the models whose probe returns 1 unconditionally -/
def alwaysOnChars : List Nat := (probeFacts.filter (·.2)).map (·.1)

open Ovni.Version in
theorem alwaysOn_iff (ch : Nat) : alwaysOn ch = true ↔ ch ∈ alwaysOnChars := by
  unfold alwaysOn alwaysOnChars
  simp only [List.any_eq_true, Bool.and_eq_true, beq_iff_eq, List.mem_map, List.mem_filter]
  constructor
  · rintro ⟨p, hp, rfl, h2⟩; exact ⟨p, ⟨hp, h2⟩, rfl⟩
  · rintro ⟨p, ⟨hp, h2⟩, rfl⟩; exact ⟨p, hp, rfl, h2⟩

/-- hand-written: `alwaysOn ch = (ch == 79)`, only the ovni model -/
theorem alwaysOnChars_hand : alwaysOnChars = [79] := by decide

open Ovni.Version in
theorem alwaysOn_hand (ch : Nat) : alwaysOn ch = (ch == 79) := by
  have h := alwaysOn_iff ch
  rw [alwaysOnChars_hand] at h
  cases hb : alwaysOn ch with
  | true => have := h.1 hb; simp at this; simp [this]
  | false =>
    cases hc : (ch == 79) with
    | false => rfl
    | true =>
      have : ch ∈ [79] := by simp [beq_iff_eq.mp hc]
      rw [h.2 this] at hb; cases hb

/-! ## The hand-written control flow of the ovni model vs. the generated switches

`ovniEvent`, `preThread`, `preFlush` (Core) and `markEvent` (MarkEmu) stay
hand-written `if` chains.  Their *unknown event* verdict is compared with the
dispatch computed from the generated switches on every `(c, v)` below 128, on a
state where every other precondition of reaching the `switch` holds. -/

def probeTab : List MarkType := [{ type := 1, title := "t", stack := true, labels := [] }]

/-- one thread, one CPU, ovni model and one mark type -/
def probeEmu : Emu := mkEmu [(1, 1, 0)] [(0, 0, false)] [79] false [markSpec probeTab]

/-- mark payload: value 1 (i64), type 1 (i32) -/
def probePayload : List Nat := [1, 0, 0, 0, 0, 0, 0, 0, 1, 0, 0, 0]

def isUnknown : Except Err Emu → Bool
  | .error .unknownEvent => true
  | _ => false

def ovniUnknown (c v : Nat) : Bool :=
  isUnknown (ovniEvent probeEmu 0 c v probePayload (fun e ti v p => markEvent probeTab e ti v p))

open Ovni.Emu.Dispatch in
theorem ovniEvent_follows_generated :
    ∀ c ∈ List.range 128, ∀ v ∈ List.range 128,
      ovniUnknown c v = !(disp .ovni).accepts [] c v := by decide +kernel

/-- `pre_flush` as generated: `OF[` sets the flush channel (0) to 1, `OF]` to null -/
theorem preFlush_hand :
    (Handlers.ovni.valSwitch "pre_flush").map (fun s => s.cases.map fun k => (k.label, k.chanOp, k.chan, k.valKind, k.val))
      = some [(91, 3, some 0, 1, 1), (93, 3, some 0, 2, 0)] := by decide

/-- `mark_event` as generated: `[` push, `]` pop, `=` set -/
theorem markEvent_hand :
    (Handlers.ovni.valSwitch "mark_event").map (fun s => s.cases.map fun k => (k.label, k.chanOp))
      = some [(91, 1), (93, 2), (61, 3)] := by decide

end Ovni.Props.Gen
