import OvniModel.Rt.Fs
import OvniModel.Rt.FsOld

/-! Statement-level definitions of C09 and C10 over the file-system model. -/
namespace Ovni.Rt.Fs

/-- The file system when the process is killed after `k` completed calls. -/
def crashState (C : Codec) (p : Prog) (k : Nat) : Fs := run p.init (ops ((calls C.ser p).take k))

/-- Threads have distinct tids. -/
def WellFormed (p : Prog) : Prop := (p.threads.map (·.tid)).Nodup

/-- readdir returns the entries of a thread directory in some order (only the
    code before the fix depends on it). -/
def ReaddirOrder (p : Prog) : Prop := p.order.Perm [.dot, .dotdot, .f .obs, .f .json]

/-- C09: accepted by the emulator ⇒ every visible stream contains (is exactly)
    what its thread had flushed when the process was killed. -/
def CrashConsistent (E : EmuCfg) (C : Codec) (p : Prog) : Prop :=
  ∀ (k : Nat) (cut : Path → Nat) (r : Root),
    accepts E C (crashState C p k) cut r = true →
    ∀ tid ∈ visibleStreams (crashState C p k) r,
      (crashState C p k).visible cut (.file r tid .obs) = some ((crashState C p k).flushed tid)

/-- C09: finished = 1 visible in the final tree ⇒ the final stream.obs holds
    every byte the thread flushes in its whole life. -/
def FinishedAfterData (C : Codec) (p : Prog) : Prop :=
  ∀ (k : Nat) (cut : Path → Nat), ∀ t ∈ p.threads, ∀ j,
    (crashState C p k).visible cut (.file .fin t.tid .json) = some j → jsonFinished C j = true →
    (crashState C p k).visible cut (.file .fin t.tid .obs) = some t.obsBytes

/-- C10: the final trace of thread `t` is complete: its stream.obs holds every
    byte the thread flushed, its stream.json is whole and says finished. -/
def Complete (C : Codec) (t : ThreadProg) (s : Fs) : Prop :=
  s.get (.file .fin t.tid .obs) = some (.file t.obsBytes []) ∧
  s.get (.file .fin t.tid .json) = some (.file (C.ser ⟨true, t.metaF⟩) []) ∧
  s.flushed t.tid = t.obsBytes

/-- C10: some tree still has a stream.obs with every byte thread `tid` flushed. -/
def CopyExists (s : Fs) (tid : Nat) : Prop :=
  s.flushed tid = [] ∨ ∃ r d pn, s.get (.file r tid .obs) = some (.file d pn) ∧ d = s.flushed tid

/-- C10: the fault was not silent — the runtime aborted and a complete copy of
    every thread's flushed bytes is still on disk, or it returned and the
    final trace of every freed thread is complete.  `failed` is the site of
    the failing call: when `close(streamfd)` itself reports that the last write
    was lost, aborting is all the runtime can do. -/
def NotSilent (C : Codec) (p : Prog) (failed : Option Site) : Outcome → Prop
  | .die s => failed = some .closeStream ∨ ∀ t ∈ p.threads, CopyExists s t.tid
  | .returned s => ∀ t ∈ p.threads, t.free = true → Complete C t s ∧ CopyExists s t.tid
  | .killed _ => False

/-- The site of the `i`-th call. -/
def siteAt (cs : List Call) (i : Nat) : Option Site := (cs[i]?).map (·.site)

/-! ### any interleaving of the threads' calls (C09) -/

/-- `L` interleaves the lists `ls`, each keeping its own order: the next call
    is the head of the `i`-th list. -/
inductive Shuffle : List (List FOp) → List FOp → Prop
  | done {ls : List (List FOp)} : (∀ l ∈ ls, l = []) → Shuffle ls []
  | take {ls : List (List FOp)} {op : FOp} {L : List FOp} (i : Nat) (rest : List FOp) :
      ls[i]? = some (op :: rest) → Shuffle (ls.set i rest) L → Shuffle ls (op :: L)

/-- A schedule of the process: `ovni_proc_init`, then the calls of the threads
    interleaved in any way, then `ovni_proc_fini`. -/
def Schedule (ser : Meta → List Nat) (p : Prog) (L : List FOp) : Prop :=
  ∃ body, Shuffle (p.threads.map fun t => ops (threadCalls ser p t)) body ∧
    L = ops (procInitCalls p) ++ body ++ ops (procFiniCalls p)

/-- The file system when the process running schedule `L` is killed after `k` calls. -/
def crashStateS (p : Prog) (L : List FOp) (k : Nat) : Fs := run p.init (L.take k)

def CrashConsistentS (E : EmuCfg) (C : Codec) (p : Prog) (L : List FOp) : Prop :=
  ∀ (k : Nat) (cut : Path → Nat) (r : Root),
    accepts E C (crashStateS p L k) cut r = true →
    ∀ tid ∈ visibleStreams (crashStateS p L k) r,
      (crashStateS p L k).visible cut (.file r tid .obs) = some ((crashStateS p L k).flushed tid)

def FinishedAfterDataS (C : Codec) (p : Prog) (L : List FOp) : Prop :=
  ∀ (k : Nat) (cut : Path → Nat), ∀ t ∈ p.threads, ∀ j,
    (crashStateS p L k).visible cut (.file .fin t.tid .json) = some j → jsonFinished C j = true →
    (crashStateS p L k).visible cut (.file .fin t.tid .obs) = some t.obsBytes

def Outcome.isReturned : Outcome → Bool
  | .returned _ => true
  | _ => false

/-! ### the same statements about the code before the fixes (`Rt/FsOld`) -/

def CrashConsistentOld (E : EmuCfg) (C : Codec) (p : Prog) : Prop :=
  ∀ (k : Nat) (cut : Path → Nat) (r : Root),
    accepts E C (Old.crashState C p k) cut r = true →
    ∀ tid ∈ visibleStreams (Old.crashState C p k) r,
      (Old.crashState C p k).visible cut (.file r tid .obs) = some ((Old.crashState C p k).flushed tid)

def FinishedAfterDataOld (C : Codec) (p : Prog) : Prop :=
  ∀ (k : Nat) (cut : Path → Nat), ∀ t ∈ p.threads, ∀ j,
    (Old.crashState C p k).visible cut (.file .fin t.tid .json) = some j → jsonFinished C j = true →
    (Old.crashState C p k).visible cut (.file .fin t.tid .obs) = some t.obsBytes

end Ovni.Rt.Fs
