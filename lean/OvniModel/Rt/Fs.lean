import OvniModel.Rt.Buffer

/-
  The file-system protocol of libovni (src/rt/ovni.c, src/common.c) as a list
  of abstract file-system calls, with crash and single-fault semantics
  (properties C09 and C10).

  * `Fs` is a finite map path ↦ directory | file.  A file has the bytes that
    reached the disk and the bytes still sitting in the stdio buffer of the
    process (`pend`); a kill loses any suffix of `pend` (`Fs.visible`).
  * `calls` is the transcription of ovni_proc_init … ovni_proc_fini: the exact
    sequence of libc calls of a fault-free run, each tagged with its call site
    (the code AFTER the repairs `fix: relocate stream.obs before stream.json`
    and `fix: check the relocation and close(streamfd)`; the code before them
    is kept in `Rt/FsOld.lean` for the witnesses of the negated statements).
  * Crash at point k  = `run` of the first k calls.
  * Fault at point i  = the first i calls, the failed call's effect
    (`applyFailed`), then what the C code does after that failure (`cont`).

  Bytes are `Nat` values < 256 as in `Rt/Event`.  The bytes of every write come
  from the buffer model (`Rt/Buffer`) through `writesOf`.
-/
namespace Ovni.Rt.Fs
open Ovni.Rt

/-! ### Paths and the file system -/

/-- OVNI_TMPDIR tree / OVNI_TRACEDIR tree. -/
inductive Root where
  | tmp
  | fin
deriving DecidableEq, Repr

inductive FName where
  | obs    -- stream.obs
  | json   -- stream.json
deriving DecidableEq, Repr

/-- `anc i`: the i-th directory above the two trace roots (0 = their parent),
    all of which exist before the process starts; `ghost tid` is not a file:
    it accumulates every byte a successful `write()` of thread `tid` returned
    (what the thread *has flushed*), invisible to every other operation. -/
inductive Path where
  | anc (i : Nat)
  | root (r : Root)
  | loom (r : Root)
  | proc (r : Root)
  | thread (r : Root) (tid : Nat)
  | file (r : Root) (tid : Nat) (f : FName)
  | ghost (tid : Nat)
deriving DecidableEq, Repr

def Path.parent : Path → Option Path
  | .anc i => some (.anc (i + 1))
  | .root _ => some (.anc 0)
  | .loom r => some (.root r)
  | .proc r => some (.loom r)
  | .thread r _ => some (.proc r)
  | .file r t _ => some (.thread r t)
  | .ghost _ => none

inductive Node where
  | dir
  | file (disk pend : List Nat)
deriving DecidableEq, Repr

/-- Finite map as an association list (at most one entry per path). -/
abbrev Fs := List (Path × Node)

def Fs.get (fs : Fs) (p : Path) : Option Node :=
  match fs with
  | [] => none
  | (q, n) :: r => if q = p then some n else Fs.get r p

def Fs.del (fs : Fs) (p : Path) : Fs :=
  match fs with
  | [] => []
  | (q, n) :: r => if q = p then Fs.del r p else (q, n) :: Fs.del r p

def Fs.set (fs : Fs) (p : Path) (n : Node) : Fs := (p, n) :: fs.del p

def Fs.hasChild (fs : Fs) (p : Path) : Bool := fs.any fun e => e.1.parent == some p

/-- Append to the on-disk bytes of a file (no effect if `p` is not a file). -/
def Fs.appendDisk (fs : Fs) (p : Path) (d : List Nat) : Fs :=
  match fs.get p with
  | some (.file disk pend) => fs.set p (.file (disk ++ d) pend)
  | _ => fs

/-- Append to the stdio buffer of a file. -/
def Fs.appendPend (fs : Fs) (p : Path) (d : List Nat) : Fs :=
  match fs.get p with
  | some (.file disk pend) => fs.set p (.file disk (pend ++ d))
  | _ => fs

/-- The ghost log of thread `tid`. -/
def Fs.flushed (fs : Fs) (tid : Nat) : List Nat :=
  match fs.get (.ghost tid) with
  | some (.file disk _) => disk
  | _ => []

def Fs.logFlushed (fs : Fs) (tid : Nat) (d : List Nat) : Fs :=
  fs.set (.ghost tid) (.file (fs.flushed tid ++ d) [])

/-- What a reader sees of `p` after the process was killed, when `cut p`
    bytes of the stdio buffer had already been handed to the kernel. -/
def Fs.visible (fs : Fs) (cut : Path → Nat) (p : Path) : Option (List Nat) :=
  match fs.get p with
  | some (.file disk pend) => some (disk ++ pend.take (cut p))
  | _ => none

/-! ### Calls -/

inductive DirEnt where
  | dot
  | dotdot
  | f (n : FName)
deriving DecidableEq, Repr

/-- One libc call of the runtime with the arguments that matter. -/
inductive FOp where
  | mkdir (p : Path)
  | stat (p : Path)
  | openW (r : Root) (tid : Nat)                   -- open(stream.obs, O_WRONLY|O_CREAT)
  | write (r : Root) (tid : Nat) (d : List Nat)    -- write(streamfd, d)
  | close (r : Root) (tid : Nat) (last : Nat)      -- close(streamfd); `last` = size of the last write on it
  | fopenW (p : Path)
  | fopenR (p : Path)
  | fputs (p : Path) (d : List Nat)
  | fwrite (p : Path) (d : List Nat)
  | fread (p : Path) (n : Nat)                     -- returned n bytes
  | fcloseW (p : Path)
  | fcloseR (p : Path)
  | opendir (p : Path)
  | readdir (e : Option DirEnt)
  | closedir
  | remove (p : Path)
  | rmdir (p : Path)
deriving DecidableEq, Repr

/-- Effect of a call that succeeds (or fails in the way the code expects:
    mkdir → EEXIST, rmdir → ENOTEMPTY). -/
def apply (fs : Fs) : FOp → Fs
  | .mkdir p => if (fs.get p).isSome then fs else fs.set p .dir
  | .stat _ => fs
  | .openW r t => if (fs.get (.file r t .obs)).isSome then fs else fs.set (.file r t .obs) (.file [] [])
  | .write r t d => (fs.appendDisk (.file r t .obs) d).logFlushed t d
  | .close _ _ _ => fs
  | .fopenW p => fs.set p (.file [] [])
  | .fopenR _ => fs
  | .fputs p d => fs.appendPend p d
  | .fwrite p d => fs.appendPend p d
  | .fread _ _ => fs
  | .fcloseW p =>
    match fs.get p with
    | some (.file disk pend) => fs.set p (.file (disk ++ pend) [])
    | _ => fs
  | .fcloseR _ => fs
  | .opendir _ => fs
  | .readdir _ => fs
  | .closedir => fs
  | .remove p => fs.del p
  | .rmdir p => if fs.hasChild p then fs else fs.del p

def run (fs : Fs) (ops : List FOp) : Fs := ops.foldl apply fs

/-- Injected failure of one call: an errno class, or a short count
    (meaningful for write / fwrite / fputs only; for the other calls a "short"
    injection is no failure at all). -/
inductive Fault where
  | enospc
  | eio
  | eacces
  | short
deriving DecidableEq, Repr

def dropLast (l : List Nat) (n : Nat) : List Nat := l.take (l.length - n)

/-- Does this fault make this call fail (return an error / a short count)? -/
def fires : FOp → Fault → Bool
  | .write _ _ d, .short => d.length > 1
  | .fwrite _ d, .short => d.length > 1
  | .fputs _ _, .short => true
  | _, .short => false
  | _, _ => true

/-- Effect of a call on which `fires op f`:
    * a failed call changes nothing, except
    * short write/fwrite/fputs: the first half of the data is transferred;
    * failed fclose: the final flush failed — only the first `kept` bytes of
      the stdio buffer (those stdio had flushed by itself earlier) are in the
      file, the rest is discarded and the stream is closed;
    * failed close: a deferred write error — the data of the last `write`
      on the descriptor did not reach the file. -/
def applyFailed (fs : Fs) (kept : Nat) : FOp → Fault → Fs
  | .write r t d, .short => apply fs (.write r t (d.take (d.length / 2)))
  | .fwrite p d, .short => apply fs (.fwrite p (d.take (d.length / 2)))
  | .fputs p d, .short => apply fs (.fputs p (d.take (d.length / 2)))
  | .fcloseW p, _ =>
    match fs.get p with
    | some (.file disk pend) => fs.set p (.file (disk ++ pend.take kept) [])
    | _ => fs
  | .close r t last, _ =>
    match fs.get (.file r t .obs) with
    | some (.file disk pend) => fs.set (.file r t .obs) (.file (dropLast disk last) pend)
    | _ => fs
  | _, _ => fs

/-! ### Call sites and what the C code does when the call fails -/

inductive Site where
  | mkdirPath      -- mkdir_if_need inside mkpath:        != EEXIST → mkpath fails → die
  | statPath       -- stat after EEXIST:                   die
  | openStream     -- create_trace_stream:                 die
  | writeStream    -- write_evbuf:                         die; short count → loop
  | storeFopen     -- json_serialize_to_file_pretty fopen: JSONFailure → die
  | storeFputs     --   fputs == EOF: fclose, then JSONFailure → die
  | storeFclose    --   fclose == EOF: JSONFailure → die
  | closeStream    -- ovni_thread_free close(streamfd):    die
  | moveOpendir    -- (only in the code before the fix, see Rt/FsOld)
  | moveReaddir    -- (only in the code before the fix)
  | moveFopenSrc   -- move_thread_to_final fopen(src):     err(), return -1 → die
  | moveFopenDst   --   fopen(dst): fclose(infile), return -1 → die
  | moveFread      --   fread: 0 ends the loop, ferror → both fclose, return -1 → die
  | moveFwrite     --   fwrite != bytes: break, both fclose, return -1 → die
  | moveFcloseOut  --   fclose(outfile) != 0: fclose(infile), return -1 → die
  | moveFcloseIn   --   fclose(infile): result ignored (nothing to lose)
  | moveRemove     --   remove(src): err(), return -1 → die
  | moveClosedir   -- (only in the code before the fix)
  | cleanRmdir     -- try_clean_dir: warn() at most
deriving DecidableEq, Repr

/-- A call, its call site and, inside `move_thdir_to_final`, the index of the
    directory entry it belongs to. -/
structure Call where
  site : Site
  grp : Nat := 0
  op : FOp
deriving DecidableEq, Repr

/-! ### Programs -/

/-- Metadata as far as the model cares: the `ovni.finished` flag and an
    identifier for the rest of the JSON object. -/
structure Meta where
  finished : Bool
  body : Nat
deriving DecidableEq, Repr

/-- parson as a parameter: a serialiser and a parser such that a serialised
    object parses back and no proper prefix of it parses. -/
structure Codec where
  ser : Meta → List Nat
  parse : List Nat → Option Meta
  parse_ser : ∀ m, parse (ser m) = some m
  parse_prefix : ∀ m c, c <+: ser m → c ≠ ser m → parse c = none

/-- One API call of the thread, reduced to its I/O. -/
inductive PStep where
  | io (chunks : List (List Nat))   -- ovni_ev_emit / jumbo / mark / ovni_flush: the `write_evbuf` calls it makes
  | attrFlush (body : Nat)          -- ovni_attr_flush with the metadata as of now
deriving DecidableEq, Repr

structure ThreadProg where
  tid : Nat
  hdr : List Nat           -- the 8 header bytes written by ovni_thread_init
  meta0 : Nat              -- metadata body stored by thread_metadata_init
  steps : List PStep
  free : Bool := true      -- the thread calls ovni_thread_free
  metaF : Nat              -- metadata body stored by ovni_thread_free (with finished = 1)
deriving DecidableEq, Repr

structure Prog where
  tmpMode : Bool           -- OVNI_TMPDIR set
  nAnc : Nat               -- number of existing directories above the trace roots
  order : List DirEnt      -- what readdir returns for a thread directory (only the code before the fix reads it)
  threads : List ThreadProg  -- run one after the other
  fini : Bool := true
deriving DecidableEq, Repr

/-- The tree the thread works in (`rproc.procdir`). -/
def Prog.wr (p : Prog) : Root := if p.tmpMode then .tmp else .fin

/-! ### Transcription of the runtime -/

/-- `mkpath(path, 0755, 1)`: one `mkdir_if_need` per component, top down.
    `ex` = the component exists already: mkdir → EEXIST → stat. -/
def mkpathCalls (comps : List (Path × Bool)) : List Call :=
  comps.flatMap fun c =>
    if c.2 then [⟨.mkdirPath, 0, .mkdir c.1⟩, ⟨.statPath, 0, .stat c.1⟩]
    else [⟨.mkdirPath, 0, .mkdir c.1⟩]

/-- The existing ancestors, top down: `anc (n-1) … anc 0`. -/
def ancComps : Nat → List (Path × Bool)
  | 0 => []
  | n + 1 => (.anc n, true) :: ancComps n

/-- `mkdir_proc`: $dir/loom.$loom/proc.$pid/ in a fresh tree. -/
def mkdirProcCalls (nAnc : Nat) (r : Root) : List Call :=
  mkpathCalls (ancComps nAnc ++ [(.root r, false), (.loom r, false), (.proc r, false)])

/-- `ovni_proc_init` → `create_proc_dir`. -/
def procInitCalls (p : Prog) : List Call :=
  if p.tmpMode then mkdirProcCalls p.nAnc .tmp ++ mkdirProcCalls p.nAnc .fin
  else mkdirProcCalls p.nAnc .fin

/-- `mkdir_thread`: $procdir/thread.$tid, the process directories exist. -/
def mkdirThreadCalls (nAnc : Nat) (r : Root) (tid : Nat) : List Call :=
  mkpathCalls (ancComps nAnc ++ [(.root r, true), (.loom r, true), (.proc r, true), (.thread r tid, false)])

/-- `thread_metadata_store` = `json_serialize_to_file_pretty`. -/
def storeCalls (r : Root) (tid : Nat) (text : List Nat) : List Call :=
  [⟨.storeFopen, 0, .fopenW (.file r tid .json)⟩,
   ⟨.storeFputs, 0, .fputs (.file r tid .json) text⟩,
   ⟨.storeFclose, 0, .fcloseW (.file r tid .json)⟩]

/-- `ovni_thread_init`: create_thread_dir, create_trace_stream,
    write_stream_header, thread_metadata_init. -/
def threadInitCalls (ser : Meta → List Nat) (p : Prog) (t : ThreadProg) : List Call :=
  mkdirThreadCalls p.nAnc p.wr t.tid
  ++ (if p.tmpMode then mkdirThreadCalls p.nAnc .fin t.tid else [])
  ++ [⟨.openStream, 0, .openW p.wr t.tid⟩, ⟨.writeStream, 0, .write p.wr t.tid t.hdr⟩]
  ++ storeCalls p.wr t.tid (ser ⟨false, t.meta0⟩)

def stepCalls (ser : Meta → List Nat) (p : Prog) (tid : Nat) : PStep → List Call
  | .io chunks => chunks.map fun d => ⟨.writeStream, 0, .write p.wr tid d⟩
  | .attrFlush b => storeCalls p.wr tid (ser ⟨false, b⟩)

/-- The 1024-byte blocks the copy loop of `move_thread_to_final` reads. -/
def blocks : Nat → List Nat → List (List Nat)
  | 0, _ => []
  | _, [] => []
  | fuel + 1, c => c.take 1024 :: blocks fuel (c.drop 1024)

/-- `move_thread_to_final(src, dst)` for a source file with content `c`. -/
def moveFileCalls (g tid : Nat) (n : FName) (c : List Nat) : List Call :=
  let src := Path.file .tmp tid n
  let dst := Path.file .fin tid n
  [⟨.moveFopenSrc, g, .fopenR src⟩, ⟨.moveFopenDst, g, .fopenW dst⟩]
  ++ (blocks c.length c).flatMap (fun b => [⟨.moveFread, g, .fread src b.length⟩, ⟨.moveFwrite, g, .fwrite dst b⟩])
  ++ [⟨.moveFread, g, .fread src 0⟩, ⟨.moveFcloseOut, g, .fcloseW dst⟩, ⟨.moveFcloseIn, g, .fcloseR src⟩,
      ⟨.moveRemove, g, .remove src⟩]

/-- All the bytes the steps hand to `write`. -/
def stepsBytes : List PStep → List Nat
  | [] => []
  | .io chunks :: r => chunks.flatten ++ stepsBytes r
  | .attrFlush _ :: r => stepsBytes r

/-- Content of the working stream.obs when the thread ends. -/
def ThreadProg.obsBytes (t : ThreadProg) : List Nat := t.hdr ++ stepsBytes t.steps

/-- Size of the last `write` on the stream descriptor. -/
def lastWriteLen : List Nat → List PStep → Nat
  | h, [] => h.length
  | h, .io chunks :: r => lastWriteLen (match chunks.getLast? with | some d => d | none => h) r
  | h, .attrFlush _ :: r => lastWriteLen h r

def ThreadProg.lastLen (t : ThreadProg) : Nat := lastWriteLen t.hdr t.steps

/-- What follows `close(streamfd)` in `ovni_thread_free`:
    `move_thdir_to_final` — stream.obs first, then stream.json, in that fixed
    order — and `try_clean_dir(thdir)`. -/
def relocCalls (ser : Meta → List Nat) (p : Prog) (t : ThreadProg) : List Call :=
  if p.tmpMode then
    moveFileCalls 1 t.tid .obs t.obsBytes
    ++ moveFileCalls 2 t.tid .json (ser ⟨true, t.metaF⟩)
    ++ [⟨.cleanRmdir, 0, .rmdir (.thread .tmp t.tid)⟩]
  else []

/-- `ovni_thread_free`. -/
def threadFreeCalls (ser : Meta → List Nat) (p : Prog) (t : ThreadProg) : List Call :=
  storeCalls p.wr t.tid (ser ⟨true, t.metaF⟩)
  ++ [⟨.closeStream, 0, .close p.wr t.tid t.lastLen⟩]
  ++ relocCalls ser p t

def threadCalls (ser : Meta → List Nat) (p : Prog) (t : ThreadProg) : List Call :=
  threadInitCalls ser p t
  ++ t.steps.flatMap (stepCalls ser p t.tid)
  ++ (if t.free then threadFreeCalls ser p t else [])

/-- `ovni_proc_fini`. -/
def procFiniCalls (p : Prog) : List Call :=
  if p.fini && p.tmpMode then
    [⟨.cleanRmdir, 0, .rmdir (.proc .tmp)⟩, ⟨.cleanRmdir, 0, .rmdir (.loom .tmp)⟩, ⟨.cleanRmdir, 0, .rmdir (.root .tmp)⟩]
  else []

/-- The libc calls of a whole fault-free run. -/
def calls (ser : Meta → List Nat) (p : Prog) : List Call :=
  procInitCalls p ++ p.threads.flatMap (threadCalls ser p) ++ procFiniCalls p

def ops (cs : List Call) : List FOp := cs.map (·.op)

/-- The file system before the process starts: the ancestors exist. -/
def initAncs : Nat → Fs
  | 0 => []
  | n + 1 => (.anc n, .dir) :: initAncs n

def Prog.init (p : Prog) : Fs := initAncs p.nAnc

/-! ### Outcomes: crash and single fault -/

inductive Outcome where
  | die (fs : Fs)
  | returned (fs : Fs)
  | killed (fs : Fs)
deriving Repr

def Outcome.fs : Outcome → Fs
  | .die fs => fs
  | .returned fs => fs
  | .killed fs => fs

/-- The process is killed when `k` calls have completed. -/
def crashAt (ser : Meta → List Nat) (p : Prog) (k : Nat) : Outcome :=
  if k < (calls ser p).length then .killed (run p.init (ops ((calls ser p).take k)))
  else .returned (run p.init (ops (calls ser p)))

inductive Cont where
  | die (extra : List Call)     -- calls still made before abort()
  | go (rest : List Call)       -- execution continues with these calls

/-- What the code does after call `c` failed; `rest` are the calls that
    would have followed.  Every failure that means data did not reach its
    destination ends in die(); inside `move_thread_to_final` the files are
    closed first and the source is never removed. -/
def cont (c : Call) (f : Fault) (rest : List Call) : Cont :=
  match c.site with
  | .mkdirPath | .statPath | .openStream | .storeFopen | .storeFclose | .closeStream
  | .moveFopenSrc | .moveRemove => .die []
  | .writeStream =>
    match c.op, f with
    | .write r t d, .short => .go (⟨.writeStream, 0, .write r t (d.drop (d.length / 2))⟩ :: rest)
    | _, _ => .die []
  | .storeFputs =>                                          -- the fclose that follows, then die
    match c.op with
    | .fputs p _ => .die [⟨.storeFclose, 0, .fcloseW p⟩]
    | _ => .die []
  | .moveFopenDst =>
    match c.op with
    | .fopenW (.file _ t n) => .die [⟨.moveFcloseIn, c.grp, .fcloseR (.file .tmp t n)⟩]
    | _ => .die []
  | .moveFread =>
    match c.op with
    | .fread (.file _ t n) _ =>
      .die [⟨.moveFcloseOut, c.grp, .fcloseW (.file .fin t n)⟩, ⟨.moveFcloseIn, c.grp, .fcloseR (.file .tmp t n)⟩]
    | _ => .die []
  | .moveFwrite =>
    match c.op with
    | .fwrite (.file _ t n) _ =>
      .die [⟨.moveFcloseOut, c.grp, .fcloseW (.file .fin t n)⟩, ⟨.moveFcloseIn, c.grp, .fcloseR (.file .tmp t n)⟩]
    | _ => .die []
  | .moveFcloseOut =>
    match c.op with
    | .fcloseW (.file _ t n) => .die [⟨.moveFcloseIn, c.grp, .fcloseR (.file .tmp t n)⟩]
    | _ => .die []
  | .moveFcloseIn | .cleanRmdir => .go rest
  | .moveOpendir | .moveReaddir | .moveClosedir => .go rest   -- not produced by `calls`

/-- The `i`-th call of the run fails with `f` (nothing fails if there is no
    such call or the fault does not apply to it).  `kept`: see `applyFailed`. -/
def faultAt (ser : Meta → List Nat) (p : Prog) (i : Nat) (f : Fault) (kept : Nat := 0) : Outcome :=
  let cs := calls ser p
  match cs[i]? with
  | none => .returned (run p.init (ops cs))
  | some c =>
    if fires c.op f then
      let s := applyFailed (run p.init (ops (cs.take i))) kept c.op f
      match cont c f (cs.drop (i + 1)) with
      | .die extra => .die (run s (ops extra))
      | .go rest => .returned (run s (ops rest))
    else .returned (run p.init (ops cs))

/-- The calls actually made in that run (for the correspondence with the
    interposition log). -/
def faultTrace (ser : Meta → List Nat) (p : Prog) (i : Nat) (f : Fault) : List Call :=
  let cs := calls ser p
  match cs[i]? with
  | none => cs
  | some c =>
    if fires c.op f then
      match cont c f (cs.drop (i + 1)) with
      | .die extra => cs.take (i + 1) ++ extra
      | .go rest => cs.take (i + 1) ++ rest
    else cs

/-! ### The emulator's acceptance condition -/

/-- Thread state events of the ovni model: OHx OHe OHp OHr OHc OHw. -/
def isStateEv (e : DecEv) : Bool :=
  e.m == 79 && e.c == 72 && (e.v == 120 || e.v == 101 || e.v == 112 || e.v == 114 || e.v == 99 || e.v == 119)

/-- `model_ovni_finish`: the thread is Dead after its last event, i.e. its
    last state event is OHe. -/
def deadAtEnd (evs : List DecEv) : Bool :=
  match (evs.filter isStateEv).getLast? with
  | some e => e.v == 101
  | none => false

/-- `stream_load` + `stream_step` to the end + `model_ovni_finish` on the bytes
    of a stream.obs: header, tiling, thread dead.  (The emulator checks more —
    clocks, event semantics — so this accepts at least what it accepts.) -/
def obsAccepted (magic : List Nat) (version : Nat) (bytes : List Nat) : Bool :=
  match decodeStream magic version bytes with
  | some evs => deadAtEnd evs
  | none => false

/-- `thread_load_metadata`: stream.json parses and has `ovni.finished = 1`. -/
def jsonFinished (C : Codec) (bytes : List Nat) : Bool :=
  match C.parse bytes with
  | some m => m.finished
  | none => false

structure EmuCfg where
  magic : List Nat
  version : Nat

/-- The stream of thread `tid` under root `r` is loadable and ends dead. -/
def streamAccepted (E : EmuCfg) (C : Codec) (fs : Fs) (cut : Path → Nat) (r : Root) (tid : Nat) : Bool :=
  (match fs.visible cut (.file r tid .json) with
   | some j => jsonFinished C j
   | none => false)
  &&
  (match fs.visible cut (.file r tid .obs) with
   | some o => obsAccepted E.magic E.version o
   | none => false)

/-- The threads with a visible stream (a stream.json) under root `r`. -/
def visibleStreams (fs : Fs) (r : Root) : List Nat :=
  fs.filterMap fun e =>
    match e with
    | (.file r' t .json, .file _ _) => if r' = r then some t else none
    | _ => none

/-- `ovniemu` on the directory of root `r` reports success: every stream it
    finds loads, replays to the end and leaves its thread dead. -/
def accepts (E : EmuCfg) (C : Codec) (fs : Fs) (cut : Path → Nat) (r : Root) : Bool :=
  (visibleStreams fs r).all fun t => streamAccepted E C fs cut r t

/-! ### Tie to the buffer model: the bytes of each `write` -/

section Buffer
variable {D : Type} [JData D]

abbrev Chunk (D : Type) := List (Rec D × Origin)

/-- `evAdd` instrumented with the buffers handed to `write_evbuf`, in order. -/
def evAddW (cap : Nat) : Nat → St D → Rec D → Origin → Option (St D × List (Chunk D))
  | 0, _, _, _ => none
  | fuel + 1, s, r, o =>
    if !s.ready then none
    else if s.evlen + r.size ≥ cap then
      let s1 := forcedFlush s r o
      let w2 : List (Chunk D) := if s1.evlen + 24 ≥ cap then [s1.buf] else []
      match evAddW cap fuel (makeRoom cap s1) (markerOpen s.now) .lib with
      | none => none
      | some (s5, w3) =>
        match evAddW cap fuel s5 (markerClose (s.now + s.tick)) .lib with
        | none => none
        | some (s6, w4) => some (s6, [s.buf] ++ w2 ++ w3 ++ w4)
    else some (s.append r o, [])

def emitW (cap : Nat) (s : St D) (e : Ev) (chunks : List (List Nat)) : Option (St D × List (Chunk D)) :=
  match payloadAddAll e chunks with
  | none => none
  | some e' => evAddW cap addFuel s (.ev e') .user

def emitJumboW (cap : Nat) (s : St D) (e : Ev) (chunks : List (List Nat)) (d : D) :
    Option (St D × List (Chunk D)) :=
  if !s.ready then none else
  match jumboRec cap e chunks d with
  | none => none
  | some r => evAddW cap addFuel s r .user

def flushW (cap : Nat) (s : St D) : Option (St D × List (Chunk D)) :=
  if !s.ready then none else
  match evAddW cap addFuel ((s.clockNow.2.flushBuf).clockNow.2) (markerOpen s.now) .lib with
  | none => none
  | some (s4, w1) =>
    match evAddW cap addFuel s4 (markerClose (s.now + s.tick)) .lib with
    | none => none
    | some (s5, w2) => some (s5, [s.buf] ++ w1 ++ w2)

def markW (cap : Nat) (s : St D) (kind : Nat) (type value : Int) : Option (St D × List (Chunk D)) :=
  if value = 0 then none else
  let (t, s1) := s.clockNow
  emitW cap s1 { m := 79, c := 77, v := kind, clock := t } [sle 8 value, sle 4 type]

/-- `step` of the buffer model together with the record chunks written. -/
def stepW (cap : Nat) (s : St D) : Op D → Option (St D × List (Chunk D))
  | .emit e ch => emitW cap s e ch
  | .emitNow e ch =>
    let (t, s1) := s.clockNow
    emitW cap s1 { e with clock := t } ch
  | .jumbo e ch d => emitJumboW cap s e ch d
  | .jumboNow e ch d =>
    let (t, s1) := s.clockNow
    emitJumboW cap s1 { e with clock := t } ch d
  | .flush => flushW cap s
  | .mark k t v => markW cap s k t v
  | op => (step cap s op).map fun s' => (s', [])

def chunkBytes (c : Chunk D) : List Nat := c.flatMap fun r => r.1.encode

/-- The I/O steps of a buffer-model program between `init` and `free`
    (`none` = some call aborts). -/
def writesOf (cap : Nat) (s : St D) : List (Op D) → Option (St D × List PStep)
  | [] => some (s, [])
  | op :: r =>
    match stepW cap s op with
    | none => none
    | some (s', w) =>
      match writesOf cap s' r with
      | none => none
      | some (s'', ps) => some (s'', .io (w.map chunkBytes) :: ps)

end Buffer

end Ovni.Rt.Fs
