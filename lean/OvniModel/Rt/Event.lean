/-
  Event encoding of libovni (include/ovni.h.in, src/rt/ovni.c:
  ovni_payload_size, ovni_payload_add, ovni_ev_size, ovni_ev_set_mcv) and the
  stream decoder of doc/user/runtime/trace_spec.md.

  Bytes are `Nat` values < 256.  Jumbo data is abstract (`JData`) so that the
  executable driver can use a compact pattern while the theorems quantify over
  arbitrary byte strings.
-/
namespace Ovni.Rt

/-- Jumbo data representation: its bytes and its length. -/
class JData (D : Type) where
  bytes : D → List Nat
  len : D → Nat
  len_eq : ∀ d, len d = (bytes d).length

instance : JData (List Nat) := ⟨id, List.length, fun _ => rfl⟩

/-- Little-endian encoding of `v` in `n` bytes (truncating, as a C store does). -/
def le (n : Nat) (v : Nat) : List Nat :=
  match n with
  | 0 => []
  | n + 1 => v % 256 :: le n (v / 256)

/-- Little-endian decoding. -/
def unle : List Nat → Nat
  | [] => 0
  | b :: bs => b + 256 * unle bs

/-- `struct ovni_ev` as the user builds it: `flags` (low nibble = payload size
    code, 0x10 = jumbo), MCV, clock and the 16-byte payload area (only the
    first `payloadSize flags` bytes are meaningful). -/
structure Ev where
  flags : Nat := 0
  m : Nat
  c : Nat
  v : Nat
  clock : Nat
  payload : List Nat := []
deriving DecidableEq, Repr

/-- `ovni_payload_size` for a non-jumbo event: nibble 0 ↦ 0, n ↦ n+1. -/
def payloadSize (flags : Nat) : Nat :=
  let n := flags % 16
  if n = 0 then 0 else n + 1

def isJumbo (flags : Nat) : Bool := (flags / 16) % 2 = 1

/-- `ovni_payload_add` (non-jumbo event): `none` = die().
    die if jumbo flag set, `size < 2`, or no room in the 16 bytes. -/
def payloadAdd (e : Ev) (chunk : List Nat) : Option Ev :=
  if isJumbo e.flags then none
  else if chunk.length < 2 then none
  else
    let psz := payloadSize e.flags
    if psz + chunk.length > 16 then none
    else
      let tot := psz + chunk.length
      some { e with payload := e.payload.take psz ++ chunk,
                    flags := (e.flags / 16) * 16 + (tot - 1) % 16 }

def payloadAddAll (e : Ev) : List (List Nat) → Option Ev
  | [] => some e
  | ch :: chs => match payloadAdd e ch with
    | none => none
    | some e' => payloadAddAll e' chs

/-- A record of the stream: a normal event or a jumbo event with its data. -/
inductive Rec (D : Type) where
  | ev (e : Ev)
  | jumbo (e : Ev) (d : D)     -- `e.flags` has the jumbo bit and nibble 3

/-- Size in bytes of a record in the buffer (`ovni_ev_size` + jumbo data). -/
def Rec.size {D} [JData D] : Rec D → Nat
  | .ev e => 12 + payloadSize e.flags
  | .jumbo _ d => 16 + JData.len d

def Rec.clock {D} : Rec D → Nat
  | .ev e => e.clock
  | .jumbo e _ => e.clock

def Rec.mcv {D} : Rec D → Nat × Nat × Nat
  | .ev e => (e.m, e.c, e.v)
  | .jumbo e _ => (e.m, e.c, e.v)

def headerBytes (e : Ev) : List Nat :=
  [e.flags % 256, e.m % 256, e.c % 256, e.v % 256] ++ le 8 e.clock

/-- The bytes `memcpy`'d into the buffer for a record. -/
def Rec.encode {D} [JData D] : Rec D → List Nat
  | .ev e => headerBytes e ++ e.payload.take (payloadSize e.flags)
  | .jumbo e d => headerBytes e ++ le 4 (JData.len d) ++ JData.bytes d

/-- Stream header: magic "ovni" + version (u32 LE). -/
def streamHeader (magic : List Nat) (version : Nat) : List Nat := magic ++ le 4 version

/-! ### Decoder (trace_spec.md): independent of the encoder -/

/-- Decoded event: flags, m, c, v, clock, payload bytes, jumbo data. -/
structure DecEv where
  flags : Nat
  m : Nat
  c : Nat
  v : Nat
  clock : Nat
  payload : List Nat
  jumbo : Option (List Nat)
deriving DecidableEq, Repr

/-- Decode one event from the front of `bs`; returns the event and the rest. -/
def decodeOne (bs : List Nat) : Option (DecEv × List Nat) :=
  match bs with
  | f :: m :: c :: v :: r =>
    if r.length < 8 then none else
    let clock := unle (r.take 8)
    let r := r.drop 8
    if isJumbo f then
      if r.length < 4 then none else
      let n := unle (r.take 4)
      let r' := r.drop 4
      if r'.length < n then none
      else some (⟨f, m, c, v, clock, r.take 4, some (r'.take n)⟩, r'.drop n)
    else
      let n := payloadSize f
      if r.length < n then none
      else some (⟨f, m, c, v, clock, r.take n, none⟩, r.drop n)
  | _ => none

/-- Decode a whole event area (must tile exactly). Fuel = length bound. -/
def decodeAll : Nat → List Nat → Option (List DecEv)
  | _, [] => some []
  | 0, _ :: _ => none
  | fuel + 1, bs =>
    match decodeOne bs with
    | none => none
    | some (e, rest) =>
      match decodeAll fuel rest with
      | none => none
      | some es => some (e :: es)

def decodeStream (magic : List Nat) (version : Nat) (bs : List Nat) : Option (List DecEv) :=
  if bs.take 8 = streamHeader magic version ∧ 8 ≤ bs.length then decodeAll bs.length (bs.drop 8) else none

/-- What the decoder should return for a record. -/
def Rec.toDec {D} [JData D] : Rec D → DecEv
  | .ev e => ⟨e.flags % 256, e.m % 256, e.c % 256, e.v % 256, e.clock % 2 ^ 64,
              e.payload.take (payloadSize e.flags), none⟩
  | .jumbo e d => ⟨e.flags % 256, e.m % 256, e.c % 256, e.v % 256, e.clock % 2 ^ 64,
              le 4 (JData.len d), some (JData.bytes d)⟩

end Ovni.Rt
