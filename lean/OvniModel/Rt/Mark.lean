/-
  Mark API, runtime side (src/rt/ovni.c: ovni_mark_type, ovni_mark_label,
  ovni_mark_push/pop/set guards) and the metadata it builds under `ovni.mark`.
  `none` = die().
-/
namespace Ovni.Rt.Mark

structure TypeDef where
  type : Int
  title : String
  stack : Bool
  /-- labels in definition order -/
  labels : List (Int × String) := []
deriving DecidableEq, Repr

/-- per-thread metadata: the `ovni.mark` object, types in definition order -/
abbrev Meta := List TypeDef

def find (m : Meta) (t : Int) : Option TypeDef := m.find? (·.type == t)

/-- `ovni_mark_type(type, flags, title)` (thread ready). -/
def markType (m : Meta) (type : Int) (flags : Nat) (title : String) : Option Meta :=
  if type < 0 || type ≥ 100 then none
  else if title.isEmpty then none
  else if (find m type).isSome then none                 -- "already defined"
  else some (m ++ [{ type := type, title := title, stack := flags % 2 = 1 }])

/-- `ovni_mark_label(type, value, label)`. -/
def markLabel (m : Meta) (type : Int) (value : Int) (label : String) : Option Meta :=
  if type < 0 || type ≥ 100 then none
  else if value ≤ 0 then none
  else if label.isEmpty then none
  else match find m type with
    | none => none                                        -- "type not defined"
    | some td =>
      if td.labels.any (·.1 == value) then none           -- "label already defined"
      else some (m.map fun x => if x.type == type then { x with labels := x.labels ++ [(value, label)] } else x)

/-- guard shared by `ovni_mark_push/pop/set`: the event is emitted iff value ≠ 0 -/
def markEmitOk (value : Int) : Bool := value ≠ 0

end Ovni.Rt.Mark
