/-!
# `write_evbuf` under an arbitrary short-write schedule (src/rt/ovni.c)

```c
static void write_evbuf(uint8_t *buf, size_t size)
{
	do {
		ssize_t written = write(rthread.streamfd, buf, size);
		if (written < 0)
			die("failed to write buffer to disk:");
		size -= (size_t) written;
		buf += (size_t) written;
	} while (size > 0);
}
```

`Rt/Buffer.lean` (C01) hands complete buffers to the file and `Rt/Fs.lean` (C09/C10)
knows one kind of short count (the first half).  Here the operating system is an
*oracle*: a list of answers, one per `write` call, each either an error or a
count of its own choosing (`write` never transfers more than it was asked to:
the count is clamped to the request).  The loop is the C loop: a `do … while`,
so `write` is called once even for an empty buffer.

No Mathlib; everything is computable (`drv_rt` replays the call log of the real
library through `replay`).
-/
namespace Ovni.Rt.WriteLoop

/-- what one `write(fd, buf, size)` answers -/
inductive Ret where
  /-- `-1` with some errno -/
  | err
  /-- the kernel transferred `min k size` bytes -/
  | count (k : Nat)
deriving Repr, DecidableEq

/-- one logged call: bytes requested, bytes transferred (`none` = error) -/
abbrev Call := Nat × Option Nat

inductive Out where
  /-- the loop ended: file content, call log -/
  | done (file : List Nat) (log : List Call)
  /-- `die()`: file content at that moment, call log -/
  | died (file : List Nat) (log : List Call)
  /-- the oracle has no further answer (the run is still inside the loop): file, rest of the buffer, log -/
  | running (file rest : List Nat) (log : List Call)
deriving Repr, DecidableEq

/-- prepend a call to the log of an outcome -/
def Out.cons (c : Call) : Out → Out
  | .done f l => .done f (c :: l)
  | .died f l => .died f (c :: l)
  | .running f r l => .running f r (c :: l)

/-- `write_evbuf(buf, size)` appending to `file`. -/
def loop : List Ret → (file buf : List Nat) → Out
  | [], file, buf => .running file buf []
  | .err :: _, file, buf => .died file [(buf.length, none)]
  | .count k :: rest, file, buf =>
    let k' := min k buf.length
    if buf.length - k' = 0 then .done (file ++ buf.take k') [(buf.length, some k')]
    else (loop rest (file ++ buf.take k') (buf.drop k')).cons (buf.length, some k')

/-- `write_evbuf` -/
def writeEvbuf (o : List Ret) (file buf : List Nat) : Out := loop o file buf

/-- file content of an outcome -/
def Out.file : Out → List Nat
  | .done f _ => f
  | .died f _ => f
  | .running f _ _ => f

def Out.log : Out → List Call
  | .done _ l => l
  | .died _ l => l
  | .running _ _ l => l

def Out.isDone : Out → Bool
  | .done _ _ => true
  | _ => false

/-- what a loop that is still running owes -/
def Out.rest : Out → Option (List Nat)
  | .running _ r _ => some r
  | _ => none

/-! ### replaying the call log of the real library

The harness logs every `write` on the stream descriptor as (requested,
transferred).  `replay` walks that log with the loop's own bookkeeping: inside a
loop the next request must be exactly what the loop still owes; a transfer
larger than the request is impossible; outside a loop any request opens one; an
error ends the run (`die`). -/

inductive Verdict where
  | ok (loops : Nat) (bytes : Nat)
  /-- the `i`-th call asks for `got` bytes where the loop owes `want` -/
  | mismatch (i : Nat) (want got : Nat)
  /-- the `i`-th call transferred more than it asked for -/
  | overrun (i : Nat)
  /-- the log ends inside a loop that still owes `owed` bytes -/
  | unfinished (owed : Nat)
  /-- the `i`-th call failed: `die`; calls after it are a mismatch of the abort policy -/
  | aborted (i : Nat) (clean : Bool)
deriving Repr, DecidableEq

def replayAux : List Call → (owed : Option Nat) → (i loops bytes : Nat) → Verdict
  | [], none, _, loops, bytes => .ok loops bytes
  | [], some owed, _, _, _ => .unfinished owed
  | (n, r) :: rest, owed, i, loops, bytes =>
    if owed.isSome ∧ owed ≠ some n then .mismatch i (owed.getD 0) n
    else match r with
      | none => .aborted i rest.isEmpty
      | some k =>
        if k > n then .overrun i
        else if n - k = 0 then replayAux rest none (i + 1) (loops + 1) (bytes + k)
        else replayAux rest (some (n - k)) (i + 1) loops (bytes + k)

def replay (log : List Call) : Verdict := replayAux log none 0 0 0

/-! ### a whole run: one loop per `flush_evbuf`

The stream file of a thread is written by successive calls of `write_evbuf`
(the header, then every flushed buffer); each has its own answers. -/

/-- `none`: some loop aborted or did not end with the answers it was given -/
def writeAll : List (List Ret) → List (List Nat) → (file : List Nat) → Option (List Nat)
  | _, [], file => some file
  | [], _ :: _, _ => none
  | o :: os, b :: bs, file =>
    match writeEvbuf o file b with
    | .done f _ => writeAll os bs f
    | _ => none

/-! ### the variants that seeded changes C01-1 / C01-3 / C10-1 introduced (witnesses only) -/

/-- C01-1: a short write is retried from the start of the buffer -/
def loopRetryFromStart : List Ret → (file buf : List Nat) → (size : Nat) → Out
  | [], file, buf, _ => .running file buf []
  | .err :: _, file, _, _ => .died file []
  | .count k :: rest, file, buf, size =>
    let k' := min k size
    if size - k' = 0 then .done (file ++ buf.take k') []
    else loopRetryFromStart rest (file ++ buf.take k') buf (size - k')

end Ovni.Rt.WriteLoop
