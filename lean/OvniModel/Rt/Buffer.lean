import OvniModel.Rt.Event

/-
  The per-thread staging buffer of libovni (src/rt/ovni.c): rthread.evbuf /
  rthread.evlen, write_stream_header, flush_evbuf, ovni_ev_add,
  ovni_ev_add_jumbo, add_flush_events, ovni_flush, the mark emitters and the
  clock.  `cap` = OVNI_MAX_EV_BUF is a parameter.

  The buffer holds records; `evlen` is the C variable (bookkeeping proved equal
  to the encoded length).  `none` = die() (abort).
-/
namespace Ovni.Rt

/-- Who produced a record: the user's call or the library's flush marker. -/
inductive Origin where
  | user
  | lib
deriving DecidableEq, Repr

structure St (D : Type) where
  ready : Bool := false
  finished : Bool := false
  evlen : Nat := 0
  /-- contents of `evbuf[0, evlen)`, oldest first -/
  buf : List (Rec D × Origin) := []
  /-- whether the 8 header bytes are in the buffer (only inside thread_init) / on disk -/
  hdrOnDisk : Bool := false
  /-- records written to the stream file, oldest first -/
  disk : List (Rec D × Origin) := []
  /-- deterministic clock: next reading and increment -/
  now : Nat := 0
  tick : Nat := 1
  /-- number of `write_evbuf` calls (flushes) so far -/
  nflush : Nat := 0

variable {D : Type} [JData D]

/-- `ovni_clock_now()`. -/
def St.clockNow (s : St D) : Nat × St D := (s.now, { s with now := s.now + s.tick })

/-- `flush_evbuf`: write `evbuf[0, evlen)` to the file, `evlen = 0`. -/
def St.flushBuf (s : St D) : St D :=
  { s with disk := s.disk ++ s.buf, buf := [], evlen := 0, nflush := s.nflush + 1 }

/-- the two `memcpy`s + `evlen +=`. -/
def St.append (s : St D) (r : Rec D) (o : Origin) : St D :=
  { s with buf := s.buf ++ [(r, o)], evlen := s.evlen + r.size }

def markerOpen (clock : Nat) : Rec D := .ev { m := 79, c := 70, v := 91, clock := clock }   -- "OF["
def markerClose (clock : Nat) : Rec D := .ev { m := 79, c := 70, v := 93, clock := clock }  -- "OF]"

/-- `t0 = clock(); flush_evbuf(); t1 = clock();` then the `memcpy` of the
    record (the readings are `s.now` and `s.now + s.tick`). -/
def forcedFlush (s : St D) (r : Rec D) (o : Origin) : St D :=
  ((s.clockNow.2.flushBuf).clockNow.2).append r o

/-- `add_flush_events`: flush once more when the two 12-byte markers would not
    both fit. -/
def makeRoom (cap : Nat) (s : St D) : St D :=
  if s.evlen + 24 ≥ cap then s.flushBuf else s

/-- `ovni_ev_add` (for a normal event) and the tail of `ovni_ev_add_jumbo`
    (for a jumbo record): flush first if it does not fit, copy, then
    `add_flush_events` (which makes room, then re-enters `ovni_ev_add` for each
    marker).  `fuel` bounds the re-entrancy depth (shown sufficient in Lemmas). -/
def evAdd (cap : Nat) : Nat → St D → Rec D → Origin → Option (St D)
  | 0, _, _, _ => none
  | fuel + 1, s, r, o =>
    if !s.ready then none
    else if s.evlen + r.size ≥ cap then
      match evAdd cap fuel (makeRoom cap (forcedFlush s r o)) (markerOpen s.now) .lib with
      | none => none
      | some s5 => evAdd cap fuel s5 (markerClose (s.now + s.tick)) .lib
    else some (s.append r o)

/-- Re-entrancy depth that always suffices when `cap > 52` (see Lemmas). -/
def addFuel : Nat := 4

/-- `ovni_ev_emit(ev)` after the user's `ovni_payload_add` calls. -/
def emit (cap : Nat) (s : St D) (e : Ev) (chunks : List (List Nat)) : Option (St D) :=
  match payloadAddAll e chunks with
  | none => none
  | some e' => evAdd cap addFuel s (.ev e') .user

/-- The record `ovni_ev_add_jumbo` builds, with its guards ("the event payload
    must be empty", the u32 size added as payload, "event too large"), before
    it is copied into the buffer. -/
def jumboRec (cap : Nat) (e : Ev) (chunks : List (List Nat)) (d : D) : Option (Rec D) :=
  match payloadAddAll e chunks with
  | none => none
  | some e1 =>
    if payloadSize e1.flags ≠ 0 then none
    else
      match payloadAdd e1 (le 4 (JData.len d)) with
      | none => none
      | some e2 =>
        if (12 + payloadSize e2.flags) + JData.len d ≥ cap then none
        else some (.jumbo { e2 with flags := e2.flags + 16 } d)   -- |= OVNI_EV_JUMBO (bit was clear)

/-- `ovni_ev_jumbo_emit(ev, buf, bufsize)`. -/
def emitJumbo (cap : Nat) (s : St D) (e : Ev) (chunks : List (List Nat)) (d : D) : Option (St D) :=
  if !s.ready then none else
  match jumboRec cap e chunks d with
  | none => none
  | some r => evAdd cap addFuel s r .user

/-- `ovni_flush()`: `pre.clock = now; flush_evbuf(); post.clock = now;` then
    both markers through `ovni_ev_add`. -/
def flush (cap : Nat) (s : St D) : Option (St D) :=
  if !s.ready then none else
  match evAdd cap addFuel ((s.clockNow.2.flushBuf).clockNow.2) (markerOpen s.now) .lib with
  | none => none
  | some s4 => evAdd cap addFuel s4 (markerClose (s.now + s.tick)) .lib

/-- two's complement bytes of a signed value -/
def sle (n : Nat) (v : Int) : List Nat := le n (v % (256 ^ n : Int)).toNat

/-- `ovni_mark_push/pop/set`: kind = '[' 91, ']' 93, '=' 61. -/
def mark (cap : Nat) (s : St D) (kind : Nat) (type value : Int) : Option (St D) :=
  if value = 0 then none else
  let (t, s1) := s.clockNow
  emit cap s1 { m := 79, c := 77, v := kind, clock := t } [sle 8 value, sle 4 type]

/-- `ovni_thread_init`: header written through the buffer and flushed. -/
def threadInit (s : St D) : Option (St D) :=
  if s.ready then some s                 -- "already initialized, ignored"
  else if s.finished then none
  else some { s with ready := true, evlen := 0, buf := [], hdrOnDisk := true, nflush := s.nflush + 1 }

/-- `ovni_thread_free`: the buffer is *not* flushed. -/
def threadFree (s : St D) : Option (St D) :=
  if s.finished then none
  else if !s.ready then none
  else some { s with ready := false, finished := true }

inductive Op (D : Type) where
  | init
  | emit (e : Ev) (chunks : List (List Nat))       -- explicit clock in `e`
  | emitNow (e : Ev) (chunks : List (List Nat))    -- clock := ovni_clock_now()
  | jumbo (e : Ev) (chunks : List (List Nat)) (d : D)
  | jumboNow (e : Ev) (chunks : List (List Nat)) (d : D)
  | flush
  | mark (kind : Nat) (type value : Int)
  | setTick (n : Nat)                              -- environment: clock speed
  | metaOp                                         -- metadata-only API call (cpu, require, attr, mark type/label)
  | free

def step (cap : Nat) (s : St D) : Op D → Option (St D)
  | .init => threadInit s
  | .emit e ch => emit cap s e ch
  | .emitNow e ch =>
    let (t, s1) := s.clockNow
    emit cap s1 { e with clock := t } ch
  | .jumbo e ch d => emitJumbo cap s e ch d
  | .jumboNow e ch d =>
    let (t, s1) := s.clockNow
    emitJumbo cap s1 { e with clock := t } ch d
  | .flush => flush cap s
  | .mark k t v => mark cap s k t v
  | .setTick n => some { s with tick := n }
  | .metaOp => if s.ready then some s else none
  | .free => threadFree s

/-- Run a program; `none` = the process aborted somewhere. -/
def run (cap : Nat) (s : St D) : List (Op D) → Option (St D)
  | [] => some s
  | op :: ops => match step cap s op with
    | none => none
    | some s' => run cap s' ops

/-- Run as far as possible: the state at the abort point (what is on disk
    after a die()) and whether the program completed. -/
def runPartial (cap : Nat) (s : St D) : List (Op D) → St D × Bool
  | [] => (s, true)
  | op :: ops => match step cap s op with
    | none => (s, false)
    | some s' => runPartial cap s' ops

/-- Bytes of the stream file. -/
def St.diskBytes (magic : List Nat) (version : Nat) (s : St D) : List Nat :=
  (if s.hdrOnDisk then streamHeader magic version else []) ++ s.disk.flatMap (fun r => r.1.encode)

def St.bufBytes (s : St D) : List Nat := s.buf.flatMap (fun r => r.1.encode)

end Ovni.Rt
