import OvniModel.Rt.Fs

/-
  `ovni_thread_free` and the relocation as they were BEFORE the repairs
  `fix: relocate stream.obs before stream.json` and `fix: check the relocation
  and close(streamfd)`: the files of the thread directory are copied in readdir
  order, fread/fwrite/fclose results are ignored and `remove(src)` follows,
  opendir / fopen failures only err() and return, `close(streamfd)` is not
  checked.  Kept only for the witnesses of the negated C09 / C10 statements
  (as `Props/C02.lean` keeps `evAddOld`).
-/
namespace Ovni.Rt.Fs.Old
open Ovni.Rt Ovni.Rt.Fs

def inMove : Site → Bool
  | .moveOpendir | .moveReaddir | .moveFopenSrc | .moveFopenDst | .moveFread | .moveFwrite
  | .moveFcloseOut | .moveFcloseIn | .moveRemove | .moveClosedir => true
  | _ => false

/-- Call sites whose failure the old code neither turned into an abort nor
    into a retry, although the failure means data did not reach its
    destination. -/
def unchecked : Site → Bool
  | .closeStream | .moveOpendir | .moveReaddir | .moveFopenSrc | .moveFopenDst | .moveFread
  | .moveFwrite | .moveFcloseOut => true
  | _ => false

/-- The loop body of the old `move_thdir_to_final` for one directory entry
    (entries not starting with "stream." are skipped). -/
def entryCalls (tid : Nat) (content : FName → List Nat) (g : Nat) : DirEnt → List Call
  | .f n => ⟨.moveReaddir, g, .readdir (some (.f n))⟩ :: moveFileCalls g tid n (content n)
  | e => [⟨.moveReaddir, g, .readdir (some e)⟩]

def entriesCalls (tid : Nat) (content : FName → List Nat) : Nat → List DirEnt → List Call
  | _, [] => []
  | g, e :: es => entryCalls tid content g e ++ entriesCalls tid content (g + 1) es

/-- Old `move_thdir_to_final(thdir, thdir_final)`: opendir, readdir loop, closedir. -/
def moveDirCalls (order : List DirEnt) (tid : Nat) (content : FName → List Nat) : List Call :=
  [⟨.moveOpendir, 0, .opendir (.thread .tmp tid)⟩]
  ++ entriesCalls tid content 1 order
  ++ [⟨.moveReaddir, 0, .readdir none⟩, ⟨.moveClosedir, 0, .closedir⟩]

def relocCalls (ser : Meta → List Nat) (p : Prog) (t : ThreadProg) (obs : List Nat) : List Call :=
  if p.tmpMode then
    moveDirCalls p.order t.tid (fun n => match n with | .obs => obs | .json => ser ⟨true, t.metaF⟩)
    ++ [⟨.cleanRmdir, 0, .rmdir (.thread .tmp t.tid)⟩]
  else []

def threadFreeCalls (ser : Meta → List Nat) (p : Prog) (t : ThreadProg) : List Call :=
  storeCalls p.wr t.tid (ser ⟨true, t.metaF⟩)
  ++ [⟨.closeStream, 0, .close p.wr t.tid t.lastLen⟩]
  ++ relocCalls ser p t t.obsBytes

def threadCalls (ser : Meta → List Nat) (p : Prog) (t : ThreadProg) : List Call :=
  threadInitCalls ser p t
  ++ t.steps.flatMap (stepCalls ser p t.tid)
  ++ (if t.free then threadFreeCalls ser p t else [])

def calls (ser : Meta → List Nat) (p : Prog) : List Call :=
  procInitCalls p ++ p.threads.flatMap (threadCalls ser p) ++ procFiniCalls p

/-- The thread with this tid. -/
def threadOf (p : Prog) (tid : Nat) : Option ThreadProg := p.threads.find? (·.tid = tid)

/-- What the old code did after call `c` failed. -/
def cont (ser : Meta → List Nat) (p : Prog) (c : Call) (f : Fault) (rest : List Call) : Cont :=
  match c.site with
  | .mkdirPath | .statPath | .openStream | .storeFopen | .storeFclose => .die []
  | .writeStream =>
    match c.op, f with
    | .write r t d, .short => .go (⟨.writeStream, 0, .write r t (d.drop (d.length / 2))⟩ :: rest)
    | _, _ => .die []
  | .storeFputs =>
    match c.op with
    | .fputs q _ => .die [⟨.storeFclose, 0, .fcloseW q⟩]
    | _ => .die []
  | .closeStream =>
    -- result ignored; the relocation then sees a stream.obs without its last write
    match c.op with
    | .close _ t last =>
      match threadOf p t with
      | some tp =>
        let full := relocCalls ser p tp tp.obsBytes
        .go (relocCalls ser p tp (dropLast tp.obsBytes last) ++ rest.drop full.length)
      | none => .go rest
    | _ => .go rest
  | .moveOpendir => .go (rest.dropWhile (inMove ·.site))    -- err(), return before the loop and closedir
  | .moveReaddir => .go (rest.dropWhile (fun x => inMove x.site && x.site != .moveClosedir))
  | .moveFopenSrc | .moveFopenDst => .go (rest.dropWhile (fun x => x.grp == c.grp && inMove x.site && x.site != .moveReaddir))
  | .moveFread => .go (rest.dropWhile (fun x => x.site == .moveFread || x.site == .moveFwrite))
  | .moveFwrite | .moveFcloseOut | .moveFcloseIn | .moveRemove | .moveClosedir | .cleanRmdir => .go rest

def faultAt (ser : Meta → List Nat) (p : Prog) (i : Nat) (f : Fault) (kept : Nat := 0) : Outcome :=
  let cs := calls ser p
  match cs[i]? with
  | none => .returned (run p.init (ops cs))
  | some c =>
    if fires c.op f then
      let s := applyFailed (run p.init (ops (cs.take i))) kept c.op f
      match cont ser p c f (cs.drop (i + 1)) with
      | .die extra => .die (run s (ops extra))
      | .go rest => .returned (run s (ops rest))
    else .returned (run p.init (ops cs))

/-- The file system when the old code is killed after `k` completed calls. -/
def crashState (C : Codec) (p : Prog) (k : Nat) : Fs := run p.init (ops ((calls C.ser p).take k))

end Ovni.Rt.Fs.Old
