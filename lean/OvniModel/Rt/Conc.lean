import OvniModel.Rt.Buffer
import OvniModel.Generated.Footprint

/-
  Interleaving semantics of libovni (src/rt/ovni.c) for C11.

  * `Glob`  = the process-wide `struct ovni_rproc rproc`: `st` (atomic_int,
    ST_UNINIT/INIT/READY/GONE) and the plain fields set by `ovni_proc_init`.
  * `TLoc`  = the `_Thread_local struct ovni_rthread rthread` of one thread:
    the stream part is `Rt.St` of `Rt/Buffer.lean`, plus tid, cpus, rank and
    the JSON metadata (an ordered key/value list, as parson keeps it).
  * `FS`    = the files `thread.<tid>/stream.obs` and `thread.<tid>/stream.json`
    keyed by the tid that appears in their path.
  * every API call (`Call`) is expanded (`expand`) to a short list of atomic
    `Step`s: the accesses to `rproc.st` and the writes of `rproc` members are
    NOT written by hand, they are built from the footprint table regenerated
    from the C source (`Generated/Footprint.lean`); then the thread-local
    update and the file operation on the thread's own path.
  * a schedule is a list of thread indices; `tick i` lets thread `i` perform
    its next step.  Every list is a schedule: all interleavings.

  `die()` = abort(): in the model the calling thread becomes `dead` and the
  others go on (a superset of the real behaviours, where the whole process
  stops at that point: every real execution is a prefix of a modelled one).
-/
namespace Ovni.Rt.Conc
open Ovni.Rt
namespace F
export Ovni.Generated.Footprint (stUninit stInit stReady stGone kLoad kStore kCas kUnknown kMemberWrite)
end F

/-- `rproc.st`. -/
inductive PSt where
  | uninit | init | ready | gone
deriving DecidableEq, Repr

/-- Decode an `ST_*` value of the generated table. -/
def PSt.ofRaw (n : Nat) : Option PSt :=
  if n = F.stUninit then some .uninit
  else if n = F.stInit then some .init
  else if n = F.stReady then some .ready
  else if n = F.stGone then some .gone
  else none

/-- One access to `rproc.st` together with the guard that follows it in the C
    code: a load is compared with a constant (`die` when different; `none` =
    the value is not compared), a failed compare-exchange dies. -/
inductive StOp where
  | load (expect : Option PSt)
  | store (v : PSt)
  | cas (expected desired : PSt)
  | unknown
deriving DecidableEq, Repr

def StOp.ofRaw : Nat × Nat × Nat → StOp
  | (k, a, b) =>
    if k = F.kLoad then .load (PSt.ofRaw a)
    else if k = F.kStore then
      match PSt.ofRaw a with
      | some v => .store v
      | none => .unknown
    else if k = F.kCas then
      match PSt.ofRaw a, PSt.ofRaw b with
      | some e, some d => .cas e d
      | _, _ => .unknown
    else .unknown

/-- The plain members of `rproc` that reach a thread's metadata and paths
    (`loom` abstracted to a number). -/
structure Proc where
  app : Nat := 0
  pid : Nat := 0
  loom : Nat := 0
  moveToFinal : Bool := false
deriving DecidableEq, Repr

/-- A plain store to one member (`src` = the values the writer stores).
    Members that are functions of these (the directory paths, clockid) do not
    change the modelled state. -/
def Proc.set (p : Proc) (member : String) (src : Proc) : Proc :=
  if member = "app" then { p with app := src.app }
  else if member = "pid" then { p with pid := src.pid }
  else if member = "loom" then { p with loom := src.loom }
  else if member = "move_to_final" then { p with moveToFinal := src.moveToFinal }
  else p

structure Glob where
  st : PSt := .uninit
  proc : Proc := {}
deriving DecidableEq, Repr

/-- `rthread`. -/
structure TLoc (D : Type) where
  tid : Nat := 0
  s : St D := {}
  md : List (String × String) := []
  cpus : List (Nat × Nat) := []
  rank : Option (Nat × Nat) := none

/-- parson `json_object_dotset_*`: replace in place or append. -/
def setKV (m : List (String × String)) (k v : String) : List (String × String) :=
  if m.any (·.1 = k) then m.map (fun e => if e.1 = k then (k, v) else e) else m ++ [(k, v)]

inductive FKind where
  | obs | json
deriving DecidableEq, Repr

inductive File (D : Type) where
  | obs (hdr : Bool) (recs : List (Rec D × Origin))
  | json (kv : List (String × String))

/-- The trace directory of the process: `thread.<tid>/stream.{obs,json}`. -/
abbrev FS (D : Type) := Nat → FKind → Option (File D)

def FS.write {D} (fs : FS D) (w : Option (Nat × FKind × File D)) : FS D :=
  match w with
  | none => fs
  | some (tid, k, f) => fun t' k' => if t' = tid ∧ k' = k then some f else fs t' k'

/-- Thread-local part of an API call. Reads `rproc` members (never `st`),
    updates `rthread`. `none` = die(). -/
inductive LocOp (D : Type) where
  /-- `memset(&rthread, 0, …); rthread.tid = tid` (`tid == 0` dies) -/
  | initTid (tid : Nat)
  /-- the stream part: `Rt.step` of `Rt/Buffer.lean` -/
  | buf (op : Op D)
  /-- `thread_metadata_populate`: reads `rproc.pid`, `rproc.loom`, `rproc.app` -/
  | populate
  /-- `json_object_dotset_*` on `rthread.meta` through `get_thread_metadata` -/
  | metaSet (k v : String)
  /-- `ovni_add_cpu` -/
  | cpu (index phyid : Nat)
  /-- `ovni_proc_set_rank` -/
  | rank (r n : Nat)
  /-- `if (rthread.finished) die; if (!rthread.ready) die;` -/
  | guard
  /-- `ovni_thread_free`: rank, cpus and `ovni.finished` into the metadata -/
  | finiMeta

variable {D : Type} [JData D]

def LocOp.run (cap : Nat) (p : Proc) (t : TLoc D) : LocOp D → Option (TLoc D)
  | .initTid tid =>
    if tid = 0 then none
    else some { t with tid := tid, md := [], cpus := [], rank := none }
  | .buf op => (step cap t.s op).map fun s' => { t with s := s' }
  | .populate =>
    some { t with md := [("version", "meta"), ("ovni.lib.version", "lib"), ("ovni.lib.commit", "commit"),
                           ("ovni.part", "thread"), ("ovni.tid", toString t.tid),
                           ("ovni.pid", toString p.pid), ("ovni.loom", toString p.loom),
                           ("ovni.app_id", toString p.app)] }
  | .metaSet k v =>
    if t.s.finished then none else if !t.s.ready then none
    else some { t with md := setKV t.md k v }
  | .cpu i ph =>
    if !t.s.ready then none else some { t with cpus := t.cpus ++ [(i, ph)] }
  | .rank r n =>
    if !t.s.ready then none else some { t with rank := some (r, n) }
  | .guard =>
    if t.s.finished then none else if !t.s.ready then none else some t
  | .finiMeta =>
    if t.s.finished then none else if !t.s.ready then none
    else
      let m1 := match t.rank with
        | some (r, n) => setKV (setKV t.md "ovni.rank" (toString r)) "ovni.nranks" (toString n)
        | none => t.md
      let m2 := if t.cpus.isEmpty then m1 else setKV m1 "ovni.loom_cpus" (toString t.cpus)
      some { t with md := setKV m2 "ovni.finished" "1" }

/-- One atomic step of a thread. -/
inductive Step (D : Type) where
  /-- one access to the shared `rproc.st` -/
  | st (op : StOp)
  /-- plain store to a member of the shared `rproc` -/
  | procWrite (member : String) (src : Proc)
  /-- thread-local computation -/
  | loc (f : LocOp D)
  /-- the `write()`s so far have reached `thread.<tid>/stream.obs` -/
  | fsObs
  /-- `json_serialize_to_file_pretty(rthread.meta, thread.<tid>/stream.json)` -/
  | fsJson

/-- API calls. -/
inductive Call (D : Type) where
  | procInit (a : Proc)
  | procFini
  | threadInit (tid : Nat)
  | threadFree
  /-- `ovni_ev_emit`, `ovni_ev_jumbo_emit`, `ovni_mark_push/pop/set`, `ovni_flush` (and the clock speed) -/
  | stream (op : Op D)
  | addCpu (index phyid : Nat)
  | setRank (r n : Nat)
  | require (model version : String)
  | attrSet (key json : String)
  | attrFlush

/-! ### The step lists come from the generated footprint -/

/-- The generated tables (`Generated/Footprint.lean`): per function the
    members written and the ordered `st` operations; per function the ordered
    shared events. -/
structure Foot where
  table : List (String × List String × List String × Bool × List (Nat × Nat × Nat))
  order : List (String × List (Nat × Nat × Nat × String))

def Foot.generated : Foot := ⟨Ovni.Generated.Footprint.table, Ovni.Generated.Footprint.order⟩

/-- Ordered `rproc.st` operations of a function (a function missing from the
    table is an unknown access). -/
def Foot.ops (fp : Foot) (f : String) : List (Nat × Nat × Nat) :=
  match fp.table.find? (·.1 = f) with
  | some r => r.2.2.2.2
  | none => [(F.kUnknown, 0, 0)]

def Foot.writes (fp : Foot) (f : String) : List String :=
  match fp.table.find? (·.1 = f) with
  | some r => r.2.2.1
  | none => ["*"]

def Foot.events (fp : Foot) (f : String) : List (Nat × Nat × Nat × String) :=
  match fp.order.find? (·.1 = f) with
  | some r => r.2
  | none => [(F.kUnknown, 0, 0, "st")]

/-- One generated shared event as a step. -/
def toStep (src : Proc) : Nat × Nat × Nat × String → Step D
  | (k, a, b, m) => if k = F.kMemberWrite then .procWrite m src else .st (StOp.ofRaw (k, a, b))

/-- The shared part of a thread-level API function: its `st` operations, then a
    store for every `rproc` member the table says it writes. -/
def Foot.shared (fp : Foot) (f : String) (src : Proc) : List (Step D) :=
  (fp.ops f).map (fun r => Step.st (StOp.ofRaw r)) ++ (fp.writes f).map (fun m => Step.procWrite m src)

/-- The shared events of `ovni_proc_init` / `ovni_proc_fini` in source order. -/
def Foot.ordered (fp : Foot) (f : String) (src : Proc) : List (Step D) :=
  (fp.events f).map (toStep src)

/-- What a function that is not supposed to write `rproc` would store (only
    matters for a table that says it does). -/
def havoc (t : TLoc D) : Proc := { app := t.tid, pid := t.tid, loom := t.tid, moveToFinal := true }

/-- The C function behind a stream operation. -/
def opName : Op D → String
  | .init => "ovni_thread_init"
  | .emit _ _ => "ovni_ev_emit"
  | .emitNow _ _ => "ovni_ev_emit"
  | .jumbo _ _ _ => "ovni_ev_jumbo_emit"
  | .jumboNow _ _ _ => "ovni_ev_jumbo_emit"
  | .flush => "ovni_flush"
  | .mark k _ _ => if k = 91 then "ovni_mark_push" else if k = 93 then "ovni_mark_pop" else "ovni_mark_set"
  | .setTick _ => "ovni_ev_get_clock"
  | .metaOp => "ovni_attr_set_json"
  | .free => "ovni_thread_free"

/-- The atomic steps of one call (the thread-local tests that come before the
    first shared access are evaluated here: `ovni_thread_init` on a ready
    thread returns at once). -/
def expand (fp : Foot) (t : TLoc D) : Call D → List (Step D)
  | .procInit a => fp.ordered "ovni_proc_init" a
  | .procFini => fp.ordered "ovni_proc_fini" {}
  | .threadInit tid =>
    if t.s.ready then []
    else fp.shared "ovni_thread_init" (havoc t) ++
      [.loc (.initTid tid), .loc (.buf .init), .fsObs, .loc .populate, .fsJson,
       .loc (.metaSet "ovni.require.ovni" "model")]
  | .threadFree => fp.shared "ovni_thread_free" (havoc t) ++ [.loc .finiMeta, .fsJson, .loc (.buf .free)]
  | .stream op => fp.shared (opName op) (havoc t) ++ [.loc (.buf op), .fsObs]
  | .addCpu i ph => fp.shared "ovni_add_cpu" (havoc t) ++ [.loc (.cpu i ph)]
  | .setRank r n => fp.shared "ovni_proc_set_rank" (havoc t) ++ [.loc (.rank r n)]
  | .require m v => fp.shared "ovni_thread_require" (havoc t) ++ [.loc (.metaSet ("ovni.require." ++ m) v)]
  | .attrSet k v => fp.shared "ovni_attr_set_json" (havoc t) ++ [.loc (.metaSet k v)]
  | .attrFlush => fp.shared "ovni_attr_flush" (havoc t) ++ [.loc .guard, .fsJson]

/-! ### Threads, configurations, ticks -/

structure Thr (D : Type) where
  t : TLoc D := {}
  /-- remaining steps of the call in progress -/
  pend : List (Step D) := []
  /-- calls not yet started -/
  calls : List (Call D) := []
  /-- reached die() -/
  dead : Bool := false
  /-- ghost: compare-exchanges on `rproc.st` this thread won -/
  wins : Nat := 0

structure Cfg (D : Type) where
  g : Glob := {}
  fs : FS D := fun _ _ => none
  th : Nat → Thr D

def upd {α : Type} (f : Nat → α) (i : Nat) (v : α) : Nat → α := fun j => if j = i then v else f j

/-- What one tick of a thread does: new shared state, new own state, at most
    one file written. It is a function of the shared state and the thread's
    own state only. -/
structure Eff (D : Type) where
  g : Glob
  x : Thr D
  w : Option (Nat × FKind × File D) := none

/-- Execute step `s`; `x` already has `s` removed from `pend`. -/
def stepEff (cap : Nat) (g : Glob) (x : Thr D) : Step D → Eff D
  | .st (.load e) =>
    match e with
    | none => ⟨g, x, none⟩
    | some v => if g.st = v then ⟨g, x, none⟩ else ⟨g, { x with dead := true }, none⟩
  | .st (.store v) => ⟨{ g with st := v }, x, none⟩
  | .st (.cas e d) =>
    if g.st = e then ⟨{ g with st := d }, { x with wins := x.wins + 1 }, none⟩
    else ⟨g, { x with dead := true }, none⟩
  | .st .unknown => ⟨g, x, none⟩
  | .procWrite m src => ⟨{ g with proc := g.proc.set m src }, x, none⟩
  | .loc f =>
    match f.run cap g.proc x.t with
    | none => ⟨g, { x with dead := true }, none⟩
    | some t' => ⟨g, { x with t := t' }, none⟩
  | .fsObs => ⟨g, x, some (x.t.tid, .obs, .obs x.t.s.hdrOnDisk x.t.s.disk)⟩
  | .fsJson => ⟨g, x, some (x.t.tid, .json, .json x.t.md)⟩

/-- One tick of a thread: next pending step, or start the next call, or nothing. -/
def tickEff (fp : Foot) (cap : Nat) (g : Glob) (x : Thr D) : Eff D :=
  if x.dead then ⟨g, x, none⟩ else
  match x.pend with
  | s :: r => stepEff cap g { x with pend := r } s
  | [] =>
    match x.calls with
    | [] => ⟨g, x, none⟩
    | k :: ks => ⟨g, { x with pend := expand fp x.t k, calls := ks }, none⟩

def tick (fp : Foot) (cap : Nat) (c : Cfg D) (i : Nat) : Cfg D :=
  let e := tickEff fp cap c.g (c.th i)
  { g := e.g, fs := c.fs.write e.w, th := upd c.th i e.x }

/-- Run a schedule (any list of thread indices). -/
def runSched (fp : Foot) (cap : Nat) (c : Cfg D) (σ : List Nat) : Cfg D :=
  σ.foldl (tick fp cap) c

/-- A thread has nothing left to do. -/
def Thr.done (x : Thr D) : Prop := x.dead = true ∨ (x.pend = [] ∧ x.calls = [])

/-- The same configuration with every thread but `i` stopped. -/
def solo (c : Cfg D) (i : Nat) : Cfg D :=
  { c with th := fun j => if j = i then c.th j else { (c.th j) with pend := [], calls := [] } }

/-! ### Decidable conditions on the generated table -/

def isLoadRaw (r : Nat × Nat × Nat) : Bool :=
  match StOp.ofRaw r with
  | .load _ => true
  | _ => false

/-- The thread-level functions the model expands. -/
def threadFns : List String :=
  ["ovni_thread_init", "ovni_thread_free", "ovni_ev_emit", "ovni_ev_jumbo_emit", "ovni_flush",
   "ovni_mark_push", "ovni_mark_pop", "ovni_mark_set", "ovni_ev_get_clock", "ovni_attr_set_json",
   "ovni_add_cpu", "ovni_proc_set_rank", "ovni_thread_require", "ovni_attr_flush"]

/-- A thread-level function only loads `rproc.st` and writes no `rproc` member. -/
def Foot.fnOK (fp : Foot) (f : String) : Bool := (fp.ops f).all isLoadRaw && (fp.writes f).isEmpty

def Foot.threadOK (fp : Foot) : Bool := threadFns.all fp.fnOK

/-- A later step of the winner never puts `from` back and cannot die. -/
def quietRaw (frm : PSt) (r : Nat × Nat × Nat × String) : Bool :=
  if r.1 = F.kMemberWrite then true
  else match StOp.ofRaw (r.1, r.2.1, r.2.2.1) with
    | .store v => v != frm
    | _ => false

/-- The ordered events begin with `compare_exchange(from → to)`; nothing later
    restores `from`. -/
def raceShapeRaw (frm to : PSt) : List (Nat × Nat × Nat × String) → Bool
  | [] => false
  | r :: rest =>
    r.1 != F.kMemberWrite && StOp.ofRaw (r.1, r.2.1, r.2.2.1) == StOp.cas frm to && rest.all (quietRaw frm)

/-- `rproc.st` after a list of generated shared events. -/
def stRaw : List (Nat × Nat × Nat × String) → PSt → PSt
  | [], st => st
  | r :: rest, st =>
    if r.1 = F.kMemberWrite then stRaw rest st
    else match StOp.ofRaw (r.1, r.2.1, r.2.2.1) with
      | .store v => stRaw rest v
      | _ => stRaw rest st

/-- Starting from `to`, no proper prefix of the events leaves `rproc.st = fin`:
    `fin` is only reached by the very last event. -/
def onlyLastRaw (to fin : PSt) (rows : List (Nat × Nat × Nat × String)) : Bool :=
  (List.range rows.length).all fun k => stRaw (rows.take k) to != fin

/-- `p` occurs in `l` (bytes of a path format). -/
def hasInfix (p : List Nat) : List Nat → Bool
  | [] => p.isEmpty
  | x :: t => p.isPrefixOf (x :: t) || hasInfix p t

/-- `"thread.%d"` -/
def tidPattern : List Nat := "thread.%d".toList.map Char.toNat

/-- Path-building functions that work at the process level (called from
    `ovni_proc_init` only) or move an already built thread directory. -/
def procLevelPathFns : List String := ["mkdir_proc", "create_proc_dir", "move_thdir_to_final"]

/-- A format made of `%s` and `/` only (`"%s/%s"`): a pure join of paths that were built elsewhere.
    It adds no literal component, so it cannot make two threads meet on one path unless its inputs
    already do; it is accepted wherever it is written (a helper extracted from
    `move_thdir_to_final`, say). -/
def pureJoin (l : List Nat) : Bool := l.all (fun c => c = 37 || c = 115 || c = 47)

end Ovni.Rt.Conc
