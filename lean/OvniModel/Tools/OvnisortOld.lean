import OvniModel.Tools.Ovnisort
/-!
  `stream_winsort` as it was before `region_in_place` existed: every closed
  non-empty region went through the look back (`sortRegion` is the whole of
  the old `execute_sort_plan`).  Kept only for the witness theorem
  `second_run_fails_before_fix` of Props/C16; nothing else depends on it.
-/
namespace Ovni.Ovnisort

/-- loop body of the old `stream_winsort` (no `sp.open`, no in-place test) -/
def wsStepOld (sortFn : List Ev → List Ev) (s : WS) (e : Ev) : Except (Status × List Ev × List (Nat × Nat)) WS :=
  let k := s.done.length
  let add (s : WS) : WS := { s with ring := ringAdd s.ring k, done := s.done ++ [e] }
  if s.st = St.S ∧ e.kind = Kind.start then
    .ok (add { s with st := St.U })
  else if s.st = St.U then
    if e.kind = Kind.stop then
      .ok (add { s with st := St.S, emptyRegions := s.emptyRegions + 1 })
    else
      .ok (add { s with st := St.X, bad0 := k })
  else if s.st = St.X then
    if e.kind = Kind.stop then
      match sortRegion sortFn s.done s.ring s.bad0 with
      | (Status.ok, buf', r', p) =>
        .ok (add { s with done := buf', ring := r', st := St.S, bad0 := 0,
                          plans := s.plans ++ p.toList })
      | (st, buf', _, p) => .error (st, buf', s.plans ++ p.toList)
    else .ok (add s)
  else .ok (add s)

def wsLoopOld (sortFn : List Ev → List Ev) (trunc : Bool) : WS → List Ev → Result
  | s, [] =>
    { status := if trunc then Status.errStream else Status.ok, out := s.done,
      plans := s.plans, emptyRegions := s.emptyRegions }
  | s, e :: rest =>
    match wsStepOld sortFn s e with
    | .ok s' => wsLoopOld sortFn trunc s' rest
    | .error (st, buf, pl) =>
      { status := st, out := buf ++ e :: rest, plans := pl, emptyRegions := s.emptyRegions }

def winsortOld (sortFn : List Ev → List Ev) (n : Nat) (evs : List Ev) (trunc : Bool := false) : Result :=
  match evs with
  | [] => { status := Status.errStream, out := [], plans := [], emptyRegions := 0 }
  | _ => wsLoopOld sortFn trunc (WS.init n) evs

end Ovni.Ovnisort
