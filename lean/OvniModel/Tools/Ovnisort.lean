/-
  Model of src/emu/ovnisort.c (ring, find_destination, region_in_place,
  execute_sort_plan, sort_buf, rebuild_ring, ring_check, stream_winsort,
  stream_check) together
  with the part of src/emu/stream.c it drives (stream_step with
  stream_allow_unsorted: no clock test, only "event fits").

  A stream is a list of events.  The C code keeps pointers into the mapped
  stream buffer; the model keeps *event indices* (position of the event in
  the current buffer).  Event sizes are positive, so pointer comparisons
  (`ev >= last`, `ev != last`, `bufsize <= 0`) are equivalent to the index
  comparisons used here.

  `qsort` is the parameter `sortFn` (a function on event lists).
-/
namespace Ovni.Ovnisort

/-- Marker kind of an event: `OU[`, `OU]` or anything else
    (starts_unsorted_region / ends_unsorted_region). -/
inductive Kind where
  | start | stop | other
  deriving DecidableEq, Repr, Inhabited

/-- One event of the stream: `header.clock` (uint64), `ovni_ev_size`, the raw
    bytes (header and payload) and its marker kind. -/
structure Ev where
  clock : Nat
  size : Nat
  bytes : List Nat
  kind : Kind
  deriving DecidableEq, Repr, Inhabited

/-! ### Decoding a stream body (stream_step / ovni_ev_size) -/

def le64 (b0 b1 b2 b3 b4 b5 b6 b7 : Nat) : Nat :=
  b0 + 256 * (b1 + 256 * (b2 + 256 * (b3 + 256 * (b4 + 256 * (b5 + 256 * (b6 + 256 * b7))))))

def le32 (b0 b1 b2 b3 : Nat) : Nat :=
  b0 + 256 * (b1 + 256 * (b2 + 256 * b3))

/-- `starts_unsorted_region` / `ends_unsorted_region` on the MCV bytes. -/
def kindOf (m c v : Nat) : Kind :=
  if m = 79 ∧ c = 85 ∧ v = 91 then Kind.start
  else if m = 79 ∧ c = 85 ∧ v = 93 then Kind.stop
  else Kind.other

/-- `ovni_payload_size` (jumbo: 4 + jumbo.size; else low nibble, +1 when
    non-zero).  `none` when the jumbo size field itself is cut. The `(int)`
    cast is not modelled (sizes stay below 2^31: corrupted sizes are C19). -/
def payloadSize (flags : Nat) (rest : List Nat) : Option Nat :=
  if flags / 16 % 2 = 1 then
    match rest with
    | a :: b :: c :: d :: _ => some (4 + le32 a b c d)
    | _ => none
  else
    let s := flags % 16
    some (if s = 0 then 0 else s + 1)

/-- One `stream_step`: the event at the cursor and what follows it; `none` is
    "stream ends with incomplete event". -/
def parseEv (buf : List Nat) : Option (Ev × List Nat) :=
  match buf with
  | fl :: m :: c :: v :: c0 :: c1 :: c2 :: c3 :: c4 :: c5 :: c6 :: c7 :: rest =>
    match payloadSize fl rest with
    | none => none
    | some ps =>
      if rest.length < ps then none
      else some ({ clock := le64 c0 c1 c2 c3 c4 c5 c6 c7, size := 12 + ps,
                   bytes := buf.take (12 + ps), kind := kindOf m c v }, rest.drop ps)
  | _ => none

/-- All events of a stream body; the flag tells that an incomplete event
    follows the last complete one (stream_step will return -1 there). -/
def parseEvents : Nat → List Nat → List Ev → List Ev × Bool
  | 0, _, acc => (acc.reverse, true)
  | _ + 1, [], acc => (acc.reverse, false)
  | fuel + 1, buf, acc =>
    match parseEv buf with
    | none => (acc.reverse, true)
    | some (e, rest) => parseEvents fuel rest (e :: acc)

def decodeBody (buf : List Nat) : List Ev × Bool := parseEvents (buf.length + 1) buf []

def encodeBody (evs : List Ev) : List Nat := evs.flatMap (·.bytes)

/-! ### The ring (struct ring, ring_reset, ring_add) -/

structure Ring where
  size : Nat
  head : Nat
  tail : Nat
  /-- `r->ev[]`, one slot per entry, holding event indices -/
  ev : List Nat
  deriving Repr, DecidableEq

/-- `process_trace` allocates `max_look_back` slots; `ring_reset`. -/
def Ring.new (n : Nat) : Ring := { size := n, head := 0, tail := 0, ev := List.replicate n 0 }

/-- `ring_add` -/
def ringAdd (r : Ring) (e : Nat) : Ring :=
  let ev := r.ev.set r.tail e
  let tail := r.tail + 1
  let tail := if tail ≥ r.size then 0 else tail
  let head := if r.head = tail then tail + 1 else r.head
  let head := if head ≥ r.size then 0 else head
  { r with ev := ev, tail := tail, head := head }

/-- `i - 1 < 0 ? r->size - 1 : i - 1` -/
def decWrap (size i : Nat) : Nat := if i ≥ 1 then i - 1 else size - 1

/-- `i + 1 >= r->size ? 0 : i + 1` (rebuild_ring) and `(i + 1) % r->size`
    (ring_check): equal for `i < size`. -/
def incWrap (size i : Nat) : Nat := if i + 1 ≥ size then 0 else i + 1

/-- clock of the event with index `j` in the buffer -/
def clockAt (buf : List Ev) (j : Nat) : Nat := (buf.getD j default).clock

def slot (r : Ring) (i : Nat) : Nat := r.ev.getD i 0

inductive Dest where
  | found (slot : Nat)
  | notFound
  | dieHead
  | dieTail
  deriving DecidableEq, Repr

/-- The backwards loop of `find_destination`: `some i` = returned inside the
    loop, `none, nback` = loop ended. -/
def findLoop (buf : List Ev) (r : Ring) (clock stop : Nat) : Nat → Nat → Nat → Option Nat × Nat
  | 0, _, nback => (none, nback)
  | fuel + 1, i, nback =>
    if i = stop then (none, nback)
    else if clockAt buf (slot r i) < clock then (some i, nback)
    else findLoop buf r clock stop fuel (decWrap r.size i) (nback + 1)

/-- `find_destination` -/
def findDestination (buf : List Ev) (r : Ring) (clock : Nat) : Dest :=
  let start := decWrap r.size r.tail
  let stop := decWrap r.size r.head
  match findLoop buf r clock stop (r.size + 1) start 0 with
  | (some i, _) => Dest.found i
  | (none, nback) =>
    -- C: nback < (ssize_t) r->size - 1
    if nback + 1 < r.size then
      if r.head ≠ 0 then Dest.dieHead
      else if r.tail + 1 ≥ r.size then Dest.dieTail
      else Dest.found r.head
    else Dest.notFound

/-- `find_min_clock` over the events `[bad0, next)` -/
def minClock (init : Nat) (l : List Ev) : Nat :=
  l.foldl (fun m e => if e.clock < m then e.clock else m) init

/-- `rebuild_ring`: `none` = one of its two `die`s. -/
def rebuildLoop (r : Ring) (last : Nat) : Nat → Nat → Nat → Option (Ring × Nat)
  | 0, _, ev => some (r, ev)
  | fuel + 1, i, ev =>
    if i = r.tail then some (r, ev)
    else if ev ≥ last then none
    else rebuildLoop { r with ev := r.ev.set i ev } last fuel (incWrap r.size i) (ev + 1)

def rebuildRing (r : Ring) (start first last : Nat) : Option Ring :=
  match rebuildLoop r last (r.size + 1) start first with
  | none => none
  | some (r', ev) => if ev ≠ last then none else some r'

/-- `ring_check`: `false` = err("ring not sorted") and `return -1` (an abort before `fix: report an
    unsorted ring as an error`) -/
def ringCheckLoop (buf : List Ev) (r : Ring) : Nat → Nat → Nat → Bool
  | 0, _, _ => true
  | fuel + 1, i, lastClock =>
    if i = r.tail then true
    else
      let c := clockAt buf (slot r i)
      if c < lastClock then false
      else ringCheckLoop buf r fuel (incWrap r.size i) c

def ringCheck (buf : List Ev) (r : Ring) (start : Nat) : Bool :=
  ringCheckLoop buf r (r.size + 1) start 0

/-- Outcome of the tool on one stream.  `ok` = exit 0; `errNoDest`,
    `errStream`, `errRingNotSorted` = error message and exit 1; the `die*` = abort(). -/
inductive Status where
  | ok | errNoDest | errStream | dieHead | dieTail | dieBufsize | dieRebuild | errRingNotSorted
  deriving DecidableEq, Repr

/-- `int64_t` cast of a uint64 clock (cmp_ev) -/
def skey (c : Nat) : Int := if c < 2 ^ 63 then (c : Int) else (c : Int) - 2 ^ 64

/-- `cmp_ev a b <= 0` -/
def cmpLe (a b : Ev) : Bool := skey a.clock ≤ skey b.clock

/-- The part of `execute_sort_plan` after the `region_in_place` test (the
    whole function before that test existed): the buffer `buf` holds the
    events before `next` (= `buf.length`); `bad0` is the index of the first
    event of the region.  Returns the status, the new buffer, the ring and the
    executed plan `(first, next)` if a write happened. -/
def sortRegion (sortFn : List Ev → List Ev) (buf : List Ev) (r : Ring) (bad0 : Nat) :
    Status × List Ev × Ring × Option (Nat × Nat) :=
  let next := buf.length
  let clock0 := clockAt buf bad0
  let minc := minClock clock0 (buf.drop bad0)
  let clock0 := if minc < clock0 then minc else clock0
  match findDestination buf r clock0 with
  | Dest.notFound => (Status.errNoDest, buf, r, none)
  | Dest.dieHead => (Status.dieHead, buf, r, none)
  | Dest.dieTail => (Status.dieTail, buf, r, none)
  | Dest.found i0 =>
    let first := slot r i0
    -- bufsize = next - first
    if first ≥ next then (Status.dieBufsize, buf, r, none)
    else
      -- sort_buf + write_stream
      let buf' := buf.take first ++ sortFn (buf.drop first)
      match rebuildRing r i0 first next with
      | none => (Status.dieRebuild, buf', r, some (first, next))
      | some r' =>
        if ringCheck buf' r' i0 then (Status.ok, buf', r', some (first, next))
        else (Status.errRingNotSorted, buf', r', some (first, next))

/-- The loop of `region_in_place`: `false` as soon as a clock is lower than the
    previous one. -/
def inPlaceLoop : Nat → List Ev → Bool
  | _, [] => true
  | last, e :: l => if e.clock < last then false else inPlaceLoop e.clock l

/-- `region_in_place`: the events from the `OU[` marker (index `opn`,
    `sp->open`) up to `next` (= `buf.length`) have non-decreasing clocks;
    `last_clock` starts as the clock of the marker. -/
def regionInPlace (buf : List Ev) (opn : Nat) : Bool :=
  inPlaceLoop (clockAt buf opn) (buf.drop opn)

/-- `execute_sort_plan`: a region that is already in place is left alone (no
    look back, no write, ring untouched); otherwise `sortRegion`. -/
def executeSortPlan (sortFn : List Ev → List Ev) (buf : List Ev) (r : Ring) (opn bad0 : Nat) :
    Status × List Ev × Ring × Option (Nat × Nat) :=
  if regionInPlace buf opn then (Status.ok, buf, r, none)
  else sortRegion sortFn buf r bad0

/-- `st` of stream_winsort: 'S', 'U', 'X' -/
inductive St where
  | S | U | X
  deriving DecidableEq, Repr

structure WS where
  /-- buffer contents before the cursor -/
  done : List Ev
  ring : Ring
  st : St
  /-- `sp.open`: index of the `OU[` marker of the current region -/
  opn : Nat
  bad0 : Nat
  emptyRegions : Nat
  /-- executed sort plans `(first, next)` (ghost: the `pwrite` ranges) -/
  plans : List (Nat × Nat)
  deriving Repr

def WS.init (n : Nat) : WS :=
  { done := [], ring := Ring.new n, st := St.S, opn := 0, bad0 := 0, emptyRegions := 0, plans := [] }

/-- Body of the `while (stream_step(stream) == 0)` loop for the event `e`.
    `Except.error` = `return -1` / `die` inside `execute_sort_plan`, with
    the buffer as it is at that moment. -/
def wsStep (sortFn : List Ev → List Ev) (s : WS) (e : Ev) : Except (Status × List Ev × List (Nat × Nat)) WS :=
  let k := s.done.length
  let add (s : WS) : WS := { s with ring := ringAdd s.ring k, done := s.done ++ [e] }
  if s.st = St.S ∧ e.kind = Kind.start then
    .ok (add { s with st := St.U, opn := k })
  else if s.st = St.U then
    if e.kind = Kind.stop then
      .ok (add { s with st := St.S, emptyRegions := s.emptyRegions + 1 })
    else
      .ok (add { s with st := St.X, bad0 := k })
  else if s.st = St.X then
    if e.kind = Kind.stop then
      match executeSortPlan sortFn s.done s.ring s.opn s.bad0 with
      | (Status.ok, buf', r', p) =>
        .ok (add { s with done := buf', ring := r', st := St.S, opn := 0, bad0 := 0,
                          plans := s.plans ++ p.toList })
      | (st, buf', _, p) => .error (st, buf', s.plans ++ p.toList)
    else .ok (add s)
  else .ok (add s)

structure Result where
  status : Status
  /-- contents of the stream body afterwards -/
  out : List Ev
  plans : List (Nat × Nat)
  emptyRegions : Nat
  deriving Repr

def wsLoop (sortFn : List Ev → List Ev) (trunc : Bool) : WS → List Ev → Result
  | s, [] =>
    { status := if trunc then Status.errStream else Status.ok, out := s.done,
      plans := s.plans, emptyRegions := s.emptyRegions }
  | s, e :: rest =>
    match wsStep sortFn s e with
    | .ok s' => wsLoop sortFn trunc s' rest
    | .error (st, buf, pl) =>
      { status := st, out := buf ++ e :: rest, plans := pl, emptyRegions := s.emptyRegions }

/-- `stream_winsort` with look-back `n` (`-n`, ring.size) over the events of
    one stream; `trunc` = an incomplete event follows (stream_step fails after
    the last complete event). -/
def winsort (sortFn : List Ev → List Ev) (n : Nat) (evs : List Ev) (trunc : Bool := false) : Result :=
  match evs with
  | [] =>
    -- load_obs leaves a stream without events inactive (or the first event is
    -- incomplete): the first stream_step returns -1
    { status := Status.errStream, out := [], plans := [], emptyRegions := 0 }
  | _ => wsLoop sortFn trunc (WS.init n) evs

/-- `stream_check` (option -c): `true` = no backwards jump. -/
def checkLoop : Nat → List Ev → Bool → Bool
  | _, [], back => !back
  | last, e :: rest, back => checkLoop e.clock rest (back || decide (e.clock < last))

/-- `trunc`: an incomplete event follows (stream_step returns -1). A stream
    without events is inactive: the first stream_step fails. -/
def streamCheck (evs : List Ev) (trunc : Bool := false) : Bool :=
  match evs with
  | [] => false
  | e :: rest => !trunc && checkLoop e.clock rest false

/-- `stream_step` as the emulator runs it (`unsorted == 0`, clock offset 0):
    `clock < lastclock` on the int64 values rejects the stream; the first
    event has no previous clock. -/
def stepsMonotone : Int → List Ev → Bool
  | _, [] => true
  | last, e :: l => if skey e.clock < last then false else stepsMonotone (skey e.clock) l

def emuStreamAccepts (evs : List Ev) : Bool :=
  match evs with
  | [] => true
  | e :: l => stepsMonotone (skey e.clock) l

/-! ### A concrete `sortFn`: insertion sort with the comparator of `cmp_ev` -/

/-- insert `x` *before* the first element whose key is ≥ the key of `x` -/
def insertEv (x : Ev) : List Ev → List Ev
  | [] => [x]
  | y :: l => if skey x.clock ≤ skey y.clock then x :: y :: l else y :: insertEv x l

/-- Stable insertion sort: `x` precedes everything in `l`, and is inserted
    before the elements of equal key. -/
def isort : List Ev → List Ev
  | [] => []
  | x :: l => insertEv x (isort l)

/-! ### Preconditions (decidable) -/

/-- `OnlyRegionsUnsorted`: walking the stream with the region automaton and
    the running maximum clock, every event met in state S and every marker
    closing a region is ≥ all earlier events; the stream ends in state S. -/
def regionsOk : St → Nat → List Ev → Bool
  | st, _, [] => st = St.S
  | St.S, mx, e :: rest =>
    mx ≤ e.clock && regionsOk (if e.kind = Kind.start then St.U else St.S) (max mx e.clock) rest
  | St.U, mx, e :: rest =>
    if e.kind = Kind.stop then mx ≤ e.clock && regionsOk St.S (max mx e.clock) rest
    else regionsOk St.X (max mx e.clock) rest
  | St.X, mx, e :: rest =>
    if e.kind = Kind.stop then mx ≤ e.clock && regionsOk St.S (max mx e.clock) rest
    else regionsOk St.X (max mx e.clock) rest

def OnlyRegionsUnsorted (evs : List Ev) : Prop := regionsOk St.S 0 evs = true

/-- number of events of `l` with clock ≥ `m` -/
def geCount (m : Nat) (l : List Ev) : Nat := (l.filter (fun e => m ≤ e.clock)).length

/-- The window condition for a region closed by the event at index `k`, with
    minimum region clock `m`, over the `k` events `pre` that precede the
    closing marker: fewer than `n-1` events precede, or the events with clock
    ≥ m are fewer than `n-1` and not all of them. -/
def windowOkAt (n : Nat) (m : Nat) (pre : List Ev) : Bool :=
  pre.length + 1 < n || (geCount m pre + 1 < n && geCount m pre < pre.length)

/-- `WithinWindow n`: at every non-empty region that is not already in place
    the window condition holds.  `pre` are the events before the cursor (most
    recent first), `m` the minimum clock of the current region so far, `ip`
    tells that the clocks from the `OU[` marker on have not decreased so far
    and `last` is the clock of the previous event. -/
def windowOk (n : Nat) : St → List Ev → Nat → Bool → Nat → List Ev → Bool
  | _, _, _, _, _, [] => true
  | St.S, pre, _, _, _, e :: rest =>
    windowOk n (if e.kind = Kind.start then St.U else St.S) (e :: pre) 0 true e.clock rest
  | St.U, pre, _, _, last, e :: rest =>
    if e.kind = Kind.stop then windowOk n St.S (e :: pre) 0 true e.clock rest
    else windowOk n St.X (e :: pre) e.clock (decide (last ≤ e.clock)) e.clock rest
  | St.X, pre, m, ip, last, e :: rest =>
    if e.kind = Kind.stop then (ip || windowOkAt n m pre) && windowOk n St.S (e :: pre) 0 true e.clock rest
    else windowOk n St.X (e :: pre) (min m e.clock) (ip && decide (last ≤ e.clock)) e.clock rest

def WithinWindow (n : Nat) (evs : List Ev) : Prop := windowOk n St.S [] 0 true 0 evs = true

def ClocksSigned (evs : List Ev) : Prop := ∀ e ∈ evs, e.clock < 2 ^ 63

instance (evs : List Ev) : Decidable (OnlyRegionsUnsorted evs) := by unfold OnlyRegionsUnsorted; infer_instance
instance (n : Nat) (evs : List Ev) : Decidable (WithinWindow n evs) := by unfold WithinWindow; infer_instance
instance (evs : List Ev) : Decidable (ClocksSigned evs) := by unfold ClocksSigned; infer_instance

end Ovni.Ovnisort
