-- GENERATED from /repo on every run by checks/lib/gen.py; do not edit.
namespace Ovni.Generated.Nodes
def name : String := "nodes"
def nameBytes : List Nat := [110, 111, 100, 101, 115]
def modelChar : Nat := 68
def version : List Nat := [49, 46, 48, 46, 48]
def versionStr : String := "1.0.0"
def hasFinish : Bool := true
def evlist : List (String × String) := [
  ("DR[", "begins registering task accesses"),
  ("DR]", "ceases registering task accesses"),
  ("DU[", "begins unregistering task accesses"),
  ("DU]", "ceases unregistering task accesses"),
  ("DW[", "enters a blocking condition (waiting for an If0 task)"),
  ("DW]", "leaves a blocking condition (waiting for an If0 task)"),
  ("DI[", "begins the inline execution of an If0 task"),
  ("DI]", "ceases the inline execution of an If0 task"),
  ("DT[", "enters a taskwait"),
  ("DT]", "leaves a taskwait"),
  ("DC[", "begins creating a task"),
  ("DC]", "ceases creating a task"),
  ("DS[", "begins submitting a task"),
  ("DS]", "ceases submitting a task"),
  ("DP[", "begins spawning a function"),
  ("DP]", "ceases spawning a function")
]
def nch : Nat := 1
def chanNames : List String := ["subsystem"]
def chanStack : List Bool := [true]
def chanDup : List Bool := [false]
def cpuChanStack : List Bool := [true]
def cpuNch : Nat := 1
def pvtType : List Nat := [30]
def cpuPvtType : List Nat := [30]
def pcfPrefix : List String := ["NODES subsystem"]
def prvFlags : List Nat := [2]
def thTrack : List Nat := [2]
def cpuTrack : List Nat := [1]
/-- per channel: the PCF value labels (value, label) -/
def labels : List (List (Int × String)) := [
  [(1, "Dependencies: Registering task accesses"), (2, "Dependencies: Unregistering task accesses"), (3, "If0: Waiting for an If0 task"), (4, "If0: Executing an If0 task inline"), (5, "Taskwait: Taskwait"), (6, "Add Task: Creating a task"), (7, "Add Task: Submitting a task"), (8, "Spawn Function: Spawning a function")]
]
/-- (category, value, channel, action, state value); action: 1 push, 2 pop, 3 set, 4 ignore -/
def table : List (Nat × Nat × Nat × Nat × Int) := [
  (67, 91, 0, 1, 6),
  (67, 93, 0, 2, 6),
  (73, 91, 0, 1, 4),
  (73, 93, 0, 2, 4),
  (80, 91, 0, 1, 8),
  (80, 93, 0, 2, 8),
  (82, 91, 0, 1, 1),
  (82, 93, 0, 2, 1),
  (83, 91, 0, 1, 7),
  (83, 93, 0, 2, 7),
  (84, 91, 0, 1, 5),
  (84, 93, 0, 2, 5),
  (85, 91, 0, 1, 2),
  (85, 93, 0, 2, 2),
  (87, 91, 0, 1, 3),
  (87, 93, 0, 2, 3)
]
end Ovni.Generated.Nodes
