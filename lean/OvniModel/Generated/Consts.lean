-- GENERATED from /repo on every run by checks/lib/gen.py; do not edit.
namespace Ovni.Generated
def maxEvBuf : Nat := 2097152
def evHeaderSize : Nat := 12
def evMaxSize : Nat := 28
def payloadMax : Nat := 16
def jumboSizeField : Nat := 4
def streamHeaderSize : Nat := 8
def streamMagic : List Nat := [111, 118, 110, 105]
def streamVersion : Nat := 1
def metadataVersion : Nat := 3
def jumboFlag : Nat := 16
def libVersion : List Nat := [49, 46, 49, 49, 46, 48]
def ovniModelVersion : List Nat := [49, 46, 49, 46, 48]
def maxChanStack : Nat := 512
def markStackFlag : Nat := 1
/-- (name, version, model char) of every registered model -/
def modelVersions : List (List Nat × List Nat × Nat) := [
  ([111, 118, 110, 105], [49, 46, 49, 46, 48], 79),
  ([110, 97, 110, 111, 115, 54], [49, 46, 49, 46, 48], 54),
  ([110, 111, 115, 118], [50, 46, 52, 46, 48], 86),
  ([110, 111, 100, 101, 115], [49, 46, 48, 46, 48], 68),
  ([116, 97, 109, 112, 105], [49, 46, 48, 46, 48], 84),
  ([109, 112, 105], [49, 46, 48, 46, 48], 77),
  ([107, 101, 114, 110, 101, 108], [49, 46, 48, 46, 48], 75),
  ([111, 112, 101, 110, 109, 112], [49, 46, 49, 46, 48], 80)
]
def thStUnknown : Nat := 0
def thStRunning : Nat := 1
def thStPaused : Nat := 2
def thStDead : Nat := 3
def thStCooling : Nat := 4
def thStWarming : Nat := 5
def prvCpuPid : Nat := 1
def prvCpuTid : Nat := 2
def prvCpuNrun : Nat := 3
def prvThreadTid : Nat := 2
def prvThreadState : Nat := 4
def prvThreadCpu : Nat := 6
def prvOvniMark : Nat := 100
def prvReserved : Nat := 200
def prvEmitDup : Nat := 1
def prvSkipDup : Nat := 2
def prvNext : Nat := 4
def prvZero : Nat := 8
def prvSkipDupNull : Nat := 16
def trackAny : Nat := 0
def trackRun : Nat := 1
def trackAct : Nat := 2
def taskFlagParallel : Nat := 1
def taskFlagResurrect : Nat := 2
def taskFlagPause : Nat := 4
def taskFlagRelaxNesting : Nat := 8
def bodyFlagPause : Nat := 1
def bodyFlagResurrect : Nat := 2
def bodyFlagRelaxNesting : Nat := 4
end Ovni.Generated
