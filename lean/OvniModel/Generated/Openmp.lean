-- GENERATED from /repo on every run by checks/lib/gen.py; do not edit.
namespace Ovni.Generated.Openmp
def name : String := "openmp"
def nameBytes : List Nat := [111, 112, 101, 110, 109, 112]
def modelChar : Nat := 80
def version : List Nat := [49, 46, 49, 46, 48]
def versionStr : String := "1.1.0"
def hasFinish : Bool := true
def evlist : List (String × String) := [
  ("PBb", "begins plain barrier"),
  ("PBB", "ceases plain barrier"),
  ("PBj", "begins join barrier"),
  ("PBJ", "ceases join barrier"),
  ("PBf", "begins fork barrier"),
  ("PBF", "ceases fork barrier"),
  ("PBt", "begins tasking barrier"),
  ("PBT", "ceases tasking barrier"),
  ("PBs", "begins spin wait"),
  ("PBS", "ceases spin wait"),
  ("PIa", "begins critical acquiring"),
  ("PIA", "ceases critical acquiring"),
  ("PIr", "begins critical releasing"),
  ("PIR", "ceases critical releasing"),
  ("PI[", "begins critical section"),
  ("PI]", "ceases critical section"),
  ("PWd", "begins distribute"),
  ("PWD", "ceases distribute"),
  ("PWy", "begins dynamic for init"),
  ("PWY", "ceases dynamic for init"),
  ("PWc", "begins dynamic for chunk"),
  ("PWC", "ceases dynamic for chunk"),
  ("PWs", "begins static for"),
  ("PWS", "ceases static for"),
  ("PWe", "begins section"),
  ("PWE", "ceases section"),
  ("PWi", "begins single"),
  ("PWI", "ceases single"),
  ("PTa", "begins task allocation"),
  ("PTA", "ceases task allocation"),
  ("PTc", "begins checking task dependencies"),
  ("PTC", "ceases checking task dependencies"),
  ("PTd", "begins duplicating a task"),
  ("PTD", "ceases duplicating a task"),
  ("PTr", "begins releasing task dependencies"),
  ("PTR", "ceases releasing task dependencies"),
  ("PT[", "begins running a task"),
  ("PT]", "ceases running a task"),
  ("PTi", "begins running an if0 task"),
  ("PTI", "ceases running an if0 task"),
  ("PTs", "begins scheduling a task"),
  ("PTS", "ceases scheduling a task"),
  ("PTg", "begins a taskgroup"),
  ("PTG", "ceases a taskgroup"),
  ("PTt", "begins a taskwait"),
  ("PTT", "ceases a taskwait"),
  ("PTw", "begins waiting for taskwait dependencies"),
  ("PTW", "ceases waiting for taskwait dependencies"),
  ("PTy", "begins a taskyield"),
  ("PTY", "ceases a taskyield"),
  ("PA[", "enters the attached state"),
  ("PA]", "leaves the attached state"),
  ("PMi", "begins microtask internal"),
  ("PMI", "ceases microtask internal"),
  ("PMu", "begins microtask user code"),
  ("PMU", "ceases microtask user code"),
  ("PH[", "begins worker loop"),
  ("PH]", "ceases worker loop"),
  ("PCf", "begins fork call"),
  ("PCF", "ceases fork call"),
  ("PCi", "begins initialization"),
  ("PCI", "ceases initialization")
]
def nch : Nat := 1
def chanNames : List String := ["subsystem"]
def chanStack : List Bool := [true]
def chanDup : List Bool := [true]
def cpuChanStack : List Bool := [true]
def cpuNch : Nat := 1
def pvtType : List Nat := [50]
def cpuPvtType : List Nat := [50]
def pcfPrefix : List String := ["OpenMP subsystem"]
def prvFlags : List Nat := [1]
def thTrack : List Nat := [2]
def cpuTrack : List Nat := [1]
/-- per channel: the PCF value labels (value, label) -/
def labels : List (List (Int × String)) := [
  [(9, "Work-distribution: Distribute"), (10, "Work-distribution: Dynamic for chunk"), (11, "Work-distribution: Dynamic for initialization"), (12, "Work-distribution: Static for chunk"), (13, "Work-distribution: Section"), (14, "Work-distribution: Single"), (15, "Task: Allocation"), (16, "Task: Check deps"), (17, "Task: Duplicating"), (18, "Task: Releasing deps"), (19, "Task: Running task"), (20, "Task: Running task if0"), (21, "Task: Scheduling"), (22, "Task: Taskgroup"), (23, "Task: Taskwait"), (24, "Task: Taskwait deps"), (25, "Task: Taskyield"), (6, "Critical: Acquiring"), (7, "Critical: Releasing"), (8, "Critical: Section"), (1, "Barrier: Fork"), (2, "Barrier: Join"), (3, "Barrier: Plain"), (5, "Barrier: Task"), (4, "Barrier: Spin wait"), (26, "Runtime: Attached"), (27, "Runtime: Fork call"), (28, "Runtime: Initialization"), (29, "Runtime: Internal microtask"), (30, "Runtime: User microtask"), (31, "Runtime: Worker main loop")]
]
/-- (category, value, channel, action, state value); action: 1 push, 2 pop, 3 set, 4 ignore -/
def table : List (Nat × Nat × Nat × Nat × Int) := [
  (65, 91, 0, 1, 26),
  (65, 93, 0, 2, 26),
  (66, 66, 0, 2, 3),
  (66, 70, 0, 2, 1),
  (66, 74, 0, 2, 2),
  (66, 83, 0, 4, 4),
  (66, 84, 0, 2, 5),
  (66, 98, 0, 1, 3),
  (66, 102, 0, 1, 1),
  (66, 106, 0, 1, 2),
  (66, 115, 0, 4, 4),
  (66, 116, 0, 1, 5),
  (67, 70, 0, 2, 27),
  (67, 73, 0, 2, 28),
  (67, 102, 0, 1, 27),
  (67, 105, 0, 1, 28),
  (72, 91, 0, 1, 31),
  (72, 93, 0, 2, 31),
  (73, 65, 0, 2, 6),
  (73, 82, 0, 2, 7),
  (73, 91, 0, 1, 8),
  (73, 93, 0, 2, 8),
  (73, 97, 0, 1, 6),
  (73, 114, 0, 1, 7),
  (77, 73, 0, 2, 29),
  (77, 85, 0, 2, 30),
  (77, 105, 0, 1, 29),
  (77, 117, 0, 1, 30),
  (84, 65, 0, 2, 15),
  (84, 67, 0, 2, 16),
  (84, 68, 0, 2, 17),
  (84, 71, 0, 2, 22),
  (84, 73, 0, 2, 20),
  (84, 82, 0, 2, 18),
  (84, 83, 0, 2, 21),
  (84, 84, 0, 2, 23),
  (84, 87, 0, 2, 24),
  (84, 89, 0, 2, 25),
  (84, 91, 0, 1, 19),
  (84, 93, 0, 2, 19),
  (84, 97, 0, 1, 15),
  (84, 99, 0, 1, 16),
  (84, 100, 0, 1, 17),
  (84, 103, 0, 1, 22),
  (84, 105, 0, 1, 20),
  (84, 114, 0, 1, 18),
  (84, 115, 0, 1, 21),
  (84, 116, 0, 1, 23),
  (84, 119, 0, 1, 24),
  (84, 121, 0, 1, 25),
  (87, 67, 0, 2, 10),
  (87, 68, 0, 2, 9),
  (87, 69, 0, 2, 13),
  (87, 73, 0, 2, 14),
  (87, 83, 0, 2, 12),
  (87, 89, 0, 2, 11),
  (87, 99, 0, 1, 10),
  (87, 100, 0, 1, 9),
  (87, 101, 0, 1, 13),
  (87, 105, 0, 1, 14),
  (87, 115, 0, 1, 12),
  (87, 121, 0, 1, 11)
]
end Ovni.Generated.Openmp
