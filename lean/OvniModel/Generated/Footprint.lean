-- GENERATED from /repo (src/rt/ovni.c, src/common.c) on every run by tools/gen/gen_footprint.py
-- (clang -Xclang -ast-dump=json); do not edit.
namespace Ovni.Generated.Footprint

/-! Values of the `ST_*` enum as the compiler sees them. -/
def stUninit : Nat := 0
def stInit : Nat := 1
def stReady : Nat := 2
def stGone : Nat := 3
def unknownVal : Nat := 999

/-! Operation on `rproc.st`: `(kind, a, b)`; kind 0 = atomic load (compared with `a`, 999 = not directly compared),
    1 = atomic store of `a`, 2 = atomic_compare_exchange_strong expecting `a` storing `b`, 3 = unrecognised access. -/
def kLoad : Nat := 0
def kStore : Nat := 1
def kCas : Nat := 2
def kUnknown : Nat := 3
def kMemberWrite : Nat := 4

/-- Per public API function (transitively through its callees): name, rproc members read,
    rproc members written, touches rthread, ordered operations on rproc.st. -/
def table : List (String × List String × List String × Bool × List (Nat × Nat × Nat)) := [
  ("ovni_version_get", [], [], false, []),
  ("ovni_version_check_str", [], [], false, []),
  ("ovni_add_cpu", ["st"], [], true, [(0, 2, 0)]),
  ("ovni_proc_set_rank", ["st"], [], true, [(0, 2, 0)]),
  ("ovni_proc_init", ["loom", "loomdir", "procdir", "procdir_final", "st", "tmpdir"], ["app", "clockid", "loom", "loomdir", "move_to_final", "pid", "procdir", "procdir_final", "st", "tmpdir"], false, [(2, 0, 1), (1, 2, 0)]),
  ("ovni_proc_fini", ["loomdir", "move_to_final", "procdir", "st", "tmpdir"], ["st"], false, [(2, 2, 3)]),
  ("ovni_thread_require", [], [], true, []),
  ("ovni_thread_init", ["app", "loom", "move_to_final", "pid", "procdir", "procdir_final", "st"], [], true, [(0, 2, 0)]),
  ("ovni_thread_free", ["move_to_final", "procdir"], [], true, []),
  ("ovni_thread_isready", [], [], true, []),
  ("ovni_clock_now", ["clockid"], [], false, []),
  ("ovni_ev_set_clock", [], [], false, []),
  ("ovni_ev_get_clock", [], [], false, []),
  ("ovni_ev_set_mcv", [], [], false, []),
  ("ovni_payload_size", [], [], false, []),
  ("ovni_payload_add", [], [], false, []),
  ("ovni_ev_size", [], [], false, []),
  ("ovni_flush", ["clockid", "st"], [], true, [(0, 2, 0)]),
  ("ovni_ev_jumbo_emit", ["clockid"], [], true, []),
  ("ovni_ev_emit", ["clockid"], [], true, []),
  ("ovni_attr_has", [], [], true, []),
  ("ovni_attr_set_double", [], [], true, []),
  ("ovni_attr_get_double", [], [], true, []),
  ("ovni_attr_get_boolean", [], [], true, []),
  ("ovni_attr_set_boolean", [], [], true, []),
  ("ovni_attr_set_str", [], [], true, []),
  ("ovni_attr_get_str", [], [], true, []),
  ("ovni_attr_set_json", [], [], true, []),
  ("ovni_attr_get_json", [], [], true, []),
  ("ovni_attr_flush", ["procdir"], [], true, []),
  ("ovni_mark_type", [], [], true, []),
  ("ovni_mark_label", [], [], true, []),
  ("ovni_mark_push", ["clockid"], [], true, []),
  ("ovni_mark_pop", ["clockid"], [], true, []),
  ("ovni_mark_set", ["clockid"], [], true, [])
]

/-- Per function: ordered shared events `(kind, a, b, member)`: the st operations above and
    (kind 4) every write of an rproc member, in source order. -/
def order : List (String × List (Nat × Nat × Nat × String)) := [
  ("ovni_version_get", []),
  ("ovni_version_check_str", []),
  ("ovni_add_cpu", [(0, 2, 0, "st")]),
  ("ovni_proc_set_rank", [(0, 2, 0, "st")]),
  ("ovni_proc_init", [(2, 0, 1, "st"), (4, 0, 0, "loom"), (4, 0, 0, "pid"), (4, 0, 0, "app"), (4, 0, 0, "clockid"), (4, 0, 0, "loomdir"), (4, 0, 0, "tmpdir"), (4, 0, 0, "move_to_final"), (4, 0, 0, "procdir"), (4, 0, 0, "procdir_final"), (4, 0, 0, "move_to_final"), (4, 0, 0, "procdir"), (1, 2, 0, "st")]),
  ("ovni_proc_fini", [(2, 2, 3, "st")]),
  ("ovni_thread_require", []),
  ("ovni_thread_init", [(0, 2, 0, "st")]),
  ("ovni_thread_free", []),
  ("ovni_thread_isready", []),
  ("ovni_clock_now", []),
  ("ovni_ev_set_clock", []),
  ("ovni_ev_get_clock", []),
  ("ovni_ev_set_mcv", []),
  ("ovni_payload_size", []),
  ("ovni_payload_add", []),
  ("ovni_ev_size", []),
  ("ovni_flush", [(0, 2, 0, "st")]),
  ("ovni_ev_jumbo_emit", []),
  ("ovni_ev_emit", []),
  ("ovni_attr_has", []),
  ("ovni_attr_set_double", []),
  ("ovni_attr_get_double", []),
  ("ovni_attr_get_boolean", []),
  ("ovni_attr_set_boolean", []),
  ("ovni_attr_set_str", []),
  ("ovni_attr_get_str", []),
  ("ovni_attr_set_json", []),
  ("ovni_attr_get_json", []),
  ("ovni_attr_flush", []),
  ("ovni_mark_type", []),
  ("ovni_mark_label", []),
  ("ovni_mark_push", []),
  ("ovni_mark_pop", []),
  ("ovni_mark_set", [])
]

/-- Variables with static storage that are neither thread-local nor const, defined in ovni.c. -/
def sharedGlobals : List String := ["rproc"]
/-- The same over all analysed files (ovni.c, common.c). -/
def sharedGlobalsAll : List String := ["rproc", "progname", "is_debug_enabled"]
def threadLocals : List String := ["rthread"]

/-- Per function: shared globals other than rproc that it writes (transitively). -/
def otherWrites : List (String × List String) := [
  ("ovni_version_get", []),
  ("ovni_version_check_str", []),
  ("ovni_add_cpu", []),
  ("ovni_proc_set_rank", []),
  ("ovni_proc_init", []),
  ("ovni_proc_fini", []),
  ("ovni_thread_require", []),
  ("ovni_thread_init", []),
  ("ovni_thread_free", []),
  ("ovni_thread_isready", []),
  ("ovni_clock_now", []),
  ("ovni_ev_set_clock", []),
  ("ovni_ev_get_clock", []),
  ("ovni_ev_set_mcv", []),
  ("ovni_payload_size", []),
  ("ovni_payload_add", []),
  ("ovni_ev_size", []),
  ("ovni_flush", []),
  ("ovni_ev_jumbo_emit", []),
  ("ovni_ev_emit", []),
  ("ovni_attr_has", []),
  ("ovni_attr_set_double", []),
  ("ovni_attr_get_double", []),
  ("ovni_attr_get_boolean", []),
  ("ovni_attr_set_boolean", []),
  ("ovni_attr_set_str", []),
  ("ovni_attr_get_str", []),
  ("ovni_attr_set_json", []),
  ("ovni_attr_get_json", []),
  ("ovni_attr_flush", []),
  ("ovni_mark_type", []),
  ("ovni_mark_label", []),
  ("ovni_mark_push", []),
  ("ovni_mark_pop", []),
  ("ovni_mark_set", [])
]

/-- Every path the runtime builds: (function, format string of its snprintf, the same as bytes). -/
def pathFormats : List (String × String × List Nat) := [
  ("mkdir_thread", "%s/thread.%d", [37, 115, 47, 116, 104, 114, 101, 97, 100, 46, 37, 100]),
  ("create_trace_stream", "%s/thread.%d/stream.obs", [37, 115, 47, 116, 104, 114, 101, 97, 100, 46, 37, 100, 47, 115, 116, 114, 101, 97, 109, 46, 111, 98, 115]),
  ("mkdir_proc", "%s/loom.%s/proc.%d/", [37, 115, 47, 108, 111, 111, 109, 46, 37, 115, 47, 112, 114, 111, 99, 46, 37, 100, 47]),
  ("create_proc_dir", "%s/loom.%s", [37, 115, 47, 108, 111, 111, 109, 46, 37, 115]),
  ("move_thdir_to_final", "%s/%s", [37, 115, 47, 37, 115]),
  ("move_thdir_to_final", "%s/%s", [37, 115, 47, 37, 115]),
  ("thread_metadata_store", "%s/thread.%d/stream.json", [37, 115, 47, 116, 104, 114, 101, 97, 100, 46, 37, 100, 47, 115, 116, 114, 101, 97, 109, 46, 106, 115, 111, 110])
]

/-- What the analysis could not resolve (indirect calls); must be empty. -/
def unresolved : List String := []

end Ovni.Generated.Footprint
