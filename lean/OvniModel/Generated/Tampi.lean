-- GENERATED from /repo on every run by checks/lib/gen.py; do not edit.
namespace Ovni.Generated.Tampi
def name : String := "tampi"
def nameBytes : List Nat := [116, 97, 109, 112, 105]
def modelChar : Nat := 84
def version : List Nat := [49, 46, 48, 46, 48]
def versionStr : String := "1.0.0"
def hasFinish : Bool := true
def evlist : List (String × String) := [
  ("TCi", "starts issuing a non-blocking communication operation"),
  ("TCI", "stops  issuing a non-blocking communication operation"),
  ("TGc", "starts checking pending requests from the global array"),
  ("TGC", "stops  checking pending requests from the global array"),
  ("TLi", "enters the library code at an API function"),
  ("TLI", "leaves the library code at an API function"),
  ("TLp", "enters the library code at a polling function"),
  ("TLP", "leaves the library code at a polling function"),
  ("TQa", "starts adding a ticket/requests to a queue"),
  ("TQA", "stops  adding a ticket/requests to a queue"),
  ("TQt", "starts transferring tickets/requests from queues to global array"),
  ("TQT", "stops  transferring tickets/requests from queues to global array"),
  ("TRc", "starts processsing a completed request"),
  ("TRC", "stops  processsing a completed request"),
  ("TRt", "starts testing a single request with MPI_Test"),
  ("TRT", "stops  testing a single request with MPI_Test"),
  ("TRa", "starts testing several requests with MPI_Testall"),
  ("TRA", "stops  testing several requests with MPI_Testall"),
  ("TRs", "starts testing several requests with MPI_Testsome"),
  ("TRS", "stops  testing several requests with MPI_Testsome"),
  ("TTc", "starts creating a ticket linked to a set of requests and a task"),
  ("TTC", "stops  creating a ticket linked to a set of requests and a task"),
  ("TTw", "starts waiting for a ticket completion"),
  ("TTW", "stops  waiting for a ticket completion")
]
def nch : Nat := 1
def chanNames : List String := ["subsystem"]
def chanStack : List Bool := [true]
def chanDup : List Bool := [false]
def cpuChanStack : List Bool := [true]
def cpuNch : Nat := 1
def pvtType : List Nat := [20]
def cpuPvtType : List Nat := [20]
def pcfPrefix : List String := ["TAMPI subsystem"]
def prvFlags : List Nat := [2]
def thTrack : List Nat := [2]
def cpuTrack : List Nat := [1]
/-- per channel: the PCF value labels (value, label) -/
def labels : List (List (Int × String)) := [
  [(1, "Communication: Issuing a non-blocking operation"), (2, "Global array: Checking pending requests"), (3, "Library code: Interface function"), (4, "Library code: Polling function"), (5, "Queue: Adding to a queue"), (6, "Queue: Transfering to global array"), (8, "Request: Testing a request"), (7, "Request: Processing a completed request"), (9, "Request: Testing all requests"), (10, "Request: Testing some requests"), (11, "Ticket: Creating a ticket"), (12, "Ticket: Waiting a ticket")]
]
/-- (category, value, channel, action, state value); action: 1 push, 2 pop, 3 set, 4 ignore -/
def table : List (Nat × Nat × Nat × Nat × Int) := [
  (67, 73, 0, 2, 1),
  (67, 105, 0, 1, 1),
  (71, 67, 0, 2, 2),
  (71, 99, 0, 1, 2),
  (76, 73, 0, 2, 3),
  (76, 80, 0, 2, 4),
  (76, 105, 0, 1, 3),
  (76, 112, 0, 1, 4),
  (81, 65, 0, 2, 5),
  (81, 84, 0, 2, 6),
  (81, 97, 0, 1, 5),
  (81, 116, 0, 1, 6),
  (82, 65, 0, 2, 9),
  (82, 67, 0, 2, 7),
  (82, 83, 0, 2, 10),
  (82, 84, 0, 2, 8),
  (82, 97, 0, 1, 9),
  (82, 99, 0, 1, 7),
  (82, 115, 0, 1, 10),
  (82, 116, 0, 1, 8),
  (84, 67, 0, 2, 11),
  (84, 87, 0, 2, 12),
  (84, 99, 0, 1, 11),
  (84, 119, 0, 1, 12)
]
end Ovni.Generated.Tampi
