-- GENERATED from /repo on every run by checks/lib/gen.py; do not edit.
namespace Ovni.Generated.Nanos6
def name : String := "nanos6"
def nameBytes : List Nat := [110, 97, 110, 111, 115, 54]
def modelChar : Nat := 54
def version : List Nat := [49, 46, 49, 46, 48]
def versionStr : String := "1.1.0"
def hasFinish : Bool := true
def evlist : List (String × String) := [
  ("6Yc+(u32 typeid, str label)", "creates task type %{typeid} with label \"%{label}\""),
  ("6Tc(u32 taskid, u32 typeid)", "creates task %{taskid} with type %{typeid}"),
  ("6Tx(u32 taskid)", "executes the task %{taskid}"),
  ("6Te(u32 taskid)", "ends the task %{taskid}"),
  ("6Tp(u32 taskid)", "pauses the task %{taskid}"),
  ("6Tr(u32 taskid)", "resumes the task %{taskid}"),
  ("6W[", "enters worker main loop, looking for tasks"),
  ("6W]", "leaves worker main loop, looking for tasks"),
  ("6Wt", "begins handling a task via handleTask()"),
  ("6WT", "ceases handling a task via handleTask()"),
  ("6Ww", "begins switching to another worker via switchTo()"),
  ("6WW", "ceases switching to another worker via switchTo()"),
  ("6Wm", "begins migrating the current worker to another CPU"),
  ("6WM", "ceases migrating the current worker to another CPU"),
  ("6Ws", "begins suspending the worker via suspend()"),
  ("6WS", "ceases suspending the worker via suspend()"),
  ("6Wr", "begins resuming another worker via resume()"),
  ("6WR", "ceases resuming another worker via resume()"),
  ("6Wg", "enters sponge mode (absorbing system noise)"),
  ("6WG", "leaves sponge mode (absorbing system noise)"),
  ("6W*", "signals another worker to wake up"),
  ("6Pp", "sets progress state to Progressing"),
  ("6Pr", "sets progress state to Resting"),
  ("6Pa", "sets progress state to Absorbing"),
  ("6C[", "begins creating a new task"),
  ("6C]", "ceases creating a new task"),
  ("6U[", "begins submitting a task via submitTask()"),
  ("6U]", "ceases submitting a task via submitTask()"),
  ("6F[", "begins spawning a function via spawnFunction()"),
  ("6F]", "ceases spawning a function via spawnFunction()"),
  ("6t[", "enters the task body"),
  ("6t]", "leaves the task body"),
  ("6O[", "begins running the task body as taskfor collaborator"),
  ("6O]", "ceases running the task body as taskfor collaborator"),
  ("6Ma", "starts allocating memory"),
  ("6MA", "stops  allocating memory"),
  ("6Mf", "starts freeing memory"),
  ("6MF", "stops  freeing memory"),
  ("6Dr", "begins registration of task dependencies"),
  ("6DR", "ceases registration of task dependencies"),
  ("6Du", "begins unregistration of task dependencies"),
  ("6DU", "ceases unregistration of task dependencies"),
  ("6S[", "begins scheduler serving mode"),
  ("6S]", "ceases scheduler serving mode"),
  ("6Sa", "begins submitting a ready task via addReadyTask()"),
  ("6SA", "ceases submitting a ready task via addReadyTask()"),
  ("6Sp", "begins processing ready tasks via processReadyTasks()"),
  ("6SP", "ceases processing ready tasks via processReadyTasks()"),
  ("6S@", "self assigns itself a task"),
  ("6Sr", "receives a task from another thread"),
  ("6Ss", "sends a task to another thread"),
  ("6Bb", "begins blocking the current task"),
  ("6BB", "ceases blocking the current task"),
  ("6Bu", "begins unblocking a task"),
  ("6BU", "ceases unblocking a task"),
  ("6Bw", "enters a task wait"),
  ("6BW", "leaves a task wait"),
  ("6Bf", "enters a wait for"),
  ("6BF", "leaves a wait for"),
  ("6He", "begins execution as external thread"),
  ("6HE", "ceases execution as external thread"),
  ("6Hw", "begins execution as worker"),
  ("6HW", "ceases execution as worker"),
  ("6Hl", "begins execution as leader"),
  ("6HL", "ceases execution as leader"),
  ("6Hm", "begins execution as main thread"),
  ("6HM", "ceases execution as main thread")
]
def nch : Nat := 6
def chanNames : List String := ["taskid", "task_type", "subsystem", "rank", "thread_type", "idle"]
def chanStack : List Bool := [false, false, true, false, true, false]
def chanDup : List Bool := [false, true, true, true, false, false]
def cpuChanStack : List Bool := [false, false, true, false, true, false]
def cpuNch : Nat := 6
def pvtType : List Nat := [35, 36, 37, 38, 39, 40]
def cpuPvtType : List Nat := [35, 36, 37, 38, 39, 40]
def pcfPrefix : List String := ["Nanos6 task ID", "Nanos6 task type", "Nanos6 subsystem", "Nanos6 task MPI rank", "Nanos6 thread type", "Nanos6 idle state"]
def prvFlags : List Nat := [2, 1, 2, 1, 2, 2]
def thTrack : List Nat := [1, 1, 2, 1, 0, 1]
def cpuTrack : List Nat := [1, 1, 1, 1, 1, 1]
/-- per channel: the PCF value labels (value, label) -/
def labels : List (List (Int × String)) := [
  [],
  [],
  [(2, "Unknown subsystem"), (1, "Task: Running body"), (3, "Task: Creating"), (4, "Task: Submitting"), (5, "Task: Spawning function"), (6, "Task: Running task for"), (9, "Scheduler: Serving tasks"), (7, "Scheduler: Adding ready tasks"), (8, "Scheduler: Processing ready tasks"), (10, "Dependency: Registering"), (11, "Dependency: Unregistering"), (12, "Blocking: Taskwait"), (14, "Blocking: Blocking current task"), (15, "Blocking: Unblocking remote task"), (13, "Blocking: Wait for deadline"), (18, "Worker: Handling task"), (19, "Worker: Looking for work"), (20, "Worker: Switching to another thread"), (21, "Worker: Migrating CPU"), (22, "Worker: Suspending thread"), (23, "Worker: Resuming another thread"), (24, "Worker: Sponge mode"), (16, "Memory: Allocating"), (17, "Memory: Freeing"), (61, "EV Scheduler: Send task"), (60, "EV Scheduler: Recv task"), (62, "EV Scheduler: Self-assign task"), (63, "EV CPU: Becomes idle"), (64, "EV CPU: Becomes active"), (65, "EV Worker: Waking another thread")],
  [],
  [(4, "External"), (3, "Worker"), (1, "Leader"), (2, "Main")],
  [(100, "Progressing"), (101, "Resting"), (102, "Absorbing noise")]
]
def stTaskBody : Int := 1
def stUnknownSs : Int := 2
def stProgressing : Int := 100
def stResting : Int := 101
def stAbsorbing : Int := 102
/-- (category, value, channel, action, state value); action: 1 push, 2 pop, 3 set, 4 ignore -/
def table : List (Nat × Nat × Nat × Nat × Int) := [
  (66, 66, 2, 2, 14),
  (66, 70, 2, 2, 13),
  (66, 85, 2, 2, 15),
  (66, 87, 2, 2, 12),
  (66, 98, 2, 1, 14),
  (66, 102, 2, 1, 13),
  (66, 117, 2, 1, 15),
  (66, 119, 2, 1, 12),
  (67, 91, 2, 1, 3),
  (67, 93, 2, 2, 3),
  (68, 82, 2, 2, 10),
  (68, 85, 2, 2, 11),
  (68, 114, 2, 1, 10),
  (68, 117, 2, 1, 11),
  (70, 91, 2, 1, 5),
  (70, 93, 2, 2, 5),
  (72, 69, 4, 2, 4),
  (72, 76, 4, 2, 1),
  (72, 77, 4, 2, 2),
  (72, 87, 4, 2, 3),
  (72, 101, 4, 1, 4),
  (72, 108, 4, 1, 1),
  (72, 109, 4, 1, 2),
  (72, 119, 4, 1, 3),
  (77, 65, 2, 2, 16),
  (77, 70, 2, 2, 17),
  (77, 97, 2, 1, 16),
  (77, 102, 2, 1, 17),
  (79, 91, 2, 1, 6),
  (79, 93, 2, 2, 6),
  (80, 97, 5, 3, 102),
  (80, 112, 5, 3, 100),
  (80, 114, 5, 3, 101),
  (83, 64, 2, 4, (-1)),
  (83, 65, 2, 2, 7),
  (83, 80, 2, 2, 8),
  (83, 91, 2, 1, 9),
  (83, 93, 2, 2, 9),
  (83, 97, 2, 1, 7),
  (83, 112, 2, 1, 8),
  (83, 114, 2, 4, (-1)),
  (83, 115, 2, 4, (-1)),
  (85, 91, 2, 1, 4),
  (85, 93, 2, 2, 4),
  (87, 42, 2, 4, (-1)),
  (87, 71, 2, 2, 24),
  (87, 77, 2, 2, 21),
  (87, 82, 2, 2, 23),
  (87, 83, 2, 2, 22),
  (87, 84, 2, 2, 18),
  (87, 87, 2, 2, 20),
  (87, 91, 2, 1, 19),
  (87, 93, 2, 2, 19),
  (87, 103, 2, 1, 24),
  (87, 109, 2, 1, 21),
  (87, 114, 2, 1, 23),
  (87, 115, 2, 1, 22),
  (87, 116, 2, 1, 18),
  (87, 119, 2, 1, 20),
  (116, 91, 2, 4, (-1)),
  (116, 93, 2, 4, (-1))
]
end Ovni.Generated.Nanos6
