-- GENERATED from /repo (src/emu/<model>/event.c, setup.c) on every run by tools/gen/gen_handlers.py
-- (clang -Xclang -ast-dump=json; constants confirmed by the C compiler); do not edit.
namespace Ovni.Generated.Handlers

/-- One `case` label of a `switch` on `emu->ev->c` / `emu->ev->v`, with what the
    statements of its group do. -/
structure Case where
  /-- the character constant of the label -/
  label : Nat
  /-- first function called that is not error reporting ("" = none) -/
  callee : String
  /-- 0 none, 1 `chan_push`, 2 `chan_pop`, 3 `chan_set` (when `callee` is one of them) -/
  chanOp : Nat
  /-- `K` when the channel operated on is `…m.ch[K]` -/
  chan : Option Nat
  /-- 0 = not a constant, 1 = `value_int64(val)`, 2 = `value_null()` -/
  valKind : Nat
  val : Int
  /-- `emu->thread->is_out_of_cpu = K` among the statements of the case -/
  outOfCpu : Option Nat
deriving DecidableEq, Repr

structure Switch where
  /-- function that contains the switch -/
  fn : String
  /-- member of `emu->ev` switched on: "c" or "v" -/
  on : String
  cases : List Case
  /-- `default:` returns an error -/
  defaultErr : Bool
deriving DecidableEq, Repr

structure Facts where
  model : String
  /-- the character `model_<m>_event` compares `emu->ev->m` with -/
  evChar : Option Nat
  /-- functions from `model_<m>_event` to the one that dispatches -/
  path : List String
  /-- the function with the category switch or the direct table lookup -/
  handler : String
  /-- `if (<cond>) return -1` on the way to the dispatch: (member of `emu->thread`,
      is the test negated); e.g. `("is_active", true)` = `if (!emu->thread->is_active)` -/
  guards : List (String × Bool)
  /-- the handler has no category switch and indexes the event table itself -/
  directTable : Bool
  /-- name of the event table ("" = none) and the functions that index it -/
  table : String
  tableFns : List String
  /-- the category switch of the handler (first, if any), then the value
      switch of each function called from one of its cases -/
  switches : List Switch
  /-- functions called from a case that begin with `if (ev->v != 'x') return -1` -/
  valueTests : List (String × List Nat)
  /-- `end_lint` (called by `model_<m>_finish`): channel whose stack must be empty -/
  lintChan : Option Nat
  /-- `model_<m>_connect`: `chan_set(&…m.ch[K], value_int64(X))` as `(K, X)` -/
  initVals : List (Nat × Int)
  /-- `model_<m>_connect`: `mux_set_default(&…m.track[K].mux, value_int64(Y))` as `(K, Y)` -/
  cpuDefault : List (Nat × Int)
  /-- `model_<m>_probe` ends in an unconditional `return 1` (every other return fails) -/
  probeAlways : Bool
  /-- what the extraction did not recognise; must be empty -/
  unresolved : List String
deriving DecidableEq, Repr


def ovni : Facts :=
  { model := "ovni",
    evChar := (some 79),
    path := ["model_ovni_event"],
    handler := "model_ovni_event",
    guards := [("is_out_of_cpu", false)],
    directTable := false,
    table := "",
    tableFns := [],
    switches := [
      { fn := "model_ovni_event", on := "c", defaultErr := true,
        cases := [
          { label := 72, callee := "pre_thread", chanOp := 0, chan := none, valKind := 0, val := 0, outOfCpu := none },
          { label := 65, callee := "pre_affinity", chanOp := 0, chan := none, valKind := 0, val := 0, outOfCpu := none },
          { label := 66, callee := "pre_burst", chanOp := 0, chan := none, valKind := 0, val := 0, outOfCpu := none },
          { label := 67, callee := "pre_cpu", chanOp := 0, chan := none, valKind := 0, val := 0, outOfCpu := none },
          { label := 70, callee := "pre_flush", chanOp := 0, chan := none, valKind := 0, val := 0, outOfCpu := none },
          { label := 85, callee := "", chanOp := 0, chan := none, valKind := 0, val := 0, outOfCpu := none },
          { label := 77, callee := "mark_event", chanOp := 0, chan := none, valKind := 0, val := 0, outOfCpu := none }] },
      { fn := "pre_thread", on := "v", defaultErr := true,
        cases := [
          { label := 67, callee := "", chanOp := 0, chan := none, valKind := 0, val := 0, outOfCpu := none },
          { label := 120, callee := "pre_thread_execute", chanOp := 0, chan := none, valKind := 0, val := 0, outOfCpu := none },
          { label := 101, callee := "pre_thread_end", chanOp := 0, chan := none, valKind := 0, val := 0, outOfCpu := none },
          { label := 112, callee := "pre_thread_pause", chanOp := 0, chan := none, valKind := 0, val := 0, outOfCpu := none },
          { label := 114, callee := "pre_thread_resume", chanOp := 0, chan := none, valKind := 0, val := 0, outOfCpu := none },
          { label := 99, callee := "pre_thread_cool", chanOp := 0, chan := none, valKind := 0, val := 0, outOfCpu := none },
          { label := 119, callee := "pre_thread_warm", chanOp := 0, chan := none, valKind := 0, val := 0, outOfCpu := none }] },
      { fn := "pre_affinity", on := "v", defaultErr := true,
        cases := [
          { label := 115, callee := "pre_affinity_set", chanOp := 0, chan := none, valKind := 0, val := 0, outOfCpu := none },
          { label := 114, callee := "pre_affinity_remote", chanOp := 0, chan := none, valKind := 0, val := 0, outOfCpu := none }] },
      { fn := "pre_cpu", on := "v", defaultErr := true,
        cases := [
          { label := 110, callee := "", chanOp := 0, chan := none, valKind := 0, val := 0, outOfCpu := none }] },
      { fn := "pre_flush", on := "v", defaultErr := true,
        cases := [
          { label := 91, callee := "chan_set", chanOp := 3, chan := (some 0), valKind := 1, val := 1, outOfCpu := none },
          { label := 93, callee := "chan_set", chanOp := 3, chan := (some 0), valKind := 2, val := 0, outOfCpu := none }] },
      { fn := "mark_event", on := "v", defaultErr := true,
        cases := [
          { label := 91, callee := "chan_push", chanOp := 1, chan := none, valKind := 0, val := 0, outOfCpu := none },
          { label := 93, callee := "chan_pop", chanOp := 2, chan := none, valKind := 0, val := 0, outOfCpu := none },
          { label := 61, callee := "chan_set", chanOp := 3, chan := none, valKind := 0, val := 0, outOfCpu := none }] }],
    valueTests := [],
    lintChan := none,
    initVals := [],
    cpuDefault := [],
    probeAlways := true,
    unresolved := [] }

def nanos6 : Facts :=
  { model := "nanos6",
    evChar := (some 54),
    path := ["model_nanos6_event", "process_ev"],
    handler := "process_ev",
    guards := [("is_active", true)],
    directTable := false,
    table := "ss_table",
    tableFns := ["simple"],
    switches := [
      { fn := "process_ev", on := "c", defaultErr := true,
        cases := [
          { label := 67, callee := "simple", chanOp := 0, chan := none, valKind := 0, val := 0, outOfCpu := none },
          { label := 83, callee := "simple", chanOp := 0, chan := none, valKind := 0, val := 0, outOfCpu := none },
          { label := 85, callee := "simple", chanOp := 0, chan := none, valKind := 0, val := 0, outOfCpu := none },
          { label := 70, callee := "simple", chanOp := 0, chan := none, valKind := 0, val := 0, outOfCpu := none },
          { label := 79, callee := "simple", chanOp := 0, chan := none, valKind := 0, val := 0, outOfCpu := none },
          { label := 116, callee := "simple", chanOp := 0, chan := none, valKind := 0, val := 0, outOfCpu := none },
          { label := 72, callee := "simple", chanOp := 0, chan := none, valKind := 0, val := 0, outOfCpu := none },
          { label := 68, callee := "simple", chanOp := 0, chan := none, valKind := 0, val := 0, outOfCpu := none },
          { label := 66, callee := "simple", chanOp := 0, chan := none, valKind := 0, val := 0, outOfCpu := none },
          { label := 87, callee := "simple", chanOp := 0, chan := none, valKind := 0, val := 0, outOfCpu := none },
          { label := 77, callee := "simple", chanOp := 0, chan := none, valKind := 0, val := 0, outOfCpu := none },
          { label := 80, callee := "simple", chanOp := 0, chan := none, valKind := 0, val := 0, outOfCpu := none },
          { label := 84, callee := "pre_task", chanOp := 0, chan := none, valKind := 0, val := 0, outOfCpu := none },
          { label := 89, callee := "pre_type", chanOp := 0, chan := none, valKind := 0, val := 0, outOfCpu := none }] },
      { fn := "pre_task", on := "v", defaultErr := true,
        cases := [
          { label := 67, callee := "", chanOp := 0, chan := none, valKind := 0, val := 0, outOfCpu := none },
          { label := 99, callee := "create_task", chanOp := 0, chan := none, valKind := 0, val := 0, outOfCpu := none },
          { label := 120, callee := "update_task", chanOp := 0, chan := none, valKind := 0, val := 0, outOfCpu := none },
          { label := 101, callee := "update_task", chanOp := 0, chan := none, valKind := 0, val := 0, outOfCpu := none },
          { label := 114, callee := "update_task", chanOp := 0, chan := none, valKind := 0, val := 0, outOfCpu := none },
          { label := 112, callee := "update_task", chanOp := 0, chan := none, valKind := 0, val := 0, outOfCpu := none }] }],
    valueTests := [("pre_type", [99])],
    lintChan := (some 2),
    initVals := [(5, 100)],
    cpuDefault := [(5, 101)],
    probeAlways := false,
    unresolved := [] }

def nosv : Facts :=
  { model := "nosv",
    evChar := (some 86),
    path := ["model_nosv_event", "process_ev"],
    handler := "process_ev",
    guards := [("is_active", true), ("is_out_of_cpu", false)],
    directTable := false,
    table := "ss_table",
    tableFns := ["simple"],
    switches := [
      { fn := "process_ev", on := "c", defaultErr := true,
        cases := [
          { label := 83, callee := "simple", chanOp := 0, chan := none, valKind := 0, val := 0, outOfCpu := none },
          { label := 85, callee := "simple", chanOp := 0, chan := none, valKind := 0, val := 0, outOfCpu := none },
          { label := 77, callee := "simple", chanOp := 0, chan := none, valKind := 0, val := 0, outOfCpu := none },
          { label := 72, callee := "simple", chanOp := 0, chan := none, valKind := 0, val := 0, outOfCpu := none },
          { label := 65, callee := "simple", chanOp := 0, chan := none, valKind := 0, val := 0, outOfCpu := none },
          { label := 80, callee := "simple", chanOp := 0, chan := none, valKind := 0, val := 0, outOfCpu := none },
          { label := 84, callee := "pre_task", chanOp := 0, chan := none, valKind := 0, val := 0, outOfCpu := none },
          { label := 89, callee := "pre_type", chanOp := 0, chan := none, valKind := 0, val := 0, outOfCpu := none }] },
      { fn := "pre_task", on := "v", defaultErr := true,
        cases := [
          { label := 67, callee := "create_task", chanOp := 0, chan := none, valKind := 0, val := 0, outOfCpu := none },
          { label := 99, callee := "create_task", chanOp := 0, chan := none, valKind := 0, val := 0, outOfCpu := none },
          { label := 120, callee := "update_task", chanOp := 0, chan := none, valKind := 0, val := 0, outOfCpu := none },
          { label := 101, callee := "update_task", chanOp := 0, chan := none, valKind := 0, val := 0, outOfCpu := none },
          { label := 114, callee := "update_task", chanOp := 0, chan := none, valKind := 0, val := 0, outOfCpu := none },
          { label := 112, callee := "update_task", chanOp := 0, chan := none, valKind := 0, val := 0, outOfCpu := none }] }],
    valueTests := [("pre_type", [99])],
    lintChan := (some 4),
    initVals := [(6, 100)],
    cpuDefault := [(6, 101)],
    probeAlways := false,
    unresolved := [] }

def nodes : Facts :=
  { model := "nodes",
    evChar := (some 68),
    path := ["model_nodes_event", "process_ev"],
    handler := "process_ev",
    guards := [("is_running", true)],
    directTable := false,
    table := "ss_table",
    tableFns := ["simple"],
    switches := [
      { fn := "process_ev", on := "c", defaultErr := true,
        cases := [
          { label := 82, callee := "simple", chanOp := 0, chan := none, valKind := 0, val := 0, outOfCpu := none },
          { label := 85, callee := "simple", chanOp := 0, chan := none, valKind := 0, val := 0, outOfCpu := none },
          { label := 87, callee := "simple", chanOp := 0, chan := none, valKind := 0, val := 0, outOfCpu := none },
          { label := 73, callee := "simple", chanOp := 0, chan := none, valKind := 0, val := 0, outOfCpu := none },
          { label := 84, callee := "simple", chanOp := 0, chan := none, valKind := 0, val := 0, outOfCpu := none },
          { label := 67, callee := "simple", chanOp := 0, chan := none, valKind := 0, val := 0, outOfCpu := none },
          { label := 83, callee := "simple", chanOp := 0, chan := none, valKind := 0, val := 0, outOfCpu := none },
          { label := 80, callee := "simple", chanOp := 0, chan := none, valKind := 0, val := 0, outOfCpu := none }] }],
    valueTests := [],
    lintChan := (some 0),
    initVals := [],
    cpuDefault := [],
    probeAlways := false,
    unresolved := [] }

def tampi : Facts :=
  { model := "tampi",
    evChar := (some 84),
    path := ["model_tampi_event", "process_ev"],
    handler := "process_ev",
    guards := [("is_running", true)],
    directTable := true,
    table := "ss_table",
    tableFns := ["process_ev"],
    switches := [],
    valueTests := [],
    lintChan := (some 0),
    initVals := [],
    cpuDefault := [],
    probeAlways := false,
    unresolved := [] }

def mpi : Facts :=
  { model := "mpi",
    evChar := (some 77),
    path := ["model_mpi_event", "process_ev"],
    handler := "process_ev",
    guards := [("is_running", true)],
    directTable := true,
    table := "fn_table",
    tableFns := ["process_ev"],
    switches := [],
    valueTests := [],
    lintChan := (some 0),
    initVals := [],
    cpuDefault := [],
    probeAlways := false,
    unresolved := [] }

def kernel : Facts :=
  { model := "kernel",
    evChar := (some 75),
    path := ["model_kernel_event", "process_ev"],
    handler := "process_ev",
    guards := [],
    directTable := false,
    table := "",
    tableFns := [],
    switches := [
      { fn := "process_ev", on := "c", defaultErr := true,
        cases := [
          { label := 67, callee := "context_switch", chanOp := 0, chan := none, valKind := 0, val := 0, outOfCpu := none }] },
      { fn := "context_switch", on := "v", defaultErr := true,
        cases := [
          { label := 79, callee := "chan_push", chanOp := 1, chan := (some 0), valKind := 1, val := 3, outOfCpu := (some 1) },
          { label := 73, callee := "chan_pop", chanOp := 2, chan := (some 0), valKind := 1, val := 3, outOfCpu := (some 0) }] }],
    valueTests := [],
    lintChan := none,
    initVals := [],
    cpuDefault := [],
    probeAlways := false,
    unresolved := [] }

def openmp : Facts :=
  { model := "openmp",
    evChar := (some 80),
    path := ["model_openmp_event", "process_ev"],
    handler := "process_ev",
    guards := [("is_running", true)],
    directTable := true,
    table := "fn_table",
    tableFns := ["process_ev"],
    switches := [],
    valueTests := [],
    lintChan := (some 0),
    initVals := [],
    cpuDefault := [],
    probeAlways := false,
    unresolved := [] }

/-- in the registration order of `models.c` -/
def all : List Facts := [ovni, nanos6, nosv, nodes, tampi, mpi, kernel, openmp]

end Ovni.Generated.Handlers
