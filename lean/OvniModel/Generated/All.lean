-- GENERATED from /repo on every run by checks/lib/gen.py; do not edit.
import OvniModel.Generated.Consts
import OvniModel.Generated.Ovni
import OvniModel.Generated.Nanos6
import OvniModel.Generated.Nosv
import OvniModel.Generated.Nodes
import OvniModel.Generated.Tampi
import OvniModel.Generated.Mpi
import OvniModel.Generated.Kernel
import OvniModel.Generated.Openmp
import OvniModel.Generated.Handlers
