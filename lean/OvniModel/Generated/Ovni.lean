-- GENERATED from /repo on every run by checks/lib/gen.py; do not edit.
namespace Ovni.Generated.Ovni
def name : String := "ovni"
def nameBytes : List Nat := [111, 118, 110, 105]
def modelChar : Nat := 79
def version : List Nat := [49, 46, 49, 46, 48]
def versionStr : String := "1.1.0"
def hasFinish : Bool := true
def evlist : List (String × String) := [
  ("OAr(i32 cpu, i32 tid)", "changes the affinity of thread %{tid} to CPU %{cpu}"),
  ("OAs(i32 cpu)", "switches it's own affinity to the CPU %{cpu}"),
  ("OB.", "emits a burst event to measure latency"),
  ("OHC(i32 cpu, u64 tag)", "creates a new thread on CPU %{cpu} with tag %#llx{tag}"),
  ("OHc", "enters the Cooling state (about to be paused)"),
  ("OHe", "ends the execution"),
  ("OHp", "pauses the execution"),
  ("OHr", "resumes the execution"),
  ("OHw", "enters the Warming state (about to be running)"),
  ("OHx(i32 cpu, i32 tid, u64 tag)", "begins the execution on CPU %{cpu} created from %{tid} with tag %#llx{tag}"),
  ("OCn(i32 cpu)", "informs there are %{cpu} CPUs"),
  ("OF[", "begins flushing events to disk"),
  ("OF]", "ceases flushing events to disk"),
  ("OU[", "enters unordered event region"),
  ("OU]", "leaves unordered event region"),
  ("OM[(i64 value, i32 type)", "push mark with value %{value} from type %{type}"),
  ("OM](i64 value, i32 type)", "pop mark with value %{value} from type %{type}"),
  ("OM=(i64 value, i32 type)", "set mark with value %{value} from type %{type}")
]
def nch : Nat := 1
def chanNames : List String := ["flush"]
def chanStack : List Bool := [false]
def chanDup : List Bool := [false]
def cpuChanStack : List Bool := [false]
def cpuNch : Nat := 1
def pvtType : List Nat := [7]
def cpuPvtType : List Nat := [7]
def pcfPrefix : List String := ["Flushing ovni buffer"]
def prvFlags : List Nat := [2]
def thTrack : List Nat := [0]
def cpuTrack : List Nat := [1]
/-- per channel: the PCF value labels (value, label) -/
def labels : List (List (Int × String)) := [
  [(1, "Flushing")]
]
def table : List (Nat × Nat × Nat × Nat × Int) := []
end Ovni.Generated.Ovni
