-- GENERATED from /repo on every run by checks/lib/gen.py; do not edit.
namespace Ovni.Generated.Kernel
def name : String := "kernel"
def nameBytes : List Nat := [107, 101, 114, 110, 101, 108]
def modelChar : Nat := 75
def version : List Nat := [49, 46, 48, 46, 48]
def versionStr : String := "1.0.0"
def hasFinish : Bool := false
def evlist : List (String × String) := [
  ("KCO", "out of CPU"),
  ("KCI", "back to CPU")
]
def nch : Nat := 1
def chanNames : List String := ["context_switch"]
def chanStack : List Bool := [true]
def chanDup : List Bool := [false]
def cpuChanStack : List Bool := [true]
def cpuNch : Nat := 1
def pvtType : List Nat := [45]
def cpuPvtType : List Nat := [45]
def pcfPrefix : List String := ["Kernel context switch"]
def prvFlags : List Nat := [2]
def thTrack : List Nat := [0]
def cpuTrack : List Nat := [1]
/-- per channel: the PCF value labels (value, label) -/
def labels : List (List (Int × String)) := [
  [(3, "Context switch: Out of the CPU")]
]
def table : List (Nat × Nat × Nat × Nat × Int) := []
end Ovni.Generated.Kernel
