-- GENERATED from /repo on every run by checks/lib/gen.py; do not edit.
namespace Ovni.Generated.Nosv
def name : String := "nosv"
def nameBytes : List Nat := [110, 111, 115, 118]
def modelChar : Nat := 86
def version : List Nat := [50, 46, 52, 46, 48]
def versionStr : String := "2.4.0"
def hasFinish : Bool := true
def evlist : List (String × String) := [
  ("VTc(u32 taskid, u32 typeid)", "creates task %{taskid} with type %{typeid}"),
  ("VTC(u32 taskid, u32 typeid)", "creates parallel task %{taskid} with type %{typeid}"),
  ("VTx(u32 taskid, u32 bodyid)", "executes the task %{taskid} with bodyid %{bodyid}"),
  ("VTe(u32 taskid, u32 bodyid)", "ends the task %{taskid} with bodyid %{bodyid}"),
  ("VTp(u32 taskid, u32 bodyid)", "pauses the task %{taskid} with bodyid %{bodyid}"),
  ("VTr(u32 taskid, u32 bodyid)", "resumes the task %{taskid} with bodyid %{bodyid}"),
  ("VYc+(u32 typeid, str label)", "creates task type %{typeid} with label \"%{label}\""),
  ("VSr", "receives a task from another thread"),
  ("VSs", "sends a task to another thread"),
  ("VS@", "self assigns itself a task"),
  ("VSh", "enters the hungry state, waiting for work"),
  ("VSf", "is no longer hungry"),
  ("VS[", "enters scheduler server mode"),
  ("VS]", "leaves scheduler server mode"),
  ("VU[", "starts submitting a task"),
  ("VU]", "stops  submitting a task"),
  ("VMa", "starts allocating memory"),
  ("VMA", "stops  allocating memory"),
  ("VMf", "starts freeing memory"),
  ("VMF", "stops  freeing memory"),
  ("VAr", "enters nosv_create()"),
  ("VAR", "leaves nosv_create()"),
  ("VAd", "enters nosv_destroy()"),
  ("VAD", "leaves nosv_destroy()"),
  ("VAs", "enters nosv_submit()"),
  ("VAS", "leaves nosv_submit()"),
  ("VAp", "enters nosv_pause()"),
  ("VAP", "leaves nosv_pause()"),
  ("VAy", "enters nosv_yield()"),
  ("VAY", "leaves nosv_yield()"),
  ("VAw", "enters nosv_waitfor()"),
  ("VAW", "leaves nosv_waitfor()"),
  ("VAc", "enters nosv_schedpoint()"),
  ("VAC", "leaves nosv_schedpoint()"),
  ("VAa", "enters nosv_attach()"),
  ("VAA", "leaves nosv_attach()"),
  ("VAe", "enters nosv_detach()"),
  ("VAE", "leaves nosv_detach()"),
  ("VAl", "enters nosv_mutex_lock()"),
  ("VAL", "leaves nosv_mutex_lock()"),
  ("VAt", "enters nosv_mutex_trylock()"),
  ("VAT", "leaves nosv_mutex_trylock()"),
  ("VAu", "enters nosv_mutex_unlock()"),
  ("VAU", "leaves nosv_mutex_unlock()"),
  ("VAb", "enters nosv_barrier_wait()"),
  ("VAB", "leaves nosv_barrier_wait()"),
  ("VAo", "enters nosv_cond_wait()"),
  ("VAO", "leaves nosv_cond_wait()"),
  ("VAg", "enters nosv_cond_signal()"),
  ("VAG", "leaves nosv_cond_signal()"),
  ("VAk", "enters nosv_cond_broadcast()"),
  ("VAK", "leaves nosv_cond_broadcast()"),
  ("VHa", "enters nosv_attach()"),
  ("VHA", "leaves nosv_dettach()"),
  ("VHw", "begins execution as worker"),
  ("VHW", "ceases execution as worker"),
  ("VHd", "begins execution as delegate"),
  ("VHD", "ceases execution as delegate"),
  ("VPp", "sets progress state to Progressing"),
  ("VPr", "sets progress state to Resting"),
  ("VPa", "sets progress state to Absorbing")
]
def nch : Nat := 7
def chanNames : List String := ["bodyid", "taskid", "task_type", "appid", "subsystem", "rank", "idle"]
def chanStack : List Bool := [false, false, false, false, true, false, false]
def chanDup : List Bool := [true, false, true, true, true, true, false]
def cpuChanStack : List Bool := [false, false, false, false, true, false, false]
def cpuNch : Nat := 7
def pvtType : List Nat := [15, 10, 11, 12, 13, 14, 16]
def cpuPvtType : List Nat := [15, 10, 11, 12, 13, 14, 16]
def pcfPrefix : List String := ["nOS-V task body ID", "nOS-V task ID", "nOS-V task type", "nOS-V task AppID", "nOS-V subsystem", "nOS-V task MPI rank", "nOS-V idle state"]
def prvFlags : List Nat := [16, 16, 16, 16, 16, 16, 16]
def thTrack : List Nat := [1, 1, 1, 1, 2, 1, 1]
def cpuTrack : List Nat := [1, 1, 1, 1, 1, 1, 1]
/-- per channel: the PCF value labels (value, label) -/
def labels : List (List (Int × String)) := [
  [],
  [],
  [],
  [],
  [(2, "Unknown subsystem"), (6, "Scheduler: Hungry"), (7, "Scheduler: Serving"), (8, "Scheduler: Submitting"), (9, "Memory: Allocating"), (10, "Memory: Freeing"), (11, "Task: In body"), (12, "API: Create"), (13, "API: Destroy"), (14, "API: Submit"), (15, "API: Pause"), (16, "API: Yield"), (17, "API: Waitfor"), (18, "API: Scheduling point"), (19, "API: Attach"), (20, "API: Detach"), (21, "API: Mutex lock"), (22, "API: Mutex trylock"), (23, "API: Mutex unlock"), (24, "API: Barrier wait"), (25, "API: Cond wait"), (26, "API: Cond signal"), (27, "API: Cond broadcast"), (28, "Thread: Worker"), (29, "Thread: Delegate"), (31, "EV Scheduler: Send task"), (30, "EV Scheduler: Recv task"), (32, "EV Scheduler: Self-assign task")],
  [],
  [(100, "Progressing"), (101, "Resting"), (102, "Absorbing noise")]
]
def stTaskBody : Int := 11
def stUnknownSs : Int := 2
def stProgressing : Int := 100
def stResting : Int := 101
def stAbsorbing : Int := 102
/-- (category, value, channel, action, state value); action: 1 push, 2 pop, 3 set, 4 ignore -/
def table : List (Nat × Nat × Nat × Nat × Int) := [
  (65, 65, 4, 2, 19),
  (65, 66, 4, 2, 24),
  (65, 67, 4, 2, 18),
  (65, 68, 4, 2, 13),
  (65, 69, 4, 2, 20),
  (65, 71, 4, 2, 26),
  (65, 75, 4, 2, 27),
  (65, 76, 4, 2, 21),
  (65, 79, 4, 2, 25),
  (65, 80, 4, 2, 15),
  (65, 82, 4, 2, 12),
  (65, 83, 4, 2, 14),
  (65, 84, 4, 2, 22),
  (65, 85, 4, 2, 23),
  (65, 87, 4, 2, 17),
  (65, 89, 4, 2, 16),
  (65, 97, 4, 1, 19),
  (65, 98, 4, 1, 24),
  (65, 99, 4, 1, 18),
  (65, 100, 4, 1, 13),
  (65, 101, 4, 1, 20),
  (65, 103, 4, 1, 26),
  (65, 107, 4, 1, 27),
  (65, 108, 4, 1, 21),
  (65, 111, 4, 1, 25),
  (65, 112, 4, 1, 15),
  (65, 114, 4, 1, 12),
  (65, 115, 4, 1, 14),
  (65, 116, 4, 1, 22),
  (65, 117, 4, 1, 23),
  (65, 119, 4, 1, 17),
  (65, 121, 4, 1, 16),
  (72, 65, 4, 4, 0),
  (72, 68, 4, 2, 29),
  (72, 87, 4, 2, 28),
  (72, 97, 4, 4, 0),
  (72, 100, 4, 1, 29),
  (72, 119, 4, 1, 28),
  (77, 65, 4, 2, 9),
  (77, 70, 4, 2, 10),
  (77, 97, 4, 1, 9),
  (77, 102, 4, 1, 10),
  (80, 97, 6, 3, 102),
  (80, 112, 6, 3, 100),
  (80, 114, 6, 3, 101),
  (83, 64, 4, 4, (-1)),
  (83, 91, 4, 1, 7),
  (83, 93, 4, 2, 7),
  (83, 102, 4, 2, 6),
  (83, 104, 4, 1, 6),
  (83, 114, 4, 4, (-1)),
  (83, 115, 4, 4, (-1)),
  (85, 91, 4, 1, 8),
  (85, 93, 4, 2, 8)
]
end Ovni.Generated.Nosv
